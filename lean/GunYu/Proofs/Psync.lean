/-
  Helper lemmas for C06 (Props/C06.lean): the cache query API under `CacheWF`,
  the start point, the admission rule, and the shape of `syncMeta`'s result.
-/
import GunYu.Model.Psync

namespace GunYu.Psync

/-! ### cache queries under well-formedness (both backends agree) -/

/-- the snapshot serves the offsets before it, and its own offset while no log is held
    (with a log starting there the log serves it; with a log starting later — memory,
    after the collector — nobody does) -/
def rdbCovers (c : Cache) (off : Int) : Prop :=
  match c.rdb with | some (left, _) => off < left ∨ (off = left ∧ c.aof = none) | none => False
def aofCovers (c : Cache) (off : Int) : Prop :=
  match c.aof with | some (l, r) => l ≤ off ∧ off ≤ r | none => False

theorem inRange_iff {c : Cache} (h : CacheWF c) (off : Int) :
    c.inRange off = true ↔ rdbCovers c off ∨ aofCovers c off := by
  obtain ⟨be, rid, rdb, aof⟩ := c
  obtain ⟨ha, hr, hc, _⟩ := h
  cases be <;> cases rdb <;> cases aof <;>
    simp only [Cache.inRange, Cache.range, maxInt64, rdbCovers, aofCovers] <;>
    (try rename_i x; obtain ⟨a, b⟩ := x) <;> (try rename_i y; obtain ⟨a', b'⟩ := y) <;>
    simp
  all_goals (simp only [maxInt64, if_true, if_false, reduceCtorEq] at ha hr hc; omega)


theorem latest_aof {c : Cache} {l r : Int} (h : c.aof = some (l, r)) : c.latest = r := by
  simp [Cache.latest, h]

theorem latest_rdb {c : Cache} {left size : Int} (ha : c.aof = none) (h : c.rdb = some (left, size)) :
    c.latest = left := by
  simp [Cache.latest, h, ha]

theorem latest_none {c : Cache} (ha : c.aof = none) (h : c.rdb = none) : c.latest = -1 := by
  simp [Cache.latest, h, ha]

/-- the right end reported by `GetOffsetRange` is the newest offset -/
theorem range_snd {c : Cache} (h : CacheWF c) (hd : c.rdb.isSome ∨ c.aof.isSome) :
    c.range.2 = c.latest := by
  obtain ⟨be, rid, rdb, aof⟩ := c
  obtain ⟨ha, hr, hc, _⟩ := h
  cases be <;> cases rdb <;> cases aof <;>
    simp only [Cache.range, Cache.latest, maxInt64] <;>
    (try rename_i x; obtain ⟨a, b⟩ := x) <;> (try rename_i y; obtain ⟨a', b'⟩ := y) <;>
    simp at hd ⊢
  all_goals (simp only [maxInt64, if_true, if_false, reduceCtorEq] at ha hr hc; omega)

/-! ### start point -/

theorem contains_ids {a b x : Id} : [a, b].contains x = true ↔ x = a ∨ x = b := by
  simp

theorem startPoint_in {s : Source} (hs : SourceWF s) (c : Cache)
    (h : [s.id1, s.id2].contains (c.startPoint [s.id1, s.id2]).runId = true) :
    c.startPoint [s.id1, s.id2] = ⟨c.runId, c.latest⟩ ∧ (c.runId = s.id1 ∨ c.runId = s.id2) := by
  have h1e := hs.id1_ne; have h1q := hs.id1_nq; have h2e := hs.id2_ne; have h2q := hs.id2_nq
  have h1e' := Ne.symm h1e; have h1q' := Ne.symm h1q; have h2e' := Ne.symm h2e; have h2q' := Ne.symm h2q
  rw [contains_ids] at h
  cases hb : c.backend <;> simp only [Cache.startPoint, hb] at h ⊢ <;>
    by_cases e1 : c.runId = s.id1 <;> by_cases e2 : c.runId = s.id2 <;>
    by_cases hl : c.latest = 0 <;> by_cases hn : c.latest < 0 <;>
    simp_all [realId, SP.initial, eq_comm (a := s.id1) (b := c.runId), eq_comm (a := s.id2) (b := c.runId)]
  all_goals (split at h <;> simp_all)

/-! ### admission and SendPSync -/

theorem admit_cont {s : Source} {id : Id} {off : Int} {nid : Id} (h : admitPsync s id off = .cont nid) :
    (id = s.id1 ∨ (id = s.id2 ∧ off ≤ s.switchOff + 1)) ∧ s.backlog = true ∧
      s.backlogFirst ≤ off ∧ off ≤ s.backlogFirst + s.backlogLen := by
  unfold admitPsync at h
  split at h
  · cases h
  · split at h
    · cases h
    · rename_i h1 h2
      refine ⟨?_, ?_, ?_, ?_⟩
      · by_cases e1 : id = s.id1
        · exact Or.inl e1
        · by_cases e2 : id = s.id2
          · right; refine ⟨e2, ?_⟩
            false_or_by_contra; rename_i hgt
            exact h1 ⟨e1, Or.inr (by omega)⟩
          · exact absurd ⟨e1, Or.inl e2⟩ h1
      · cases hb : s.backlog <;> simp_all
      · false_or_by_contra; rename_i hlt; exact h2 (Or.inr (Or.inl (by omega)))
      · false_or_by_contra; rename_i hgt; exact h2 (Or.inr (Or.inr (by omega)))

theorem admit_full {s : Source} {id : Id} {off : Int} {fid : Id} {o : Int}
    (h : admitPsync s id off = .full fid o) : fid = s.id1 ∧ o = s.masterOff := by
  unfold admitPsync at h
  split at h
  · cases h; exact ⟨rfl, rfl⟩
  · split at h
    · cases h; exact ⟨rfl, rfl⟩
    · cases h

theorem sendPSync_reqId (s : Source) (id : Id) (off : Int) : (sendPSync s id off).reqId = id := by
  unfold sendPSync
  cases h : admitPsync s id (wireOf off) <;> rfl

theorem sendPSync_wire (s : Source) (id : Id) (off : Int) : (sendPSync s id off).wireOff = wireOf off := by
  unfold sendPSync
  cases h : admitPsync s id (wireOf off) <;> rfl

theorem sendPSync_full {s : Source} {id : Id} {off : Int} (h : (sendPSync s id off).full = true) :
    (sendPSync s id off).runId = s.id1 ∧ (sendPSync s id off).off = s.masterOff ∧
      (sendPSync s id off).rdbSize = s.snapLen := by
  unfold sendPSync at h ⊢
  cases heq : admitPsync s id (wireOf off) with
  | cont nid => simp [heq] at h
  | full fid o =>
    have := admit_full heq
    simp only [heq] at h ⊢
    simp [this.1, this.2]

theorem sendPSync_cont {s : Source} (hs : SourceWF s) {id : Id} {off : Int}
    (h : (sendPSync s id off).full = false) :
    0 ≤ off ∧ (sendPSync s id off).wireOff = off + 1 ∧ (sendPSync s id off).off = off ∧
      (id = s.id1 ∨ (id = s.id2 ∧ off ≤ s.switchOff)) ∧ off ≤ s.masterOff ∧ s.backlogFirst ≤ off + 1 ∧
      s.backlog = true := by
  have hf := hs.first_pos
  unfold sendPSync at h ⊢
  cases heq : admitPsync s id (wireOf off) with
  | full fid o => simp [heq] at h
  | cont nid =>
    simp only [heq] at h ⊢
    have ha := admit_cont heq
    obtain ⟨h1, hb, h3, h4⟩ := ha
    have ht := hs.tail hb
    unfold wireOf at h1 h3 h4 ⊢
    by_cases hoff : off ≥ 0
    · rw [if_pos hoff] at h1 h3 h4
      rw [if_pos hoff]
      refine ⟨hoff, rfl, by omega, ?_, by omega, h3, hb⟩
      rcases h1 with h1 | ⟨h1, h2⟩
      · exact Or.inl h1
      · exact Or.inr ⟨h1, by omega⟩
    · rw [if_neg hoff] at h3
      omega

/-! ### the decision table, case by case -/

theorem qId_not_admitted {s : Source} (hs : SourceWF s) (off : Int) : (sendPSync s qId off).full = true := by
  cases h : (sendPSync s qId off).full
  · have := sendPSync_cont hs h
    rcases this.2.2.2.1 with e | ⟨e, _⟩
    · exact absurd e.symm hs.id1_nq
    · exact absurd e.symm hs.id2_nq
  · rfl

/-- `IsValidOffset(cache id, off)` for a real cache id is `inRange` -/
theorem isValid_own {c : Cache} (hq : c.runId ≠ qId) (off : Int) :
    c.isValidOffset c.runId off = c.inRange off := by
  simp [Cache.isValidOffset, hq]

inductive DecisionCase (s : Source) (sp : SP) (c : Cache) : Decision → Prop
  | keep1 : (sp.runId = s.id1 ∨ sp.runId = s.id2) → (c.runId = s.id1 ∨ c.runId = s.id2) →
      c.inRange sp.offset = true →
      DecisionCase s sp c ⟨1, sendPSync s c.runId c.latest, false, ⟨c.runId, c.latest⟩, sp.offset⟩
  | clear (br : Nat) (loc0 : SP) : (sp.runId = s.id1 ∨ sp.runId = s.id2) →
      DecisionCase s sp c ⟨br, sendPSync s sp.runId sp.offset, true,
        if (sendPSync s sp.runId sp.offset).full then loc0 else ⟨(sendPSync s sp.runId sp.offset).runId, sp.offset⟩, sp.offset⟩
  | rdb4full (left size : Int) : c.rdb = some (left, size) → (c.runId = s.id1 ∨ c.runId = s.id2) →
      (sendPSync s c.runId c.latest).full = true → sp.isInitial = true →
      DecisionCase s sp c ⟨4, sendPSync s c.runId c.latest, false, ⟨c.runId, c.latest⟩, sp.offset⟩
  | rdb4 (left size : Int) : c.rdb = some (left, size) → (c.runId = s.id1 ∨ c.runId = s.id2) →
      (sendPSync s c.runId c.latest).full = false → sp.isInitial = true →
      DecisionCase s sp c ⟨4, { sendPSync s c.runId c.latest with rdbSize := size }, false,
        ⟨c.runId, c.range.2⟩, left - size⟩
  | fresh (br : Nat) (loc0 : SP) :
      DecisionCase s sp c ⟨br, sendPSync s qId (-1), false, loc0, sp.offset⟩

theorem decision_cases {s : Source} (hs : SourceWF s) (sp : SP) (c : Cache) :
    DecisionCase s sp c (decision s sp c) := by
  unfold decision
  simp only []
  by_cases hout : [s.id1, s.id2].contains sp.runId = true
  · by_cases hloc : [s.id1, s.id2].contains (c.startPoint [s.id1, s.id2]).runId = true
    · obtain ⟨hsp, hcid⟩ := startPoint_in hs c hloc
      have hq : c.runId ≠ qId := by
        rcases hcid with e | e <;> rw [e]
        · exact hs.id1_nq
        · exact hs.id2_nq
      have hloc' : [s.id1, s.id2].contains c.runId = true := contains_ids.mpr hcid
      simp only [hout, hsp, hloc', Bool.and_self, if_true, isValid_own hq]
      by_cases hv : c.inRange sp.offset = true
      · simp only [hv, if_true]
        exact .keep1 (contains_ids.mp hout) hcid hv
      · simp only [hv]
        exact .clear 2 _ (contains_ids.mp hout)
    · simp only [hout, hloc, Bool.and_false, Bool.false_eq_true, if_false, if_true]
      exact .clear 3 _ (contains_ids.mp hout)
  · simp only [hout, Bool.false_and, Bool.false_eq_true, if_false]
    by_cases hloc : [s.id1, s.id2].contains (c.startPoint [s.id1, s.id2]).runId = true
    · obtain ⟨hsp, hcid⟩ := startPoint_in hs c hloc
      have hloc' : [s.id1, s.id2].contains c.runId = true := contains_ids.mpr hcid
      by_cases hini : sp.isInitial = true
      · simp only [hsp, hloc', hini, Bool.and_self, if_true]
        cases hr : c.rdb with
        | none =>
          have : c.getRdb c.runId = (-1, -1) := by simp [Cache.getRdb, hr]
          simp only [this]
          simp only [ne_eq, not_true_eq_false, and_self, if_false]
          exact .fresh 5 _
        | some p =>
          obtain ⟨left, size⟩ := p
          have : c.getRdb c.runId = (left, size) := by simp [Cache.getRdb, hr]
          simp only [this]
          by_cases hok : left ≠ -1 ∧ size ≠ -1
          · rw [if_pos hok]
            have hg : c.getOffsetRange c.runId = c.range := by simp [Cache.getOffsetRange]
            by_cases hf : (sendPSync s c.runId c.latest).full = true
            · rw [if_pos hf]
              exact .rdb4full left size hr hcid hf hini
            · rw [if_neg hf, hg]
              exact .rdb4 left size hr hcid (by simpa using hf) hini
          · rw [if_neg hok]
            exact .fresh 5 _
      · simp only [hsp, hloc', hini, Bool.and_false, Bool.false_eq_true, if_false]
        exact .fresh 6 _
    · simp only [hloc, Bool.false_and, Bool.false_eq_true, if_false]
      exact .fresh 6 _

/-! ### DelRunId / SetRunId -/

@[simp] theorem qId_ne_nil : qId ≠ [] := by decide
@[simp] theorem nil_ne_qId : ([] : Id) ≠ qId := by decide

theorem del_set_cleared {c : Cache} (h : CacheWF c) {new : Id} (hn : new ≠ []) (hq : new ≠ qId) :
    (c.delRunId c.runId).setRunId new = ⟨c.backend, new, none, none⟩ := by
  obtain ⟨be, rid, rdb, aof⟩ := c
  have hl := h.label
  cases be
  · by_cases e : rid = [] ∨ rid = qId
    · obtain ⟨h1, h2⟩ := hl e
      simp only at h1 h2
      subst h1; subst h2
      rcases e with e | e <;> subst e <;> simp [Cache.delRunId, Cache.setRunId, hn, hq]
    · have e1 : rid ≠ [] := fun x => e (Or.inl x)
      have e2 : rid ≠ qId := fun x => e (Or.inr x)
      simp [Cache.delRunId, Cache.setRunId, hn, hq, e1, e2]
  · simp [Cache.delRunId, Cache.setRunId]

theorem set_keep {c : Cache} (hr : c.runId ≠ []) {new : Id} (hn : new ≠ []) (hq : new ≠ qId) :
    c.setRunId new = { c with runId := new } := by
  obtain ⟨be, rid, rdb, aof⟩ := c
  cases be <;> simp_all [Cache.setRunId]

end GunYu.Psync
