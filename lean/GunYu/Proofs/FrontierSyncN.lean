/-
  Helper lemmas for C14, sync mode over any number of recovery slots
  (Model/FrontierSyncN.lean). Core only.
-/
import GunYu.Model.FrontierSyncN
import GunYu.Proofs.FrontierRestart

namespace GunYu.Frontier
open GunYu

set_option linter.unusedSimpArgs false
set_option linter.unusedVariables false

/-! ### `bestLatest` selects a matching record of maximal end offset -/

/-- first component of one iteration of `LoadBisyncLatestStartRecord`'s selection loop -/
def pickBest (ids : List Bytes) (acc : Option Rec) (r : Rec) : Option Rec :=
  if matchRun r.runId ids then
    (match acc with
      | none => some r
      | some b => if r.endOff > b.endOff ∨ (r.endOff = b.endOff ∧ r.mtime > b.mtime) then some r else some b)
  else acc

theorem bestLatest_fst_fold (ids : List Bytes) (l : List Rec) (acc : Option Rec × Nat) :
    (l.foldl (fun (acc : Option Rec × Nat) r =>
      if matchRun r.runId ids then
        (match acc.1 with
          | none => some r
          | some b => if r.endOff > b.endOff ∨ (r.endOff = b.endOff ∧ r.mtime > b.mtime) then some r else some b,
         acc.2 + 1)
      else acc) acc).1 = l.foldl (pickBest ids) acc.1 := by
  induction l generalizing acc with
  | nil => rfl
  | cons r rest ih =>
    simp only [List.foldl_cons]
    rw [ih]
    congr 1
    unfold pickBest
    by_cases h : matchRun r.runId ids = true
    · simp only [h, if_true]
    · simp only [h, if_false]; rfl

theorem bestLatest_fst (l : List Rec) (ids : List Bytes) :
    (bestLatest l ids).1 = l.foldl (pickBest ids) none := by
  unfold bestLatest
  exact bestLatest_fst_fold ids l (none, 0)

theorem pickBest_cases (ids : List Bytes) (acc : Option Rec) (r : Rec) (hm : matchRun r.runId ids = true) :
    ∃ c, pickBest ids acc r = some c ∧ r.endOff ≤ c.endOff ∧ (c = r ∨ acc = some c) ∧
      ∀ a, acc = some a → a.endOff ≤ c.endOff := by
  unfold pickBest
  simp only [hm, if_true]
  cases acc with
  | none => exact ⟨r, rfl, Int.le_refl _, Or.inl rfl, by intro a h; cases h⟩
  | some b =>
    by_cases hb : r.endOff > b.endOff ∨ (r.endOff = b.endOff ∧ r.mtime > b.mtime)
    · refine ⟨r, by simp only [hb, if_true], Int.le_refl _, Or.inl rfl, ?_⟩
      intro a ha
      simp only [Option.some.injEq] at ha
      subst ha
      rcases hb with h | ⟨h, _⟩ <;> omega
    · refine ⟨b, by simp only [hb, if_false], ?_, Or.inr rfl, ?_⟩
      · have h1 : ¬ r.endOff > b.endOff := fun h => hb (Or.inl h)
        omega
      · intro a ha
        simp only [Option.some.injEq] at ha
        subst ha
        exact Int.le_refl _

/-- what the selection loop returns: nothing iff nothing matches; otherwise the accumulator it started
    from or a matching record of the list, with an end offset not below any matching record's -/
theorem pickBest_fold_spec (ids : List Bytes) (l : List Rec) :
    ∀ acc : Option Rec,
      (l.foldl (pickBest ids) acc = none → acc = none ∧ ∀ r ∈ l, matchRun r.runId ids = false) ∧
      (∀ b, l.foldl (pickBest ids) acc = some b →
        (acc = some b ∨ (b ∈ l ∧ matchRun b.runId ids = true)) ∧
        (∀ a, acc = some a → a.endOff ≤ b.endOff) ∧
        (∀ r ∈ l, matchRun r.runId ids = true → r.endOff ≤ b.endOff)) := by
  induction l with
  | nil =>
    intro acc
    refine ⟨fun h => ⟨h, by intro r hr; cases hr⟩, ?_⟩
    intro b hb
    simp only [List.foldl_nil] at hb
    refine ⟨Or.inl hb, ?_, by intro r hr; cases hr⟩
    intro a ha
    rw [hb] at ha
    simp only [Option.some.injEq] at ha
    subst ha
    exact Int.le_refl _
  | cons r rest ih =>
    intro acc
    simp only [List.foldl_cons]
    obtain ⟨ihn, ihs⟩ := ih (pickBest ids acc r)
    by_cases hm : matchRun r.runId ids = true
    · obtain ⟨c, hc, hrc, hor, hac⟩ := pickBest_cases ids acc r hm
      constructor
      · intro h
        have := (ihn h).1
        rw [hc] at this
        cases this
      · intro b hb
        obtain ⟨h1, h2, h3⟩ := ihs b hb
        have hcb : c.endOff ≤ b.endOff := h2 c hc
        refine ⟨?_, ?_, ?_⟩
        · rcases h1 with h1 | ⟨h1, h1m⟩
          · rw [hc] at h1
            simp only [Option.some.injEq] at h1
            subst h1
            rcases hor with h | h
            · subst h
              exact Or.inr ⟨List.mem_cons_self, hm⟩
            · exact Or.inl h
          · exact Or.inr ⟨List.mem_cons_of_mem _ h1, h1m⟩
        · intro a ha
          have := hac a ha
          omega
        · intro x hx hxm
          rcases List.mem_cons.mp hx with h | h
          · subst h; omega
          · exact h3 x h hxm
    · have hp : pickBest ids acc r = acc := by unfold pickBest; simp only [hm, if_false]; rfl
      rw [hp] at ihn ihs ⊢
      have hmf : matchRun r.runId ids = false := by
        cases h : matchRun r.runId ids with
        | true => exact absurd h hm
        | false => rfl
      constructor
      · intro h
        obtain ⟨h1, h2⟩ := ihn h
        refine ⟨h1, ?_⟩
        intro x hx
        rcases List.mem_cons.mp hx with h | h
        · subst h; exact hmf
        · exact h2 x h
      · intro b hb
        obtain ⟨h1, h2, h3⟩ := ihs b hb
        refine ⟨?_, h2, ?_⟩
        · rcases h1 with h1 | ⟨h1, h1m⟩
          · exact Or.inl h1
          · exact Or.inr ⟨List.mem_cons_of_mem _ h1, h1m⟩
        · intro x hx hxm
          rcases List.mem_cons.mp hx with h | h
          · subst h; rw [hmf] at hxm; cases hxm
          · exact h3 x h hxm

/-- `LoadBisyncLatestStartRecord` returns nothing iff no record of the scanned slots carries a reported run id -/
theorem bestLatest_none {l : List Rec} {ids : List Bytes} (h : (bestLatest l ids).1 = none) :
    ∀ r ∈ l, matchRun r.runId ids = false := by
  rw [bestLatest_fst] at h
  exact ((pickBest_fold_spec ids l none).1 h).2

/-- … otherwise a record of the scanned slots with a reported run id whose end offset is maximal among them -/
theorem bestLatest_some {l : List Rec} {ids : List Bytes} {b : Rec} (h : (bestLatest l ids).1 = some b) :
    b ∈ l ∧ matchRun b.runId ids = true ∧ ∀ r ∈ l, matchRun r.runId ids = true → r.endOff ≤ b.endOff := by
  rw [bestLatest_fst] at h
  obtain ⟨h1, _, h3⟩ := (pickBest_fold_spec ids l none).2 b h
  rcases h1 with h1 | ⟨h1, h1m⟩
  · cases h1
  · exact ⟨h1, h1m, h3⟩

theorem mem_scanLatest {N : Nat} {latest : Nat → Option Rec} {r : Rec} :
    r ∈ scanLatest N latest ↔ ∃ t, t < N ∧ latest t = some r := by
  unfold scanLatest
  rw [List.mem_filterMap]
  constructor
  · rintro ⟨t, ht, h⟩; exact ⟨t, List.mem_range.mp ht, h⟩
  · rintro ⟨t, ht, h⟩; exact ⟨t, List.mem_range.mpr ht, h⟩

theorem matchRun_ne_nil {rid : Bytes} {ids : List Bytes} (h : matchRun rid ids = true) : rid ≠ [] := by
  unfold matchRun at h
  rw [List.any_eq_true] at h
  obtain ⟨i, _, hi⟩ := h
  simp only [Bool.and_eq_true, decide_eq_true_eq] at hi
  obtain ⟨h1, h2⟩ := hi
  rw [← h2]; exact h1

theorem iterOff_mono {next : Int → Int} (hs : ∀ o, o < next o) (o : Int) :
    ∀ n : Nat, o ≤ iterOff next o n := by
  intro n
  induction n with
  | zero => exact Int.le_refl _
  | succ k ih =>
    have := hs (iterOff next o k)
    simp only [iterOff]; omega

/-! ### the invariant -/

/-- `n` units have been applied: exactly the first `n` units of the stream behind the root checkpoint,
    in order; the process continues at the end of the n-th; the record of the n-th is in one of the
    scanned slots and carries the process's sequence number; every OTHER record a start may read (left by
    earlier units in other slots, or by an earlier numbering - with ANY sequence number) does not end
    beyond it, and not AT it once a unit has been committed -/
structure SyncNInv (next : Int → Int) (rid : Bytes) (ids : List Bytes) (N : Nat) (o₀ : Int)
    (s : SyncNSys) (n : Nat) : Prop where
  root : ∃ db, s.root = (rid, o₀, db)
  off : s.off = iterOff next o₀ n
  applied : s.applied = unitStarts next o₀ n
  below : ∀ t r, s.latest t = some r → matchRun r.runId ids = true →
    r.endOff ≤ iterOff next o₀ n ∧ (0 < n → r.endOff = iterOff next o₀ n → r.seq = s.cur ∧ r.runId = rid)
  top : 0 < n → ∃ t, t < N ∧ ∃ r, s.latest t = some r ∧ r.endOff = iterOff next o₀ n ∧ r.runId = rid

/-- what a start answers in a state of the invariant: the end of the n-th unit, and - once a unit has
    been committed - the sequence number the process holds and the run id the units are recorded under -/
theorem startLatestN_of_inv {next : Int → Int} {rid : Bytes} {ids : List Bytes} {N : Nat} {o₀ : Int}
    {s : SyncNSys} {n : Nat} (hi : SyncNInv next rid ids N o₀ s n)
    (hs : ∀ o, o < next o) (hrid : matchRun rid ids = true) :
    ∃ db rid' seq, startLatestN N (some s.root) s.latest ids = .point db rid' (iterOff next o₀ n) seq ∧
      matchRun rid' ids = true ∧ (0 < n → seq = s.cur ∧ rid' = rid) := by
  obtain ⟨db, hroot⟩ := hi.root
  have hne : rid ≠ [] := matchRun_ne_nil hrid
  unfold startLatestN
  simp only
  cases hb : (bestLatest (scanLatest N s.latest) ids).1 with
  | none =>
    have hnone := bestLatest_none hb
    have hn0 : n = 0 := by
      cases Nat.eq_zero_or_pos n with
      | inl h => exact h
      | inr hpos =>
        obtain ⟨t, ht, r, hr, _, hrr⟩ := hi.top hpos
        have := hnone r (mem_scanLatest.mpr ⟨t, ht, hr⟩)
        rw [hrr, hrid] at this
        cases this
    subst hn0
    exact ⟨db, rid, 0, by simp only [rootPoint, hroot, iterOff], hrid, fun h => absurd h (by omega)⟩
  | some b =>
    obtain ⟨hbm, hbmatch, hbmax⟩ := bestLatest_some hb
    obtain ⟨t, ht, hbt⟩ := mem_scanLatest.mp hbm
    simp only
    obtain ⟨hle, heq⟩ := hi.below t b hbt hbmatch
    cases Nat.eq_zero_or_pos n with
    | inl hn0 =>
      subst hn0
      simp only [iterOff] at hle
      by_cases hnew : rootNewer s.root b.endOff ids = true
      · rw [hnew]
        exact ⟨db, rid, 0, by simp only [if_true, rootPoint, hroot, iterOff], hrid, fun h => absurd h (by omega)⟩
      · have hf : rootNewer s.root b.endOff ids = false := by
          cases h : rootNewer s.root b.endOff ids with
          | true => exact absurd h hnew
          | false => rfl
        have hbe : b.endOff = o₀ := by
          unfold rootNewer at hf
          rw [hroot] at hf
          simp only [hrid, Bool.and_true] at hf
          rw [Bool.eq_false_iff] at hf
          have : ¬ (o₀ > b.endOff) := by
            intro h
            apply hf
            simp only [Bool.and_eq_true, decide_eq_true_eq]
            exact ⟨hne, h, trivial⟩
          omega
        rw [hf]
        exact ⟨0, b.runId, b.seq, by simp only [iterOff, hbe]; rfl, hbmatch, fun h => absurd h (by omega)⟩
    | inr hpos =>
      obtain ⟨t', ht', r, hr, hre, hrr⟩ := hi.top hpos
      have hge := hbmax r (mem_scanLatest.mpr ⟨t', ht', hr⟩) (by rw [hrr]; exact hrid)
      have hbe : b.endOff = iterOff next o₀ n := by omega
      obtain ⟨hseq, hrun⟩ := heq hpos hbe
      have hmono := iterOff_mono hs o₀ n
      have : rootNewer s.root b.endOff ids = false := by
        unfold rootNewer
        rw [hroot, Bool.eq_false_iff]
        intro h
        simp only [Bool.and_eq_true, decide_eq_true_eq] at h
        omega
      rw [this]
      exact ⟨0, b.runId, b.seq, by simp [hbe], hbmatch, fun _ => ⟨hseq, hrun⟩⟩

theorem syncNStep_inv {next : Int → Int} {rid : Bytes} {ids : List Bytes} {N : Nat} {o₀ : Int}
    {s : SyncNSys} {n : Nat} (hi : SyncNInv next rid ids N o₀ s n)
    (hs : ∀ o, o < next o) (hrid : matchRun rid ids = true) (st : SyncNStep) :
    ∃ n', SyncNInv next rid ids N o₀ (syncNStep next rid ids N s st) n' := by
  cases st with
  | restart =>
    obtain ⟨db, rid', seq, hst, _, hseq⟩ := startLatestN_of_inv hi hs hrid
    refine ⟨n, ?_⟩
    simp only [syncNStep, hst]
    refine ⟨hi.root, rfl, hi.applied, ?_, hi.top⟩
    intro t r hr hm
    obtain ⟨h1, h2⟩ := hi.below t r hr hm
    refine ⟨h1, ?_⟩
    intro hpos he
    obtain ⟨h3, h4⟩ := h2 hpos he
    exact ⟨by rw [h3, (hseq hpos).1], h4⟩
  | commitNext slot mt =>
    by_cases hsl : slot < N
    · refine ⟨n + 1, ?_⟩
      simp only [syncNStep, hsl, if_true]
      have hstep := hs (iterOff next o₀ n)
      refine ⟨hi.root, ?_, ?_, ?_, ?_⟩
      · simp only [hi.off, iterOff]
      · simp only [hi.applied, hi.off, unitStarts]
      · intro t r hr hm
        by_cases hts : t = slot
        · simp only [hts, if_true, Option.some.injEq] at hr
          subst hr
          simp only [hi.off, iterOff]
          exact ⟨Int.le_refl _, fun _ _ => by simp⟩
        · simp only [hts, if_false] at hr
          have := (hi.below t r hr hm).1
          simp only [iterOff]
          exact ⟨by omega, fun _ h => by omega⟩
      · intro _
        exact ⟨slot, hsl, { seq := s.cur + 1, endOff := next s.off, mtime := mt, runId := rid, slot := slot },
          by simp only [if_true], by simp only [hi.off, iterOff], rfl⟩
    · exact ⟨n, by simp only [syncNStep, hsl, if_false]; exact hi⟩

theorem syncNRun_inv {next : Int → Int} {rid : Bytes} {ids : List Bytes} {N : Nat} {o₀ : Int}
    (hs : ∀ o, o < next o) (hrid : matchRun rid ids = true) (steps : List SyncNStep) :
    ∀ {s : SyncNSys} {n : Nat}, SyncNInv next rid ids N o₀ s n →
      ∃ n', SyncNInv next rid ids N o₀ (syncNRun next rid ids N s steps) n' := by
  induction steps with
  | nil => intro s n hi; exact ⟨n, hi⟩
  | cons st rest ih =>
    intro s n hi
    obtain ⟨n', hi'⟩ := syncNStep_inv hi hs hrid st
    exact ih hi'

/-- no step touches the root checkpoint -/
theorem syncNRun_root (next : Int → Int) (rid : Bytes) (ids : List Bytes) (N : Nat) (steps : List SyncNStep) :
    ∀ s : SyncNSys, (syncNRun next rid ids N s steps).root = s.root := by
  induction steps with
  | nil => intro s; rfl
  | cons st rest ih =>
    intro s
    show (syncNRun next rid ids N (syncNStep next rid ids N s st) rest).root = s.root
    rw [ih]
    cases st with
    | commitNext slot mt => simp only [syncNStep]; split <;> rfl
    | restart => simp only [syncNStep]; split <;> rfl

/-- every record a start may read ends strictly before the root checkpoint: the root overrides, seq 0 -/
theorem startLatestN_root_of_strict {rid : Bytes} {ids : List Bytes} {N : Nat} {o₀ : Int} {db : Nat}
    {latest : Nat → Option Rec} (hrid : matchRun rid ids = true)
    (h0 : ∀ t r, latest t = some r → matchRun r.runId ids = true → r.endOff < o₀) :
    startLatestN N (some (rid, o₀, db)) latest ids = .point db rid o₀ 0 := by
  have hne : rid ≠ [] := matchRun_ne_nil hrid
  unfold startLatestN
  simp only
  cases hb : (bestLatest (scanLatest N latest) ids).1 with
  | none => simp only [rootPoint]
  | some b =>
    obtain ⟨hbm, hbmatch, _⟩ := bestLatest_some hb
    obtain ⟨t, _, hbt⟩ := mem_scanLatest.mp hbm
    have hlt := h0 t b hbt hbmatch
    have hn : rootNewer (rid, o₀, db) b.endOff ids = true := by
      unfold rootNewer
      simp only [hrid, Bool.and_true, Bool.and_eq_true, decide_eq_true_eq]
      exact ⟨hne, hlt, trivial⟩
    simp only [hn, if_true, rootPoint]

/-- with leftovers STRICTLY before the root and a process that starts at seq 0 the sequence number the
    process holds is the number of units applied -/
theorem syncNRun_numbered {next : Int → Int} {rid : Bytes} {ids : List Bytes} {N : Nat} {o₀ : Int}
    (hs : ∀ o, o < next o) (hrid : matchRun rid ids = true) (steps : List SyncNStep) :
    ∀ {s : SyncNSys} {n : Nat}, SyncNInv next rid ids N o₀ s n → s.cur = (n : Int) →
      (n = 0 → ∀ t r, s.latest t = some r → matchRun r.runId ids = true → r.endOff < o₀) →
      ∃ n', SyncNInv next rid ids N o₀ (syncNRun next rid ids N s steps) n' ∧
        (syncNRun next rid ids N s steps).cur = (n' : Int) ∧
        (n' = 0 → ∀ t r, (syncNRun next rid ids N s steps).latest t = some r →
          matchRun r.runId ids = true → r.endOff < o₀) := by
  induction steps with
  | nil => intro s n hi hc h0; exact ⟨n, hi, hc, h0⟩
  | cons st rest ih =>
    intro s n hi hc h0
    have e : syncNRun next rid ids N s (st :: rest) = syncNRun next rid ids N (syncNStep next rid ids N s st) rest := rfl
    rw [e]
    cases st with
    | restart =>
      obtain ⟨db', rid', seq, hst, _, hseq⟩ := startLatestN_of_inv hi hs hrid
      have hn : SyncNInv next rid ids N o₀ (syncNStep next rid ids N s .restart) n := by
        simp only [syncNStep, hst]
        refine ⟨hi.root, rfl, hi.applied, ?_, hi.top⟩
        intro t r hr hm
        obtain ⟨h1, h2⟩ := hi.below t r hr hm
        exact ⟨h1, fun hpos he => ⟨by rw [(h2 hpos he).1, (hseq hpos).1], (h2 hpos he).2⟩⟩
      have hcur : (syncNStep next rid ids N s .restart).cur = (n : Int) := by
        cases Nat.eq_zero_or_pos n with
        | inr hpos => simp only [syncNStep, hst]; rw [(hseq hpos).1]; exact hc
        | inl hz =>
          subst hz
          obtain ⟨db0, hroot⟩ := hi.root
          have := startLatestN_root_of_strict (N := N) (latest := s.latest) (db := db0) hrid (h0 rfl)
          simp only [syncNStep, hroot, this]
          rfl
      have hl : (syncNStep next rid ids N s .restart).latest = s.latest := by
        simp only [syncNStep, hst]
      exact ih hn hcur (by rw [hl]; exact h0)
    | commitNext slot mt =>
      by_cases hsl : slot < N
      · have hn : SyncNInv next rid ids N o₀ (syncNStep next rid ids N s (.commitNext slot mt)) (n + 1) := by
          have hstep := hs (iterOff next o₀ n)
          simp only [syncNStep, hsl, if_true]
          refine ⟨hi.root, by simp only [hi.off, iterOff], by simp only [hi.applied, hi.off, unitStarts], ?_, ?_⟩
          · intro t r hr hm
            by_cases hts : t = slot
            · simp only [hts, if_true, Option.some.injEq] at hr
              subst hr
              simp only [hi.off, iterOff]
              exact ⟨Int.le_refl _, fun _ _ => by simp⟩
            · simp only [hts, if_false] at hr
              have := (hi.below t r hr hm).1
              simp only [iterOff]
              exact ⟨by omega, fun _ h => by omega⟩
          · intro _
            exact ⟨slot, hsl, { seq := s.cur + 1, endOff := next s.off, mtime := mt, runId := rid, slot := slot },
              by simp only [if_true], by simp only [hi.off, iterOff], rfl⟩
        have hcur : (syncNStep next rid ids N s (.commitNext slot mt)).cur = ((n + 1 : Nat) : Int) := by
          simp only [syncNStep, hsl, if_true, hc]; omega
        exact ih hn hcur (fun h => absurd h (by omega))
      · have : syncNStep next rid ids N s (.commitNext slot mt) = s := by simp only [syncNStep, hsl, if_false]
        rw [this]
        exact ih hi hc h0

/-- one slot: the scan of the model of session 2 (`startLatest`, `NS.latest`) -/
theorem startLatestN_one (ns : NS) (ids : List Bytes) :
    startLatestN 1 ns.root (fun _ => ns.latest) ids = startLatest ns ids := by
  unfold startLatestN startLatest
  cases ns.root with
  | none => rfl
  | some root =>
    simp only
    cases hl : ns.latest with
    | none => simp [scanLatest, bestLatest, hl, rootPoint]
    | some r =>
      by_cases hm : matchRun r.runId ids = true
      · simp [scanLatest, bestLatest, hl, hm, rootPoint]
      · simp [scanLatest, bestLatest, hl, hm, rootPoint]

end GunYu.Frontier
