/-
  C05, disk backend — the callers' protocol for stream writers, DERIVED instead of
  assumed.

  `Disk.okOp (.newAofWriter off)` demands `off` = the end of the held stream (or the
  snapshot's offset, or anything on an empty cache) IN THE STATE OF THE CALL. The
  callers do not compute it there: `RedisInput.syncMeta` asks `StartPoint`
  (→ `Storer.LatestOffset()`) at the beginning of a run and `syncData` passes that
  answer to `NewAofWritter` later — after `SetRunId`, with readers and the collector
  (a 30 s timer) running in between; or they clear the cache first (`DelRunId`); or
  they pass the offset of the snapshot they have just announced.

  `COp` = the cache operations plus the ghost event `ask` (the `LatestOffset` query);
  `callerOk` = the runs the callers produce (the writer offset is what was ANSWERED,
  not what holds now); `caller_wf`: every such run satisfies `Disk.wf`, for any
  interleaving of reader / collector / run-id operations between the answer and the
  writer's creation. Key lemmas: `Continues q` (a writer at `q` continues the held
  stream) holds when `q` was the answer, and is kept by EVERY operation other than
  the two writer constructors — in particular by a collector pass, which either
  leaves the end of the stream alone or removes stream and snapshot together.
-/
import GunYu.Proofs.StoreDisk

namespace GunYu.Store
open GunYu

/-- a stream writer opened at `q` continues what is held (no writer is open) -/
def Continues (q : Nat) (s : Disk) : Prop :=
  s.live = none ∧ (∀ r, lastRight s.segs = some r → q = r) ∧
  (lastRight s.segs = none → ∀ rd, s.rdb = some rd → q = rd.left)

theorem closeLive_of_no_live {s : Disk} (h : s.live = none) : s.closeLive = s := by
  unfold Disk.closeLive; rw [h]

theorem continues_okOp {q : Nat} {s : Disk} (h : Continues q s) : s.okOp (.newAofWriter q) := by
  simp only [Disk.okOp, closeLive_of_no_live h.1]
  cases hl : lastRight s.segs with
  | some r => exact h.2.1 r hl
  | none =>
    cases hr : s.rdb with
    | some rd => exact h.2.2 hl rd hr
    | none => trivial

/-- `Storer.LatestOffset()` as a natural number (`none` = -1) -/
def Disk.latestNat (s : Disk) : Option Nat :=
  match lastRight s.all, s.rdb with
  | some r, _ => some r
  | none, some rd => some rd.left
  | none, none => none

theorem latestNat_eq (s : Disk) : s.latest = match s.latestNat with | some q => (q : Int) | none => -1 := by
  unfold Disk.latest Disk.latestNat
  cases lastRight s.all <;> cases s.rdb <;> rfl

/-- the answer of `LatestOffset()` on a cache without an open stream writer is an
    offset a stream writer continues at -/
theorem latest_continues {s : Disk} (hl : s.live = none) {q : Nat} (hq : s.latestNat = some q) : Continues q s := by
  have hall : s.all = s.segs := by simp [Disk.all, hl]
  unfold Disk.latestNat at hq
  rw [hall] at hq
  refine ⟨hl, ?_, ?_⟩
  · intro r hr; rw [hr] at hq; simp at hq; exact hq.symm
  · intro hn rd hrd; rw [hn, hrd] at hq; simp at hq; exact hq.symm

/-! ### the collector -/

theorem dropUnref_zero (rs : List DReader) (l : List DSeg) : dropUnref rs 0 l = l := by
  cases l <;> rfl

/-- a collector pass keeps the end of the stream, or removes stream and snapshot together -/
theorem gc_continues {q : Nat} {s : Disk} (h : Continues q s) : Continues q s.gc := by
  obtain ⟨hl, h1, h2⟩ := h
  have suffix : ∀ (k : Nat) (rdb' : Option DRdb), (rdb' = s.rdb ∨ rdb' = none) →
      (dropUnref s.readers k s.segs = [] → s.segs ≠ [] → rdb' = none) →
      Continues q { s with rdb := rdb', segs := dropUnref s.readers k s.segs } := by
    intro k rdb' hr hne
    obtain ⟨pre, hp, _⟩ := dropUnref_suffix s.readers k s.segs
    refine ⟨hl, ?_, ?_⟩
    · intro r hr'
      apply h1 r
      have hne' : dropUnref s.readers k s.segs ≠ [] := by
        intro e; rw [e] at hr'; simp [lastRight] at hr'
      rw [hp, lastRight_suffix _ _ hne']; exact hr'
    · intro hn rd hrd
      have he : dropUnref s.readers k s.segs = [] := lastRight_eq_none.mp hn
      by_cases hs : s.segs = []
      · rcases hr with e | e
        · apply h2 (by rw [hs]; rfl) rd; rw [← e]; exact hrd
        · rw [e] at hrd; cases hrd
      · have hrdb : rdb' = none := hne he hs
        have hrd' : rdb' = some rd := hrd
        rw [hrdb] at hrd'; cases hrd'
  unfold Disk.gc
  split
  · exact ⟨hl, h1, h2⟩
  · cases hk : gcScanRev s.maxSize s.all.reverse 0 with
    | mk k size =>
      simp only []
      cases hr : s.rdb with
      | none =>
        exact suffix k none (Or.inr rfl) (fun _ _ => rfl)
      | some r =>
        simp only []
        split
        · split
          · have := suffix k none (Or.inr rfl) (fun _ _ => rfl)
            simpa using this
          · exact ⟨hl, h1, h2⟩
        · rename_i hle
          -- the scan did not exceed the limit: nothing is a candidate
          have hk0 : k = 0 := by
            rcases Nat.eq_zero_or_pos k with h0 | hpos'
            · exact h0
            · exfalso
              have hpos : (gcScanRev s.maxSize s.all.reverse 0).1 > 0 := by rw [hk]; exact hpos'
              have := gcScanRev_pos s.maxSize s.all.reverse 0 hpos
              rw [hk] at this
              simp only [] at this
              omega
          subst hk0
          rw [dropUnref_zero]
          exact ⟨hl, h1, fun hn rd hrd => h2 hn rd (by rw [hr]; exact hrd)⟩

/-! ### every operation other than the two writer constructors -/

def DOp.opensWriter : DOp → Bool
  | .newRdbWriter _ _ => true
  | .newAofWriter _ => true
  | _ => false

theorem open_fields (s : Disk) (rid off : Nat) (crc : Bool) :
    (s.open rid off crc).1.live = s.live ∧ (s.open rid off crc).1.segs = s.segs ∧ (s.open rid off crc).1.rdb = s.rdb := by
  simp only [Disk.open]
  repeat' split
  all_goals exact ⟨rfl, rfl, rfl⟩

theorem read_fields (s : Disk) (rid n : Nat) :
    (s.read rid n).1.live = s.live ∧ (s.read rid n).1.segs = s.segs ∧ (s.read rid n).1.rdb = s.rdb := by
  simp only [Disk.read]
  repeat' split
  all_goals exact ⟨rfl, rfl, rfl⟩

theorem advAcquire_fields (s : Disk) (rid : Nat) :
    (s.advAcquire rid).1.live = s.live ∧ (s.advAcquire rid).1.segs = s.segs ∧ (s.advAcquire rid).1.rdb = s.rdb := by
  simp only [Disk.advAcquire]
  repeat' split
  all_goals exact ⟨rfl, rfl, rfl⟩

theorem advRelease_fields (s : Disk) (rid : Nat) :
    (s.advRelease rid).1.live = s.live ∧ (s.advRelease rid).1.segs = s.segs ∧ (s.advRelease rid).1.rdb = s.rdb := by
  simp only [Disk.advRelease]
  repeat' split
  all_goals exact ⟨rfl, rfl, rfl⟩

theorem closeReader_fields (s : Disk) (rid : Nat) :
    (s.closeReader rid).1.live = s.live ∧ (s.closeReader rid).1.segs = s.segs ∧ (s.closeReader rid).1.rdb = s.rdb := by
  simp only [Disk.closeReader]
  repeat' split
  all_goals exact ⟨rfl, rfl, rfl⟩

theorem Continues.of_fields {q : Nat} {s s' : Disk} (h : Continues q s)
    (hf : s'.live = s.live ∧ s'.segs = s.segs ∧ (s'.rdb = s.rdb ∨ s'.rdb = none ∨
      ∃ r r', s.rdb = some r ∧ s'.rdb = some r' ∧ r'.left = r.left)) : Continues q s' := by
  obtain ⟨hl, hs, hr⟩ := hf
  refine ⟨by rw [hl]; exact h.1, by rw [hs]; exact h.2.1, ?_⟩
  rw [hs]
  intro hn rd hrd
  rcases hr with e | e | ⟨r, r', e1, e2, e3⟩
  · exact h.2.2 hn rd (e ▸ hrd)
  · rw [e] at hrd; cases hrd
  · rw [e2] at hrd; cases hrd
    rw [e3]; exact h.2.2 hn r e1

theorem Continues.empty (q : Nat) {s : Disk} (h1 : s.live = none) (h2 : s.segs = []) (h3 : s.rdb = none) : Continues q s :=
  ⟨h1, by rw [h2]; intro r hr; simp [lastRight] at hr, by intro _ rd hrd; rw [h3] at hrd; cases hrd⟩

/-- `Continues q` survives every operation that does not create a writer: reads,
    rotation steps, opening and closing readers, collector passes, snapshot
    appends / close, `SetRunId` (same id, switch) and `DelRunId`. -/
theorem step_continues {q : Nat} {s : Disk} (hi : DInv s) (h : Continues q s) (op : DOp)
    (hop : op.opensWriter = false) : Continues q (s.step op).1 := by
  cases op with
  | setRunId id =>
    simp only [Disk.step]
    split
    · exact Continues.empty q rfl rfl rfl
    · split
      · exact h
      · obtain ⟨hd, hl, hr, _, _, _⟩ := closeAllForSwitch_spec hi
        rw [rescan_eq_self hd hl hr]
        -- closing for the switch: no live segment to close; a snapshot being written is dropped
        have hcl : s.closeAllForSwitch.live = s.live ∧ s.closeAllForSwitch.segs = s.segs ∧
            (s.closeAllForSwitch.rdb = s.rdb ∨ s.closeAllForSwitch.rdb = none) := by
          unfold Disk.closeAllForSwitch
          have hl0 : (({ s with readers := closeAllReaders s.readers } : Disk).dropWritingRdb).live = none := by
            rw [(dropWritingRdb_fields _).2.2.2.2.1]; exact h.1
          rw [closeLive_of_no_live hl0]
          obtain ⟨_, _, _, d4, d5, _⟩ := dropWritingRdb_fields ({ s with readers := closeAllReaders s.readers } : Disk)
          refine ⟨d5, d4, ?_⟩
          unfold Disk.dropWritingRdb
          cases hr' : s.rdb with
          | none => left; simp [hr']
          | some r =>
            simp only [hr']
            split
            · right; rfl
            · left; simp [hr']
        have := h.of_fields (s' := s.closeAllForSwitch) ⟨hcl.1, hcl.2.1, by
          rcases hcl.2.2 with e | e
          · exact Or.inl e
          · exact Or.inr (Or.inl e)⟩
        exact ⟨this.1, this.2.1, this.2.2⟩
  | delRunId =>
    simp only [Disk.step]
    split
    · exact h
    · exact Continues.empty q rfl rfl rfl
  | newRdbWriter off size => cases hop
  | rdbAppend chunk =>
    simp only [Disk.step]
    cases hr : s.rdb with
    | none => exact h
    | some r =>
      simp only []
      split
      · split
        · exact h.of_fields ⟨rfl, rfl, Or.inr (Or.inr ⟨r, _, hr, rfl, rfl⟩)⟩
        · exact h.of_fields ⟨rfl, rfl, Or.inr (Or.inr ⟨r, _, hr, rfl, rfl⟩)⟩
      · exact h
  | rdbClose =>
    simp only [Disk.step]
    cases hr : s.rdb with
    | none => exact h
    | some r =>
      simp only []
      split
      · exact h.of_fields ⟨rfl, rfl, Or.inr (Or.inl rfl)⟩
      · exact h
  | newAofWriter off => cases hop
  | aofAppend chunk =>
    simp only [Disk.step, Disk.appendLive, h.1]
    exact h
  | aofClose =>
    simp only [Disk.step, closeLive_of_no_live h.1]
    exact h
  | gc => exact gc_continues h
  | openReader rid off crcOk =>
    obtain ⟨a, b, c⟩ := open_fields s rid off crcOk
    exact h.of_fields ⟨a, b, Or.inl c⟩
  | read rid n =>
    obtain ⟨a, b, c⟩ := read_fields s rid n
    exact h.of_fields ⟨a, b, Or.inl c⟩
  | advAcquire rid =>
    obtain ⟨a, b, c⟩ := advAcquire_fields s rid
    exact h.of_fields ⟨a, b, Or.inl c⟩
  | advRelease rid =>
    obtain ⟨a, b, c⟩ := advRelease_fields s rid
    exact h.of_fields ⟨a, b, Or.inl c⟩
  | closeReader rid =>
    obtain ⟨a, b, c⟩ := closeReader_fields s rid
    exact h.of_fields ⟨a, b, Or.inl c⟩

/-! ### the callers' runs -/

/-- the cache operations plus the ghost event `ask`: the input reads
    `LatestOffset()` (`StartPoint` in `syncMeta`, `preSync` / `aofSync` in replica.go) -/
inductive COp where
  | ask
  | op (o : DOp)
deriving Repr, DecidableEq

/-- what the run knows about the cache: nothing; the answer of its last `LatestOffset()`
    query (`asked q` — also entered by announcing a snapshot at `q`: `NewRdbWriter(q, size)`
    resets the cache to that snapshot); or that it has cleared the cache (`DelRunId`, or the
    query found nothing) -/
inductive CSt where
  | none
  | asked (q : Nat)
  | cleared
deriving Repr, DecidableEq

/-- which operations the callers issue knowing `c`. A stream writer is created (a) at
    the offset ANSWERED earlier in this run (`syncData(…, locSp.Offset)` with `locSp` from
    `StartPoint`; `NewAofWritter(offset)` after `NewRdbWriter(offset, size)`), or (b) at any
    offset after the run has CLEARED the cache (`clearLocal` / full sync / the follower's
    `left > sp.Offset`: `DelRunId` came first; or the query found an empty cache). No
    clause looks at the cache in the state of the call. Every other operation as
    `Disk.okOp` (those clauses are facts about the writers themselves). -/
def callerAllows (c : CSt) (s : Disk) : DOp → Prop
  | .newAofWriter off => c = .asked off ∨ c = .cleared
  | op => s.okOp op

instance (c : CSt) (s : Disk) (op : DOp) : Decidable (callerAllows c s op) := by
  cases op <;> simp only [callerAllows] <;> try infer_instance
  all_goals (repeat' split) <;> infer_instance

/-- what the run knows after the operation. `DelRunId(channel.RunId())` with no current
    id is a no-op in the code (and nothing is learnt from it). -/
def callerNext (c : CSt) (s : Disk) : DOp → CSt
  | .newAofWriter _ => .none
  | .newRdbWriter off _ => .asked off
  | .delRunId => if s.runId = "" then c else .cleared
  | _ => c

def askAnswer (s : Disk) : CSt :=
  match s.latestNat with
  | some q => .asked q
  | none => .cleared

/-- the runs the callers produce: `ask` is only issued between two writers (the
    previous run's writer was closed: `syncIncr` / `syncRdb` → `writer.Close()`, the early
    return of `syncData` closes what it created, `runScope.WgWait()`) -/
def callerOk : CSt → Disk → List COp → Prop
  | _, _, [] => True
  | _, s, .ask :: rest => s.live = none ∧ callerOk (askAnswer s) s rest
  | c, s, .op o :: rest => callerAllows c s o ∧ callerOk (callerNext c s o) (s.step o).1 rest

instance callerOk.dec : (c : CSt) → (s : Disk) → (cops : List COp) → Decidable (callerOk c s cops)
  | _, _, [] => isTrue trivial
  | _, s, .ask :: rest =>
    have := callerOk.dec (askAnswer s) s rest
    inferInstanceAs (Decidable (s.live = none ∧ callerOk _ s rest))
  | c, s, .op o :: rest =>
    have := callerOk.dec (callerNext c s o) (s.step o).1 rest
    inferInstanceAs (Decidable (callerAllows c s o ∧ callerOk _ (s.step o).1 rest))

def COp.erase : List COp → List DOp
  | [] => []
  | .ask :: rest => COp.erase rest
  | .op o :: rest => o :: COp.erase rest

/-- what the run's knowledge MEANS about the cache — the invariant of `caller_wf` -/
def Knows : CSt → Disk → Prop
  | .none, _ => True
  | .asked q, s => Continues q s
  | .cleared, s => ∀ q, Continues q s

theorem callerAllows_okOp {c : CSt} {s : Disk} (hc : Knows c s) (op : DOp)
    (h : callerAllows c s op) : s.okOp op := by
  cases op with
  | newAofWriter off =>
    rcases h with h | h
    · subst h; exact continues_okOp hc
    · subst h; exact continues_okOp (hc off)
  | setRunId id => exact h
  | delRunId => exact h
  | newRdbWriter off size => exact h
  | rdbAppend chunk => exact h
  | rdbClose => exact h
  | aofAppend chunk => exact h
  | aofClose => exact h
  | gc => exact h
  | openReader rid off crcOk => exact h
  | read rid n => exact h
  | advAcquire rid => exact h
  | advRelease rid => exact h
  | closeReader rid => exact h

theorem knows_ask {s : Disk} (hl : s.live = none) : Knows (askAnswer s) s := by
  unfold askAnswer
  cases hln : s.latestNat with
  | some q => exact latest_continues hl hln
  | none =>
    intro q
    have hall : s.all = s.segs := by simp [Disk.all, hl]
    unfold Disk.latestNat at hln
    rw [hall] at hln
    cases hlr : lastRight s.segs with
    | some r => rw [hlr] at hln; cases hln
    | none =>
      rw [hlr] at hln
      cases hrd : s.rdb with
      | some rd => rw [hrd] at hln; cases hln
      | none =>
        refine ⟨hl, ?_, ?_⟩
        · intro r hr; rw [hlr] at hr; cases hr
        · intro _ rd h; rw [hrd] at h; cases h

theorem knows_step {c : CSt} {s : Disk} (hi : DInv s) (hc : Knows c s) (o : DOp) :
    Knows (callerNext c s o) (s.step o).1 := by
  have keep : o.opensWriter = false → Knows c (s.step o).1 := by
    intro hnw
    cases c with
    | none => trivial
    | asked q => exact step_continues hi hc o hnw
    | cleared => intro q; exact step_continues hi (hc q) o hnw
  cases o with
  | newAofWriter off => trivial
  | newRdbWriter off size =>
    show Continues off _
    refine ⟨rfl, by intro r hr; simp [Disk.step, Disk.reset, lastRight] at hr, ?_⟩
    intro _ rd hrd
    simp only [Disk.step] at hrd
    cases hrd; rfl
  | delRunId =>
    simp only [callerNext]
    split
    · rename_i he; simp only [Disk.step, he, if_true]; exact hc
    · rename_i he
      intro q
      simp only [Disk.step, he, if_false]
      exact Continues.empty q rfl rfl rfl
  | setRunId id => exact keep rfl
  | rdbAppend chunk => exact keep rfl
  | rdbClose => exact keep rfl
  | aofAppend chunk => exact keep rfl
  | aofClose => exact keep rfl
  | gc => exact keep rfl
  | openReader rid off crcOk => exact keep rfl
  | read rid n => exact keep rfl
  | advAcquire rid => exact keep rfl
  | advRelease rid => exact keep rfl
  | closeReader rid => exact keep rfl

/-- **the callers' runs respect the protocol.** -/
theorem caller_wf : ∀ (cops : List COp) (c : CSt) (s : Disk), DInv s → Knows c s →
    callerOk c s cops → s.wf (COp.erase cops) := by
  intro cops
  induction cops with
  | nil => intro c s _ _ _; trivial
  | cons x rest ih =>
    intro c s hi hc hok
    cases x with
    | ask =>
      obtain ⟨hl, hrest⟩ := hok
      exact ih _ s hi (knows_ask hl) hrest
    | op o =>
      obtain ⟨ha, hrest⟩ := hok
      have hk := callerAllows_okOp hc o ha
      exact ⟨hk, ih _ _ (hi.step o hk) (knows_step hi hc o) hrest⟩

end GunYu.Store
