/-
  Helper lemmas for `Props/C09Lives.lean` (a source MULTI/EXEC group is applied
  wholly or not at all across any number of crash/restart lives):

   * specification: `specStream` is monotone in the stream (`specStream_prefix`)
     and splits at any point into "what was read" and "the rest, continued from
     the parser's state there" (`spec_split`);
   * parser: how a source group `MULTI body EXEC` is handed over: the MULTI and
     the EXEC are always handed over (`txnOpen_before_multi`, `parseStep_multi`,
     `parseStep_exec`), with their own end offset or -- read inside a filtered
     database -- the offset of the last command handed over; commands that are not
     brackets and end after `o` either hand over nothing or move `lastSent` above
     `o` (`quiet_or_moved`);
   * sender, transactional mode: the positions written by a run whose schedule
     contains `MULTI … EXEC` come from before the MULTI, from the EXEC, or from
     after it (`txn_cp_positions`), never from inside;
   * both together (`group_tail_quiet`): a position written inside a source group
     is the offset its EXEC carried, and the rest of the group hands over nothing
     executable; and how an offset-ordered stream with a group is cut at a
     position (`grp_le_before`, `grp_le_inside`, `grp_le_after`, ...).
-/
import GunYu.Props.C02Lives
import GunYu.Props.C09Crash

namespace GunYu.Sender
open GunYu GunYu.Target

/-! ### the specification along the stream -/

theorem specStream_prefix (c : PCfg) (b : Bool) (t : Int) (X Y : List Raw) :
    specStream c b t X <+: specStream c b t (X ++ Y) := by
  induction X generalizing b t with
  | nil => exact List.nil_prefix
  | cons r rest ih =>
    simp only [List.cons_append]
    unfold specStream
    repeat' split
    all_goals first
      | exact ih _ _
      | exact List.nil_prefix
      | exact List.cons_prefix_cons.mpr ⟨rfl, ih _ _⟩

/-- the specification of `A ++ Y` is the specification of `A` followed by the
    specification of `Y` continued from where ANY parser that read `A` stands:
    its bypass flag and the database the connection is in after executing what
    it handed over -/
theorem spec_split (c : PCfg) (s : PState) (cur : Int) (A Y : List Raw)
    (hnf : parseFails c s A = false)
    (hinv : s.currentDB = cur ∨ s.currentDB = -1)
    (hsel : ∀ x ∈ A ++ Y, x.cmd = bSelect → ∀ a n, x.args = [a] → atoi? a = some n → 0 ≤ n)
    (hmap : ∀ n : Int, 0 ≤ n → mapDb c n ≠ -1) :
    specStream c s.bypass cur (A ++ Y) = specStream c s.bypass cur A ++
      specStream c (parseState c s A).bypass (seqApplied cur (itemCmds (parseAll c s A))).1 Y := by
  have hsel1 : ∀ x ∈ A, x.cmd = bSelect → ∀ a n, x.args = [a] → atoi? a = some n → 0 ≤ n :=
    fun x hx => hsel x (List.mem_append_left _ hx)
  have hsel2 : ∀ x ∈ Y, x.cmd = bSelect → ∀ a n, x.args = [a] → atoi? a = some n → 0 ≤ n :=
    fun x hx => hsel x (List.mem_append_right _ hx)
  rw [← parser_refines_spec c (A ++ Y) s cur hinv hsel hmap, parseAll_append c s A Y hnf,
    itemCmds_append, seqApplied_append]
  simp only
  rw [parser_refines_spec c A s cur hinv hsel1 hmap,
    parser_refines_spec c Y _ _ (parseAll_inv c A s cur hinv hsel1) hsel2 hmap]

/-! ### the parser on brackets and on the commands between them -/

/-- a bracket that passes the user's filters and is not withheld is handed over,
    with its own end offset or -- read inside a filtered database -- `lastSent` -/
theorem parseStep_bracket (c : PCfg) (s : PState) (r : Raw) (hbr : r.cmd = bMulti ∨ r.cmd = bExec)
    (hfc : c.filterCmd r.cmd = false) (hfk : (c.filterCmdKey r.cmd r.args).isSome)
    (hpb : ¬ (s.bypass = true ∧ passBracket s r.cmd = false)) :
    ∃ a, parseStep c s r =
      (sent s r.cmd (if passBracket s r.cmd then s.lastSent else r.off),
       POut.emit { cmd := r.cmd, args := a,
                   offset := (if passBracket s r.cmd then s.lastSent else r.off), db := s.currentDB }) := by
  have hp : r.cmd ≠ bPing := by rcases hbr with h | h <;> rw [h] <;> decide
  have hs : r.cmd ≠ bSelect := by rcases hbr with h | h <;> rw [h] <;> decide
  have hpub : r.cmd ≠ bPublish := by rcases hbr with h | h <;> rw [h] <;> decide
  have hpubf : ¬ (r.cmd = bPublish ∧ (r.args.head?.map lower) = some bSentinelHello) := fun h => hpub h.1
  obtain ⟨a, ha⟩ := Option.isSome_iff_exists.mp hfk
  refine ⟨a, ?_⟩
  rw [parseStep_data c s r hp hs]
  simp only [hfc, Bool.false_eq_true, ↓reduceIte, hpubf, hpb, ha]

theorem parseStep_multi (c : PCfg) (s : PState) (r : Raw) (hm : r.cmd = bMulti) (hto : s.txnOpen = false)
    (hfc : c.filterCmd r.cmd = false) (hfk : (c.filterCmdKey r.cmd r.args).isSome) :
    ∃ a, parseStep c s r =
      (sent s r.cmd (if passBracket s r.cmd then s.lastSent else r.off),
       POut.emit { cmd := r.cmd, args := a,
                   offset := (if passBracket s r.cmd then s.lastSent else r.off), db := s.currentDB }) := by
  apply parseStep_bracket c s r (Or.inl hm) hfc hfk
  intro ⟨h1, h2⟩
  simp [passBracket, h1, hm, hto] at h2

theorem parseStep_exec (c : PCfg) (s : PState) (r : Raw) (he : r.cmd = bExec) (hto : s.txnOpen = true)
    (hfc : c.filterCmd r.cmd = false) (hfk : (c.filterCmdKey r.cmd r.args).isSome) :
    ∃ a, parseStep c s r =
      (sent s r.cmd (if passBracket s r.cmd then s.lastSent else r.off),
       POut.emit { cmd := r.cmd, args := a,
                   offset := (if passBracket s r.cmd then s.lastSent else r.off), db := s.currentDB }) := by
  apply parseStep_bracket c s r (Or.inr he) hfc hfk
  intro ⟨h1, h2⟩
  have hem : bExec ≠ bMulti := by decide
  simp [passBracket, h1, he, hto, hem] at h2

/-- a command that is not a bracket does not touch `txnOpen` -/
theorem parseStep_other_txnOpen (c : PCfg) (s : PState) (r : Raw) (hm : r.cmd ≠ bMulti) (he : r.cmd ≠ bExec)
    (s' : PState) (o : POut) (hps : parseStep c s r = (s', o)) (hnf : o ≠ POut.fail) :
    s'.txnOpen = s.txnOpen := by
  cases o with
  | fail => exact absurd rfl hnf
  | skip => exact parseStep_skip_txnOpen c s r s' hps
  | emit i =>
    have hcmd : i.cmd = r.cmd := parseStep_emit_cmd c s r i (by rw [hps])
    obtain ⟨_, _, hto⟩ := parseStep_emit_off c s r i (by rw [hps])
    rw [hps] at hto
    simpa [hcmd, hm, he] using hto

/-- no MULTI and no EXEC -/
def NoBracket (L : List Raw) : Prop := ∀ r ∈ L, r.cmd ≠ bMulti ∧ r.cmd ≠ bExec

theorem parseState_noBracket_txnOpen (c : PCfg) (L : List Raw) (s : PState) (hnb : NoBracket L)
    (hnf : parseFails c s L = false) : (parseState c s L).txnOpen = s.txnOpen := by
  induction L generalizing s with
  | nil => rfl
  | cons r rest ih =>
    have hr := hnb r (List.mem_cons_self ..)
    have hrest : NoBracket rest := fun x hx => hnb x (List.mem_cons_of_mem _ hx)
    simp only [parseFails] at hnf
    simp only [parseState]
    cases hps : parseStep c s r with
    | mk s' o =>
      rw [hps] at hnf
      cases o with
      | fail => simp at hnf
      | skip =>
        simp only at hnf ⊢
        rw [ih s' hrest hnf, parseStep_other_txnOpen c s r hr.1 hr.2 s' _ hps (by simp)]
      | emit i =>
        simp only at hnf ⊢
        rw [ih s' hrest hnf, parseStep_other_txnOpen c s r hr.1 hr.2 s' _ hps (by simp)]

/-- **the parser's `txnOpen` is false when it reaches a source MULTI** of a stream
    whose brackets are not nested and pass the user's filters -/
theorem txnOpen_before_multi (c : PCfg) (L : List Raw) (m : Raw) (rest : List Raw) (s : PState) (b : Bool)
    (hb : s.txnOpen = b) (hm : m.cmd = bMulti)
    (hraw : RawNoNested b (L ++ m :: rest))
    (hpass : ∀ r ∈ L, (r.cmd = bMulti ∨ r.cmd = bExec) →
      c.filterCmd r.cmd = false ∧ (c.filterCmdKey r.cmd r.args).isSome)
    (hnf : parseFails c s L = false) :
    (parseState c s L).txnOpen = false := by
  induction L generalizing s b with
  | nil =>
    simp only [List.nil_append, RawNoNested, hm, ↓reduceIte] at hraw
    simp only [parseState]; rw [hb]; exact hraw.1
  | cons r L' ih =>
    have hpass' : ∀ r' ∈ L', (r'.cmd = bMulti ∨ r'.cmd = bExec) →
        c.filterCmd r'.cmd = false ∧ (c.filterCmdKey r'.cmd r'.args).isSome :=
      fun r' hr' => hpass r' (List.mem_cons_of_mem _ hr')
    have hme : bMulti ≠ bExec := by decide
    simp only [parseFails] at hnf
    simp only [parseState]
    by_cases hrm : r.cmd = bMulti
    · simp only [List.cons_append, RawNoNested, hrm, ↓reduceIte] at hraw
      obtain ⟨hfc, hfk⟩ := hpass r (List.mem_cons_self ..) (Or.inl hrm)
      obtain ⟨a, hstep⟩ := parseStep_multi c s r hrm (by rw [hb, hraw.1]) hfc hfk
      rw [hstep] at hnf ⊢
      simp only at hnf ⊢
      exact ih _ true (by simp [sent, hrm]) hraw.2 hpass' hnf
    · by_cases hre : r.cmd = bExec
      · simp only [List.cons_append, RawNoNested, hre, hme.symm, ↓reduceIte] at hraw
        obtain ⟨hfc, hfk⟩ := hpass r (List.mem_cons_self ..) (Or.inr hre)
        by_cases h3 : s.bypass = true ∧ passBracket s r.cmd = false
        · have hp : r.cmd ≠ bPing := by rw [hre]; decide
          have hs : r.cmd ≠ bSelect := by rw [hre]; decide
          have hpub : r.cmd ≠ bPublish := by rw [hre]; decide
          have hpubf : ¬ (r.cmd = bPublish ∧ (r.args.head?.map lower) = some bSentinelHello) :=
            fun h => hpub h.1
          have hstep : parseStep c s r = (s, POut.skip) := by
            rw [parseStep_data c s r hp hs]
            simp only [hfc, Bool.false_eq_true, ↓reduceIte, hpubf, h3, and_self]
          have hto : s.txnOpen = false := by
            have := h3.2
            simp only [passBracket, h3.1, hre, hme.symm, decide_false, Bool.false_and, decide_true,
              Bool.true_and, Bool.false_or] at this
            exact this
          rw [hstep] at hnf ⊢
          simp only at hnf ⊢
          exact ih s false hto hraw hpass' hnf
        · obtain ⟨a, hstep⟩ := parseStep_bracket c s r (Or.inr hre) hfc hfk h3
          rw [hstep] at hnf ⊢
          simp only at hnf ⊢
          exact ih _ false (by simp [sent, hre, hme.symm]) hraw hpass' hnf
      · simp only [List.cons_append, RawNoNested, hrm, hre, ↓reduceIte] at hraw
        cases hps : parseStep c s r with
        | mk s' o =>
          rw [hps] at hnf
          cases o with
          | fail => simp at hnf
          | skip =>
            simp only at hnf ⊢
            exact ih s' b (by rw [parseStep_other_txnOpen c s r hrm hre s' _ hps (by simp), hb]) hraw hpass' hnf
          | emit i =>
            simp only at hnf ⊢
            exact ih s' b (by rw [parseStep_other_txnOpen c s r hrm hre s' _ hps (by simp), hb]) hraw hpass' hnf

/-- where the offsets of handed-over items come from -/
theorem parseAll_offset_src (c : PCfg) (L : List Raw) (s : PState) :
    ∀ i ∈ parseAll c s L, i.offset = s.lastSent ∨ ∃ r ∈ L, i.offset = r.off := by
  induction L generalizing s with
  | nil => intro i hi; simp [parseAll] at hi
  | cons r rest ih =>
    intro i hi
    simp only [parseAll] at hi
    cases hps : parseStep c s r with
    | mk s' o =>
      rw [hps] at hi
      cases o with
      | fail => simp at hi
      | skip =>
        simp only at hi
        rcases ih s' i hi with h | ⟨r', hr', h⟩
        · left; rw [h, parseStep_skip_lastSent c s r s' hps]
        · exact Or.inr ⟨r', List.mem_cons_of_mem _ hr', h⟩
      | emit j =>
        simp only at hi
        obtain ⟨hoff, hls, _⟩ := parseStep_emit_off c s r j (by rw [hps])
        rw [hps] at hls
        simp only at hls
        have hj : j.offset = s.lastSent ∨ ∃ r' ∈ r :: rest, j.offset = r'.off := by
          rcases hoff with h | ⟨h, _⟩
          · exact Or.inr ⟨r, List.mem_cons_self .., h⟩
          · exact Or.inl h
        rcases List.mem_cons.mp hi with rfl | hi'
        · exact hj
        · rcases ih s' i hi' with h | ⟨r', hr', h⟩
          · rw [hls] at h; rw [h]; exact hj
          · exact Or.inr ⟨r', List.mem_cons_of_mem _ hr', h⟩

/-- every handed-over item carries the name of a command of the list -/
theorem parseAll_cmd_src (c : PCfg) (L : List Raw) (s : PState) :
    ∀ i ∈ parseAll c s L, ∃ r ∈ L, i.cmd = r.cmd := by
  induction L generalizing s with
  | nil => intro i hi; simp [parseAll] at hi
  | cons r rest ih =>
    intro i hi
    simp only [parseAll] at hi
    cases hps : parseStep c s r with
    | mk s' o =>
      rw [hps] at hi
      cases o with
      | fail => simp at hi
      | skip =>
        simp only at hi
        obtain ⟨r', hr', h⟩ := ih s' i hi
        exact ⟨r', List.mem_cons_of_mem _ hr', h⟩
      | emit j =>
        simp only at hi
        rcases List.mem_cons.mp hi with rfl | hi'
        · exact ⟨r, List.mem_cons_self .., parseStep_emit_cmd c s r _ (by rw [hps])⟩
        · obtain ⟨r', hr', h⟩ := ih s' i hi'
          exact ⟨r', List.mem_cons_of_mem _ hr', h⟩

/-- **Nothing handed over, or `lastSent` moved.** Reading commands that are not
    brackets and end after `o`: either nothing is handed over and `lastSent`
    stays, or `lastSent` ends above `o`. -/
theorem quiet_or_moved (c : PCfg) (o : Int) (L : List Raw) (s : PState)
    (hnb : NoBracket L) (hgt : ∀ r ∈ L, o < r.off) (hnf : parseFails c s L = false) :
    (parseAll c s L = [] ∧ (parseState c s L).lastSent = s.lastSent) ∨
      o < (parseState c s L).lastSent := by
  induction L generalizing s with
  | nil => exact Or.inl ⟨rfl, rfl⟩
  | cons r rest ih =>
    have hr := hnb r (List.mem_cons_self ..)
    have hrest : NoBracket rest := fun x hx => hnb x (List.mem_cons_of_mem _ hx)
    have hgt' : ∀ r' ∈ rest, o < r'.off := fun x hx => hgt x (List.mem_cons_of_mem _ hx)
    simp only [parseFails] at hnf
    simp only [parseState, parseAll]
    cases hps : parseStep c s r with
    | mk s' o' =>
      rw [hps] at hnf
      cases o' with
      | fail => simp at hnf
      | skip =>
        simp only at hnf ⊢
        rcases ih s' hrest hgt' hnf with ⟨h1, h2⟩ | h
        · exact Or.inl ⟨h1, by rw [h2, parseStep_skip_lastSent c s r s' hps]⟩
        · exact Or.inr h
      | emit i =>
        simp only at hnf ⊢
        right
        obtain ⟨hoff, hls, _⟩ := parseStep_emit_off c s r i (by rw [hps])
        rw [hps] at hls
        simp only at hls
        have hcmd : i.cmd = r.cmd := parseStep_emit_cmd c s r i (by rw [hps])
        have hown : i.offset = r.off := by
          rcases hoff with h | ⟨_, ⟨h, _⟩ | ⟨h, _⟩⟩
          · exact h
          · exact absurd (hcmd ▸ h) hr.1
          · exact absurd (hcmd ▸ h) hr.2
        have hro := hgt r (List.mem_cons_self ..)
        rcases ih s' hrest hgt' hnf with ⟨_, h2⟩ | h
        · rw [h2, hls, hown]; exact hro
        · exact h

/-- an EXEC hands over nothing that is executed -/
theorem itemCmds_parse_exec (c : PCfg) (s : PState) (e : Raw) (he : e.cmd = bExec) :
    itemCmds (parseAll c s [e]) = [] := by
  simp only [parseAll]
  cases hps : parseStep c s e with
  | mk s' o =>
    cases o with
    | fail => rfl
    | skip => rfl
    | emit i =>
      have hcmd : i.cmd = e.cmd := parseStep_emit_cmd c s e i (by rw [hps])
      simp only
      rw [itemCmds_cons_bracket i [] (by rw [hcmd, he]; decide)]
      rfl

/-! ### the sender: the positions written around a transaction -/

theorem itemsOf_append (a b : List Ev) : itemsOf (a ++ b) = itemsOf a ++ itemsOf b := by
  induction a with
  | nil => rfl
  | cons ev rest ih => cases ev <;> simp [itemsOf, ih]

theorem mem_itemsOf {evs : List Ev} {it : Item} (h : Ev.item it ∈ evs) : it ∈ itemsOf evs := by
  induction evs with
  | nil => cases h
  | cons ev rest ih =>
    rcases List.mem_cons.mp h with rfl | h'
    · simp [itemsOf]
    · cases ev <;> simp [itemsOf, ih h']

/-- a schedule splits where its item list does -/
theorem itemsOf_split (evs : List Ev) (A B : List Item) (x : Item) (h : itemsOf evs = A ++ x :: B) :
    ∃ ea eb, evs = ea ++ Ev.item x :: eb ∧ itemsOf ea = A ∧ itemsOf eb = B := by
  induction evs generalizing A with
  | nil => simp [itemsOf] at h
  | cons ev rest ih =>
    have other : itemsOf (ev :: rest) = itemsOf rest →
        ∃ ea eb, ev :: rest = ea ++ Ev.item x :: eb ∧ itemsOf ea = A ∧ itemsOf eb = B := by
      intro he
      rw [he] at h
      obtain ⟨ea, eb, h1, h2, h3⟩ := ih A h
      exact ⟨ev :: ea, eb, by rw [h1]; rfl, by rw [← h2]; cases ev <;> first | rfl | (simp [itemsOf] at he), h3⟩
    cases ev with
    | item it =>
      simp only [itemsOf] at h
      cases A with
      | nil =>
        simp only [List.nil_append, List.cons.injEq] at h
        exact ⟨[], rest, by rw [h.1]; rfl, rfl, h.2⟩
      | cons a A' =>
        simp only [List.cons_append, List.cons.injEq] at h
        obtain ⟨ea, eb, h1, h2, h3⟩ := ih A' h.2
        exact ⟨Ev.item it :: ea, eb, by rw [h1]; rfl, by simp [itemsOf, h2, h.1], h3⟩
    | batchTick => exact other rfl
    | keepaliveTick => exact other rfl
    | cpTick => exact other rfl
    | done => exact other rfl

/-- the offset the loop holds after a run: the one it started with, or an item's -/
theorem run_lastOffset (c : SCfg) (s : SState) (evs : List Ev) :
    (run c s evs).1.lastOffset = s.lastOffset ∨
      ∃ i ∈ itemsOf evs, (run c s evs).1.lastOffset = i.offset := by
  induction evs generalizing s with
  | nil => exact Or.inl rfl
  | cons ev rest ih =>
    have hl := (step_cp c s ev).1
    have hnew : newLast s ev = s.lastOffset ∨ ∃ i ∈ itemsOf (ev :: rest), newLast s ev = i.offset := by
      cases ev with
      | item it => exact Or.inr ⟨it, by simp [itemsOf], rfl⟩
      | batchTick => exact Or.inl rfl
      | keepaliveTick => exact Or.inl rfl
      | cpTick => exact Or.inl rfl
      | done => exact Or.inl rfl
    simp only [run]
    split
    · rw [hl]; exact hnew
    · rcases ih (step c s ev).1 with h | ⟨i, hi, h⟩
      · rw [h, hl]; exact hnew
      · exact Or.inr ⟨i, by cases ev <;> simp [itemsOf, hi], h⟩

/-- the flush before an EXEC is absorbed stores the EXEC's offset, nothing else -/
theorem preFlush_commit_cp (c : SCfg) (s : SState) (nf : Bool) (prev : Int) :
    cpOffsets (preFlush c s .commit nf prev).2 = [] ∨
      cpOffsets (preFlush c s .commit nf prev).2 = [s.lastOffset] := by
  unfold preFlush
  split
  · simp only [↓reduceIte]
    rcases (sendOnce_cp c s c.txnMode (c.resume && c.txnMode) s.lastOffset).2 with h | ⟨h, _⟩
    · exact Or.inl h
    · exact Or.inr h
  · exact Or.inl rfl

/-- **the iteration that consumes an EXEC stores no other position than the EXEC's** -/
theorem exec_cp (c : SCfg) (hc : c.txnMode = true) (s : SState) (it : Item) (he : it.cmd = bExec) :
    ∀ o ∈ cpOffsets (step c s (.item it)).2, o = it.offset := by
  have hpe : bExec ≠ bPing := by decide
  have hst : ∀ t, txnStatus bExec t = (Txn.commit, true) := by
    intro t; cases t <;> simp [txnStatus, cmdClass, bMulti, bSelect, bExec]
  have hst' : txnStatus it.cmd ({ s with lastOffset := it.offset } : SState).txn = (Txn.commit, true) := by
    rw [he]; exact hst _
  simp only [step, he, hpe, ↓reduceIte]
  rw [Props.C09.stepItem_txn_eq c hc _ it s.lastOffset _ _ hst']
  unfold stepItemTxn
  simp only
  generalize hs1 : ({ s with lastOffset := it.offset, txn := Txn.commit, needFlush := true } : SState) = s1
  have hl1 : s1.lastOffset = it.offset := by rw [← hs1]
  obtain ⟨hlast, _⟩ := preFlush_cp c s1 .commit true s.lastOffset
  have habs : (absorb (preFlush c s1 .commit true s.lastOffset).1 .commit it).lastOffset = it.offset := by
    rw [absorb_last, hlast, hl1]
  obtain ⟨_, l2, h2, hl2⟩ := tail_cp c (absorb (preFlush c s1 .commit true s.lastOffset).1 .commit it)
    c.txnMode (c.resume && c.txnMode) (preFlush c s1 .commit true s.lastOffset).2
  intro o ho
  rw [h2] at ho
  rcases List.mem_append.mp ho with h | h
  · rcases preFlush_commit_cp c s1 true s.lastOffset with h0 | h0
    · rw [h0] at h; cases h
    · rw [h0, hl1] at h; simpa using h
  · rcases hl2 with h0 | ⟨h0, _⟩
    · rw [h0] at h; cases h
    · rw [h0, habs] at h; simpa using h

/-- **Transactional mode: no position comes from inside a transaction.** For a
    schedule whose items are `I1 ++ [MULTI] ++ I2 ++ [EXEC] ++ I3` (brackets not
    nested, no EXEC in `I2`), every position the run writes is the loop's initial
    `-1` or the offset of an item of `I1`, or the EXEC's offset, or the offset of
    an item of `I3`. -/
theorem txn_cp_positions (c : SCfg) (hc : c.txnMode = true) (evs : List Ev) (hnd : Props.C09.NoDone evs)
    (I1 I2 I3 : List Item) (x y : Item)
    (hitems : itemsOf evs = I1 ++ x :: (I2 ++ y :: I3))
    (hnn : ItemsNoNested false (itemsOf evs))
    (hx : x.cmd = bMulti) (hy : y.cmd = bExec) (hI2 : ∀ i ∈ I2, i.cmd ≠ bExec) :
    ∀ o ∈ cpOffsets (run c initS evs).2,
      (o = -1 ∨ ∃ i ∈ I1, o = i.offset) ∨ o = y.offset ∨ ∃ i ∈ I3, o = i.offset := by
  obtain ⟨e1, e2', hev, h1, h2'⟩ := itemsOf_split evs I1 _ x hitems
  obtain ⟨e2, e3, hev2, h2, h3⟩ := itemsOf_split e2' I2 I3 y h2'
  subst hev2
  subst hev
  have hnd1 : Props.C09.NoDone e1 := fun e he => hnd e (List.mem_append_left _ he)
  have hnd2 : Props.C09.NoDone e2 := fun e he =>
    hnd e (List.mem_append_right _ (List.mem_cons_of_mem _ (List.mem_append_left _ he)))
  have hndx : Props.C09.NoDone [Ev.item x] := by intro e he; simp at he; subst he; simp
  have hndy : Props.C09.NoDone [Ev.item y] := by intro e he; simp at he; subst he; simp
  have hnnE := Props.C01.noNested_of_items false _ hnn
  have hN := Props.C09.noNested_run c initS e1 (Ev.item x :: (e2 ++ Ev.item y :: e3)) hnd1
    (by simpa [initS, inT] using hnnE)
  simp only [Props.C01.NoNested, hx, ↓reduceIte] at hN
  have hpre : (run c initS e1).1.txn = .no ∨ (run c initS e1).1.txn = .barrier ∨
      (run c initS e1).1.txn = .commit := by
    have hout := hN.1
    cases hx' : (run c initS e1).1.txn <;> simp [hx', inT] at hout ⊢
  have hbody : ∀ ev ∈ e2, ∀ it, ev = .item it → it.cmd ≠ bExec := by
    intro ev hev it hit
    subst hit
    exact hI2 it (by rw [← h2]; exact mem_itemsOf hev)
  obtain ⟨hin1, _, hcpx⟩ := Props.C09.multi_opens c hc (run c initS e1).1 hpre x hx
  obtain ⟨hout2, _⟩ := Props.C09.no_flush_inside_txn_run c hc _ hin1 e2 hbody
  intro o ho
  have e : e1 ++ Ev.item x :: (e2 ++ Ev.item y :: e3) =
      e1 ++ ([Ev.item x] ++ (e2 ++ ([Ev.item y] ++ e3))) := by simp
  rw [e, Props.C09.run_append c initS e1 _ hnd1] at ho
  simp only at ho
  rw [Props.C09.run_append c (run c initS e1).1 [Ev.item x] _ hndx, Props.C09.run_single] at ho
  simp only at ho
  rw [Props.C09.run_append c (step c (run c initS e1).1 (Ev.item x)).1 e2 _ hnd2, hout2] at ho
  simp only [List.nil_append] at ho
  rw [Props.C09.run_append c _ [Ev.item y] _ hndy, Props.C09.run_single] at ho
  simp only [cpOffsets_append, List.mem_append] at ho
  have hfirst : ∀ v : Int, (v = initS.lastOffset ∨ ∃ i ∈ itemsOf e1, v = i.offset) →
      (v = -1 ∨ ∃ i ∈ I1, v = i.offset) := by
    intro v hv
    rcases hv with h | ⟨i, hi, h⟩
    · exact Or.inl h
    · exact Or.inr ⟨i, by rw [← h1]; exact hi, h⟩
  rcases ho with h | h | h | h
  · left
    apply hfirst
    rcases run_cp_origin c initS e1 o h with ⟨h0, _⟩ | h0
    · exact Or.inl h0
    · exact Or.inr h0
  · left
    apply hfirst
    rw [hcpx o h]
    exact run_lastOffset c initS e1
  · right; left
    exact exec_cp c hc _ y hy o h
  · right
    rcases run_cp_origin c _ e3 o h with ⟨h0, _⟩ | ⟨i, hi, h0⟩
    · left
      rw [h0, (step_cp c _ (Ev.item y)).1]
      rfl
    · right
      exact ⟨i, by rw [← h3]; exact hi, h0⟩

/-! ### a source group in an offset-ordered stream -/

theorem sorted_append_lt {X Y : List Raw} (h : ((X ++ Y).map (·.off)).Pairwise (· < ·)) :
    (X.map (·.off)).Pairwise (· < ·) ∧ (Y.map (·.off)).Pairwise (· < ·) ∧
      ∀ x ∈ X, ∀ y ∈ Y, x.off < y.off := by
  rw [List.map_append, List.pairwise_append] at h
  exact ⟨h.1, h.2.1, fun x hx y hy =>
    h.2.2 _ (List.mem_map.mpr ⟨x, hx, rfl⟩) _ (List.mem_map.mpr ⟨y, hy, rfl⟩)⟩

theorem sorted_cons_lt {x : Raw} {Y : List Raw} (h : ((x :: Y).map (·.off)).Pairwise (· < ·)) :
    (Y.map (·.off)).Pairwise (· < ·) ∧ ∀ y ∈ Y, x.off < y.off := by
  rw [List.map_cons, List.pairwise_cons] at h
  exact ⟨h.2, fun y hy => h.1 _ (List.mem_map.mpr ⟨y, hy, rfl⟩)⟩

/-- the order facts of `pre ++ [m] ++ body ++ [e] ++ post` -/
theorem group_order {pre body post : List Raw} {m e : Raw}
    (hraw : ((pre ++ m :: (body ++ e :: post)).map (·.off)).Pairwise (· < ·)) :
    (pre.map (·.off)).Pairwise (· < ·) ∧ (body.map (·.off)).Pairwise (· < ·) ∧
    (post.map (·.off)).Pairwise (· < ·) ∧
    (∀ r ∈ pre, r.off < m.off) ∧ (∀ r ∈ body, m.off < r.off ∧ r.off < e.off) ∧ m.off < e.off ∧
    (∀ r ∈ post, e.off < r.off) := by
  obtain ⟨hp, h1, hpm⟩ := sorted_append_lt hraw
  obtain ⟨h2, hm⟩ := sorted_cons_lt h1
  obtain ⟨hb, h3, hbe⟩ := sorted_append_lt h2
  obtain ⟨hpo, hepo⟩ := sorted_cons_lt h3
  refine ⟨hp, hb, hpo, fun r hr => hpm r hr m (List.mem_cons_self ..), ?_, ?_, hepo⟩
  · intro r hr
    exact ⟨hm r (List.mem_append_left _ hr), hbe r hr e (List.mem_cons_self ..)⟩
  · exact hm e (List.mem_append_right _ (List.mem_cons_self ..))

theorem parseFails_of_subset (c : PCfg) (s s' : PState) {X Y : List Raw} (h : ∀ r ∈ Y, r ∈ X)
    (hx : parseFails c s X = false) : parseFails c s' Y = false := by
  rw [parseFails_eq_any] at hx ⊢
  cases hy : Y.any badSelect with
  | false => rfl
  | true =>
    obtain ⟨r, hr, hb⟩ := List.any_eq_true.mp hy
    have : X.any badSelect = true := List.any_eq_true.mpr ⟨r, h r hr, hb⟩
    rw [hx] at this; cases this

/-- **A position inside a source group leaves nothing of the group to execute.**
    A transactional run over the real parser's items for a stream
    `pre ++ [MULTI] ++ body ++ [EXEC] ++ post` that the parser reads from before
    the MULTI. If a position `o'` the run writes lies in `[MULTI.off, EXEC.off)`,
    it is the offset the EXEC carried out of a filtered database (`lastSent`), and
    the parser, standing after the group's commands ending at or before `o'`,
    hands over nothing executable for the rest of the group. -/
theorem group_tail_quiet (c : PCfg) (sc : SCfg) (hsc : sc.txnMode = true)
    (o : Int) (ho : 0 ≤ o) (pre body post : List Raw) (m e : Raw)
    (hm : m.cmd = bMulti) (he : e.cmd = bExec) (hnb : NoBracket body)
    (hraw : ((pre ++ m :: (body ++ e :: post)).map (·.off)).Pairwise (· < ·))
    (hlo : ∀ r ∈ pre ++ m :: (body ++ e :: post), o < r.off)
    (hnest : RawNoNested false (pre ++ m :: (body ++ e :: post)))
    (hpass : ∀ r ∈ pre ++ m :: (body ++ e :: post), (r.cmd = bMulti ∨ r.cmd = bExec) →
      c.filterCmd r.cmd = false ∧ (c.filterCmdKey r.cmd r.args).isSome)
    (hnf : parseFails c { lastSent := o } (pre ++ m :: (body ++ e :: post)) = false)
    (evs : List Ev) (hnd : Props.C09.NoDone evs)
    (hitems : itemsOf evs = parserItems c o (pre ++ m :: (body ++ e :: post)))
    (o' : Int) (ho' : o' ∈ cpOffsets (run sc initS evs).2) (h1 : m.off ≤ o') (h2 : o' < e.off) :
    itemCmds (parseAll c
      (parseState c { lastSent := o } (pre ++ m :: body.filter (fun r => decide (r.off ≤ o'))))
      (body.filter (fun r => decide (o' < r.off)) ++ [e])) = [] := by
  obtain ⟨_, hbs, _, hpm, hbme, _, hepo⟩ := group_order hraw
  generalize hB : pre ++ m :: (body ++ e :: post) = B at hlo hnest hpass hnf hitems
  have hmemB : ∀ {Y : List Raw}, (∀ r ∈ Y, r ∈ B) → ∀ s' : PState, parseFails c s' Y = false :=
    fun h s' => parseFails_of_subset c _ s' h hnf
  have hpreB : ∀ r ∈ pre, r ∈ B := fun r hr => by rw [← hB]; exact List.mem_append_left _ hr
  have hmB : m ∈ B := by rw [← hB]; simp
  have heB : e ∈ B := by rw [← hB]; simp
  have hbodyB : ∀ r ∈ body, r ∈ B := fun r hr => by rw [← hB]; simp [hr]
  have hpostB : ∀ r ∈ post, r ∈ B := fun r hr => by rw [← hB]; simp [hr]
  -- the parser up to the MULTI
  have hto1 : (parseState c { lastSent := o } pre).txnOpen = false :=
    txnOpen_before_multi c pre m (body ++ e :: post) _ false rfl hm (by rw [hB]; exact hnest)
      (fun r hr => hpass r (hpreB r hr)) (hmemB hpreB _)
  obtain ⟨hfcm, hfkm⟩ := hpass m hmB (Or.inl hm)
  obtain ⟨am, hstepm⟩ := parseStep_multi c _ m hm hto1 hfcm hfkm
  generalize hs1 : parseState c { lastSent := o } pre = s1 at hto1 hstepm
  generalize hoffm : (if passBracket s1 m.cmd = true then s1.lastSent else m.off) = offm at hstepm
  generalize hs2 : sent s1 m.cmd offm = s2 at hstepm
  have hto2 : s2.txnOpen = true := by rw [← hs2]; simp [sent, hm]
  -- the body and the EXEC
  have hto3 : (parseState c s2 body).txnOpen = true := by
    rw [parseState_noBracket_txnOpen c body s2 hnb (hmemB hbodyB _), hto2]
  obtain ⟨hfce, hfke⟩ := hpass e heB (Or.inr he)
  obtain ⟨ae, hstepe⟩ := parseStep_exec c _ e he hto3 hfce hfke
  generalize hs3 : parseState c s2 body = s3 at hto3 hstepe
  generalize hoffe : (if passBracket s3 e.cmd = true then s3.lastSent else e.off) = offe at hstepe
  generalize hs4 : sent s3 e.cmd offe = s4 at hstepe
  have hls4 : s4.lastSent = offe := by rw [← hs4]; rfl
  -- the item list
  have hparse : parseAll c { lastSent := o } B =
      parseAll c { lastSent := o } pre ++
        { cmd := m.cmd, args := am, offset := offm, db := s1.currentDB } ::
          (parseAll c s2 body ++
            { cmd := e.cmd, args := ae, offset := offe, db := s3.currentDB } :: parseAll c s4 post) := by
    rw [← hB, parseAll_append c _ pre _ (hmemB hpreB _), hs1]
    congr 1
    simp only [parseAll, hstepm]
    congr 1
    rw [parseAll_append c s2 body _ (hmemB hbodyB _), hs3]
    congr 1
    simp only [parseAll, hstepe]
  have hnn : ItemsNoNested false (itemsOf evs) := by
    rw [hitems]
    exact Props.C02.itemsNoNested_parserItems c o B
      (parseAll_noNested c B { lastSent := o } false rfl hnest hpass)
  have hitems' : itemsOf evs =
      ((if c.startDbId > 0 then [selectItem c.startDbId o] else []) ++ parseAll c { lastSent := o } pre) ++
        { cmd := m.cmd, args := am, offset := offm, db := s1.currentDB } ::
          (parseAll c s2 body ++
            { cmd := e.cmd, args := ae, offset := offe, db := s3.currentDB } :: parseAll c s4 post) := by
    rw [hitems]; unfold parserItems; rw [hparse, List.append_assoc]
  have hI2 : ∀ i ∈ parseAll c s2 body, i.cmd ≠ bExec := by
    intro i hi
    obtain ⟨r, hr, hc⟩ := parseAll_cmd_src c body s2 i hi
    rw [hc]; exact (hnb r hr).2
  -- where the position comes from
  have hpos : o' = offe := by
    rcases txn_cp_positions sc hsc evs hnd _ _ _ _ _ hitems' hnn hm he hI2 o' ho' with
      (h | ⟨i, hi, h⟩) | h | ⟨i, hi, h⟩
    · exfalso
      have := hlo m hmB
      omega
    · exfalso
      rcases List.mem_append.mp hi with hi | hi
      · split at hi
        · simp only [List.mem_singleton] at hi
          rw [hi] at h
          have := hlo m hmB
          simp only [selectItem] at h
          omega
        · cases hi
      · rcases parseAll_offset_src c pre _ i hi with h0 | ⟨r, hr, h0⟩
        · have := hlo m hmB
          simp only at h0
          omega
        · have := hpm r hr
          omega
    · exact h
    · rcases parseAll_offset_src c post s4 i hi with h0 | ⟨r, hr, h0⟩
      · rw [h, h0, hls4]
      · exfalso
        have := hepo r hr
        omega
  have hlast3 : s3.lastSent = o' := by
    rw [hpos, ← hoffe]
    by_cases hpb : passBracket s3 e.cmd = true
    · simp only [hpb, ↓reduceIte]
    · exfalso
      rw [hpos, ← hoffe] at h2
      simp only [hpb, Bool.false_eq_true, ↓reduceIte] at h2
      omega
  -- the rest of the group hands over nothing
  have hsplit := sorted_split body o' hbs
  generalize hb1 : body.filter (fun r => decide (r.off ≤ o')) = b1 at hsplit ⊢
  generalize hb2 : body.filter (fun r => decide (o' < r.off)) = b2 at hsplit ⊢
  have hb1B : ∀ r ∈ b1, r ∈ B := fun r hr => hbodyB r (by rw [hsplit]; exact List.mem_append_left _ hr)
  have hb2B : ∀ r ∈ b2, r ∈ B := fun r hr => hbodyB r (by rw [hsplit]; exact List.mem_append_right _ hr)
  have hstate : parseState c { lastSent := o } (pre ++ m :: b1) = parseState c s2 b1 := by
    rw [parseState_append c _ pre _ (hmemB hpreB _), hs1]
    simp only [parseState, hstepm]
  have hs3' : parseState c (parseState c s2 b1) b2 = s3 := by
    rw [← hs3, hsplit, parseState_append c s2 b1 b2 (hmemB hb1B _)]
  have hquiet : parseAll c (parseState c s2 b1) b2 = [] := by
    rcases quiet_or_moved c o' b2 (parseState c s2 b1)
      (fun r hr => hnb r (by rw [hsplit]; exact List.mem_append_right _ hr))
      (fun r hr => by rw [← hb2] at hr; simpa using (List.mem_filter.mp hr).2)
      (hmemB hb2B _) with ⟨h, _⟩ | h
    · exact h
    · rw [hs3', hlast3] at h; omega
  rw [hstate, parseAll_append c _ b2 [e] (hmemB hb2B _), hquiet, List.nil_append]
  exact itemCmds_parse_exec c _ e he

/-! ### cutting an offset-ordered stream with a group at a position -/

theorem filter_gt_self {L : List Raw} {o : Int} (h : ∀ r ∈ L, o < r.off) :
    L.filter (fun r => decide (o < r.off)) = L :=
  List.filter_eq_self.mpr (fun r hr => by simpa using h r hr)

theorem filter_gt_nil {L : List Raw} {o : Int} (h : ∀ r ∈ L, r.off ≤ o) :
    L.filter (fun r => decide (o < r.off)) = [] :=
  List.filter_eq_nil_iff.mpr (fun r hr => by have := h r hr; simp only [decide_eq_true_eq]; omega)

theorem filter_le_self {L : List Raw} {o : Int} (h : ∀ r ∈ L, r.off ≤ o) :
    L.filter (fun r => decide (r.off ≤ o)) = L :=
  List.filter_eq_self.mpr (fun r hr => by simpa using h r hr)

theorem filter_le_nil {L : List Raw} {o : Int} (h : ∀ r ∈ L, o < r.off) :
    L.filter (fun r => decide (r.off ≤ o)) = [] :=
  List.filter_eq_nil_iff.mpr (fun r hr => by have := h r hr; simp only [decide_eq_true_eq]; omega)

/-- cutting at `o'` = cutting at an earlier `o`, then cutting the rest at `o'` -/
theorem filter_le_split (raws : List Raw) (o o' : Int) (hraw : (raws.map (·.off)).Pairwise (· < ·))
    (h : o ≤ o') :
    raws.filter (fun r => decide (r.off ≤ o')) =
      raws.filter (fun r => decide (r.off ≤ o)) ++
        (raws.filter (fun r => decide (o < r.off))).filter (fun r => decide (r.off ≤ o')) := by
  conv => lhs; rw [sorted_split raws o hraw]
  rw [List.filter_append]
  congr 1
  apply filter_le_self
  intro r hr
  have := (List.mem_filter.mp hr).2
  simp only [decide_eq_true_eq] at this
  omega

section group
variable {pre body post : List Raw} {m e : Raw} {o : Int}

theorem grp_gt_before (hraw : ((pre ++ m :: (body ++ e :: post)).map (·.off)).Pairwise (· < ·))
    (h : o < m.off) :
    (pre ++ m :: (body ++ e :: post)).filter (fun r => decide (o < r.off)) =
      pre.filter (fun r => decide (o < r.off)) ++ m :: (body ++ e :: post) := by
  obtain ⟨_, _, _, _, hb, hme, hpo⟩ := group_order hraw
  rw [List.filter_append, filter_gt_self (L := m :: (body ++ e :: post))]
  intro r hr
  simp only [List.mem_cons, List.mem_append] at hr
  rcases hr with rfl | hr | rfl | hr
  · exact h
  · have := (hb r hr).1; omega
  · omega
  · have := hpo r hr; omega

theorem grp_le_before (hraw : ((pre ++ m :: (body ++ e :: post)).map (·.off)).Pairwise (· < ·))
    (h : o < m.off) :
    (pre ++ m :: (body ++ e :: post)).filter (fun r => decide (r.off ≤ o)) =
      pre.filter (fun r => decide (r.off ≤ o)) := by
  obtain ⟨_, _, _, _, hb, hme, hpo⟩ := group_order hraw
  rw [List.filter_append, filter_le_nil (L := m :: (body ++ e :: post)), List.append_nil]
  intro r hr
  simp only [List.mem_cons, List.mem_append] at hr
  rcases hr with rfl | hr | rfl | hr
  · exact h
  · have := (hb r hr).1; omega
  · omega
  · have := hpo r hr; omega

theorem grp_gt_inside (hraw : ((pre ++ m :: (body ++ e :: post)).map (·.off)).Pairwise (· < ·))
    (h1 : m.off ≤ o) (h2 : o < e.off) :
    (pre ++ m :: (body ++ e :: post)).filter (fun r => decide (o < r.off)) =
      body.filter (fun r => decide (o < r.off)) ++ e :: post := by
  obtain ⟨_, _, _, hp, _, _, hpo⟩ := group_order hraw
  have hmo : ¬ o < m.off := by omega
  rw [List.filter_append, filter_gt_nil (L := pre) (fun r hr => by have := hp r hr; omega),
    List.nil_append, List.filter_cons]
  simp only [hmo, decide_false, Bool.false_eq_true, ↓reduceIte]
  rw [List.filter_append, filter_gt_self (L := e :: post)]
  intro r hr
  rcases List.mem_cons.mp hr with rfl | hr
  · exact h2
  · have := hpo r hr; omega

theorem grp_le_inside (hraw : ((pre ++ m :: (body ++ e :: post)).map (·.off)).Pairwise (· < ·))
    (h1 : m.off ≤ o) (h2 : o < e.off) :
    (pre ++ m :: (body ++ e :: post)).filter (fun r => decide (r.off ≤ o)) =
      pre ++ m :: body.filter (fun r => decide (r.off ≤ o)) := by
  obtain ⟨_, _, _, hp, _, _, hpo⟩ := group_order hraw
  rw [List.filter_append, filter_le_self (L := pre) (fun r hr => by have := hp r hr; omega),
    List.filter_cons]
  simp only [h1, decide_true, ↓reduceIte]
  rw [List.filter_append, filter_le_nil (L := e :: post), List.append_nil]
  intro r hr
  rcases List.mem_cons.mp hr with rfl | hr
  · exact h2
  · have := hpo r hr; omega

theorem grp_le_after (hraw : ((pre ++ m :: (body ++ e :: post)).map (·.off)).Pairwise (· < ·))
    (h : e.off ≤ o) :
    (pre ++ m :: (body ++ e :: post)).filter (fun r => decide (r.off ≤ o)) =
      pre ++ m :: (body ++ e :: post.filter (fun r => decide (r.off ≤ o))) := by
  obtain ⟨_, _, _, hp, hb, hme, _⟩ := group_order hraw
  have hmo : m.off ≤ o := by omega
  rw [List.filter_append, filter_le_self (L := pre) (fun r hr => by have := hp r hr; omega),
    List.filter_cons]
  simp only [hmo, decide_true, ↓reduceIte]
  rw [List.filter_append, filter_le_self (L := body) (fun r hr => by have := (hb r hr).2; omega),
    List.filter_cons]
  simp only [h, decide_true, ↓reduceIte]

end group

end GunYu.Sender
