/-
  Helper lemmas for C17, part 5: the recovery-format switch
  (Model/Migrate.lean) keeps the position a start reads. Core only.
-/
import GunYu.Model.Migrate
import GunYu.Proofs.CheckpointUpdate

namespace GunYu.Migrate
open GunYu GunYu.Checkpoint

set_option linter.unusedSimpArgs false
set_option linter.unusedVariables false

/-- HSET of fields that do not belong to the ids changes nothing a start reads -/
theorem holds_hset_nonmatching {ids : List Bytes} {t : Target} {n : Bytes} {d : Nat} {X : Int}
    (h : Holds ids t n d X) (db : Nat) (nm : Bytes) (es : List Entry)
    (hes : ∀ e ∈ es, matchId ids e.rid = false) :
    Holds ids (applyReq t (.hsetCp db nm es)) n d X := by
  by_cases hnm : nm = n
  · subst hnm
    have hoff : ∀ e ∈ es, offSel ids e = false := fun e he => by
      rw [← Bool.not_eq_true, offSel_iff, hes e he]; simp
    have hrid : ∀ e ∈ es, ridSel ids e = false := fun e he => by
      rw [← Bool.not_eq_true, ridSel_iff, hes e he]; simp
    apply h.update _ db
    · intro db' hdb'; rw [applyReq_hsetCp_cps]; simp [hdb']
    · rw [applyReq_hsetCp_cps]; simp only [and_self, if_true]
      intro e he hm hk
      rcases mem_hsetMany he with he | he
      · rw [hes e he] at hm; exact absurd hm (by decide)
      · exact h.parses db e he hm hk
    · intro hdb; subst hdb
      rw [applyReq_hsetCp_cps]; simp only [and_self, if_true]
      rw [offOf_hsetMany_irrelevant ids _ es hoff, ridOf_hsetMany_irrelevant ids _ es hrid]
      exact ⟨h.off, h.rid⟩
    · intro hdb
      rw [applyReq_hsetCp_cps]; simp only [and_self, if_true]
      intro x hx hs v hv
      rcases mem_hsetMany hx with hx | hx
      · rw [hoff x hx] at hs; exact absurd hs (by decide)
      · exact h.dom db hdb x hx hs v hv
  · apply h.congr
    intro db'
    rw [applyReq_hsetCp_cps]
    have : ¬ (db' = db ∧ n = nm) := fun hc => hnm hc.2.symm
    simp [this]

/-- no field of the ids under `name` in any database -/
def Fresh (ids : List Bytes) (t : Target) (name : Bytes) : Prop :=
  ∀ db, ∀ e ∈ t.cps db name, matchId ids e.rid = false

theorem fresh_hset_nonmatching {ids : List Bytes} {t : Target} {name : Bytes} (h : Fresh ids t name)
    (db : Nat) (nm : Bytes) (es : List Entry) (hes : ∀ e ∈ es, matchId ids e.rid = false) :
    Fresh ids (applyReq t (.hsetCp db nm es)) name := by
  intro db' e he
  rw [applyReq_hsetCp_cps] at he
  split at he
  · rename_i hc
    rcases mem_hsetMany he with he | he
    · exact hes e he
    · rw [← hc.1, ← hc.2] at he; exact h db' e he
  · exact h db' e he

/-- the position invariant across the switch: the hash still resolves to the old root key
    `n` holding `X` (and the new key is untouched or already seeded), or it resolves to the
    new key holding some `X' ≥ X` — always in database 0 -/
inductive MInv (id1 id2 n r newName : Bytes) (X : Int) (t : Target) : Prop
  | old (hh : getHash t.hash [id1, id2] = some (n, r)) (ho : Holds [id1, id2] t n 0 X)
        (hn : Fresh [id1, id2] t newName ∨ ∃ X', X ≤ X' ∧ Holds [id1, id2] t newName 0 X')
  | new (X' : Int) (hx : X ≤ X') (hh : getHash t.hash [id1, id2] = some (newName, id1))
        (hn : Holds [id1, id2] t newName 0 X')

theorem MInv.startPoint {id1 id2 n r newName : Bytes} {X : Int} {t : Target}
    (h : MInv id1 id2 n r newName X t) (hn0 : n ≠ []) (hnew0 : newName ≠ []) (ver : Bytes)
    (oS : List Nat) (h0 : 0 ∈ oS) :
    ∃ X', X ≤ X' ∧ Checkpoint.startPoint ver [id1, id2] oS t = some (some (X', 0)) := by
  cases h with
  | old hh ho _ => exact ⟨X, Int.le_refl _, startPoint_of_holds ver hh hn0 ho oS h0⟩
  | new X' hx hh hn => exact ⟨X', hx, startPoint_of_holds ver hh hnew0 hn oS h0⟩

/-- a mode marker write -/
def ModeReq (q : Req) : Prop := ∃ db nm es, q = Req.hsetCp db nm es ∧ ∀ e ∈ es, e.rid = modeField

theorem minv_modeReq {id1 id2 n r newName : Bytes} {X : Int} {t : Target}
    (hm : matchId [id1, id2] modeField = false)
    (h : MInv id1 id2 n r newName X t) (q : Req) (hq : ModeReq q) :
    MInv id1 id2 n r newName X (applyReq t q) := by
  obtain ⟨db, nm, es, rfl, hes⟩ := hq
  have hes' : ∀ e ∈ es, matchId [id1, id2] e.rid = false := fun e he => by rw [hes e he]; exact hm
  cases h with
  | old hh ho hn =>
    refine .old hh (holds_hset_nonmatching ho db nm es hes') ?_
    rcases hn with hf | ⟨X', hx, hh'⟩
    · exact Or.inl (fresh_hset_nonmatching hf db nm es hes')
    · exact Or.inr ⟨X', hx, holds_hset_nonmatching hh' db nm es hes'⟩
  | new X' hx hh hn => exact .new X' hx hh (holds_hset_nonmatching hn db nm es hes')

theorem minv_modeReqs {id1 id2 n r newName : Bytes} {X : Int}
    (hm : matchId [id1, id2] modeField = false) (rs : List Req) :
    ∀ {t : Target}, MInv id1 id2 n r newName X t → (∀ q ∈ rs, ModeReq q) →
      MInv id1 id2 n r newName X (applyAll t rs) := by
  induction rs with
  | nil => intro t h _; exact h
  | cons q rs ih =>
    intro t h hq
    simp only [applyAll, List.foldl_cons]
    exact ih (minv_modeReq hm h q (hq q (List.mem_cons_self ..)))
      (fun q' hq' => hq q' (List.mem_cons_of_mem _ hq'))

theorem modeEntries_rid (m : BMode) (now : Int) : ∀ e ∈ modeEntries m now, e.rid = modeField := by
  intro e he
  simp only [modeEntries, List.mem_cons, List.not_mem_nil, or_false] at he
  rcases he with rfl | rfl <;> rfl

/-! ### the migration proper -/

theorem preferredRunId_first (id1 id2 x : Bytes) (h1 : id1 ≠ []) : preferredRunId [id1, id2] x = id1 := by
  simp [preferredRunId, List.find?, h1]

/-- requests after the hash was repointed -/
def PostReq (id1 newName : Bytes) (q : Req) : Prop :=
  (∃ rid, q = Req.hdelHash rid ∧ rid ≠ id1) ∨ (∃ db ks, q = Req.delKeys db ks ∧ ¬ ks.contains newName = true)

theorem minv_postReq {id1 id2 n r newName : Bytes} {X : Int} {t : Target}
    (hne : id1 ≠ id2) (h1 : id1 ≠ []) (X' : Int) (hx : X ≤ X')
    (hh : getHash t.hash [id1, id2] = some (newName, id1)) (hn : Holds [id1, id2] t newName 0 X')
    (q : Req) (hq : PostReq id1 newName q) :
    getHash (applyReq t q).hash [id1, id2] = some (newName, id1) ∧
    Holds [id1, id2] (applyReq t q) newName 0 X' := by
  rcases hq with ⟨rid, rfl, hrid⟩ | ⟨db, ks, rfl, hks⟩
  · obtain ⟨hl, hnn⟩ := getHash_first hne h1 hh
    exact ⟨getHash_of_first ((hlookup_hashDel_ne _ _ _ (Ne.symm hrid)).trans hl) hnn,
      hn.congr (fun db => rfl)⟩
  · refine ⟨hh, hn.congr ?_⟩
    intro db'
    show (if db' = db ∧ ks.contains newName = true then [] else t.cps db' newName) = t.cps db' newName
    have : ¬ (db' = db ∧ ks.contains newName = true) := fun hc => hks hc.2
    rw [if_neg this]

theorem minv_postReqs {id1 id2 n r newName : Bytes} {X : Int} (hne : id1 ≠ id2) (h1 : id1 ≠ [])
    (X' : Int) (hx : X ≤ X') (rs : List Req) :
    ∀ {t : Target}, getHash t.hash [id1, id2] = some (newName, id1) → Holds [id1, id2] t newName 0 X' →
      (∀ q ∈ rs, PostReq id1 newName q) → MInv id1 id2 n r newName X (applyAll t rs) := by
  induction rs with
  | nil => intro t hh hn _; exact .new X' hx hh hn
  | cons q rs ih =>
    intro t hh hn hq
    simp only [applyAll, List.foldl_cons]
    obtain ⟨a, b⟩ := minv_postReq (n := n) (r := r) (X := X) hne h1 X' hx hh hn q (hq q (List.mem_cons_self ..))
    exact ih a b (fun q' hq' => hq q' (List.mem_cons_of_mem _ hq'))

/-- hypotheses on the ids / the new name / the clock -/
structure MArgs (id1 id2 n newName : Bytes) : Prop where
  hne : id1 ≠ id2
  h1 : id1 ≠ []
  h1q : id1 ≠ qmark
  hm : matchId [id1, id2] modeField = false
  hnew0 : newName ≠ []
  hnewn : newName ≠ n
  hnewf : newName ≠ frontierKey n

theorem minv_core {id1 id2 n r newName : Bytes} {X : Int} {t : Target} (A : MArgs id1 id2 n newName)
    (hh : getHash t.hash [id1, id2] = some (n, r)) (ho : Holds [id1, id2] t n 0 X)
    (hf : Fresh [id1, id2] t newName)
    (ver : Bytes) (desired : BMode) (Y now1 now2 : Int) (hY : X ≤ Y)
    (hYr : -(2^63 : Int) ≤ Y ∧ Y < 2^63) (hnow : -(2^63 : Int) ≤ now1 ∧ now1 < 2^63)
    (post : List Req) (hpost : ∀ q ∈ post, PostReq id1 newName q) (k : Nat) :
    MInv id1 id2 n r newName X (applyAll t
      ((Req.hsetCp 0 newName (cpEntries { runId := id1, offset := Y, version := ver } now1) ::
        Req.hsetCp 0 newName (modeEntries desired now2) :: Req.hsetHash id1 newName :: post).take k)) := by
  have h0 : MInv id1 id2 n r newName X t := .old hh ho (Or.inl hf)
  cases k with
  | zero => exact h0
  | succ k =>
    simp only [List.take_succ_cons, applyAll, List.foldl_cons]
    -- after the seed of the new root key
    let c : CpInfo := { offset := Y, version := ver }
    have w : WArgs c id1 now1 Y := ⟨A.h1, A.h1q, rfl, hYr, hnow⟩
    have hm1 : matchId [id1, id2] id1 = true := (matchId_pair id1 id2 id1).mpr (Or.inl rfl)
    let t1 := applyReq t (Req.hsetCp 0 newName (cpEntries { runId := id1, offset := Y, version := ver } now1))
    have hcps1 : ∀ db nm, t1.cps db nm =
        if db = 0 ∧ nm = newName then written (t.cps 0 newName) c id1 now1 else t.cps db nm := by
      intro db nm
      show (applyReq t (Req.hsetCp 0 newName (cpEntries { c with runId := id1 } now1))).cps db nm = _
      rw [applyReq_hsetCp_cps, hsetMany_cpEntries _ _ _ _ A.h1]; rfl
    have ho1 : Holds [id1, id2] t1 n 0 X := by
      apply ho.congr
      intro db; rw [hcps1]
      have : ¬ (db = 0 ∧ n = newName) := fun hc => A.hnewn hc.2.symm
      simp [this]
    have hn1 : Holds [id1, id2] t1 newName 0 Y := by
      refine ⟨Int.le_trans ho.nonneg hY, ?_, ?_, ?_, ?_⟩
      · intro db
        rw [hcps1]
        by_cases hdb : db = 0
        · subst hdb; simp only [and_self, if_true]
          apply written_parses w
          intro e he hm; rw [hf 0 e he] at hm; exact absurd hm (by decide)
        · simp only [hdb, false_and, if_false]
          intro e he hm; rw [hf db e he] at hm; exact absurd hm (by decide)
      · rw [hcps1]; simp only [and_self, if_true]
        apply written_off_fresh w hm1
        intro e he hs; rw [offSel_iff, hf 0 e he] at hs; exact absurd hs.1 (by decide)
      · rw [hcps1]; simp only [and_self, if_true]
        apply written_rid w hm1
        intro e he hs; rw [ridSel_iff, hf 0 e he] at hs; exact absurd hs.1 (by decide)
      · intro db hdb
        rw [hcps1]; simp only [hdb, false_and, if_false]
        intro e he hs; rw [offSel_iff, hf db e he] at hs; exact absurd hs.1 (by decide)
    have hh1 : getHash t1.hash [id1, id2] = some (n, r) := hh
    have h1 : MInv id1 id2 n r newName X t1 := .old hh1 ho1 (Or.inr ⟨Y, hY, hn1⟩)
    cases k with
    | zero => exact h1
    | succ k =>
      simp only [List.take_succ_cons, List.foldl_cons]
      have hmq : ModeReq (Req.hsetCp 0 newName (modeEntries desired now2)) :=
        ⟨0, newName, _, rfl, modeEntries_rid desired now2⟩
      obtain ⟨db2, nm2, es2, hq2, hes2⟩ := hmq
      have hes2' : ∀ e ∈ modeEntries desired now2, matchId [id1, id2] e.rid = false :=
        fun e he => by rw [modeEntries_rid desired now2 e he]; exact A.hm
      let t2 := applyReq t1 (Req.hsetCp 0 newName (modeEntries desired now2))
      have ho2 : Holds [id1, id2] t2 n 0 X := holds_hset_nonmatching ho1 0 newName _ hes2'
      have hn2 : Holds [id1, id2] t2 newName 0 Y := holds_hset_nonmatching hn1 0 newName _ hes2'
      have hh2 : getHash t2.hash [id1, id2] = some (n, r) := hh
      cases k with
      | zero => exact .old hh2 ho2 (Or.inr ⟨Y, hY, hn2⟩)
      | succ k =>
        simp only [List.take_succ_cons, List.foldl_cons]
        let t3 := applyReq t2 (Req.hsetHash id1 newName)
        have hh3 : getHash t3.hash [id1, id2] = some (newName, id1) :=
          getHash_of_first (hlookup_hashSet_self _ _ _) A.hnew0
        have hn3 : Holds [id1, id2] t3 newName 0 Y := hn2.congr (fun db => rfl)
        exact minv_postReqs A.hne A.h1 Y hY (post.take k) hh3 hn3
          (fun q hq => hpost q (List.mem_of_mem_take hq))

/-! ### assembly -/

structure OldFresh (id1 id2 n r newName : Bytes) (X : Int) (t : Target) : Prop where
  hh : getHash t.hash [id1, id2] = some (n, r)
  ho : Holds [id1, id2] t n 0 X
  hf : Fresh [id1, id2] t newName

theorem oldFresh_modeReqs {id1 id2 n r newName : Bytes} {X : Int}
    (hm : matchId [id1, id2] modeField = false) (rs : List Req) :
    ∀ {t : Target}, OldFresh id1 id2 n r newName X t → (∀ q ∈ rs, ModeReq q) →
      OldFresh id1 id2 n r newName X (applyAll t rs) := by
  induction rs with
  | nil => intro t h _; exact h
  | cons q rs ih =>
    intro t h hq
    simp only [applyAll, List.foldl_cons]
    obtain ⟨db, nm, es, rfl, hes⟩ := hq q (List.mem_cons_self ..)
    have hes' : ∀ e ∈ es, matchId [id1, id2] e.rid = false := fun e he => by rw [hes e he]; exact hm
    exact ih ⟨h.hh, holds_hset_nonmatching h.ho db nm es hes', fresh_hset_nonmatching h.hf db nm es hes'⟩
      (fun q' hq' => hq q' (List.mem_cons_of_mem _ hq'))

/-- what the requests of the switch look like: mode-marker writes, then nothing or the migration -/
def CoreForm (id1 n r newName ver : Bytes) (X : Int) (core : List Req) : Prop :=
  core = [] ∨
  ∃ desired Y now1 now2 post, X ≤ Y ∧ (-(2^63 : Int) ≤ Y ∧ Y < 2^63) ∧ (-(2^63 : Int) ≤ now1 ∧ now1 < 2^63) ∧
    (∀ q ∈ post, PostReq id1 newName q) ∧
    core = Req.hsetCp 0 newName (cpEntries { runId := id1, offset := Y, version := ver } now1) ::
      Req.hsetCp 0 newName (modeEntries desired now2) :: Req.hsetHash id1 newName :: post

theorem minv_pre_core {id1 id2 n r newName ver : Bytes} {X : Int} {t : Target} (A : MArgs id1 id2 n newName)
    (h : OldFresh id1 id2 n r newName X t) (pre core : List Req) (hpre : ∀ q ∈ pre, ModeReq q)
    (hcore : CoreForm id1 n r newName ver X core) (k : Nat) :
    MInv id1 id2 n r newName X (applyAll t ((pre ++ core).take k)) := by
  rw [List.take_append, applyAll_append]
  by_cases hk : k ≤ pre.length
  · have : k - pre.length = 0 := by omega
    rw [this, List.take_zero]
    have := oldFresh_modeReqs A.hm (pre.take k) h (fun q hq => hpre q (List.mem_of_mem_take hq))
    exact .old this.hh this.ho (Or.inl this.hf)
  · have : pre.take k = pre := List.take_of_length_le (by omega)
    rw [this]
    have h' := oldFresh_modeReqs A.hm pre h hpre
    rcases hcore with rfl | ⟨desired, Y, now1, now2, post, hY, hYr, hnow, hpost, rfl⟩
    · simp only [List.take_nil, applyAll, List.foldl_nil]
      exact .old h'.hh h'.ho (Or.inl h'.hf)
    · exact minv_core A h'.hh h'.ho h'.hf ver desired Y now1 now2 hY hYr hnow post hpost _

/-- hypotheses of `migrate_prefix_safe` on the state before -/
structure MigPre (ver id1 id2 n r newName : Bytes) (t₀ : Target) (ns : Frontier.NS) (X : Int)
    (nows : List Int) : Prop where
  args : MArgs id1 id2 n newName
  h2 : id2 ≠ []
  hn : getHash t₀.hash [id1, id2] = some (n, r)
  hn0 : n ≠ []
  holds : Holds [id1, id2] t₀ n 0 X
  own : RunidOwn t₀ n
  fresh : Fresh [id1, id2] t₀ newName
  seedRange : ∀ cur sd, loadSeed ver ns [id1, id2] cur = some sd → -(2^63 : Int) ≤ sd.offset ∧ sd.offset < 2^63
  nowsRange : ∀ x ∈ nows, -(2^63 : Int) ≤ x ∧ x < 2^63

theorem headD_range {l : List Int} (h : ∀ x ∈ l, -(2^63 : Int) ≤ x ∧ x < 2^63) :
    -(2^63 : Int) ≤ l.headD 0 ∧ l.headD 0 < 2^63 := by
  cases l with
  | nil => simp
  | cons a l => exact h a (List.mem_cons_self ..)

theorem migrateCore_form {ver id1 id2 n r newName : Bytes} {t₀ : Target} {ns : Frontier.NS} {X : Int}
    {nows : List Int} (P : MigPre ver id1 id2 n r newName t₀ ns X nows) (order : List Nat) (h0 : 0 ∈ order)
    (desired cur : BMode) (nows' : List Int) (hn' : ∀ x ∈ nows', -(2^63 : Int) ≤ x ∧ x < 2^63) :
    CoreForm id1 n r newName ver X
      (migrateCore ver [id1, id2] n r desired (loadSeed ver ns [id1, id2] cur)
        (getCheckpoint ver t₀ n [id1, id2] order) newName nows') := by
  obtain ⟨c, hgc, hcX, hcq, hfetch⟩ := getCheckpoint_of_holds ver P.holds order h0
  rw [hgc]
  cases hsd : loadSeed ver ns [id1, id2] cur with
  | none => left; rfl
  | some sd =>
    right
    -- the root checkpoint's run id is one of the ids, so a newer root is taken over
    obtain ⟨c', hc', hoff', hrid'⟩ := fetch_spec [id1, id2] (t₀.cps 0 n) (P.holds.parses 0)
    have hcc : c' = c := by rw [hfetch] at hc'; exact (Option.some.inj hc').symm
    subst hcc
    have hrun : c'.runId = id1 ∨ c'.runId = id2 := by
      have := foldl_ridStep_mem [id1, id2] (t₀.cps 0 n) (P.own 0) qmark (Or.inl rfl)
      rw [show (t₀.cps 0 n).foldl (ridStep [id1, id2]) qmark = ridOf [id1, id2] (t₀.cps 0 n) from rfl,
        ← hrid'] at this
      rcases this with h | h
      · exact absurd h hcq
      · exact (matchId_pair id1 id2 _).mp h
    have hmatch : Frontier.matchRun c'.runId [id1, id2] = true := by
      unfold Frontier.matchRun
      rcases hrun with h | h <;> rw [h] <;> simp [P.args.h1, P.h2]
    have hY : X ≤ seedOffset sd c' [id1, id2] := by
      unfold seedOffset
      split
      · omega
      · rename_i hc
        have : ¬ (c'.offset > sd.offset) := fun hgt => hc ⟨hcq, hgt, hmatch⟩
        omega
    have hYr : -(2^63 : Int) ≤ seedOffset sd c' [id1, id2] ∧ seedOffset sd c' [id1, id2] < 2^63 := by
      unfold seedOffset
      split
      · rw [hoff']; exact offOf_range _ _
      · exact P.seedRange cur sd hsd
    refine ⟨desired, seedOffset sd c' [id1, id2], nows'.headD 0, nows'.tail.headD 0,
      (if r ≠ [] ∧ r ≠ id1 then [Req.hdelHash r] else []) ++ [Req.delKeys 0 [n, frontierKey n]],
      hY, hYr, headD_range hn', ?_, ?_⟩
    · intro q hq
      rcases List.mem_append.mp hq with hq | hq
      · split at hq
        · rename_i hc
          have : q = Req.hdelHash r := by simpa using hq
          exact Or.inl ⟨r, this, hc.2⟩
        · simp at hq
      · have : q = Req.delKeys 0 [n, frontierKey n] := by simpa using hq
        refine Or.inr ⟨0, _, this, ?_⟩
        rw [List.contains_iff_mem]
        intro hmem
        simp only [List.mem_cons, List.not_mem_nil, or_false] at hmem
        rcases hmem with h | h
        · exact P.args.hnewn h
        · exact P.args.hnewf h
    · simp only [migrateCore, preferredRunId_first id1 id2 _ P.args.h1, List.cons_append, List.nil_append]

theorem tail_range {l : List Int} (h : ∀ x ∈ l, -(2^63 : Int) ≤ x ∧ x < 2^63) :
    ∀ x ∈ l.tail, -(2^63 : Int) ≤ x ∧ x < 2^63 := fun x hx => h x (List.mem_of_mem_tail hx)

/-- the requests of the switch are mode-marker writes followed by nothing or the migration -/
theorem migrateReqs_form {ver id1 id2 n r newName : Bytes} {t₀ : Target} {ns : Frontier.NS} {X : Int}
    {nows : List Int} (P : MigPre ver id1 id2 n r newName t₀ ns X nows) (order : List Nat) (h0 : 0 ∈ order)
    (desired : BMode) :
    ∃ pre core, migrateReqs ver t₀ ns [id1, id2] desired newName nows order = pre ++ core ∧
      (∀ q ∈ pre, ModeReq q) ∧ CoreForm id1 n r newName ver X core := by
  have hmode : ∀ m now, ModeReq (Req.hsetCp 0 n (modeEntries m now)) :=
    fun m now => ⟨0, n, _, rfl, modeEntries_rid m now⟩
  unfold migrateReqs
  simp only [P.hn, P.hn0, if_false]
  have hone : ∀ (m : BMode) (now : Int) (q : Req), q ∈ [Req.hsetCp 0 n (modeEntries m now)] → ModeReq q := by
    intro m now q hq
    have : q = Req.hsetCp 0 n (modeEntries m now) := by simpa using hq
    rw [this]; exact hmode m now
  cases hlm : loadMode t₀ n with
  | some m =>
    cases m with
    | none => exact ⟨[], [], rfl, by simp, Or.inl rfl⟩
    | some cur =>
      simp only
      by_cases h1 : cur = desired
      · rw [if_pos h1]; exact ⟨[], [], rfl, by simp, Or.inl rfl⟩
      · rw [if_neg h1]
        by_cases h2 : sameFamily cur desired = true
        · rw [if_pos h2]
          exact ⟨[Req.hsetCp 0 n (modeEntries desired (nows.headD 0))], [], (List.append_nil _).symm,
            hone _ _, Or.inl rfl⟩
        · rw [if_neg h2]
          exact ⟨[], _, (List.nil_append _).symm, by simp,
            migrateCore_form P order h0 desired cur nows P.nowsRange⟩
  | none =>
    simp only
    cases hinf : inferMode ns [id1, id2] with
    | none =>
      exact ⟨[Req.hsetCp 0 n (modeEntries desired (nows.headD 0))], [], (List.append_nil _).symm,
        hone _ _, Or.inl rfl⟩
    | some cur =>
      simp only
      by_cases h1 : cur = desired
      · rw [if_pos h1]
        exact ⟨[Req.hsetCp 0 n (modeEntries cur (nows.headD 0))], [], (List.append_nil _).symm,
          hone _ _, Or.inl rfl⟩
      · rw [if_neg h1]
        by_cases h2 : sameFamily cur desired = true
        · rw [if_pos h2]
          refine ⟨[Req.hsetCp 0 n (modeEntries cur (nows.headD 0)),
                   Req.hsetCp 0 n (modeEntries desired (nows.tail.headD 0))], [], (List.append_nil _).symm,
            ?_, Or.inl rfl⟩
          intro q hq
          simp only [List.mem_cons, List.not_mem_nil, or_false] at hq
          rcases hq with rfl | rfl <;> exact hmode _ _
        · rw [if_neg h2]
          exact ⟨[Req.hsetCp 0 n (modeEntries cur (nows.headD 0))], _, rfl, hone _ _,
            migrateCore_form P order h0 desired cur nows.tail (tail_range P.nowsRange)⟩

end GunYu.Migrate
