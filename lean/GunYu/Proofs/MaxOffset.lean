/-
  C07 across restarts, target side: the largest stored offset (what
  `GetCheckpoint` returns) never decreases when the target executes any prefix of
  a request log whose checkpoint writes are all at or above it.
-/
import GunYu.Model.Target
import GunYu.Proofs.SenderCp

namespace GunYu.Target
open GunYu GunYu.Sender

def maxStep (m : Int) (p : Int × CpRec) : Int :=
  match p.2.offset with
  | some o => if o > m then o else m
  | none => m

theorem maxOffset_eq (cps : List (Int × CpRec)) : maxOffset cps = cps.foldl maxStep (-1) := rfl

theorem foldl_maxStep_ge (cps : List (Int × CpRec)) (init x : Int) :
    x ≤ cps.foldl maxStep init ↔ x ≤ init ∨ ∃ p ∈ cps, ∃ o, p.2.offset = some o ∧ x ≤ o := by
  induction cps generalizing init with
  | nil => simp
  | cons p rest ih =>
    simp only [List.foldl_cons, ih, List.mem_cons, exists_eq_or_imp]
    unfold maxStep
    cases hp : p.2.offset with
    | none => simp
    | some o =>
      simp only [Option.some.injEq, exists_eq_left']
      constructor
      · rintro (h | h)
        · split at h
          · exact Or.inr (Or.inl h)
          · exact Or.inl h
        · exact Or.inr (Or.inr h)
      · rintro (h | h | h)
        · left; split <;> omega
        · left; split <;> omega
        · exact Or.inr h

/-- `x ≤` the largest stored offset iff `x ≤ −1` or some database stores an offset `≥ x` -/
theorem le_maxOffset_iff (cps : List (Int × CpRec)) (x : Int) :
    x ≤ maxOffset cps ↔ x ≤ -1 ∨ ∃ p ∈ cps, ∃ o, p.2.offset = some o ∧ x ≤ o := by
  rw [maxOffset_eq]; exact foldl_maxStep_ge cps (-1) x

def KeysNodup (cps : List (Int × CpRec)) : Prop := (cps.map (·.1)).Nodup

theorem keysNodup_setCp (cps : List (Int × CpRec)) (db : Int) (r : CpRec) (h : KeysNodup cps) :
    KeysNodup (setCp cps db r) := by
  unfold KeysNodup setCp at *
  simp only [List.map_cons, List.nodup_cons]
  refine ⟨?_, ?_⟩
  · intro hm
    obtain ⟨p, hp, hpe⟩ := List.mem_map.mp hm
    have := (List.mem_filter.mp hp).2
    simp at this
    exact this hpe
  · exact List.Nodup.sublist (List.Sublist.map _ List.filter_sublist) h

theorem lookup_of_mem_nodup (cps : List (Int × CpRec)) (h : KeysNodup cps) (p : Int × CpRec)
    (hp : p ∈ cps) : cps.lookup p.1 = some p.2 := by
  induction cps with
  | nil => cases hp
  | cons q rest ih =>
    unfold KeysNodup at h
    simp only [List.map_cons, List.nodup_cons] at h
    rcases List.mem_cons.mp hp with rfl | hr
    · simp [List.lookup]
    · have hne : p.1 ≠ q.1 := by
        intro e
        exact h.1 (e ▸ List.mem_map.mpr ⟨p, hr, rfl⟩)
      simp only [List.lookup]
      have : (p.1 == q.1) = false := by simpa using hne
      rw [this]
      exact ih h.2 hr

/-- a write into the current database's record that does not lower its offset
    below `x` keeps `x ≤ maxOffset` -/
theorem setCp_keeps (cps : List (Int × CpRec)) (hn : KeysNodup cps) (db : Int) (r : CpRec) (x : Int)
    (hx : x ≤ maxOffset cps)
    (hr : ∀ o, (getCp cps db).offset = some o → x ≤ o → ∃ o', r.offset = some o' ∧ x ≤ o') :
    x ≤ maxOffset (setCp cps db r) := by
  rw [le_maxOffset_iff] at hx ⊢
  rcases hx with h | ⟨p, hp, o, hpo, hxo⟩
  · exact Or.inl h
  · right
    by_cases hdb : p.1 = db
    · -- the witness is the record being replaced
      have hl := lookup_of_mem_nodup cps hn p hp
      have hg : (getCp cps db).offset = some o := by
        unfold getCp; rw [← hdb, hl]; simpa using hpo
      obtain ⟨o', ho', hxo'⟩ := hr o hg hxo
      exact ⟨(db, r), by simp [setCp], o', ho', hxo'⟩
    · refine ⟨p, ?_, o, hpo, hxo⟩
      unfold setCp
      exact List.mem_cons_of_mem _ (List.mem_filter.mpr ⟨hp, by simpa using hdb⟩)

/-- checkpoint offsets written by a request list -/
def cpReqs (l : List Req) : List Int := l.filterMap cpOfReq

theorem execReq_keeps (t : TState) (r : Req) (x : Int) (hn : KeysNodup t.cps)
    (hx : x ≤ maxOffset t.cps) (hr : ∀ o, r = .cpOffset o → x ≤ o) :
    KeysNodup (execReq t r).cps ∧ x ≤ maxOffset (execReq t r).cps := by
  cases r with
  | cmd name args off =>
    simp only [execReq]
    split
    · split
      · split <;> exact ⟨hn, hx⟩
      · exact ⟨hn, hx⟩
    · split <;> exact ⟨hn, hx⟩
  | cpMeta =>
    simp only [execReq]
    exact ⟨keysNodup_setCp _ _ _ hn, setCp_keeps _ hn _ _ x hx (fun o ho hxo => ⟨o, ho, hxo⟩)⟩
  | cpOffset o =>
    simp only [execReq]
    exact ⟨keysNodup_setCp _ _ _ hn,
      setCp_keeps _ hn _ _ x hx (fun _ _ _ => ⟨o, rfl, hr o rfl⟩)⟩
  | multi => exact ⟨hn, hx⟩
  | exec => exact ⟨hn, hx⟩

theorem foldl_execReq_keeps (q : List Req) (t : TState) (x : Int) (hn : KeysNodup t.cps)
    (hx : x ≤ maxOffset t.cps) (hr : ∀ o ∈ cpReqs q, x ≤ o) :
    KeysNodup (q.foldl execReq t).cps ∧ x ≤ maxOffset (q.foldl execReq t).cps := by
  induction q generalizing t with
  | nil => exact ⟨hn, hx⟩
  | cons r rest ih =>
    simp only [List.foldl_cons]
    have h1 := execReq_keeps t r x hn hx (fun o ho => hr o (by subst ho; simp [cpReqs, cpOfReq]))
    exact ih _ h1.1 h1.2 (fun o ho => hr o (by
      unfold cpReqs at ho ⊢
      simp only [List.filterMap_cons]
      cases hc : cpOfReq r with
      | none => simpa [hc] using ho
      | some v => simp only [hc, List.mem_cons]; exact Or.inr ho))

/-- invariant of the connection state machine: what is queued in an open MULTI
    also only writes offsets `≥ x` -/
def QueuedOk (t : TState) (x : Int) : Prop :=
  ∀ q, t.queued = some q → ∀ o ∈ cpReqs q, x ≤ o

theorem applyReq_keeps (t : TState) (r : Req) (x : Int) (hn : KeysNodup t.cps)
    (hx : x ≤ maxOffset t.cps) (hq : QueuedOk t x) (hr : ∀ o, r = .cpOffset o → x ≤ o) :
    KeysNodup (applyReq t r).cps ∧ x ≤ maxOffset (applyReq t r).cps ∧ QueuedOk (applyReq t r) x := by
  unfold applyReq
  cases hqq : t.queued with
  | some q =>
    simp only
    have hqok := hq q hqq
    cases r with
    | exec =>
      simp only
      have h := foldl_execReq_keeps q { t with queued := none } x hn hx hqok
      refine ⟨h.1, h.2, ?_⟩
      intro q' hq'
      -- after EXEC nothing is queued: execReq never touches `queued`
      have hnone : (q.foldl execReq { t with queued := none }).queued = none := by
        have : ∀ (l : List Req) (s : TState), s.queued = none → (l.foldl execReq s).queued = none := by
          intro l
          induction l with
          | nil => intro s hs; exact hs
          | cons a l ih =>
            intro s hs
            simp only [List.foldl_cons]
            apply ih
            cases a <;> simp only [execReq]
            · split
              · split
                · split <;> exact hs
                · exact hs
              · split <;> exact hs
            all_goals exact hs
        exact this q _ rfl
      rw [hnone] at hq'; cases hq'
    | cmd n a off =>
      refine ⟨hn, hx, ?_⟩
      intro q' hq'
      simp only [Option.some.injEq] at hq'
      subst hq'
      intro o ho
      have : cpReqs (q ++ [Req.cmd n a off]) = cpReqs q := by simp [cpReqs, cpOfReq]
      rw [this] at ho; exact hqok o ho
    | cpMeta =>
      refine ⟨hn, hx, ?_⟩
      intro q' hq'
      simp only [Option.some.injEq] at hq'
      subst hq'
      intro o ho
      have : cpReqs (q ++ [Req.cpMeta]) = cpReqs q := by simp [cpReqs, cpOfReq]
      rw [this] at ho; exact hqok o ho
    | multi =>
      refine ⟨hn, hx, ?_⟩
      intro q' hq'
      simp only [Option.some.injEq] at hq'
      subst hq'
      intro o ho
      have : cpReqs (q ++ [Req.multi]) = cpReqs q := by simp [cpReqs, cpOfReq]
      rw [this] at ho; exact hqok o ho
    | cpOffset v =>
      refine ⟨hn, hx, ?_⟩
      intro q' hq'
      simp only [Option.some.injEq] at hq'
      subst hq'
      intro o ho
      have : cpReqs (q ++ [Req.cpOffset v]) = cpReqs q ++ [v] := by simp [cpReqs, cpOfReq]
      rw [this] at ho
      rcases List.mem_append.mp ho with h | h
      · exact hqok o h
      · simp at h; subst h; exact hr o rfl
  | none =>
    simp only
    cases r with
    | multi =>
      refine ⟨hn, hx, ?_⟩
      intro q' hq'
      simp only [Option.some.injEq] at hq'
      subst hq'
      intro o ho; simp [cpReqs] at ho
    | exec =>
      have h := execReq_keeps t .exec x hn hx hr
      exact ⟨h.1, h.2, by intro q' hq'; simp only [execReq] at hq'; rw [hqq] at hq'; cases hq'⟩
    | cmd n a off =>
      have h := execReq_keeps t (.cmd n a off) x hn hx hr
      refine ⟨h.1, h.2, ?_⟩
      intro q' hq'
      have : (execReq t (Req.cmd n a off)).queued = t.queued := by
        simp only [execReq]
        split
        · split
          · split <;> rfl
          · rfl
        · split <;> rfl
      rw [this, hqq] at hq'; cases hq'
    | cpMeta =>
      have h := execReq_keeps t .cpMeta x hn hx hr
      exact ⟨h.1, h.2, by intro q' hq'; simp only [execReq] at hq'; rw [hqq] at hq'; cases hq'⟩
    | cpOffset v =>
      have h := execReq_keeps t (.cpOffset v) x hn hx hr
      exact ⟨h.1, h.2, by intro q' hq'; simp only [execReq] at hq'; rw [hqq] at hq'; cases hq'⟩

/-- **The largest stored offset never decreases** while the target executes any
    request log whose checkpoint writes are all `≥ x`, `x` being at most what is
    stored already. -/
theorem applyLog_keeps (log : List Req) (t : TState) (x : Int) (hn : KeysNodup t.cps)
    (hx : x ≤ maxOffset t.cps) (hq : QueuedOk t x) (hr : ∀ o ∈ cpReqs log, x ≤ o) :
    KeysNodup (applyLog t log).cps ∧ x ≤ maxOffset (applyLog t log).cps := by
  induction log generalizing t with
  | nil => exact ⟨hn, hx⟩
  | cons r rest ih =>
    simp only [applyLog, List.foldl_cons]
    have h1 := applyReq_keeps t r x hn hx hq (fun o ho => hr o (by subst ho; simp [cpReqs, cpOfReq]))
    exact ih _ h1.1 h1.2.1 h1.2.2 (fun o ho => hr o (by
      unfold cpReqs at ho ⊢
      simp only [List.filterMap_cons]
      cases hc : cpOfReq r with
      | none => simpa [hc] using ho
      | some v => simp only [hc, List.mem_cons]; exact Or.inr ho))

theorem cpReqs_take_sub (l : List Req) (k : Nat) : ∀ o ∈ cpReqs (l.take k), o ∈ cpReqs l := by
  intro o ho
  unfold cpReqs at *
  obtain ⟨r, hr, hro⟩ := List.mem_filterMap.mp ho
  exact List.mem_filterMap.mpr ⟨r, List.mem_of_mem_take hr, hro⟩

theorem cpReqs_flatten (out : List Batch) : cpReqs out.flatten = cpOffsets out := by
  induction out with
  | nil => rfl
  | cons b rest ih =>
    simp only [List.flatten_cons, cpOffsets, List.flatMap_cons, cpOffsetsB] at ih ⊢
    unfold cpReqs at ih ⊢
    rw [List.filterMap_append, ih]

end GunYu.Target
