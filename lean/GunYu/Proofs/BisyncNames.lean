/-
  C13 / C18 — checkpoint names are brace-free and under the reserved prefix
  BECAUSE of how the tool makes them (Model/BisyncNames.lean), not by
  assumption: `newCpName`, the two plain-path forms, and every name read back
  from the checkpoint hash, whose writers store only such names.
-/
import GunYu.Model.BisyncNames
import GunYu.Proofs.BisyncGlobal

namespace GunYu.Bisync
open GunYu GunYu.BisyncUnit

/-- the names the tool generates: `redis-gunyu-checkpoint-bisync:<hex>`,
    `redis-gunyu-checkpoint`, `redis-gunyu-checkpoint-<letters a–z>` -/
def GenCp (cp : Bytes) : Prop :=
  (∃ buf, cp = newCpName buf) ∨ cp = plainCpName ∨
  ∃ suf : Bytes, (∀ b ∈ suf, (97 : UInt8) ≤ b ∧ b ≤ 122) ∧ cp = slotCpName suf

theorem hexDigit_ne_lbrace : ∀ n, n < 16 → hexDigit n ≠ Slot.lbrace := by decide

theorem hexOfBytes_nobrace (buf : Bytes) : Slot.lbrace ∉ hexOfBytes buf := by
  intro h
  unfold hexOfBytes at h
  obtain ⟨b, _, hb⟩ := List.mem_flatMap.mp h
  have hlt : b.toNat < 256 := b.toNat_lt
  simp only [List.mem_cons, List.not_mem_nil, or_false] at hb
  rcases hb with hb | hb
  · exact hexDigit_ne_lbrace (b.toNat / 16) (by omega) hb.symm
  · exact hexDigit_ne_lbrace (b.toNat % 16) (by omega) hb.symm

theorem cpKey_prefix_bisync : Gen.checkpointKey <+: Gen.bisyncCheckpointKeyPrefix :=
  ⟨[45,98,105,115,121,110,99], by decide⟩

/-- **`NewBisyncCheckpointName` makes valid names**, whatever the random bytes:
    under the reserved prefix and brace-free -/
theorem newCpName_valid (buf : Bytes) : ValidCp (newCpName buf) := by
  refine ⟨?_, ?_⟩
  · unfold newCpName
    rw [List.append_assoc]
    exact cpKey_prefix_bisync.trans (List.prefix_append _ _)
  · intro h
    unfold newCpName at h
    simp only [List.mem_append] at h
    rcases h with (h | h) | h
    · revert h; decide
    · revert h; decide
    · exact hexOfBytes_nobrace buf h

theorem genCp_valid (cp : Bytes) (h : GenCp cp) : ValidCp cp := by
  rcases h with ⟨buf, rfl⟩ | rfl | ⟨suf, hs, rfl⟩
  · exact newCpName_valid buf
  · exact ⟨List.prefix_refl _, by unfold plainCpName; decide⟩
  · refine ⟨?_, ?_⟩
    · unfold slotCpName
      rw [List.append_assoc]
      exact List.prefix_append _ _
    · intro h
      unfold slotCpName at h
      simp only [List.mem_append] at h
      rcases h with (h | h) | h
      · revert h; decide
      · revert h; decide
      · have := (hs _ h).2
        revert this; decide

theorem genCp_nobrace (cp : Bytes) (h : GenCp cp) : Slot.lbrace ∉ cp := (genCp_valid cp h).2
theorem genCp_prefix (cp : Bytes) (h : GenCp cp) : Gen.checkpointKey <+: cp := (genCp_valid cp h).1

/-! ### the checkpoint hash holds generated names only -/

/-- every non-empty value of the checkpoint hash is a generated name -/
def HashGen (h : CpHash) : Prop := ∀ p ∈ h, p.2 ≠ [] → GenCp p.2

theorem lookup_mem (h : CpHash) (id v : Bytes) (hl : h.lookup id = some v) : (id, v) ∈ h := by
  induction h with
  | nil => cases hl
  | cons p ps ih =>
    obtain ⟨k, x⟩ := p
    simp only [List.lookup] at hl
    split at hl
    · rename_i heq
      have hk : id = k := by simpa using heq
      injection hl with hx
      rw [hk, hx]; simp
    · exact List.mem_cons_of_mem _ (ih hl)

theorem get_gen (h : CpHash) (hg : HashGen h) (id : Bytes) (hne : (h.get id).isEmpty = false) : GenCp (h.get id) := by
  unfold CpHash.get at hne ⊢
  cases hl : h.lookup id with
  | none => rw [hl] at hne; simp at hne
  | some v =>
    rw [hl] at hne
    simp only [Option.getD_some] at hne ⊢
    exact hg (id, v) (lookup_mem h id v hl) (by intro e; simp only at e; rw [e] at hne; simp at hne)

theorem set_gen (h : CpHash) (hg : HashGen h) (id name : Bytes) (hn : GenCp name) : HashGen (h.set id name) := by
  intro p hp hne
  unfold CpHash.set at hp
  simp only [List.mem_cons, List.mem_filter] at hp
  rcases hp with rfl | ⟨hp, _⟩
  · exact hn
  · exact hg p hp hne

theorem del_gen (h : CpHash) (hg : HashGen h) (id : Bytes) : HashGen (h.del id) := by
  intro p hp hne
  unfold CpHash.del at hp
  exact hg p (List.mem_filter.mp hp).1 hne

theorem getCpHash_gen (h : CpHash) (hg : HashGen h) (id1 id2 : Bytes)
    (hne : (getCpHash h id1 id2).1.isEmpty = false) : GenCp (getCpHash h id1 id2).1 := by
  unfold getCpHash at hne ⊢
  split
  · rename_i he
    rw [if_pos he] at hne
    exact get_gen h hg id2 hne
  · rename_i he
    exact get_gen h hg id1 (by simpa using he)

theorem resolveOrCreate_gen (h : CpHash) (hg : HashGen h) (id1 id2 buf : Bytes) :
    HashGen (resolveOrCreate h id1 id2 buf).1 ∧ ∀ n, (resolveOrCreate h id1 id2 buf).2 = some n → GenCp n := by
  unfold resolveOrCreate
  split
  · rename_i he
    refine ⟨hg, ?_⟩
    intro n hn
    injection hn with hn
    rw [← hn]
    exact getCpHash_gen h hg id1 id2 (by simpa using he)
  · cases hl : h.lookup id1 with
    | none =>
      refine ⟨set_gen h hg _ _ (Or.inl ⟨buf, rfl⟩), ?_⟩
      intro n hn
      injection hn with hn
      rw [← hn]; exact Or.inl ⟨buf, rfl⟩
    | some v =>
      refine ⟨hg, ?_⟩
      intro n hn
      simp only at hn
      split at hn
      · cases hn
      · rename_i hv
        injection hn with hn
        rw [← hn]
        exact hg (id1, v) (lookup_mem h id1 v hl) (by intro e; simp only at e; rw [e] at hv; simp at hv)

theorem resolveBisyncName_gen (h : CpHash) (hg : HashGen h) (id1 id2 buf : Bytes) (sw : Bool) :
    HashGen (resolveBisyncName h id1 id2 buf sw).1 ∧
      ∀ n, (resolveBisyncName h id1 id2 buf sw).2 = some n → GenCp n := by
  unfold resolveBisyncName
  split
  · exact resolveOrCreate_gen h hg id1 id2 buf
  · rename_i he
    split
    · refine ⟨hg, ?_⟩
      intro n hn
      injection hn with hn
      rw [← hn]
      exact getCpHash_gen h hg id1 id2 (by simpa using he)
    · refine ⟨?_, ?_⟩
      · simp only
        split
        · exact del_gen _ (set_gen h hg _ _ (Or.inl ⟨buf, rfl⟩)) _
        · exact set_gen h hg _ _ (Or.inl ⟨buf, rfl⟩)
      · intro n hn
        injection hn with hn
        rw [← hn]; exact Or.inl ⟨buf, rfl⟩

/-- the suffix `choseKeyInSlots` appends consists of letters a–z (pickSuffixDfs) -/
def Start.Ok (s : Start) : Prop :=
  match s.kind with
  | .plainSlot suf => ∀ b ∈ suf, (97 : UInt8) ≤ b ∧ b ≤ 122
  | _ => True

theorem pick_gen (h : CpHash) (hg : HashGen h) (s : Start) (hs : s.Ok) :
    HashGen (s.pick h).1 ∧ ∀ n, (s.pick h).2 = some n → GenCp n := by
  unfold Start.pick
  unfold Start.Ok at hs
  cases hk : s.kind with
  | bisync buf sw => exact resolveBisyncName_gen h hg s.id1 s.id2 buf sw
  | plain =>
    refine ⟨hg, ?_⟩
    intro n hn
    injection hn with hn
    rw [← hn]; exact Or.inr (Or.inl rfl)
  | plainSlot suf =>
    rw [hk] at hs
    refine ⟨hg, ?_⟩
    intro n hn
    injection hn with hn
    rw [← hn]; exact Or.inr (Or.inr ⟨suf, hs, rfl⟩)

theorem finish_gen (h : CpHash) (hg : HashGen h) (s : Start) (name : Bytes) (hn : GenCp name) :
    HashGen (s.finish h name) := by
  unfold Start.finish
  have h1 : HashGen (if s.relabel then h.set s.id1 name else h) := by
    split
    · exact set_gen _ hg _ _ hn
    · exact hg
  cases s.dropOld with
  | none => exact h1
  | some o => exact del_gen _ h1 o

theorem start_gen (h : CpHash) (hg : HashGen h) (s : Start) (hs : s.Ok) :
    HashGen (s.run h).1 ∧ ∀ n, (s.run h).2 = some n → GenCp n := by
  obtain ⟨hp1, hp2⟩ := pick_gen h hg s hs
  unfold Start.run
  cases hn : (s.pick h).2 with
  | none => exact ⟨hp1, by intro n h'; cases h'⟩
  | some name =>
    refine ⟨finish_gen _ hp1 s name (hp2 name hn), ?_⟩
    intro n h'
    injection h' with h'
    rw [← h']; exact hp2 name hn

/-- **Every name a start resolves is a generated one.** From a checkpoint hash
    holding generated names only (the empty hash in particular), any sequence
    of starts of any syncers — bidirectional (fresh namespace, stored one,
    recovery-format switch) and plain — keeps it so, and every name a start
    comes up with — fresh or READ BACK from the hash — is generated. -/
theorem runStarts_gen (h : CpHash) (hg : HashGen h) (ss : List Start) (hs : ∀ s ∈ ss, s.Ok) :
    HashGen (runStarts h ss).1 ∧ ∀ n ∈ (runStarts h ss).2, GenCp n := by
  induction ss generalizing h with
  | nil => exact ⟨hg, by intro n hn; cases hn⟩
  | cons s ss ih =>
    obtain ⟨h1, h2⟩ := start_gen h hg s (hs s (by simp))
    obtain ⟨i1, i2⟩ := ih (s.run h).1 h1 (fun s' hs' => hs s' (List.mem_cons_of_mem _ hs'))
    unfold runStarts
    refine ⟨i1, ?_⟩
    intro n hn
    simp only [List.mem_append] at hn
    rcases hn with hn | hn
    · cases hr : (s.run h).2 with
      | none => rw [hr] at hn; cases hn
      | some m =>
        rw [hr] at hn
        rw [List.mem_singleton.mp hn]
        exact h2 m hr
    · exact i2 n hn

theorem hashGen_nil : HashGen [] := by intro p hp; cases hp

/-! ### the fully determined starts (`runFull`): same result -/

theorem updateCheckpointFull_gen (st : NameSt) (hg : HashGen st.hash) (id1 id2 name : Bytes) (hn : GenCp name) :
    HashGen (updateCheckpointFull st id1 id2 name).hash := by
  unfold updateCheckpointFull
  simp only
  split
  · have hs : HashGen (st.hash.set id1 name) := set_gen _ hg _ _ hn
    split
    · exact hs
    · split
      · exact hs
      · simp only
        split
        · exact del_gen _ hs _
        · exact hs
  · exact hg

theorem resolveFull_gen (st : NameSt) (hg : HashGen st.hash) (id1 id2 buf : Bytes) (fr : Bool) :
    HashGen (resolveFull st id1 id2 buf fr).1.hash ∧ ∀ n, (resolveFull st id1 id2 buf fr).2 = some n → GenCp n := by
  unfold resolveFull
  simp only
  split
  · obtain ⟨h1, h2⟩ := resolveOrCreate_gen st.hash hg id1 id2 buf
    cases hr : resolveOrCreate st.hash id1 id2 buf with
    | mk h o =>
      rw [hr] at h1 h2
      cases o with
      | none => exact ⟨h1, by intro n hn; cases hn⟩
      | some n => exact ⟨h1, by intro m hm; injection hm with hm; rw [← hm]; exact h2 n rfl⟩
  · rename_i he
    have hname : GenCp (getCpHash st.hash id1 id2).1 := getCpHash_gen st.hash hg id1 id2 (by simpa using he)
    split
    · exact ⟨hg, by intro n hn; injection hn with hn; rw [← hn]; exact hname⟩
    · split
      · exact ⟨hg, by intro n hn; injection hn with hn; rw [← hn]; exact hname⟩
      · refine ⟨?_, by intro n hn; injection hn with hn; rw [← hn]; exact Or.inl ⟨buf, rfl⟩⟩
        simp only
        split
        · exact del_gen _ (set_gen _ hg _ _ (Or.inl ⟨buf, rfl⟩)) _
        · exact set_gen _ hg _ _ (Or.inl ⟨buf, rfl⟩)

def FullStart.Ok (s : FullStart) : Prop :=
  match s.kind with
  | .plainSlot suf => ∀ b ∈ suf, (97 : UInt8) ≤ b ∧ b ≤ 122
  | _ => True

theorem fullPick_gen (st : NameSt) (hg : HashGen st.hash) (s : FullStart) (hs : s.Ok) :
    HashGen (s.pick st).1.hash ∧ ∀ n, (s.pick st).2 = some n → GenCp n := by
  unfold FullStart.pick
  unfold FullStart.Ok at hs
  cases hk : s.kind with
  | bisync buf fr => exact resolveFull_gen st hg s.id1 s.id2 buf fr
  | plain => exact ⟨hg, by intro n hn; injection hn with hn; rw [← hn]; exact Or.inr (Or.inl rfl)⟩
  | plainSlot suf =>
    rw [hk] at hs
    exact ⟨hg, by intro n hn; injection hn with hn; rw [← hn]; exact Or.inr (Or.inr ⟨suf, hs, rfl⟩)⟩

theorem fullStart_gen (st : NameSt) (hg : HashGen st.hash) (s : FullStart) (hs : s.Ok) :
    HashGen (s.run st).1.hash ∧ ∀ n, (s.run st).2 = some n → GenCp n := by
  obtain ⟨h1, h2⟩ := fullPick_gen st hg s hs
  unfold FullStart.run
  cases hn : (s.pick st).2 with
  | none => exact ⟨h1, by intro n h'; cases h'⟩
  | some name =>
    exact ⟨updateCheckpointFull_gen _ h1 s.id1 s.id2 name (h2 name hn),
      by intro n h'; injection h' with h'; rw [← h']; exact h2 name hn⟩

/-- every name the fully determined starts come up with is generated, and the hash stays generated -/
theorem runFull_gen (st : NameSt) (hg : HashGen st.hash) (ss : List FullStart) (hs : ∀ s ∈ ss, s.Ok) :
    HashGen (runFull st ss).1.hash ∧ ∀ n ∈ (runFull st ss).2, GenCp n := by
  induction ss generalizing st with
  | nil => exact ⟨hg, by intro n hn; cases hn⟩
  | cons s ss ih =>
    obtain ⟨h1, h2⟩ := fullStart_gen st hg s (hs s (by simp))
    obtain ⟨i1, i2⟩ := ih (s.run st).1 h1 (fun s' hs' => hs s' (List.mem_cons_of_mem _ hs'))
    unfold runFull
    refine ⟨i1, ?_⟩
    intro n hn
    simp only [List.mem_append] at hn
    rcases hn with hn | hn
    · cases hr : (s.run st).2 with
      | none => rw [hr] at hn; cases hn
      | some m =>
        rw [hr] at hn
        rw [List.mem_singleton.mp hn]
        exact h2 m hr
    · exact i2 n hn

/-! ### bookkeeping requests and events over generated names -/

/-- a bookkeeping request as THE TOOL issues it: the namespace name it carries
    is a generated one (and it is not a marker's expiry, which is Redis's doing);
    a multi-key DEL names latest / index / journal keys only -/
def Bookkeeping.FromTool : Bookkeeping → Prop
  | .frontierSave cp _ => GenCp cp
  | .journalDel cp _ _ => GenCp cp
  | .indexRem cp _ _ => GenCp cp
  | .markerExpiry _ _ _ => False
  | .cpHashSet _ _ _ => True
  | .cpHashDel _ => True
  | .rootSet cp _ => GenCp cp
  | .rootHdel cp _ => GenCp cp
  | .latestSeed cp _ _ => GenCp cp
  | .latestDel cp _ => GenCp cp
  | .rootDel cp => GenCp cp
  | .frontierDel cp => GenCp cp
  | .markerDel cp _ => GenCp cp
  | .nsDel cp keys => GenCp cp ∧ keys ≠ [] ∧ ∀ k ∈ keys, PlainNsKey cp k

theorem fromTool_ok (bk : Bookkeeping) (h : bk.FromTool) : bk.Valid ∧ bk.Issued := by
  cases bk with
  | frontierSave cp _ => exact ⟨genCp_prefix cp h, trivial⟩
  | journalDel cp _ _ => exact ⟨trivial, genCp_nobrace cp h⟩
  | indexRem cp _ _ => exact ⟨trivial, genCp_nobrace cp h⟩
  | markerExpiry _ _ _ => exact h.elim
  | cpHashSet _ _ _ => exact ⟨trivial, trivial⟩
  | cpHashDel _ => exact ⟨trivial, trivial⟩
  | rootSet cp _ => exact ⟨genCp_prefix cp h, trivial⟩
  | rootHdel cp _ => exact ⟨genCp_prefix cp h, trivial⟩
  | latestSeed cp _ _ => exact ⟨trivial, genCp_nobrace cp h⟩
  | latestDel cp _ => exact ⟨trivial, genCp_nobrace cp h⟩
  | rootDel cp => exact ⟨genCp_prefix cp h, trivial⟩
  | frontierDel cp => exact ⟨genCp_prefix cp h, trivial⟩
  | markerDel cp _ => exact ⟨trivial, genCp_nobrace cp h⟩
  | nsDel cp keys => exact ⟨⟨h.2.1, h.2.2⟩, genCp_nobrace cp h.1⟩

/-- the events of the theorems over generated names: as `EvOK'`, with the
    condition on bookkeeping requests replaced by "as the tool issues it" -/
def EvGen (cfg : WCfg) : Ev → Prop
  | .book _ bk => bk.FromTool
  | e => EvOK' cfg e

theorem evGen_ok (cfg : WCfg) (e : Ev) (h : EvGen cfg e) : EvOK' cfg e := by
  cases e with
  | book src bk => exact fromTool_ok bk h
  | client _ _ _ => exact h
  | tick _ _ => exact h
  | expire _ _ => exact h
  | link _ _ => exact h
  | snapshot _ _ _ => exact h
  | toolRaw _ _ _ => exact h
  | restart _ _ _ => exact h

end GunYu.Bisync
