/-
  Helper lemmas for the etcd half of C15 (property statements: Props/C15Etcd.lean).

  1. the *generated* requests evaluated symbolically: `evalTxn Gen.etcdCampaignTxn`
     / `evalTxn Gen.etcdResignTxn` / the plain Get and Delete equal closed-form
     specifications for every store and every argument. These proofs are what
     is re-checked when etcd_election.go's requests are edited;
  2. facts about `minCreate` / `firstCreate`, well-formed key spaces;
  3. the invariant of the system and its preservation by every event.
-/
import GunYu.Model.EtcdLease
import GunYu.Proofs.EtcdHex

set_option linter.unusedSimpArgs false
set_option linter.unusedVariables false

namespace GunYu.Etcd
open GunYu

/-! ### 1. the generated requests, for all inputs -/

def newKV (a : Args) (st : Store) : KV := { key := a.key, val := a.val, create := st.rev + 1, lease := a.lease }

/-- what `try`'s transaction is expected to do: create the caller's key at a
    new revision if it is absent (refused when the session's lease is gone),
    otherwise read it back; in both cases report the first-created key under
    the prefix as seen AFTER that -/
def campaignTxnSpec (a : Args) (st : Store) : Option (Store × TxnResp) :=
  if a.key = [] ∨ a.pfx = [] then none else
  match findKey st.kvs a.key with
  | none =>
    if st.leaseLive a.lease then
      some ({ st with kvs := st.kvs ++ [newKV a st], rev := st.rev + 1 },
            { ok := true, hdr := st.rev + 1, resps := [[], (firstCreate (st.kvs ++ [newKV a st]) a.pfx).toList] })
    else none
  | some kv =>
    some (st, { ok := false, hdr := st.rev, resps := [[kv], (firstCreate st.kvs a.pfx).toList] })

theorem campaignTxn_eval (a : Args) (st : Store) (hpos : ∀ kv ∈ st.kvs, 1 ≤ kv.create) :
    evalTxn Gen.etcdCampaignTxn a st = campaignTxnSpec a st := by
  unfold evalTxn campaignTxnSpec Gen.etcdCampaignTxn
  by_cases hk : a.key = []
  · simp [keysOk, Op.ref, Args.ref, hk]
  by_cases hp : a.pfx = []
  · simp [keysOk, Op.ref, Args.ref, hk, hp]
  cases hf : findKey st.kvs a.key with
  | none =>
    by_cases hl : st.leaseLive a.lease = true
    · simp [keysOk, Op.ref, Args.ref, hk, hp, evalCmp, createRevOf, hf, evalOps, evalOp, putKV, hl, newKV]
    · simp [keysOk, Op.ref, Args.ref, hk, hp, evalCmp, createRevOf, hf, evalOps, evalOp, putKV, hl, newKV]
  | some kv =>
    have hmem : kv ∈ st.kvs := List.mem_of_find?_eq_some hf
    have hc : ¬ kv.create = 0 := by have := hpos kv hmem; omega
    simp [keysOk, Op.ref, Args.ref, hk, hp, evalCmp, createRevOf, hf, evalOps, evalOp, hc]

/-- `Resign`'s transaction: delete the caller's key only if it is still there
    at the create revision the caller knows -/
def resignTxnSpec (a : Args) (st : Store) : Option (Store × TxnResp) :=
  if a.key = [] then none else
  if some (createRevOf st.kvs a.key) = a.rev then
    some ({ st with kvs := delKV st.kvs a.key, rev := if (findKey st.kvs a.key).isSome then st.rev + 1 else st.rev },
          { ok := true, hdr := if (findKey st.kvs a.key).isSome then st.rev + 1 else st.rev, resps := [[]] })
  else some (st, { ok := false, hdr := st.rev, resps := [] })

theorem resignTxn_eval (a : Args) (st : Store) :
    evalTxn Gen.etcdResignTxn a st = resignTxnSpec a st := by
  unfold evalTxn resignTxnSpec Gen.etcdResignTxn
  by_cases hk : a.key = []
  · simp [keysOk, Op.ref, Args.ref, hk]
  by_cases hc : some (createRevOf st.kvs a.key) = a.rev
  · simp [keysOk, Op.ref, Args.ref, hk, evalCmp, hc, evalOps, evalOp]
  · simp [keysOk, Op.ref, Args.ref, hk, evalCmp, hc, evalOps, evalOp]

theorem renewGet_eval (a : Args) (st : Store) :
    evalSingle Gen.etcdRenewGet a st =
      if a.pfx = [] then none else some (st, (firstCreate st.kvs a.pfx).toList) := by
  unfold evalSingle Gen.etcdRenewGet
  by_cases hp : a.pfx = []
  · simp [keysOk, Op.ref, Args.ref, hp]
  · simp [keysOk, Op.ref, Args.ref, hp, evalOp]

theorem leaderGet_eval (a : Args) (st : Store) :
    evalSingle Gen.etcdLeaderGet a st =
      if a.pfx = [] then none else some (st, (firstCreate st.kvs a.pfx).toList) := by
  unfold evalSingle Gen.etcdLeaderGet
  by_cases hp : a.pfx = []
  · simp [keysOk, Op.ref, Args.ref, hp]
  · simp [keysOk, Op.ref, Args.ref, hp, evalOp]

theorem loserDelete_eval (a : Args) (st : Store) :
    evalSingle Gen.etcdLoserDelete a st =
      if a.key = [] then none else
        some ({ st with kvs := delKV st.kvs a.key,
                        rev := if (findKey st.kvs a.key).isSome then st.rev + 1 else st.rev }, []) := by
  unfold evalSingle Gen.etcdLoserDelete
  by_cases hk : a.key = []
  · simp [keysOk, Op.ref, Args.ref, hk]
  · simp [keysOk, Op.ref, Args.ref, hk, evalOp]

/-! ### 2. key spaces -/

theorem minCreate_mem : ∀ {l : List KV} {m : KV}, minCreate l = some m → m ∈ l
  | [], m, h => by simp [minCreate] at h
  | kv :: rest, m, h => by
    simp only [minCreate] at h
    cases hr : minCreate rest with
    | none => simp [hr] at h; subst h; simp
    | some b =>
      simp only [hr] at h
      by_cases hle : kv.create ≤ b.create
      · simp [hle] at h; subst h; simp
      · simp [hle] at h; subst h
        exact List.mem_cons_of_mem _ (minCreate_mem hr)

theorem minCreate_le : ∀ {l : List KV} {m : KV}, minCreate l = some m → ∀ x ∈ l, m.create ≤ x.create
  | [], m, h => by simp [minCreate] at h
  | kv :: rest, m, h => by
    intro x hx
    simp only [minCreate] at h
    cases hr : minCreate rest with
    | none =>
      simp [hr] at h; subst h
      have hnil : rest = [] := by
        cases rest with
        | nil => rfl
        | cons y ys =>
          simp only [minCreate] at hr
          cases hh : minCreate ys <;> simp [hh] at hr
          split at hr <;> simp at hr
      subst hnil
      simp at hx; subst hx; exact Nat.le_refl _
    | some b =>
      simp only [hr] at h
      have hb := minCreate_le hr
      by_cases hle : kv.create ≤ b.create
      · simp [hle] at h; subst h
        rcases List.mem_cons.1 hx with rfl | hx
        · exact Nat.le_refl _
        · exact Nat.le_trans hle (hb x hx)
      · simp [hle] at h; subst h
        rcases List.mem_cons.1 hx with rfl | hx
        · omega
        · exact hb x hx

theorem minCreate_none : ∀ {l : List KV}, minCreate l = none → l = []
  | [], _ => rfl
  | kv :: rest, h => by
    simp only [minCreate] at h
    cases hr : minCreate rest with
    | none => simp [hr] at h
    | some b => simp only [hr] at h; split at h <;> simp at h

theorem firstCreate_some {kvs : List KV} {p : Bytes} {m : KV} (h : firstCreate kvs p = some m) :
    m ∈ kvs ∧ p.isPrefixOf m.key = true ∧ ∀ x ∈ kvs, p.isPrefixOf x.key = true → m.create ≤ x.create := by
  unfold firstCreate underPfx at h
  have hm := minCreate_mem h
  have hle := minCreate_le h
  rw [List.mem_filter] at hm
  refine ⟨hm.1, hm.2, fun x hx hp => hle x ?_⟩
  rw [List.mem_filter]; exact ⟨hx, hp⟩

theorem firstCreate_none {kvs : List KV} {p : Bytes} (h : firstCreate kvs p = none) :
    ∀ x ∈ kvs, p.isPrefixOf x.key = true → False := by
  unfold firstCreate underPfx at h
  have := minCreate_none h
  intro x hx hp
  have hm : x ∈ kvs.filter (fun kv => p.isPrefixOf kv.key) := by rw [List.mem_filter]; exact ⟨hx, hp⟩
  rw [this] at hm; simp at hm

theorem findKey_some {kvs : List KV} {k : Bytes} {kv : KV} (h : findKey kvs k = some kv) :
    kv ∈ kvs ∧ kv.key = k := by
  unfold findKey at h
  refine ⟨List.mem_of_find?_eq_some h, ?_⟩
  have := List.find?_some h
  simpa using this

theorem findKey_none {kvs : List KV} {k : Bytes} (h : findKey kvs k = none) :
    ∀ kv ∈ kvs, kv.key ≠ k := by
  unfold findKey at h
  intro kv hkv
  have := List.find?_eq_none.1 h kv hkv
  simpa using this

/-- well-formed key space: create revisions are positive, at most the store
    revision and pairwise different; keys are pairwise different, never empty
    and never `"\x00"` -/
structure Wf (kvs : List KV) (rev : Nat) : Prop where
  pos : ∀ kv ∈ kvs, 1 ≤ kv.create ∧ kv.create ≤ rev
  keys : kvs.Pairwise (fun a b => a.key ≠ b.key)
  creates : kvs.Pairwise (fun a b => a.create ≠ b.create)
  names : ∀ kv ∈ kvs, kv.key ≠ [] ∧ kv.key ≠ nulKey

theorem Wf.nil (rev : Nat) : Wf [] rev :=
  ⟨by simp, List.Pairwise.nil, List.Pairwise.nil, by simp⟩

theorem Wf.filter {kvs : List KV} {rev : Nat} (h : Wf kvs rev) (f : KV → Bool) (rev' : Nat) (hr : rev ≤ rev') :
    Wf (kvs.filter f) rev' := by
  refine ⟨fun kv hkv => ?_, h.keys.filter _, h.creates.filter _, fun kv hkv => h.names kv (List.mem_filter.1 hkv).1⟩
  have := h.pos kv (List.mem_filter.1 hkv).1
  omega

theorem Wf.append {kvs : List KV} {rev : Nat} (h : Wf kvs rev) (kv : KV)
    (hnew : ∀ x ∈ kvs, x.key ≠ kv.key) (hc : kv.create = rev + 1)
    (hn : kv.key ≠ [] ∧ kv.key ≠ nulKey) : Wf (kvs ++ [kv]) (rev + 1) := by
  refine ⟨fun x hx => ?_, ?_, ?_, fun x hx => ?_⟩
  · rcases List.mem_append.1 hx with hx | hx
    · have := h.pos x hx; omega
    · simp at hx; subst hx; omega
  · rw [List.pairwise_append]
    refine ⟨h.keys, List.pairwise_singleton _ _, fun a ha b hb => ?_⟩
    simp at hb; subst hb; exact hnew a ha
  · rw [List.pairwise_append]
    refine ⟨h.creates, List.pairwise_singleton _ _, fun a ha b hb => ?_⟩
    simp at hb; subst hb
    have := h.pos a ha; omega
  · rcases List.mem_append.1 hx with hx | hx
    · exact h.names x hx
    · simp at hx; subst hx; exact hn

theorem pairwise_eq_of {α : Type} (f : α → Nat) : ∀ {l : List α}, l.Pairwise (fun a b => f a ≠ f b) →
    ∀ {a b : α}, a ∈ l → b ∈ l → f a = f b → a = b
  | [], _, a, _, ha, _, _ => by simp at ha
  | x :: xs, h, a, b, ha, hb, e => by
    rw [List.pairwise_cons] at h
    rcases List.mem_cons.1 ha with hax | ha' <;> rcases List.mem_cons.1 hb with hbx | hb'
    · rw [hax, hbx]
    · rw [hax] at e; exact absurd e (h.1 b hb')
    · rw [hbx] at e; exact absurd e.symm (h.1 a ha')
    · exact pairwise_eq_of f h.2 ha' hb' e

/-- two entries of a well-formed key space with the same create revision are the same entry -/
theorem Wf.eq_of_create {kvs : List KV} {rev : Nat} (h : Wf kvs rev) {a b : KV}
    (ha : a ∈ kvs) (hb : b ∈ kvs) (hc : a.create = b.create) : a = b :=
  pairwise_eq_of (fun kv => kv.create) h.creates ha hb hc

end GunYu.Etcd
