/-
  C05 — progress as safety: in no reachable state is a reader that stands below the
  writer's end without a delivering move.
-/
import GunYu.Model.StoreProgress
import GunYu.Proofs.StoreDisk

namespace GunYu.Store
open GunYu

/-! ## Disk -/

theorem findReader_setReader_same {rs : List DReader} (hn : (rs.map (·.id)).Nodup) {r0 r1 : DReader}
    (h0 : r0 ∈ rs) (hid : r1.id = r0.id) : findReader (setReader rs r1) r0.id = some r1 := by
  have hm : r1 ∈ setReader rs r1 := mem_setReader_same h0 hid
  have hn' : ((setReader rs r1).map (·.id)).Nodup := by rw [setReader_ids]; exact hn
  have := findReader_of_mem hn' hm
  rw [hid] at this
  exact this

/-- the state after both halves of a rotation step of reader `r` -/
theorem adv_both {s : Disk} (h : DInv s) {r : DReader} (hr : r ∈ s.readers) (hc : s.canAdvance r = true) :
    ((s.step (.advAcquire r.id)).1.step (.advRelease r.id)).1 =
      { s with readers := setReader (setReader s.readers { r with prev := some r.cur, cur := r.pos })
                            { r with prev := none, cur := r.pos } } := by
  have hf := findReader_of_mem h.ids hr
  have ho : r.isOpen = true := by
    unfold Disk.canAdvance at hc
    simp only [Bool.and_eq_true] at hc
    exact hc.1.1.1.1
  have h1 : (s.step (.advAcquire r.id)).1 =
      { s with readers := setReader s.readers { r with prev := some r.cur, cur := r.pos } } := by
    simp only [Disk.step, Disk.advAcquire, hf, hc, if_true]
  rw [h1]
  have hf2 : findReader (setReader s.readers { r with prev := some r.cur, cur := r.pos }) r.id =
      some { r with prev := some r.cur, cur := r.pos } := findReader_setReader_same h.ids hr rfl
  simp only [Disk.step, Disk.advRelease, hf2]
  simp [ho]

/-- the collector only removes closed segments and leaves history and readers alone -/
theorem gc_frame (s : Disk) : (∃ pre, s.segs = pre ++ s.gc.segs) ∧ s.gc.live = s.live ∧ s.gc.readers = s.readers ∧
    s.gc.hbase = s.hbase ∧ s.gc.hist = s.hist := by
  unfold Disk.gc
  split
  · exact ⟨⟨[], by simp⟩, rfl, rfl, rfl, rfl⟩
  · generalize gcScanRev s.maxSize s.all.reverse 0 = ks
    obtain ⟨k, size⟩ := ks
    obtain ⟨pre, hp, _⟩ := dropUnref_suffix s.readers k s.segs
    simp only []
    split
    · exact ⟨⟨pre, hp⟩, rfl, rfl, rfl, rfl⟩
    · split
      · split
        · exact ⟨⟨pre, hp⟩, rfl, rfl, rfl, rfl⟩
        · exact ⟨⟨[], by simp⟩, rfl, rfl, rfl, rfl⟩
      · exact ⟨⟨pre, hp⟩, rfl, rfl, rfl, rfl⟩

theorem gc_all_subset (s : Disk) : ∀ g ∈ s.gc.all, g ∈ s.all := by
  obtain ⟨⟨pre, hp⟩, hl, _⟩ := gc_frame s
  intro g hg
  unfold Disk.all at hg ⊢
  rw [hl] at hg
  rw [hp]
  rcases List.mem_append.mp hg with h | h
  · exact List.mem_append_left _ (List.mem_append_right _ h)
  · exact List.mem_append_right _ h

/-- one `file.Read` of an open stream reader that stands strictly inside its segment
    delivers at least one byte, and what it delivers are the history's bytes there -/
theorem read_in {s : Disk} (h : DInv s) {x : DReader} (hx : x ∈ s.readers) (ho : x.isOpen = true)
    (ha : x.isAof = true) {g : DSeg} (hg : g ∈ s.all) (hc : x.cur = g.left) (hl : g.left ≤ x.pos)
    (hr : x.pos < g.right) (n : Nat) (hn : 0 < n) :
    ∃ bs, (s.step (.read x.id n)).2 = Out.data bs ∧ bs ≠ [] ∧ bs = (s.hist.drop (x.pos - s.hbase)).take bs.length := by
  have hfx := findReader_of_mem h.ids hx
  have hfg : findSeg s.all x.cur = some g := by
    rw [hc]; exact findSeg_of_mem h.contig (all_initNonempty h.nonempty) hg
  simp only [Disk.step, Disk.read, hfx, ho, Bool.not_true, Bool.false_eq_true, if_false, ha, if_true, hfg]
  have hlen : 0 < ((g.data.drop (x.pos - g.left)).take n).length := by
    simp only [DSeg.right] at hr
    simp; omega
  have hne : ((g.data.drop (x.pos - g.left)).take n) ≠ [] := List.length_pos_iff.mp hlen
  have : ((g.data.drop (x.pos - g.left)).take n).isEmpty = false := by
    simpa [List.isEmpty_iff] using hne
  simp only [this, Bool.false_eq_true, if_false]
  refine ⟨_, rfl, hne, ?_⟩
  obtain ⟨e1, e2, e3⟩ := h.embed g hg
  simp only [DSeg.right] at hr e2
  rw [e3]
  simp only [List.length_take, List.length_drop]
  apply List.ext_getElem?
  intro i
  simp only [List.getElem?_take, List.getElem?_drop]
  by_cases hi : i < n
  · simp only [hi, if_true]
    by_cases hi2 : x.pos - g.left + i < g.data.length
    · have : i < min n (min g.data.length (s.hist.length - (g.left - s.hbase)) - (x.pos - g.left)) := by omega
      simp only [hi2, this, if_true]
      congr 1; omega
    · have : ¬ i < min n (min g.data.length (s.hist.length - (g.left - s.hbase)) - (x.pos - g.left)) := by omega
      simp only [hi2, this, if_false]
  · have : ¬ i < min n (min g.data.length (s.hist.length - (g.left - s.hbase)) - (x.pos - g.left)) := by omega
    simp only [hi, this, if_false]

/-- **catch-up step (disk).** A reader below the writer's end always has a delivering
    move: `AofRotateReader.read` (rotate if the file is exhausted and the next exists,
    then one `file.Read`) — with or without a collector pass inside the rotation —
    delivers at least one byte, and the bytes are the history's bytes at its position. -/
theorem follow_delivers {s : Disk} (h : DInv s) {r : DReader} (hr : r ∈ s.readers)
    (ho : r.isOpen = true) (ha : r.isAof = true) (hprev : r.prev = none)
    (hlt : r.pos < s.hbase + s.hist.length) (n : Nat) (hn : 0 < n) (withGc : Bool) :
    ∃ bs, (if withGc then s.followGc r.id n else s.follow r.id n).2 = Out.data bs ∧ bs ≠ [] ∧
      bs = (s.hist.drop (r.pos - s.hbase)).take bs.length := by
  have hf := findReader_of_mem h.ids hr
  obtain ⟨⟨g0, hg0, hc0, hl0, hr0⟩, _, hs0, hsp, _⟩ := (h.readersOk r hr ho).1 ha
  have hfs : findSeg s.all r.cur = some g0 := by
    rw [← hc0]; exact findSeg_of_mem h.contig (all_initNonempty h.nonempty) hg0
  by_cases hca : s.canAdvance r = true
  · -- at the end of its file; the next segment exists: rotate, then read from the next one
    have hpe : r.pos = g0.right := by
      unfold Disk.canAdvance at hca
      simp only [Bool.and_eq_true, hfs, beq_iff_eq] at hca
      exact hca.1.2
    cases hlr : lastRight s.all with
    | none =>
      have := lastRight_eq_none.mp hlr
      rw [this] at hg0; cases hg0
    | some rr =>
      have hend := h.lastEnd rr hlr
      obtain ⟨nx, hnx, hnl⟩ := contig_next h.contig hg0 hlr (by omega)
      -- the next segment holds at least one byte: it is a closed one, or the live one with bytes in it
      have hnxr : r.pos < nx.right := by
        have hle : nx.right ≤ rr := contig_right_le_last h.contig hnx hlr
        by_cases he : nx.data = []
        · exfalso
          have hlive : s.live = some nx := by
            unfold Disk.all at hnx
            rcases List.mem_append.mp hnx with h1 | h1
            · exact absurd he (h.nonempty nx h1)
            · cases hl : s.live with
              | none => rw [hl] at h1; simp at h1
              | some x => rw [hl] at h1; simp at h1; rw [h1]
          have : lastRight s.all = some nx.right := by
            unfold Disk.all; rw [hlive]; exact lastRight_append_single _ _
          rw [hlr] at this; cases this
          simp only [DSeg.right, he, List.length_nil] at hend hpe hnl
          omega
        · have : 0 < nx.data.length := List.length_pos_iff.mpr he
          simp only [DSeg.right] at hnl hpe ⊢
          omega
      have hs1 := adv_both h hr hca
      -- the state after the rotation and its invariant
      have hi1 : DInv ((s.step (.advAcquire r.id)).1.step (.advRelease r.id)).1 :=
        (h.step (.advAcquire r.id) trivial).step (.advRelease r.id) trivial
      have hxm : ({ r with prev := none, cur := r.pos } : DReader) ∈
          (((s.step (.advAcquire r.id)).1.step (.advRelease r.id)).1).readers := by
        rw [hs1]
        have hm : ({ r with prev := some r.cur, cur := r.pos } : DReader) ∈
            setReader s.readers { r with prev := some r.cur, cur := r.pos } := mem_setReader_same hr rfl
        exact mem_setReader_same (r0 := { r with prev := some r.cur, cur := r.pos }) hm rfl
      have hall1 : (((s.step (.advAcquire r.id)).1.step (.advRelease r.id)).1).all = s.all := by rw [hs1]; rfl
      have hh1 : (((s.step (.advAcquire r.id)).1.step (.advRelease r.id)).1).hist = s.hist ∧
          (((s.step (.advAcquire r.id)).1.step (.advRelease r.id)).1).hbase = s.hbase := by rw [hs1]; exact ⟨rfl, rfl⟩
      cases withGc with
      | false =>
        simp only [Bool.false_eq_true, if_false, Disk.follow, hf, hca, if_true]
        have := read_in hi1 hxm ho ha (g := nx) (by rw [hall1]; exact hnx) (by show r.pos = nx.left; omega)
          (by show nx.left ≤ r.pos; omega) hnxr n hn
        rw [hh1.1, hh1.2] at this
        exact this
      | true =>
        simp only [if_true, Disk.followGc, hf, hca]
        -- the collector pass keeps the segment the reader now holds
        generalize hS : ((s.step (.advAcquire r.id)).1.step (.advRelease r.id)).1 = s1 at hi1 hxm hall1 hh1
        have hi2 : DInv (s1.step .gc).1 := hi1.step .gc trivial
        obtain ⟨_, _, hrs, hb2, hh2⟩ := gc_frame s1
        have hxm2 : ({ r with prev := none, cur := r.pos } : DReader) ∈ (s1.step .gc).1.readers := by
          show _ ∈ s1.gc.readers; rw [hrs]; exact hxm
        obtain ⟨⟨g2, hg2, hc2, _, _⟩, _⟩ := (hi2.readersOk _ hxm2 ho).1 ha
        have hg2s : g2 ∈ s.all := by rw [← hall1]; exact gc_all_subset s1 g2 hg2
        have : g2 = nx := lefts_unique h.contig (all_initNonempty h.nonempty) hg2s hnx (by rw [hc2]; show r.pos = nx.left; omega)
        subst this
        have := read_in hi2 hxm2 ho ha (g := g2) hg2 hc2.symm (by show g2.left ≤ r.pos; omega) hnxr n hn
        have e1 : (s1.step .gc).1.hist = s.hist := by show s1.gc.hist = _; rw [hh2, hh1.1]
        have e2 : (s1.step .gc).1.hbase = s.hbase := by show s1.gc.hbase = _; rw [hb2, hh1.2]
        rw [e1, e2] at this
        exact this
  · have hca' : s.canAdvance r = false := by simpa using hca
    have hin : r.pos < g0.right := by
      rcases reader_progress h hr ho ha hprev hlt n hn with ⟨bs, hb, hne⟩ | hc
      · by_cases hin : r.pos < g0.right
        · exact hin
        · exfalso
          unfold Disk.read at hb
          rw [hf] at hb
          simp only [ho, Bool.not_true, Bool.false_eq_true, if_false, ha, if_true, hfs] at hb
          have : ((g0.data.drop (r.pos - g0.left)).take n) = [] := by
            simp only [DSeg.right] at hin hr0
            apply List.eq_nil_of_length_eq_zero
            simp; omega
          simp [this] at hb
      · rw [hc] at hca'; cases hca'
    cases withGc with
    | false =>
      simp only [Bool.false_eq_true, if_false, Disk.follow, hf, hca', Bool.false_eq_true, if_false]
      exact read_in h hr ho ha hg0 hc0.symm hl0 hin n hn
    | true =>
      simp only [if_true, Disk.followGc, hf, hca', Bool.false_eq_true, if_false]
      exact read_in h hr ho ha hg0 hc0.symm hl0 hin n hn

end GunYu.Store
