/-
  Helper lemmas for C03 (streams, module payloads): `ReadBuffer` steps over exactly the
  value's serialization — `StreamParser.ReadBuffer` (`skipStream`: listpack nodes, length,
  ids, counters, groups with PEL and consumers, the IDMP state of type 26) and
  `rdbLoadCheckModuleValue` (`skipModuleValue` over a module payload) — so the teed
  buffer is the serialization and the loader is positioned behind the value.
-/
import GunYu.Proofs.Rdb.StreamExec

namespace GunYu.Rdb
open GunYu

theorem skipLength64_saveLen (n : Nat) (rest : Bytes) (h : n < 2 ^ 64) : skipLength64 (saveLen n ++ rest) = some rest := by
  simp [skipLength64, readLength64_saveLen n rest h]

theorem skipN_append (n : Nat) (a rest : Bytes) (h : a.length = n) : skipN n (a ++ rest) = some rest := by
  simp [skipN, readN_append' n a rest h]

/-! ## streams -/

theorem skipStreamLp_enc (n : SNodeE) (rest : Bytes) (hw : n.w.wf) : skipStreamLp (n.enc ++ rest) = some rest := by
  have hmid : (beN 8 n.masterMs ++ beN 8 n.masterSeq).length = 16 := by simp [beN_length]
  have hkeyse : (SE.raw .b6 (beN 8 n.masterMs ++ beN 8 n.masterSeq)).wf := by
    show LenForm.b6.fits _
    rw [hmid]; decide
  have henc : n.enc ++ rest = (SE.raw .b6 (beN 8 n.masterMs ++ beN 8 n.masterSeq)).enc ++ (n.w.enc ++ rest) := by
    simp [SNodeE.enc, SE.enc, hmid, List.append_assoc]
  rw [henc]
  unfold skipStreamLp
  rw [readString_enc _ _ hkeyse]
  simp only [SE.val, hmid, ne_eq, not_true_eq_false, if_false]
  exact skipString_enc n.w rest hw

theorem skipStreamNack_enc (n : SNackE) (rest : Bytes) (h : n.count < 2 ^ 32) :
    skipStreamNack (nackEnc n ++ rest) = some rest := by
  unfold skipStreamNack nackEnc
  simp only [List.append_assoc]
  rw [← List.append_assoc (beN 8 n.ms), skipN_append 16 _ _ (by simp [beN_length])]
  simp only
  rw [skipN_append 8 _ _ (leN_length 8 n.time)]
  simp only
  have h64 : n.count < 2 ^ 64 := by
    have : (2 : Nat) ^ 32 < 2 ^ 64 := by decide
    omega
  exact skipLength_encLen (minForm n.count) n.count rest (minForm_fits _ h64) h

theorem skipStreamConsumer_enc (ver : Nat) (c : SConsumerE) (rest : Bytes)
    (h : c.name.wf ∧ c.pel.length < 2 ^ 64) :
    skipStreamConsumer (decide (ver ≥ 3)) (SConsumerE.enc ver c ++ rest) = some rest := by
  obtain ⟨h1, h2⟩ := h
  unfold skipStreamConsumer SConsumerE.enc
  simp only [List.append_assoc, skipString_enc c.name _ h1, skipN_append 8 _ _ (leN_length 8 c.seen)]
  have h3 : (if decide (ver ≥ 3) = true then
        skipN 8 ((if ver ≥ 3 then leN 8 c.active else []) ++
          (saveLen c.pel.length ++ (c.pel.flatMap (fun p => beN 8 p.1 ++ beN 8 p.2) ++ rest)))
      else some ((if ver ≥ 3 then leN 8 c.active else []) ++
          (saveLen c.pel.length ++ (c.pel.flatMap (fun p => beN 8 p.1 ++ beN 8 p.2) ++ rest)))) =
      some (saveLen c.pel.length ++ (c.pel.flatMap (fun p => beN 8 p.1 ++ beN 8 p.2) ++ rest)) := by
    by_cases hv : ver ≥ 3
    · simp only [hv, decide_true, if_true, skipN_append 8 _ _ (leN_length 8 c.active)]
    · simp only [hv, decide_false, Bool.false_eq_true, if_false, List.nil_append]
  rw [h3]
  simp only [readLength64_saveLen _ _ h2]
  exact skipMany_flatMap (skipN 16) (fun p : Nat × Nat => beN 8 p.1 ++ beN 8 p.2) c.pel rest
    (fun a _ r => skipN_append 16 _ r (by simp [beN_length]))

theorem skipStreamGroup_enc (ver : Nat) (g : SGroupE) (rest : Bytes) (h : GroupOk g) (h32 : g.consumers.length < 2 ^ 32) :
    skipStreamGroup (decide (ver ≥ 2)) (decide (ver ≥ 3)) (SGroupE.enc ver g ++ rest) = some rest := by
  obtain ⟨h1, h2, h3, h4, h5, h6, h7, h8⟩ := h
  unfold skipStreamGroup SGroupE.enc
  simp only [List.append_assoc, skipString_enc g.name _ h1, skipLength64_saveLen _ _ h2, skipLength64_saveLen _ _ h3]
  have her : (if decide (ver ≥ 2) = true then
        skipLength64 ((if ver ≥ 2 then saveLen g.entriesRead else []) ++
          (saveLen g.pel.length ++ (g.pel.flatMap nackEnc ++ (saveLen g.consumers.length ++
            (g.consumers.flatMap (SConsumerE.enc ver) ++ rest)))))
      else some ((if ver ≥ 2 then saveLen g.entriesRead else []) ++
          (saveLen g.pel.length ++ (g.pel.flatMap nackEnc ++ (saveLen g.consumers.length ++
            (g.consumers.flatMap (SConsumerE.enc ver) ++ rest)))))) =
      some (saveLen g.pel.length ++ (g.pel.flatMap nackEnc ++ (saveLen g.consumers.length ++
            (g.consumers.flatMap (SConsumerE.enc ver) ++ rest)))) := by
    by_cases hv : ver ≥ 2
    · simp only [hv, decide_true, if_true, skipLength64_saveLen _ _ h4]
    · simp only [hv, decide_false, Bool.false_eq_true, if_false, List.nil_append]
  simp only [group_pel_enc]
  rw [her]
  simp only [readLength64_saveLen _ _ h6]
  rw [skipMany_flatMap skipStreamNack nackEnc g.pel _ (fun n hn r => skipStreamNack_enc n r (h7 n hn).2.2.2)]
  simp only
  rw [show saveLen g.consumers.length = encLen (minForm g.consumers.length) g.consumers.length from rfl,
    readLength_encLen _ _ _ (minForm_fits _ h5) h32]
  simp only
  exact skipMany_flatMap _ (SConsumerE.enc ver) g.consumers rest
    (fun c hc r => skipStreamConsumer_enc ver c r ⟨(h8 c hc).1, (h8 c hc).2.1⟩)

theorem skipIdmpProducer_enc (p : SE × List (SE × Nat × Nat)) (rest : Bytes)
    (h : p.1.wf ∧ p.2.length < 2 ^ 64 ∧ ∀ e ∈ p.2, e.1.wf ∧ e.2.1 < 2 ^ 64 ∧ e.2.2 < 2 ^ 64) :
    skipIdmpProducer (p.1.enc ++ saveLen p.2.length ++
      p.2.flatMap (fun e => e.1.enc ++ saveLen e.2.1 ++ saveLen e.2.2) ++ rest) = some rest := by
  obtain ⟨h1, h2, h3⟩ := h
  unfold skipIdmpProducer
  simp only [List.append_assoc, skipString_enc p.1 _ h1, readLength64_saveLen _ _ h2]
  apply skipMany_flatMap skipIdmpEntry (fun e : SE × Nat × Nat => e.1.enc ++ (saveLen e.2.1 ++ saveLen e.2.2)) p.2 rest
  intro e he r
  obtain ⟨e1, e2, e3⟩ := h3 e he
  unfold skipIdmpEntry
  simp only [List.append_assoc, skipString_enc e.1 _ e1, skipLength64_saveLen _ _ e2, skipLength64_saveLen _ _ e3]

theorem skipIdmp_enc (i : SIdmpE) (rest : Bytes) (hs : i.sizes)
    (hw : ∀ p ∈ i.producers, p.1.wf ∧ ∀ e ∈ p.2, e.1.wf ∧ e.2.1 < 2 ^ 64 ∧ e.2.2 < 2 ^ 64) :
    (match skipMany skipLength64 2 (i.enc ++ rest) with
      | none => none
      | some r5 =>
        match readLength64 r5 with
        | none => none
        | some (np, r6) =>
          match skipMany skipIdmpProducer np r6 with
          | none => none
          | some r7 => skipMany skipLength64 2 r7) = some rest := by
  obtain ⟨s1, s2, s3, s4, s5, s6⟩ := hs
  unfold SIdmpE.enc
  simp only [List.append_assoc, skipMany, skipLength64_saveLen _ _ s1, skipLength64_saveLen _ _ s2,
    readLength64_saveLen _ _ s3]
  have := skipMany_flatMap skipIdmpProducer
    (fun p : SE × List (SE × Nat × Nat) => p.1.enc ++ (saveLen p.2.length ++
      p.2.flatMap (fun e => e.1.enc ++ (saveLen e.2.1 ++ saveLen e.2.2)))) i.producers
    (saveLen i.added ++ (saveLen i.dups ++ rest))
    (fun p hp r => by
      have := skipIdmpProducer_enc p r ⟨(hw p hp).1, s6 p hp, (hw p hp).2⟩
      simpa only [List.append_assoc] using this)
  rw [this]
  simp only [skipLength64_saveLen _ _ s4, skipLength64_saveLen _ _ s5]

/-- `StreamParser.ReadBuffer` consumes exactly the serialization of a stream -/
theorem skipStream_ser (s : StreamE) (rest : Bytes) (hwf : s.wf) (hs : s.sound) :
    skipStream s.rtype (s.ser ++ rest) = some rest := by
  have hgok := groupOk_of s hwf hs
  obtain ⟨_, hv1, hv4, hnodes, hlen, hlm, hls, hfm, hfs, hdm, hds, hea, hgw, hidw⟩ := hwf
  obtain ⟨hnl, hgl, _, _, _, _, _, _, _, hsz⟩ := hs
  obtain ⟨f2, f3, f4⟩ := rtype_flags s hv1 hv4
  unfold skipStream
  simp only [f2, f3, f4, StreamE.ser, List.append_assoc, readLength64_saveLen _ _ hnl]
  rw [skipMany_flatMap skipStreamLp SNodeE.enc s.nodes _ (fun n hn r => skipStreamLp_enc n r (hnodes n hn).1)]
  simp only
  have hgroups : ∀ X : Bytes, skipMany (skipStreamGroup (decide (s.ver ≥ 2)) (decide (s.ver ≥ 3))) s.groups.length
      (s.groups.flatMap (SGroupE.enc s.ver) ++ X) = some X := fun X =>
    skipMany_flatMap _ (SGroupE.enc s.ver) s.groups X
      (fun g hg r => skipStreamGroup_enc s.ver g r (hgok g hg) (hgw g hg).2.2.2.2.1)
  have hcnt : skipMany skipLength64 (if decide (s.ver ≥ 2) = true then 8 else 3)
      (saveLen s.length ++ (saveLen s.lastMs ++ (saveLen s.lastSeq ++
        ((if s.ver ≥ 2 then saveLen s.firstMs ++ (saveLen s.firstSeq ++ (saveLen s.maxDelMs ++ (saveLen s.maxDelSeq ++
            saveLen s.entriesAdded))) else []) ++
          (saveLen s.groups.length ++ (s.groups.flatMap (SGroupE.enc s.ver) ++
            ((if s.ver ≥ 4 then s.idmp.enc else []) ++ rest))))))) =
      some (saveLen s.groups.length ++ (s.groups.flatMap (SGroupE.enc s.ver) ++
            ((if s.ver ≥ 4 then s.idmp.enc else []) ++ rest))) := by
    by_cases hv : s.ver ≥ 2
    · simp only [hv, decide_true, if_true, skipMany, List.append_assoc, skipLength64_saveLen _ _ hlen,
        skipLength64_saveLen _ _ hlm, skipLength64_saveLen _ _ hls, skipLength64_saveLen _ _ hfm,
        skipLength64_saveLen _ _ hfs, skipLength64_saveLen _ _ hdm, skipLength64_saveLen _ _ hds,
        skipLength64_saveLen _ _ hea]
    · simp only [hv, decide_false, Bool.false_eq_true, if_false, skipMany, List.nil_append,
        skipLength64_saveLen _ _ hlen, skipLength64_saveLen _ _ hlm, skipLength64_saveLen _ _ hls]
  rw [hcnt]
  simp only [readLength64_saveLen _ _ hgl, hgroups]
  by_cases hv : s.ver ≥ 4
  · simp only [hv, decide_true, if_true]
    exact skipIdmp_enc s.idmp rest hsz.1 hidw
  · simp only [hv, decide_false, Bool.false_eq_true, if_false, List.nil_append]

/-! ## module payloads -/

theorem readLength_saveLen (n : Nat) (rest : Bytes) (h : n < 2 ^ 32) : readLength (saveLen n ++ rest) = some (n, rest) := by
  have h64 : n < 2 ^ 64 := by
    have : (2 : Nat) ^ 32 < 2 ^ 64 := by decide
    omega
  exact readLength_encLen (minForm n) n rest (minForm_fits n h64) h

theorem skipLength_saveLen (n : Nat) (rest : Bytes) (h : n < 2 ^ 64) : skipLength (saveLen n ++ rest) = some rest := by
  simp [skipLength, readLength, saveLen, readEncodedLength_encLen (minForm n) n rest (minForm_fits n h)]

theorem saveLen_pos (n : Nat) : 1 ≤ (saveLen n).length := by
  unfold saveLen
  cases minForm n <;> simp [encLen]

theorem modOp_enc_pos (o : ModOp) : 1 ≤ o.enc.length := by
  cases o with
  | sint n => have := saveLen_pos 1; simp only [ModOp.enc, List.length_append]; omega
  | uint n => have := saveLen_pos 2; simp only [ModOp.enc, List.length_append]; omega
  | float b => have := saveLen_pos 3; simp only [ModOp.enc, List.length_append]; omega
  | double b => have := saveLen_pos 4; simp only [ModOp.enc, List.length_append]; omega
  | str s => have := saveLen_pos 5; simp only [ModOp.enc, List.length_append]; omega

theorem modOps_len (ops : List ModOp) : ops.length ≤ (ops.flatMap ModOp.enc).length := by
  induction ops with
  | nil => simp
  | cons o ops ih =>
    have := modOp_enc_pos o
    simp only [List.flatMap_cons, List.length_append, List.length_cons]
    omega

/-- `rdbLoadCheckModuleValue` steps over the items of a module payload up to and
    including its EOF opcode -/
theorem skipModuleValue_ops (rest : Bytes) : ∀ (ops : List ModOp) (fuel : Nat), ops.length + 1 ≤ fuel →
    (∀ o ∈ ops, o.wf) → skipModuleValue fuel (ops.flatMap ModOp.enc ++ (saveLen 0 ++ rest)) = some rest := by
  intro ops
  induction ops with
  | nil =>
    intro fuel hf _
    obtain ⟨f, rfl⟩ : ∃ f, fuel = f + 1 := ⟨fuel - 1, by omega⟩
    simp only [List.flatMap_nil, List.nil_append, skipModuleValue, readLength_saveLen 0 rest (by decide), if_true]
  | cons o ops ih =>
    intro fuel hf hw
    obtain ⟨f, rfl⟩ : ∃ f, fuel = f + 1 := ⟨fuel - 1, by omega⟩
    have hf' : ops.length + 1 ≤ f := by simp only [List.length_cons] at hf; omega
    have ih' := ih f hf' (fun x hx => hw x (List.mem_cons_of_mem _ hx))
    have ho := hw o (List.mem_cons_self ..)
    cases o with
    | sint n =>
      simp only [List.flatMap_cons, ModOp.enc, List.append_assoc, skipModuleValue,
        readLength_saveLen 1 _ (by decide), show ¬ ((1 : Nat) = 0) by decide, if_false, true_or, if_true,
        skipLength_saveLen n _ ho, ih']
    | uint n =>
      simp only [List.flatMap_cons, ModOp.enc, List.append_assoc, skipModuleValue,
        readLength_saveLen 2 _ (by decide), show ¬ ((2 : Nat) = 0) by decide, if_false, or_true, if_true,
        skipLength_saveLen n _ ho, ih']
    | float b =>
      simp only [List.flatMap_cons, ModOp.enc, List.append_assoc, skipModuleValue,
        readLength_saveLen 3 _ (by decide), show ¬ ((3 : Nat) = 0) by decide,
        show ¬ ((3 : Nat) = 1 ∨ (3 : Nat) = 2) by decide, show ¬ ((3 : Nat) = 5) by decide, if_false, if_true,
        skipN_append 4 b _ ho, ih']
    | double b =>
      simp only [List.flatMap_cons, ModOp.enc, List.append_assoc, skipModuleValue,
        readLength_saveLen 4 _ (by decide), show ¬ ((4 : Nat) = 0) by decide,
        show ¬ ((4 : Nat) = 1 ∨ (4 : Nat) = 2) by decide, show ¬ ((4 : Nat) = 5) by decide,
        show ¬ ((4 : Nat) = 3) by decide, if_false, if_true,
        skipN_append 8 b _ ho, ih']
    | str s =>
      simp only [List.flatMap_cons, ModOp.enc, List.append_assoc, skipModuleValue,
        readLength_saveLen 5 _ (by decide), show ¬ ((5 : Nat) = 0) by decide,
        show ¬ ((5 : Nat) = 1 ∨ (5 : Nat) = 2) by decide, if_false, if_true,
        skipString_enc s _ ho, ih']

/-- module id, items, EOF: the module value / module aux reader consumes exactly the payload -/
theorem skipModule_payload (id : Nat) (ops : List ModOp) (rest : Bytes) (hid : id < 2 ^ 64) (hw : ∀ o ∈ ops, o.wf) :
    ∃ r, skipLength64 (modulePayload id ops ++ rest) = some r ∧ skipModuleValue (r.length + 1) r = some rest := by
  unfold modulePayload
  refine ⟨ops.flatMap ModOp.enc ++ (saveLen 0 ++ rest), ?_, ?_⟩
  · simp only [List.append_assoc, skipLength64_saveLen id _ hid]
  · apply skipModuleValue_ops rest ops _ _ hw
    have := modOps_len ops
    simp only [List.length_append]
    omega

end GunYu.Rdb
