/-
  Helper lemmas for C03: the LZF decompressor of pkg/rdb/reader.go inverts the
  LZF wire format on every well-formed op list.
-/
import GunYu.Proofs.Rdb.Str

namespace GunYu.Rdb
open GunYu

/-- total output length after the ops, starting from `olen` bytes -/
def lzfLen (olen : Nat) : List LzfOp → Nat
  | [] => olen
  | .lit bs :: ops => lzfLen (olen + bs.length) ops
  | .ref _ len :: ops => lzfLen (olen + len) ops

theorem lzfLen_ge (olen : Nat) (ops : List LzfOp) : olen ≤ lzfLen olen ops := by
  induction ops generalizing olen with
  | nil => exact Nat.le_refl _
  | cons op ops ih =>
    cases op with
    | lit bs => exact Nat.le_trans (Nat.le_add_right _ _) (ih _)
    | ref d l => exact Nat.le_trans (Nat.le_add_right _ _) (ih _)

theorem lzfCopySpec_length (n dist : Nat) (out : Bytes) : (lzfCopySpec n dist out).length = out.length + n := by
  induction n generalizing out with
  | zero => rfl
  | succ n ih => simp [lzfCopySpec, ih]; omega

theorem lzfExpandFrom_length (out : Bytes) (ops : List LzfOp) :
    (lzfExpandFrom out ops).length = lzfLen out.length ops := by
  induction ops generalizing out with
  | nil => rfl
  | cons op ops ih =>
    cases op with
    | lit bs => simp [lzfExpandFrom, lzfLen, ih]
    | ref d l => simp [lzfExpandFrom, lzfLen, ih, lzfCopySpec_length]

/-- the reversed-accumulator copy of the model is the forward copy of the spec -/
theorem lzfCopy_spec (n dist : Nat) (out : Bytes) (room : Nat)
    (hd : 1 ≤ dist) (hdo : dist ≤ out.length) (hr : n ≤ room) :
    lzfCopy n dist out.reverse room = some ((lzfCopySpec n dist out).reverse, room - n) := by
  induction n generalizing out room with
  | zero => simp [lzfCopy, lzfCopySpec]
  | succ n ih =>
    have hr0 : room ≠ 0 := by omega
    have hidx : dist - 1 < out.reverse.length := by simp; omega
    have hget : out.reverse[dist - 1]? = some (out.getD (out.length - dist) 0) := by
      rw [List.getElem?_reverse (by simpa using hidx)]
      have e : out.length - 1 - (dist - 1) = out.length - dist := by omega
      rw [e]
      have hlt : out.length - dist < out.length := by omega
      simp [List.getD, List.getElem?_eq_getElem hlt]
    simp only [lzfCopy, hr0, if_false, hget, lzfCopySpec]
    have := ih (out ++ [out.getD (out.length - dist) 0]) (room - 1) (by rw [List.length_append]; simp; omega) (by omega)
    simp only [List.reverse_append, List.reverse_cons, List.reverse_nil, List.nil_append,
      List.singleton_append] at this
    rw [this]
    have e : room - 1 - n = room - (n + 1) := by omega
    rw [e]

theorem lzfEmitOp_length_pos (op : LzfOp) : 1 ≤ (lzfEmitOp op).length := by
  cases op with
  | lit bs => simp [lzfEmitOp]
  | ref d l => simp only [lzfEmitOp]; split <;> simp

theorem lzfLoop_emit (ops : List LzfOp) (out : Bytes) (fuel : Nat)
    (hwf : lzfWfFrom out.length ops) (hf : (lzfEmit ops).length ≤ fuel) :
    lzfLoop fuel (lzfEmit ops) out.reverse (lzfLen out.length ops - out.length) =
      some (lzfExpandFrom out ops) := by
  induction ops generalizing out fuel with
  | nil =>
    cases fuel <;> simp [lzfEmit, lzfLoop, lzfLen, lzfExpandFrom]
  | cons op ops ih =>
    have hemit : lzfEmit (op :: ops) = lzfEmitOp op ++ lzfEmit ops := by simp [lzfEmit]
    have hpos := lzfEmitOp_length_pos op
    rw [hemit] at hf ⊢
    obtain ⟨f, rfl⟩ : ∃ f, fuel = f + 1 := ⟨fuel - 1, by simp at hf; omega⟩
    have hf' : (lzfEmit ops).length ≤ f := by simp at hf; omega
    cases op with
    | lit bs =>
      obtain ⟨h1, h32, hwf'⟩ := hwf
      have hge := lzfLen_ge (out.length + bs.length) ops
      simp only [lzfEmitOp, List.cons_append, lzfLoop, lzfLen, lzfExpandFrom]
      rw [u8_toNat (bs.length - 1) (by omega)]
      have hc : bs.length - 1 < 32 := by omega
      have e1 : bs.length - 1 + 1 = bs.length := by omega
      simp only [hc, if_true, e1]
      have hcond : bs.length ≤ (bs ++ lzfEmit ops).length ∧
          bs.length ≤ lzfLen (out.length + bs.length) ops - out.length := by
        constructor
        · simp
        · omega
      simp only [hcond, and_self, if_true]
      have hd : (bs ++ lzfEmit ops).drop bs.length = lzfEmit ops := by simp
      have ht : (bs ++ lzfEmit ops).take bs.length = bs := by simp
      rw [hd, ht]
      have hacc : bs.reverse ++ out.reverse = (out ++ bs).reverse := by simp
      rw [hacc]
      have hroom : lzfLen (out.length + bs.length) ops - out.length - bs.length =
          lzfLen (out ++ bs).length ops - (out ++ bs).length := by simp; omega
      rw [hroom]
      have := ih (out ++ bs) f (by simpa using hwf') hf'
      simpa using this
    | ref dist len =>
      obtain ⟨hd1, hd2, hd3, hl3, hl264, hwf'⟩ := hwf
      have hge := lzfLen_ge (out.length + len) ops
      have ho : dist - 1 < 8192 := by omega
      have hcopy := lzfCopy_spec len dist out (lzfLen (out.length + len) ops - out.length) hd1 hd3 (by omega)
      have hlenS := lzfCopySpec_length len dist out
      have hroom : lzfLen (out.length + len) ops - out.length - len =
          lzfLen (lzfCopySpec len dist out).length ops - (lzfCopySpec len dist out).length := by
        rw [hlenS]; omega
      have hih := ih (lzfCopySpec len dist out) f (by rw [hlenS]; exact hwf') hf'
      have hdist : (dist - 1) / 256 * 256 + (dist - 1) % 256 + 1 = dist := by omega
      simp only [lzfLen, lzfExpandFrom]
      by_cases h8 : len ≤ 8
      · simp only [lzfEmitOp, h8, if_true, List.cons_append, List.nil_append, lzfLoop]
        have hb1 := u8_toNat ((len - 2) * 32 + (dist - 1) / 256) (by omega)
        have hb2 := u8_toNat ((dist - 1) % 256) (by omega)
        have hc : ¬ ((len - 2) * 32 + (dist - 1) / 256 < 32) := by omega
        have hl0 : ((len - 2) * 32 + (dist - 1) / 256) / 32 = len - 2 := by omega
        have hm : ((len - 2) * 32 + (dist - 1) / 256) % 32 = (dist - 1) / 256 := by omega
        have h7 : ¬ (len - 2 = 7) := by omega
        have hl2 : len - 2 + 2 = len := by omega
        simp only [hb1, hb2, hc, if_false, hl0, h7, hm, hdist, hl2, hcopy, hroom, hih]
      · simp only [lzfEmitOp, h8, if_false, List.cons_append, List.nil_append, lzfLoop]
        have hb1 := u8_toNat (7 * 32 + (dist - 1) / 256) (by omega)
        have hb2 := u8_toNat ((dist - 1) % 256) (by omega)
        have hb3 := u8_toNat (len - 9) (by omega)
        have hc : ¬ (7 * 32 + (dist - 1) / 256 < 32) := by omega
        have hl0 : (7 * 32 + (dist - 1) / 256) / 32 = 7 := by omega
        have hm : (7 * 32 + (dist - 1) / 256) % 32 = (dist - 1) / 256 := by omega
        have hl2 : 7 + (len - 9) + 2 = len := by omega
        simp only [hb1, hb2, hb3, hc, if_false, hl0, if_true, hm, hdist, hl2, hcopy, hroom, hih]

/-- `lzfDecompress` inverts `lzfEmit` -/
theorem lzfDecompress_emit (ops : List LzfOp) (hwf : lzfWfFrom 0 ops) :
    lzfDecompress (lzfEmit ops) (lzfExpand ops).length = some (lzfExpand ops) := by
  unfold lzfDecompress lzfExpand
  have := lzfLoop_emit ops [] (lzfEmit ops).length (by simpa using hwf) (Nat.le_refl _)
  rw [lzfExpandFrom_length]
  simpa using this

end GunYu.Rdb

namespace GunYu.Rdb
open GunYu

theorem readEncodedLength_encval (u : UInt8) (r : Bytes) (h : u.toNat / 64 = 3) :
    readEncodedLength (u :: r) = some ((u.toNat % 64, true), r) := by
  simp [readEncodedLength, h]

/-- every well-formed string encoding reads back as the string it denotes -/
theorem readString_enc (s : SE) (rest : Bytes) (h : s.wf) :
    readString (s.enc ++ rest) = some (s.val, rest) := by
  cases s with
  | raw f b =>
    simp only [SE.enc, SE.val, readString, List.append_assoc]
    rw [readEncodedLength_encLen f b.length (b ++ rest) h]
    exact readN_append b rest
  | int8 v =>
    have h : inSigned (8 * 1) v := h
    simp only [SE.enc, SE.val, readString, List.cons_append]
    rw [readEncodedLength_encval 0xC0 _ (by decide)]
    have e : (0xC0 : UInt8).toNat % 64 = 0 := by decide
    simp only [e, if_true]
    rw [readN_append' 1 _ _ (leN_length 1 _)]
    simp only
    rw [int_le_roundtrip 1 v (by decide) h]
  | int16 v =>
    have h : inSigned (8 * 2) v := h
    simp only [SE.enc, SE.val, readString, List.cons_append]
    rw [readEncodedLength_encval 0xC1 _ (by decide)]
    have e : (0xC1 : UInt8).toNat % 64 = 1 := by decide
    simp only [e, show (1 : Nat) ≠ 0 by decide, if_false, if_true]
    rw [readN_append' 2 _ _ (leN_length 2 _)]
    simp only
    rw [int_le_roundtrip 2 v (by decide) h]
  | int32 v =>
    have h : inSigned (8 * 4) v := h
    simp only [SE.enc, SE.val, readString, List.cons_append]
    rw [readEncodedLength_encval 0xC2 _ (by decide)]
    have e : (0xC2 : UInt8).toNat % 64 = 2 := by decide
    simp only [e, show (2 : Nat) ≠ 0 by decide, show (2 : Nat) ≠ 1 by decide, if_false, if_true]
    rw [readN_append' 4 _ _ (leN_length 4 _)]
    simp only
    rw [int_le_roundtrip 4 v (by decide) h]
  | lzf fc fu ops =>
    obtain ⟨hwf, hfc, hfu, hc32, hu32⟩ := h
    simp only [SE.enc, SE.val, readString, List.cons_append, List.append_assoc]
    rw [readEncodedLength_encval 0xC3 _ (by decide)]
    have e : (0xC3 : UInt8).toNat % 64 = 3 := by decide
    simp only [e, show (3 : Nat) ≠ 0 by decide, show (3 : Nat) ≠ 1 by decide, show (3 : Nat) ≠ 2 by decide,
      if_false, if_true]
    rw [readLength_encLen fc _ _ hfc hc32]
    simp only
    rw [readLength_encLen fu _ _ hfu hu32]
    simp only
    rw [readN_append]
    simp only
    rw [lzfDecompress_emit ops hwf]




end GunYu.Rdb
