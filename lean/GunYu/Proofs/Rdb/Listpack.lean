/-
  Helper lemmas for C03: listpack blobs decode to their logical contents.
-/
import GunYu.Model.Rdb.Listpack
import GunYu.Proofs.Rdb.Ziplist

namespace GunYu.Rdb
open GunYu

theorem lpSkip_backlen (l : Nat) : lpSkip l = l + (lpBacklen l).length := by
  unfold lpSkip lpBacklen
  split
  · rfl
  · split
    · rfl
    · split
      · rfl
      · split <;> rfl

/-- dropping an entry (body + back length) from `body ++ backlen ++ rest` -/
theorem drop_entry (body rest : Bytes) :
    (body ++ lpBacklen body.length ++ rest).drop (lpSkip body.length) = rest := by
  rw [lpSkip_backlen]
  have : (body ++ lpBacklen body.length).length = body.length + (lpBacklen body.length).length := by simp
  rw [List.drop_left' this]

theorem lpNext_enc (e : LPEntry) (rest : Bytes) (h : e.wf) :
    lpNext (e.enc ++ rest) = some (e.val, rest) := by
  have hdrop := drop_entry e.body rest
  have c255 : (0xFF : UInt8).toNat = 255 := by decide
  unfold LPEntry.enc
  cases e with
  | u7 v =>
    have h : v < 128 := h
    simp only [LPEntry.body, LPEntry.val, List.length_cons, List.length_nil] at hdrop ⊢
    simp only [List.cons_append, List.nil_append] at hdrop ⊢
    simp only [lpNext]
    rw [u8_toNat v (by omega)]
    have h0 : v / 128 = 0 := by omega
    have h1 : v % 128 = v := by omega
    simp only [h0, h1, if_true]
    rw [hdrop]
  | s6 s =>
    have h : s.length < 64 := h
    simp only [LPEntry.body, LPEntry.val, List.length_cons] at hdrop ⊢
    simp only [List.cons_append, List.append_assoc] at hdrop ⊢
    simp only [lpNext]
    rw [u8_toNat (0x80 + s.length) (by omega)]
    have h0 : ¬ ((0x80 + s.length) / 128 = 0) := by omega
    have h1 : (0x80 + s.length) / 64 = 2 := by omega
    have h2 : (0x80 + s.length) % 64 = s.length := by omega
    simp only [h0, h1, h2, if_false, if_true]
    rw [readN_append]
    simp only
    rw [Nat.add_comm 1 s.length, hdrop]
  | i13 v =>
    have h : inSigned 13 v := h
    have hlt := ofSigned_lt 13 v (by decide) h
    have hlt' : ofSigned 13 v < 8192 := by simpa using hlt
    simp only [LPEntry.body, LPEntry.val, List.length_cons, List.length_nil] at hdrop ⊢
    simp only [List.cons_append, List.nil_append] at hdrop ⊢
    simp only [lpNext]
    rw [u8_toNat (0xC0 + ofSigned 13 v / 256) (by omega), u8_toNat (ofSigned 13 v % 256) (by omega)]
    have h0 : ¬ ((0xC0 + ofSigned 13 v / 256) / 128 = 0) := by omega
    have h1 : ¬ ((0xC0 + ofSigned 13 v / 256) / 64 = 2) := by omega
    have h2 : (0xC0 + ofSigned 13 v / 256) / 32 = 6 := by omega
    have h3 : (0xC0 + ofSigned 13 v / 256) % 32 * 256 + ofSigned 13 v % 256 = ofSigned 13 v := by omega
    simp only [h0, h1, h2, h3, if_false, if_true, lpInt]
    rw [toSigned_ofSigned 13 v (by decide) h, hdrop]
  | s12 s =>
    have h : s.length < 4096 := h
    simp only [LPEntry.body, LPEntry.val, List.length_cons] at hdrop ⊢
    simp only [List.cons_append, List.append_assoc] at hdrop ⊢
    simp only [lpNext]
    rw [u8_toNat (0xE0 + s.length / 256) (by omega), u8_toNat (s.length % 256) (by omega)]
    have h0 : ¬ ((0xE0 + s.length / 256) / 128 = 0) := by omega
    have h1 : ¬ ((0xE0 + s.length / 256) / 64 = 2) := by omega
    have h2 : ¬ ((0xE0 + s.length / 256) / 32 = 6) := by omega
    have h3 : (0xE0 + s.length / 256) / 16 = 14 := by omega
    have h4 : (0xE0 + s.length / 256) % 16 * 256 + s.length % 256 = s.length := by omega
    simp only [h0, h1, h2, h3, h4, if_false, if_true]
    rw [readN_append]
    simp only
    have e : 2 + s.length = s.length + 1 + 1 := by omega
    rw [e, hdrop]
  | s32 s =>
    have h : s.length < 2 ^ 32 := h
    simp only [LPEntry.body, LPEntry.val, List.length_cons, List.length_append] at hdrop ⊢
    simp only [List.cons_append, List.append_assoc] at hdrop ⊢
    simp only [lpNext]
    have hc : (0xF0 : UInt8).toNat = 0xF0 := by decide
    simp only [hc, show ¬ (0xF0 / 128 = 0) by decide, show ¬ (0xF0 / 64 = 2) by decide,
      show ¬ (0xF0 / 32 = 6) by decide, show ¬ (0xF0 / 16 = 14) by decide, if_false, if_true]
    rw [readN_append' 4 _ _ (leN_length 4 _)]
    simp only [ofLE_leN' 4 s.length (by simpa using h)]
    rw [readN_append]
    simp only
    have e : 5 + s.length = (leN 4 s.length).length + s.length + 1 := by rw [leN_length]; omega
    rw [e, hdrop]
  | i16 v =>
    have h : inSigned (8 * 2) v := h
    simp only [LPEntry.body, LPEntry.val, List.length_cons, leN_length] at hdrop ⊢
    simp only [List.cons_append, List.append_assoc] at hdrop ⊢
    simp only [lpNext]
    have hc : (0xF1 : UInt8).toNat = 0xF1 := by decide
    simp only [hc, show ¬ (0xF1 / 128 = 0) by decide, show ¬ (0xF1 / 64 = 2) by decide,
      show ¬ (0xF1 / 32 = 6) by decide, show ¬ (0xF1 / 16 = 14) by decide,
      show ¬ (0xF1 = 0xF0) by decide, if_false, if_true]
    rw [readN_append' 2 _ _ (leN_length 2 _)]
    simp only [lpInt]
    rw [int_le_roundtrip 2 v (by decide) h, hdrop]
  | i24 v =>
    have h : inSigned (8 * 3) v := h
    simp only [LPEntry.body, LPEntry.val, List.length_cons, leN_length] at hdrop ⊢
    simp only [List.cons_append, List.append_assoc] at hdrop ⊢
    simp only [lpNext]
    have hc : (0xF2 : UInt8).toNat = 0xF2 := by decide
    simp only [hc, show ¬ (0xF2 / 128 = 0) by decide, show ¬ (0xF2 / 64 = 2) by decide,
      show ¬ (0xF2 / 32 = 6) by decide, show ¬ (0xF2 / 16 = 14) by decide,
      show ¬ (0xF2 = 0xF0) by decide, show ¬ (0xF2 = 0xF1) by decide, if_false, if_true]
    rw [readN_append' 3 _ _ (leN_length 3 _)]
    simp only [lpInt]
    rw [int_le_roundtrip 3 v (by decide) h, hdrop]
  | i32 v =>
    have h : inSigned (8 * 4) v := h
    simp only [LPEntry.body, LPEntry.val, List.length_cons, leN_length] at hdrop ⊢
    simp only [List.cons_append, List.append_assoc] at hdrop ⊢
    simp only [lpNext]
    have hc : (0xF3 : UInt8).toNat = 0xF3 := by decide
    simp only [hc, show ¬ (0xF3 / 128 = 0) by decide, show ¬ (0xF3 / 64 = 2) by decide,
      show ¬ (0xF3 / 32 = 6) by decide, show ¬ (0xF3 / 16 = 14) by decide,
      show ¬ (0xF3 = 0xF0) by decide, show ¬ (0xF3 = 0xF1) by decide, show ¬ (0xF3 = 0xF2) by decide,
      if_false, if_true]
    rw [readN_append' 4 _ _ (leN_length 4 _)]
    simp only [lpInt]
    rw [int_le_roundtrip 4 v (by decide) h, hdrop]
  | i64 v =>
    have h : inSigned (8 * 8) v := h
    simp only [LPEntry.body, LPEntry.val, List.length_cons, leN_length] at hdrop ⊢
    simp only [List.cons_append, List.append_assoc] at hdrop ⊢
    simp only [lpNext]
    have hc : (0xF4 : UInt8).toNat = 0xF4 := by decide
    simp only [hc, show ¬ (0xF4 / 128 = 0) by decide, show ¬ (0xF4 / 64 = 2) by decide,
      show ¬ (0xF4 / 32 = 6) by decide, show ¬ (0xF4 / 16 = 14) by decide,
      show ¬ (0xF4 = 0xF0) by decide, show ¬ (0xF4 = 0xF1) by decide, show ¬ (0xF4 = 0xF2) by decide,
      show ¬ (0xF4 = 0xF3) by decide, if_false, if_true]
    rw [readN_append' 8 _ _ (leN_length 8 _)]
    simp only [lpInt]
    rw [int_le_roundtrip 8 v (by decide) h, hdrop]

theorem lpTake_entries (es : List LPEntry) (rest : Bytes) (h : ∀ e ∈ es, e.wf) :
    lpTake es.length (lpEntries es ++ rest) = some (es.map LPEntry.val, rest) := by
  induction es with
  | nil => simp [lpTake, lpEntries]
  | cons e es ih =>
    simp only [List.length_cons, lpEntries, List.flatMap_cons, List.append_assoc, lpTake]
    rw [lpNext_enc e _ (h e (List.mem_cons_self ..))]
    simp only
    have := ih (fun x hx => h x (List.mem_cons_of_mem _ hx))
    simp only [lpEntries] at this
    rw [this]
    rfl

theorem lpTake_append (a b : List LPEntry) (rest : Bytes) :
    lpEntries (a ++ b) ++ rest = lpEntries a ++ (lpEntries b ++ rest) := by
  simp [lpEntries]

/-- the count field of a blob: the length, or 65535 ("unknown") from 65535 elements on -/
def lpCount (es : List LPEntry) : Nat := if es.length < 65535 then es.length else 65535

theorem lpNew_shape (A C body : Bytes) (hAl : A.length = 4) (hCl : C.length = 2) :
    lpNew (A ++ C ++ body ++ [0xFF]) = some (ofLE C, body ++ [0xFF]) := by
  unfold lpNew
  have hlen : ¬ (A ++ C ++ body ++ [0xFF]).length < 6 := by
    simp only [List.length_append, hAl, hCl]; omega
  simp only [hlen, if_false]
  have e6 : (A ++ C ++ body ++ [0xFF]) = (A ++ C) ++ (body ++ [0xFF]) := by simp
  have e4 : (A ++ C ++ body ++ [0xFF]) = A ++ (C ++ (body ++ [0xFF])) := by simp
  have l6 : (A ++ C).length = 6 := by simp [hAl, hCl]
  have d6 : (A ++ C ++ body ++ [0xFF]).drop 6 = body ++ [0xFF] := by
    rw [e6, List.drop_left' l6]
  have d4 : ((A ++ C ++ body ++ [0xFF]).drop 4).take 2 = C := by
    rw [e4, List.drop_left' hAl, List.take_left' hCl]
  rw [d6, d4]

theorem lpNew_blob' (es : List LPEntry) :
    lpNew (lpBlob es) = some (lpCount es, lpEntries es ++ [0xFF]) := by
  unfold lpBlob
  dsimp only
  rw [lpNew_shape _ _ _ (leN_length 4 _) (leN_length 2 _)]
  have p2 : (256 : Nat) ^ 2 = 65536 := by decide
  have hn16 : (if es.length < 65535 then es.length else 65535) < 256 ^ 2 := by
    rw [p2]; split <;> omega
  rw [ofLE_leN' 2 _ hn16]
  rfl

theorem lpNew_blob (es : List LPEntry) (h : es.length < 65535) :
    lpNew (lpBlob es) = some (es.length, lpEntries es ++ [0xFF]) := by
  rw [lpNew_blob']; simp [lpCount, h]

/-- no element starts with the end marker -/
theorem lpEntry_head (e : LPEntry) (h : e.wf) (X : Bytes) : ∃ b r, e.enc ++ X = b :: r ∧ b ≠ 0xFF := by
  have c255 : (0xFF : UInt8).toNat = 255 := by decide
  unfold LPEntry.enc
  cases e with
  | u7 v =>
    have h : v < 128 := h
    exact ⟨UInt8.ofNat v, _, rfl, u8_ne v 0xFF (by omega) (by omega)⟩
  | s6 s =>
    have h : s.length < 64 := h
    exact ⟨UInt8.ofNat (0x80 + s.length), _, rfl, u8_ne _ 0xFF (by omega) (by omega)⟩
  | i13 v =>
    have hlt := ofSigned_lt 13 v (by decide) h
    have hlt' : ofSigned 13 v < 8192 := by simpa using hlt
    exact ⟨UInt8.ofNat (0xC0 + ofSigned 13 v / 256), _, rfl, u8_ne _ 0xFF (by omega) (by omega)⟩
  | s12 s =>
    have h : s.length < 4096 := h
    exact ⟨UInt8.ofNat (0xE0 + s.length / 256), _, rfl, u8_ne _ 0xFF (by omega) (by omega)⟩
  | s32 s => exact ⟨0xF0, _, rfl, by decide⟩
  | i16 v => exact ⟨0xF1, _, rfl, by decide⟩
  | i24 v => exact ⟨0xF2, _, rfl, by decide⟩
  | i32 v => exact ⟨0xF3, _, rfl, by decide⟩
  | i64 v => exact ⟨0xF4, _, rfl, by decide⟩

theorem lpUntilEnd_entries (es : List LPEntry) (fuel : Nat) (hf : es.length < fuel) (h : ∀ e ∈ es, e.wf) :
    lpUntilEnd fuel (lpEntries es ++ [0xFF]) = some (es.map LPEntry.val) := by
  induction es generalizing fuel with
  | nil =>
    obtain ⟨f, rfl⟩ : ∃ f, fuel = f + 1 := ⟨fuel - 1, by simp at hf; omega⟩
    simp [lpUntilEnd, lpEntries]
  | cons e es ih =>
    obtain ⟨f, rfl⟩ : ∃ f, fuel = f + 1 := ⟨fuel - 1, by simp at hf; omega⟩
    have hw := h e (List.mem_cons_self ..)
    have hcons : lpEntries (e :: es) ++ [0xFF] = e.enc ++ (lpEntries es ++ [0xFF]) := by simp [lpEntries]
    obtain ⟨b, r, hbr, hne⟩ := lpEntry_head e hw (lpEntries es ++ [0xFF])
    rw [hcons]
    have hnext := lpNext_enc e (lpEntries es ++ [0xFF]) hw
    rw [hbr] at hnext ⊢
    simp only [lpUntilEnd, hne, if_false, hnext]
    rw [ih f (by simp at hf; omega) (fun x hx => h x (List.mem_cons_of_mem _ hx))]
    rfl

theorem lpEntries_length_ge' (es : List LPEntry) : es.length ≤ (lpEntries es).length := by
  induction es with
  | nil => simp [lpEntries]
  | cons e es ih =>
    have hc : lpEntries (e :: es) = e.enc ++ lpEntries es := by simp [lpEntries]
    rw [hc, List.length_append, List.length_cons]
    have : 1 ≤ e.enc.length := by
      unfold LPEntry.enc
      rw [List.length_append]
      have : 1 ≤ (lpBacklen e.body.length).length := by
        unfold lpBacklen
        split
        · simp
        · split
          · simp
          · split
            · simp
            · split <;> simp
      omega
    omega

/-- a well-formed listpack blob of ANY number of elements yields exactly its
    entries' values (count field 65535: walked to the end marker) -/
theorem lpAll_blob (es : List LPEntry) (h : lpWf es) : lpAll (lpBlob es) = some (es.map LPEntry.val) := by
  unfold lpAll
  rw [lpNew_blob']
  simp only
  by_cases hl : es.length < 65535
  · have hc : lpCount es = es.length := by simp [lpCount, hl]
    have hne : ¬ (es.length = 65535) := by omega
    simp only [hc, hne, if_false]
    rw [lpTake_entries es [0xFF] h]
    rfl
  · have hc : lpCount es = 65535 := by simp [lpCount, hl]
    simp only [hc, if_true]
    apply lpUntilEnd_entries es _ _ h
    have := lpEntries_length_ge' es
    unfold lpBlob
    simp only [List.length_append]
    omega

theorem lpPairs_blob (es : List LPEntry) (h : lpWf es) (he : es.length % 2 = 0) :
    lpPairs (lpBlob es) = some (pairUp (es.map LPEntry.val)) := by
  unfold lpPairs
  rw [lpAll_blob es h]
  simp [he]

end GunYu.Rdb
