/-
  Helper lemmas for C03: listpack blobs decode to their logical contents.
-/
import GunYu.Model.Rdb.Listpack
import GunYu.Proofs.Rdb.Ziplist

namespace GunYu.Rdb
open GunYu

theorem lpSkip_backlen (l : Nat) : lpSkip l = l + (lpBacklen l).length := by
  unfold lpSkip lpBacklen
  split
  · rfl
  · split
    · rfl
    · split
      · rfl
      · split <;> rfl

/-- dropping an entry (body + back length) from `body ++ backlen ++ rest` -/
theorem drop_entry (body rest : Bytes) :
    (body ++ lpBacklen body.length ++ rest).drop (lpSkip body.length) = rest := by
  rw [lpSkip_backlen]
  have : (body ++ lpBacklen body.length).length = body.length + (lpBacklen body.length).length := by simp
  rw [List.drop_left' this]

theorem lpNext_enc (e : LPEntry) (rest : Bytes) (h : e.wf) :
    lpNext (e.enc ++ rest) = some (e.val, rest) := by
  have hdrop := drop_entry e.body rest
  unfold LPEntry.enc
  cases e with
  | u7 v =>
    have h : v < 128 := h
    simp only [LPEntry.body, LPEntry.val, List.length_cons, List.length_nil] at hdrop ⊢
    simp only [List.cons_append, List.nil_append] at hdrop ⊢
    simp only [lpNext]
    rw [u8_toNat v (by omega)]
    have h0 : v / 128 = 0 := by omega
    have h1 : v % 128 = v := by omega
    simp only [h0, h1, if_true]
    rw [hdrop]
  | s6 s =>
    have h : s.length < 64 := h
    simp only [LPEntry.body, LPEntry.val, List.length_cons] at hdrop ⊢
    simp only [List.cons_append, List.append_assoc] at hdrop ⊢
    simp only [lpNext]
    rw [u8_toNat (0x80 + s.length) (by omega)]
    have h0 : ¬ ((0x80 + s.length) / 128 = 0) := by omega
    have h1 : (0x80 + s.length) / 64 = 2 := by omega
    have h2 : (0x80 + s.length) % 64 = s.length := by omega
    simp only [h0, h1, h2, if_false, if_true]
    rw [readN_append]
    simp only
    rw [Nat.add_comm 1 s.length, hdrop]
  | i13 v =>
    have h : inSigned 13 v := h
    have hlt := ofSigned_lt 13 v (by decide) h
    have hlt' : ofSigned 13 v < 8192 := by simpa using hlt
    simp only [LPEntry.body, LPEntry.val, List.length_cons, List.length_nil] at hdrop ⊢
    simp only [List.cons_append, List.nil_append] at hdrop ⊢
    simp only [lpNext]
    rw [u8_toNat (0xC0 + ofSigned 13 v / 256) (by omega), u8_toNat (ofSigned 13 v % 256) (by omega)]
    have h0 : ¬ ((0xC0 + ofSigned 13 v / 256) / 128 = 0) := by omega
    have h1 : ¬ ((0xC0 + ofSigned 13 v / 256) / 64 = 2) := by omega
    have h2 : (0xC0 + ofSigned 13 v / 256) / 32 = 6 := by omega
    have h3 : (0xC0 + ofSigned 13 v / 256) % 32 * 256 + ofSigned 13 v % 256 = ofSigned 13 v := by omega
    simp only [h0, h1, h2, h3, if_false, if_true, lpInt]
    rw [toSigned_ofSigned 13 v (by decide) h, hdrop]
  | s12 s =>
    have h : s.length < 4096 := h
    simp only [LPEntry.body, LPEntry.val, List.length_cons] at hdrop ⊢
    simp only [List.cons_append, List.append_assoc] at hdrop ⊢
    simp only [lpNext]
    rw [u8_toNat (0xE0 + s.length / 256) (by omega), u8_toNat (s.length % 256) (by omega)]
    have h0 : ¬ ((0xE0 + s.length / 256) / 128 = 0) := by omega
    have h1 : ¬ ((0xE0 + s.length / 256) / 64 = 2) := by omega
    have h2 : ¬ ((0xE0 + s.length / 256) / 32 = 6) := by omega
    have h3 : (0xE0 + s.length / 256) / 16 = 14 := by omega
    have h4 : (0xE0 + s.length / 256) % 16 * 256 + s.length % 256 = s.length := by omega
    simp only [h0, h1, h2, h3, h4, if_false, if_true]
    rw [readN_append]
    simp only
    have e : 2 + s.length = s.length + 1 + 1 := by omega
    rw [e, hdrop]
  | s32 s =>
    have h : s.length < 2 ^ 32 := h
    simp only [LPEntry.body, LPEntry.val, List.length_cons, List.length_append] at hdrop ⊢
    simp only [List.cons_append, List.append_assoc] at hdrop ⊢
    simp only [lpNext]
    have hc : (0xF0 : UInt8).toNat = 0xF0 := by decide
    simp only [hc, show ¬ (0xF0 / 128 = 0) by decide, show ¬ (0xF0 / 64 = 2) by decide,
      show ¬ (0xF0 / 32 = 6) by decide, show ¬ (0xF0 / 16 = 14) by decide, if_false, if_true]
    rw [readN_append' 4 _ _ (leN_length 4 _)]
    simp only [ofLE_leN' 4 s.length (by simpa using h)]
    rw [readN_append]
    simp only
    have e : 5 + s.length = (leN 4 s.length).length + s.length + 1 := by rw [leN_length]; omega
    rw [e, hdrop]
  | i16 v =>
    have h : inSigned (8 * 2) v := h
    simp only [LPEntry.body, LPEntry.val, List.length_cons, leN_length] at hdrop ⊢
    simp only [List.cons_append, List.append_assoc] at hdrop ⊢
    simp only [lpNext]
    have hc : (0xF1 : UInt8).toNat = 0xF1 := by decide
    simp only [hc, show ¬ (0xF1 / 128 = 0) by decide, show ¬ (0xF1 / 64 = 2) by decide,
      show ¬ (0xF1 / 32 = 6) by decide, show ¬ (0xF1 / 16 = 14) by decide,
      show ¬ (0xF1 = 0xF0) by decide, if_false, if_true]
    rw [readN_append' 2 _ _ (leN_length 2 _)]
    simp only [lpInt]
    rw [int_le_roundtrip 2 v (by decide) h, hdrop]
  | i24 v =>
    have h : inSigned (8 * 3) v := h
    simp only [LPEntry.body, LPEntry.val, List.length_cons, leN_length] at hdrop ⊢
    simp only [List.cons_append, List.append_assoc] at hdrop ⊢
    simp only [lpNext]
    have hc : (0xF2 : UInt8).toNat = 0xF2 := by decide
    simp only [hc, show ¬ (0xF2 / 128 = 0) by decide, show ¬ (0xF2 / 64 = 2) by decide,
      show ¬ (0xF2 / 32 = 6) by decide, show ¬ (0xF2 / 16 = 14) by decide,
      show ¬ (0xF2 = 0xF0) by decide, show ¬ (0xF2 = 0xF1) by decide, if_false, if_true]
    rw [readN_append' 3 _ _ (leN_length 3 _)]
    simp only [lpInt]
    rw [int_le_roundtrip 3 v (by decide) h, hdrop]
  | i32 v =>
    have h : inSigned (8 * 4) v := h
    simp only [LPEntry.body, LPEntry.val, List.length_cons, leN_length] at hdrop ⊢
    simp only [List.cons_append, List.append_assoc] at hdrop ⊢
    simp only [lpNext]
    have hc : (0xF3 : UInt8).toNat = 0xF3 := by decide
    simp only [hc, show ¬ (0xF3 / 128 = 0) by decide, show ¬ (0xF3 / 64 = 2) by decide,
      show ¬ (0xF3 / 32 = 6) by decide, show ¬ (0xF3 / 16 = 14) by decide,
      show ¬ (0xF3 = 0xF0) by decide, show ¬ (0xF3 = 0xF1) by decide, show ¬ (0xF3 = 0xF2) by decide,
      if_false, if_true]
    rw [readN_append' 4 _ _ (leN_length 4 _)]
    simp only [lpInt]
    rw [int_le_roundtrip 4 v (by decide) h, hdrop]
  | i64 v =>
    have h : inSigned (8 * 8) v := h
    simp only [LPEntry.body, LPEntry.val, List.length_cons, leN_length] at hdrop ⊢
    simp only [List.cons_append, List.append_assoc] at hdrop ⊢
    simp only [lpNext]
    have hc : (0xF4 : UInt8).toNat = 0xF4 := by decide
    simp only [hc, show ¬ (0xF4 / 128 = 0) by decide, show ¬ (0xF4 / 64 = 2) by decide,
      show ¬ (0xF4 / 32 = 6) by decide, show ¬ (0xF4 / 16 = 14) by decide,
      show ¬ (0xF4 = 0xF0) by decide, show ¬ (0xF4 = 0xF1) by decide, show ¬ (0xF4 = 0xF2) by decide,
      show ¬ (0xF4 = 0xF3) by decide, if_false, if_true]
    rw [readN_append' 8 _ _ (leN_length 8 _)]
    simp only [lpInt]
    rw [int_le_roundtrip 8 v (by decide) h, hdrop]

theorem lpTake_entries (es : List LPEntry) (rest : Bytes) (h : ∀ e ∈ es, e.wf) :
    lpTake es.length (lpEntries es ++ rest) = some (es.map LPEntry.val, rest) := by
  induction es with
  | nil => simp [lpTake, lpEntries]
  | cons e es ih =>
    simp only [List.length_cons, lpEntries, List.flatMap_cons, List.append_assoc, lpTake]
    rw [lpNext_enc e _ (h e (List.mem_cons_self ..))]
    simp only
    have := ih (fun x hx => h x (List.mem_cons_of_mem _ hx))
    simp only [lpEntries] at this
    rw [this]
    rfl

theorem lpTake_append (a b : List LPEntry) (rest : Bytes) :
    lpEntries (a ++ b) ++ rest = lpEntries a ++ (lpEntries b ++ rest) := by
  simp [lpEntries]

theorem lpNew_blob (es : List LPEntry) (h : es.length < 65535) :
    lpNew (lpBlob es) = some (es.length, lpEntries es ++ [0xFF]) := by
  unfold lpNew lpBlob
  simp only [h, if_true]
  generalize hA : leN 4 (6 + (lpEntries es).length + 1) = A
  have hAl : A.length = 4 := by rw [← hA]; exact leN_length 4 _
  have hCl : (leN 2 es.length).length = 2 := leN_length 2 _
  have hlen : ¬ (A ++ leN 2 es.length ++ lpEntries es ++ [0xFF]).length < 6 := by
    simp only [List.length_append, hAl, hCl]; omega
  simp only [hlen, if_false]
  have e6 : (A ++ leN 2 es.length ++ lpEntries es ++ [0xFF]) = (A ++ leN 2 es.length) ++ (lpEntries es ++ [0xFF]) := by simp
  have e4 : (A ++ leN 2 es.length ++ lpEntries es ++ [0xFF]) = A ++ (leN 2 es.length ++ (lpEntries es ++ [0xFF])) := by simp
  have l6 : (A ++ leN 2 es.length).length = 6 := by simp [hAl, hCl]
  have d6 : (A ++ leN 2 es.length ++ lpEntries es ++ [0xFF]).drop 6 = lpEntries es ++ [0xFF] := by
    rw [e6, List.drop_left' l6]
  have d4 : ((A ++ leN 2 es.length ++ lpEntries es ++ [0xFF]).drop 4).take 2 = leN 2 es.length := by
    rw [e4, List.drop_left' hAl, List.take_left' hCl]
  rw [d6, d4, ofLE_leN' 2 es.length (by have : (256:Nat)^2 = 65536 := by decide
                                        omega)]

/-- a well-formed listpack blob yields exactly its entries' values -/
theorem lpAll_blob (es : List LPEntry) (h : lpWf es) : lpAll (lpBlob es) = some (es.map LPEntry.val) := by
  unfold lpAll
  rw [lpNew_blob es h.2]
  simp only
  rw [lpTake_entries es [0xFF] h.1]
  rfl

theorem lpPairs_blob (es : List LPEntry) (h : lpWf es) (he : es.length % 2 = 0) :
    lpPairs (lpBlob es) = some (pairUp (es.map LPEntry.val)) := by
  unfold lpPairs
  rw [lpNew_blob es h.2]
  simp only
  have : ¬ (es.length % 2 ≠ 0) := by omega
  simp only [this, if_false]
  rw [lpTake_entries es [0xFF] h.1]

end GunYu.Rdb
