/-
  Helper lemmas for C03 `fanout_parallel`: the target with one connection per
  worker, what one entry does to it (independently of the worker it is routed to),
  and the comparison of two fan-outs with different numbers of workers.
-/
import GunYu.Proofs.Rdb.Sync
import GunYu.Proofs.Rdb.StreamNames

namespace GunYu.Rdb
open GunYu GunYu.RedisSem

/-! ## connections -/

theorem put_conn (m : MState) (j : Nat) (t : TState) : (m.put j t).conn j = t := by
  cases t; simp [MState.put, MState.conn]

theorem put_put (m : MState) (j : Nat) (t t' : TState) : (m.put j t).put j t' = m.put j t' := by
  simp only [MState.put, MState.mk.injEq, and_true]
  funext i
  by_cases hi : i = j <;> simp [hi]

theorem put_conn_self (m : MState) (j : Nat) : m.put j (m.conn j) = m := by
  cases m with
  | mk cur dbs =>
    simp only [MState.put, MState.conn, MState.mk.injEq, and_true]
    funext i
    by_cases hi : i = j <;> simp [hi]

theorem applySched_conn (j : Nat) : ∀ (cs : List Cmd) (m : MState),
    applySched m (cs.map (fun c => (j, c))) = (applyReqs (m.conn j) cs).map (m.put j) := by
  intro cs
  induction cs with
  | nil => intro m; simp [applySched, applyReqs, put_conn_self]
  | cons c cs ih =>
    intro m
    simp only [List.map_cons, applySched, applyTagged, applyReqs]
    cases hr : applyReq (m.conn j) c with
    | none => simp
    | some t =>
      simp only [Option.map_some, ih, put_conn]
      cases applyReqs t cs with
      | none => simp
      | some t' => simp [put_put]

theorem applySched_append (m : MState) (a b : List (Nat × Cmd)) :
    applySched m (a ++ b) = (applySched m a).bind (fun m' => applySched m' b) := by
  induction a generalizing m with
  | nil => simp [applySched]
  | cons p a ih =>
    simp only [List.cons_append, applySched]
    cases applyTagged m p with
    | none => simp
    | some m' => simp [ih]

/-- requests that are not SELECT leave the connection's database alone -/
theorem applyReqs_cur (cs : List Cmd) : ∀ (t t' : TState), (∀ c ∈ cs, lower c.name ≠ b!"select") →
    applyReqs t cs = some t' → t'.cur = t.cur := by
  induction cs with
  | nil => intro t t' _ h; simp only [applyReqs, Option.some.injEq] at h; rw [h]
  | cons c cs ih =>
    intro t t' hn h
    simp only [applyReqs] at h
    have hc := hn c (List.mem_cons_self ..)
    cases hr : applyReq t c with
    | none => simp [hr] at h
    | some t1 =>
      simp only [hr] at h
      have h1 : t1.cur = t.cur := by
        simp only [applyReq, hc, if_false] at hr
        split at hr
        · simp only [Option.some.injEq] at hr; rw [← hr]
        · cases hx : applyXCmd (t.dbs t.cur) c with
          | none => simp [hx] at hr
          | some ks => simp only [hx, Option.map_some, Option.some.injEq] at hr; rw [← hr]; rfl
      rw [ih t1 t' (fun x hx => hn x (List.mem_cons_of_mem _ hx)) h, h1]

/-! ## no request of an entry is a SELECT -/

def noSel (c : Cmd) : Prop := lower c.name ≠ b!"select"

theorem map_noSel {α : Type} (x : Option (List α)) (g : α → Cmd) (n : Bytes) (hg : ∀ a, (g a).name = n)
    (hn : lower n ≠ b!"select") (cs : List Cmd) (h : x.map (fun es => es.map g) = some cs) :
    ∀ c ∈ cs, noSel c := by
  obtain ⟨es, _, rfl⟩ := Option.map_eq_some_iff.mp h
  intro c hc
  obtain ⟨a, _, rfl⟩ := List.mem_map.mp hc
  unfold noSel; rw [hg a]; exact hn

theorem execCmd_noSel (x : XCfg) (p : PObj) (cs : List Cmd)
    (h : execCmd x p = some cs) : ∀ c ∈ cs, noSel c := by
  unfold execCmd at h
  cases hot : otypeOf p.rtype with
  | none => simp [hot] at h
  | some ot =>
    cases ot with
    | string =>
      simp only [hot, Option.some.injEq] at h; subst h
      intro c hc; simp only [List.mem_singleton] at hc; subst hc
      exact (show lower b!"set" ≠ b!"select" by decide)
    | list => simp only [hot] at h; exact map_noSel _ _ b!"RPUSH" (fun _ => rfl) (by decide) cs h
    | set => simp only [hot] at h; exact map_noSel _ _ b!"SADD" (fun _ => rfl) (by decide) cs h
    | zset =>
      simp only [hot] at h
      split at h
      · split at h
        · cases h
        · exact map_noSel _ _ b!"ZADD" (fun _ => rfl) (by decide) cs h
      · split at h
        · cases h
        · exact map_noSel _ _ b!"ZADD" (fun _ => rfl) (by decide) cs h
    | hash => simp only [hot] at h; exact map_noSel _ _ b!"HSET" (fun _ => rfl) (by decide) cs h
    | stream =>
      simp only [hot] at h
      intro c hc
      rcases execStream_names _ _ _ _ _ h c hc with hn | hn | hn | hn <;>
        (unfold noSel; rw [hn]; decide)
    | module => simp [hot] at h
    | function =>
      simp only [hot] at h
      split at h
      · simp only [Option.some.injEq] at h; subst h
        intro c hc; simp only [List.mem_singleton] at hc; subst hc
        exact (show lower b!"FUNCTION" ≠ b!"select" by decide)
      · simp only [Option.some.injEq] at h; subst h; intro c hc; cases hc
    | aux =>
      simp only [hot] at h
      split at h
      · simp only [Option.some.injEq] at h; subst h
        intro c hc; simp only [List.mem_singleton] at hc; subst hc
        exact (show lower b!"script" ≠ b!"select" by decide)
      · simp only [Option.some.injEq] at h; subst h; intro c hc; cases hc

theorem rewriteCmd_name (src dst : Bytes) (c : Cmd) : (rewriteCmd src dst c).name = c.name := by
  unfold rewriteCmd
  split
  · rfl
  · split
    · simp only; split <;> rfl
    · simp only; split <;> rfl

theorem noSel_name (c : Cmd) (n : Bytes) (hc : c.name = n) (h : lower n ≠ b!"select") : noSel c := by
  unfold noSel; rw [hc]; exact h

theorem expandEntry_noSel (cfg : RCfg) (db : Int) (ex : Exists) (e : Entry) (ot : OType) (src : Bytes) :
    ∀ c ∈ (expandEntry cfg db ex e ot src).1, noSel c := by
  have hprobe : ∀ c ∈ (if e.obj.firstBin then
      cmdB b!"exists" [e.key] :: (if ex.has db e.key then [cmdB b!"del" [e.key]] else []) else []), noSel c := by
    intro c hc
    split at hc
    · rcases List.mem_cons.mp hc with rfl | hc
      · exact noSel_name _ b!"exists" rfl (by decide)
      · split at hc
        · simp only [List.mem_singleton] at hc; subst hc; exact noSel_name _ b!"del" rfl (by decide)
        · cases hc
    · cases hc
  intro c hc
  unfold expandEntry at hc
  simp only at hc
  split at hc
  · cases hc
  · cases hx : execCmd cfg.x e.obj with
    | none =>
      simp only [hx, Option.map_none] at hc
      exact hprobe c hc
    | some cs =>
      simp only [hx, Option.map_some, List.mem_append] at hc
      rcases hc with (hc | hc) | hc
      · exact hprobe c hc
      · obtain ⟨c0, hc0, rfl⟩ := List.mem_map.mp hc
        have := execCmd_noSel cfg.x e.obj cs hx c0 hc0
        unfold noSel at this ⊢
        rw [rewriteCmd_name]; exact this
      · split at hc
        · simp only [List.mem_singleton] at hc; subst hc; exact noSel_name _ b!"pexpire" rfl (by decide)
        · cases hc

theorem replayEntry_noSel (cfg : RCfg) (D : Int) (ex : Exists) (e : Entry) :
    ∀ c ∈ (replayEntry cfg D ex e).1, noSel c := by
  intro c hc
  unfold replayEntry at hc
  simp only at hc
  split at hc
  · cases hc
  · rename_i ot hot
    split at hc
    · cases hx : execCmd cfg.x e.obj with
      | none => simp [hx] at hc
      | some cs =>
        simp only [hx] at hc
        exact execCmd_noSel cfg.x e.obj cs hx c hc
    · split at hc
      · exact expandEntry_noSel cfg D ex { e with key := dstKey cfg e.key } ot e.key c hc
      · have hatt : ∀ (params : List Bytes), ∀ c ∈ (if ex.has D (dstKey cfg e.key)
            then [cmdB b!"restore" params, cmdB b!"restore" (params ++ [b!"REPLACE"])]
            else [cmdB b!"restore" params]), noSel c := by
          intro params c hc
          split at hc
          · simp only [List.mem_cons, List.not_mem_nil, or_false] at hc
            rcases hc with rfl | rfl <;> exact noSel_name _ b!"restore" rfl (by decide)
          · simp only [List.mem_singleton] at hc; subst hc; exact noSel_name _ b!"restore" rfl (by decide)
        split at hc
        · exact hatt _ c hc
        · simp only [List.mem_append] at hc
          rcases hc with hc | hc
          · exact hatt _ c hc
          · exact expandEntry_noSel cfg D ex { e with key := dstKey cfg e.key } ot e.key c hc

/-! ## what one entry does, whichever worker it is routed to -/

/-- the entries the comparison covers: an entry without a database is a function library
    (what the loader produces); values of EVERY kind, streams included (session 4) -/
def EntryOk (e : Entry) : Prop :=
  (e.db = -1 ∧ e.obj.rtype = 0xF5) ∨ ∃ n : Nat, e.db = (n : Int)

/-- worker-independent description of `workerStep`: the database the connection is switched
    to (`none`: it stays where it is), the requests issued there, the new existence table, success -/
def entryEffect (cfg : RCfg) (ex : Exists) (e : Entry) : Option Int × List Cmd × Exists × Bool :=
  if e.db ≠ -1 ∧ cfg.filterDb e.db then (none, [], ex, true) else
  let sel : Option Int := if e.db = -1 then none else some (mapDb cfg e.db)
  if cfg.filterKey e.key then (sel, [], ex, true) else
  let r := replayEntry cfg (sel.getD 0) ex e
  (sel, r.1, r.2.1, r.2.2)

/-- the requests a worker issues for one entry -/
def stepReqs (cfg : RCfg) (w : Worker) (ex : Exists) (e : Entry) : List Cmd :=
  (workerStep cfg w ex e).1.log.drop w.log.length

theorem replayEntry_function_indep (cfg : RCfg) (D1 D2 : Int) (ex : Exists) (e : Entry) (hrt : e.obj.rtype = 0xF5) :
    replayEntry cfg D1 ex e = replayEntry cfg D2 ex e := by
  have hot : otypeOf 0xF5 = some .function := by decide
  simp only [replayEntry, hrt, hot, true_or, if_true]

theorem workerStep_A (cfg : RCfg) (w : Worker) (ex : Exists) (e : Entry)
    (hA : e.db ≠ -1 ∧ cfg.filterDb e.db = true) : workerStep cfg w ex e = (w, ex, true) := by
  rw [workerStep_eq, if_pos hA]

theorem entryEffect_A (cfg : RCfg) (ex : Exists) (e : Entry)
    (hA : e.db ≠ -1 ∧ cfg.filterDb e.db = true) : entryEffect cfg ex e = (none, [], ex, true) := by
  unfold entryEffect; rw [if_pos hA]

theorem workerStep_B (cfg : RCfg) (w : Worker) (ex : Exists) (e : Entry)
    (hA : ¬ (e.db ≠ -1 ∧ cfg.filterDb e.db = true)) (hk : cfg.filterKey e.key = true) :
    workerStep cfg w ex e = (afterSelect cfg w e, ex, true) := by
  rw [workerStep_eq, if_neg hA, if_pos hk]

theorem entryEffect_B (cfg : RCfg) (ex : Exists) (e : Entry)
    (hA : ¬ (e.db ≠ -1 ∧ cfg.filterDb e.db = true)) (hk : cfg.filterKey e.key = true) :
    entryEffect cfg ex e = (if e.db = -1 then none else some (mapDb cfg e.db), [], ex, true) := by
  unfold entryEffect; rw [if_neg hA]; simp only [hk, if_true]

theorem workerStep_C (cfg : RCfg) (htick : cfg.tick = 0) (w : Worker) (ex : Exists) (e : Entry)
    (hA : ¬ (e.db ≠ -1 ∧ cfg.filterDb e.db = true)) (hk : ¬ cfg.filterKey e.key = true) :
    workerStep cfg w ex e =
      ({ afterSelect cfg w e with log := (afterSelect cfg w e).log ++ (replayEntry cfg (afterSelect cfg w e).cur ex e).1 },
        (replayEntry cfg (afterSelect cfg w e).cur ex e).2.1, (replayEntry cfg (afterSelect cfg w e).cur ex e).2.2) := by
  rw [workerStep_eq, if_neg hA, if_neg hk]
  simp only [cfg_tick0 cfg htick]

theorem entryEffect_C (cfg : RCfg) (ex : Exists) (e : Entry)
    (hA : ¬ (e.db ≠ -1 ∧ cfg.filterDb e.db = true)) (hk : ¬ cfg.filterKey e.key = true) :
    entryEffect cfg ex e =
      (if e.db = -1 then none else some (mapDb cfg e.db),
       (replayEntry cfg ((if e.db = -1 then none else some (mapDb cfg e.db) : Option Int).getD 0) ex e).1,
       (replayEntry cfg ((if e.db = -1 then none else some (mapDb cfg e.db) : Option Int).getD 0) ex e).2.1,
       (replayEntry cfg ((if e.db = -1 then none else some (mapDb cfg e.db) : Option Int).getD 0) ex e).2.2) := by
  unfold entryEffect; rw [if_neg hA]; simp only [hk, Bool.false_eq_true, if_false]

theorem step_char (cfg : RCfg) (htick : cfg.tick = 0)
    (hdb : ∀ n : Nat, cfg.filterDb (n : Int) = false → 0 ≤ mapDb cfg (n : Int))
    (e : Entry) (hok : EntryOk e) (ex : Exists) (w : Worker) (j : Nat) (M : MState) (hc : w.cur = M.cur j) :
    (workerStep cfg w ex e).2 = (entryEffect cfg ex e).2.2 ∧
    (workerStep cfg w ex e).1.cur = (entryEffect cfg ex e).1.getD w.cur ∧
    ∃ sel, stepReqs cfg w ex e = sel ++ (entryEffect cfg ex e).2.1 ∧
      applyReqs (M.conn j) sel = some { cur := (entryEffect cfg ex e).1.getD (M.cur j), dbs := M.dbs } := by
  unfold stepReqs
  by_cases hA : e.db ≠ -1 ∧ cfg.filterDb e.db = true
  · rw [workerStep_A cfg w ex e hA, entryEffect_A cfg ex e hA]
    exact ⟨rfl, rfl, [], by simp, rfl⟩
  · rcases hok with ⟨hm1, hrt⟩ | ⟨n, hn⟩
    · -- a function library: no DB switch
      have hsel : afterSelect cfg w e = w := by simp [afterSelect, hm1]
      by_cases hk : cfg.filterKey e.key = true
      · rw [workerStep_B cfg w ex e hA hk, entryEffect_B cfg ex e hA hk, hsel]
        simp only [hm1, if_true, Option.getD_none, List.drop_length]
        exact ⟨trivial, trivial, [], by simp, rfl⟩
      · rw [workerStep_C cfg htick w ex e hA hk, entryEffect_C cfg ex e hA hk, hsel]
        simp only [hm1, if_true, Option.getD_none, List.drop_left,
          replayEntry_function_indep cfg w.cur 0 ex e hrt]
        exact ⟨trivial, trivial, [], by simp, rfl⟩
    · have hne : ¬ (e.db = -1) := by rw [hn]; omega
      have hfd : cfg.filterDb (n : Int) = false := by
        cases h : cfg.filterDb (n : Int) with
        | false => rfl
        | true => exact absurd ⟨hne, by rw [hn]; exact h⟩ hA
      obtain ⟨log, h1, h2, h3⟩ := afterSelect_apply cfg w e (M.conn j) n hn hc (hdb n hfd)
      rw [← hn] at h2 h3
      by_cases hk : cfg.filterKey e.key = true
      · rw [workerStep_B cfg w ex e hA hk, entryEffect_B cfg ex e hA hk]
        simp only [hne, if_false, Option.getD_some, h1, List.drop_left, h2]
        exact ⟨trivial, trivial, log, by simp, h3⟩
      · rw [workerStep_C cfg htick w ex e hA hk, entryEffect_C cfg ex e hA hk]
        simp only [hne, if_false, Option.getD_some, h1, List.append_assoc, List.drop_left, h2]
        exact ⟨trivial, trivial, log, rfl, h3⟩

/-- the effect of one entry on the keyspaces — no worker, no connection in it -/
def entryDbs (cfg : RCfg) (ex : Exists) (e : Entry) (dbs : Int → Keyspace) : Option (Int → Keyspace) :=
  match (entryEffect cfg ex e).1 with
  | some D => (applyReqs { cur := D, dbs := dbs } (entryEffect cfg ex e).2.1).map (·.dbs)
  | none => some dbs

theorem entryEffect_noSel (cfg : RCfg) (ex : Exists) (e : Entry) (hok : EntryOk e) :
    ∀ c ∈ (entryEffect cfg ex e).2.1, noSel c := by
  by_cases hA : e.db ≠ -1 ∧ cfg.filterDb e.db = true
  · rw [entryEffect_A cfg ex e hA]; intro c hc; cases hc
  · by_cases hk : cfg.filterKey e.key = true
    · rw [entryEffect_B cfg ex e hA hk]; intro c hc; cases hc
    · rw [entryEffect_C cfg ex e hA hk]; exact replayEntry_noSel cfg _ ex e

theorem entryEffect_none_noop (cfg : RCfg) (ex : Exists) (e : Entry) (hok : EntryOk e)
    (hnone : (entryEffect cfg ex e).1 = none) (t : TState) :
    applyReqs t (entryEffect cfg ex e).2.1 = some t := by
  by_cases hA : e.db ≠ -1 ∧ cfg.filterDb e.db = true
  · rw [entryEffect_A cfg ex e hA]; rfl
  · by_cases hk : cfg.filterKey e.key = true
    · rw [entryEffect_B cfg ex e hA hk]; rfl
    · rw [entryEffect_C cfg ex e hA hk] at hnone ⊢
      simp only at hnone ⊢
      rcases hok with ⟨hm1, hrt⟩ | ⟨n, hn⟩
      · obtain ⟨cs, hcs, hnn⟩ := replay_function cfg ((if e.db = -1 then none else some (mapDb cfg e.db) : Option Int).getD 0) ex e hrt
        rw [hcs]
        exact applyReqs_noop cs t hnn
      · have hne : ¬ (e.db = -1) := by rw [hn]; omega
        simp [hne] at hnone

/-- one entry, replayed by worker `w` on connection `j`: the keyspaces change by `entryDbs`,
    whatever `w` and `j` are; only connection `j`'s selected database moves, to the worker's -/
theorem step_M (cfg : RCfg) (htick : cfg.tick = 0)
    (hdb : ∀ n : Nat, cfg.filterDb (n : Int) = false → 0 ≤ mapDb cfg (n : Int))
    (e : Entry) (hok : EntryOk e) (ex : Exists) (w : Worker) (j : Nat) (M : MState) (hc : w.cur = M.cur j) :
    (applySched M ((stepReqs cfg w ex e).map (fun c => (j, c)))).map (·.dbs) = entryDbs cfg ex e M.dbs ∧
    ∀ M', applySched M ((stepReqs cfg w ex e).map (fun c => (j, c))) = some M' →
      M'.cur j = (workerStep cfg w ex e).1.cur ∧ ∀ i, i ≠ j → M'.cur i = M.cur i := by
  obtain ⟨_, hcur, sel, hreq, hsel⟩ := step_char cfg htick hdb e hok ex w j M hc
  have happ : applySched M ((stepReqs cfg w ex e).map (fun c => (j, c))) =
      (applyReqs { cur := (entryEffect cfg ex e).1.getD (M.cur j), dbs := M.dbs } (entryEffect cfg ex e).2.1).map
        (M.put j) := by
    rw [applySched_conn, hreq, applyReqs_append, hsel]
    rfl
  rw [happ]
  unfold entryDbs
  cases hs : (entryEffect cfg ex e).1 with
  | none =>
    rw [entryEffect_none_noop cfg ex e hok hs]
    simp only [Option.getD_none, Option.map_some, Option.some.injEq]
    refine ⟨rfl, ?_⟩
    intro M' hM'
    subst hM'
    rw [hcur, hs, Option.getD_none, hc]
    exact ⟨by simp [MState.put], fun i hi => by simp [MState.put, hi]⟩
  | some D =>
    simp only [Option.getD_some]
    cases hr : applyReqs { cur := D, dbs := M.dbs } (entryEffect cfg ex e).2.1 with
    | none => simp
    | some t =>
      simp only [Option.map_some, Option.some.injEq]
      refine ⟨rfl, ?_⟩
      intro M' hM'
      subst hM'
      have ht := applyReqs_cur _ _ _ (entryEffect_noSel cfg ex e hok) hr
      rw [hcur, hs, Option.getD_some]
      exact ⟨by simp [MState.put, ht], fun i hi => by simp [MState.put, hi]⟩

/-! ## the fan-out, whatever the number of workers -/

/-- the keyspaces after all entries in snapshot order — no worker in it -/
def entriesDbs (cfg : RCfg) : List Entry → Exists → (Int → Keyspace) → Option (Int → Keyspace)
  | [], _, dbs => some dbs
  | e :: es, ex, dbs =>
    match entryDbs cfg ex e dbs with
    | none => none
    | some dbs' =>
      if (entryEffect cfg ex e).2.2.2 then entriesDbs cfg es (entryEffect cfg ex e).2.2.1 dbs' else some dbs'

/-- success of the replay — no worker in it -/
def entriesOk (cfg : RCfg) : List Entry → Exists → Bool
  | [], _ => true
  | e :: es, ex => (entryEffect cfg ex e).2.2.2 && entriesOk cfg es (entryEffect cfg ex e).2.2.1

theorem workerOf_lt (cfg : RCfg) (n : Nat) (e : Entry) (idx : Nat) (hn : 0 < n) : workerOf cfg n e idx < n := by
  unfold workerOf; split <;> exact Nat.mod_lt _ hn

theorem fanOut_dbs (cfg : RCfg) (htick : cfg.tick = 0)
    (hdb : ∀ n : Nat, cfg.filterDb (n : Int) = false → 0 ≤ mapDb cfg (n : Int)) :
    ∀ (es : List Entry), (∀ e ∈ es, EntryOk e) → ∀ (idx : Nat) (ws : List Worker) (ex : Exists) (M : MState),
      0 < ws.length → (∀ j, j < ws.length → (ws.getD j {}).cur = M.cur j) →
      (applySched M (schedOf (fanOutTrace cfg es idx ws ex))).map (·.dbs) = entriesDbs cfg es ex M.dbs ∧
      (fanOut cfg es idx ws ex).2.2 = entriesOk cfg es ex := by
  intro es
  induction es with
  | nil => intro _ idx ws ex M _ _; exact ⟨rfl, rfl⟩
  | cons e es ih =>
    intro hok idx ws ex M hn hcur
    have hoke := hok e (List.mem_cons_self ..)
    have hlt := workerOf_lt cfg ws.length e idx hn
    simp only [fanOutTrace, fanOut, entriesDbs, entriesOk]
    generalize hi : workerOf cfg ws.length e idx = i at hlt ⊢
    have hc := hcur i hlt
    obtain ⟨hres, _, _⟩ := step_char cfg htick hdb e hoke ex (ws.getD i {}) i M hc
    obtain ⟨hdbs, hcurs⟩ := step_M cfg htick hdb e hoke ex (ws.getD i {}) i M hc
    unfold stepReqs at hdbs hcurs
    generalize hstep : workerStep cfg (ws.getD i {}) ex e = r at hres hdbs hcurs ⊢
    obtain ⟨w', ex', ok⟩ := r
    have hex : ex' = (entryEffect cfg ex e).2.2.1 := congrArg Prod.fst hres
    have hokf : ok = (entryEffect cfg ex e).2.2.2 := congrArg Prod.snd hres
    simp only [schedOf, List.flatMap_cons] at hdbs hcurs ⊢
    rw [applySched_append]
    cases hs : applySched M (List.map (fun c => (i, c)) (List.drop (ws.getD i {}).log.length w'.log)) with
    | none =>
      rw [hs] at hdbs
      simp only [Option.map_none] at hdbs
      rw [← hdbs]
      -- the replay failed on the target: nothing is claimed about the model's flag beyond the fold
      refine ⟨by simp, ?_⟩
      rw [← hokf, ← hex]
      cases ok with
      | true =>
        simp only [if_true, Bool.true_and]
        have hlen : (ws.set i w').length = ws.length := by simp
        exact (ih (fun x hx => hok x (List.mem_cons_of_mem _ hx)) i (ws.set i w') ex' { cur := fun j => ((ws.set i w').getD j {}).cur }
          (by rw [hlen]; exact hn) (fun j _ => rfl)).2
      | false => simp
    | some M1 =>
      rw [hs] at hdbs
      simp only [Option.map_some] at hdbs
      rw [← hdbs]
      obtain ⟨hc1, hc2⟩ := hcurs M1 hs
      simp only [Option.bind_some]
      rw [← hokf, ← hex]
      cases ok with
      | true =>
        simp only [if_true, Bool.true_and]
        have hlen : (ws.set i w').length = ws.length := by simp
        refine ih (fun x hx => hok x (List.mem_cons_of_mem _ hx)) i (ws.set i w') ex' M1 (by rw [hlen]; exact hn) ?_
        intro j hj
        rw [hlen] at hj
        by_cases hij : i = j
        · subst hij; rw [getD_set_eq ws i w' hlt, hc1]
        · rw [getD_set_ne ws i j w' hij, hc2 j (fun h => hij h.symm)]; exact hcur j hj
      | false =>
        simp [applySched]

/-! ## the entries of a dataset -/

theorem otOf_ne_stream (o : ObjE) : otOf o ≠ .stream := by
  unfold otOf; cases o.kind <;> decide

theorem trace_ok {db : Nat} {items : List Item} {es : List Entry} (htr : Trace db items es) :
    (∀ i ∈ items, i.carried) → ∀ e ∈ es, EntryOk e := by
  induction htr with
  | nil db => intro _ e he; cases he
  | skip _ _ ih => intro hcar; exact ih (fun x hx => hcar x (List.mem_cons_of_mem _ hx))
  | @aux db k v items es e hdb hrt _ ih =>
    intro hcar x hx
    rcases List.mem_cons.mp hx with rfl | hx
    · exact Or.inr ⟨db, hdb⟩
    · exact ih (fun x hx => hcar x (List.mem_cons_of_mem _ hx)) x hx
  | @function db code items es e hdb hrt _ ih =>
    intro hcar x hx
    rcases List.mem_cons.mp hx with rfl | hx
    · exact Or.inl ⟨hdb, hrt⟩
    · exact ih (fun x hx => hcar x (List.mem_cons_of_mem _ hx)) x hx
  | @key db k items ces es hke _ ih =>
    intro hcar x hx
    rcases List.mem_append.mp hx with hx | hx
    · obtain ⟨hk, _, _⟩ := hcar (.key k) (List.mem_cons_self ..)
      rcases hke with ⟨e, rfl, he, hobj⟩ | ⟨f, its, e0, tl, _, hces, hc, _⟩
      · simp only [List.mem_singleton] at hx; subst hx
        exact Or.inr ⟨db, he.2.1⟩
      · have := hc x hx
        exact Or.inr ⟨db, this.1.2.1⟩
    · exact ih (fun x hx => hcar x (List.mem_cons_of_mem _ hx)) x hx

/-! ## schedules and the per-worker logs -/

theorem schedOf_proj (tr : List (Nat × List Cmd)) (j : Nat) :
    ((schedOf tr).filter (fun p => p.1 == j)).map (·.2) = (tr.filter (fun p => p.1 == j)).flatMap (·.2) := by
  induction tr with
  | nil => rfl
  | cons p tr ih =>
    simp only [schedOf, List.flatMap_cons, List.filter_append, List.map_append] at ih ⊢
    rw [ih]
    by_cases hp : p.1 = j
    · subst hp
      have h1 : (List.filter (fun q : Nat × Cmd => q.1 == p.1) (p.2.map (fun c => (p.1, c)))) = p.2.map (fun c => (p.1, c)) := by
        rw [List.filter_eq_self]; intro a ha; obtain ⟨c, _, rfl⟩ := List.mem_map.mp ha; simp
      rw [h1]
      simp [Function.comp_def]
    · have h1 : (List.filter (fun q : Nat × Cmd => q.1 == j) (p.2.map (fun c => (p.1, c)))) = [] := by
        rw [List.filter_eq_nil_iff]; intro a ha; obtain ⟨c, _, rfl⟩ := List.mem_map.mp ha; simp [hp]
      rw [h1]
      simp [hp]

theorem fanOut_length (cfg : RCfg) (es : List Entry) : ∀ (idx : Nat) (ws : List Worker) (ex : Exists),
    (fanOut cfg es idx ws ex).1.length = ws.length := by
  induction es with
  | nil => intro idx ws ex; rfl
  | cons e es ih =>
    intro idx ws ex
    simp only [fanOut]
    split
    · rw [ih]; simp
    · simp

theorem trace_tag_lt (cfg : RCfg) (es : List Entry) : ∀ (idx : Nat) (ws : List Worker) (ex : Exists),
    0 < ws.length → ∀ p ∈ fanOutTrace cfg es idx ws ex, p.1 < ws.length := by
  induction es with
  | nil => intro idx ws ex _ p hp; cases hp
  | cons e es ih =>
    intro idx ws ex hn p hp
    simp only [fanOutTrace] at hp
    rcases List.mem_cons.mp hp with rfl | hp
    · exact workerOf_lt _ _ _ _ hn
    · split at hp
      · have := ih _ _ _ (by simp; exact hn) p hp
        simpa using this
      · cases hp

theorem schedOf_single (tr : List (Nat × List Cmd)) (h : ∀ p ∈ tr, p.1 = 0) :
    schedOf tr = ((tr.filter (fun p => p.1 == 0)).flatMap (·.2)).map (fun c => (0, c)) := by
  induction tr with
  | nil => rfl
  | cons p tr ih =>
    have hp := h p (List.mem_cons_self ..)
    simp only [schedOf, List.flatMap_cons] at ih ⊢
    rw [ih (fun x hx => h x (List.mem_cons_of_mem _ hx))]
    simp [hp]

theorem getD_map_log (l : List Worker) (j : Nat) : (l.map (·.log)).getD j [] = (l.getD j {}).log := by
  simp only [List.getD, List.getElem?_map]
  cases l[j]? <;> rfl

theorem getD_replicate_cur (n j : Nat) : ((List.replicate n ({} : Worker)).getD j {}).cur = 0 := by
  simp only [List.getD, List.getElem?_replicate]
  split <;> rfl

/-- `fanout_parallel` with the hypotheses spelled out (Props/C03.lean states it) -/
theorem fanout_parallel_core (d : DCfg) (cfg : RCfg) (f : FileE)
    (hwf : f.wf) (hfoot : f.footer ≠ .bad) (hcar : ∀ i ∈ f.items, i.carried)
    (htick : cfg.tick = 0) (hrht : cfg.replaceHashTag = false)
    (hload : ∀ p ∈ f.keys, cfg.enableRestore = true → typeLoadable cfg.x.tgtMajor p.2.obj.rtype = true)
    (hdb : ∀ n : Nat, cfg.filterDb (n : Int) = false → 0 ≤ mapDb cfg (n : Int))
    (hdistinct : ((f.keys.filter (replayed cfg)).map (fun p => (mapDb cfg (p.1 : Int), p.2.key.val))).Nodup)
    (n : Nat) (hn : 1 ≤ n) (hpar : cfg.parallel = n) :
    ∃ logs sched M, sendRdb d cfg [] (rdbFile f) = (logs, true) ∧ logs.length = n ∧
      (∀ j, j < n → (sched.filter (fun p => p.1 == j)).map (·.2) = logs.getD j []) ∧
      applySched {} sched = some M ∧
      (∀ D, Pointwise (Holds cfg) (expectedKeys cfg D f.keys) (M.dbs D)) ∧
      ∃ es, Trace 0 f.items es ∧ sched = schedOf (fanOutTrace cfg es 0 (List.replicate n {}) []) := by
  obtain ⟨es, hparse, htr⟩ := parseRdb_file d f hwf hcar hfoot
  obtain ⟨w', ex', T', log, hrun, hlog, happ, hfin⟩ := replay_trace cfg htick hrht hdb htr hwf.2.2 hcar hload
    {} [] {} rfl (exSub_nil _) (fun _ _ _ => rfl) hdistinct
  have hok := trace_ok htr hcar
  -- one worker, seen as connection 0
  have h1 := fanOut_dbs cfg htick hdb es hok 0 [{}] [] {} (by simp) (fun j hj => by
    have : j = 0 := by simpa using hj
    subst this; rfl)
  have htags : ∀ p ∈ fanOutTrace cfg es 0 [{}] [], p.1 = 0 := by
    intro p hp
    have := trace_tag_lt cfg es 0 [{}] [] (by simp) p hp
    simpa using this
  have hlogs1 := fanOut_logs cfg es 0 [{}] [] (by simp) 0 (by simp)
  rw [fanOut_one, hrun] at hlogs1
  simp only [List.getD_cons_zero, hlog] at hlogs1
  have hl : ((fanOutTrace cfg es 0 [{}] []).filter (fun p => p.1 == 0)).flatMap (·.2) = log := by
    simpa using hlogs1.symm
  rw [schedOf_single _ htags, hl, applySched_conn] at h1
  have hconn : ({} : MState).conn 0 = ({} : TState) := rfl
  rw [hconn, happ, fanOut_one, hrun] at h1
  simp only [Option.map_some] at h1
  obtain ⟨h1d, h1ok⟩ := h1
  -- `n` workers
  have hlenN : (List.replicate n ({} : Worker)).length = n := by simp
  have hN := fanOut_dbs cfg htick hdb es hok 0 (List.replicate n {}) [] {} (by rw [hlenN]; omega)
    (fun j _ => getD_replicate_cur n j)
  obtain ⟨hNd, hNok⟩ := hN
  rw [← h1d] at hNd
  rw [← h1ok] at hNok
  cases hs : applySched {} (schedOf (fanOutTrace cfg es 0 (List.replicate n {}) [])) with
  | none => rw [hs] at hNd; simp at hNd
  | some M =>
    rw [hs] at hNd
    simp only [Option.map_some, Option.some.injEq] at hNd
    refine ⟨((fanOut cfg es 0 (List.replicate n {}) []).1).map (·.log),
      schedOf (fanOutTrace cfg es 0 (List.replicate n {}) []), M, ?_, ?_, ?_, hs, ?_, ⟨es, htr, rfl⟩⟩
    · unfold sendRdb
      have hmax : max cfg.parallel 1 = n := by rw [hpar]; omega
      simp only [hparse, hmax]
      generalize hr : fanOut cfg es 0 (List.replicate n {}) [] = r at hNok ⊢
      obtain ⟨ws, ex2, ok⟩ := r
      simp only at hNok ⊢
      rw [hNok]; rfl
    · rw [List.length_map, fanOut_length, hlenN]
    · intro j hj
      rw [schedOf_proj, getD_map_log, fanOut_logs cfg es 0 (List.replicate n {}) [] (by rw [hlenN]; omega) j
        (by rw [hlenN]; exact hj)]
      have : ((List.replicate n ({} : Worker)).getD j {}).log = [] := by
        simp only [List.getD, List.getElem?_replicate]
        split <;> rfl
      rw [this, List.nil_append]
    · intro D
      obtain ⟨l, hl', hf⟩ := hfin D
      have hT : T'.dbs D = l := by rw [hl']; rfl
      have hM : M.dbs D = T'.dbs D := by
        have := congrFun hNd D
        simpa [MState.put] using this
      rw [hM, hT]; exact hf

end GunYu.Rdb
