/-
  Helper lemmas for C03 `full_sync`: the loader over a whole item list
  (fuel monotonicity of `Next`, items stepped over inside one `Next`, AUX and
  function items, segments of entries), the single-worker replay and the
  multi-database oracle.
-/
import GunYu.Proofs.Rdb.Chunk
import GunYu.Proofs.Rdb.Frame
import GunYu.Proofs.Rdb.FanOut
import GunYu.Proofs.Rdb.Sem
import GunYu.Proofs.Rdb.Decimal
import GunYu.Model.Rdb.Dataset
import GunYu.Proofs.Rdb.NextOther
namespace GunYu.Rdb
open GunYu GunYu.RedisSem

theorem nextLoop_mono (cfg : DCfg) : ∀ (F F' : Nat) (ls : LState) (e : Entry) (bs : Bytes)
    (r : Option Entry × LState × Bytes),
    nextLoop cfg F ls e bs = some r → F ≤ F' → nextLoop cfg F' ls e bs = some r := by
  intro F
  induction F with
  | zero => intro F' ls e bs r h; simp [nextLoop] at h
  | succ F ih =>
    intro F' ls e bs r h hle
    obtain ⟨G, rfl⟩ : ∃ G, F' = G + 1 := ⟨F' - 1, by omega⟩
    have hFG : F ≤ G := by omega
    revert h
    rw [nextLoop.eq_def, nextLoop.eq_def]; dsimp only
    by_cases h0 : ls.total - ls.read ≠ 0
    · rw [if_pos h0, if_pos h0]; exact id
    · rw [if_neg h0, if_neg h0]
      cases bs with
      | nil => exact id
      | cons t r =>
        dsimp only
        have IH := fun ls e bs r h => ih G ls e bs r h hFG
        by_cases h1 : t = 0xFA
        · rw [if_pos h1, if_pos h1]; exact id
        rw [if_neg h1, if_neg h1]
        by_cases h2 : t = 0xFB
        · rw [if_pos h2, if_pos h2]
          generalize skipLength r = x
          cases x with
          | none => exact id
          | some r1 =>
            dsimp only
            generalize skipLength r1 = y
            cases y with
            | none => exact id
            | some r2 => exact IH _ _ _ _
        rw [if_neg h2, if_neg h2]
        by_cases h3 : t = 0xFC
        · rw [if_pos h3, if_pos h3]
          generalize readN 8 r = x
          cases x with
          | none => exact id
          | some p => exact IH _ _ _ _
        rw [if_neg h3, if_neg h3]
        by_cases h4 : t = 0xFD
        · rw [if_pos h4, if_pos h4]
          generalize readN 4 r = x
          cases x with
          | none => exact id
          | some p => exact IH _ _ _ _
        rw [if_neg h4, if_neg h4]
        by_cases h5 : t = 0xFE
        · rw [if_pos h5, if_pos h5]
          generalize readLength r = x
          cases x with
          | none => exact id
          | some p => exact IH _ _ _ _
        rw [if_neg h5, if_neg h5]
        by_cases h6 : t = 0xF4
        · rw [if_pos h6, if_pos h6]
          generalize skipMany skipLength64 3 r = x
          cases x with
          | none => exact id
          | some p => exact IH _ _ _ _
        rw [if_neg h6, if_neg h6]
        by_cases h7 : t = 0xFF
        · rw [if_pos h7, if_pos h7]; exact id
        rw [if_neg h7, if_neg h7]
        by_cases h8 : t = 0xF7
        · rw [if_pos h8, if_pos h8]
          generalize skipLength64 r = x
          cases x with
          | none => exact id
          | some r1 =>
            dsimp only
            generalize skipModuleValue (r1.length + 1) r1 = y
            cases y with
            | none => exact id
            | some r2 =>
              dsimp only
              by_cases hf : cfg.failModAux = true
              · rw [if_pos hf, if_pos hf]; exact id
              · rw [if_neg hf, if_neg hf]; exact IH _ _ _ _
        rw [if_neg h8, if_neg h8]
        by_cases h9 : t = 0xF8
        · rw [if_pos h9, if_pos h9]
          generalize readLength r = x
          cases x with
          | none => exact id
          | some p => exact IH _ _ _ _
        rw [if_neg h9, if_neg h9]
        by_cases h10 : t = 0xF9
        · rw [if_pos h10, if_pos h10]
          cases r with
          | nil => exact id
          | cons f r1 => exact IH _ _ _ _
        rw [if_neg h10, if_neg h10]
        exact id

theorem skipLength_encLen' (f : LenForm) (n : Nat) (rest : Bytes) (h : f.fits n) :
    skipLength (encLen f n ++ rest) = some rest := by
  simp [skipLength, readLength, readEncodedLength_encLen f n rest h]

theorem skipLength64_encLen (f : LenForm) (n : Nat) (rest : Bytes) (h : f.fits n) :
    skipLength64 (encLen f n ++ rest) = some rest := by
  simp [skipLength64, readLength64_encLen f n rest h]

def Item.isSkip : Item → Bool
  | .selectDb .. | .resizeDb .. | .slotInfo .. => true
  | _ => false

def lsAfter (ls : LState) : Item → LState
  | .selectDb _ n => { ls with db := n }
  | _ => ls

theorem nextLoop_skip (cfg : DCfg) (F : Nat) (ls : LState) (e : Entry) (i : Item) (X : Bytes)
    (hls : ls.total - ls.read = 0) (hwf : i.wf) (hs : i.isSkip = true) :
    nextLoop cfg (F + 1) ls e (i.enc ++ X) = nextLoop cfg F (lsAfter ls i) e X := by
  have hn : ¬ (ls.total - ls.read ≠ 0) := by omega
  cases i with
  | selectDb f n =>
    obtain ⟨hf, h32⟩ := hwf
    simp only [Item.enc, List.cons_append, nextLoop, hn, if_false, lsAfter]
    simp only [show ((0xFE : UInt8) = 0xFA) = False by decide, show ((0xFE : UInt8) = 0xFB) = False by decide,
        show ((0xFE : UInt8) = 0xFC) = False by decide, show ((0xFE : UInt8) = 0xFD) = False by decide,
        if_false, if_true]
    rw [readLength_encLen f n X hf h32]
  | resizeDb f1 a f2 b =>
    obtain ⟨h1, h2⟩ := hwf
    simp only [Item.enc, List.cons_append, nextLoop, hn, if_false, lsAfter, List.append_assoc]
    simp only [show ((0xFB : UInt8) = 0xFA) = False by decide, if_false, if_true]
    rw [skipLength_encLen' f1 a _ h1]
    simp only
    rw [skipLength_encLen' f2 b _ h2]
  | slotInfo a b c =>
    obtain ⟨ha, hb, hc⟩ := hwf
    simp only [Item.enc, List.cons_append, nextLoop, hn, if_false, lsAfter, List.append_assoc]
    simp only [show ((0xF4 : UInt8) = 0xFA) = False by decide, show ((0xF4 : UInt8) = 0xFB) = False by decide,
        show ((0xF4 : UInt8) = 0xFC) = False by decide, show ((0xF4 : UInt8) = 0xFD) = False by decide,
        show ((0xF4 : UInt8) = 0xFE) = False by decide,
        if_false, if_true]
    simp only [skipMany, skipLength64_encLen _ _ _ (minForm_fits a ha), skipLength64_encLen _ _ _ (minForm_fits b hb),
      skipLength64_encLen _ _ _ (minForm_fits c hc)]
  | _ => simp [Item.isSkip] at hs

theorem item_enc_pos (i : Item) (hs : i.isSkip = true) : 1 ≤ i.enc.length := by
  cases i <;> simp [Item.isSkip, Item.enc] at hs ⊢

theorem next_skip (cfg : DCfg) (ls : LState) (i : Item) (X : Bytes) (r : Option Entry × LState × Bytes)
    (hls : ls.total - ls.read = 0) (hwf : i.wf) (hs : i.isSkip = true)
    (h : next cfg (lsAfter ls i) X = some r) : next cfg ls (i.enc ++ X) = some r := by
  unfold next at h ⊢
  rw [nextLoop_skip cfg _ ls {} i X hls hwf hs]
  apply nextLoop_mono cfg _ _ _ _ _ _ h
  have := item_enc_pos i hs
  simp only [List.length_append]; omega

/-- the parser object of an AUX field -/
def auxObj (k v : SE) : PObj := { rtype := 0xFA, key := k.val, val := v.val, buf := v.enc }

theorem next_aux (cfg : DCfg) (ls : LState) (k v : SE) (X : Bytes)
    (hls : ls.total = 0 ∧ ls.read = 0) (hk : k.wf) (hv : v.wf) :
    next cfg ls ((Item.aux k v).enc ++ X) =
      some (some { db := (ls.db : Int), key := k.val, type := 0xFA, obj := auxObj k v }, ls, X) := by
  obtain ⟨h1, h2⟩ := hls
  have hn : ¬ (ls.total - ls.read ≠ 0) := by omega
  have hrb : readBuffer cfg ls 0xFA (k.enc ++ (v.enc ++ X)) = some (auxObj k v, ls, X) := by
    unfold readBuffer
    have hot : otypeOf 0xFA = some .aux := by decide
    simp only [hot, h1, h2, Nat.sub_self, ne_eq, not_true_eq_false, if_false,
      show (OType.aux = OType.function) = False by decide, readString_enc k _ hk,
      show ((0xFA : UInt8) = 4) = False by decide]
    have hsv : skipValue 0xFA (v.enc ++ X) = some X := by simp [skipValue, skipString_enc v X hv]
    cases ls
    simp_all [consumed_append, readString_enc v X hv, auxObj]
  unfold next
  simp only [Item.enc, List.cons_append, List.append_assoc, nextLoop, hn, if_false, if_true, hrb]
  rfl

def fnObj (code : SE) : PObj := { rtype := 0xF5, key := [], val := [], buf := code.enc }

theorem next_function (cfg : DCfg) (ls : LState) (code : SE) (X : Bytes)
    (hls : ls.total = 0 ∧ ls.read = 0) (hc : code.wf) :
    next cfg ls ((Item.function code).enc ++ X) =
      some (some { key := [], type := 0xF5, obj := fnObj code }, ls, X) := by
  obtain ⟨h1, h2⟩ := hls
  have hn : ¬ (ls.total - ls.read ≠ 0) := by omega
  have hrb : readBuffer cfg ls 0xF5 (code.enc ++ X) = some (fnObj code, ls, X) := by
    unfold readBuffer
    have hot : otypeOf 0xF5 = some .function := by decide
    simp only [hot, h1, h2, Nat.sub_self, if_true,
      show ((0xF5 : UInt8) = 4) = False by decide, if_false]
    have hsv : skipValue 0xF5 (code.enc ++ X) = some X := by simp [skipValue, skipString_enc code X hc]
    cases ls
    simp_all [consumed_append, fnObj]
  unfold next
  simp only [Item.enc, List.cons_append, nextLoop, hn, if_false, hrb]
  simp only [show ((0xF5 : UInt8) = 0xFA) = False by decide, show ((0xF5 : UInt8) = 0xFB) = False by decide,
        show ((0xF5 : UInt8) = 0xFC) = False by decide, show ((0xF5 : UInt8) = 0xFD) = False by decide,
        show ((0xF5 : UInt8) = 0xFE) = False by decide, show ((0xF5 : UInt8) = 0xF4) = False by decide,
        show ((0xF5 : UInt8) = 0xFF) = False by decide, show ((0xF5 : UInt8) = 0xF7) = False by decide,
        show ((0xF5 : UInt8) = 0xF8) = False by decide, show ((0xF5 : UInt8) = 0xF9) = False by decide,
        if_false, if_true]

/-! ## segments of entries -/

/-- `es` are the entries successive `Next` calls return from `(ls, bs)`; they end at `(ls', bs')` -/
inductive Seg (cfg : DCfg) : LState → Bytes → List Entry → LState → Bytes → Prop
  | nil (ls : LState) (bs : Bytes) : Seg cfg ls bs [] ls bs
  | cons {ls : LState} {bs : Bytes} {e : Entry} {ls1 : LState} {bs1 : Bytes} {es : List Entry}
      {ls' : LState} {bs' : Bytes} :
      next cfg ls bs = some (some e, ls1, bs1) → Seg cfg ls1 bs1 es ls' bs' → Seg cfg ls bs (e :: es) ls' bs'

theorem parseLoop_seg (cfg : DCfg) (whole : Bytes) {ls : LState} {bs : Bytes} {es : List Entry}
    {ls' : LState} {bs' : Bytes} (h : Seg cfg ls bs es ls' bs') (F : Nat) :
    parseLoop cfg whole (es.length + F) ls bs =
      (es ++ (parseLoop cfg whole F ls' bs').1, (parseLoop cfg whole F ls' bs').2) := by
  induction h with
  | nil ls bs => simp
  | @cons ls bs e ls1 bs1 es ls' bs' hn _ ih =>
    rw [show (e :: es).length + F = (es.length + F) + 1 by simp; omega]
    simp only [parseLoop, hn, ih, List.cons_append]

theorem nextValue_seg (cfg : DCfg) : ∀ (fuel : Nat) (ls : LState) (bs : Bytes) (es : List Entry)
    (ls' : LState) (rest : Bytes), nextValue cfg fuel ls bs = some (es, ls', rest) →
    Seg cfg ls bs es ls' rest ∧ es.length ≤ fuel := by
  intro fuel
  induction fuel with
  | zero => intro ls bs es ls' rest h; simp [nextValue] at h
  | succ fuel ih =>
    intro ls bs es ls' rest h
    simp only [nextValue] at h
    cases hn : next cfg ls bs with
    | none => simp [hn] at h
    | some r =>
      obtain ⟨oe, ls1, r1⟩ := r
      cases oe with
      | none => simp [hn] at h
      | some e =>
        simp only [hn] at h
        by_cases hz : ls1.total - ls1.read = 0
        · simp only [hz, if_true, Option.some.injEq, Prod.mk.injEq] at h
          obtain ⟨rfl, rfl, rfl⟩ := h
          exact ⟨Seg.cons hn (Seg.nil _ _), by simp⟩
        · simp only [hz, if_false] at h
          cases hv : nextValue cfg fuel ls1 r1 with
          | none => simp [hv] at h
          | some q =>
            obtain ⟨es1, l, r⟩ := q
            simp only [hv, Option.some.injEq, Prod.mk.injEq] at h
            obtain ⟨rfl, rfl, rfl⟩ := h
            obtain ⟨hs, hl⟩ := ih _ _ _ _ _ hv
            exact ⟨Seg.cons hn hs, by simp; omega⟩

/-! ## the loader over a whole item list -/

theorem encLen_pos (f : LenForm) (n : Nat) : 1 ≤ (encLen f n).length := by
  cases f <;> simp [encLen]

theorem se_enc_pos (s : SE) : 1 ≤ s.enc.length := by
  cases s <;> simp [SE.enc]
  have := encLen_pos ‹_› (List.length ‹_›); omega

theorem encPairs_len (ps : List (SE × SE)) : ps.length ≤ (encPairs ps).length := by
  induction ps with
  | nil => simp [encPairs]
  | cons p ps ih =>
    have := se_enc_pos p.1
    simp only [encPairs, List.flatMap_cons, List.length_append, List.length_cons] at ih ⊢
    omega

theorem rtype4_hashTable (o : ObjE) (hk : o.kind ≠ .other) (h4 : o.rtype = 4) :
    ∃ f items, o = .hashTable f items := by
  cases o <;> first
    | exact ⟨_, _, rfl⟩
    | exact absurd rfl hk
    | (simp [ObjE.rtype] at h4)

/-- what every entry of key item `k`, read in source database `db`, carries -/
def EntryOf (db : Nat) (k : KeyE) (e : Entry) : Prop :=
  e.key = k.key.val ∧ e.db = (db : Int) ∧ e.expireAt = k.exp.at

/-- the entries the loader returns for key item `k`: ONE entry with the parser object
    of the whole value, or — a hash table above the chunk threshold — several chunks -/
def KeyEntries (db : Nat) (k : KeyE) (ces : List Entry) : Prop :=
  (∃ e, ces = [e] ∧ EntryOf db k e ∧ e.obj = pobjOf k.key.val k.obj) ∨
  (∃ f items e0 tl, k.obj = .hashTable f items ∧ ces = e0 :: tl ∧
    (∀ e ∈ ces, EntryOf db k e ∧ e.obj.key = k.key.val ∧ e.obj.rtype = 4 ∧ e.obj.isSplited = true ∧
      (hashPairs e.obj).isSome) ∧
    e0.obj.firstBin = true ∧ (∀ e ∈ tl, e.obj.firstBin = false) ∧
    ces.flatMap (fun e => (hashPairs e.obj).getD []) = pairVals items)

/-- the entries of an item list read from source database `db` -/
inductive Trace : Nat → List Item → List Entry → Prop
  | nil (db : Nat) : Trace db [] []
  | skip {db : Nat} {i : Item} {items : List Item} {es : List Entry} :
      i.isSkip = true → Trace (dbAfter db i) items es → Trace db (i :: items) es
  | aux {db : Nat} {k v : SE} {items : List Item} {es : List Entry} {e : Entry} :
      e.db = (db : Int) → e.obj.rtype = 0xFA → Trace db items es → Trace db (.aux k v :: items) (e :: es)
  | function {db : Nat} {code : SE} {items : List Item} {es : List Entry} {e : Entry} :
      e.db = -1 → e.obj.rtype = 0xF5 → Trace db items es → Trace db (.function code :: items) (e :: es)
  | key {db : Nat} {k : KeyE} {items : List Item} {ces es : List Entry} :
      KeyEntries db k ces → Trace db items es → Trace db (.key k :: items) (ces ++ es)

theorem lsAfter_db (ls : LState) (i : Item) : (lsAfter ls i).db = dbAfter ls.db i := by
  cases i <;> rfl

theorem lsAfter_counts (ls : LState) (i : Item) :
    (lsAfter ls i).total = ls.total ∧ (lsAfter ls i).read = ls.read := by
  cases i <;> exact ⟨rfl, rfl⟩

theorem parseLoop_same (cfg : DCfg) (whole : Bytes) (F : Nat) (ls ls' : LState) (bs bs' : Bytes)
    (h : next cfg ls bs = next cfg ls' bs') :
    parseLoop cfg whole F ls bs = parseLoop cfg whole F ls' bs' := by
  cases F with
  | zero => rfl
  | succ F => simp only [parseLoop, h]

theorem keyE_enc_len (k : KeyE) : 1 + k.key.enc.length + k.obj.ser.length ≤ k.enc.length := by
  simp only [KeyE.enc, List.length_append, List.length_cons, List.length_nil]; omega

/-- module aux items are stepped over by the loader under the `skip` policy: they leave
    no entry -/
def Item.isModAux : Item → Bool
  | .moduleAux .. => true
  | _ => false

def stripAux (items : List Item) : List Item := items.filter (fun i => !i.isModAux)

/-- what the loader needs of an item to read it: a module aux item needs the `skip`
    policy; a key item holds a non-empty value of a string / list / set / sorted-set /
    hash encoding, or a stream / module value (`ObjE.opaque`) -/
def Item.readable (cfg : DCfg) : Item → Prop
  | .moduleAux .. => cfg.failModAux = false
  | .key k => (k.obj.kind ≠ .other ∧ k.obj.nonempty) ∨ k.obj.opaque
  | _ => True

theorem stripAux_cons (i : Item) (items : List Item) (h : i.isModAux = false) :
    stripAux (i :: items) = i :: stripAux items := by
  simp [stripAux, List.filter_cons, h]

theorem next_modaux (cfg : DCfg) (ls : LState) (id : Nat) (ops : List ModOp) (X : Bytes) (r : Option Entry × LState × Bytes)
    (hls : ls.total - ls.read = 0) (hid : id < 2 ^ 64) (hw : ∀ o ∈ ops, o.wf) (hpol : cfg.failModAux = false)
    (h : next cfg ls X = some r) : next cfg ls ((Item.moduleAux id ops).enc ++ X) = some r := by
  unfold next at h ⊢
  rw [nextLoop_modaux cfg _ ls {} id ops X hls hid hw hpol]
  apply nextLoop_mono cfg _ _ _ _ _ _ h
  simp only [Item.enc, List.cons_append, List.length_cons, List.length_append]; omega

theorem parse_items (cfg : DCfg) (whole foot : Bytes) : ∀ (items : List Item),
    (∀ i ∈ items, i.wf) → (∀ i ∈ items, i.readable cfg) →
    ∀ (ls : LState) (F : Nat), ls.total = 0 ∧ ls.read = 0 → (items.flatMap Item.enc).length + 1 ≤ F →
      (next cfg ls (items.flatMap Item.enc ++ 0xFF :: foot)).isSome = true ∧
      ∃ es, parseLoop cfg whole F ls (items.flatMap Item.enc ++ 0xFF :: foot) =
              (es, footer whole foot && inputEnds foot) ∧ Trace ls.db (stripAux items) es := by
  intro items
  induction items with
  | nil =>
    intro _ _ ls F hls hF
    have hn : ¬ (ls.total - ls.read ≠ 0) := by omega
    have hnext : next cfg ls (0xFF :: foot) = some (none, ls, foot) := by
      unfold next
      simp only [nextLoop, hn, if_false]
      simp only [show ((0xFF : UInt8) = 0xFA) = False by decide, show ((0xFF : UInt8) = 0xFB) = False by decide,
        show ((0xFF : UInt8) = 0xFC) = False by decide, show ((0xFF : UInt8) = 0xFD) = False by decide,
        show ((0xFF : UInt8) = 0xFE) = False by decide, show ((0xFF : UInt8) = 0xF4) = False by decide,
        if_false, if_true]
    obtain ⟨F', rfl⟩ : ∃ F', F = F' + 1 := ⟨F - 1, by omega⟩
    simp only [List.flatMap_nil, List.nil_append, hnext, Option.isSome_some, parseLoop, true_and]
    exact ⟨[], rfl, Trace.nil _⟩
  | cons i items ih =>
    intro hwf hcar ls F hls hF
    have hwfi := hwf i (List.mem_cons_self ..)
    have hcari := hcar i (List.mem_cons_self ..)
    have ih' := ih (fun x hx => hwf x (List.mem_cons_of_mem _ hx)) (fun x hx => hcar x (List.mem_cons_of_mem _ hx))
    simp only [List.flatMap_cons, List.append_assoc, List.length_append] at hF ⊢
    generalize hX : items.flatMap Item.enc ++ 0xFF :: foot = X at ih' ⊢
    have hls0 : ls.total - ls.read = 0 := by omega
    by_cases hs : i.isSkip = true
    · -- SELECTDB / RESIZEDB / slot info: stepped over inside `Next`
      have hc := lsAfter_counts ls i
      obtain ⟨hsome, es, hpl, htr⟩ := ih' (lsAfter ls i) F (by rw [hc.1, hc.2]; exact hls) (by omega)
      obtain ⟨r, hr⟩ := Option.isSome_iff_exists.mp hsome
      have hnx := next_skip cfg ls i X r hls0 hwfi hs hr
      refine ⟨by rw [hnx]; rfl, es, ?_, ?_⟩
      · rw [parseLoop_same cfg whole F ls (lsAfter ls i) (i.enc ++ X) X (by rw [hnx, hr]), hpl]
      · rw [lsAfter_db] at htr
        rw [stripAux_cons i items (by cases i <;> first | rfl | simp [Item.isSkip] at hs)]
        exact Trace.skip hs htr
    · cases i with
      | selectDb f n => simp [Item.isSkip] at hs
      | resizeDb f1 a f2 b => simp [Item.isSkip] at hs
      | slotInfo a b c => simp [Item.isSkip] at hs
      | moduleAux id ops =>
        -- module aux data under the `skip` policy: stepped over inside `Next`
        have hpol : cfg.failModAux = false := hcari
        obtain ⟨hsome, es, hpl, htr⟩ := ih' ls F hls (by omega)
        obtain ⟨r, hr⟩ := Option.isSome_iff_exists.mp hsome
        have hnx := next_modaux cfg ls id ops X r hls0 hwfi.1 hwfi.2 hpol hr
        refine ⟨by rw [hnx]; rfl, es, ?_, ?_⟩
        · rw [parseLoop_same cfg whole F ls ls ((Item.moduleAux id ops).enc ++ X) X (by rw [hnx, hr]), hpl]
        · have : stripAux (Item.moduleAux id ops :: items) = stripAux items := by
            simp [stripAux, List.filter_cons, Item.isModAux]
          rw [this]; exact htr
      | aux k v =>
        have hnx := next_aux cfg ls k v X hls hwfi.1 hwfi.2
        have hpos : 1 ≤ (Item.aux k v).enc.length := by simp [Item.enc]
        obtain ⟨F', rfl⟩ : ∃ F', F = F' + 1 := ⟨F - 1, by omega⟩
        obtain ⟨_, es, hpl, htr⟩ := ih' ls F' hls (by omega)
        rw [stripAux_cons _ items rfl]
        refine ⟨by rw [hnx]; rfl, _ :: es, ?_,
          Trace.aux (e := { db := (ls.db : Int), key := k.val, type := 0xFA, obj := auxObj k v }) rfl rfl htr⟩
        simp only [parseLoop, hnx, hpl]
      | function code =>
        have hnx := next_function cfg ls code X hls hwfi
        have hpos : 1 ≤ (Item.function code).enc.length := by simp [Item.enc]
        obtain ⟨F', rfl⟩ : ∃ F', F = F' + 1 := ⟨F - 1, by omega⟩
        obtain ⟨_, es, hpl, htr⟩ := ih' ls F' hls (by omega)
        rw [stripAux_cons _ items rfl]
        refine ⟨by rw [hnx]; rfl, _ :: es, ?_,
          Trace.function (e := { key := [], type := 0xF5, obj := fnObj code }) rfl rfl htr⟩
        simp only [parseLoop, hnx, hpl]
      | key k =>
        rw [stripAux_cons _ items rfl]
        have hwfk : k.wf := hwfi
        have hlen := keyE_enc_len k
        simp only [Item.enc] at hF ⊢
        rcases (hcari : (k.obj.kind ≠ .other ∧ k.obj.nonempty) ∨ k.obj.opaque) with ⟨hk, hne⟩ | hop
        case inr =>
          -- a stream or a module value: one entry whose buffer is the serialization
          obtain ⟨e, ls', hnx, he1, he2, he3, _, he7, hdb, hz1, hz2⟩ := next_opaque cfg ls k X hls hwfk hop
          obtain ⟨F', rfl⟩ : ∃ F', F = F' + 1 := ⟨F - 1, by omega⟩
          obtain ⟨_, es, hpl, htr⟩ := ih' ls' F' ⟨hz1, hz2⟩ (by omega)
          refine ⟨by rw [hnx]; rfl, [e] ++ es, ?_, ?_⟩
          · simp only [parseLoop, hnx, hpl, List.singleton_append]
          · rw [hdb] at htr
            exact Trace.key (Or.inl ⟨e, rfl, ⟨he1, he2, he3⟩, he7⟩) htr
        by_cases h4 : k.obj.rtype = 4
        · obtain ⟨f, its, hobj⟩ := rtype4_hashTable k.obj hk h4
          have hne' : its ≠ [] := by
            intro h0
            rw [hobj, h0] at hne
            simp [ObjE.nonempty, ObjE.kind, ObjE.pairs] at hne
          obtain ⟨ces, ls', hnv, _, hdb, hall, ⟨e0, tl, hces, hfb0, hfbtl⟩, hsome, hflat, hz1, hz2, halt⟩ :=
            nextValue_hash cfg ls k f its X hobj hls hwfk hne'
          obtain ⟨hseg, hcl⟩ := nextValue_seg cfg _ _ _ _ _ _ hnv
          have hser : its.length + 1 ≤ k.obj.ser.length := by
            rw [hobj]
            have := encPairs_len its
            have := encLen_pos f its.length
            simp only [ObjE.ser, List.length_append, encPairs] at *
            omega
          obtain ⟨_, es, hpl, htr⟩ := ih' ls' (F - ces.length) ⟨hz1, hz2⟩ (by omega)
          have hps := parseLoop_seg cfg whole hseg (F - ces.length)
          rw [show ces.length + (F - ces.length) = F by omega, hpl] at hps
          have hnx : (next cfg ls (k.enc ++ X)).isSome = true := by
            rw [hces] at hseg
            cases hseg with
            | cons hn _ => rw [hn]; rfl
          refine ⟨hnx, ces ++ es, hps, ?_⟩
          rw [hdb] at htr
          refine Trace.key ?_ htr
          rcases halt with ⟨e, he1, he2⟩ | hsp
          · refine Or.inl ⟨e, he1, ?_, he2⟩
            have := hall e (by rw [he1]; simp)
            exact ⟨this.1, this.2.1, this.2.2.1⟩
          · refine Or.inr ⟨f, its, e0, tl, hobj, hces, ?_, hfb0, hfbtl, hflat⟩
            intro e he
            have := hall e he
            exact ⟨⟨this.1, this.2.1, this.2.2.1⟩, this.2.2.2.2.2.2.1, this.2.2.2.2.2.2.2, hsp e he, hsome e he⟩
        · obtain ⟨e, ls', hnx, he1, he2, he3, _, _, _, he7, hdb, hz1, hz2⟩ := next_plain cfg ls k X hls hwfk hk h4
          obtain ⟨F', rfl⟩ : ∃ F', F = F' + 1 := ⟨F - 1, by omega⟩
          obtain ⟨_, es, hpl, htr⟩ := ih' ls' F' ⟨hz1, hz2⟩ (by omega)
          refine ⟨by rw [hnx]; rfl, [e] ++ es, ?_, ?_⟩
          · simp only [parseLoop, hnx, hpl, List.singleton_append]
          · rw [hdb] at htr
            exact Trace.key (Or.inl ⟨e, rfl, ⟨he1, he2, he3⟩, he7⟩) htr

/-! ## the oracle: keyspace lemmas and the multi-database target -/

theorem del_absent (ks : Keyspace) (k : Bytes) (h : RedisSem.get ks k = none) : del ks k = ks := by
  have ha := any_false_of_get_none ks k h
  rw [List.any_eq_false] at ha
  unfold del
  rw [List.filter_eq_self]
  intro a ha'
  have := ha a ha'
  simp at this
  simp [this]

theorem get_append_ne (ks : Keyspace) (x : Bytes × Val × Nat) (k : Bytes) (h : x.1 ≠ k) :
    RedisSem.get (ks ++ [x]) k = RedisSem.get ks k := by
  unfold RedisSem.get
  rw [List.find?_append]
  cases hf : ks.find? (fun e => e.1 == k) with
  | some y => simp
  | none => simp [h]

theorem get_append_isSome (ks l : Keyspace) (k : Bytes) (h : (RedisSem.get ks k).isSome = true) :
    (RedisSem.get (ks ++ l) k).isSome = true := by
  unfold RedisSem.get at h ⊢
  rw [List.find?_append]
  cases hf : ks.find? (fun e => e.1 == k) with
  | some y => simp
  | none => simp [hf] at h

theorem lower_restore : lower b!"restore" = b!"restore" := by decide

theorem apply_restore (ks : Keyspace) (k t payload : Bytes) (opts : List Bytes) :
    applyXCmd ks (cmdB b!"restore" (k :: t :: payload :: opts)) = doRestore ks k t payload (opts.map Arg.b) := by
  simp [applyXCmd, applyCmd, cmdB, lower_restore, argBytes]

theorem restore_fresh (ks : Keyspace) (k payload : Bytes) (ttl : Nat) (opts : List Bytes) (h : RedisSem.get ks k = none) :
    applyXCmd ks (cmdB b!"restore" (k :: natToDec ttl :: payload :: opts)) =
      some (ks ++ [(k, .restored payload, ttl)]) := by
  rw [apply_restore]
  simp only [doRestore, decToNat_natToDec, h, Option.isSome_none, Bool.false_and, Bool.false_eq_true, if_false]
  rw [del_absent ks k h, put_new ks k _ _ h]

/-- requests that act on the selected database's keyspace -/
def keyCmd (c : Cmd) : Prop :=
  lower c.name ≠ b!"select" ∧ lower c.name ≠ b!"script" ∧ lower c.name ≠ b!"function"

theorem applyReq_key (t : TState) (c : Cmd) (h : keyCmd c) :
    applyReq t c = (applyXCmd (t.dbs t.cur) c).map (fun ks => t.setDb t.cur ks) := by
  obtain ⟨h1, h2, h3⟩ := h
  simp [applyReq, h1, h2, h3]

theorem setDb_setDb (t : TState) (d : Int) (a b : Keyspace) : (t.setDb d a).setDb d b = t.setDb d b := by
  simp only [TState.setDb, TState.mk.injEq, true_and]
  funext x
  by_cases hx : x = d <;> simp [hx]

theorem setDb_self (t : TState) : t.setDb t.cur (t.dbs t.cur) = t := by
  cases t with
  | mk cur dbs =>
    simp only [TState.setDb, TState.mk.injEq, true_and]
    funext x
    by_cases hx : x = cur <;> simp [hx]

theorem applyReqs_lift (cs : List Cmd) : ∀ (t : TState) (ks' : Keyspace), (∀ c ∈ cs, keyCmd c) →
    applyCmds (t.dbs t.cur) cs = some ks' → applyReqs t cs = some (t.setDb t.cur ks') := by
  induction cs with
  | nil =>
    intro t ks' _ h
    simp only [applyCmds, Option.some.injEq] at h
    subst h
    simp [applyReqs, setDb_self]
  | cons c cs ih =>
    intro t ks' hn h
    simp only [applyCmds] at h
    cases hx : applyXCmd (t.dbs t.cur) c with
    | none => simp [hx] at h
    | some ks1 =>
      simp only [hx] at h
      simp only [applyReqs, applyReq_key t c (hn c (List.mem_cons_self ..)), hx, Option.map_some]
      have := ih (t.setDb t.cur ks1) ks' (fun x hx' => hn x (List.mem_cons_of_mem _ hx'))
        (by simpa [TState.setDb] using h)
      rw [this]
      show some ((t.setDb t.cur ks1).setDb t.cur ks') = _
      rw [setDb_setDb]

theorem applyReqs_append (t : TState) (a b : List Cmd) :
    applyReqs t (a ++ b) = (applyReqs t a).bind (fun t' => applyReqs t' b) := by
  induction a generalizing t with
  | nil => simp [applyReqs]
  | cons c a ih =>
    simp only [List.cons_append, applyReqs]
    cases applyReq t c with
    | none => simp
    | some t' => simp [ih]

theorem lower_select : lower b!"select" = b!"select" := by decide

theorem applyReq_select (t : TState) (D : Int) (h : 0 ≤ D) :
    applyReq t (cmdB b!"select" [intToDec D]) = some { t with cur := D } := by
  have hn : ¬ D < 0 := by omega
  simp only [applyReq, cmdB, lower_select, if_true, List.map_cons, List.map_nil, intToDec, hn, if_false,
    decToNat_natToDec]
  have : Int.ofNat D.toNat = D := Int.toNat_of_nonneg h
  rw [this]

/-! ## one worker -/

/-- the replay loop of a single worker (what `fanOut` is for `parallel = 1`) -/
def runOne (cfg : RCfg) : List Entry → Worker → Exists → Worker × Exists × Bool
  | [], w, ex => (w, ex, true)
  | e :: es, w, ex =>
    let r := workerStep cfg w ex e
    if r.2.2 then runOne cfg es r.1 r.2.1 else r

theorem workerOf_one (cfg : RCfg) (e : Entry) (idx : Nat) : workerOf cfg 1 e idx = 0 := by
  unfold workerOf
  split <;> exact Nat.mod_one _

theorem fanOut_one (cfg : RCfg) (es : List Entry) : ∀ (idx : Nat) (w : Worker) (ex : Exists),
    fanOut cfg es idx [w] ex = ([(runOne cfg es w ex).1], (runOne cfg es w ex).2.1, (runOne cfg es w ex).2.2) := by
  induction es with
  | nil => intro idx w ex; rfl
  | cons e es ih =>
    intro idx w ex
    simp only [fanOut, List.length_singleton, workerOf_one, List.getD_cons_zero, List.set_cons_zero, runOne]
    cases hr : workerStep cfg w ex e with
    | mk w' r2 =>
      obtain ⟨ex', ok⟩ := r2
      cases ok with
      | true => simp [ih]
      | false => simp

theorem runOne_append (cfg : RCfg) (a b : List Entry) : ∀ (w : Worker) (ex : Exists) (w1 : Worker) (ex1 : Exists),
    runOne cfg a w ex = (w1, ex1, true) → runOne cfg (a ++ b) w ex = runOne cfg b w1 ex1 := by
  induction a with
  | nil =>
    intro w ex w1 ex1 h
    simp only [runOne, Prod.mk.injEq] at h
    obtain ⟨rfl, rfl, _⟩ := h
    rfl
  | cons e a ih =>
    intro w ex w1 ex1 h
    simp only [runOne, List.cons_append] at h ⊢
    cases hok : (workerStep cfg w ex e).2.2 with
    | true =>
      simp only [hok, if_true] at h ⊢
      exact ih _ _ _ _ h
    | false =>
      simp only [hok, Bool.false_eq_true, if_false] at h
      rw [h] at hok
      simp at hok

theorem cfg_tick0 (cfg : RCfg) (h : cfg.tick = 0) (n : Nat) :
    { cfg with now := cfg.now + cfg.tick * n } = cfg := by
  cases cfg
  simp_all

/-- the DB switch of `workerStep`, seen by the target -/
theorem afterSelect_apply (cfg : RCfg) (w : Worker) (e : Entry) (T : TState) (db : Nat)
    (hdb : e.db = (db : Int)) (hcur : w.cur = T.cur) (hpos : 0 ≤ mapDb cfg (db : Int)) :
    ∃ log, (afterSelect cfg w e).log = w.log ++ log ∧ (afterSelect cfg w e).cur = mapDb cfg (db : Int) ∧
      applyReqs T log = some { T with cur := mapDb cfg (db : Int) } := by
  have hne : ¬ ((db : Int) = -1) := by omega
  unfold afterSelect
  simp only [hdb, hne, if_false]
  by_cases hc : mapDb cfg (db : Int) ≠ w.cur
  · simp only [hc, ne_eq, not_false_eq_true, if_true]
    refine ⟨[cmdB b!"select" [intToDec (mapDb cfg (db : Int))]], by simp, by simp, ?_⟩
    simp [applyReqs, applyReq_select T _ hpos]
  · simp only [hc, if_false]
    have : mapDb cfg (db : Int) = T.cur := by rw [← hcur]; exact Decidable.of_not_not hc
    refine ⟨[], by simp, by rw [this, hcur], ?_⟩
    simp only [applyReqs, this]

/-! ## the existence table -/

theorem exists_add_has (ex : Exists) (D : Int) (k : Bytes) (D' : Int) (k' : Bytes)
    (h : (Exists.add ex D k).has D' k' = true) : ex.has D' k' = true ∨ (D' = D ∧ k' = k) := by
  unfold Exists.add at h
  split at h
  · exact Or.inl h
  · simp only [Exists.has, List.any_cons, Bool.or_eq_true, Bool.and_eq_true, beq_iff_eq] at h
    rcases h with ⟨h1, h2⟩ | h
    · exact Or.inr ⟨h1.symm, h2.symm⟩
    · exact Or.inl (by simpa [Exists.has] using h)

theorem exists_del_has (ex : Exists) (D : Int) (k : Bytes) (D' : Int) (k' : Bytes)
    (h : (Exists.del ex D k).has D' k' = true) : ex.has D' k' = true := by
  simp only [Exists.del, Exists.has, List.any_filter, List.any_eq_true, Bool.and_eq_true] at h ⊢
  obtain ⟨x, hx, _, h2⟩ := h
  exact ⟨x, hx, h2⟩

/-- `ex'` knows at most the keys `ex` knows and `(D, k)` -/
def ExGrows (ex ex' : Exists) (D : Int) (k : Bytes) : Prop :=
  ∀ D' k', ex'.has D' k' = true → ex.has D' k' = true ∨ (D' = D ∧ k' = k)

theorem exGrows_refl (ex : Exists) (D : Int) (k : Bytes) : ExGrows ex ex D k := fun _ _ h => Or.inl h

theorem exGrows_add {ex ex' : Exists} {D : Int} {k : Bytes} (h : ExGrows ex ex' D k) : ExGrows ex (ex'.add D k) D k := by
  intro D' k' h'
  rcases exists_add_has ex' D k D' k' h' with h1 | h1
  · exact h D' k' h1
  · exact Or.inr h1

theorem exGrows_del {ex ex' : Exists} {D : Int} {k : Bytes} (h : ExGrows ex ex' D k) : ExGrows ex (ex'.del D k) D k :=
  fun D' k' h' => h D' k' (exists_del_has ex' D k D' k' h')

theorem exGrows_ite {ex a b : Exists} {D : Int} {k : Bytes} (c : Prop) [Decidable c]
    (ha : ExGrows ex a D k) (hb : ExGrows ex b D k) : ExGrows ex (if c then a else b) D k := by
  split <;> assumption

theorem exGrows_trans {ex ex1 ex2 : Exists} {D : Int} {k : Bytes} (h1 : ExGrows ex ex1 D k) (h2 : ExGrows ex1 ex2 D k) :
    ExGrows ex ex2 D k := by
  intro D' k' h
  rcases h2 D' k' h with h | h
  · exact h1 D' k' h
  · exact Or.inr h

/-! ## replay of one entry -/

theorem rewrite_self (k : Bytes) (cs : List Cmd) : cs.map (rewriteCmd k k) = cs := by
  induction cs with
  | nil => rfl
  | cons c cs ih => simp [rewriteCmd, ih]

theorem pobjOf_facts (k : Bytes) (o : ObjE) (hk : o.kind ≠ .other) :
    otypeOf o.rtype = some (otOf o) ∧ otOf o ≠ .function ∧ otOf o ≠ .aux ∧ otOf o ≠ .module ∧
    (pobjOf k o).isSplited = false ∧ (pobjOf k o).firstBin = true := by
  refine ⟨otypeOf_rtype o hk, ?_, ?_, ?_, ?_, ?_⟩
  · unfold otOf; cases hkk : o.kind <;> simp_all
  · unfold otOf; cases hkk : o.kind <;> simp_all
  · unfold otOf; cases hkk : o.kind <;> simp_all
  · cases o <;> simp [pobjOf, PObj.isSplited]
  · simp [pobjOf, PObj.firstBin]

/-- an unsplit value that fits one request: ONE `restore key ttl payload …` -/
theorem replay_restore (cfg : RCfg) (D : Int) (ex : Exists) (e : Entry) (k : Bytes) (o : ObjE)
    (hobj : e.obj = pobjOf k o) (hkey : e.key = k) (hk : o.kind ≠ .other) (hv : viaRestore cfg o)
    (hload : typeLoadable cfg.x.tgtMajor o.rtype = true) (hrht : cfg.replaceHashTag = false)
    (hex : ex.has D k = false) :
    ∃ opts ex', replayEntry cfg D ex e =
      ([cmdB b!"restore" (k :: natToDec (ttlOf cfg.now e.expireAt) :: createValueDump o.rtype o.ser :: opts)],
        ex', true) ∧ ExGrows ex ex' D k := by
  obtain ⟨hot, hnf1, hnf2, _, hsplit, _⟩ := pobjOf_facts k o hk
  obtain ⟨hon, hsz⟩ := hv
  have hsize : ¬ ((pobjOf k o).valueDumpSize > cfg.maxBulk) := by
    simp only [PObj.valueDumpSize, pobjOf]; omega
  have hdump : (pobjOf k o).dump = createValueDump o.rtype o.ser := rfl
  have hrt : (pobjOf k o).rtype = o.rtype := rfl
  simp only [replayEntry, dstKey, hrht, Bool.false_eq_true, if_false, hobj, hkey]
  simp only [hrt, hot, hnf1, hnf2, or_self, if_false, hon, hsplit, hsize, decide_false, Bool.or_self,
    Bool.not_false, Bool.and_self, Bool.not_true, Bool.false_eq_true, hdump, hload, if_true, hex,
    List.cons_append, List.nil_append]
  exact ⟨_, _, rfl, exGrows_ite _ (exGrows_del (exGrows_refl _ _ _)) (exGrows_add (exGrows_refl _ _ _))⟩

/-- an unsplit value that does not travel by RESTORE: probe, expansion, PEXPIRE -/
theorem replay_expand (cfg : RCfg) (D : Int) (ex : Exists) (e : Entry) (k : Bytes) (o : ObjE)
    (hobj : e.obj = pobjOf k o) (hkey : e.key = k) (hwf : o.wf) (hk : o.kind ≠ .other)
    (hnv : ¬ viaRestore cfg o) (hrht : cfg.replaceHashTag = false) (hex : ex.has D k = false) :
    ∃ ex', replayEntry cfg D ex e =
      ([cmdB b!"exists" [k]] ++ o.cmds k ++
        (if e.expireAt ≠ 0 then [cmdB b!"pexpire" [k, natToDec (ttlOf cfg.now e.expireAt)]] else []), ex', true) ∧
      ExGrows ex ex' D k := by
  obtain ⟨hot, hnf1, hnf2, hnf3, hsplit, hfb⟩ := pobjOf_facts k o hk
  have hrt : (pobjOf k o).rtype = o.rtype := rfl
  have hexec := execCmd_pobjOf cfg.x k o hwf hk
  have hrc : (cfg.enableRestore && !(decide ((pobjOf k o).valueDumpSize > cfg.maxBulk) || (pobjOf k o).isSplited)) = false := by
    cases hon : cfg.enableRestore with
    | false => rfl
    | true =>
      have : (pobjOf k o).valueDumpSize > cfg.maxBulk := by
        simp only [PObj.valueDumpSize, pobjOf]
        unfold viaRestore at hnv
        simp only [hon, true_and] at hnv
        omega
      simp [this]
  simp only [replayEntry, dstKey, hrht, Bool.false_eq_true, if_false, hobj, hkey]
  simp only [hrt, hot, hnf1, hnf2, or_self, if_false, hrc, Bool.not_false, if_true]
  simp only [expandEntry, hnf3, if_false]
  simp only [hrht, Bool.false_eq_true, if_false, hobj, hkey, hfb, if_true, hex, hexec, Option.map_some, rewrite_self]
  exact ⟨_, rfl, exGrows_ite _ (exGrows_del (exGrows_ite _ (exGrows_del (exGrows_refl _ _ _))
    (exGrows_add (exGrows_del (exGrows_refl _ _ _))))) (exGrows_ite _ (exGrows_del (exGrows_refl _ _ _))
    (exGrows_add (exGrows_del (exGrows_refl _ _ _))))⟩

theorem keyCmd_name (c : Cmd) (n : Bytes) (hc : c.name = n)
    (h : lower n ≠ b!"select" ∧ lower n ≠ b!"script" ∧ lower n ≠ b!"function") : keyCmd c := by
  subst hc; exact h

theorem cmds_keyCmd (o : ObjE) (k : Bytes) : ∀ c ∈ o.cmds k, keyCmd c := by
  intro c hc
  unfold ObjE.cmds at hc
  cases hkind : o.kind <;> simp only [hkind] at hc
  · split at hc
    · simp only [List.mem_singleton] at hc; subst hc; exact keyCmd_name _ b!"set" rfl (by decide)
    · simp at hc
  · obtain ⟨e, _, rfl⟩ := List.mem_map.mp hc; exact keyCmd_name _ b!"RPUSH" rfl (by decide)
  · obtain ⟨e, _, rfl⟩ := List.mem_map.mp hc; exact keyCmd_name _ b!"SADD" rfl (by decide)
  · obtain ⟨e, _, rfl⟩ := List.mem_map.mp hc; exact keyCmd_name _ b!"ZADD" rfl (by decide)
  · obtain ⟨e, _, rfl⟩ := List.mem_map.mp hc; exact keyCmd_name _ b!"HSET" rfl (by decide)
  · simp at hc

/-- probe, expansion and PEXPIRE of a fresh key, next to the rest of the keyspace -/
theorem apply_expand (ks : Keyspace) (k : Bytes) (o : ObjE) (exp ttl : Nat)
    (hk : o.kind ≠ .other) (hne : o.nonempty) (hd : o.members.Nodup) (hfresh : RedisSem.get ks k = none)
    (httl : exp = 0 → ttl = 0) :
    applyCmds ks ([cmdB b!"exists" [k]] ++ o.cmds k ++
        (if exp ≠ 0 then [cmdB b!"pexpire" [k, natToDec ttl]] else [])) =
      some (ks ++ [(k, o.value, ttl)]) := by
  rw [applyCmds_append, applyCmds_append]
  simp only [applyCmds, apply_exists, Option.bind_some]
  rw [cmds_frame ks k o hk hne hd hfresh]
  simp only [Option.bind_some]
  by_cases h0 : exp = 0
  · simp [h0, applyCmds, httl h0]
  · simp only [h0, ne_eq, not_false_eq_true, if_true, applyCmds, apply_pexpire, doPexpire,
      decToNat_natToDec, get_frame ks k _ _ hfresh, put_frame ks k _ _ _ _ hfresh]

/-- one chunk of a split hash table: (probe,) one HSET per pair of the chunk, PEXPIRE -/
theorem replay_chunk (cfg : RCfg) (D : Int) (ex : Exists) (e : Entry) (key : Bytes) (ps : List (Bytes × Bytes))
    (hkey : e.key = key) (hokey : e.obj.key = key) (hrt : e.obj.rtype = 4) (hsp : e.obj.isSplited = true)
    (hps : hashPairs e.obj = some ps) (hrht : cfg.replaceHashTag = false)
    (hprobe : e.obj.firstBin = true → ex.has D key = false) :
    ∃ ex', replayEntry cfg D ex e =
      ((if e.obj.firstBin then [cmdB b!"exists" [key]] else []) ++
        ps.map (fun q => cmdB b!"HSET" [key, q.1, q.2]) ++
        (if e.expireAt ≠ 0 then [cmdB b!"pexpire" [key, natToDec (ttlOf cfg.now e.expireAt)]] else []), ex', true) ∧
      ExGrows ex ex' D key := by
  have hot : otypeOf 4 = some .hash := by decide
  have hexec : execCmd cfg.x e.obj = some (ps.map (fun q => cmdB b!"HSET" [key, q.1, q.2])) := by
    rw [execCmd_hash_chunk cfg.x e.obj hrt, hps, hokey]; rfl
  simp only [replayEntry, dstKey, hrht, Bool.false_eq_true, if_false]
  simp only [hrt, hot, hsp, Bool.or_true, Bool.not_true, Bool.and_false, Bool.not_false, if_true,
    show ¬ (OType.hash = OType.function ∨ OType.hash = OType.aux) by decide, if_false]
  simp only [expandEntry, show ¬ (OType.hash = OType.module) by decide, if_false]
  simp only [hexec, Option.map_some, hkey, hrht, Bool.false_eq_true, if_false, rewrite_self]
  cases hfb : e.obj.firstBin with
  | true =>
    simp only [hprobe hfb, Bool.false_eq_true, if_false, if_true]
    exact ⟨_, rfl, exGrows_ite _ (exGrows_del (exGrows_ite _ (exGrows_del (exGrows_refl _ _ _))
      (exGrows_add (exGrows_del (exGrows_refl _ _ _))))) (exGrows_ite _ (exGrows_del (exGrows_refl _ _ _))
      (exGrows_add (exGrows_del (exGrows_refl _ _ _))))⟩
  | false =>
    simp only [Bool.false_eq_true, if_false, List.nil_append]
    exact ⟨_, rfl, exGrows_ite _ (exGrows_del (exGrows_ite _ (exGrows_refl _ _ _)
      (exGrows_add (exGrows_refl _ _ _)))) (exGrows_ite _ (exGrows_refl _ _ _)
      (exGrows_add (exGrows_refl _ _ _)))⟩

/-- the requests of one chunk on the oracle; `l` = the pairs already stored (`[]` = the key is absent) -/
theorem apply_chunk (ks : Keyspace) (key : Bytes) (l ps : List (Bytes × Bytes)) (first : Bool) (exp ttl : Nat)
    (hfresh : RedisSem.get ks key = none) (hnd : ((l ++ ps).map (·.1)).Nodup) (httl : exp = 0 → ttl = 0) :
    applyCmds (if l = [] then ks else ks ++ [(key, .hash l, ttl)])
      ((if first then [cmdB b!"exists" [key]] else []) ++
        ps.map (fun q => cmdB b!"HSET" [key, q.1, q.2]) ++
        (if exp ≠ 0 then [cmdB b!"pexpire" [key, natToDec ttl]] else [])) =
      some (if l ++ ps = [] then ks else ks ++ [(key, .hash (l ++ ps), ttl)]) := by
  have hprobe : ∀ ks' : Keyspace, applyCmds ks' (if first then [cmdB b!"exists" [key]] else []) = some ks' := by
    intro ks'
    cases first <;> simp [applyCmds, apply_exists]
  have hexpire : ∀ (l' : List (Bytes × Bytes)) (t : Nat), (exp = 0 → t = ttl) →
      applyCmds (ks ++ [(key, .hash l', t)]) (if exp ≠ 0 then [cmdB b!"pexpire" [key, natToDec ttl]] else []) =
        some (ks ++ [(key, .hash l', ttl)]) := by
    intro l' t ht
    by_cases h0 : exp = 0
    · simp [h0, applyCmds, ht h0]
    · simp only [h0, ne_eq, not_false_eq_true, if_true, applyCmds, apply_pexpire, doPexpire,
        decToNat_natToDec, get_frame ks key _ _ hfresh, put_frame ks key _ _ _ _ hfresh]
  rw [applyCmds_append, applyCmds_append, hprobe]
  simp only [Option.bind_some]
  by_cases hl : l = []
  · subst hl
    cases ps with
    | nil =>
      simp only [if_true, List.map_nil, applyCmds, Option.bind_some, List.append_nil]
      by_cases h0 : exp = 0
      · simp [h0, applyCmds]
      · simp [h0, applyCmds, apply_pexpire, doPexpire, decToNat_natToDec, hfresh]
    | cons p ps =>
      simp only [if_true, List.map_cons, applyCmds, apply_hset, doHset, hfresh, put_new ks key _ _ hfresh]
      rw [hset_fold_frame ks key ps [(p.1, p.2)] 0 hfresh (by simpa using hnd)]
      simp only [Option.bind_some, List.nil_append, List.cons_append, reduceCtorEq, if_false]
      exact hexpire _ 0 (fun h0 => (httl h0).symm)
  · have hne : l ++ ps ≠ [] := by simp [hl]
    simp only [hl, hne, if_false]
    rw [hset_fold_frame ks key ps l ttl hfresh hnd]
    simp only [Option.bind_some]
    exact hexpire _ ttl (fun _ => rfl)

/-! ## one entry on the worker, seen by the target -/

theorem workerStep_skipDb (cfg : RCfg) (w : Worker) (ex : Exists) (e : Entry) (db : Nat)
    (hdb : e.db = (db : Int)) (hfd : cfg.filterDb (db : Int) = true) : workerStep cfg w ex e = (w, ex, true) := by
  have hne : (db : Int) ≠ -1 := by omega
  rw [workerStep_eq]
  simp [hdb, hfd, hne]

theorem workerStep_skipKey (cfg : RCfg) (w : Worker) (ex : Exists) (e : Entry) (T : TState) (db : Nat)
    (hdb : e.db = (db : Int)) (hfd : cfg.filterDb (db : Int) = false) (hfk : cfg.filterKey e.key = true)
    (hcur : w.cur = T.cur) (hpos : 0 ≤ mapDb cfg (db : Int)) :
    ∃ w' log, workerStep cfg w ex e = (w', ex, true) ∧ w'.log = w.log ++ log ∧ w'.cur = mapDb cfg (db : Int) ∧
      applyReqs T log = some { T with cur := mapDb cfg (db : Int) } := by
  obtain ⟨log, h1, h2, h3⟩ := afterSelect_apply cfg w e T db hdb hcur hpos
  refine ⟨afterSelect cfg w e, log, ?_, h1, h2, h3⟩
  rw [workerStep_eq]
  simp [hdb, hfd, hfk]

/-- a replayed entry: the requests `replayEntry` issues go out after the DB switch -/
theorem workerStep_reqs (cfg : RCfg) (w : Worker) (ex : Exists) (e : Entry) (T T' : TState) (db : Nat)
    (cs : List Cmd) (ex' : Exists) (htick : cfg.tick = 0)
    (hdb : e.db = (db : Int)) (hfd : cfg.filterDb (db : Int) = false) (hfk : cfg.filterKey e.key = false)
    (hcur : w.cur = T.cur) (hpos : 0 ≤ mapDb cfg (db : Int))
    (hrep : replayEntry cfg (mapDb cfg (db : Int)) ex e = (cs, ex', true))
    (happ : applyReqs { T with cur := mapDb cfg (db : Int) } cs = some T') :
    ∃ w' log, workerStep cfg w ex e = (w', ex', true) ∧ w'.log = w.log ++ log ∧ w'.cur = mapDb cfg (db : Int) ∧
      applyReqs T log = some T' := by
  obtain ⟨log, h1, h2, h3⟩ := afterSelect_apply cfg w e T db hdb hcur hpos
  refine ⟨{ afterSelect cfg w e with log := (afterSelect cfg w e).log ++ cs }, log ++ cs, ?_, ?_, h2, ?_⟩
  · rw [workerStep_eq]
    simp only [hdb, hfd, hfk, Bool.false_eq_true, and_false, if_false, cfg_tick0 cfg htick]
    rw [h2, hrep]
  · simp only [h1, List.append_assoc]
  · rw [applyReqs_append, h3]
    simpa using happ

/-- … and act on the mapped database when they are keyspace commands -/
theorem workerStep_apply (cfg : RCfg) (w : Worker) (ex : Exists) (e : Entry) (T : TState) (db : Nat)
    (cs : List Cmd) (ex' : Exists) (ks' : Keyspace) (htick : cfg.tick = 0)
    (hdb : e.db = (db : Int)) (hfd : cfg.filterDb (db : Int) = false) (hfk : cfg.filterKey e.key = false)
    (hcur : w.cur = T.cur) (hpos : 0 ≤ mapDb cfg (db : Int))
    (hrep : replayEntry cfg (mapDb cfg (db : Int)) ex e = (cs, ex', true)) (hkc : ∀ c ∈ cs, keyCmd c)
    (happ : applyCmds (T.dbs (mapDb cfg (db : Int))) cs = some ks') :
    ∃ w' log, workerStep cfg w ex e = (w', ex', true) ∧ w'.log = w.log ++ log ∧ w'.cur = mapDb cfg (db : Int) ∧
      applyReqs T log = some (TState.setDb { T with cur := mapDb cfg (db : Int) } (mapDb cfg (db : Int)) ks') :=
  workerStep_reqs cfg w ex e T _ db cs ex' htick hdb hfd hfk hcur hpos hrep
    (applyReqs_lift cs { T with cur := mapDb cfg (db : Int) } ks' hkc happ)

theorem applyReqs_noop (cs : List Cmd) (T : TState)
    (h : ∀ c ∈ cs, lower c.name = b!"script" ∨ lower c.name = b!"function") : applyReqs T cs = some T := by
  induction cs with
  | nil => rfl
  | cons c cs ih =>
    have hc := h c (List.mem_cons_self ..)
    have hns : lower c.name ≠ b!"select" := by
      rcases hc with hc | hc <;> (rw [hc]; decide)
    simp only [applyReqs, applyReq, hns, if_false, hc, if_true]
    exact ih (fun x hx => h x (List.mem_cons_of_mem _ hx))

theorem replay_aux (cfg : RCfg) (D : Int) (ex : Exists) (e : Entry) (hrt : e.obj.rtype = 0xFA) :
    ∃ cs, replayEntry cfg D ex e = (cs, ex, true) ∧ ∀ c ∈ cs, lower c.name = b!"script" ∨ lower c.name = b!"function" := by
  have hot : otypeOf 0xFA = some .aux := by decide
  have hexec : ∃ cs, execCmd cfg.x e.obj = some cs ∧ ∀ c ∈ cs, lower c.name = b!"script" ∨ lower c.name = b!"function" := by
    unfold execCmd
    simp only [hrt, hot]
    split
    · exact ⟨_, rfl, fun c hc => by simp only [List.mem_singleton] at hc; subst hc; exact Or.inl (show lower b!"script" = b!"script" by decide)⟩
    · exact ⟨[], rfl, fun c hc => by simp at hc⟩
  obtain ⟨cs, hcs, hn⟩ := hexec
  refine ⟨cs, ?_, hn⟩
  simp only [replayEntry, hrt, hot, or_true, if_true, hcs]

theorem replay_function (cfg : RCfg) (D : Int) (ex : Exists) (e : Entry) (hrt : e.obj.rtype = 0xF5) :
    ∃ cs, replayEntry cfg D ex e = (cs, ex, true) ∧ ∀ c ∈ cs, lower c.name = b!"script" ∨ lower c.name = b!"function" := by
  have hot : otypeOf 0xF5 = some .function := by decide
  have hexec : ∃ cs, execCmd cfg.x e.obj = some cs ∧ ∀ c ∈ cs, lower c.name = b!"script" ∨ lower c.name = b!"function" := by
    unfold execCmd
    simp only [hrt, hot]
    split
    · exact ⟨_, rfl, fun c hc => by simp only [List.mem_singleton] at hc; subst hc; exact Or.inr (show lower b!"FUNCTION" = b!"function" by decide)⟩
    · exact ⟨[], rfl, fun c hc => by simp at hc⟩
  obtain ⟨cs, hcs, hn⟩ := hexec
  refine ⟨cs, ?_, hn⟩
  simp only [replayEntry, hrt, hot, true_or, if_true, hcs]

/-- an AUX entry: at most a DB switch and `SCRIPT LOAD`; no keyspace changes -/
theorem workerStep_aux (cfg : RCfg) (w : Worker) (ex : Exists) (e : Entry) (T : TState) (db : Nat)
    (htick : cfg.tick = 0) (hdb : e.db = (db : Int)) (hrt : e.obj.rtype = 0xFA) (hcur : w.cur = T.cur)
    (hpos : cfg.filterDb (db : Int) = false → 0 ≤ mapDb cfg (db : Int)) :
    ∃ w' log T', workerStep cfg w ex e = (w', ex, true) ∧ w'.log = w.log ++ log ∧
      applyReqs T log = some T' ∧ T'.dbs = T.dbs ∧ w'.cur = T'.cur := by
  cases hfd : cfg.filterDb (db : Int) with
  | true => exact ⟨w, [], T, workerStep_skipDb cfg w ex e db hdb hfd, by simp, rfl, rfl, hcur⟩
  | false =>
    cases hfk : cfg.filterKey e.key with
    | true =>
      obtain ⟨w', log, h1, h2, h3, h4⟩ := workerStep_skipKey cfg w ex e T db hdb hfd hfk hcur (hpos hfd)
      exact ⟨w', log, _, h1, h2, h4, rfl, h3⟩
    | false =>
      obtain ⟨cs, hcs, hn⟩ := replay_aux cfg (mapDb cfg (db : Int)) ex e hrt
      obtain ⟨w', log, h1, h2, h3, h4⟩ := workerStep_reqs cfg w ex e T _ db cs ex htick hdb hfd hfk hcur (hpos hfd) hcs
        (applyReqs_noop cs _ hn)
      exact ⟨w', log, _, h1, h2, h4, rfl, h3⟩

/-- a function library: `FUNCTION RESTORE` at most; no DB switch, no keyspace changes -/
theorem workerStep_function (cfg : RCfg) (w : Worker) (ex : Exists) (e : Entry) (T : TState)
    (htick : cfg.tick = 0) (hdb : e.db = -1) (hrt : e.obj.rtype = 0xF5) (hcur : w.cur = T.cur) :
    ∃ w' log T', workerStep cfg w ex e = (w', ex, true) ∧ w'.log = w.log ++ log ∧
      applyReqs T log = some T' ∧ T'.dbs = T.dbs ∧ w'.cur = T'.cur := by
  have hsel : afterSelect cfg w e = w := by simp [afterSelect, hdb]
  cases hfk : cfg.filterKey e.key with
  | true =>
    refine ⟨w, [], T, ?_, by simp, rfl, rfl, hcur⟩
    rw [workerStep_eq]
    simp [hdb, hfk, hsel]
  | false =>
    obtain ⟨cs, hcs, hn⟩ := replay_function cfg w.cur ex e hrt
    refine ⟨{ w with log := w.log ++ cs }, cs, T, ?_, rfl, applyReqs_noop cs T hn, rfl, hcur⟩
    rw [workerStep_eq]
    simp only [hdb, ne_eq, not_true_eq_false, false_and, if_false, hfk, Bool.false_eq_true, hsel,
      cfg_tick0 cfg htick, hcs]

/-! ## a key item on the worker -/

/-- the target knows at least the keys the tool's existence table knows -/
def ExSub (ex : Exists) (T : TState) : Prop :=
  ∀ D k, ex.has D k = true → (RedisSem.get (T.dbs D) k).isSome = true

/-- the hash under construction: absent while no pair has arrived -/
def hashSt (ks0 : Keyspace) (key : Bytes) (l : List (Bytes × Bytes)) (ttl : Nat) : Keyspace :=
  if l = [] then ks0 else ks0 ++ [(key, .hash l, ttl)]

structure IsChunk (db : Nat) (key : Bytes) (exp : Nat) (e : Entry) : Prop where
  hkey : e.key = key
  hdb : e.db = (db : Int)
  hexp : e.expireAt = exp
  hokey : e.obj.key = key
  hrt : e.obj.rtype = 4
  hsp : e.obj.isSplited = true
  hsome : (hashPairs e.obj).isSome = true

theorem keyCmd_chunk (fb : Bool) (key : Bytes) (ps : List (Bytes × Bytes)) (c1 : Prop) [Decidable c1] (t : Bytes) :
    ∀ c ∈ (if fb then [cmdB b!"exists" [key]] else []) ++ ps.map (fun q => cmdB b!"HSET" [key, q.1, q.2]) ++
      (if c1 then [cmdB b!"pexpire" [key, t]] else []), keyCmd c := by
  intro c hc
  simp only [List.mem_append] at hc
  rcases hc with (hc | hc) | hc
  · cases fb
    · simp at hc
    · simp only [if_true, List.mem_singleton] at hc; subst hc; exact keyCmd_name _ b!"exists" rfl (by decide)
  · obtain ⟨q, _, rfl⟩ := List.mem_map.mp hc; exact keyCmd_name _ b!"HSET" rfl (by decide)
  · split at hc
    · simp only [List.mem_singleton] at hc; subst hc; exact keyCmd_name _ b!"pexpire" rfl (by decide)
    · simp at hc

theorem ttlOf_zero (now : Nat) : ttlOf now 0 = 0 := by simp [ttlOf]

theorem chunk_step (cfg : RCfg) (htick : cfg.tick = 0) (hrht : cfg.replaceHashTag = false)
    (db : Nat) (key : Bytes) (exp : Nat)
    (hfd : cfg.filterDb (db : Int) = false) (hfk : cfg.filterKey key = false) (hpos : 0 ≤ mapDb cfg (db : Int))
    (e : Entry) (hc : IsChunk db key exp e) (w : Worker) (ex : Exists) (T : TState)
    (ks0 : Keyspace) (l : List (Bytes × Bytes))
    (hcur : w.cur = T.cur) (hst : T.dbs (mapDb cfg (db : Int)) = hashSt ks0 key l (ttlOf cfg.now exp))
    (hfresh : RedisSem.get ks0 key = none)
    (hnd : ((l ++ (hashPairs e.obj).getD []).map (·.1)).Nodup)
    (hprobe : e.obj.firstBin = true → ex.has (mapDb cfg (db : Int)) key = false) :
    ∃ w' ex' T' log, workerStep cfg w ex e = (w', ex', true) ∧ w'.log = w.log ++ log ∧
      applyReqs T log = some T' ∧ w'.cur = T'.cur ∧ T'.cur = mapDb cfg (db : Int) ∧
      ExGrows ex ex' (mapDb cfg (db : Int)) key ∧
      ∀ D, T'.dbs D = if D = mapDb cfg (db : Int)
        then hashSt ks0 key (l ++ (hashPairs e.obj).getD []) (ttlOf cfg.now exp) else T.dbs D := by
  obtain ⟨ps, hps⟩ := Option.isSome_iff_exists.mp hc.hsome
  rw [hps] at hnd ⊢
  simp only [Option.getD_some] at hnd ⊢
  obtain ⟨ex', hrep, hgrow⟩ := replay_chunk cfg (mapDb cfg (db : Int)) ex e key ps hc.hkey hc.hokey hc.hrt hc.hsp hps hrht hprobe
  rw [hc.hexp] at hrep
  have happ := apply_chunk ks0 key l ps e.obj.firstBin exp (ttlOf cfg.now exp) hfresh hnd
    (fun h0 => by rw [h0]; exact ttlOf_zero _)
  obtain ⟨w', log, h1, h2, h3, h4⟩ := workerStep_apply cfg w ex e T db _ ex' _ htick hc.hdb hfd (by rw [hc.hkey]; exact hfk)
    hcur hpos hrep (keyCmd_chunk _ _ _ _ _) (by rw [hst]; exact happ)
  refine ⟨w', ex', _, log, h1, h2, h4, h3, rfl, hgrow, ?_⟩
  intro D
  simp only [TState.setDb, hashSt]

/-- the continuation chunks of a value -/
theorem chunks_tail (cfg : RCfg) (htick : cfg.tick = 0) (hrht : cfg.replaceHashTag = false)
    (db : Nat) (key : Bytes) (exp : Nat)
    (hfd : cfg.filterDb (db : Int) = false) (hfk : cfg.filterKey key = false) (hpos : 0 ≤ mapDb cfg (db : Int))
    (ks0 : Keyspace) (hfresh : RedisSem.get ks0 key = none) :
    ∀ (tl : List Entry) (w : Worker) (ex : Exists) (T : TState) (l : List (Bytes × Bytes)),
      (∀ e ∈ tl, IsChunk db key exp e ∧ e.obj.firstBin = false) →
      w.cur = T.cur → T.dbs (mapDb cfg (db : Int)) = hashSt ks0 key l (ttlOf cfg.now exp) →
      ((l ++ tl.flatMap (fun e => (hashPairs e.obj).getD [])).map (·.1)).Nodup →
      ∃ w' ex' T' log, runOne cfg tl w ex = (w', ex', true) ∧ w'.log = w.log ++ log ∧
        applyReqs T log = some T' ∧ w'.cur = T'.cur ∧
        ExGrows ex ex' (mapDb cfg (db : Int)) key ∧
        ∀ D, T'.dbs D = if D = mapDb cfg (db : Int)
          then hashSt ks0 key (l ++ tl.flatMap (fun e => (hashPairs e.obj).getD [])) (ttlOf cfg.now exp)
          else T.dbs D := by
  intro tl
  induction tl with
  | nil =>
    intro w ex T l _ hcur hst _
    refine ⟨w, ex, T, [], rfl, by simp, rfl, hcur, exGrows_refl _ _ _, ?_⟩
    intro D
    by_cases hD : D = mapDb cfg (db : Int)
    · subst hD; simp [hst]
    · simp [hD]
  | cons e tl ih =>
    intro w ex T l hall hcur hst hnd
    have he := hall e (List.mem_cons_self ..)
    simp only [List.flatMap_cons, ← List.append_assoc] at hnd ⊢
    have hnd1 : ((l ++ (hashPairs e.obj).getD []).map (·.1)).Nodup := by
      rw [List.map_append] at hnd
      exact (List.nodup_append.mp hnd).1
    obtain ⟨w1, ex1, T1, log1, hs1, hl1, ha1, hc1, _, hg1, hd1⟩ := chunk_step cfg htick hrht db key exp hfd hfk hpos e he.1
      w ex T ks0 l hcur hst hfresh hnd1 (fun h => by rw [he.2] at h; cases h)
    obtain ⟨w2, ex2, T2, log2, hs2, hl2, ha2, hc2, hg2, hd2⟩ := ih w1 ex1 T1 _
      (fun x hx => hall x (List.mem_cons_of_mem _ hx)) hc1 (by rw [hd1]; simp) hnd
    refine ⟨w2, ex2, T2, log1 ++ log2, ?_, ?_, ?_, hc2, exGrows_trans hg1 hg2, ?_⟩
    · simp only [runOne, hs1, if_true]; exact hs2
    · rw [hl2, hl1, List.append_assoc]
    · rw [applyReqs_append, ha1]; simpa using ha2
    · intro D
      rw [hd2 D]
      by_cases hD : D = mapDb cfg (db : Int)
      · simp [hD]
      · simp [hD, hd1 D]

theorem runOne_skipDb (cfg : RCfg) (db : Nat) (hfd : cfg.filterDb (db : Int) = true) :
    ∀ (ces : List Entry) (w : Worker) (ex : Exists), (∀ e ∈ ces, e.db = (db : Int)) →
      runOne cfg ces w ex = (w, ex, true) := by
  intro ces
  induction ces with
  | nil => intro w ex _; rfl
  | cons e ces ih =>
    intro w ex h
    simp only [runOne, workerStep_skipDb cfg w ex e db (h e (List.mem_cons_self ..)) hfd, if_true]
    exact ih w ex (fun x hx => h x (List.mem_cons_of_mem _ hx))

theorem runOne_skipKey (cfg : RCfg) (db : Nat) (key : Bytes) (hfd : cfg.filterDb (db : Int) = false)
    (hfk : cfg.filterKey key = true) (hpos : 0 ≤ mapDb cfg (db : Int)) :
    ∀ (ces : List Entry) (w : Worker) (ex : Exists) (T : TState),
      (∀ e ∈ ces, e.key = key ∧ e.db = (db : Int)) → w.cur = T.cur →
      ∃ w' log T', runOne cfg ces w ex = (w', ex, true) ∧ w'.log = w.log ++ log ∧
        applyReqs T log = some T' ∧ w'.cur = T'.cur ∧ ∀ D, T'.dbs D = T.dbs D := by
  intro ces
  induction ces with
  | nil => intro w ex T _ hcur; exact ⟨w, [], T, rfl, by simp, rfl, hcur, fun _ => rfl⟩
  | cons e ces ih =>
    intro w ex T h hcur
    have he := h e (List.mem_cons_self ..)
    obtain ⟨w1, log1, hs1, hl1, hc1, ha1⟩ := workerStep_skipKey cfg w ex e T db he.2 hfd (by rw [he.1]; exact hfk) hcur hpos
    obtain ⟨w2, log2, T2, hs2, hl2, ha2, hc2, hd2⟩ := ih w1 ex { T with cur := mapDb cfg (db : Int) }
      (fun x hx => h x (List.mem_cons_of_mem _ hx)) hc1
    refine ⟨w2, log1 ++ log2, T2, ?_, ?_, ?_, hc2, hd2⟩
    · simp only [runOne, hs1, if_true]; exact hs2
    · rw [hl2, hl1, List.append_assoc]
    · rw [applyReqs_append, ha1]; simpa using ha2

theorem get_append_self (ks : Keyspace) (x : Bytes × Val × Nat) :
    (RedisSem.get (ks ++ [x]) x.1).isSome = true := by
  unfold RedisSem.get
  rw [List.find?_append]
  cases hf : ks.find? (fun e => e.1 == x.1) with
  | some y => simp
  | none => simp

theorem exSub_keep {ex : Exists} {T T' : TState} (h : ExSub ex T) (hd : ∀ D, T'.dbs D = T.dbs D) : ExSub ex T' := by
  intro D k hk
  rw [hd D]; exact h D k hk

theorem exSub_step {ex ex' : Exists} {T T' : TState} {D0 : Int} {x : Bytes × Val × Nat}
    (h : ExSub ex T) (hg : ExGrows ex ex' D0 x.1)
    (hd : ∀ D, T'.dbs D = if D = D0 then T.dbs D ++ [x] else T.dbs D) : ExSub ex' T' := by
  intro D k hk
  rw [hd D]
  rcases hg D k hk with h1 | ⟨rfl, rfl⟩
  · have := h D k h1
    split
    · exact get_append_isSome _ _ _ this
    · exact this
  · simp only [if_true]
    exact get_append_self _ _

theorem pairs_hashTable (f : LenForm) (items : List (SE × SE)) :
    (ObjE.hashTable f items).value = .hash (pairVals items) ∧
    (ObjE.hashTable f items).members = (pairVals items).map (·.1) := ⟨rfl, rfl⟩

/-- all entries of one key item on the single worker, seen by the target -/
theorem key_step (cfg : RCfg) (htick : cfg.tick = 0) (hrht : cfg.replaceHashTag = false)
    (db : Nat) (k : KeyE) (ces : List Entry) (hke : KeyEntries db k ces)
    (hwf : k.wf) (hk : k.obj.kind ≠ .other) (hne : k.obj.nonempty) (hd : k.obj.members.Nodup)
    (hload : cfg.enableRestore = true → typeLoadable cfg.x.tgtMajor k.obj.rtype = true)
    (hpos : cfg.filterDb (db : Int) = false → 0 ≤ mapDb cfg (db : Int))
    (w : Worker) (ex : Exists) (T : TState) (hcur : w.cur = T.cur) (hsub : ExSub ex T)
    (hfresh : replayed cfg (db, k) = true → RedisSem.get (T.dbs (mapDb cfg (db : Int))) k.key.val = none) :
    ∃ w' ex' T' log, runOne cfg ces w ex = (w', ex', true) ∧ w'.log = w.log ++ log ∧
      applyReqs T log = some T' ∧ w'.cur = T'.cur ∧ ExSub ex' T' ∧
      ((replayed cfg (db, k) = false ∧ ∀ D, T'.dbs D = T.dbs D) ∨
       (replayed cfg (db, k) = true ∧ ∃ x, Holds cfg (db, k) x ∧
          ∀ D, T'.dbs D = if D = mapDb cfg (db : Int) then T.dbs D ++ [x] else T.dbs D)) := by
  have hall : ∀ e ∈ ces, e.key = k.key.val ∧ e.db = (db : Int) := by
    intro e he
    rcases hke with ⟨e0, rfl, h0, _⟩ | ⟨f, items, e0, tl, _, hces, hc, _⟩
    · simp only [List.mem_singleton] at he; subst he; exact ⟨h0.1, h0.2.1⟩
    · have := (hc e he).1; exact ⟨this.1, this.2.1⟩
  cases hfd : cfg.filterDb (db : Int) with
  | true =>
    have hrep : replayed cfg (db, k) = false := by simp [replayed, hfd]
    refine ⟨w, ex, T, [], runOne_skipDb cfg db hfd ces w ex (fun e he => (hall e he).2), by simp, rfl, hcur, hsub,
      Or.inl ⟨hrep, fun _ => rfl⟩⟩
  | false =>
    have hpos' := hpos hfd
    cases hfk : cfg.filterKey k.key.val with
    | true =>
      have hrep : replayed cfg (db, k) = false := by simp [replayed, hfk]
      obtain ⟨w', log, T', h1, h2, h3, h4, h5⟩ := runOne_skipKey cfg db k.key.val hfd hfk hpos' ces w ex T hall hcur
      exact ⟨w', ex, T', log, h1, h2, h3, h4, exSub_keep hsub h5, Or.inl ⟨hrep, h5⟩⟩
    | false =>
      have hrep : replayed cfg (db, k) = true := by simp [replayed, hfd, hfk]
      have hfr := hfresh hrep
      have hex : ex.has (mapDb cfg (db : Int)) k.key.val = false := by
        cases h : ex.has (mapDb cfg (db : Int)) k.key.val with
        | false => rfl
        | true => have := hsub _ _ h; rw [hfr] at this; cases this
      rcases hke with ⟨e, rfl, ⟨hk1, hk2, hk3⟩, hobj⟩ | ⟨f, items, e0, tl, hobj, hces, hc, hfb0, hfbtl, hflat⟩
      · -- ONE entry carrying the whole value
        by_cases hv : viaRestore cfg k.obj
        · obtain ⟨opts, ex', hrp, hg⟩ := replay_restore cfg (mapDb cfg (db : Int)) ex e k.key.val k.obj hobj hk1 hk hv
            (hload hv.1) hrht hex
          have happ : applyCmds (T.dbs (mapDb cfg (db : Int)))
              [cmdB b!"restore" (k.key.val :: natToDec (ttlOf cfg.now e.expireAt) ::
                createValueDump k.obj.rtype k.obj.ser :: opts)] = some (T.dbs (mapDb cfg (db : Int)) ++
                  [(k.key.val, .restored (createValueDump k.obj.rtype k.obj.ser), ttlOf cfg.now e.expireAt)]) := by
            simp only [applyCmds, restore_fresh _ _ _ _ _ hfr]
          obtain ⟨w', log, h1, h2, h3, h4⟩ := workerStep_apply cfg w ex e T db _ ex' _ htick hk2 hfd
            (by rw [hk1]; exact hfk) hcur hpos' hrp
            (fun c hc => by simp only [List.mem_singleton] at hc; subst hc; exact keyCmd_name _ b!"restore" rfl (by decide))
            happ
          have hdbs : ∀ D, (TState.setDb { T with cur := mapDb cfg (db : Int) } (mapDb cfg (db : Int))
              (T.dbs (mapDb cfg (db : Int)) ++ [(k.key.val, Val.restored (createValueDump k.obj.rtype k.obj.ser),
                ttlOf cfg.now e.expireAt)])).dbs D =
              if D = mapDb cfg (db : Int) then T.dbs D ++ [(k.key.val, Val.restored (createValueDump k.obj.rtype k.obj.ser),
                ttlOf cfg.now e.expireAt)] else T.dbs D := by
            intro D
            by_cases hD : D = mapDb cfg (db : Int)
            · subst hD; simp [TState.setDb]
            · simp [TState.setDb, hD]
          refine ⟨w', ex', _, log, ?_, h2, h4, h3, exSub_step hsub hg hdbs, Or.inr ⟨hrep, _, ?_, hdbs⟩⟩
          · simp only [runOne, h1, if_true]
          · exact ⟨rfl, by rw [hk3], Or.inr ⟨rfl, hv⟩⟩
        · obtain ⟨ex', hrp, hg⟩ := replay_expand cfg (mapDb cfg (db : Int)) ex e k.key.val k.obj hobj hk1 hwf.2.1 hk hv hrht hex
          have happ := apply_expand (T.dbs (mapDb cfg (db : Int))) k.key.val k.obj e.expireAt (ttlOf cfg.now e.expireAt)
            hk hne hd hfr (fun h0 => by rw [h0]; exact ttlOf_zero _)
          obtain ⟨w', log, h1, h2, h3, h4⟩ := workerStep_apply cfg w ex e T db _ ex' _ htick hk2 hfd
            (by rw [hk1]; exact hfk) hcur hpos' hrp
            (by
              intro c hc
              simp only [List.mem_append] at hc
              rcases hc with (hc | hc) | hc
              · simp only [List.mem_singleton] at hc; subst hc; exact keyCmd_name _ b!"exists" rfl (by decide)
              · exact cmds_keyCmd _ _ c hc
              · split at hc
                · simp only [List.mem_singleton] at hc; subst hc; exact keyCmd_name _ b!"pexpire" rfl (by decide)
                · simp at hc)
            happ
          have hdbs : ∀ D, (TState.setDb { T with cur := mapDb cfg (db : Int) } (mapDb cfg (db : Int))
              (T.dbs (mapDb cfg (db : Int)) ++ [(k.key.val, k.obj.value, ttlOf cfg.now e.expireAt)])).dbs D =
              if D = mapDb cfg (db : Int) then T.dbs D ++ [(k.key.val, k.obj.value, ttlOf cfg.now e.expireAt)]
              else T.dbs D := by
            intro D
            by_cases hD : D = mapDb cfg (db : Int)
            · subst hD; simp [TState.setDb]
            · simp [TState.setDb, hD]
          refine ⟨w', ex', _, log, ?_, h2, h4, h3, exSub_step hsub hg hdbs, Or.inr ⟨hrep, _, ?_, hdbs⟩⟩
          · simp only [runOne, h1, if_true]
          · exact ⟨rfl, by rw [hk3], Or.inl ⟨rfl, Or.inl hv⟩⟩
      · -- a hash table in several chunks
        subst hces
        have hchunk : ∀ e ∈ e0 :: tl, IsChunk db k.key.val k.exp.at e := by
          intro e he
          obtain ⟨⟨a1, a2, a3⟩, a4, a5, a6, a7⟩ := hc e he
          exact ⟨a1, a2, a3, a4, a5, a6, a7⟩
        obtain ⟨hval, hmem⟩ := pairs_hashTable f items
        rw [hobj] at hd hne
        rw [hmem] at hd
        have hpne : pairVals items ≠ [] := by
          simpa [ObjE.nonempty, ObjE.kind, ObjE.pairs, pairVals] using hne
        simp only [List.flatMap_cons] at hflat
        have hnd0 : ((([] : List (Bytes × Bytes)) ++ (hashPairs e0.obj).getD []).map (fun q => q.1)).Nodup := by
          rw [← hflat, List.map_append] at hd
          simpa using (List.nodup_append.mp hd).1
        obtain ⟨w1, ex1, T1, log1, hs1, hl1, ha1, hc1, _, hg1, hd1⟩ := chunk_step cfg htick hrht db k.key.val k.exp.at hfd hfk
          hpos' e0 (hchunk e0 (List.mem_cons_self ..)) w ex T (T.dbs (mapDb cfg (db : Int))) [] hcur (by simp [hashSt])
          hfr hnd0 (fun _ => hex)
        obtain ⟨w2, ex2, T2, log2, hs2, hl2, ha2, hc2, hg2, hd2⟩ := chunks_tail cfg htick hrht db k.key.val k.exp.at hfd hfk
          hpos' (T.dbs (mapDb cfg (db : Int))) hfr tl w1 ex1 T1 ([] ++ (hashPairs e0.obj).getD [])
          (fun e he => ⟨hchunk e (List.mem_cons_of_mem _ he), hfbtl e he⟩) hc1 (by rw [hd1]; simp)
          (by simpa [hflat] using hd)
        have hdbs : ∀ D, T2.dbs D = if D = mapDb cfg (db : Int)
            then T.dbs D ++ [(k.key.val, k.obj.value, ttlOf cfg.now k.exp.at)] else T.dbs D := by
          intro D
          rw [hd2 D]
          by_cases hD : D = mapDb cfg (db : Int)
          · subst hD
            simp only [if_true, List.nil_append, hflat, hashSt, hpne, if_false, hobj, hval]
          · simp [hD, hd1 D]
        refine ⟨w2, ex2, T2, log1 ++ log2, ?_, ?_, ?_, hc2, exSub_step hsub (exGrows_trans hg1 hg2) hdbs,
          Or.inr ⟨hrep, _, ?_, hdbs⟩⟩
        · simp only [runOne, hs1, if_true]; exact hs2
        · rw [hl2, hl1, List.append_assoc]
        · rw [applyReqs_append, ha1]; simpa using ha2
        · exact ⟨rfl, rfl, Or.inl ⟨rfl, Or.inr (by rw [hobj]; rfl)⟩⟩

/-! ## the whole item list on the single worker -/

theorem keysFrom_skip (db : Nat) (i : Item) (items : List Item) (h : ∀ k, i ≠ .key k) :
    keysFrom db (i :: items) = keysFrom (dbAfter db i) items := by
  cases i <;> first | rfl | exact absurd rfl (h _)

/-- what the replay of ONE key item achieves on the single worker, seen by the target
    (`H` = what the target must hold for the key afterwards) -/
def KeyStep (cfg : RCfg) (H : (Nat × KeyE) → (Bytes × Val × Nat) → Prop) (db : Nat) (k : KeyE) : Prop :=
  ∀ (ces : List Entry), KeyEntries db k ces →
    ∀ (w : Worker) (ex : Exists) (T : TState), w.cur = T.cur → ExSub ex T →
    (replayed cfg (db, k) = true → RedisSem.get (T.dbs (mapDb cfg (db : Int))) k.key.val = none) →
    ∃ w' ex' T' log, runOne cfg ces w ex = (w', ex', true) ∧ w'.log = w.log ++ log ∧
      applyReqs T log = some T' ∧ w'.cur = T'.cur ∧ ExSub ex' T' ∧
      ((replayed cfg (db, k) = false ∧ ∀ D, T'.dbs D = T.dbs D) ∨
       (replayed cfg (db, k) = true ∧ ∃ x, x.1 = k.key.val ∧ H (db, k) x ∧
          ∀ D, T'.dbs D = if D = mapDb cfg (db : Int) then T.dbs D ++ [x] else T.dbs D))

theorem keysFrom_mem : ∀ (items : List Item) (db : Nat) (p : Nat × KeyE), p ∈ keysFrom db items → Item.key p.2 ∈ items := by
  intro items
  induction items with
  | nil => intro db p h; simp [keysFrom] at h
  | cons i items ih =>
    intro db p h
    cases i with
    | key k =>
      simp only [keysFrom, List.mem_cons] at h
      rcases h with rfl | h
      · exact List.mem_cons_self ..
      · exact List.mem_cons_of_mem _ (ih db p h)
    | _ => exact List.mem_cons_of_mem _ (ih _ p (by simpa [keysFrom] using h))

/-- the whole item list on the single worker, for ANY per-key result `H` whose key
    steps are available (`KeyStep`) -/
theorem replay_traceG (cfg : RCfg) (htick : cfg.tick = 0)
    (hpos : ∀ n : Nat, cfg.filterDb (n : Int) = false → 0 ≤ mapDb cfg (n : Int))
    (H : (Nat × KeyE) → (Bytes × Val × Nat) → Prop)
    {db : Nat} {items : List Item} {es : List Entry} (htr : Trace db items es) :
    (∀ p ∈ keysFrom db items, KeyStep cfg H p.1 p.2) →
    ∀ (w : Worker) (ex : Exists) (T : TState), w.cur = T.cur → ExSub ex T →
    (∀ p ∈ keysFrom db items, replayed cfg p = true →
      RedisSem.get (T.dbs (mapDb cfg (p.1 : Int))) p.2.key.val = none) →
    (((keysFrom db items).filter (replayed cfg)).map (fun p => (mapDb cfg (p.1 : Int), p.2.key.val))).Nodup →
    ∃ w' ex' T' log, runOne cfg es w ex = (w', ex', true) ∧ w'.log = w.log ++ log ∧
      applyReqs T log = some T' ∧
      ∀ D, ∃ l, T'.dbs D = T.dbs D ++ l ∧
        Pointwise H (expectedKeys cfg D (keysFrom db items)) l := by
  induction htr with
  | nil db =>
    intro _ w ex T _ _ _ _
    exact ⟨w, ex, T, [], rfl, by simp, rfl, fun D => ⟨[], by simp, Pointwise.nil⟩⟩
  | @skip db i items es hs _ ih =>
    intro hks w ex T hcur hsub hfresh hnd
    have hk : keysFrom db (i :: items) = keysFrom (dbAfter db i) items :=
      keysFrom_skip db i items (fun k h => by subst h; simp [Item.isSkip] at hs)
    rw [hk] at hks hfresh hnd
    simp only [hk]
    exact ih hks w ex T hcur hsub hfresh hnd
  | @aux db k v items es e hdb hrt _ ih =>
    intro hks w ex T hcur hsub hfresh hnd
    have hk : keysFrom db (Item.aux k v :: items) = keysFrom db items := rfl
    rw [hk] at hks hfresh hnd
    simp only [hk]
    obtain ⟨w1, log1, T1, hs1, hl1, ha1, hd1, hc1⟩ := workerStep_aux cfg w ex e T db htick hdb hrt hcur (hpos db)
    obtain ⟨w2, ex2, T2, log2, hs2, hl2, ha2, hfin⟩ := ih hks w1 ex T1 hc1
      (exSub_keep hsub (fun D => by rw [hd1])) (by rw [hd1]; exact hfresh) hnd
    refine ⟨w2, ex2, T2, log1 ++ log2, ?_, ?_, ?_, ?_⟩
    · simp only [runOne, hs1, if_true]; exact hs2
    · rw [hl2, hl1, List.append_assoc]
    · rw [applyReqs_append, ha1]; simpa using ha2
    · intro D; rw [← hd1]; exact hfin D
  | @function db code items es e hdb hrt _ ih =>
    intro hks w ex T hcur hsub hfresh hnd
    have hk : keysFrom db (Item.function code :: items) = keysFrom db items := rfl
    rw [hk] at hks hfresh hnd
    simp only [hk]
    obtain ⟨w1, log1, T1, hs1, hl1, ha1, hd1, hc1⟩ := workerStep_function cfg w ex e T htick hdb hrt hcur
    obtain ⟨w2, ex2, T2, log2, hs2, hl2, ha2, hfin⟩ := ih hks w1 ex T1 hc1
      (exSub_keep hsub (fun D => by rw [hd1])) (by rw [hd1]; exact hfresh) hnd
    refine ⟨w2, ex2, T2, log1 ++ log2, ?_, ?_, ?_, ?_⟩
    · simp only [runOne, hs1, if_true]; exact hs2
    · rw [hl2, hl1, List.append_assoc]
    · rw [applyReqs_append, ha1]; simpa using ha2
    · intro D; rw [← hd1]; exact hfin D
  | @key db k items ces es hke _ ih =>
    intro hks w ex T hcur hsub hfresh hnd
    have hk : keysFrom db (Item.key k :: items) = (db, k) :: keysFrom db items := rfl
    rw [hk] at hks hfresh hnd
    simp only [hk]
    obtain ⟨w1, ex1, T1, log1, hs1, hl1, ha1, hc1, hsub1, hcase⟩ := hks (db, k) (List.mem_cons_self ..) ces hke
      w ex T hcur hsub (hfresh (db, k) (List.mem_cons_self ..))
    have hks' : ∀ p ∈ keysFrom db items, KeyStep cfg H p.1 p.2 := fun p hp => hks p (List.mem_cons_of_mem _ hp)
    rcases hcase with ⟨hrep, hdbs⟩ | ⟨hrep, x, hx1, hx, hdbs⟩
    · -- filtered out: the target is untouched
      have hnd' : (((keysFrom db items).filter (replayed cfg)).map
          (fun p => (mapDb cfg (p.1 : Int), p.2.key.val))).Nodup := by
        simpa [List.filter_cons, hrep] using hnd
      obtain ⟨w2, ex2, T2, log2, hs2, hl2, ha2, hfin⟩ := ih hks' w1 ex1 T1 hc1 hsub1
        (fun p hp hr => by rw [hdbs]; exact hfresh p (List.mem_cons_of_mem _ hp) hr) hnd'
      refine ⟨w2, ex2, T2, log1 ++ log2, ?_, ?_, ?_, ?_⟩
      · rw [runOne_append cfg ces es w ex w1 ex1 hs1]; exact hs2
      · rw [hl2, hl1, List.append_assoc]
      · rw [applyReqs_append, ha1]; simpa using ha2
      · intro D
        obtain ⟨l, hl, hf⟩ := hfin D
        refine ⟨l, by rw [hl, hdbs], ?_⟩
        simpa [expectedKeys, List.filter_cons, hrep] using hf
    · -- replayed into `mapDb db`
      have hnd0 : ((mapDb cfg (db : Int), k.key.val) :: ((keysFrom db items).filter (replayed cfg)).map
          (fun p => (mapDb cfg (p.1 : Int), p.2.key.val))).Nodup := by
        simpa [List.filter_cons, hrep] using hnd
      obtain ⟨hnotin, hnd'⟩ := List.nodup_cons.mp hnd0
      obtain ⟨w2, ex2, T2, log2, hs2, hl2, ha2, hfin⟩ := ih hks' w1 ex1 T1 hc1 hsub1
        (by
          intro p hp hr
          rw [hdbs]
          have hf := hfresh p (List.mem_cons_of_mem _ hp) hr
          by_cases hD : mapDb cfg (p.1 : Int) = mapDb cfg (db : Int)
          · simp only [hD, if_true]
            rw [get_append_ne _ _ _ ?_]
            · rw [← hD]; exact hf
            · intro heq
              apply hnotin
              rw [List.mem_map]
              exact ⟨p, List.mem_filter.mpr ⟨hp, hr⟩, by rw [hD, ← heq, hx1]⟩
          · simp only [hD, if_false]; exact hf) hnd'
      refine ⟨w2, ex2, T2, log1 ++ log2, ?_, ?_, ?_, ?_⟩
      · rw [runOne_append cfg ces es w ex w1 ex1 hs1]; exact hs2
      · rw [hl2, hl1, List.append_assoc]
      · rw [applyReqs_append, ha1]; simpa using ha2
      · intro D
        obtain ⟨l, hl, hf⟩ := hfin D
        rw [hdbs D] at hl
        by_cases hD : D = mapDb cfg (db : Int)
        · refine ⟨x :: l, by rw [hl]; simp [hD], ?_⟩
          have : expectedKeys cfg D ((db, k) :: keysFrom db items) = (db, k) :: expectedKeys cfg D (keysFrom db items) := by
            simp [expectedKeys, hrep, hD]
          rw [this]
          exact Pointwise.cons hx hf
        · refine ⟨l, by rw [hl]; simp [hD], ?_⟩
          have : expectedKeys cfg D ((db, k) :: keysFrom db items) = expectedKeys cfg D (keysFrom db items) := by
            have hne : ¬ (mapDb cfg (db : Int) = D) := fun h => hD h.symm
            simp [expectedKeys, hne]
          rw [this]
          exact hf

/-- the key step of a value of a string / list / set / sorted-set / hash encoding -/
theorem keyStep_plain (cfg : RCfg) (htick : cfg.tick = 0) (hrht : cfg.replaceHashTag = false)
    (hpos : ∀ n : Nat, cfg.filterDb (n : Int) = false → 0 ≤ mapDb cfg (n : Int))
    (db : Nat) (k : KeyE) (hwf : k.wf) (hk : k.obj.kind ≠ .other) (hne : k.obj.nonempty) (hd : k.obj.members.Nodup)
    (hload : cfg.enableRestore = true → typeLoadable cfg.x.tgtMajor k.obj.rtype = true) :
    KeyStep cfg (Holds cfg) db k := by
  intro ces hke w ex T hcur hsub hfresh
  obtain ⟨w1, ex1, T1, log1, hs1, hl1, ha1, hc1, hsub1, hcase⟩ := key_step cfg htick hrht db k ces hke hwf hk hne hd
    hload (hpos db) w ex T hcur hsub hfresh
  refine ⟨w1, ex1, T1, log1, hs1, hl1, ha1, hc1, hsub1, ?_⟩
  rcases hcase with h | ⟨hrep, x, hx, hdbs⟩
  · exact Or.inl h
  · exact Or.inr ⟨hrep, x, hx.1, hx, hdbs⟩

theorem replay_trace (cfg : RCfg) (htick : cfg.tick = 0) (hrht : cfg.replaceHashTag = false)
    (hpos : ∀ n : Nat, cfg.filterDb (n : Int) = false → 0 ≤ mapDb cfg (n : Int))
    {db : Nat} {items : List Item} {es : List Entry} (htr : Trace db items es) :
    (∀ i ∈ items, i.wf) → (∀ i ∈ items, i.carried) →
    (∀ p ∈ keysFrom db items, cfg.enableRestore = true → typeLoadable cfg.x.tgtMajor p.2.obj.rtype = true) →
    ∀ (w : Worker) (ex : Exists) (T : TState), w.cur = T.cur → ExSub ex T →
    (∀ p ∈ keysFrom db items, replayed cfg p = true →
      RedisSem.get (T.dbs (mapDb cfg (p.1 : Int))) p.2.key.val = none) →
    (((keysFrom db items).filter (replayed cfg)).map (fun p => (mapDb cfg (p.1 : Int), p.2.key.val))).Nodup →
    ∃ w' ex' T' log, runOne cfg es w ex = (w', ex', true) ∧ w'.log = w.log ++ log ∧
      applyReqs T log = some T' ∧
      ∀ D, ∃ l, T'.dbs D = T.dbs D ++ l ∧
        Pointwise (Holds cfg) (expectedKeys cfg D (keysFrom db items)) l := by
  intro hwf hcar hload
  apply replay_traceG cfg htick hpos (Holds cfg) htr
  intro p hp
  have hmem := keysFrom_mem items db p hp
  obtain ⟨hkind, hne, hd⟩ := hcar _ hmem
  exact keyStep_plain cfg htick hrht hpos p.1 p.2 (hwf _ hmem) hkind hne hd (hload p hp)

/-! ## the whole file -/

theorem parseRdb_fileG (d : DCfg) (f : FileE) (hwf : f.wf) (hcar : ∀ i ∈ f.items, i.readable d)
    (hfoot : f.footer ≠ .bad) :
    ∃ es, parseRdb d (rdbFile f) = (es, true) ∧ Trace 0 (stripAux f.items) es := by
  obtain ⟨h1, h13, hitems⟩ := hwf
  have hft := footer_file f hfoot
  have hie := inputEnds_file f
  have hsplit : ∃ foot, rdbFile f = f.body ++ foot := by
    unfold rdbFile; exact ⟨_, rfl⟩
  obtain ⟨foot, hfile⟩ := hsplit
  have hdrop : (rdbFile f).drop f.body.length = foot := by rw [hfile]; simp
  rw [hdrop] at hft hie
  have hfile' : rdbFile f = b!"REDIS" ++ verDigits f.version ++ (f.items.flatMap Item.enc ++ 0xFF :: foot) := by
    rw [hfile]; simp [FileE.body]
  have hlen : (f.items.flatMap Item.enc).length + 1 ≤ (rdbFile f).length + 1 := by
    rw [hfile']; simp only [List.length_append]; omega
  obtain ⟨_, es, hpl, htr⟩ := parse_items d (rdbFile f) foot f.items hitems hcar {} ((rdbFile f).length + 1)
    ⟨rfl, rfl⟩ hlen
  refine ⟨es, ?_, htr⟩
  unfold parseRdb
  have hh : header (rdbFile f) = some (f.version, f.items.flatMap Item.enc ++ 0xFF :: foot) := by
    rw [hfile']; exact header_file f h1 h13 _
  simp only [hh, hpl, hft, hie, Bool.and_self]

theorem carried_readable (d : DCfg) (i : Item) (h : i.carried) : i.readable d ∧ i.isModAux = false := by
  cases i with
  | moduleAux id ops => exact absurd h (by simp [Item.carried])
  | key k => exact ⟨Or.inl ⟨h.1, h.2.1⟩, rfl⟩
  | _ => exact ⟨trivial, rfl⟩

theorem parseRdb_file (d : DCfg) (f : FileE) (hwf : f.wf) (hcar : ∀ i ∈ f.items, i.carried)
    (hfoot : f.footer ≠ .bad) :
    ∃ es, parseRdb d (rdbFile f) = (es, true) ∧ Trace 0 f.items es := by
  obtain ⟨es, h1, h2⟩ := parseRdb_fileG d f hwf (fun i hi => (carried_readable d i (hcar i hi)).1) hfoot
  have : stripAux f.items = f.items := by
    unfold stripAux
    rw [List.filter_eq_self]
    intro i hi
    simp [(carried_readable d i (hcar i hi)).2]
  rw [this] at h2
  exact ⟨es, h1, h2⟩

theorem exSub_nil (T : TState) : ExSub [] T := by
  intro D k h; simp [Exists.has] at h

/-- `full_sync` with the hypotheses spelled out (Props/C03.lean states it) -/
theorem full_sync_core (d : DCfg) (cfg : RCfg) (f : FileE)
    (hwf : f.wf) (hfoot : f.footer ≠ .bad) (hcar : ∀ i ∈ f.items, i.carried)
    (hpar : cfg.parallel = 1) (htick : cfg.tick = 0) (hrht : cfg.replaceHashTag = false)
    (hload : ∀ p ∈ f.keys, cfg.enableRestore = true → typeLoadable cfg.x.tgtMajor p.2.obj.rtype = true)
    (hdb : ∀ n : Nat, cfg.filterDb (n : Int) = false → 0 ≤ mapDb cfg (n : Int))
    (hdistinct : ((f.keys.filter (replayed cfg)).map (fun p => (mapDb cfg (p.1 : Int), p.2.key.val))).Nodup) :
    ∃ log T, sendRdb d cfg [] (rdbFile f) = ([log], true) ∧ applyReqs {} log = some T ∧
      ∀ D, Pointwise (Holds cfg) (expectedKeys cfg D f.keys) (T.dbs D) := by
  obtain ⟨es, hparse, htr⟩ := parseRdb_file d f hwf hcar hfoot
  obtain ⟨w', ex', T', log, hrun, hlog, happ, hfin⟩ := replay_trace cfg htick hrht hdb htr hwf.2.2 hcar hload
    {} [] {} rfl (exSub_nil _) (fun _ _ _ => rfl) hdistinct
  refine ⟨log, T', ?_, happ, ?_⟩
  · unfold sendRdb
    simp only [hparse, hpar, Nat.max_self, List.replicate_one, fanOut_one, hrun, List.map_cons, List.map_nil,
      Bool.and_self]
    simpa using hlog
  · intro D
    obtain ⟨l, hl, hf⟩ := hfin D
    have : T'.dbs D = l := by rw [hl]; rfl
    rw [this]; exact hf

end GunYu.Rdb
