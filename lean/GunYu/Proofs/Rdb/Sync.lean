/-
  Helper lemmas for C03 `full_sync`: the loader over a whole item list
  (fuel monotonicity of `Next`, items stepped over inside one `Next`, AUX and
  function items, segments of entries), the single-worker replay and the
  multi-database oracle.
-/
import GunYu.Proofs.Rdb.Chunk
import GunYu.Proofs.Rdb.Frame
import GunYu.Proofs.Rdb.FanOut
import GunYu.Proofs.Rdb.Sem
import GunYu.Model.Rdb.Dataset
namespace GunYu.Rdb
open GunYu GunYu.RedisSem

theorem nextLoop_mono (cfg : DCfg) : ∀ (F F' : Nat) (ls : LState) (e : Entry) (bs : Bytes)
    (r : Option Entry × LState × Bytes),
    nextLoop cfg F ls e bs = some r → F ≤ F' → nextLoop cfg F' ls e bs = some r := by
  intro F
  induction F with
  | zero => intro F' ls e bs r h; simp [nextLoop] at h
  | succ F ih =>
    intro F' ls e bs r h hle
    obtain ⟨G, rfl⟩ : ∃ G, F' = G + 1 := ⟨F' - 1, by omega⟩
    have hFG : F ≤ G := by omega
    revert h
    rw [nextLoop.eq_def, nextLoop.eq_def]; dsimp only
    by_cases h0 : ls.total - ls.read ≠ 0
    · rw [if_pos h0, if_pos h0]; exact id
    · rw [if_neg h0, if_neg h0]
      cases bs with
      | nil => exact id
      | cons t r =>
        dsimp only
        have IH := fun ls e bs r h => ih G ls e bs r h hFG
        by_cases h1 : t = 0xFA
        · rw [if_pos h1, if_pos h1]; exact id
        rw [if_neg h1, if_neg h1]
        by_cases h2 : t = 0xFB
        · rw [if_pos h2, if_pos h2]
          generalize skipLength r = x
          cases x with
          | none => exact id
          | some r1 =>
            dsimp only
            generalize skipLength r1 = y
            cases y with
            | none => exact id
            | some r2 => exact IH _ _ _ _
        rw [if_neg h2, if_neg h2]
        by_cases h3 : t = 0xFC
        · rw [if_pos h3, if_pos h3]
          generalize readN 8 r = x
          cases x with
          | none => exact id
          | some p => exact IH _ _ _ _
        rw [if_neg h3, if_neg h3]
        by_cases h4 : t = 0xFD
        · rw [if_pos h4, if_pos h4]
          generalize readN 4 r = x
          cases x with
          | none => exact id
          | some p => exact IH _ _ _ _
        rw [if_neg h4, if_neg h4]
        by_cases h5 : t = 0xFE
        · rw [if_pos h5, if_pos h5]
          generalize readLength r = x
          cases x with
          | none => exact id
          | some p => exact IH _ _ _ _
        rw [if_neg h5, if_neg h5]
        by_cases h6 : t = 0xF4
        · rw [if_pos h6, if_pos h6]
          generalize skipMany skipLength64 3 r = x
          cases x with
          | none => exact id
          | some p => exact IH _ _ _ _
        rw [if_neg h6, if_neg h6]
        by_cases h7 : t = 0xFF
        · rw [if_pos h7, if_pos h7]; exact id
        rw [if_neg h7, if_neg h7]
        by_cases h8 : t = 0xF7
        · rw [if_pos h8, if_pos h8]
          generalize skipLength64 r = x
          cases x with
          | none => exact id
          | some r1 =>
            dsimp only
            generalize skipModuleValue (r1.length + 1) r1 = y
            cases y with
            | none => exact id
            | some r2 =>
              dsimp only
              by_cases hf : cfg.failModAux = true
              · rw [if_pos hf, if_pos hf]; exact id
              · rw [if_neg hf, if_neg hf]; exact IH _ _ _ _
        rw [if_neg h8, if_neg h8]
        by_cases h9 : t = 0xF8
        · rw [if_pos h9, if_pos h9]
          generalize readLength r = x
          cases x with
          | none => exact id
          | some p => exact IH _ _ _ _
        rw [if_neg h9, if_neg h9]
        by_cases h10 : t = 0xF9
        · rw [if_pos h10, if_pos h10]
          cases r with
          | nil => exact id
          | cons f r1 => exact IH _ _ _ _
        rw [if_neg h10, if_neg h10]
        exact id

theorem skipLength_encLen' (f : LenForm) (n : Nat) (rest : Bytes) (h : f.fits n) :
    skipLength (encLen f n ++ rest) = some rest := by
  simp [skipLength, readLength, readEncodedLength_encLen f n rest h]

theorem skipLength64_encLen (f : LenForm) (n : Nat) (rest : Bytes) (h : f.fits n) :
    skipLength64 (encLen f n ++ rest) = some rest := by
  simp [skipLength64, readLength64_encLen f n rest h]

def Item.isSkip : Item → Bool
  | .selectDb .. | .resizeDb .. | .slotInfo .. => true
  | _ => false

def lsAfter (ls : LState) : Item → LState
  | .selectDb _ n => { ls with db := n }
  | _ => ls

theorem nextLoop_skip (cfg : DCfg) (F : Nat) (ls : LState) (e : Entry) (i : Item) (X : Bytes)
    (hls : ls.total - ls.read = 0) (hwf : i.wf) (hs : i.isSkip = true) :
    nextLoop cfg (F + 1) ls e (i.enc ++ X) = nextLoop cfg F (lsAfter ls i) e X := by
  have hn : ¬ (ls.total - ls.read ≠ 0) := by omega
  cases i with
  | selectDb f n =>
    obtain ⟨hf, h32⟩ := hwf
    simp only [Item.enc, List.cons_append, nextLoop, hn, if_false, lsAfter]
    simp only [show ((0xFE : UInt8) = 0xFA) = False by decide, show ((0xFE : UInt8) = 0xFB) = False by decide,
        show ((0xFE : UInt8) = 0xFC) = False by decide, show ((0xFE : UInt8) = 0xFD) = False by decide,
        if_false, if_true]
    rw [readLength_encLen f n X hf h32]
  | resizeDb f1 a f2 b =>
    obtain ⟨h1, h2⟩ := hwf
    simp only [Item.enc, List.cons_append, nextLoop, hn, if_false, lsAfter, List.append_assoc]
    simp only [show ((0xFB : UInt8) = 0xFA) = False by decide, if_false, if_true]
    rw [skipLength_encLen' f1 a _ h1]
    simp only
    rw [skipLength_encLen' f2 b _ h2]
  | slotInfo a b c =>
    obtain ⟨ha, hb, hc⟩ := hwf
    simp only [Item.enc, List.cons_append, nextLoop, hn, if_false, lsAfter, List.append_assoc]
    simp only [show ((0xF4 : UInt8) = 0xFA) = False by decide, show ((0xF4 : UInt8) = 0xFB) = False by decide,
        show ((0xF4 : UInt8) = 0xFC) = False by decide, show ((0xF4 : UInt8) = 0xFD) = False by decide,
        show ((0xF4 : UInt8) = 0xFE) = False by decide,
        if_false, if_true]
    simp only [skipMany, skipLength64_encLen _ _ _ (minForm_fits a ha), skipLength64_encLen _ _ _ (minForm_fits b hb),
      skipLength64_encLen _ _ _ (minForm_fits c hc)]
  | _ => simp [Item.isSkip] at hs

theorem item_enc_pos (i : Item) (hs : i.isSkip = true) : 1 ≤ i.enc.length := by
  cases i <;> simp [Item.isSkip, Item.enc] at hs ⊢

theorem next_skip (cfg : DCfg) (ls : LState) (i : Item) (X : Bytes) (r : Option Entry × LState × Bytes)
    (hls : ls.total - ls.read = 0) (hwf : i.wf) (hs : i.isSkip = true)
    (h : next cfg (lsAfter ls i) X = some r) : next cfg ls (i.enc ++ X) = some r := by
  unfold next at h ⊢
  rw [nextLoop_skip cfg _ ls {} i X hls hwf hs]
  apply nextLoop_mono cfg _ _ _ _ _ _ h
  have := item_enc_pos i hs
  simp only [List.length_append]; omega

/-- the parser object of an AUX field -/
def auxObj (k v : SE) : PObj := { rtype := 0xFA, key := k.val, val := v.val, buf := v.enc }

theorem next_aux (cfg : DCfg) (ls : LState) (k v : SE) (X : Bytes)
    (hls : ls.total = 0 ∧ ls.read = 0) (hk : k.wf) (hv : v.wf) :
    next cfg ls ((Item.aux k v).enc ++ X) =
      some (some { db := (ls.db : Int), key := k.val, type := 0xFA, obj := auxObj k v }, ls, X) := by
  obtain ⟨h1, h2⟩ := hls
  have hn : ¬ (ls.total - ls.read ≠ 0) := by omega
  have hrb : readBuffer cfg ls 0xFA (k.enc ++ (v.enc ++ X)) = some (auxObj k v, ls, X) := by
    unfold readBuffer
    have hot : otypeOf 0xFA = some .aux := by decide
    simp only [hot, h1, h2, Nat.sub_self, ne_eq, not_true_eq_false, if_false,
      show (OType.aux = OType.function) = False by decide, readString_enc k _ hk,
      show ((0xFA : UInt8) = 4) = False by decide]
    have hsv : skipValue 0xFA (v.enc ++ X) = some X := by simp [skipValue, skipString_enc v X hv]
    cases ls
    simp_all [consumed_append, readString_enc v X hv, auxObj]
  unfold next
  simp only [Item.enc, List.cons_append, List.append_assoc, nextLoop, hn, if_false, if_true, hrb]
  rfl

def fnObj (code : SE) : PObj := { rtype := 0xF5, key := [], val := [], buf := code.enc }

theorem next_function (cfg : DCfg) (ls : LState) (code : SE) (X : Bytes)
    (hls : ls.total = 0 ∧ ls.read = 0) (hc : code.wf) :
    next cfg ls ((Item.function code).enc ++ X) =
      some (some { key := [], type := 0xF5, obj := fnObj code }, ls, X) := by
  obtain ⟨h1, h2⟩ := hls
  have hn : ¬ (ls.total - ls.read ≠ 0) := by omega
  have hrb : readBuffer cfg ls 0xF5 (code.enc ++ X) = some (fnObj code, ls, X) := by
    unfold readBuffer
    have hot : otypeOf 0xF5 = some .function := by decide
    simp only [hot, h1, h2, Nat.sub_self, if_true,
      show ((0xF5 : UInt8) = 4) = False by decide, if_false]
    have hsv : skipValue 0xF5 (code.enc ++ X) = some X := by simp [skipValue, skipString_enc code X hc]
    cases ls
    simp_all [consumed_append, fnObj]
  unfold next
  simp only [Item.enc, List.cons_append, nextLoop, hn, if_false, hrb]
  simp only [show ((0xF5 : UInt8) = 0xFA) = False by decide, show ((0xF5 : UInt8) = 0xFB) = False by decide,
        show ((0xF5 : UInt8) = 0xFC) = False by decide, show ((0xF5 : UInt8) = 0xFD) = False by decide,
        show ((0xF5 : UInt8) = 0xFE) = False by decide, show ((0xF5 : UInt8) = 0xF4) = False by decide,
        show ((0xF5 : UInt8) = 0xFF) = False by decide, show ((0xF5 : UInt8) = 0xF7) = False by decide,
        show ((0xF5 : UInt8) = 0xF8) = False by decide, show ((0xF5 : UInt8) = 0xF9) = False by decide,
        if_false, if_true]

/-! ## segments of entries -/

/-- `es` are the entries successive `Next` calls return from `(ls, bs)`; they end at `(ls', bs')` -/
inductive Seg (cfg : DCfg) : LState → Bytes → List Entry → LState → Bytes → Prop
  | nil (ls : LState) (bs : Bytes) : Seg cfg ls bs [] ls bs
  | cons {ls : LState} {bs : Bytes} {e : Entry} {ls1 : LState} {bs1 : Bytes} {es : List Entry}
      {ls' : LState} {bs' : Bytes} :
      next cfg ls bs = some (some e, ls1, bs1) → Seg cfg ls1 bs1 es ls' bs' → Seg cfg ls bs (e :: es) ls' bs'

theorem parseLoop_seg (cfg : DCfg) (whole : Bytes) {ls : LState} {bs : Bytes} {es : List Entry}
    {ls' : LState} {bs' : Bytes} (h : Seg cfg ls bs es ls' bs') (F : Nat) :
    parseLoop cfg whole (es.length + F) ls bs =
      (es ++ (parseLoop cfg whole F ls' bs').1, (parseLoop cfg whole F ls' bs').2) := by
  induction h with
  | nil ls bs => simp
  | @cons ls bs e ls1 bs1 es ls' bs' hn _ ih =>
    rw [show (e :: es).length + F = (es.length + F) + 1 by simp; omega]
    simp only [parseLoop, hn, ih, List.cons_append]

theorem nextValue_seg (cfg : DCfg) : ∀ (fuel : Nat) (ls : LState) (bs : Bytes) (es : List Entry)
    (ls' : LState) (rest : Bytes), nextValue cfg fuel ls bs = some (es, ls', rest) →
    Seg cfg ls bs es ls' rest ∧ es.length ≤ fuel := by
  intro fuel
  induction fuel with
  | zero => intro ls bs es ls' rest h; simp [nextValue] at h
  | succ fuel ih =>
    intro ls bs es ls' rest h
    simp only [nextValue] at h
    cases hn : next cfg ls bs with
    | none => simp [hn] at h
    | some r =>
      obtain ⟨oe, ls1, r1⟩ := r
      cases oe with
      | none => simp [hn] at h
      | some e =>
        simp only [hn] at h
        by_cases hz : ls1.total - ls1.read = 0
        · simp only [hz, if_true, Option.some.injEq, Prod.mk.injEq] at h
          obtain ⟨rfl, rfl, rfl⟩ := h
          exact ⟨Seg.cons hn (Seg.nil _ _), by simp⟩
        · simp only [hz, if_false] at h
          cases hv : nextValue cfg fuel ls1 r1 with
          | none => simp [hv] at h
          | some q =>
            obtain ⟨es1, l, r⟩ := q
            simp only [hv, Option.some.injEq, Prod.mk.injEq] at h
            obtain ⟨rfl, rfl, rfl⟩ := h
            obtain ⟨hs, hl⟩ := ih _ _ _ _ _ hv
            exact ⟨Seg.cons hn hs, by simp; omega⟩

/-! ## the loader over a whole item list -/

theorem encLen_pos (f : LenForm) (n : Nat) : 1 ≤ (encLen f n).length := by
  cases f <;> simp [encLen]

theorem se_enc_pos (s : SE) : 1 ≤ s.enc.length := by
  cases s <;> simp [SE.enc]
  have := encLen_pos ‹_› (List.length ‹_›); omega

theorem encPairs_len (ps : List (SE × SE)) : ps.length ≤ (encPairs ps).length := by
  induction ps with
  | nil => simp [encPairs]
  | cons p ps ih =>
    have := se_enc_pos p.1
    simp only [encPairs, List.flatMap_cons, List.length_append, List.length_cons] at ih ⊢
    omega

theorem rtype4_hashTable (o : ObjE) (hk : o.kind ≠ .other) (h4 : o.rtype = 4) :
    ∃ f items, o = .hashTable f items := by
  cases o <;> first
    | exact ⟨_, _, rfl⟩
    | exact absurd rfl hk
    | (simp [ObjE.rtype] at h4)

/-- what every entry of key item `k`, read in source database `db`, carries -/
def EntryOf (db : Nat) (k : KeyE) (e : Entry) : Prop :=
  e.key = k.key.val ∧ e.db = (db : Int) ∧ e.expireAt = k.exp.at

/-- the entries the loader returns for key item `k`: ONE entry with the parser object
    of the whole value, or — a hash table above the chunk threshold — several chunks -/
def KeyEntries (db : Nat) (k : KeyE) (ces : List Entry) : Prop :=
  (∃ e, ces = [e] ∧ EntryOf db k e ∧ e.obj = pobjOf k.key.val k.obj) ∨
  (∃ f items e0 tl, k.obj = .hashTable f items ∧ ces = e0 :: tl ∧
    (∀ e ∈ ces, EntryOf db k e ∧ e.obj.key = k.key.val ∧ e.obj.rtype = 4 ∧ e.obj.isSplited = true ∧
      (hashPairs e.obj).isSome) ∧
    e0.obj.firstBin = true ∧ (∀ e ∈ tl, e.obj.firstBin = false) ∧
    ces.flatMap (fun e => (hashPairs e.obj).getD []) = pairVals items)

/-- the entries of an item list read from source database `db` -/
inductive Trace : Nat → List Item → List Entry → Prop
  | nil (db : Nat) : Trace db [] []
  | skip {db : Nat} {i : Item} {items : List Item} {es : List Entry} :
      i.isSkip = true → Trace (dbAfter db i) items es → Trace db (i :: items) es
  | aux {db : Nat} {k v : SE} {items : List Item} {es : List Entry} {e : Entry} :
      e.db = (db : Int) → e.obj.rtype = 0xFA → Trace db items es → Trace db (.aux k v :: items) (e :: es)
  | function {db : Nat} {code : SE} {items : List Item} {es : List Entry} {e : Entry} :
      e.db = -1 → e.obj.rtype = 0xF5 → Trace db items es → Trace db (.function code :: items) (e :: es)
  | key {db : Nat} {k : KeyE} {items : List Item} {ces es : List Entry} :
      KeyEntries db k ces → Trace db items es → Trace db (.key k :: items) (ces ++ es)

theorem lsAfter_db (ls : LState) (i : Item) : (lsAfter ls i).db = dbAfter ls.db i := by
  cases i <;> rfl

theorem lsAfter_counts (ls : LState) (i : Item) :
    (lsAfter ls i).total = ls.total ∧ (lsAfter ls i).read = ls.read := by
  cases i <;> exact ⟨rfl, rfl⟩

theorem parseLoop_same (cfg : DCfg) (whole : Bytes) (F : Nat) (ls ls' : LState) (bs bs' : Bytes)
    (h : next cfg ls bs = next cfg ls' bs') :
    parseLoop cfg whole F ls bs = parseLoop cfg whole F ls' bs' := by
  cases F with
  | zero => rfl
  | succ F => simp only [parseLoop, h]

theorem keyE_enc_len (k : KeyE) : 1 + k.key.enc.length + k.obj.ser.length ≤ k.enc.length := by
  simp only [KeyE.enc, List.length_append, List.length_cons, List.length_nil]; omega

theorem parse_items (cfg : DCfg) (whole foot : Bytes) : ∀ (items : List Item),
    (∀ i ∈ items, i.wf) → (∀ i ∈ items, i.carried) →
    ∀ (ls : LState) (F : Nat), ls.total = 0 ∧ ls.read = 0 → (items.flatMap Item.enc).length + 1 ≤ F →
      (next cfg ls (items.flatMap Item.enc ++ 0xFF :: foot)).isSome = true ∧
      ∃ es, parseLoop cfg whole F ls (items.flatMap Item.enc ++ 0xFF :: foot) =
              (es, footer whole foot && inputEnds foot) ∧ Trace ls.db items es := by
  intro items
  induction items with
  | nil =>
    intro _ _ ls F hls hF
    have hn : ¬ (ls.total - ls.read ≠ 0) := by omega
    have hnext : next cfg ls (0xFF :: foot) = some (none, ls, foot) := by
      unfold next
      simp only [nextLoop, hn, if_false]
      simp only [show ((0xFF : UInt8) = 0xFA) = False by decide, show ((0xFF : UInt8) = 0xFB) = False by decide,
        show ((0xFF : UInt8) = 0xFC) = False by decide, show ((0xFF : UInt8) = 0xFD) = False by decide,
        show ((0xFF : UInt8) = 0xFE) = False by decide, show ((0xFF : UInt8) = 0xF4) = False by decide,
        if_false, if_true]
    obtain ⟨F', rfl⟩ : ∃ F', F = F' + 1 := ⟨F - 1, by omega⟩
    simp only [List.flatMap_nil, List.nil_append, hnext, Option.isSome_some, parseLoop, true_and]
    exact ⟨[], rfl, Trace.nil _⟩
  | cons i items ih =>
    intro hwf hcar ls F hls hF
    have hwfi := hwf i (List.mem_cons_self ..)
    have hcari := hcar i (List.mem_cons_self ..)
    have ih' := ih (fun x hx => hwf x (List.mem_cons_of_mem _ hx)) (fun x hx => hcar x (List.mem_cons_of_mem _ hx))
    simp only [List.flatMap_cons, List.append_assoc, List.length_append] at hF ⊢
    generalize hX : items.flatMap Item.enc ++ 0xFF :: foot = X at ih' ⊢
    have hls0 : ls.total - ls.read = 0 := by omega
    by_cases hs : i.isSkip = true
    · -- SELECTDB / RESIZEDB / slot info: stepped over inside `Next`
      have hc := lsAfter_counts ls i
      obtain ⟨hsome, es, hpl, htr⟩ := ih' (lsAfter ls i) F (by rw [hc.1, hc.2]; exact hls) (by omega)
      obtain ⟨r, hr⟩ := Option.isSome_iff_exists.mp hsome
      have hnx := next_skip cfg ls i X r hls0 hwfi hs hr
      refine ⟨by rw [hnx]; rfl, es, ?_, ?_⟩
      · rw [parseLoop_same cfg whole F ls (lsAfter ls i) (i.enc ++ X) X (by rw [hnx, hr]), hpl]
      · rw [lsAfter_db] at htr
        exact Trace.skip hs htr
    · cases i with
      | selectDb f n => simp [Item.isSkip] at hs
      | resizeDb f1 a f2 b => simp [Item.isSkip] at hs
      | slotInfo a b c => simp [Item.isSkip] at hs
      | moduleAux id ops => exact absurd hcari (by simp [Item.carried])
      | aux k v =>
        have hnx := next_aux cfg ls k v X hls hwfi.1 hwfi.2
        have hpos : 1 ≤ (Item.aux k v).enc.length := by simp [Item.enc]
        obtain ⟨F', rfl⟩ : ∃ F', F = F' + 1 := ⟨F - 1, by omega⟩
        obtain ⟨_, es, hpl, htr⟩ := ih' ls F' hls (by omega)
        refine ⟨by rw [hnx]; rfl, _ :: es, ?_,
          Trace.aux (e := { db := (ls.db : Int), key := k.val, type := 0xFA, obj := auxObj k v }) rfl rfl htr⟩
        simp only [parseLoop, hnx, hpl]
      | function code =>
        have hnx := next_function cfg ls code X hls hwfi
        have hpos : 1 ≤ (Item.function code).enc.length := by simp [Item.enc]
        obtain ⟨F', rfl⟩ : ∃ F', F = F' + 1 := ⟨F - 1, by omega⟩
        obtain ⟨_, es, hpl, htr⟩ := ih' ls F' hls (by omega)
        refine ⟨by rw [hnx]; rfl, _ :: es, ?_,
          Trace.function (e := { key := [], type := 0xF5, obj := fnObj code }) rfl rfl htr⟩
        simp only [parseLoop, hnx, hpl]
      | key k =>
        obtain ⟨hk, hne, _⟩ := hcari
        have hwfk : k.wf := hwfi
        have hlen := keyE_enc_len k
        simp only [Item.enc] at hF ⊢
        by_cases h4 : k.obj.rtype = 4
        · obtain ⟨f, its, hobj⟩ := rtype4_hashTable k.obj hk h4
          have hne' : its ≠ [] := by
            intro h0
            rw [hobj, h0] at hne
            simp [ObjE.nonempty, ObjE.kind, ObjE.pairs] at hne
          obtain ⟨ces, ls', hnv, _, hdb, hall, ⟨e0, tl, hces, hfb0, hfbtl⟩, hsome, hflat, hz1, hz2, halt⟩ :=
            nextValue_hash cfg ls k f its X hobj hls hwfk hne'
          obtain ⟨hseg, hcl⟩ := nextValue_seg cfg _ _ _ _ _ _ hnv
          have hser : its.length + 1 ≤ k.obj.ser.length := by
            rw [hobj]
            have := encPairs_len its
            have := encLen_pos f its.length
            simp only [ObjE.ser, List.length_append, encPairs] at *
            omega
          obtain ⟨_, es, hpl, htr⟩ := ih' ls' (F - ces.length) ⟨hz1, hz2⟩ (by omega)
          have hps := parseLoop_seg cfg whole hseg (F - ces.length)
          rw [show ces.length + (F - ces.length) = F by omega, hpl] at hps
          have hnx : (next cfg ls (k.enc ++ X)).isSome = true := by
            rw [hces] at hseg
            cases hseg with
            | cons hn _ => rw [hn]; rfl
          refine ⟨hnx, ces ++ es, hps, ?_⟩
          rw [hdb] at htr
          refine Trace.key ?_ htr
          rcases halt with ⟨e, he1, he2⟩ | hsp
          · refine Or.inl ⟨e, he1, ?_, he2⟩
            have := hall e (by rw [he1]; simp)
            exact ⟨this.1, this.2.1, this.2.2.1⟩
          · refine Or.inr ⟨f, its, e0, tl, hobj, hces, ?_, hfb0, hfbtl, hflat⟩
            intro e he
            have := hall e he
            exact ⟨⟨this.1, this.2.1, this.2.2.1⟩, this.2.2.2.2.2.2.1, this.2.2.2.2.2.2.2, hsp e he, hsome e he⟩
        · obtain ⟨e, ls', hnx, he1, he2, he3, _, _, _, he7, hdb, hz1, hz2⟩ := next_plain cfg ls k X hls hwfk hk h4
          obtain ⟨F', rfl⟩ : ∃ F', F = F' + 1 := ⟨F - 1, by omega⟩
          obtain ⟨_, es, hpl, htr⟩ := ih' ls' F' ⟨hz1, hz2⟩ (by omega)
          refine ⟨by rw [hnx]; rfl, [e] ++ es, ?_, ?_⟩
          · simp only [parseLoop, hnx, hpl, List.singleton_append]
          · rw [hdb] at htr
            exact Trace.key (Or.inl ⟨e, rfl, ⟨he1, he2, he3⟩, he7⟩) htr

end GunYu.Rdb
