/-
  Helper lemmas for C03 `full_sync` over datasets WITH streams, module values and
  module aux items (session 4): the key step of a stream (RESTORE, or XADD / XSETID /
  XGROUP / XCLAIM through the oracle) and of a module value (RESTORE only), and the
  whole-file theorem `full_sync_coreS` over `Item.carriedS`.
-/
import GunYu.Proofs.Rdb.Sync
import GunYu.Proofs.Rdb.StreamSem
import GunYu.Proofs.Rdb.StreamNames

namespace GunYu.Rdb
open GunYu GunYu.RedisSem

/-! ## replay of one unsplit entry, for any value kind -/

theorem replay_restoreG (cfg : RCfg) (D : Int) (ex : Exists) (e : Entry) (k : Bytes) (o : ObjE) (ot : OType)
    (hobj : e.obj = pobjOf k o) (hkey : e.key = k)
    (hot : otypeOf o.rtype = some ot) (hnf1 : ot ≠ .function) (hnf2 : ot ≠ .aux)
    (hsplit : (pobjOf k o).isSplited = false) (hv : viaRestore cfg o)
    (hload : typeLoadable cfg.x.tgtMajor o.rtype = true) (hrht : cfg.replaceHashTag = false)
    (hex : ex.has D k = false) :
    ∃ opts ex', replayEntry cfg D ex e =
      ([cmdB b!"restore" (k :: natToDec (ttlOf cfg.now e.expireAt) :: createValueDump o.rtype o.ser :: opts)],
        ex', true) ∧ ExGrows ex ex' D k := by
  obtain ⟨hon, hsz⟩ := hv
  have hsize : ¬ ((pobjOf k o).valueDumpSize > cfg.maxBulk) := by
    simp only [PObj.valueDumpSize, pobjOf]; omega
  have hdump : (pobjOf k o).dump = createValueDump o.rtype o.ser := rfl
  have hrt : (pobjOf k o).rtype = o.rtype := rfl
  simp only [replayEntry, dstKey, hrht, Bool.false_eq_true, if_false, hobj, hkey]
  simp only [hrt, hot, hnf1, hnf2, or_self, if_false, hon, hsplit, hsize, decide_false, Bool.or_self,
    Bool.not_false, Bool.and_self, Bool.not_true, Bool.false_eq_true, hdump, hload, if_true, hex,
    List.cons_append, List.nil_append]
  exact ⟨_, _, rfl, exGrows_ite _ (exGrows_del (exGrows_refl _ _ _)) (exGrows_add (exGrows_refl _ _ _))⟩

theorem replay_expandG (cfg : RCfg) (D : Int) (ex : Exists) (e : Entry) (k : Bytes) (o : ObjE) (ot : OType)
    (cs : List Cmd) (hobj : e.obj = pobjOf k o) (hkey : e.key = k)
    (hot : otypeOf o.rtype = some ot) (hnf1 : ot ≠ .function) (hnf2 : ot ≠ .aux) (hnf3 : ot ≠ .module)
    (hsplit : (pobjOf k o).isSplited = false) (hfb : (pobjOf k o).firstBin = true)
    (hexec : execCmd cfg.x (pobjOf k o) = some cs)
    (hnv : ¬ viaRestore cfg o) (hrht : cfg.replaceHashTag = false) (hex : ex.has D k = false) :
    ∃ ex', replayEntry cfg D ex e =
      ([cmdB b!"exists" [k]] ++ cs ++
        (if e.expireAt ≠ 0 then [cmdB b!"pexpire" [k, natToDec (ttlOf cfg.now e.expireAt)]] else []), ex', true) ∧
      ExGrows ex ex' D k := by
  have hrt : (pobjOf k o).rtype = o.rtype := rfl
  have hrc : (cfg.enableRestore && !(decide ((pobjOf k o).valueDumpSize > cfg.maxBulk) || (pobjOf k o).isSplited)) = false := by
    cases hon : cfg.enableRestore with
    | false => rfl
    | true =>
      have : (pobjOf k o).valueDumpSize > cfg.maxBulk := by
        simp only [PObj.valueDumpSize, pobjOf]
        unfold viaRestore at hnv
        simp only [hon, true_and] at hnv
        omega
      simp [this]
  simp only [replayEntry, dstKey, hrht, Bool.false_eq_true, if_false, hobj, hkey]
  simp only [hrt, hot, hnf1, hnf2, or_self, if_false, hrc, Bool.not_false, if_true]
  simp only [expandEntry, hnf3, if_false]
  simp only [hrht, Bool.false_eq_true, if_false, hobj, hkey, hfb, if_true, hex, hexec, Option.map_some, rewrite_self]
  exact ⟨_, rfl, exGrows_ite _ (exGrows_del (exGrows_ite _ (exGrows_del (exGrows_refl _ _ _))
    (exGrows_add (exGrows_del (exGrows_refl _ _ _))))) (exGrows_ite _ (exGrows_del (exGrows_refl _ _ _))
    (exGrows_add (exGrows_del (exGrows_refl _ _ _))))⟩

/-- probe, any expansion that creates the fresh key with value `v`, and PEXPIRE -/
theorem apply_expandG (ks : Keyspace) (k : Bytes) (cs : List Cmd) (v : Val) (exp ttl : Nat)
    (hfresh : RedisSem.get ks k = none) (happ : applyCmds ks cs = some (ks ++ [(k, v, 0)]))
    (httl : exp = 0 → ttl = 0) :
    applyCmds ks ([cmdB b!"exists" [k]] ++ cs ++
        (if exp ≠ 0 then [cmdB b!"pexpire" [k, natToDec ttl]] else [])) =
      some (ks ++ [(k, v, ttl)]) := by
  rw [applyCmds_append, applyCmds_append]
  simp only [applyCmds, apply_exists, Option.bind_some]
  rw [happ]
  simp only [Option.bind_some]
  by_cases h0 : exp = 0
  · simp [h0, applyCmds, httl h0]
  · simp only [h0, ne_eq, not_false_eq_true, if_true, applyCmds, apply_pexpire, doPexpire,
      decToNat_natToDec, get_frame ks k _ _ hfresh, put_frame ks k _ _ _ _ hfresh]

/-! ## the same onto a key that EXISTS on the target (re-sync): probe, DEL, expansion, PEXPIRE -/

theorem get_del (ks : Keyspace) (k : Bytes) : RedisSem.get (del ks k) k = none := by
  unfold RedisSem.get del
  have : (ks.filter (fun e => !(e.1 == k))).find? (fun e => e.1 == k) = none := by
    rw [List.find?_eq_none]
    intro x hx
    have := (List.mem_filter.mp hx).2
    simpa using this
  rw [this]; rfl

theorem lower_del : lower b!"del" = b!"del" := by decide

theorem apply_del (ks : Keyspace) (k : Bytes) : applyXCmd ks (cmdB b!"del" [k]) = some (del ks k) := by
  simp [applyXCmd, applyCmd, cmdB, lower_del, argBytes]

theorem replay_expand_existingG (cfg : RCfg) (D : Int) (ex : Exists) (e : Entry) (k : Bytes) (o : ObjE) (ot : OType)
    (cs : List Cmd) (hobj : e.obj = pobjOf k o) (hkey : e.key = k)
    (hot : otypeOf o.rtype = some ot) (hnf1 : ot ≠ .function) (hnf2 : ot ≠ .aux) (hnf3 : ot ≠ .module)
    (hsplit : (pobjOf k o).isSplited = false) (hfb : (pobjOf k o).firstBin = true)
    (hexec : execCmd cfg.x (pobjOf k o) = some cs)
    (hnv : ¬ viaRestore cfg o) (hrht : cfg.replaceHashTag = false) (hex : ex.has D k = true) :
    (replayEntry cfg D ex e).1 =
      [cmdB b!"exists" [k], cmdB b!"del" [k]] ++ cs ++
        (if e.expireAt ≠ 0 then [cmdB b!"pexpire" [k, natToDec (ttlOf cfg.now e.expireAt)]] else []) ∧
    (replayEntry cfg D ex e).2.2 = true := by
  have hrt : (pobjOf k o).rtype = o.rtype := rfl
  have hrc : (cfg.enableRestore && !(decide ((pobjOf k o).valueDumpSize > cfg.maxBulk) || (pobjOf k o).isSplited)) = false := by
    cases hon : cfg.enableRestore with
    | false => rfl
    | true =>
      have : (pobjOf k o).valueDumpSize > cfg.maxBulk := by
        simp only [PObj.valueDumpSize, pobjOf]
        unfold viaRestore at hnv
        simp only [hon, true_and] at hnv
        omega
      simp [this]
  simp only [replayEntry, dstKey, hrht, Bool.false_eq_true, if_false, hobj, hkey]
  simp only [hrt, hot, hnf1, hnf2, or_self, if_false, hrc, Bool.not_false, if_true]
  simp only [expandEntry, hnf3, if_false]
  simp only [hrht, Bool.false_eq_true, if_false, hobj, hkey, hfb, if_true, hex, hexec, Option.map_some, rewrite_self]
  exact ⟨by simp, trivial⟩

/-- probe, DEL, any expansion that builds value `v` on the then-absent key, PEXPIRE: whatever
    the key held before (another type, a stream with a higher last id and other groups, a TTL)
    is gone; the key holds exactly `v` -/
theorem apply_expand_existingG (ks : Keyspace) (k : Bytes) (cs : List Cmd) (v : Val) (exp ttl : Nat)
    (happ : ∀ ks', RedisSem.get ks' k = none → applyCmds ks' cs = some (ks' ++ [(k, v, 0)]))
    (httl : exp = 0 → ttl = 0) :
    applyCmds ks ([cmdB b!"exists" [k], cmdB b!"del" [k]] ++ cs ++
        (if exp ≠ 0 then [cmdB b!"pexpire" [k, natToDec ttl]] else [])) =
      some (del ks k ++ [(k, v, ttl)]) := by
  have hfresh := get_del ks k
  rw [applyCmds_append, applyCmds_append]
  simp only [applyCmds, apply_exists, apply_del, Option.bind_some]
  rw [happ _ hfresh]
  simp only [Option.bind_some]
  by_cases h0 : exp = 0
  · simp [h0, applyCmds, httl h0]
  · simp only [h0, ne_eq, not_false_eq_true, if_true, applyCmds, apply_pexpire, doPexpire,
      decToNat_natToDec, get_frame _ k _ _ hfresh, put_frame _ k _ _ _ _ hfresh]

/-! ## the stream commands are keyspace commands -/

/-- every expected command of a stream is named XADD, XSETID, XGROUP or XCLAIM -/
theorem stream_cmds_names (x : XCfg) (s : StreamE) (k : Bytes) : ∀ c ∈ s.cmds x k, streamName c := by
  intro c hc
  simp only [StreamE.cmds, List.mem_append, List.mem_flatMap, List.mem_map, List.mem_singleton] at hc
  rcases hc with ((hc | hc) | hc) | hc
  · obtain ⟨n, _, p, _, rfl⟩ := hc
    exact Or.inl rfl
  · split at hc
    · simp only [List.mem_singleton] at hc; subst hc; exact Or.inl rfl
    · simp at hc
  · subst hc; exact Or.inr (Or.inl rfl)
  · obtain ⟨g, _, hg⟩ := hc
    simp only [SGroupE.cmds, List.mem_cons, List.mem_flatMap, List.mem_append, List.mem_map] at hg
    rcases hg with rfl | ⟨c0, _, hcc | ⟨p, _, rfl⟩⟩
    · exact Or.inr (Or.inr (Or.inl rfl))
    · split at hcc
      · simp only [List.mem_singleton] at hcc; subst hcc; exact Or.inr (Or.inr (Or.inl rfl))
      · cases hcc
    · exact Or.inr (Or.inr (Or.inr rfl))

theorem stream_cmds_keyCmd (x : XCfg) (s : StreamE) (k : Bytes) : ∀ c ∈ s.cmds x k, keyCmd c := by
  intro c hc
  rcases stream_cmds_names x s k c hc with h | h | h | h <;>
    exact keyCmd_name _ _ h (by decide)

/-! ## key steps -/

theorem valueS_plain (x : XCfg) (o : ObjE) (hk : o.kind ≠ .other) : o.valueS x = o.value := by
  cases o <;> first | rfl | exact absurd rfl hk

theorem holds_holdsS (cfg : RCfg) (p : Nat × KeyE) (x : Bytes × Val × Nat) (hk : p.2.obj.kind ≠ .other)
    (h : Holds cfg p x) : HoldsS cfg p x := by
  obtain ⟨h1, h2, h3⟩ := h
  refine ⟨h1, h2, ?_⟩
  rw [valueS_plain cfg.x p.2.obj hk]
  exact h3

/-- a value of a string / list / set / sorted-set / hash encoding (from `key_step`) -/
theorem keyStepS_plain (cfg : RCfg) (htick : cfg.tick = 0) (hrht : cfg.replaceHashTag = false)
    (hpos : ∀ n : Nat, cfg.filterDb (n : Int) = false → 0 ≤ mapDb cfg (n : Int))
    (db : Nat) (k : KeyE) (hwf : k.wf) (hk : k.obj.kind ≠ .other) (hne : k.obj.nonempty) (hd : k.obj.members.Nodup)
    (hload : cfg.enableRestore = true → typeLoadable cfg.x.tgtMajor k.obj.rtype = true) :
    KeyStep cfg (HoldsS cfg) db k := by
  intro ces hke w ex T hcur hsub hfresh
  obtain ⟨w1, ex1, T1, log1, hs1, hl1, ha1, hc1, hsub1, hcase⟩ :=
    keyStep_plain cfg htick hrht hpos db k hwf hk hne hd hload ces hke w ex T hcur hsub hfresh
  refine ⟨w1, ex1, T1, log1, hs1, hl1, ha1, hc1, hsub1, ?_⟩
  rcases hcase with h | ⟨hrep, x, hx1, hx, hdbs⟩
  · exact Or.inl h
  · exact Or.inr ⟨hrep, x, hx1, holds_holdsS cfg (db, k) x hk hx, hdbs⟩

theorem setDb_dbs (T : TState) (D0 : Int) (ks : Keyspace) (x : Bytes × Val × Nat) (h : ks = T.dbs D0 ++ [x]) :
    ∀ D, (TState.setDb { T with cur := D0 } D0 ks).dbs D = if D = D0 then T.dbs D ++ [x] else T.dbs D := by
  intro D
  by_cases hD : D = D0
  · subst hD; simp [TState.setDb, h]
  · simp [TState.setDb, hD]

/-- a stream or a module value: ONE entry; by RESTORE when it fits, else (streams) by
    the expansion, whose commands the oracle turns into the logical stream value -/
theorem keyStepS_opaque (cfg : RCfg) (htick : cfg.tick = 0) (hrht : cfg.replaceHashTag = false)
    (hpos : ∀ n : Nat, cfg.filterDb (n : Int) = false → 0 ≤ mapDb cfg (n : Int))
    (db : Nat) (k : KeyE) (ho : k.obj.opaque)
    (hmod : ∀ id ops, k.obj = .module2 id ops → viaRestore cfg k.obj)
    (hload : cfg.enableRestore = true → typeLoadable cfg.x.tgtMajor k.obj.rtype = true) :
    KeyStep cfg (HoldsS cfg) db k := by
  intro ces hke w ex T hcur hsub hfresh
  obtain ⟨hot, hnf1, hnf2, _, _, _⟩ := opaque_rtype k.obj ho
  have hpo := pobjOf_opaque k.key.val k.obj ho
  have hsplit : (pobjOf k.key.val k.obj).isSplited = false := by rw [hpo]; simp [PObj.isSplited]
  have hfb : (pobjOf k.key.val k.obj).firstBin = true := by rw [hpo]; simp [PObj.firstBin]
  -- the loader returns one entry
  obtain ⟨e, rfl, ⟨hk1, hk2, hk3⟩, hobj⟩ : ∃ e, ces = [e] ∧ EntryOf db k e ∧ e.obj = pobjOf k.key.val k.obj := by
    rcases hke with h | ⟨f, items, _, _, hobj, _⟩
    · exact h
    · rw [hobj] at ho; exact absurd ho (by simp [ObjE.opaque])
  cases hfd : cfg.filterDb (db : Int) with
  | true =>
    have hrep : replayed cfg (db, k) = false := by simp [replayed, hfd]
    exact ⟨w, ex, T, [], runOne_skipDb cfg db hfd [e] w ex (fun x hx => by simp only [List.mem_singleton] at hx; subst hx; exact hk2),
      by simp, rfl, hcur, hsub, Or.inl ⟨hrep, fun _ => rfl⟩⟩
  | false =>
    have hpos' := hpos db hfd
    cases hfk : cfg.filterKey k.key.val with
    | true =>
      have hrep : replayed cfg (db, k) = false := by simp [replayed, hfk]
      obtain ⟨w', log, T', h1, h2, h3, h4, h5⟩ := runOne_skipKey cfg db k.key.val hfd hfk hpos' [e] w ex T
        (fun x hx => by simp only [List.mem_singleton] at hx; subst hx; exact ⟨hk1, hk2⟩) hcur
      exact ⟨w', ex, T', log, h1, h2, h3, h4, exSub_keep hsub h5, Or.inl ⟨hrep, h5⟩⟩
    | false =>
      have hrep : replayed cfg (db, k) = true := by simp [replayed, hfd, hfk]
      have hfr := hfresh hrep
      have hex : ex.has (mapDb cfg (db : Int)) k.key.val = false := by
        cases h : ex.has (mapDb cfg (db : Int)) k.key.val with
        | false => rfl
        | true => have := hsub _ _ h; rw [hfr] at this; cases this
      by_cases hv : viaRestore cfg k.obj
      · obtain ⟨opts, ex', hrp, hg⟩ := replay_restoreG cfg (mapDb cfg (db : Int)) ex e k.key.val k.obj _ hobj hk1 hot
          hnf1 hnf2 hsplit hv (hload hv.1) hrht hex
        have happ : applyCmds (T.dbs (mapDb cfg (db : Int)))
            [cmdB b!"restore" (k.key.val :: natToDec (ttlOf cfg.now e.expireAt) ::
              createValueDump k.obj.rtype k.obj.ser :: opts)] = some (T.dbs (mapDb cfg (db : Int)) ++
                [(k.key.val, .restored (createValueDump k.obj.rtype k.obj.ser), ttlOf cfg.now e.expireAt)]) := by
          simp only [applyCmds, restore_fresh _ _ _ _ _ hfr]
        obtain ⟨w', log, h1, h2, h3, h4⟩ := workerStep_apply cfg w ex e T db _ ex' _ htick hk2 hfd
          (by rw [hk1]; exact hfk) hcur hpos' hrp
          (fun c hc => by simp only [List.mem_singleton] at hc; subst hc; exact keyCmd_name _ b!"restore" rfl (by decide))
          happ
        have hdbs := setDb_dbs T (mapDb cfg (db : Int)) _
          (k.key.val, Val.restored (createValueDump k.obj.rtype k.obj.ser), ttlOf cfg.now e.expireAt) rfl
        refine ⟨w', ex', _, log, ?_, h2, h4, h3, exSub_step hsub hg hdbs, Or.inr ⟨hrep, _, rfl, ?_, hdbs⟩⟩
        · simp only [runOne, h1, if_true]
        · exact ⟨rfl, by rw [hk3], Or.inr ⟨rfl, hv⟩⟩
      · -- not by RESTORE: a module value is excluded (`hmod`), a stream is expanded
        cases hoo : k.obj with
        | stream s =>
          rw [hoo] at ho
          obtain ⟨hswf, hss⟩ := ho
          have hexec : execCmd cfg.x (pobjOf k.key.val k.obj) = some (s.cmds cfg.x k.key.val) := by
            have hst : otypeOf (pobjOf k.key.val k.obj).rtype = some .stream := by
              have := hot; rw [hoo] at this ⊢; exact this
            unfold execCmd
            simp only [hst]
            rw [hoo]
            have := execStream_ser cfg.x k.key.val s [] hswf hss
            simpa [pobjOf, ObjE.rtype, ObjE.ser] using this
          have hot' : otypeOf k.obj.rtype = some .stream := by
            have := hot; rw [hoo] at this ⊢; exact this
          obtain ⟨ex', hrp, hg⟩ := replay_expandG cfg (mapDb cfg (db : Int)) ex e k.key.val k.obj .stream
            (s.cmds cfg.x k.key.val) hobj hk1 hot' (by decide) (by decide) (by decide) hsplit hfb hexec hv hrht hex
          have happ := apply_expandG (T.dbs (mapDb cfg (db : Int))) k.key.val (s.cmds cfg.x k.key.val)
            (.stream (s.xval cfg.x)) e.expireAt (ttlOf cfg.now e.expireAt) hfr
            (stream_cmds_apply _ k.key.val cfg.x s hswf hss hfr)
            (fun h0 => by rw [h0]; exact ttlOf_zero _)
          obtain ⟨w', log, h1, h2, h3, h4⟩ := workerStep_apply cfg w ex e T db _ ex' _ htick hk2 hfd
            (by rw [hk1]; exact hfk) hcur hpos' hrp
            (by
              intro c hc
              simp only [List.mem_append] at hc
              rcases hc with (hc | hc) | hc
              · simp only [List.mem_singleton] at hc; subst hc; exact keyCmd_name _ b!"exists" rfl (by decide)
              · exact stream_cmds_keyCmd _ _ _ c hc
              · split at hc
                · simp only [List.mem_singleton] at hc; subst hc; exact keyCmd_name _ b!"pexpire" rfl (by decide)
                · simp at hc)
            happ
          have hdbs := setDb_dbs T (mapDb cfg (db : Int)) _
            (k.key.val, Val.stream (s.xval cfg.x), ttlOf cfg.now e.expireAt) rfl
          refine ⟨w', ex', _, log, ?_, h2, h4, h3, exSub_step hsub hg hdbs, Or.inr ⟨hrep, _, rfl, ?_, hdbs⟩⟩
          · simp only [runOne, h1, if_true]
          · refine ⟨rfl, by rw [hk3], Or.inl ⟨?_, Or.inl hv⟩⟩
            show Val.stream (s.xval cfg.x) = k.obj.valueS cfg.x
            rw [hoo]; rfl
        | module2 id ops => exact absurd (hmod id ops hoo) hv
        | _ => rw [hoo] at ho; exact absurd ho (by simp [ObjE.opaque])

/-! ## the whole file -/

theorem keysFrom_strip : ∀ (items : List Item) (db : Nat), keysFrom db (stripAux items) = keysFrom db items := by
  intro items
  induction items with
  | nil => intro db; rfl
  | cons i items ih =>
    intro db
    cases i with
    | moduleAux id ops =>
      have : stripAux (Item.moduleAux id ops :: items) = stripAux items := by
        simp [stripAux, List.filter_cons, Item.isModAux]
      rw [this, ih]; rfl
    | key k => rw [stripAux_cons _ _ rfl]; simp only [keysFrom, ih]
    | aux k v => rw [stripAux_cons _ _ rfl]; simp only [keysFrom, dbAfter, ih]
    | selectDb f n => rw [stripAux_cons _ _ rfl]; simp only [keysFrom, dbAfter, ih]
    | resizeDb f1 a f2 b => rw [stripAux_cons _ _ rfl]; simp only [keysFrom, dbAfter, ih]
    | slotInfo a b c => rw [stripAux_cons _ _ rfl]; simp only [keysFrom, dbAfter, ih]
    | function code => rw [stripAux_cons _ _ rfl]; simp only [keysFrom, dbAfter, ih]

theorem carriedS_readable (d : DCfg) (cfg : RCfg) (i : Item) (hwf : i.wf) (h : i.carriedS d cfg) : i.readable d := by
  cases i with
  | moduleAux id ops => exact h
  | key k =>
    have hw : k.obj.wf := hwf.2.1
    simp only [Item.carriedS] at h
    simp only [Item.readable]
    cases hoo : k.obj with
    | stream s => rw [hoo] at h hw; exact Or.inr ⟨hw, h⟩
    | module2 id ops => rw [hoo] at hw; exact Or.inr hw
    | raw t b => rw [hoo] at h; exact absurd h (by simp)
    | _ => rw [hoo] at h; exact Or.inl ⟨h.1, h.2.1⟩
  | _ => trivial

/-- every key of a `carriedS` dataset has its key step -/
theorem keySteps_of_carriedS (d : DCfg) (cfg : RCfg) (f : FileE)
    (hwf : f.wf) (hcar : ∀ i ∈ f.items, i.carriedS d cfg)
    (htick : cfg.tick = 0) (hrht : cfg.replaceHashTag = false)
    (hload : ∀ p ∈ f.keys, cfg.enableRestore = true → typeLoadable cfg.x.tgtMajor p.2.obj.rtype = true)
    (hdb : ∀ n : Nat, cfg.filterDb (n : Int) = false → 0 ≤ mapDb cfg (n : Int)) :
    ∀ p ∈ f.keys, KeyStep cfg (HoldsS cfg) p.1 p.2 := by
  intro p hp
  have hmem := keysFrom_mem f.items 0 p hp
  have hwfk : p.2.wf := hwf.2.2 _ hmem
  have hc := hcar _ hmem
  have hl := hload p hp
  simp only [Item.carriedS] at hc
  cases hoo : p.2.obj with
  | stream s =>
    rw [hoo] at hc
    have hw : (ObjE.stream s).wf := by have := hwfk.2.1; rw [hoo] at this; exact this
    exact keyStepS_opaque cfg htick hrht hdb p.1 p.2 (by rw [hoo]; exact ⟨hw, hc⟩)
      (fun id ops h => by rw [hoo] at h; cases h) hl
  | module2 id ops =>
    rw [hoo] at hc
    have hw : (ObjE.module2 id ops).wf := by have := hwfk.2.1; rw [hoo] at this; exact this
    exact keyStepS_opaque cfg htick hrht hdb p.1 p.2 (by rw [hoo]; exact hw)
      (fun _ _ _ => by rw [hoo]; exact hc) hl
  | raw t b => rw [hoo] at hc; exact absurd hc (by simp)
  | _ =>
    rw [hoo] at hc
    exact keyStepS_plain cfg htick hrht hdb p.1 p.2 hwfk (by rw [hoo]; exact hc.1) (by rw [hoo]; exact hc.2.1)
      (by rw [hoo]; exact hc.2.2) hl

/-- **`full_sync` over datasets with streams, module values and module aux items** -/
theorem full_sync_coreS (d : DCfg) (cfg : RCfg) (f : FileE)
    (hwf : f.wf) (hfoot : f.footer ≠ .bad) (hcar : ∀ i ∈ f.items, i.carriedS d cfg)
    (hpar : cfg.parallel = 1) (htick : cfg.tick = 0) (hrht : cfg.replaceHashTag = false)
    (hload : ∀ p ∈ f.keys, cfg.enableRestore = true → typeLoadable cfg.x.tgtMajor p.2.obj.rtype = true)
    (hdb : ∀ n : Nat, cfg.filterDb (n : Int) = false → 0 ≤ mapDb cfg (n : Int))
    (hdistinct : ((f.keys.filter (replayed cfg)).map (fun p => (mapDb cfg (p.1 : Int), p.2.key.val))).Nodup) :
    ∃ log T, sendRdb d cfg [] (rdbFile f) = ([log], true) ∧ applyReqs {} log = some T ∧
      ∀ D, Pointwise (HoldsS cfg) (expectedKeys cfg D f.keys) (T.dbs D) := by
  obtain ⟨es, hparse, htr⟩ := parseRdb_fileG d f hwf
    (fun i hi => carriedS_readable d cfg i (hwf.2.2 i hi) (hcar i hi)) hfoot
  have hkeys : keysFrom 0 (stripAux f.items) = f.keys := keysFrom_strip f.items 0
  have hks : ∀ p ∈ keysFrom 0 (stripAux f.items), KeyStep cfg (HoldsS cfg) p.1 p.2 := by
    rw [hkeys]; exact keySteps_of_carriedS d cfg f hwf hcar htick hrht hload hdb
  obtain ⟨w', ex', T', log, hrun, hlog, happ, hfin⟩ := replay_traceG cfg htick hdb (HoldsS cfg) htr hks
    {} [] {} rfl (exSub_nil _) (fun _ _ _ => rfl) (by rw [hkeys]; exact hdistinct)
  refine ⟨log, T', ?_, happ, ?_⟩
  · unfold sendRdb
    simp only [hparse, hpar, Nat.max_self, List.replicate_one, fanOut_one, hrun, List.map_cons, List.map_nil,
      Bool.and_self]
    simpa using hlog
  · intro D
    obtain ⟨l, hl, hf⟩ := hfin D
    have : T'.dbs D = l := by rw [hl]; rfl
    rw [this, ← hkeys]; exact hf

end GunYu.Rdb
