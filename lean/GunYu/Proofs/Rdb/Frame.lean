/-
  Helper lemmas for C03: the file frame — magic/version header and the
  CRC64 footer — as written by the specification is accepted by the loader.
-/
import GunYu.Model.Rdb.Enc
import GunYu.Model.Rdb.Dec
import GunYu.Proofs.Rdb.Read

namespace GunYu.Rdb
open GunYu

theorem version_digits : ∀ v : Fin 14, 1 ≤ v.val →
    parseInt64 (verDigits v.val) = some (v.val : Int) := by decide

theorem header_file (f : FileE) (h1 : 1 ≤ f.version) (h13 : f.version ≤ 13) (rest : Bytes) :
    header (b!"REDIS" ++ verDigits f.version ++ rest) = some (f.version, rest) := by
  unfold header
  have hlen : (b!"REDIS" ++ verDigits f.version).length = 9 := by simp [verDigits]
  have e : b!"REDIS" ++ verDigits f.version ++ rest = (b!"REDIS" ++ verDigits f.version) ++ rest := rfl
  rw [e, readN_append' 9 _ _ hlen]
  simp only
  have t5 : (b!"REDIS" ++ verDigits f.version).take 5 = b!"REDIS" := by simp
  have d5 : (b!"REDIS" ++ verDigits f.version).drop 5 = verDigits f.version := by simp
  rw [t5, d5]
  have hv := version_digits ⟨f.version, by omega⟩ h1
  simp only at hv
  simp only [ne_eq, not_true_eq_false, if_false, hv]
  have hc : Gen.Rdb.c_RdbVersion = 13 := rfl
  have : ¬ ((f.version : Int) ≤ 0 ∨ (f.version : Int) > ((Gen.Rdb.c_RdbVersion : Nat) : Int)) := by
    rw [hc]; omega
  simp only [this, if_false, Int.toNat_natCast]

/-- the footer check passes for a correct checksum and for the all-zero
    "checksum disabled" footer -/
theorem footer_file (f : FileE) (hnb : f.footer ≠ .bad) :
    footer (rdbFile f) ((rdbFile f).drop f.body.length) = true := by
  have hdrop : ∀ tail : Bytes, (f.body ++ tail).drop f.body.length = tail := fun tail => by simp
  have hcons : ∀ tail : Bytes, consumed (f.body ++ tail) tail = f.body := fun tail => consumed_append _ _
  have hlt : (crc64Spec f.body).toNat < 256 ^ 8 := by
    have := (crc64Spec f.body).isLt
    have e : (256 : Nat) ^ 8 = 2 ^ 64 := by decide
    omega
  unfold rdbFile footer
  simp only
  have hr8 : ∀ n : Nat, readN 8 (le64 n) = some (le64 n, []) := fun n => by
    have := readN_append' 8 (le64 n) [] (leN_length 8 n)
    simpa using this
  have htab : (crc64Tab f.body).toNat = (crc64Spec f.body).toNat := by
    rw [show crc64Tab f.body = crc64Spec f.body from crc64Tab_eq_spec_from f.body 0#64]
  cases hf : f.footer with
  | good =>
    simp only [hdrop, hcons, hr8]
    rw [show le64 (crc64Spec f.body).toNat = leN 8 (crc64Spec f.body).toNat from rfl, ofLE_leN' 8 _ hlt, htab]
    simp
  | zero =>
    simp only [hdrop, hr8]
    have z : ofLE (le64 0) = 0 := by decide
    simp [z]
  | bad => exact absurd hf hnb

/-- nothing follows the footer of a file the specification writes -/
theorem inputEnds_file (f : FileE) : inputEnds ((rdbFile f).drop f.body.length) = true := by
  have hdrop : ∀ tail : Bytes, (f.body ++ tail).drop f.body.length = tail := fun tail => by simp
  unfold rdbFile inputEnds
  simp only [hdrop]
  cases f.footer <;> simp [le64, leN_length]

end GunYu.Rdb
