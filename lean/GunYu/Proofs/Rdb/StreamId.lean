/-
  Helper lemmas for C03 (streams): the "ms-seq" rendering of a stream id is parsed
  back by the oracle (`splitId`), so it is injective and the oracle's `idLt` on
  rendered ids is the numeric order on (ms, seq).
-/
import GunYu.Model.Rdb.StreamValue
import GunYu.Proofs.Rdb.Decimal

namespace GunYu.Rdb
open GunYu GunYu.RedisSem

theorem span_split {α} (p : α → Bool) (l : List α) (x : α) (r : List α)
    (hl : ∀ c ∈ l, p c = true) (hx : p x = false) : (l ++ x :: r).span p = (l, x :: r) := by
  have key : ∀ (l acc : List α), (∀ c ∈ l, p c = true) →
      List.span.loop p (l ++ x :: r) acc = (acc.reverse ++ l, x :: r) := by
    intro l
    induction l with
    | nil => intro acc _; simp [List.span.loop, hx]
    | cons c l ih =>
      intro acc h
      simp only [List.cons_append, List.span.loop, h c (List.mem_cons_self ..)]
      rw [ih (c :: acc) (fun y hy => h y (List.mem_cons_of_mem _ hy))]
      simp
  have := key l [] hl
  simpa [List.span] using this

theorem natToDec_digits (n : Nat) : (natToDec n).all isDigit = true := by
  obtain ⟨ds, h1, _, h3, _⟩ := natToDec_spec n
  rw [h1]; exact h3

theorem splitId_fmtId (a b : Nat) : splitId (fmtId a b) = some (a, b) := by
  unfold splitId fmtId
  have hsp : (natToDec a ++ [45] ++ natToDec b).span (fun c => decide (c ≠ 45)) =
      (natToDec a, 45 :: natToDec b) := by
    rw [List.append_assoc]
    apply span_split
    · intro c hc
      have := natToDec_digits a
      rw [List.all_eq_true] at this
      have hd := (isDigit_ne c (this c hc)).1
      simp [hd]
    · simp
  rw [hsp]
  simp only [decToNat_natToDec]

theorem fmtId_inj {a b c d : Nat} (h : fmtId a b = fmtId c d) : a = c ∧ b = d := by
  have h1 := splitId_fmtId a b
  rw [h, splitId_fmtId] at h1
  simp only [Option.some.injEq, Prod.mk.injEq] at h1
  exact ⟨h1.1.symm, h1.2.symm⟩

theorem idLt_fmtId (a b : Nat × Nat) : idLt (fmtId a.1 a.2) (fmtId b.1 b.2) = idLtN a b := by
  simp only [idLt, splitId_fmtId, idLtN]

theorem fmtId_00 : fmtId 0 0 = b!"0-0" := by decide

theorem idLt_zero (b : Nat × Nat) : idLt b!"0-0" (fmtId b.1 b.2) = idLtN (0, 0) b := by
  rw [← fmtId_00]; exact idLt_fmtId (0, 0) b

/-- an id never reads `MAXLEN` (its first byte is a digit) -/
theorem fmtId_ne_maxlen (a b : Nat) : fmtId a b ≠ b!"MAXLEN" := by
  obtain ⟨c, r, hcr, hd⟩ := natToDec_head a
  unfold fmtId
  rw [hcr]
  intro h
  simp only [List.cons_append, List.cons.injEq] at h
  obtain ⟨h1, _⟩ := h
  subst h1
  revert hd; decide

theorem streamId_eq (a b : Nat) : streamId a b = fmtId a b := rfl

theorem idWfB_idWf (e : SEntryE) (mMs mSeq : Nat) (h : e.idWfB mMs mSeq = true) : e.idWf mMs mSeq := by
  unfold SEntryE.idWfB at h
  cases h1 : e.msDelta.int? with
  | none => simp [h1] at h
  | some a =>
    cases h2 : e.seqDelta.int? with
    | none => simp [h1, h2] at h
    | some b =>
      simp only [h1, h2, decide_eq_true_eq] at h
      exact ⟨a, b, h1, h2, h⟩

/-- the driver's soundness test is sound -/
theorem soundB_sound (s : StreamE) (h : s.soundB = true) : s.sound := by
  unfold StreamE.soundB at h
  simp only [Bool.and_eq_true, decide_eq_true_eq, List.all_eq_true] at h
  obtain ⟨⟨⟨⟨⟨⟨a1, a2, a3⟩, hid⟩, hinc⟩, b1, b2, b3, b4⟩, c⟩, d⟩ := h
  exact ⟨a1, a2, a3, fun n hn e he => idWfB_idWf e _ _ (hid n hn e he), hinc, b1, b2, b3, b4, c, d⟩

end GunYu.Rdb
