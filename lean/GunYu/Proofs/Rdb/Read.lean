/-
  Helper lemmas for C03: `ReadBuffer` consumes exactly the value's
  serialization (the teed bytes are the encoding), for every non-stream value.
-/
import GunYu.Proofs.Rdb.Obj

set_option linter.unusedSimpArgs false

namespace GunYu.Rdb
open GunYu

theorem consumed_append (a r : Bytes) : consumed (a ++ r) r = a := by
  unfold consumed
  have : (a ++ r).length - r.length = a.length := by simp
  rw [this, List.take_left' rfl]

theorem skipString_enc (s : SE) (rest : Bytes) (h : s.wf) : skipString (s.enc ++ rest) = some rest := by
  simp [skipString, readString_enc s rest h]

theorem skipLength_encLen (f : LenForm) (n : Nat) (rest : Bytes) (h : f.fits n) (h32 : n < 2 ^ 32) :
    skipLength (encLen f n ++ rest) = some rest := by
  simp [skipLength, readLength_encLen f n rest h h32]

theorem skipMany_flatMap {α} (f : Bytes → Option Bytes) (enc : α → Bytes) (l : List α) (rest : Bytes)
    (h : ∀ a ∈ l, ∀ r, f (enc a ++ r) = some r) :
    skipMany f l.length (l.flatMap enc ++ rest) = some rest := by
  induction l with
  | nil => simp [skipMany]
  | cons a l ih =>
    simp only [List.length_cons, List.flatMap_cons, List.append_assoc, skipMany]
    rw [h a (List.mem_cons_self ..)]
    exact ih (fun x hx => h x (List.mem_cons_of_mem _ hx))

/-- `skipValue` steps over the serialization of every non-stream, non-table-hash value -/
theorem skipValue_ser (o : ObjE) (rest : Bytes) (hwf : o.wf) (hk : o.kind ≠ .other)
    (hh : o.rtype ≠ 4) : skipValue o.rtype (o.ser ++ rest) = some rest := by
  cases o with
  | str s =>
    simp only [ObjE.rtype, ObjE.ser, skipValue, true_or, if_true]
    exact skipString_enc s rest hwf
  | listLinked f items =>
    obtain ⟨hf, h32, hi⟩ := hwf
    simp only [ObjE.rtype, ObjE.ser, List.append_assoc]
    unfold skipValue
    simp only [show ¬ ((1 : UInt8) = 0 ∨ (1 : UInt8) = 0xFA ∨ (1 : UInt8) = 0xF5) by decide,
      show ¬ ((1 : UInt8) = 10 ∨ (1 : UInt8) = 11 ∨ (1 : UInt8) = 20 ∨ (1 : UInt8) = 12 ∨ (1 : UInt8) = 17 ∨
        (1 : UInt8) = 9 ∨ (1 : UInt8) = 13 ∨ (1 : UInt8) = 16) by decide, true_or, if_false, if_true]
    rw [readLength_encLen f _ _ hf h32]
    exact skipMany_flatMap skipString SE.enc items rest (fun a ha r => skipString_enc a r (hi a ha))
  | listZiplist w zl =>
    simp only [ObjE.rtype, ObjE.ser]
    unfold skipValue
    simp only [show ¬ ((10 : UInt8) = 0 ∨ (10 : UInt8) = 0xFA ∨ (10 : UInt8) = 0xF5) by decide, true_or,
      if_false, if_true]
    exact skipString_enc w rest hwf.1
  | listQuick f nodes =>
    obtain ⟨hf, h32, hn⟩ := hwf
    simp only [ObjE.rtype, ObjE.ser, List.append_assoc]
    unfold skipValue
    simp only [show ¬ ((14 : UInt8) = 0 ∨ (14 : UInt8) = 0xFA ∨ (14 : UInt8) = 0xF5) by decide,
      show ¬ ((14 : UInt8) = 10 ∨ (14 : UInt8) = 11 ∨ (14 : UInt8) = 20 ∨ (14 : UInt8) = 12 ∨ (14 : UInt8) = 17 ∨
        (14 : UInt8) = 9 ∨ (14 : UInt8) = 13 ∨ (14 : UInt8) = 16) by decide,
      show ((14 : UInt8) = 1 ∨ (14 : UInt8) = 14 ∨ (14 : UInt8) = 2) by decide, if_false, if_true]
    rw [readLength_encLen f _ _ hf h32]
    exact skipMany_flatMap skipString (fun n => n.1.enc) nodes rest (fun a ha r => skipString_enc a.1 r (hn a ha).1)
  | listQuick2 f nodes =>
    obtain ⟨hf, h32, hn⟩ := hwf
    simp only [ObjE.rtype, ObjE.ser, List.append_assoc]
    unfold skipValue
    simp only [show ¬ ((18 : UInt8) = 0 ∨ (18 : UInt8) = 0xFA ∨ (18 : UInt8) = 0xF5) by decide,
      show ¬ ((18 : UInt8) = 10 ∨ (18 : UInt8) = 11 ∨ (18 : UInt8) = 20 ∨ (18 : UInt8) = 12 ∨ (18 : UInt8) = 17 ∨
        (18 : UInt8) = 9 ∨ (18 : UInt8) = 13 ∨ (18 : UInt8) = 16) by decide,
      show ¬ ((18 : UInt8) = 1 ∨ (18 : UInt8) = 14 ∨ (18 : UInt8) = 2) by decide, if_false, if_true]
    rw [readLength_encLen f _ _ hf h32]
    apply skipMany_flatMap
    intro a ha r
    have hwa := hn a ha
    cases a with
    | plain s =>
      simp only [QNode.enc, List.append_assoc]
      rw [skipLength_encLen .b6 1 _ (by decide) (by decide)]
      exact skipString_enc s r hwa
    | packed w es =>
      simp only [QNode.enc, List.append_assoc]
      rw [skipLength_encLen .b6 2 _ (by decide) (by decide)]
      exact skipString_enc w r hwa.1
  | setTable f items =>
    obtain ⟨hf, h32, hi⟩ := hwf
    simp only [ObjE.rtype, ObjE.ser, List.append_assoc]
    unfold skipValue
    simp only [show ¬ ((2 : UInt8) = 0 ∨ (2 : UInt8) = 0xFA ∨ (2 : UInt8) = 0xF5) by decide,
      show ¬ ((2 : UInt8) = 10 ∨ (2 : UInt8) = 11 ∨ (2 : UInt8) = 20 ∨ (2 : UInt8) = 12 ∨ (2 : UInt8) = 17 ∨
        (2 : UInt8) = 9 ∨ (2 : UInt8) = 13 ∨ (2 : UInt8) = 16) by decide,
      show ((2 : UInt8) = 1 ∨ (2 : UInt8) = 14 ∨ (2 : UInt8) = 2) by decide, if_false, if_true]
    rw [readLength_encLen f _ _ hf h32]
    exact skipMany_flatMap skipString SE.enc items rest (fun a ha r => skipString_enc a r (hi a ha))
  | setIntset w width vs =>
    simp only [ObjE.rtype, ObjE.ser]
    unfold skipValue
    simp only [show ¬ ((11 : UInt8) = 0 ∨ (11 : UInt8) = 0xFA ∨ (11 : UInt8) = 0xF5) by decide,
      show ((11 : UInt8) = 10 ∨ (11 : UInt8) = 11 ∨ (11 : UInt8) = 20 ∨ (11 : UInt8) = 12 ∨ (11 : UInt8) = 17 ∨
        (11 : UInt8) = 9 ∨ (11 : UInt8) = 13 ∨ (11 : UInt8) = 16) by decide, if_false, if_true]
    exact skipString_enc w rest hwf.1
  | setListpack w es =>
    simp only [ObjE.rtype, ObjE.ser]
    unfold skipValue
    simp only [show ¬ ((20 : UInt8) = 0 ∨ (20 : UInt8) = 0xFA ∨ (20 : UInt8) = 0xF5) by decide,
      show ((20 : UInt8) = 10 ∨ (20 : UInt8) = 11 ∨ (20 : UInt8) = 20 ∨ (20 : UInt8) = 12 ∨ (20 : UInt8) = 17 ∨
        (20 : UInt8) = 9 ∨ (20 : UInt8) = 13 ∨ (20 : UInt8) = 16) by decide, if_false, if_true]
    exact skipString_enc w rest hwf.1
  | zset1 f items =>
    obtain ⟨hf, h32, hi⟩ := hwf
    simp only [ObjE.rtype, ObjE.ser, List.append_assoc]
    unfold skipValue
    simp only [show ¬ ((3 : UInt8) = 0 ∨ (3 : UInt8) = 0xFA ∨ (3 : UInt8) = 0xF5) by decide,
      show ¬ ((3 : UInt8) = 10 ∨ (3 : UInt8) = 11 ∨ (3 : UInt8) = 20 ∨ (3 : UInt8) = 12 ∨ (3 : UInt8) = 17 ∨
        (3 : UInt8) = 9 ∨ (3 : UInt8) = 13 ∨ (3 : UInt8) = 16) by decide,
      show ¬ ((3 : UInt8) = 1 ∨ (3 : UInt8) = 14 ∨ (3 : UInt8) = 2) by decide,
      show ((3 : UInt8) = 18) = False by decide, if_false, if_true]
    rw [readLength_encLen f _ _ hf h32]
    apply skipMany_flatMap
    intro a ha r
    simp only [List.append_assoc]
    rw [skipString_enc a.1 _ (hi a ha).1]
    simp [readFloatStr_enc a.2 r (hi a ha).2]
  | zset2 f items =>
    obtain ⟨hf, h32, hi⟩ := hwf
    simp only [ObjE.rtype, ObjE.ser, List.append_assoc]
    unfold skipValue
    simp only [show ¬ ((5 : UInt8) = 0 ∨ (5 : UInt8) = 0xFA ∨ (5 : UInt8) = 0xF5) by decide,
      show ¬ ((5 : UInt8) = 10 ∨ (5 : UInt8) = 11 ∨ (5 : UInt8) = 20 ∨ (5 : UInt8) = 12 ∨ (5 : UInt8) = 17 ∨
        (5 : UInt8) = 9 ∨ (5 : UInt8) = 13 ∨ (5 : UInt8) = 16) by decide,
      show ¬ ((5 : UInt8) = 1 ∨ (5 : UInt8) = 14 ∨ (5 : UInt8) = 2) by decide,
      show ((5 : UInt8) = 18) = False by decide, show ((5 : UInt8) = 3) = False by decide, if_false, if_true]
    rw [readLength_encLen f _ _ hf h32]
    apply skipMany_flatMap
    intro a ha r
    simp only [List.append_assoc]
    rw [skipString_enc a.1 _ (hi a ha).1]
    simp [skipN, readN_append' 8 _ _ (leN_length 8 _)]
  | zsetZiplist w zl =>
    simp only [ObjE.rtype, ObjE.ser]
    unfold skipValue
    simp only [show ¬ ((12 : UInt8) = 0 ∨ (12 : UInt8) = 0xFA ∨ (12 : UInt8) = 0xF5) by decide,
      show ((12 : UInt8) = 10 ∨ (12 : UInt8) = 11 ∨ (12 : UInt8) = 20 ∨ (12 : UInt8) = 12 ∨ (12 : UInt8) = 17 ∨
        (12 : UInt8) = 9 ∨ (12 : UInt8) = 13 ∨ (12 : UInt8) = 16) by decide, if_false, if_true]
    exact skipString_enc w rest hwf.1
  | zsetListpack w es =>
    simp only [ObjE.rtype, ObjE.ser]
    unfold skipValue
    simp only [show ¬ ((17 : UInt8) = 0 ∨ (17 : UInt8) = 0xFA ∨ (17 : UInt8) = 0xF5) by decide,
      show ((17 : UInt8) = 10 ∨ (17 : UInt8) = 11 ∨ (17 : UInt8) = 20 ∨ (17 : UInt8) = 12 ∨ (17 : UInt8) = 17 ∨
        (17 : UInt8) = 9 ∨ (17 : UInt8) = 13 ∨ (17 : UInt8) = 16) by decide, if_false, if_true]
    exact skipString_enc w rest hwf.1
  | hashTable f items => exact absurd rfl hh
  | hashZipmap w items =>
    simp only [ObjE.rtype, ObjE.ser]
    unfold skipValue
    simp only [show ¬ ((9 : UInt8) = 0 ∨ (9 : UInt8) = 0xFA ∨ (9 : UInt8) = 0xF5) by decide,
      show ((9 : UInt8) = 10 ∨ (9 : UInt8) = 11 ∨ (9 : UInt8) = 20 ∨ (9 : UInt8) = 12 ∨ (9 : UInt8) = 17 ∨
        (9 : UInt8) = 9 ∨ (9 : UInt8) = 13 ∨ (9 : UInt8) = 16) by decide, if_false, if_true]
    exact skipString_enc w rest hwf.1
  | hashZiplist w zl =>
    simp only [ObjE.rtype, ObjE.ser]
    unfold skipValue
    simp only [show ¬ ((13 : UInt8) = 0 ∨ (13 : UInt8) = 0xFA ∨ (13 : UInt8) = 0xF5) by decide,
      show ((13 : UInt8) = 10 ∨ (13 : UInt8) = 11 ∨ (13 : UInt8) = 20 ∨ (13 : UInt8) = 12 ∨ (13 : UInt8) = 17 ∨
        (13 : UInt8) = 9 ∨ (13 : UInt8) = 13 ∨ (13 : UInt8) = 16) by decide, if_false, if_true]
    exact skipString_enc w rest hwf.1
  | hashListpack w es =>
    simp only [ObjE.rtype, ObjE.ser]
    unfold skipValue
    simp only [show ¬ ((16 : UInt8) = 0 ∨ (16 : UInt8) = 0xFA ∨ (16 : UInt8) = 0xF5) by decide,
      show ((16 : UInt8) = 10 ∨ (16 : UInt8) = 11 ∨ (16 : UInt8) = 20 ∨ (16 : UInt8) = 12 ∨ (16 : UInt8) = 17 ∨
        (16 : UInt8) = 9 ∨ (16 : UInt8) = 13 ∨ (16 : UInt8) = 16) by decide, if_false, if_true]
    exact skipString_enc w rest hwf.1
  | stream s => exact absurd rfl hk
  | module2 id ops => exact absurd rfl hk
  | raw t b => exact absurd rfl hk

def otOf (o : ObjE) : OType :=
  match o.kind with
  | .str => .string | .list => .list | .set => .set | .zset => .zset | .hash => .hash | .other => .aux

theorem otypeOf_rtype (o : ObjE) (hk : o.kind ≠ .other) : otypeOf o.rtype = some (otOf o) := by
  cases o <;> first
    | exact absurd rfl hk
    | (simp only [ObjE.rtype, otOf, ObjE.kind]; decide)

theorem otOf_ne_function (o : ObjE) : otOf o ≠ .function := by
  unfold otOf; cases o.kind <;> decide

theorem rtype_val_flag (o : ObjE) (hk : o.kind ≠ .other) (hs : o.kind ≠ .str) :
    ¬ (o.rtype = 0 ∨ o.rtype = 0xFA) := by
  cases o <;> first
    | exact absurd rfl hk
    | exact absurd rfl hs
    | (simp only [ObjE.rtype]; decide)

/-- `ReadBuffer` on key + serialization: the parser object of the value, with
    the teed buffer equal to the serialization (`raw_is_encode`) -/
theorem readBuffer_plain (cfg : DCfg) (key : SE) (o : ObjE) (rest : Bytes)
    (hkey : key.wf) (hwf : o.wf) (hk : o.kind ≠ .other) (hh : o.rtype ≠ 4) :
    readBuffer cfg {} o.rtype (key.enc ++ (o.ser ++ rest)) = some (pobjOf key.val o, {}, rest) := by
  have hot := otypeOf_rtype o hk
  have hnf := otOf_ne_function o
  unfold readBuffer
  simp only [hot, hnf, if_false, Nat.sub_self, ne_eq, not_true_eq_false]
  rw [readString_enc key _ hkey]
  simp only [hh, if_false]
  rw [skipValue_ser o rest hwf hk hh]
  simp only [consumed_append]
  by_cases hs : o.kind = .str
  · cases o with
    | str s =>
      simp only [pobjOf, ObjE.ser, ObjE.rtype, true_or, if_true]
      rw [readString_enc s rest hwf]
      rfl
    | _ => simp [ObjE.kind] at hs
  · have hn := rtype_val_flag o hk hs
    simp only [hn, if_false]
    cases o with
    | str s => exact absurd rfl hs
    | hashTable f items => exact absurd rfl hh
    | _ => rfl

end GunYu.Rdb
