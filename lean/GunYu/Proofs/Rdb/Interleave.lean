/-
  Helper lemmas for C03: every interleaving. The requests a worker issues are
  SELECT, SCRIPT/FUNCTION (no keyspace effect) and plain commands local to one key;
  requests of different connections on different keys commute on the target with one
  connection per worker, so all schedules with the same per-worker logs agree.
-/
import GunYu.Proofs.Rdb.Parallel
import GunYu.Proofs.Rdb.Sched

namespace GunYu.Rdb
open GunYu GunYu.RedisSem GunYu.Sched

/-- same selected databases, same keys with the same values and times to live everywhere -/
def MEq (a b : MState) : Prop := (∀ j, a.cur j = b.cur j) ∧ ∀ D, KEq (a.dbs D) (b.dbs D)

theorem meq_refl (a : MState) : MEq a a := ⟨fun _ => rfl, fun _ _ => rfl⟩
theorem meq_symm (a b : MState) (h : MEq a b) : MEq b a := ⟨fun j => (h.1 j).symm, fun D k => (h.2 D k).symm⟩
theorem meq_trans (a b c : MState) (h1 : MEq a b) (h2 : MEq b c) : MEq a c :=
  ⟨fun j => (h1.1 j).trans (h2.1 j), fun D k => (h1.2 D k).trans (h2.2 D k)⟩

theorem applySched_run (s : List (Nat × Cmd)) : ∀ m, applySched m s = run applyTagged m s := by
  induction s with
  | nil => intro m; rfl
  | cons p s ih =>
    intro m
    simp only [applySched, run]
    cases applyTagged m p with
    | none => rfl
    | some m' => exact ih m'

/-- the key a plain command names -/
def keyOf (c : Cmd) : Option Bytes :=
  if lower c.name ∈ plainNames then (match c.args with | .b k :: _ => some k | _ => none) else none

/-- the requests a worker's log may contain -/
inductive GoodReq : Cmd → Prop
  | sel {c : Cmd} : lower c.name = b!"select" → GoodReq c
  | noop {c : Cmd} : lower c.name = b!"script" ∨ lower c.name = b!"function" → GoodReq c
  | key {c : Cmd} (k : Bytes) (rest : List Arg) : c.args = .b k :: rest → lower c.name ∈ plainNames → GoodReq c

/-- connection `j` moves to database `D'` and leaves `ks'` in the database it had selected -/
def mkM (M : MState) (j : Nat) (D' : Int) (ks' : Keyspace) : MState :=
  { cur := fun i => if i = j then D' else M.cur i, dbs := fun x => if x = M.cur j then ks' else M.dbs x }

theorem local_id (k : Bytes) : LocalAt k (fun ks => some ks) := local_upd k .keep

theorem plain_not_special (n : Bytes) (h : n ∈ plainNames) : n ≠ b!"select" ∧ n ≠ b!"script" ∧ n ≠ b!"function" := by
  simp only [plainNames, List.mem_cons, List.not_mem_nil, or_false] at h
  rcases h with h | h | h | h | h | h | h | h | h <;> (subst h; decide)

/-- normal form of a good request: a partial function on the selected keyspace (local to the
    request's key, or to any key when it has none) and the database selected afterwards -/
theorem good_normal (c : Cmd) (hg : GoodReq c) :
    ∃ (f : Keyspace → Option Keyspace) (g : Int → Int),
      (∀ (M : MState) (j : Nat), applyTagged M (j, c) =
        (f (M.dbs (M.cur j))).map (fun ks' => mkM M j (g (M.cur j)) ks')) ∧
      ((∃ k, keyOf c = some k ∧ LocalAt k f) ∨ (keyOf c = none ∧ ∀ k, LocalAt k f)) := by
  have hself : ∀ (M : MState) (j : Nat), mkM M j (M.cur j) (M.dbs (M.cur j)) = M := by
    intro M j
    cases M with
    | mk cur dbs =>
      simp only [mkM, MState.mk.injEq]
      constructor
      · funext i; by_cases hi : i = j <;> simp [hi]
      · funext x; by_cases hx : x = cur j <;> simp [hx]
  have hsame : ∀ (M : MState) (j : Nat) (D' : Int),
      M.put j { cur := D', dbs := M.dbs } = mkM M j D' (M.dbs (M.cur j)) := by
    intro M j D'
    simp only [MState.put, mkM, MState.mk.injEq, true_and]
    funext x; by_cases hx : x = M.cur j <;> simp [hx]
  cases hg with
  | sel hs =>
    have hk : keyOf c = none := by
      unfold keyOf
      have : ¬ (lower c.name ∈ plainNames) := fun h => (plain_not_special _ h).1 hs
      simp [this]
    have hfail : (∀ M j, applyTagged M (j, c) = none) →
        ∃ (f : Keyspace → Option Keyspace) (g : Int → Int),
          (∀ (M : MState) (j : Nat), applyTagged M (j, c) =
            (f (M.dbs (M.cur j))).map (fun ks' => mkM M j (g (M.cur j)) ks')) ∧
          ((∃ k, keyOf c = some k ∧ LocalAt k f) ∨ (keyOf c = none ∧ ∀ k, LocalAt k f)) :=
      fun h => ⟨fun _ => none, id, fun M j => by rw [h M j]; rfl, Or.inr ⟨hk, fun k => local_none k⟩⟩
    rcases hargs : c.args with _ | ⟨a, _ | ⟨b, r⟩⟩
    · exact hfail (fun M j => by simp [applyTagged, applyReq, hs, hargs])
    · cases a with
      | f x => exact hfail (fun M j => by simp [applyTagged, applyReq, hs, hargs])
      | b n =>
        cases hd : decToNat? n with
        | none => exact hfail (fun M j => by simp [applyTagged, applyReq, hs, hargs, hd])
        | some d =>
          refine ⟨fun ks => some ks, fun _ => Int.ofNat d, ?_, Or.inr ⟨hk, fun k => local_id k⟩⟩
          intro M j
          simp only [applyTagged, applyReq, hs, if_true, hargs, hd, Option.map_some, MState.conn]
          rw [hsame]
    · exact hfail (fun M j => by simp [applyTagged, applyReq, hs, hargs])
  | noop hn =>
    have hk : keyOf c = none := by
      unfold keyOf
      have : ¬ (lower c.name ∈ plainNames) := by
        intro h
        have := plain_not_special _ h
        rcases hn with hn | hn
        · exact this.2.1 hn
        · exact this.2.2 hn
      simp [this]
    refine ⟨fun ks => some ks, id, ?_, Or.inr ⟨hk, fun k => local_id k⟩⟩
    intro M j
    have hns : lower c.name ≠ b!"select" := by
      rcases hn with hn | hn <;> (rw [hn]; decide)
    simp only [applyTagged, applyReq, hns, if_false, hn, if_true, Option.map_some, id, hself, put_conn_self]
  | key k rest hargs hname =>
    obtain ⟨h1, h2, h3⟩ := plain_not_special _ hname
    have hk : keyOf c = some k := by simp [keyOf, hname, hargs]
    refine ⟨fun ks => applyXCmd ks c, id, ?_, Or.inl ⟨k, hk, local_applyXCmd c k rest hargs hname⟩⟩
    intro M j
    simp only [applyTagged, applyReq, h1, h2, h3, if_false, or_self, Option.map_map, id]
    rfl

def goodP (p : Nat × Cmd) : Prop := GoodReq p.2

/-- two requests do not name the same key -/
def indepP (p q : Nat × Cmd) : Prop := ∀ k1 k2, keyOf p.2 = some k1 → keyOf q.2 = some k2 → k1 ≠ k2

theorem tagged_congr (p : Nat × Cmd) (hg : goodP p) (a b : MState) (h : MEq a b) :
    ORel MEq (applyTagged a p) (applyTagged b p) := by
  obtain ⟨j, c⟩ := p
  obtain ⟨f, g, hN, hloc⟩ := good_normal c hg
  have hl : ∃ k, LocalAt k f := by
    rcases hloc with ⟨k, _, hk⟩ | ⟨_, hk⟩
    · exact ⟨k, hk⟩
    · exact ⟨[], hk []⟩
  obtain ⟨k, hk⟩ := hl
  rw [hN a j, hN b j]
  have hc := h.1 j
  have hr := local_congr hk (h.2 (a.cur j))
  rw [← hc]
  cases e1 : f (a.dbs (a.cur j)) with
  | none =>
    cases e2 : f (b.dbs (a.cur j)) with
    | none => trivial
    | some y => rw [e1, e2] at hr; exact hr.elim
  | some x =>
    cases e2 : f (b.dbs (a.cur j)) with
    | none => rw [e1, e2] at hr; exact hr.elim
    | some y =>
      rw [e1, e2] at hr
      refine ⟨fun l => ?_, fun D k' => ?_⟩
      · simp only [mkM]
        by_cases hl : l = j
        · simp [hl]
        · simp [hl, h.1 l]
      · simp only [mkM, ← hc]
        by_cases hD : D = a.cur j
        · simp [hD, hr k']
        · simp [hD, h.2 D k']

theorem cons_ne_self (k : Bytes) : k ++ [0] ≠ k := by
  intro h
  have := congrArg List.length h
  simp at this

theorem tagged_comm (p q : Nat × Cmd) (hp : goodP p) (hq : goodP q) (htag : p.1 ≠ q.1) (hind : indepP p q)
    (a : MState) :
    ORel MEq ((applyTagged a p).bind (fun a' => applyTagged a' q))
             ((applyTagged a q).bind (fun a' => applyTagged a' p)) := by
  obtain ⟨i, c1⟩ := p
  obtain ⟨j, c2⟩ := q
  simp only at htag
  have hji : j ≠ i := fun h => htag h.symm
  obtain ⟨f1, g1, hN1, hl1⟩ := good_normal c1 hp
  obtain ⟨f2, g2, hN2, hl2⟩ := good_normal c2 hq
  -- keys the two requests are local to, different from each other
  have hkeys : ∃ k1 k2, k1 ≠ k2 ∧ LocalAt k1 f1 ∧ LocalAt k2 f2 := by
    rcases hl1 with ⟨k1, hk1, hL1⟩ | ⟨_, hL1⟩
    · rcases hl2 with ⟨k2, hk2, hL2⟩ | ⟨_, hL2⟩
      · exact ⟨k1, k2, hind k1 k2 hk1 hk2, hL1, hL2⟩
      · exact ⟨k1, k1 ++ [0], fun h => cons_ne_self k1 h.symm, hL1, hL2 _⟩
    · rcases hl2 with ⟨k2, hk2, hL2⟩ | ⟨_, hL2⟩
      · exact ⟨k2 ++ [0], k2, cons_ne_self k2, hL1 _, hL2⟩
      · exact ⟨[], [0], by decide, hL1 _, hL2 _⟩
  obtain ⟨k1, k2, hne, hL1, hL2⟩ := hkeys
  have hcur1 : ∀ D' ks', (mkM a i D' ks').cur j = a.cur j := fun D' ks' => by simp [mkM, hji]
  have hcur2 : ∀ D' ks', (mkM a j D' ks').cur i = a.cur i := fun D' ks' => by simp [mkM, htag]
  rw [hN1 a i, hN2 a j]
  by_cases hD : a.cur i = a.cur j
  · -- both connections have selected the same database
    have hc := local_commute hL1 hL2 hne (a.dbs (a.cur i))
    rw [← hD]
    cases e1 : f1 (a.dbs (a.cur i)) with
    | none =>
      cases e2 : f2 (a.dbs (a.cur i)) with
      | none => trivial
      | some y =>
        simp only [Option.map_none, Option.bind_none, Option.map_some, Option.bind_some, hN1, hcur2]
        have hy : (mkM a j (g2 (a.cur i)) y).dbs (a.cur i) = y := by simp [mkM, hD]
        rw [hy]
        rw [e1, e2] at hc
        simp only [Option.bind_none, Option.bind_some] at hc
        cases e3 : f1 y with
        | none => trivial
        | some z => rw [e3] at hc; exact hc.elim
    | some x =>
      have hx : (mkM a i (g1 (a.cur i)) x).dbs (a.cur i) = x := by simp [mkM]
      cases e2 : f2 (a.dbs (a.cur i)) with
      | none =>
        simp only [Option.map_none, Option.bind_none, Option.map_some, Option.bind_some, hN2, hcur1, ← hD, hx]
        rw [e1, e2] at hc
        simp only [Option.bind_none, Option.bind_some] at hc
        cases e3 : f2 x with
        | none => trivial
        | some z => rw [e3] at hc; exact hc.elim
      | some y =>
        have hy : (mkM a j (g2 (a.cur i)) y).dbs (a.cur i) = y := by simp [mkM, hD]
        simp only [Option.map_some, Option.bind_some, hN1, hN2, hcur1, hcur2, ← hD, hx, hy]
        rw [e1, e2] at hc
        simp only [Option.bind_some] at hc
        cases e3 : f2 x with
        | none =>
          cases e4 : f1 y with
          | none => trivial
          | some w => rw [e3, e4] at hc; exact hc.elim
        | some z =>
          cases e4 : f1 y with
          | none => rw [e3, e4] at hc; exact hc.elim
          | some w =>
            rw [e3, e4] at hc
            refine ⟨fun l => ?_, fun D k' => ?_⟩
            · simp only [mkM]
              by_cases hli : l = i
              · simp [hli, htag]
              · by_cases hlj : l = j
                · simp [hlj, hji]
                · simp [hli, hlj]
            · simp only [mkM, hji, htag, if_false, ← hD]
              by_cases hDD : D = a.cur i
              · simp [hDD, hc k']
              · simp [hDD]
  · -- different databases: the two requests touch different keyspaces
    have hD' : ¬ (a.cur j = a.cur i) := fun h => hD h.symm
    cases e1 : f1 (a.dbs (a.cur i)) with
    | none =>
      cases e2 : f2 (a.dbs (a.cur j)) with
      | none => trivial
      | some y =>
        simp only [Option.map_none, Option.bind_none, Option.map_some, Option.bind_some, hN1, hcur2]
        have hy : (mkM a j (g2 (a.cur j)) y).dbs (a.cur i) = a.dbs (a.cur i) := by simp [mkM, hD]
        rw [hy, e1]
        trivial
    | some x =>
      have hx : (mkM a i (g1 (a.cur i)) x).dbs (a.cur j) = a.dbs (a.cur j) := by simp [mkM, hD']
      cases e2 : f2 (a.dbs (a.cur j)) with
      | none =>
        simp only [Option.map_none, Option.bind_none, Option.map_some, Option.bind_some, hN2, hcur1, hx, e2]
        trivial
      | some y =>
        have hy : (mkM a j (g2 (a.cur j)) y).dbs (a.cur i) = a.dbs (a.cur i) := by simp [mkM, hD]
        simp only [Option.map_some, Option.bind_some, hN1, hN2, hcur1, hcur2, hx, hy, e1, e2]
        refine ⟨fun l => ?_, fun D k' => ?_⟩
        · simp only [mkM]
          by_cases hli : l = i
          · simp [hli, htag]
          · by_cases hlj : l = j
            · simp [hlj, hji]
            · simp [hli, hlj]
        · simp only [mkM, hji, htag, if_false]
          by_cases hDi : D = a.cur i
          · simp [hDi, hD]
          · by_cases hDj : D = a.cur j
            · simp [hDj, hD']
            · simp [hDi, hDj]

/-- all schedules with the same per-connection request sequences agree, when every request is
    good and requests of different connections never name the same key -/
theorem sched_equiv (s1 s2 : List (Nat × Cmd)) (hproj : ∀ j, proj Prod.fst j s1 = proj Prod.fst j s2)
    (hgood : ∀ p ∈ s1, goodP p) (hind : ∀ p ∈ s1, ∀ q ∈ s1, p.1 ≠ q.1 → indepP p q)
    (a b : MState) (hab : MEq a b) : ORel MEq (applySched a s1) (applySched b s2) := by
  rw [applySched_run, applySched_run]
  exact sched_indep MEq applyTagged Prod.fst goodP indepP meq_refl meq_symm meq_trans tagged_congr tagged_comm
    s1 s2 hproj hgood hind a b hab

/-! ## the requests of the model's workers -/

/-- a good request on worker `p.1` of `n` names, if any, a key routed to that worker -/
def TagOk (n : Nat) (p : Nat × Cmd) : Prop :=
  GoodReq p.2 ∧ ∀ k, keyOf p.2 = some k → fnv32a k % n = p.1

theorem indep_of_tagOk (n : Nat) (p q : Nat × Cmd) (hp : TagOk n p) (hq : TagOk n q) (h : p.1 ≠ q.1) : indepP p q := by
  intro k1 k2 h1 h2 he
  apply h
  rw [← hp.2 k1 h1, ← hq.2 k2 h2, he]

theorem keyOf_plain (c : Cmd) (k : Bytes) (rest : List Arg) (hargs : c.args = .b k :: rest)
    (hname : lower c.name ∈ plainNames) : keyOf c = some k := by
  simp [keyOf, hname, hargs]

theorem keyOf_none_of_name (c : Cmd) (h : lower c.name ∉ plainNames) : keyOf c = none := by
  simp [keyOf, h]

/-- a request on key `key`, or one without key -/
def ReqOn (key : Bytes) (c : Cmd) : Prop := GoodReq c ∧ ∀ k, keyOf c = some k → k = key

theorem reqOn_plain (key : Bytes) (name : Bytes) (rest : List Bytes) (hn : lower name ∈ plainNames) :
    ReqOn key (cmdB name (key :: rest)) :=
  ⟨GoodReq.key key (rest.map Arg.b) rfl hn, fun k hk => by
    rw [keyOf_plain _ key (rest.map Arg.b) rfl hn] at hk; exact (Option.some.inj hk).symm⟩

theorem reqOn_noop (key : Bytes) (c : Cmd) (h : lower c.name = b!"script" ∨ lower c.name = b!"function") :
    ReqOn key c := by
  refine ⟨GoodReq.noop h, fun k hk => ?_⟩
  have : lower c.name ∉ plainNames := by
    intro hm
    have := plain_not_special _ hm
    rcases h with h | h
    · exact this.2.1 h
    · exact this.2.2 h
  rw [keyOf_none_of_name c this] at hk
  cases hk

theorem map_reqOn {α : Type} (key : Bytes) (x : Option (List α)) (g : α → Cmd)
    (hg : ∀ a, ReqOn key (g a)) (cs : List Cmd) (h : x.map (fun es => es.map g) = some cs) :
    ∀ c ∈ cs, ReqOn key c := by
  obtain ⟨es, _, rfl⟩ := Option.map_eq_some_iff.mp h
  intro c hc
  obtain ⟨a, _, rfl⟩ := List.mem_map.mp hc
  exact hg a

theorem execCmd_reqOn (x : XCfg) (p : PObj) (hns : otypeOf p.rtype ≠ some .stream) (cs : List Cmd)
    (h : execCmd x p = some cs) : ∀ c ∈ cs, ReqOn p.key c := by
  unfold execCmd at h
  cases hot : otypeOf p.rtype with
  | none => simp [hot] at h
  | some ot =>
    cases ot with
    | string =>
      simp only [hot, Option.some.injEq] at h; subst h
      intro c hc; simp only [List.mem_singleton] at hc; subst hc
      exact reqOn_plain p.key b!"set" [p.val] (by decide)
    | list =>
      simp only [hot] at h
      exact map_reqOn p.key _ _ (fun e => reqOn_plain p.key b!"RPUSH" [e] (by decide)) cs h
    | set =>
      simp only [hot] at h
      exact map_reqOn p.key _ _ (fun e => reqOn_plain p.key b!"SADD" [e] (by decide)) cs h
    | zset =>
      simp only [hot] at h
      have hz : ∀ (s : Arg) (m : Bytes), ReqOn p.key ⟨b!"ZADD", [Arg.b p.key, s, Arg.b m]⟩ := fun s m =>
        ⟨GoodReq.key p.key [s, Arg.b m] rfl (show lower b!"ZADD" ∈ plainNames by decide), fun k hk => by
          rw [keyOf_plain _ p.key [s, Arg.b m] rfl (show lower b!"ZADD" ∈ plainNames by decide)] at hk; exact (Option.some.inj hk).symm⟩
      split at h
      · split at h
        · cases h
        · exact map_reqOn p.key _ _ (fun (a : Bytes × Nat) => hz (Arg.f a.2) a.1) cs h
      · split at h
        · cases h
        · exact map_reqOn p.key _ _ (fun (a : Bytes × Bytes) => hz (Arg.b a.2) a.1) cs h
    | hash =>
      simp only [hot] at h
      exact map_reqOn p.key _ _ (fun (a : Bytes × Bytes) => reqOn_plain p.key b!"HSET" [a.1, a.2] (by decide)) cs h
    | stream => exact absurd hot hns
    | module => simp [hot] at h
    | function =>
      simp only [hot] at h
      split at h
      · simp only [Option.some.injEq] at h; subst h
        intro c hc; simp only [List.mem_singleton] at hc; subst hc
        exact reqOn_noop _ _ (Or.inr (show lower b!"FUNCTION" = b!"function" by decide))
      · simp only [Option.some.injEq] at h; subst h; intro c hc; cases hc
    | aux =>
      simp only [hot] at h
      split at h
      · simp only [Option.some.injEq] at h; subst h
        intro c hc; simp only [List.mem_singleton] at hc; subst hc
        exact reqOn_noop _ _ (Or.inl (show lower b!"script" = b!"script" by decide))
      · simp only [Option.some.injEq] at h; subst h; intro c hc; cases hc

theorem expandEntry_reqOn (cfg : RCfg) (db : Int) (ex : Exists) (e : Entry) (ot : OType) (src : Bytes)
    (hsrc : src = e.key) (hkey : e.obj.key = e.key) (hns : otypeOf e.obj.rtype ≠ some .stream) :
    ∀ c ∈ (expandEntry cfg db ex e ot src).1, ReqOn e.key c := by
  subst hsrc
  have hprobe : ∀ c ∈ (if e.obj.firstBin then
      cmdB b!"exists" [e.key] :: (if ex.has db e.key then [cmdB b!"del" [e.key]] else []) else []), ReqOn e.key c := by
    intro c hc
    split at hc
    · rcases List.mem_cons.mp hc with rfl | hc
      · exact reqOn_plain e.key b!"exists" [] (by decide)
      · split at hc
        · simp only [List.mem_singleton] at hc; subst hc; exact reqOn_plain e.key b!"del" [] (by decide)
        · cases hc
    · cases hc
  intro c hc
  unfold expandEntry at hc
  simp only at hc
  split at hc
  · cases hc
  · cases hx : execCmd cfg.x e.obj with
    | none =>
      simp only [hx, Option.map_none] at hc
      exact hprobe c hc
    | some cs =>
      simp only [hx, Option.map_some, List.mem_append, rewrite_self] at hc
      rcases hc with (hc | hc) | hc
      · exact hprobe c hc
      · have := execCmd_reqOn cfg.x e.obj hns cs hx c hc
        rw [hkey] at this; exact this
      · split at hc
        · simp only [List.mem_singleton] at hc; subst hc
          exact reqOn_plain e.key b!"pexpire" [_] (by decide)
        · cases hc

theorem replayEntry_reqOn (cfg : RCfg) (D : Int) (ex : Exists) (e : Entry) (hrht : cfg.replaceHashTag = false)
    (hns : otypeOf e.obj.rtype ≠ some .stream)
    (hkey : e.obj.rtype = 0xFA ∨ e.obj.rtype = 0xF5 ∨ e.obj.key = e.key) :
    ∀ c ∈ (replayEntry cfg D ex e).1, ReqOn e.key c := by
  rcases hkey with hrt | hrt | hkey
  · obtain ⟨cs, hcs, hn⟩ := replay_aux cfg D ex e hrt
    rw [hcs]; exact fun c hc => reqOn_noop _ c (hn c hc)
  · obtain ⟨cs, hcs, hn⟩ := replay_function cfg D ex e hrt
    rw [hcs]; exact fun c hc => reqOn_noop _ c (hn c hc)
  · have hd : dstKey cfg e.key = e.key := by simp [dstKey, hrht]
    intro c hc
    unfold replayEntry at hc
    simp only at hc
    split at hc
    · cases hc
    · rename_i ot hot
      split at hc
      · cases hx : execCmd cfg.x e.obj with
        | none => simp [hx] at hc
        | some cs =>
          simp only [hx] at hc
          have := execCmd_reqOn cfg.x e.obj hns cs hx c hc
          rw [hkey] at this; exact this
      · have hexp : ∀ c ∈ (expandEntry cfg D ex { e with key := dstKey cfg e.key } ot e.key).1, ReqOn e.key c := by
          have := expandEntry_reqOn cfg D ex { e with key := dstKey cfg e.key } ot e.key hd.symm
            (by show e.obj.key = dstKey cfg e.key; rw [hd]; exact hkey) hns
          simpa only [hd] using this
        split at hc
        · exact hexp c hc
        · have hatt : ∀ (p1 p2 : List Bytes), ∀ c ∈ (if ex.has D (dstKey cfg e.key)
              then [cmdB b!"restore" (dstKey cfg e.key :: p1), cmdB b!"restore" (dstKey cfg e.key :: p2)]
              else [cmdB b!"restore" (dstKey cfg e.key :: p1)]), ReqOn e.key c := by
            intro p1 p2 c hc
            rw [hd] at hc
            split at hc
            · simp only [List.mem_cons, List.not_mem_nil, or_false] at hc
              rcases hc with rfl | rfl
              · exact reqOn_plain e.key b!"restore" p1 (by decide)
              · exact reqOn_plain e.key b!"restore" p2 (by decide)
            · simp only [List.mem_singleton] at hc; subst hc
              exact reqOn_plain e.key b!"restore" p1 (by decide)
          split at hc
          · exact hatt _ _ c hc
          · simp only [List.mem_append] at hc
            rcases hc with hc | hc
            · exact hatt _ _ c hc
            · exact hexp c hc

theorem otypeOf_function_fin : ∀ n : Fin 256, otypeOf (UInt8.ofNat n.val) = some .function → n.val = 0xF5 := by
  decide +kernel

theorem otypeOf_function (t : UInt8) (h : otypeOf t = some .function) : t = 0xF5 := by
  have ht : UInt8.ofNat t.toNat = t := UInt8.ofNat_toNat
  have := otypeOf_function_fin ⟨t.toNat, UInt8.toNat_lt t⟩ (by simpa [ht] using h)
  simp only at this
  rw [← ht, this]
  rfl

theorem afterSelect_shape (cfg : RCfg) (w : Worker) (e : Entry) :
    ∃ d, (afterSelect cfg w e).log = w.log ++ d ∧ ∀ c ∈ d, c = cmdB b!"select" [intToDec (mapDb cfg e.db)] := by
  unfold afterSelect
  split
  · exact ⟨[], by simp, fun c hc => by cases hc⟩
  · split
    · exact ⟨_, rfl, fun c hc => by simpa using hc⟩
    · exact ⟨[], by simp, fun c hc => by cases hc⟩

theorem stepReqs_mem (cfg : RCfg) (htick : cfg.tick = 0) (w : Worker) (ex : Exists) (e : Entry) (c : Cmd)
    (hc : c ∈ stepReqs cfg w ex e) :
    c = cmdB b!"select" [intToDec (mapDb cfg e.db)] ∨ ∃ D, c ∈ (replayEntry cfg D ex e).1 := by
  obtain ⟨d, hd, hsel⟩ := afterSelect_shape cfg w e
  unfold stepReqs at hc
  by_cases hA : e.db ≠ -1 ∧ cfg.filterDb e.db = true
  · rw [workerStep_A cfg w ex e hA] at hc
    simp at hc
  · by_cases hk : cfg.filterKey e.key = true
    · rw [workerStep_B cfg w ex e hA hk] at hc
      simp only [hd, List.drop_left] at hc
      exact Or.inl (hsel c hc)
    · rw [workerStep_C cfg htick w ex e hA hk] at hc
      simp only [hd, List.append_assoc, List.drop_left, List.mem_append] at hc
      rcases hc with hc | hc
      · exact Or.inl (hsel c hc)
      · exact Or.inr ⟨_, hc⟩

/-- the entries whose requests carry the entry's key -/
def EntryKeyed (e : Entry) : Prop :=
  (EntryOk e ∧ otypeOf e.obj.rtype ≠ some .stream) ∧ (e.obj.rtype = 0xFA ∨ e.obj.rtype = 0xF5 ∨ e.obj.key = e.key)

theorem step_tagOk (cfg : RCfg) (htick : cfg.tick = 0) (hrht : cfg.replaceHashTag = false)
    (n idx : Nat) (w : Worker) (ex : Exists) (e : Entry) (hk : EntryKeyed e) :
    ∀ c ∈ stepReqs cfg w ex e, TagOk n (workerOf cfg n e idx, c) := by
  intro c hc
  rcases stepReqs_mem cfg htick w ex e c hc with rfl | ⟨D, hD⟩
  · refine ⟨GoodReq.sel (show lower b!"select" = b!"select" by decide), fun k hk' => ?_⟩
    have : keyOf (cmdB b!"select" [intToDec (mapDb cfg e.db)]) = none :=
      keyOf_none_of_name _ (show lower b!"select" ∉ plainNames by decide)
    rw [this] at hk'; cases hk'
  · by_cases hf : e.obj.rtype = 0xF5
    · obtain ⟨cs, hcs, hn⟩ := replay_function cfg D ex e hf
      rw [hcs] at hD
      have hr := reqOn_noop e.key c (hn c hD)
      refine ⟨hr.1, fun k hk' => ?_⟩
      have : lower c.name ∉ plainNames := by
        intro hm
        have := plain_not_special _ hm
        rcases hn c hD with h | h
        · exact this.2.1 h
        · exact this.2.2 h
      rw [keyOf_none_of_name c this] at hk'; cases hk'
    · have hr := replayEntry_reqOn cfg D ex e hrht hk.1.2 hk.2 c hD
      refine ⟨hr.1, fun k hk' => ?_⟩
      have hkk := hr.2 k hk'
      subst hkk
      have hnf : otypeOf e.obj.rtype ≠ some .function := fun h => hf (otypeOf_function _ h)
      simp only [workerOf, hnf, ne_eq, not_false_eq_true, or_true, if_true, dstKey, hrht, Bool.false_eq_true, if_false]

theorem sched_tagOk (cfg : RCfg) (htick : cfg.tick = 0) (hrht : cfg.replaceHashTag = false) :
    ∀ (es : List Entry), (∀ e ∈ es, EntryKeyed e) → ∀ (idx : Nat) (ws : List Worker) (ex : Exists),
      ∀ p ∈ schedOf (fanOutTrace cfg es idx ws ex), TagOk ws.length p := by
  intro es
  induction es with
  | nil => intro _ idx ws ex p hp; cases hp
  | cons e es ih =>
    intro hes idx ws ex p hp
    simp only [fanOutTrace, schedOf, List.flatMap_cons, List.mem_append] at hp
    rcases hp with hp | hp
    · obtain ⟨c, hc, rfl⟩ := List.mem_map.mp hp
      exact step_tagOk cfg htick hrht ws.length idx _ ex e (hes e (List.mem_cons_self ..)) c hc
    · split at hp
      · have := ih (fun x hx => hes x (List.mem_cons_of_mem _ hx)) _ _ _ p hp
        simpa using this
      · simp at hp

theorem trace_keyed {db : Nat} {items : List Item} {es : List Entry} (htr : Trace db items es)
    (hcar : ∀ i ∈ items, i.carried) : ∀ e ∈ es, EntryKeyed e := by
  have hok := trace_ok htr hcar
  induction htr with
  | nil db => intro e he; cases he
  | skip _ _ ih => exact ih (fun x hx => hcar x (List.mem_cons_of_mem _ hx)) hok
  | @aux db k v items es e hdb hrt _ ih =>
    intro x hx
    rcases List.mem_cons.mp hx with rfl | hx'
    · exact ⟨⟨hok _ hx, by rw [hrt]; decide⟩, Or.inl hrt⟩
    · exact ih (fun x hx => hcar x (List.mem_cons_of_mem _ hx)) (fun y hy => hok y (List.mem_cons_of_mem _ hy)) x hx'
  | @function db code items es e hdb hrt _ ih =>
    intro x hx
    rcases List.mem_cons.mp hx with rfl | hx'
    · exact ⟨⟨hok _ hx, by rw [hrt]; decide⟩, Or.inr (Or.inl hrt)⟩
    · exact ih (fun x hx => hcar x (List.mem_cons_of_mem _ hx)) (fun y hy => hok y (List.mem_cons_of_mem _ hy)) x hx'
  | @key db k items ces es hke _ ih =>
    intro x hx
    rcases List.mem_append.mp hx with hx' | hx'
    · obtain ⟨hkind, _, _⟩ := hcar (.key k) (List.mem_cons_self ..)
      rcases hke with ⟨e, rfl, he, hobj⟩ | ⟨f, its, e0, tl, _, hces, hc, _⟩
      · simp only [List.mem_singleton] at hx'; subst hx'
        refine ⟨⟨hok _ hx, ?_⟩, Or.inr (Or.inr ?_)⟩
        · rw [hobj]
          show otypeOf k.obj.rtype ≠ _
          rw [otypeOf_rtype k.obj hkind]
          intro h; exact otOf_ne_stream k.obj (Option.some.inj h)
        · rw [hobj, he.1]; rfl
      · have := hc x hx'
        refine ⟨⟨hok x hx, by rw [this.2.2.1]; decide⟩, Or.inr (Or.inr ?_)⟩
        rw [this.2.1, this.1.1]
    · exact ih (fun x hx => hcar x (List.mem_cons_of_mem _ hx)) (fun y hy => hok y (List.mem_append_right _ hy)) x hx'

theorem proj_eq_of_map (s : List (Nat × Cmd)) (j : Nat) :
    proj Prod.fst j s = ((s.filter (fun p => p.1 == j)).map (·.2)).map (fun c => (j, c)) := by
  unfold proj
  rw [List.map_map]
  symm
  apply map_id_of_mem
  intro a ha
  have := (List.mem_filter.mp ha).2
  simp only [beq_iff_eq] at this
  simp [Function.comp, ← this]

/-- `any_interleaving` with the hypotheses spelled out (Props/C03.lean states it) -/
theorem any_interleaving_core (d : DCfg) (cfg : RCfg) (f : FileE)
    (hwf : f.wf) (hfoot : f.footer ≠ .bad) (hcar : ∀ i ∈ f.items, i.carried)
    (htick : cfg.tick = 0) (hrht : cfg.replaceHashTag = false)
    (hload : ∀ p ∈ f.keys, cfg.enableRestore = true → typeLoadable cfg.x.tgtMajor p.2.obj.rtype = true)
    (hdb : ∀ n : Nat, cfg.filterDb (n : Int) = false → 0 ≤ mapDb cfg (n : Int))
    (hdistinct : ((f.keys.filter (replayed cfg)).map (fun p => (mapDb cfg (p.1 : Int), p.2.key.val))).Nodup)
    (n : Nat) (hn : 1 ≤ n) (hpar : cfg.parallel = n) :
    ∃ (logs : List (List Cmd)) (M0 : MState), sendRdb d cfg [] (rdbFile f) = (logs, true) ∧ logs.length = n ∧
      (∀ D, Pointwise (Holds cfg) (expectedKeys cfg D f.keys) (M0.dbs D)) ∧
      ∀ sched : List (Nat × Cmd),
        (∀ j, (sched.filter (fun p => p.1 == j)).map (·.2) = logs.getD j []) →
        ∃ M, applySched {} sched = some M ∧ ∀ D, KEq (M.dbs D) (M0.dbs D) := by
  obtain ⟨logs, sched0, M0, hsend, hlen, hproj0, happ0, hpt, es, htr, hs0⟩ :=
    fanout_parallel_core d cfg f hwf hfoot hcar htick hrht hload hdb hdistinct n hn hpar
  refine ⟨logs, M0, hsend, hlen, hpt, ?_⟩
  intro sched hsched
  have hlenN : (List.replicate n ({} : Worker)).length = n := by simp
  have htag := sched_tagOk cfg htick hrht es (trace_keyed htr hcar) 0 (List.replicate n {}) []
  rw [hlenN, ← hs0] at htag
  -- the projections agree
  have hproj : ∀ j, proj Prod.fst j sched0 = proj Prod.fst j sched := by
    intro j
    rw [proj_eq_of_map sched0 j, proj_eq_of_map sched j, hsched j]
    by_cases hj : j < n
    · rw [hproj0 j hj]
    · have hnone : sched0.filter (fun p => p.1 == j) = [] := by
        rw [List.filter_eq_nil_iff]
        intro p hp
        have hlt : p.1 < n := by
          have := trace_tag_lt cfg es 0 (List.replicate n {}) [] (by rw [hlenN]; omega)
          rw [hs0] at hp
          simp only [schedOf, List.mem_flatMap] at hp
          obtain ⟨q, hq, hpq⟩ := hp
          obtain ⟨c, _, rfl⟩ := List.mem_map.mp hpq
          have := this q hq
          rwa [hlenN] at this
        simp; omega
      have hl : logs.getD j [] = [] := by
        simp only [List.getD]
        rw [List.getElem?_eq_none (by omega)]
        rfl
      rw [hnone, hl]; rfl
  have hrel := sched_equiv sched0 sched hproj (fun p hp => (htag p hp).1)
    (fun p hp q hq hne => indep_of_tagOk n p q (htag p hp) (htag q hq) hne) {} {} (meq_refl _)
  rw [happ0] at hrel
  cases hs : applySched {} sched with
  | none => rw [hs] at hrel; exact hrel.elim
  | some M =>
    rw [hs] at hrel
    exact ⟨M, rfl, fun D k => (hrel.2 D k).symm⟩

end GunYu.Rdb
