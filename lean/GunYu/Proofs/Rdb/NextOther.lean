/-
  Helper lemmas for C03: `Loader.Next` on a key item whose value is a stream or a
  module value (type 7), and on a module aux item under the `skip` policy.
-/
import GunYu.Proofs.Rdb.Chunk
import GunYu.Proofs.Rdb.StreamSkip

namespace GunYu.Rdb
open GunYu

/-- the values `next_plain` does not cover and the loader nevertheless reads as ONE
    entry: streams (types 15/19/21/26) and module values (type 7) -/
def ObjE.opaque : ObjE → Prop
  | .stream s => s.wf ∧ s.sound
  | .module2 id ops => id < 2 ^ 64 ∧ ∀ o ∈ ops, o.wf
  | _ => False

def otOther : ObjE → OType
  | .stream _ => .stream
  | _ => .module

theorem stream_rtype_cases (s : StreamE) (h1 : 1 ≤ s.ver) (h4 : s.ver ≤ 4) :
    s.rtype = 15 ∨ s.rtype = 19 ∨ s.rtype = 21 ∨ s.rtype = 26 := by
  have : s.ver = 1 ∨ s.ver = 2 ∨ s.ver = 3 ∨ s.ver = 4 := by omega
  rcases this with h | h | h | h <;> simp [StreamE.rtype, h]

/-- type-byte facts of an opaque value -/
theorem opaque_rtype (o : ObjE) (ho : o.opaque) :
    otypeOf o.rtype = some (otOther o) ∧ otOther o ≠ .function ∧ otOther o ≠ .aux ∧ o.rtype ≠ 4 ∧
    ¬ (o.rtype = 0 ∨ o.rtype = 0xFA) ∧ o.rtype.toNat < 244 := by
  cases o with
  | stream s =>
    obtain ⟨⟨_, h1, h4, _⟩, _⟩ := ho
    rcases stream_rtype_cases s h1 h4 with h | h | h | h <;>
      (simp only [ObjE.rtype, h, otOther]; decide)
  | module2 id ops => simp only [ObjE.rtype, otOther]; decide
  | _ => exact absurd ho (by simp [ObjE.opaque])

theorem skipValue_opaque (o : ObjE) (rest : Bytes) (ho : o.opaque) : skipValue o.rtype (o.ser ++ rest) = some rest := by
  cases o with
  | stream s =>
    obtain ⟨hwf, hs⟩ := ho
    have hsk := skipStream_ser s rest hwf hs
    obtain ⟨_, h1, h4, _⟩ := hwf
    simp only [ObjE.rtype, ObjE.ser]
    rcases stream_rtype_cases s h1 h4 with h | h | h | h <;>
      (rw [h] at hsk ⊢; unfold skipValue; simpa using hsk)
  | module2 id ops =>
    obtain ⟨hid, hw⟩ := ho
    obtain ⟨r, h1, h2⟩ := skipModule_payload id ops rest hid hw
    simp only [ObjE.rtype, ObjE.ser]
    unfold skipValue
    simp [h1, h2]
  | _ => exact absurd ho (by simp [ObjE.opaque])

theorem pobjOf_opaque (key : Bytes) (o : ObjE) (ho : o.opaque) :
    pobjOf key o = { rtype := o.rtype, key := key, val := [], buf := o.ser, total := 0, read := 0, history := 0 } := by
  cases o <;> first | rfl | exact absurd ho (by simp [ObjE.opaque])

/-- `ReadBuffer` on key + serialization of a stream / module value: the parser object
    whose teed buffer is exactly the serialization (`raw_is_encode` for opaque values) -/
theorem readBuffer_opaque (cfg : DCfg) (ls : LState) (key : SE) (o : ObjE) (rest : Bytes)
    (hls : ls.total = 0 ∧ ls.read = 0) (hkey : key.wf) (ho : o.opaque) :
    readBuffer cfg ls o.rtype (key.enc ++ (o.ser ++ rest)) =
      some (pobjOf key.val o, { ls with total := 0, read := 0 }, rest) := by
  obtain ⟨hot, hnf, _, hh, hval, _⟩ := opaque_rtype o ho
  unfold readBuffer
  simp only [hot, hnf, if_false, hls.1, hls.2, Nat.sub_self, ne_eq, not_true_eq_false, hh,
    readString_enc key _ hkey, skipValue_opaque o rest ho, consumed_append, hval, if_true,
    pobjOf_opaque key.val o ho]

/-- `Loader.Next` on a key item holding a stream or a module value: ONE entry with the
    key, the loader's DB, the expiry, and the parser object whose teed buffer is the
    value's serialization; the loader is ready for the next item behind the value -/
theorem next_opaque (cfg : DCfg) (ls : LState) (k : KeyE) (rest : Bytes)
    (hls : ls.total = 0 ∧ ls.read = 0) (hwf : k.wf) (ho : k.obj.opaque) :
    ∃ e ls', next cfg ls (k.enc ++ rest) = some (some e, ls', rest) ∧
      e.key = k.key.val ∧ e.db = (ls.db : Int) ∧ e.expireAt = k.exp.at ∧
      e.type = k.obj.rtype ∧ e.obj = pobjOf k.key.val k.obj ∧
      ls'.db = ls.db ∧ ls'.total = 0 ∧ ls'.read = 0 := by
  have hwf' := hwf
  obtain ⟨hkey, _, _, _, _⟩ := hwf
  have hls0 : ls.total - ls.read = 0 := by omega
  obtain ⟨fuel, hnext0⟩ := next_at_key cfg ls k rest hls0 hwf'
  obtain ⟨hm1, _, _, _⟩ := metaOf_fields k
  obtain ⟨hot, hnf, _, hh, hval, hlt⟩ := opaque_rtype k.obj ho
  obtain ⟨n1, n2, n3, n4, n5, n6, n7, n8, n9, n10, n11⟩ := not_opcode k.obj.rtype hlt
  have hrb := readBuffer_opaque cfg ls k.key k.obj rest hls hkey ho
  refine ⟨{ metaOf k {} with db := (ls.db : Int), key := k.key.val, type := k.obj.rtype,
                              obj := pobjOf k.key.val k.obj },
          { ({ ls with total := 0, read := 0 } : LState) with
              last := some { metaOf k {} with db := (ls.db : Int), key := k.key.val, type := k.obj.rtype,
                                              obj := pobjOf k.key.val k.obj } }, ?_, rfl, rfl, hm1, rfl, rfl, rfl, rfl, rfl⟩
  rw [hnext0]
  have hn : ¬ (ls.total - ls.read ≠ 0) := by omega
  simp only [nextLoop, hn, if_false, n1, n2, n3, n4, n5, n6, n7, n8, n9, n10, n11, hrb]
  rfl

/-- a module aux item under the `skip` policy is stepped over inside `Next` -/
theorem nextLoop_modaux (cfg : DCfg) (F : Nat) (ls : LState) (e : Entry) (id : Nat) (ops : List ModOp) (X : Bytes)
    (hls : ls.total - ls.read = 0) (hid : id < 2 ^ 64) (hw : ∀ o ∈ ops, o.wf) (hpol : cfg.failModAux = false) :
    nextLoop cfg (F + 1) ls e ((Item.moduleAux id ops).enc ++ X) = nextLoop cfg F ls e X := by
  have hn : ¬ (ls.total - ls.read ≠ 0) := by omega
  obtain ⟨r, h1, h2⟩ := skipModule_payload id ops X hid hw
  simp only [Item.enc, List.cons_append, nextLoop, hn, if_false]
  simp only [show ((0xF7 : UInt8) = 0xFA) = False by decide, show ((0xF7 : UInt8) = 0xFB) = False by decide,
    show ((0xF7 : UInt8) = 0xFC) = False by decide, show ((0xF7 : UInt8) = 0xFD) = False by decide,
    show ((0xF7 : UInt8) = 0xFE) = False by decide, show ((0xF7 : UInt8) = 0xF4) = False by decide,
    show ((0xF7 : UInt8) = 0xFF) = False by decide, if_false, if_true]
  simp only [h1, h2, hpol, Bool.false_eq_true, if_false]

end GunYu.Rdb
