/-
  Helper lemmas for C03: `full_sync_streams` for ANY number of workers, snapshot-order
  schedule (datasets with streams, module values and module aux items).
-/
import GunYu.Proofs.Rdb.Parallel
import GunYu.Proofs.Rdb.SyncS

namespace GunYu.Rdb
open GunYu GunYu.RedisSem

theorem trace_okG {db : Nat} {items : List Item} {es : List Entry} (htr : Trace db items es) :
    ∀ e ∈ es, EntryOk e := by
  induction htr with
  | nil db => intro e he; cases he
  | skip _ _ ih => exact ih
  | @aux db k v items es e hdb hrt _ ih =>
    intro x hx
    rcases List.mem_cons.mp hx with rfl | hx
    · exact Or.inr ⟨db, hdb⟩
    · exact ih x hx
  | @function db code items es e hdb hrt _ ih =>
    intro x hx
    rcases List.mem_cons.mp hx with rfl | hx
    · exact Or.inl ⟨hdb, hrt⟩
    · exact ih x hx
  | @key db k items ces es hke _ ih =>
    intro x hx
    rcases List.mem_append.mp hx with hx | hx
    · rcases hke with ⟨e, rfl, he, hobj⟩ | ⟨f, its, e0, tl, _, hces, hc, _⟩
      · simp only [List.mem_singleton] at hx; subst hx
        exact Or.inr ⟨db, he.2.1⟩
      · have := hc x hx
        exact Or.inr ⟨db, this.1.2.1⟩
    · exact ih x hx

/-- `fanout_parallel_partial` over datasets with streams / module values / module aux -/
theorem fanout_parallel_coreS (d : DCfg) (cfg : RCfg) (f : FileE)
    (hwf : f.wf) (hfoot : f.footer ≠ .bad) (hcar : ∀ i ∈ f.items, i.carriedS d cfg)
    (htick : cfg.tick = 0) (hrht : cfg.replaceHashTag = false)
    (hload : ∀ p ∈ f.keys, cfg.enableRestore = true → typeLoadable cfg.x.tgtMajor p.2.obj.rtype = true)
    (hdb : ∀ n : Nat, cfg.filterDb (n : Int) = false → 0 ≤ mapDb cfg (n : Int))
    (hdistinct : ((f.keys.filter (replayed cfg)).map (fun p => (mapDb cfg (p.1 : Int), p.2.key.val))).Nodup)
    (n : Nat) (hn : 1 ≤ n) (hpar : cfg.parallel = n) :
    ∃ logs sched M, sendRdb d cfg [] (rdbFile f) = (logs, true) ∧ logs.length = n ∧
      (∀ j, j < n → (sched.filter (fun p => p.1 == j)).map (·.2) = logs.getD j []) ∧
      applySched {} sched = some M ∧
      (∀ D, Pointwise (HoldsS cfg) (expectedKeys cfg D f.keys) (M.dbs D)) := by
  obtain ⟨es, hparse, htr⟩ := parseRdb_fileG d f hwf
    (fun i hi => carriedS_readable d cfg i (hwf.2.2 i hi) (hcar i hi)) hfoot
  have hkeys : keysFrom 0 (stripAux f.items) = f.keys := keysFrom_strip f.items 0
  have hks := keySteps_of_carriedS d cfg f hwf hcar htick hrht hload hdb
  obtain ⟨w', ex', T', log, hrun, hlog, happ, hfin⟩ := replay_traceG cfg htick hdb (HoldsS cfg) htr
    (by rw [hkeys]; exact hks) {} [] {} rfl (exSub_nil _) (fun _ _ _ => rfl) (by rw [hkeys]; exact hdistinct)
  have hok := trace_okG htr
  -- one worker, seen as connection 0
  have h1 := fanOut_dbs cfg htick hdb es hok 0 [{}] [] {} (by simp) (fun j hj => by
    have : j = 0 := by simpa using hj
    subst this; rfl)
  have htags : ∀ p ∈ fanOutTrace cfg es 0 [{}] [], p.1 = 0 := by
    intro p hp
    have := trace_tag_lt cfg es 0 [{}] [] (by simp) p hp
    simpa using this
  have hlogs1 := fanOut_logs cfg es 0 [{}] [] (by simp) 0 (by simp)
  rw [fanOut_one, hrun] at hlogs1
  simp only [List.getD_cons_zero, hlog] at hlogs1
  have hl : ((fanOutTrace cfg es 0 [{}] []).filter (fun p => p.1 == 0)).flatMap (·.2) = log := by
    simpa using hlogs1.symm
  rw [schedOf_single _ htags, hl, applySched_conn] at h1
  have hconn : ({} : MState).conn 0 = ({} : TState) := rfl
  rw [hconn, happ, fanOut_one, hrun] at h1
  simp only [Option.map_some] at h1
  obtain ⟨h1d, h1ok⟩ := h1
  -- `n` workers
  have hlenN : (List.replicate n ({} : Worker)).length = n := by simp
  have hN := fanOut_dbs cfg htick hdb es hok 0 (List.replicate n {}) [] {} (by rw [hlenN]; omega)
    (fun j _ => getD_replicate_cur n j)
  obtain ⟨hNd, hNok⟩ := hN
  rw [← h1d] at hNd
  rw [← h1ok] at hNok
  cases hs : applySched {} (schedOf (fanOutTrace cfg es 0 (List.replicate n {}) [])) with
  | none => rw [hs] at hNd; simp at hNd
  | some M =>
    rw [hs] at hNd
    simp only [Option.map_some, Option.some.injEq] at hNd
    refine ⟨((fanOut cfg es 0 (List.replicate n {}) []).1).map (·.log),
      schedOf (fanOutTrace cfg es 0 (List.replicate n {}) []), M, ?_, ?_, ?_, hs, ?_⟩
    · unfold sendRdb
      have hmax : max cfg.parallel 1 = n := by rw [hpar]; omega
      simp only [hparse, hmax]
      generalize hr : fanOut cfg es 0 (List.replicate n {}) [] = r at hNok ⊢
      obtain ⟨ws, ex2, ok⟩ := r
      simp only at hNok ⊢
      rw [hNok]; rfl
    · rw [List.length_map, fanOut_length, hlenN]
    · intro j hj
      rw [schedOf_proj, getD_map_log, fanOut_logs cfg es 0 (List.replicate n {}) [] (by rw [hlenN]; omega) j
        (by rw [hlenN]; exact hj)]
      have : ((List.replicate n ({} : Worker)).getD j {}).log = [] := by
        simp only [List.getD, List.getElem?_replicate]
        split <;> rfl
      rw [this, List.nil_append]
    · intro D
      obtain ⟨l, hl', hf⟩ := hfin D
      have hT : T'.dbs D = l := by rw [hl']; rfl
      have hM : M.dbs D = T'.dbs D := by
        have := congrFun hNd D
        simpa [MState.put] using this
      rw [hM, hT, ← hkeys]; exact hf

end GunYu.Rdb
