/-
  Helper lemmas for C03: the `Bad data format` fall-back of `RdbReplay.Replay` on a
  version-aware target (`RedisSem.applyCmdsV`): the RESTORE of a value type the target
  cannot load is refused without effect, the value is then expanded through the same
  probe / expansion / PEXPIRE path as without RESTORE and arrives with its logical
  value and the time to live of its absolute expiry.
-/
import GunYu.Proofs.Rdb.SyncS
import GunYu.Model.Rdb.TargetV

namespace GunYu.Rdb
open GunYu GunYu.RedisSem

theorem dump_head (t : UInt8) (raw : Bytes) : ∃ r, createValueDump t raw = t :: r := by
  simp only [createValueDump]
  exact ⟨_, rfl⟩

theorem refused_restore (major : Nat) (k ttl : Bytes) (t : UInt8) (raw : Bytes) (opts : List Bytes) :
    refused major (cmdB b!"restore" (k :: ttl :: createValueDump t raw :: opts)) = !typeLoadable major t := by
  obtain ⟨r, hr⟩ := dump_head t raw
  simp [refused, cmdB, hr, lower_restore]

theorem not_refused_of_name (major : Nat) (c : Cmd) (h : lower c.name ≠ b!"restore") : refused major c = false := by
  simp [refused, h]

theorem applyCmdsV_eq (major : Nat) : ∀ (cs : List Cmd) (ks : Keyspace), (∀ c ∈ cs, refused major c = false) →
    applyCmdsV major ks cs = applyCmds ks cs := by
  intro cs
  induction cs with
  | nil => intro ks _; rfl
  | cons c cs ih =>
    intro ks h
    simp only [applyCmdsV, applyCmds, applyXCmdV, h c (List.mem_cons_self ..), Bool.false_eq_true, if_false]
    cases applyXCmd ks c with
    | none => rfl
    | some ks' => exact ih ks' (fun x hx => h x (List.mem_cons_of_mem _ hx))

theorem applyReqsV_eq (major : Nat) : ∀ (cs : List Cmd) (t : TState), (∀ c ∈ cs, refused major c = false) →
    applyReqsV major t cs = applyReqs t cs := by
  intro cs
  induction cs with
  | nil => intro t _; rfl
  | cons c cs ih =>
    intro t h
    simp only [applyReqsV, applyReqs, applyReqV, h c (List.mem_cons_self ..), Bool.false_eq_true, if_false]
    cases applyReq t c with
    | none => rfl
    | some t' => exact ih t' (fun x hx => h x (List.mem_cons_of_mem _ hx))

theorem ne_restore_name (c : Cmd) (n : Bytes) (hc : c.name = n) (h : lower n ≠ b!"restore") :
    lower c.name ≠ b!"restore" := by subst hc; exact h

theorem cmds_not_restore (o : ObjE) (k : Bytes) : ∀ c ∈ o.cmds k, lower c.name ≠ b!"restore" := by
  intro c hc
  unfold ObjE.cmds at hc
  cases hkind : o.kind <;> simp only [hkind] at hc
  · split at hc
    · simp only [List.mem_singleton] at hc; subst hc; exact ne_restore_name _ b!"set" rfl (by decide)
    · simp at hc
  · obtain ⟨e, _, rfl⟩ := List.mem_map.mp hc; exact ne_restore_name _ b!"RPUSH" rfl (by decide)
  · obtain ⟨e, _, rfl⟩ := List.mem_map.mp hc; exact ne_restore_name _ b!"SADD" rfl (by decide)
  · obtain ⟨e, _, rfl⟩ := List.mem_map.mp hc; exact ne_restore_name _ b!"ZADD" rfl (by decide)
  · obtain ⟨e, _, rfl⟩ := List.mem_map.mp hc; exact ne_restore_name _ b!"HSET" rfl (by decide)
  · simp at hc

/-- no expanded command is a RESTORE -/
theorem cmdsS_not_restore (x : XCfg) (k : Bytes) (o : ObjE) : ∀ c ∈ o.cmdsS x k, lower c.name ≠ b!"restore" := by
  intro c hc
  cases o with
  | stream s =>
    rcases stream_cmds_names x s k c hc with h | h | h | h <;>
      exact ne_restore_name _ _ h (by decide)
  | _ => all_goals (simp only [ObjE.cmdsS] at hc; exact cmds_not_restore _ k c hc)

/-- the requests of the fall-back: the refused RESTORE, then probe, expansion, PEXPIRE -/
theorem replay_fallbackG (cfg : RCfg) (D : Int) (ex : Exists) (e : Entry) (k : Bytes) (o : ObjE) (ot : OType)
    (cs : List Cmd) (hobj : e.obj = pobjOf k o) (hkey : e.key = k)
    (hot : otypeOf o.rtype = some ot) (hnf1 : ot ≠ .function) (hnf2 : ot ≠ .aux) (hnf3 : ot ≠ .module)
    (hsplit : (pobjOf k o).isSplited = false) (hfb : (pobjOf k o).firstBin = true)
    (hexec : execCmd cfg.x (pobjOf k o) = some cs)
    (hv : viaRestore cfg o) (hnl : typeLoadable cfg.x.tgtMajor o.rtype = false)
    (hrht : cfg.replaceHashTag = false) (hex : ex.has D k = false) :
    ∃ opts, (replayEntry cfg D ex e).1 =
      cmdB b!"restore" (k :: natToDec (ttlOf cfg.now e.expireAt) :: createValueDump o.rtype o.ser :: opts) ::
        ([cmdB b!"exists" [k]] ++ cs ++
          (if e.expireAt ≠ 0 then [cmdB b!"pexpire" [k, natToDec (ttlOf cfg.now e.expireAt)]] else [])) ∧
      (replayEntry cfg D ex e).2.2 = true := by
  obtain ⟨hon, hsz⟩ := hv
  have hsize : ¬ ((pobjOf k o).valueDumpSize > cfg.maxBulk) := by
    simp only [PObj.valueDumpSize, pobjOf]; omega
  have hdump : (pobjOf k o).dump = createValueDump o.rtype o.ser := rfl
  have hrt : (pobjOf k o).rtype = o.rtype := rfl
  simp only [replayEntry, dstKey, hrht, Bool.false_eq_true, if_false, hobj, hkey]
  simp only [hrt, hot, hnf1, hnf2, or_self, if_false, hon, hsplit, hsize, decide_false, Bool.or_self,
    Bool.not_false, Bool.and_self, Bool.not_true, Bool.false_eq_true, hdump, hnl, if_true, hex,
    List.cons_append, List.nil_append]
  simp only [expandEntry, hnf3, if_false]
  simp only [hrht, Bool.false_eq_true, if_false, hobj, hkey, hfb, if_true, hex, hexec, Option.map_some, rewrite_self]
  exact ⟨_, rfl, trivial⟩

theorem execCmd_streamObj (x : XCfg) (k : Bytes) (s : StreamE) (hwf : s.wf) (hs : s.sound) :
    execCmd x (pobjOf k (.stream s)) = some (s.cmds x k) := by
  have hot : otypeOf (pobjOf k (ObjE.stream s)).rtype = some .stream :=
    (opaque_rtype (.stream s) ⟨hwf, hs⟩).1
  have h1 := execStream_ser x k s [] hwf hs
  unfold execCmd
  simp only [hot]
  simpa [pobjOf, ObjE.rtype, ObjE.ser] using h1

theorem cmdsS_plain (x : XCfg) (k : Bytes) (o : ObjE) (hk : o.kind ≠ .other) : o.cmdsS x k = o.cmds k := by
  cases o <;> first | rfl | exact absurd rfl hk

/-- the fall-back end to end on the version-aware oracle -/
theorem fallback_apply (major : Nat) (ks : Keyspace) (k ttlB : Bytes) (t : UInt8) (raw : Bytes) (opts : List Bytes)
    (cs : List Cmd) (v : Val) (exp ttl : Nat)
    (hnl : typeLoadable major t = false) (hnr : ∀ c ∈ cs, lower c.name ≠ b!"restore")
    (hfresh : RedisSem.get ks k = none) (happ : applyCmds ks cs = some (ks ++ [(k, v, 0)]))
    (httl : exp = 0 → ttl = 0) :
    applyCmdsV major ks (cmdB b!"restore" (k :: ttlB :: createValueDump t raw :: opts) ::
      ([cmdB b!"exists" [k]] ++ cs ++ (if exp ≠ 0 then [cmdB b!"pexpire" [k, natToDec ttl]] else []))) =
      some (ks ++ [(k, v, ttl)]) := by
  simp only [applyCmdsV, applyXCmdV, refused_restore, hnl, Bool.not_false, if_true]
  rw [applyCmdsV_eq major _ ks, apply_expandG ks k cs v exp ttl hfresh happ httl]
  intro c hc
  apply not_refused_of_name
  simp only [List.mem_append] at hc
  rcases hc with (hc | hc) | hc
  · simp only [List.mem_singleton] at hc; subst hc; exact ne_restore_name _ b!"exists" rfl (by decide)
  · exact hnr c hc
  · split at hc
    · simp only [List.mem_singleton] at hc; subst hc; exact ne_restore_name _ b!"pexpire" rfl (by decide)
    · simp at hc

/-- the fall-back of one unsplit entry, for any value kind whose expansion is known -/
theorem restore_fallback_core (cfg : RCfg) (db : Int) (ex : Exists) (e : Entry) (k : Bytes) (o : ObjE) (ks : Keyspace)
    (ot : OType) (cs : List Cmd) (v : Val)
    (hobj : e.obj = pobjOf k o) (hkey : e.key = k)
    (hot : otypeOf o.rtype = some ot) (h1 : ot ≠ .function) (h2 : ot ≠ .aux) (h3 : ot ≠ .module)
    (hsp : (pobjOf k o).isSplited = false) (hfb : (pobjOf k o).firstBin = true)
    (hexec : execCmd cfg.x (pobjOf k o) = some cs) (hnr : ∀ c ∈ cs, lower c.name ≠ b!"restore")
    (happ : applyCmds ks cs = some (ks ++ [(k, v, 0)]))
    (hv : viaRestore cfg o) (hnl : typeLoadable cfg.x.tgtMajor o.rtype = false)
    (hrht : cfg.replaceHashTag = false) (hex : ex.has db k = false) (hfresh : RedisSem.get ks k = none) :
    (∃ opts, (replayEntry cfg db ex e).1 =
      cmdB b!"restore" (k :: natToDec (ttlOf cfg.now e.expireAt) :: createValueDump o.rtype o.ser :: opts) ::
        ([cmdB b!"exists" [k]] ++ cs ++
          (if e.expireAt ≠ 0 then [cmdB b!"pexpire" [k, natToDec (ttlOf cfg.now e.expireAt)]] else []))) ∧
    (replayEntry cfg db ex e).2.2 = true ∧
    applyCmdsV cfg.x.tgtMajor ks (replayEntry cfg db ex e).1 =
      some (ks ++ [(k, v, ttlOf cfg.now e.expireAt)]) := by
  obtain ⟨opts, hreq, hok⟩ := replay_fallbackG cfg db ex e k o ot cs hobj hkey hot h1 h2 h3 hsp hfb hexec hv hnl hrht hex
  refine ⟨⟨opts, hreq⟩, hok, ?_⟩
  rw [hreq]
  exact fallback_apply cfg.x.tgtMajor ks k _ o.rtype o.ser opts cs v e.expireAt (ttlOf cfg.now e.expireAt) hnl hnr
    hfresh happ (fun h0 => by rw [h0]; exact ttlOf_zero _)

end GunYu.Rdb
