/-
  Helper lemmas for C03: decimal rendering and parsing are inverse
  (`decToNat? (natToDec n) = some n`, `parseInt64 (intToDec v) = some v`).
-/
import GunYu.Model.Rdb.Listpack
import GunYu.Proofs.Rdb.Str

namespace GunYu.Rdb
open GunYu

def decStep (a : Nat) (b : UInt8) : Nat := a * 10 + (b.toNat - 48)

theorem digit_byte (d : Nat) (h : d < 10) :
    isDigit (UInt8.ofNat (48 + d)) = true ∧ (UInt8.ofNat (48 + d)).toNat - 48 = d := by
  have hb := u8_toNat (48 + d) (by omega)
  constructor
  · unfold isDigit
    simp only [Bool.and_eq_true, decide_eq_true_eq, UInt8.le_iff_toNat_le, hb]
    constructor
    · have : (48 : UInt8).toNat = 48 := by decide
      omega
    · have : (57 : UInt8).toNat = 57 := by decide
      omega
  · omega

/-- the digits `natToDecAux` prepends: non-empty, all digits, value `n` -/
theorem natToDecAux_spec (fuel n : Nat) (acc : Bytes) (h : n < fuel) :
    ∃ ds : Bytes, natToDecAux fuel n acc = ds ++ acc ∧ ds ≠ [] ∧ ds.all isDigit = true ∧
      ∀ a, ds.foldl decStep a = a * 10 ^ ds.length + n := by
  induction fuel generalizing n acc with
  | zero => omega
  | succ fuel ih =>
    obtain ⟨hd1, hd2⟩ := digit_byte (n % 10) (Nat.mod_lt _ (by decide))
    simp only [natToDecAux]
    by_cases h0 : n / 10 = 0
    · simp only [h0, if_true]
      refine ⟨[UInt8.ofNat (48 + n % 10)], rfl, by simp, by simp only [List.all_cons, List.all_nil, hd1, Bool.and_true], ?_⟩
      intro a
      simp only [List.foldl_cons, List.foldl_nil, decStep, hd2, List.length_singleton, Nat.pow_one]
      omega
    · simp only [h0, if_false]
      have hlt : n / 10 < fuel := by omega
      obtain ⟨ds, hds, hne, hall, hval⟩ := ih (n / 10) (UInt8.ofNat (48 + n % 10) :: acc) hlt
      refine ⟨ds ++ [UInt8.ofNat (48 + n % 10)], by rw [hds]; simp, by simp, ?_, ?_⟩
      · simp only [List.all_append, List.all_cons, List.all_nil, hall, hd1, Bool.and_true]
      · intro a
        rw [List.foldl_append, hval]
        simp only [List.foldl_cons, List.foldl_nil, decStep, hd2, List.length_append, List.length_singleton,
          Nat.pow_succ]
        have : n = n / 10 * 10 + n % 10 := by omega
        rw [Nat.add_mul, Nat.mul_assoc]
        omega

theorem natToDec_spec (n : Nat) :
    ∃ ds : Bytes, natToDec n = ds ∧ ds ≠ [] ∧ ds.all isDigit = true ∧ ds.foldl decStep 0 = n := by
  obtain ⟨ds, h1, h2, h3, h4⟩ := natToDecAux_spec (n + 1) n [] (by omega)
  refine ⟨ds, by rw [natToDec, h1]; simp, h2, h3, ?_⟩
  rw [h4]; simp

theorem decToNat_natToDec (n : Nat) : decToNat? (natToDec n) = some n := by
  obtain ⟨ds, h1, h2, h3, h4⟩ := natToDec_spec n
  rw [h1]
  unfold decToNat?
  have : ds.isEmpty = false := by cases ds <;> simp_all
  simp only [this, Bool.false_eq_true, if_false, h3, if_true]
  have : (fun acc (b : UInt8) => acc * 10 + (b.toNat - 48)) = decStep := rfl
  rw [this, h4]

/-- the first byte of a rendered natural number is a digit -/
theorem natToDec_head (n : Nat) : ∃ c r, natToDec n = c :: r ∧ isDigit c = true := by
  obtain ⟨ds, h1, h2, h3, _⟩ := natToDec_spec n
  cases ds with
  | nil => exact absurd rfl h2
  | cons c r =>
    refine ⟨c, r, h1, ?_⟩
    simp only [List.all_cons, Bool.and_eq_true] at h3
    exact h3.1

theorem isDigit_ne (c : UInt8) (h : isDigit c = true) : c ≠ 45 ∧ c ≠ 43 := by
  unfold isDigit at h
  simp only [Bool.and_eq_true, decide_eq_true_eq, UInt8.le_iff_toNat_le] at h
  have a : (48 : UInt8).toNat = 48 := by decide
  constructor
  · intro e; subst e
    have : (45 : UInt8).toNat = 45 := by decide
    omega
  · intro e; subst e
    have : (43 : UInt8).toNat = 43 := by decide
    omega

/-- `strconv.ParseInt` reads back what `strconv.FormatInt` wrote -/
theorem parseInt64_intToDec (v : Int) (h : inSigned 64 v) : parseInt64 (intToDec v) = some v := by
  obtain ⟨h1, h2⟩ := h
  have h1' : -(2 ^ 63 : Int) ≤ v := by simpa using h1
  have h2' : v < (2 ^ 63 : Int) := by simpa using h2
  unfold intToDec
  by_cases hneg : v < 0
  · simp only [hneg, if_true, parseInt64, decToNat_natToDec]
    have hle : v.natAbs ≤ 2 ^ 63 := by omega
    simp [hle]
    omega
  · simp only [hneg, if_false]
    obtain ⟨c, r, hcr, hd⟩ := natToDec_head v.toNat
    obtain ⟨n45, n43⟩ := isDigit_ne c hd
    have hdec := decToNat_natToDec v.toNat
    rw [hcr] at hdec ⊢
    simp only [parseInt64, n45, n43, if_false, hdec]
    have hlt : v.toNat < 2 ^ 63 := by omega
    simp [hlt]
    omega

end GunYu.Rdb
