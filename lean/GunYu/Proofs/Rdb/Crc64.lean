/-
  Helper lemmas for C03: the table-driven CRC64 equals bitwise CRC-64/Jones.
  Kernel-only bit-vector reasoning (no bv_decide).
-/
import GunYu.Model.Rdb.Crc64

namespace GunYu.Rdb

theorem jonesPolyRev_val : jonesPolyRev = 0x95ac9329ac4bc9b5#64 := by decide +kernel

theorem xor_cancel_right64 (a b c : BitVec 64) : a ^^^ c ^^^ (b ^^^ c) = a ^^^ b := by
  have : a ^^^ c ^^^ (b ^^^ c) = a ^^^ b ^^^ (c ^^^ c) := by ac_rfl
  rw [this, BitVec.xor_self, BitVec.xor_zero]

/-- GF(2)-linearity of one shift-register step -/
theorem crc64BitStep_xor (x y : BitVec 64) :
    crc64BitStep (x ^^^ y) = crc64BitStep x ^^^ crc64BitStep y := by
  unfold crc64BitStep
  generalize jonesPolyRev = P
  rw [BitVec.getElem_xor]
  cases hx : x[0] <;> cases hy : y[0] <;> simp [BitVec.ushiftRight_xor_distrib]
  · ac_rfl
  · ac_rfl
  · exact (xor_cancel_right64 _ _ _).symm

theorem crc64BitStep8_xor (x y : BitVec 64) :
    crc64BitStep8 (x ^^^ y) = crc64BitStep8 x ^^^ crc64BitStep8 y := by
  simp [crc64BitStep8, crc64BitStep_xor]

/-- every entry of the REGENERATED table is eight shift-register steps of its
    index (256 cases, kernel evaluation) -/
theorem crc64_table_entries : ∀ i : Fin 256,
    Gen.crc64Table.getD i.val 0#64 = crc64BitStep8 (BitVec.ofNat 64 i.val) := by
  decide +kernel

/-- a register whose low bit is clear is simply shifted -/
theorem crc64BitStep_of_lsb_false (c : BitVec 64) (h : c[0] = false) :
    crc64BitStep c = c >>> 1 := by
  unfold crc64BitStep; simp [h]

/-- a value with empty low byte is simply shifted out -/
theorem crc64BitStep8_shl8 (h : BitVec 64) : crc64BitStep8 (h <<< 8) = (h <<< 8) >>> 8 := by
  have step : ∀ k, k < 8 → crc64BitStep ((h <<< 8) >>> k) = (h <<< 8) >>> (k + 1) := by
    intro k hk
    rw [crc64BitStep_of_lsb_false, ← BitVec.shiftRight_add]
    rw [BitVec.getElem_ushiftRight]
    simp only [Nat.add_zero, BitVec.getLsbD_shiftLeft]
    simp [hk]
  have h0 := step 0 (by omega)
  simp only [BitVec.ushiftRight_zero] at h0
  unfold crc64BitStep8
  rw [h0, step 1 (by omega), step 2 (by omega), step 3 (by omega), step 4 (by omega),
    step 5 (by omega), step 6 (by omega), step 7 (by omega)]

theorem mask8_bit_fin : ∀ j : Fin 64, (0xFF#64)[j.val] = decide (j.val < 8) := by decide

theorem mask8_bit (i : Nat) (hi : i < 64) : (0xFF#64)[i] = decide (i < 8) :=
  mask8_bit_fin ⟨i, hi⟩

theorem and_mask8_toNat_lt (x : BitVec 64) : (x &&& 0xFF#64).toNat < 256 := by
  rw [BitVec.toNat_and]
  exact Nat.lt_of_le_of_lt Nat.and_le_right (by decide)

/-- split a register into its low byte and the rest -/
theorem split_lo_hi (x : BitVec 64) : x = (x &&& 0xFF#64) ^^^ ((x >>> 8) <<< 8) := by
  ext i hi
  simp only [BitVec.getElem_xor, BitVec.getElem_and, BitVec.getElem_shiftLeft, mask8_bit i hi]
  by_cases h : i < 8
  · simp [h]
  · have e : 8 + (i - 8) = i := by omega
    simp [h, e, BitVec.getLsbD_eq_getElem hi]

theorem shr8_shl8_shr8 (x : BitVec 64) : ((x >>> 8) <<< 8) >>> 8 = x >>> 8 := by
  ext i hi
  simp only [BitVec.getElem_ushiftRight, BitVec.getLsbD_shiftLeft, BitVec.getLsbD_ushiftRight]
  by_cases h : 8 + i < 64
  · have e : 8 + i - 8 = i := by omega
    simp [h, e]
  · have : 64 ≤ 8 + (8 + i) := by omega
    simp [h]
    apply BitVec.getLsbD_of_ge; omega

theorem byte_shr8 (b : UInt8) : (b.toBitVec.setWidth 64) >>> 8 = 0#64 := by
  ext i hi
  simp only [BitVec.getElem_ushiftRight, BitVec.getLsbD_setWidth, BitVec.getElem_zero]
  simp

theorem crc64TabStep_eq_specStep (c : BitVec 64) (b : UInt8) :
    crc64TabStep c b = crc64SpecStep c b := by
  unfold crc64TabStep crc64SpecStep
  have hB := byte_shr8 b
  generalize b.toBitVec.setWidth 64 = B at hB ⊢
  generalize hx : c ^^^ B = x
  have hsh : c >>> 8 = x >>> 8 := by
    rw [← hx, BitVec.ushiftRight_xor_distrib, hB, BitVec.xor_zero]
  conv => rhs; rw [split_lo_hi x, crc64BitStep8_xor, crc64BitStep8_shl8, shr8_shl8_shr8]
  have hlt : (x &&& 0xFF#64).toNat < 256 := and_mask8_toNat_lt x
  have ht := crc64_table_entries ⟨(x &&& 0xFF#64).toNat, hlt⟩
  simp only [BitVec.ofNat_toNat, BitVec.setWidth_eq] at ht
  rw [ht, hsh]

theorem crc64Tab_eq_spec_from (bs : Bytes) (c : BitVec 64) :
    bs.foldl crc64TabStep c = bs.foldl crc64SpecStep c := by
  induction bs generalizing c with
  | nil => rfl
  | cons b bs ih => simp only [List.foldl_cons, crc64TabStep_eq_specStep, ih]

theorem crc64TabFrom_append (c : BitVec 64) (a b : Bytes) :
    crc64TabFrom c (a ++ b) = crc64TabFrom (crc64TabFrom c a) b := by
  simp [crc64TabFrom, List.foldl_append]

theorem ofLE_leN (k n : Nat) : ofLE (leN k n) = n % 256 ^ k := by
  induction k generalizing n with
  | zero => simp [leN, ofLE, Nat.mod_one]
  | succ k ih =>
    simp only [leN, ofLE, ih]
    have h1 : (UInt8.ofNat (n % 256)).toNat = n % 256 := by
      simp [UInt8.toNat_ofNat]
    rw [h1, Nat.pow_succ, Nat.mul_comm (256 ^ k) 256, Nat.mod_mul]

theorem leN_length (k n : Nat) : (leN k n).length = k := by
  induction k generalizing n with
  | zero => rfl
  | succ k ih => simp [leN, ih]

end GunYu.Rdb
