/-
  Helper lemmas for C03: schedules. Two schedules with the same projection to every
  connection lead to related states when requests of different connections commute
  (Mazurkiewicz-trace argument, generic in the state, the requests and the relation).
-/
import GunYu.Proofs.Rdb.Commute

namespace GunYu.Sched
open GunYu.RedisSem

variable {S P : Type}

def run (act : S → P → Option S) : S → List P → Option S
  | s, [] => some s
  | s, p :: ps =>
    match act s p with
    | none => none
    | some s' => run act s' ps

theorem run_cons (act : S → P → Option S) (a : S) (p : P) (ps : List P) :
    run act a (p :: ps) = (act a p).bind (fun a' => run act a' ps) := by
  simp only [run]
  cases act a p <;> rfl

theorem run_append (act : S → P → Option S) (a : S) (s t : List P) :
    run act a (s ++ t) = (run act a s).bind (fun a' => run act a' t) := by
  induction s generalizing a with
  | nil => rfl
  | cons p s ih =>
    simp only [List.cons_append, run]
    cases act a p with
    | none => rfl
    | some a' => exact ih a'

theorem orel_bind {R : S → S → Prop} {x y : Option S} {f g : S → Option S} (h : ORel R x y)
    (hfg : ∀ a b, R a b → ORel R (f a) (g b)) : ORel R (x.bind f) (y.bind g) := by
  cases x <;> cases y <;> first | trivial | exact hfg _ _ h | exact h.elim

theorem orel_trans {R : S → S → Prop} (htr : ∀ a b c, R a b → R b c → R a c) {x y z : Option S}
    (h1 : ORel R x y) (h2 : ORel R y z) : ORel R x z := by
  cases x <;> cases y <;> cases z <;> first | trivial | exact htr _ _ _ h1 h2 | exact h1.elim | exact h2.elim

theorem orel_symm {R : S → S → Prop} (hs : ∀ a b, R a b → R b a) {x y : Option S} (h : ORel R x y) : ORel R y x := by
  cases x <;> cases y <;> first | trivial | exact hs _ _ h | exact h.elim

section
variable (R : S → S → Prop) (act : S → P → Option S) (tag : P → Nat) (good : P → Prop) (indep : P → P → Prop)
variable (hrefl : ∀ a, R a a) (hsymm : ∀ a b, R a b → R b a) (htrans : ∀ a b c, R a b → R b c → R a c)
variable (hcongr : ∀ p, good p → ∀ a b, R a b → ORel R (act a p) (act b p))
variable (hcomm : ∀ p q, good p → good q → tag p ≠ tag q → indep p q →
  ∀ a, ORel R ((act a p).bind (fun a' => act a' q)) ((act a q).bind (fun a' => act a' p)))

include hcongr in
theorem run_congr (s : List P) (hg : ∀ p ∈ s, good p) : ∀ a b, R a b → ORel R (run act a s) (run act b s) := by
  induction s with
  | nil => intro a b h; exact h
  | cons p s ih =>
    intro a b h
    rw [run_cons, run_cons]
    exact orel_bind (hcongr p (hg p (List.mem_cons_self ..)) a b h)
      (fun a' b' h' => ih (fun x hx => hg x (List.mem_cons_of_mem _ hx)) a' b' h')

include hrefl hcongr hcomm htrans in
theorem move_front (p : P) (hp : good p) (post : List P) (hpost : ∀ x ∈ post, good x) :
    ∀ (pre : List P), (∀ q ∈ pre, good q ∧ tag q ≠ tag p ∧ indep q p) →
    ∀ a, ORel R (run act a (pre ++ p :: post)) (run act a (p :: (pre ++ post))) := by
  intro pre
  induction pre with
  | nil => intro _ a; exact run_congr R act good hcongr _ (by
      intro x hx; rcases List.mem_cons.mp hx with rfl | hx
      · exact hp
      · exact hpost x hx) a a (hrefl a)
  | cons q pre ih =>
    intro hpre a
    obtain ⟨hq, hqt, hqi⟩ := hpre q (List.mem_cons_self ..)
    have hpre' := fun x hx => hpre x (List.mem_cons_of_mem _ hx)
    have hgood : ∀ x ∈ pre ++ post, good x := by
      intro x hx
      rcases List.mem_append.mp hx with hx | hx
      · exact (hpre' x hx).1
      · exact hpost x hx
    -- step 1: below `q`, bring `p` to the front
    have s1 : ORel R (run act a (q :: pre ++ p :: post)) ((act a q).bind (fun a1 => run act a1 (p :: (pre ++ post)))) := by
      rw [List.cons_append, run_cons]
      cases act a q with
      | none => trivial
      | some a1 => exact ih hpre' a1
    -- step 2: swap `q` and `p`
    have e2 : (act a q).bind (fun a1 => run act a1 (p :: (pre ++ post))) =
        ((act a q).bind (fun a1 => act a1 p)).bind (fun a2 => run act a2 (pre ++ post)) := by
      cases act a q with
      | none => rfl
      | some a1 => simp only [Option.bind_some, run_cons]
    have e3 : run act a (p :: (q :: pre ++ post)) =
        ((act a p).bind (fun a1 => act a1 q)).bind (fun a2 => run act a2 (pre ++ post)) := by
      rw [run_cons]
      cases act a p with
      | none => rfl
      | some a1 => simp only [Option.bind_some, List.cons_append, run_cons]
    have s2 : ORel R (((act a q).bind (fun a1 => act a1 p)).bind (fun a2 => run act a2 (pre ++ post)))
        (((act a p).bind (fun a1 => act a1 q)).bind (fun a2 => run act a2 (pre ++ post))) :=
      orel_bind (hcomm q p hq hp hqt hqi a) (fun x y hxy => run_congr R act good hcongr _ hgood x y hxy)
    rw [e2] at s1
    rw [List.cons_append, e3]
    exact orel_trans htrans s1 s2

end

/-- the requests of connection `j` in a schedule -/
def proj (tag : P → Nat) (j : Nat) (s : List P) : List P := s.filter (fun x => tag x == j)

theorem split_first (tag : P → Nat) (p : P) : ∀ (s : List P) (rest : List P), proj tag (tag p) s = p :: rest →
    ∃ pre post, s = pre ++ p :: post ∧ (∀ q ∈ pre, tag q ≠ tag p) ∧ proj tag (tag p) post = rest := by
  intro s
  induction s with
  | nil => intro rest h; simp [proj] at h
  | cons x s ih =>
    intro rest h
    unfold proj at h
    rw [List.filter_cons] at h
    by_cases hx : tag x = tag p
    · have hb : (tag x == tag p) = true := by simp [hx]
      simp only [hb, if_true, List.cons.injEq] at h
      obtain ⟨rfl, hr⟩ := h
      refine ⟨[], s, rfl, ?_, hr⟩
      intro q hq; cases hq
    · have hb : (tag x == tag p) = false := by simp [hx]
      simp only [hb, Bool.false_eq_true, if_false] at h
      obtain ⟨pre, post, hs, hpre, hpost⟩ := ih rest h
      refine ⟨x :: pre, post, by rw [hs]; rfl, ?_, hpost⟩
      intro q hq
      rcases List.mem_cons.mp hq with rfl | hq
      · exact hx
      · exact hpre q hq

theorem mem_of_proj (tag : P → Nat) (s1 s2 : List P) (h : ∀ j, proj tag j s1 = proj tag j s2) :
    ∀ q ∈ s2, q ∈ s1 := by
  intro q hq
  have : q ∈ proj tag (tag q) s2 := List.mem_filter.mpr ⟨hq, by simp⟩
  rw [← h] at this
  exact (List.mem_filter.mp this).1

theorem proj_append (tag : P → Nat) (j : Nat) (a b : List P) : proj tag j (a ++ b) = proj tag j a ++ proj tag j b := by
  simp [proj]

theorem proj_nil_of (tag : P → Nat) (j : Nat) (s : List P) (h : ∀ q ∈ s, tag q ≠ j) : proj tag j s = [] := by
  unfold proj
  rw [List.filter_eq_nil_iff]
  intro q hq
  simp [h q hq]

section
variable (R : S → S → Prop) (act : S → P → Option S) (tag : P → Nat) (good : P → Prop) (indep : P → P → Prop)
variable (hrefl : ∀ a, R a a) (hsymm : ∀ a b, R a b → R b a) (htrans : ∀ a b c, R a b → R b c → R a c)
variable (hcongr : ∀ p, good p → ∀ a b, R a b → ORel R (act a p) (act b p))
variable (hcomm : ∀ p q, good p → good q → tag p ≠ tag q → indep p q →
  ∀ a, ORel R ((act a p).bind (fun a' => act a' q)) ((act a q).bind (fun a' => act a' p)))

include hrefl hsymm htrans hcongr hcomm in
/-- two schedules with the same per-connection projections, all requests good, requests of
    different connections independent: related start states lead to related outcomes -/
theorem sched_indep : ∀ (s1 s2 : List P), (∀ j, proj tag j s1 = proj tag j s2) →
    (∀ p ∈ s1, good p) → (∀ p ∈ s1, ∀ q ∈ s1, tag p ≠ tag q → indep p q) →
    ∀ a b, R a b → ORel R (run act a s1) (run act b s2) := by
  intro s1
  induction s1 with
  | nil =>
    intro s2 hproj _ _ a b hab
    have : s2 = [] := by
      cases s2 with
      | nil => rfl
      | cons q s2 =>
        have := mem_of_proj tag [] (q :: s2) hproj q (List.mem_cons_self ..)
        cases this
    subst this
    exact hab
  | cons p s1 ih =>
    intro s2 hproj hgood hindep a b hab
    have hp := hgood p (List.mem_cons_self ..)
    have hpj : proj tag (tag p) s2 = p :: proj tag (tag p) s1 := by
      rw [← hproj (tag p)]
      simp [proj]
    obtain ⟨pre, post, hs2, hpre, hpost⟩ := split_first tag p s2 _ hpj
    have hmem : ∀ q ∈ s2, q ∈ p :: s1 := mem_of_proj tag (p :: s1) s2 hproj
    have hgood2 : ∀ q ∈ s2, good q := fun q hq => hgood q (hmem q hq)
    have hpre' : ∀ q ∈ pre, good q ∧ tag q ≠ tag p ∧ indep q p := by
      intro q hq
      have hq2 : q ∈ s2 := by rw [hs2]; exact List.mem_append_left _ hq
      exact ⟨hgood2 q hq2, hpre q hq, hindep q (hmem q hq2) p (List.mem_cons_self ..) (hpre q hq)⟩
    have hpostg : ∀ x ∈ post, good x := fun x hx => hgood2 x (by rw [hs2]; exact List.mem_append_right _ (List.mem_cons_of_mem _ hx))
    -- s2 ~ p :: (pre ++ post)
    have hmove := move_front R act tag good indep hrefl htrans hcongr hcomm p hp post hpostg pre hpre' b
    rw [← hs2] at hmove
    -- projections of s1 and pre ++ post agree
    have hproj' : ∀ j, proj tag j s1 = proj tag j (pre ++ post) := by
      intro j
      have hj := hproj j
      rw [hs2, proj_append] at hj
      rw [proj_append]
      by_cases hjp : j = tag p
      · subst hjp
        rw [proj_nil_of tag _ pre hpre, List.nil_append, hpost]
      · have h1 : proj tag j (p :: s1) = proj tag j s1 := by
          (have hne : ¬ tag p = j := fun h => hjp h.symm); simp [proj, hne]
        have h2 : proj tag j (p :: post) = proj tag j post := by
          (have hne : ¬ tag p = j := fun h => hjp h.symm); simp [proj, hne]
        rw [h1, h2] at hj
        exact hj
    have hstep : ORel R (run act a (p :: s1)) (run act b (p :: (pre ++ post))) := by
      rw [run_cons, run_cons]
      exact orel_bind (hcongr p hp a b hab) (fun a' b' h' =>
        ih (pre ++ post) hproj' (fun x hx => hgood x (List.mem_cons_of_mem _ hx))
          (fun x hx y hy => hindep x (List.mem_cons_of_mem _ hx) y (List.mem_cons_of_mem _ hy)) a' b' h')
    exact orel_trans htrans hstep (orel_symm hsymm hmove)

end

end GunYu.Sched
