/-
  Helper lemmas for C03 (streams): `StreamParser.ExecCmd` (model `execStream`) on the
  serialization of a stream description yields exactly the expected commands
  `StreamE.cmds`: the XADDs of the listpack nodes (`streamNodes_spec`), the empty-stream
  trick, XSETID from length / last id / (v2+) first id, max-deleted id, entries-added,
  and per group XGROUP CREATE [ENTRIESREAD] and one XCLAIM per consumer PEL entry with
  the delivery time and count of the group's PEL.
-/
import GunYu.Proofs.Rdb.StreamId
import GunYu.Proofs.Rdb.StreamNode
import GunYu.Proofs.Rdb.Read

namespace GunYu.Rdb
open GunYu GunYu.RedisSem

theorem p256_8 : (256 : Nat) ^ 8 = 2 ^ 64 := by decide

theorem readLength64_saveLen (n : Nat) (rest : Bytes) (h : n < 2 ^ 64) :
    readLength64 (saveLen n ++ rest) = some (n, rest) :=
  readLength64_encLen (minForm n) n rest (minForm_fits n h)

theorem idb_take (a b : Nat) : (beN 8 a ++ beN 8 b).take 8 = beN 8 a := by
  rw [List.take_left' (beN_length 8 a)]

theorem idb_drop (a b : Nat) : (beN 8 a ++ beN 8 b).drop 8 = beN 8 b := by
  rw [List.drop_left' (beN_length 8 a)]

theorem readN16_id (a b : Nat) (rest : Bytes) :
    readN 16 (beN 8 a ++ (beN 8 b ++ rest)) = some (beN 8 a ++ beN 8 b, rest) := by
  rw [← List.append_assoc]
  exact readN_append' 16 _ rest (by simp [beN_length])

theorem readN8_le (a : Nat) (rest : Bytes) : readN 8 (leN 8 a ++ rest) = some (leN 8 a, rest) :=
  readN_append' 8 _ rest (leN_length 8 a)

theorem ofBE8 (n : Nat) (h : n < 2 ^ 64) : ofBE (beN 8 n) = n := ofBE_beN 8 n (by rw [p256_8]; exact h)
theorem ofLE8 (n : Nat) (h : n < 2 ^ 64) : ofLE (leN 8 n) = n := ofLE_leN' 8 n (by rw [p256_8]; exact h)

/-! ## the group's PEL -/

def nackEnc (n : SNackE) : Bytes := beN 8 n.ms ++ (beN 8 n.seq ++ (leN 8 n.time ++ saveLen n.count))

def nackRec (n : SNackE) : Bytes × Nat × Nat := (fmtId n.ms n.seq, n.time, n.count)

theorem readNacks_enc (pel : List SNackE) (rest : Bytes)
    (h : ∀ n ∈ pel, n.ms < 2 ^ 64 ∧ n.seq < 2 ^ 64 ∧ n.time < 2 ^ 64 ∧ n.count < 2 ^ 32) :
    readNacks pel.length (pel.flatMap nackEnc ++ rest) = some (pel.map nackRec, rest) := by
  induction pel with
  | nil => simp [readNacks]
  | cons n pel ih =>
    obtain ⟨h1, h2, h3, h4⟩ := h n (List.mem_cons_self ..)
    have h4' : n.count < 2 ^ 64 := by
      have : (2 : Nat) ^ 32 < 2 ^ 64 := by decide
      omega
    simp only [List.length_cons, List.flatMap_cons, nackEnc, List.append_assoc, readNacks, readN16_id, readN8_le,
      readLength64_saveLen n.count _ h4']
    have ih' := ih (fun x hx => h x (List.mem_cons_of_mem _ hx))
    simp only [ih', List.map_cons, nackRec, idb_take, idb_drop, ofBE8 _ h1, ofBE8 _ h2, ofLE8 _ h3]

theorem nackLookup_spec (g : SGroupE) (ms seq : Nat) :
    nackLookup (fmtId ms seq) (g.pel.map nackRec) = g.nack ms seq := by
  unfold nackLookup SGroupE.nack
  rw [← List.map_reverse, List.find?_map]
  have hp : ((fun x : Bytes × Nat × Nat => x.1 == fmtId ms seq) ∘ nackRec) =
      (fun n : SNackE => n.ms == ms && n.seq == seq) := by
    funext n
    simp only [Function.comp, nackRec]
    by_cases h : n.ms = ms ∧ n.seq = seq
    · obtain ⟨rfl, rfl⟩ := h; simp
    · have : fmtId n.ms n.seq ≠ fmtId ms seq := fun he => h (fmtId_inj he)
      rw [beq_eq_false_iff_ne.mpr this]
      by_cases h1 : n.ms = ms
      · have h2 : n.seq ≠ seq := fun h2 => h ⟨h1, h2⟩
        simp [h1, h2]
      · simp [h1]
  rw [hp]
  cases g.pel.reverse.find? (fun n => n.ms == ms && n.seq == seq) with
  | none => rfl
  | some n => rfl

/-! ## consumers -/

def claimOf (key group consumer : Bytes) (g : SGroupE) (p : Nat × Nat) : Cmd :=
  cmdB b!"XCLAIM" [key, group, consumer, b!"0", fmtId p.1 p.2, b!"TIME", natToDec (g.nack p.1 p.2).1,
    b!"RETRYCOUNT", natToDec (g.nack p.1 p.2).2, b!"JUSTID", b!"FORCE"]

theorem consumerPel_enc (key group consumer : Bytes) (g : SGroupE) (pel : List (Nat × Nat)) (rest : Bytes)
    (h : ∀ p ∈ pel, p.1 < 2 ^ 64 ∧ p.2 < 2 ^ 64) :
    consumerPel key group consumer (g.pel.map nackRec) pel.length
        (pel.flatMap (fun p => beN 8 p.1 ++ beN 8 p.2) ++ rest) =
      some (pel.map (claimOf key group consumer g), rest) := by
  induction pel with
  | nil => simp [consumerPel]
  | cons p pel ih =>
    obtain ⟨h1, h2⟩ := h p (List.mem_cons_self ..)
    have ih' := ih (fun x hx => h x (List.mem_cons_of_mem _ hx))
    simp only [List.length_cons, List.flatMap_cons, List.append_assoc, consumerPel, readN16_id,
      idb_take, idb_drop, ofBE8 _ h1, ofBE8 _ h2, nackLookup_spec, ih', List.map_cons, claimOf]

theorem skip_seen (ver : Nat) (seen active : Nat) (X : Bytes) :
    skipN (if decide (ver ≥ 3) = true then 16 else 8)
        (leN 8 seen ++ ((if ver ≥ 3 then leN 8 active else []) ++ X)) = some X := by
  by_cases hv : ver ≥ 3
  · simp only [hv, decide_true, if_true, skipN]
    rw [← List.append_assoc, readN_append' 16 _ X (by simp [leN_length])]
    rfl
  · simp only [hv, decide_false, Bool.false_eq_true, if_false, List.nil_append, skipN]
    rw [readN_append' 8 _ X (leN_length 8 seen)]
    rfl

theorem streamConsumers_enc (cc : Bool) (ver : Nat) (key group : Bytes) (g : SGroupE) (cs : List SConsumerE) (rest : Bytes)
    (h : ∀ c ∈ cs, c.name.wf ∧ c.pel.length < 2 ^ 64 ∧ ∀ p ∈ c.pel, p.1 < 2 ^ 64 ∧ p.2 < 2 ^ 64) :
    streamConsumers cc (decide (ver ≥ 3)) key group (g.pel.map nackRec) cs.length
        (cs.flatMap (SConsumerE.enc ver) ++ rest) =
      some (cs.flatMap (fun c =>
        (if cc = true ∧ c.pel.length = 0 then [cmdB b!"XGROUP" [b!"CREATECONSUMER", key, group, c.name.val]] else []) ++
          c.pel.map (claimOf key group c.name.val g)), rest) := by
  induction cs with
  | nil => simp [streamConsumers]
  | cons c cs ih =>
    obtain ⟨h1, h2, h3⟩ := h c (List.mem_cons_self ..)
    have ih' := ih (fun x hx => h x (List.mem_cons_of_mem _ hx))
    simp only [List.length_cons, List.flatMap_cons, SConsumerE.enc, List.append_assoc, streamConsumers,
      readString_enc c.name _ h1, skip_seen, readLength64_saveLen _ _ h2,
      consumerPel_enc key group c.name.val g c.pel _ h3, ih']

/-! ## groups -/

theorem readLengths64_two (a b : Nat) (rest : Bytes) (ha : a < 2 ^ 64) (hb : b < 2 ^ 64) :
    readLengths64 2 (saveLen a ++ (saveLen b ++ rest)) = some ([a, b], rest) := by
  simp only [readLengths64, readLength64_saveLen _ _ ha, readLength64_saveLen _ _ hb]

/-- what `wf` and `sound` say of one group -/
def GroupOk (g : SGroupE) : Prop :=
  g.name.wf ∧ g.lastMs < 2 ^ 64 ∧ g.lastSeq < 2 ^ 64 ∧ g.entriesRead < 2 ^ 64 ∧ g.consumers.length < 2 ^ 64 ∧
  g.pel.length < 2 ^ 64 ∧
  (∀ n ∈ g.pel, n.ms < 2 ^ 64 ∧ n.seq < 2 ^ 64 ∧ n.time < 2 ^ 64 ∧ n.count < 2 ^ 32) ∧
  (∀ c ∈ g.consumers, c.name.wf ∧ c.pel.length < 2 ^ 64 ∧ ∀ p ∈ c.pel, p.1 < 2 ^ 64 ∧ p.2 < 2 ^ 64)

theorem group_pel_enc :
    (fun n : SNackE => beN 8 n.ms ++ (beN 8 n.seq ++ (leN 8 n.time ++ saveLen n.count))) = nackEnc := rfl

theorem claims_cmds (x : XCfg) (s : StreamE) (k : Bytes) (g : SGroupE) :
    SGroupE.cmds x s k g =
      cmdB b!"XGROUP" ([b!"CREATE", k, g.name.val, fmtId g.lastMs g.lastSeq] ++
        (if x.tgtMajor ≥ 7 then [b!"ENTRIESREAD", intToDec (g.read s)] else [])) ::
      g.consumers.flatMap (fun c =>
        (if x.hasCreateConsumer = true ∧ c.pel.length = 0 then
           [cmdB b!"XGROUP" [b!"CREATECONSUMER", k, g.name.val, c.name.val]] else []) ++
          c.pel.map (claimOf k g.name.val c.name.val g)) := rfl

theorem streamGroups_enc (x : XCfg) (s : StreamE) (k : Bytes) (rest : Bytes) :
    ∀ (gs : List SGroupE), (∀ g ∈ gs, GroupOk g) →
      streamGroups x (decide (s.ver ≥ 2)) (decide (s.ver ≥ 3)) k s.added s.length s.lastMs s.lastSeq gs.length
          (gs.flatMap (SGroupE.enc s.ver) ++ rest) =
        some (gs.flatMap (SGroupE.cmds x s k)) := by
  intro gs
  induction gs with
  | nil => intro _; simp [streamGroups]
  | cons g gs ih =>
    intro h
    obtain ⟨h1, h2, h3, h4, h5, h6, h7, h8⟩ := h g (List.mem_cons_self ..)
    have ih' := ih (fun y hy => h y (List.mem_cons_of_mem _ hy))
    by_cases hv : s.ver ≥ 2
    · simp only [hv, decide_true, if_true] at ih' ⊢
      simp only [List.length_cons, List.flatMap_cons, SGroupE.enc, hv, if_true, List.append_assoc, streamGroups,
        readString_enc g.name _ h1, readLengths64_two _ _ _ h2 h3, readLength64_saveLen _ _ h4, Option.map_some,
        readLength64_saveLen _ _ h6, group_pel_enc, readNacks_enc g.pel _ h7, readLength64_saveLen _ _ h5,
        streamConsumers_enc x.hasCreateConsumer s.ver k g.name.val g g.consumers _ h8, ih', claims_cmds, List.cons_append,
        SGroupE.read]
    · simp only [hv, decide_false, StreamE.added, if_false] at ih' ⊢
      simp only [List.length_cons, List.flatMap_cons, SGroupE.enc, hv, if_false, List.nil_append, List.append_assoc,
        streamGroups, Bool.false_eq_true,
        readString_enc g.name _ h1, readLengths64_two _ _ _ h2 h3,
        readLength64_saveLen _ _ h6, group_pel_enc, readNacks_enc g.pel _ h7, readLength64_saveLen _ _ h5,
        streamConsumers_enc x.hasCreateConsumer s.ver k g.name.val g g.consumers _ h8, ih', claims_cmds, List.cons_append,
        SGroupE.read, StreamE.added]

/-! ## the whole value -/

theorem rtype_flags (s : StreamE) (h1 : 1 ≤ s.ver) (h4 : s.ver ≤ 4) :
    decide (s.rtype.toNat ≥ 19) = decide (s.ver ≥ 2) ∧ decide (s.rtype.toNat ≥ 21) = decide (s.ver ≥ 3) ∧
    decide (s.rtype.toNat ≥ 26) = decide (s.ver ≥ 4) := by
  have : s.ver = 1 ∨ s.ver = 2 ∨ s.ver = 3 ∨ s.ver = 4 := by omega
  rcases this with h | h | h | h <;> simp [StreamE.rtype, h]

theorem groupOk_of (s : StreamE) (hwf : s.wf) (hs : s.sound) : ∀ g ∈ s.groups, GroupOk g := by
  intro g hg
  obtain ⟨_, _, _, _, _, _, _, _, _, _, _, _, hgw, _⟩ := hwf
  obtain ⟨_, _, hsz, _⟩ := hs
  obtain ⟨a1, a2, a3, a4, a5, a6, a7⟩ := hgw g hg
  obtain ⟨b1, b2⟩ := hsz g hg
  have : (2 : Nat) ^ 32 < 2 ^ 64 := by decide
  refine ⟨a1, a2, a3, a4, by omega, b1, a6, ?_⟩
  intro c hc
  obtain ⟨c1, _, _, c4⟩ := a7 c hc
  exact ⟨c1, b2 c hc, c4⟩

/-- `ExecCmd` of a stream: the teed serialization (followed by anything — the IDMP
    state of a version-4 stream is never read by the expansion) expands into exactly
    the expected commands -/
theorem execStream_ser (x : XCfg) (k : Bytes) (s : StreamE) (rest : Bytes) (hwf : s.wf) (hs : s.sound) :
    execStream x s.rtype k (s.ser ++ rest) = some (s.cmds x k) := by
  have hgok := groupOk_of s hwf hs
  obtain ⟨_, hv1, hv4, hnodes, hlen, hlm, hls, hfm, hfs, hdm, hds, hea, _, _⟩ := hwf
  obtain ⟨hnl, hgl, _, hid, _⟩ := hs
  obtain ⟨f2, f3, _⟩ := rtype_flags s hv1 hv4
  unfold execStream
  simp only [f2, f3, StreamE.ser, List.append_assoc]
  rw [readLength64_saveLen _ _ hnl]
  simp only
  rw [streamNodes_spec k s.nodes _ (fun n hn => ⟨hnodes n hn, hid n hn⟩)]
  simp only [readLengths64, readLength64_saveLen _ _ hlen, readLength64_saveLen _ _ hlm, readLength64_saveLen _ _ hls]
  by_cases hv : s.ver ≥ 2
  · simp only [hv, decide_true, if_true, List.append_assoc, readLength64_saveLen _ _ hfm, readLength64_saveLen _ _ hfs,
      readLength64_saveLen _ _ hdm, readLength64_saveLen _ _ hds, readLength64_saveLen _ _ hea,
      readLength64_saveLen _ _ hgl]
    have hadd : s.entriesAdded = s.added := by simp [StreamE.added, hv]
    have hg := streamGroups_enc x s k ((if s.ver ≥ 4 then s.idmp.enc else []) ++ rest) s.groups hgok
    simp only [hv, decide_true] at hg
    rw [hadd, hg]
    simp [StreamE.cmds, StreamE.maxDel, hv, SNodeE.xadds]
  · simp only [hv, decide_false, Bool.false_eq_true, if_false, List.nil_append, readLength64_saveLen _ _ hgl]
    have hadd : s.added = s.length := by simp [StreamE.added, hv]
    have hg := streamGroups_enc x s k ((if s.ver ≥ 4 then s.idmp.enc else []) ++ rest) s.groups hgok
    simp only [hv, decide_false, hadd] at hg
    rw [hg]
    simp [StreamE.cmds, StreamE.maxDel, hv, SNodeE.xadds, hadd]

end GunYu.Rdb
