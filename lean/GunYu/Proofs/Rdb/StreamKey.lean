/-
  Helper lemmas for C03 (session 5): whatever buffer `StreamParser.ExecCmd` (model `execStream`)
  is run on, every command it emits NAMES THE KEY at its key position (XADD / XSETID / XCLAIM:
  first argument; XGROUP CREATE: second). For ARBITRARY buffers: no well-formedness. This is
  the premise C20's `Value` needs of a stream entry (Props/C20Loader.lean `loader_stream_stmt`).
  Same induction as Proofs/Rdb/StreamNames.lean with a stronger predicate.
-/
import GunYu.Model.Rdb.Exec
import GunYu.Proofs.Rdb.StreamNames

namespace GunYu.Rdb
open GunYu

/-- the command is one of the four stream commands AND names `key` at its key position
    (first argument; for `XGROUP <sub> key …` the second) -/
def streamOnKey (key : Bytes) (c : Cmd) : Prop :=
  (c.name = b!"XADD" ∧ c.args.head? = some (Arg.b key)) ∨
  (c.name = b!"XSETID" ∧ c.args.head? = some (Arg.b key)) ∨
  (c.name = b!"XGROUP" ∧ (c.args.drop 1).head? = some (Arg.b key)) ∨
  (c.name = b!"XCLAIM" ∧ c.args.head? = some (Arg.b key))

theorem streamEntries_onKey (key : Bytes) (mMs mSeq : Nat) (fields : List Bytes) (nf : Nat) :
    ∀ (fuel : Nat) (count deleted : Int) (rem : Bytes) (cs : List Cmd),
      streamEntries key mMs mSeq fields nf fuel count deleted rem = some cs → ∀ c ∈ cs, streamOnKey key c := by
  intro fuel
  induction fuel with
  | zero => intro count deleted rem cs h; simp [streamEntries] at h
  | succ fuel ih =>
    intro count deleted rem cs h
    simp only [streamEntries] at h
    split at h
    · cases h; intro c hc; cases hc
    · split at h
      · cases h
      · split at h
        · cases h
        · split at h
          · cases h
          · split at h
            · cases h
            · split at h
              · cases h
              · split at h
                · exact ih _ _ _ _ h
                · split at h
                  · cases h
                  · rename_i rest hrest
                    cases h
                    intro c hc
                    rcases List.mem_cons.mp hc with rfl | hc
                    · exact Or.inl ⟨rfl, rfl⟩
                    · exact ih _ _ _ _ hrest c hc

theorem streamNode_onKey (key bs : Bytes) (cs : List Cmd) (r : Bytes) (h : streamNode key bs = some (cs, r)) :
    ∀ c ∈ cs, streamOnKey key c := by
  unfold streamNode at h
  split at h
  · cases h
  · split at h
    · cases h
    · split at h
      · cases h
      · split at h
        · cases h
        · split at h
          · cases h
          · split at h
            · cases h
            · split at h
              · cases h
              · split at h
                · cases h
                · split at h
                  · cases h
                  · split at h
                    · cases h
                    · split at h
                      · cases h
                      · simp only at h
                        split at h
                        · cases h
                        · rename_i cmds hcmds
                          cases h
                          exact streamEntries_onKey _ _ _ _ _ _ _ _ _ _ hcmds

theorem streamNodes_onKey (key : Bytes) : ∀ (n : Nat) (bs : Bytes) (cs : List Cmd) (r : Bytes),
    streamNodes key n bs = some (cs, r) → ∀ c ∈ cs, streamOnKey key c := by
  intro n
  induction n with
  | zero => intro bs cs r h; simp only [streamNodes, Option.some.injEq, Prod.mk.injEq] at h; obtain ⟨rfl, _⟩ := h; intro c hc; cases hc
  | succ n ih =>
    intro bs cs r h
    simp only [streamNodes] at h
    split at h
    · cases h
    · rename_i c1 r1 h1
      split at h
      · cases h
      · rename_i cs2 r2 h2
        cases h
        intro c hc
        rcases List.mem_append.mp hc with hc | hc
        · exact streamNode_onKey key bs c1 r1 h1 c hc
        · exact ih _ _ _ h2 c hc

theorem consumerPel_onKey (key group consumer : Bytes) (nacks : List (Bytes × Nat × Nat)) :
    ∀ (n : Nat) (bs : Bytes) (cs : List Cmd) (r : Bytes),
      consumerPel key group consumer nacks n bs = some (cs, r) → ∀ c ∈ cs, streamOnKey key c := by
  intro n
  induction n with
  | zero => intro bs cs r h; simp only [consumerPel, Option.some.injEq, Prod.mk.injEq] at h; obtain ⟨rfl, _⟩ := h; intro c hc; cases hc
  | succ n ih =>
    intro bs cs r h
    simp only [consumerPel] at h
    split at h
    · cases h
    · split at h
      · cases h
      · rename_i cs2 r2 h2
        cases h
        intro c hc
        rcases List.mem_cons.mp hc with rfl | hc
        · exact Or.inr (Or.inr (Or.inr ⟨rfl, rfl⟩))
        · exact ih _ _ _ h2 c hc

theorem streamConsumers_onKey (cc : Bool) (v3 : Bool) (key group : Bytes) (nacks : List (Bytes × Nat × Nat)) :
    ∀ (n : Nat) (bs : Bytes) (cs : List Cmd) (r : Bytes),
      streamConsumers cc v3 key group nacks n bs = some (cs, r) → ∀ c ∈ cs, streamOnKey key c := by
  intro n
  induction n with
  | zero => intro bs cs r h; simp only [streamConsumers, Option.some.injEq, Prod.mk.injEq] at h; obtain ⟨rfl, _⟩ := h; intro c hc; cases hc
  | succ n ih =>
    intro bs cs r h
    simp only [streamConsumers] at h
    split at h
    · cases h
    · split at h
      · cases h
      · split at h
        · cases h
        · split at h
          · cases h
          · rename_i cs1 r3 h1
            split at h
            · cases h
            · rename_i cs2 r4 h2
              cases h
              intro c hc
              rcases List.mem_append.mp hc with hc | hc
              · rcases List.mem_append.mp hc with hc | hc
                · split at hc
                  · simp only [List.mem_singleton] at hc; subst hc; exact Or.inr (Or.inr (Or.inl ⟨rfl, rfl⟩))
                  · cases hc
                · exact consumerPel_onKey _ _ _ _ _ _ _ _ h1 c hc
              · exact ih _ _ _ h2 c hc

theorem streamGroups_onKey (x : XCfg) (v2 v3 : Bool) (key : Bytes) (ea sl lm ls : Nat) :
    ∀ (n : Nat) (bs : Bytes) (cs : List Cmd),
      streamGroups x v2 v3 key ea sl lm ls n bs = some cs → ∀ c ∈ cs, streamOnKey key c := by
  intro n
  induction n with
  | zero => intro bs cs h; simp only [streamGroups, Option.some.injEq] at h; subst h; intro c hc; cases hc
  | succ n ih =>
    intro bs cs h
    simp only [streamGroups] at h
    split at h
    · cases h
    · split at h
      · split at h
        · cases h
        · split at h
          · cases h
          · split at h
            · cases h
            · split at h
              · cases h
              · split at h
                · cases h
                · rename_i claims r6 hcl
                  split at h
                  · cases h
                  · rename_i rest hrest
                    cases h
                    intro c hc
                    rcases List.mem_cons.mp hc with rfl | hc
                    · exact Or.inr (Or.inr (Or.inl ⟨rfl, rfl⟩))
                    · rcases List.mem_append.mp hc with hc | hc
                      · exact streamConsumers_onKey _ _ _ _ _ _ _ _ _ hcl c hc
                      · exact ih _ _ hrest c hc
      · cases h

theorem execStream_onKey (x : XCfg) (t : UInt8) (key buf : Bytes) (cs : List Cmd)
    (h : execStream x t key buf = some cs) : ∀ c ∈ cs, streamOnKey key c := by
  unfold execStream at h
  simp only at h
  split at h
  · cases h
  · split at h
    · cases h
    · rename_i xadds r1 hx
      split at h
      · split at h
        · cases h
        · split at h
          · cases h
          · split at h
            · cases h
            · rename_i gs hg
              cases h
              intro c hc
              simp only [List.mem_append, List.mem_singleton] at hc
              rcases hc with ((hc | hc) | hc) | hc
              · exact streamNodes_onKey _ _ _ _ _ hx c hc
              · split at hc
                · simp only [List.mem_singleton] at hc; subst hc; exact Or.inl ⟨rfl, rfl⟩
                · cases hc
              · subst hc; exact Or.inr (Or.inl ⟨rfl, rfl⟩)
              · exact streamGroups_onKey _ _ _ _ _ _ _ _ _ _ _ hg c hc
      · cases h

end GunYu.Rdb
