/-
  Helper lemmas for C03: one stream listpack node expands into exactly one XADD
  per live entry (SAMEFIELDS resolved, deleted entries skipped, ids = master +
  delta), for every integer width.
-/
import GunYu.Model.Rdb.Enc
import GunYu.Model.Rdb.Exec
import GunYu.Proofs.Rdb.Decimal
import GunYu.Proofs.Rdb.Listpack

namespace GunYu.Rdb
open GunYu

theorem inSigned_widen (a : Nat) (v : Int) (ha : a = 13 ∨ a = 16 ∨ a = 24 ∨ a = 32 ∨ a = 64)
    (h : inSigned a v) : inSigned 64 v := by
  obtain ⟨h1, h2⟩ := h
  have p12 : (2 : Nat) ^ (13 - 1) = 4096 := by decide
  have p15 : (2 : Nat) ^ (16 - 1) = 32768 := by decide
  have p23 : (2 : Nat) ^ (24 - 1) = 8388608 := by decide
  have p31 : (2 : Nat) ^ (32 - 1) = 2147483648 := by decide
  have p63 : (2 : Nat) ^ (64 - 1) = 9223372036854775808 := by decide
  unfold inSigned
  rw [p63]
  rcases ha with rfl | rfl | rfl | rfl | rfl
  · rw [p12] at h1 h2; omega
  · rw [p15] at h1 h2; omega
  · rw [p23] at h1 h2; omega
  · rw [p31] at h1 h2; omega
  · rw [p63] at h1 h2; omega

theorem intEntry_spec (e : LPEntry) (v : Int) (hw : e.wf) (hi : e.int? = some v) :
    e.val = intToDec v ∧ inSigned 64 v := by
  cases e with
  | u7 n =>
    have hn : n < 128 := hw
    simp only [LPEntry.int?, Option.some.injEq] at hi
    subst hi
    constructor
    · simp [LPEntry.val, intToDec]
    · have p63 : (2 : Nat) ^ (64 - 1) = 9223372036854775808 := by decide
      unfold inSigned; rw [p63]; omega
  | i13 w => simp only [LPEntry.int?, Option.some.injEq] at hi; subst hi
             exact ⟨rfl, inSigned_widen 13 _ (by simp) hw⟩
  | i16 w => simp only [LPEntry.int?, Option.some.injEq] at hi; subst hi
             exact ⟨rfl, inSigned_widen 16 _ (by simp) hw⟩
  | i24 w => simp only [LPEntry.int?, Option.some.injEq] at hi; subst hi
             exact ⟨rfl, inSigned_widen 24 _ (by simp) hw⟩
  | i32 w => simp only [LPEntry.int?, Option.some.injEq] at hi; subst hi
             exact ⟨rfl, inSigned_widen 32 _ (by simp) hw⟩
  | i64 w => simp only [LPEntry.int?, Option.some.injEq] at hi; subst hi
             exact ⟨rfl, inSigned_widen 64 _ (by simp) hw⟩
  | s6 s => simp [LPEntry.int?] at hi
  | s12 s => simp [LPEntry.int?] at hi
  | s32 s => simp [LPEntry.int?] at hi

/-- `NextInteger` on an integer entry -/
theorem lpNextInt_enc (e : LPEntry) (v : Int) (X : Bytes) (hw : e.wf) (hi : e.int? = some v) :
    lpNextInt (e.enc ++ X) = some (v, X) := by
  obtain ⟨hv, h64⟩ := intEntry_spec e v hw hi
  unfold lpNextInt
  rw [lpNext_enc e X hw]
  simp only [hv, parseInt64_intToDec v h64]

theorem lpIntMin_spec (v : Int) (h : inSigned 64 v) : (lpIntMin v).wf ∧ (lpIntMin v).int? = some v := by
  unfold lpIntMin
  split
  · next h0 => exact ⟨by show v.toNat < 128; omega, by simp [LPEntry.int?]; omega⟩
  · split
    · next h13 => exact ⟨h13, rfl⟩
    · split
      · next h16 => exact ⟨h16, rfl⟩
      · split
        · next h24 => exact ⟨h24, rfl⟩
        · split
          · next h32 => exact ⟨h32, rfl⟩
          · exact ⟨h, rfl⟩

theorem nat_inSigned64 (n : Nat) (h : n < 2 ^ 63) : inSigned 64 (n : Int) := by
  have p63 : (2 : Nat) ^ (64 - 1) = 9223372036854775808 := by decide
  unfold inSigned; rw [p63]
  have : (2 : Nat) ^ 63 = 9223372036854775808 := by decide
  omega

/-- `NextInteger` on a small natural number stored the narrowest way -/
theorem lpNextInt_min (n : Nat) (X : Bytes) (h : n < 2 ^ 63) :
    lpNextInt ((lpIntMin (n : Int)).enc ++ X) = some ((n : Int), X) := by
  obtain ⟨hw, hi⟩ := lpIntMin_spec (n : Int) (nat_inSigned64 n h)
  exact lpNextInt_enc _ _ X hw hi

theorem interleave_zip (fs vs : List LPEntry) (h : fs.length = vs.length) :
    interleave (fs.map LPEntry.val) (vs.map LPEntry.val) =
      (List.zip fs vs).flatMap (fun p => [p.1.val, p.2.val]) := by
  induction fs generalizing vs with
  | nil => cases vs <;> simp [interleave]
  | cons f fs ih =>
    cases vs with
    | nil => simp at h
    | cons v vs =>
      simp only [List.map_cons, interleave, List.zip_cons_cons, List.flatMap_cons, List.cons_append,
        List.nil_append]
      rw [ih vs (by simpa using h)]

theorem lpEntries_append (a b : List LPEntry) : lpEntries (a ++ b) = lpEntries a ++ lpEntries b := by
  simp [lpEntries]

theorem lpEntries_cons (a : LPEntry) (b : List LPEntry) : lpEntries (a :: b) = a.enc ++ lpEntries b := by
  simp [lpEntries]

theorem wrap64_exact (a : Nat) (d : Int) (h0 : 0 ≤ (a : Int) + d) (h1 : (a : Int) + d < (2 ^ 64 : Nat)) :
    wrap64 a d = ((a : Int) + d).toNat := by
  unfold wrap64
  rw [Int.emod_eq_of_lt h0 h1]

/-- the number of live / deleted entries -/
def liveCount (es : List SEntryE) : Nat := (es.filter (fun e => !e.deleted)).length
def delCount (es : List SEntryE) : Nat := (es.filter (fun e => e.deleted)).length

/-- the entry loop of the stream expansion -/
theorem streamEntries_spec (key : Bytes) (mMs mSeq : Nat) (mf : List LPEntry) (es : List SEntryE)
    (X : Bytes) (fuel : Nat) (hfuel : es.length < fuel)
    (hall : ∀ x ∈ es.flatMap (fun e => e.lp mf.length), x.wf)
    (hid : ∀ e ∈ es, e.idWf mMs mSeq)
    (hcnt : ∀ e ∈ es, (e.same = true → e.items.length = mf.length) ∧ (e.same = false → e.items.length % 2 = 0))
    (hsmall : ∀ e ∈ es, e.items.length < 65535) (hmf : mf.length < 65535) :
    streamEntries key mMs mSeq (mf.map LPEntry.val) mf.length fuel (liveCount es) (delCount es)
        (lpEntries (es.flatMap (fun e => e.lp mf.length)) ++ X) =
      some ((es.filter (fun e => !e.deleted)).map
        (fun e => cmdB b!"XADD" (key :: e.id mMs mSeq :: e.fieldVals mf))) := by
  induction es generalizing fuel with
  | nil =>
    obtain ⟨f, rfl⟩ : ∃ f, fuel = f + 1 := ⟨fuel - 1, by simp at hfuel; omega⟩
    simp [streamEntries, liveCount, delCount]
  | cons e es ih =>
    obtain ⟨f, rfl⟩ : ∃ f, fuel = f + 1 := ⟨fuel - 1, by simp at hfuel; omega⟩
    have hpos : ((liveCount (e :: es) : Int) > 0 ∨ (delCount (e :: es) : Int) > 0) := by
      unfold liveCount delCount
      cases hd : e.deleted <;> simp [List.filter_cons, hd] <;> omega
    obtain ⟨dms, dseq, hms, hseq, a0, a1, b0, b1⟩ := hid e (List.mem_cons_self ..)
    obtain ⟨hsame, heven⟩ := hcnt e (List.mem_cons_self ..)
    have hsm := hsmall e (List.mem_cons_self ..)
    have hwfe : ∀ x ∈ e.lp mf.length, x.wf := fun x hx =>
      hall x (by simp only [List.flatMap_cons, List.mem_append]; exact Or.inl hx)
    have ih' := ih f (by simp at hfuel; omega)
      (fun x hx => hall x (by simp only [List.flatMap_cons, List.mem_append]; exact Or.inr hx))
      (fun x hx => hid x (List.mem_cons_of_mem _ hx)) (fun x hx => hcnt x (List.mem_cons_of_mem _ hx))
      (fun x hx => hsmall x (List.mem_cons_of_mem _ hx))
    -- flags
    have p63 : (2 : Nat) ^ 63 = 9223372036854775808 := by decide
    have hflags3 : e.flags ≤ 3 := by
      unfold SEntryE.flags; cases e.deleted <;> cases e.same <;> decide
    have hflags : e.flags < 2 ^ 63 := by omega
    have hfl_same : ((e.flags : Int) % 4 ≥ 2) ↔ e.same = true := by
      unfold SEntryE.flags; cases e.deleted <;> cases e.same <;> decide
    have hfl_del : ((e.flags : Int) % 2 = 1) ↔ e.deleted = true := by
      unfold SEntryE.flags; cases e.deleted <;> cases e.same <;> decide
    have hid_eq : fmtId (wrap64 mMs dms) (wrap64 mSeq dseq) = e.id mMs mSeq := by
      rw [wrap64_exact mMs dms a0 a1, wrap64_exact mSeq dseq b0 b1]
      simp [SEntryE.id, streamId, fmtId, hms, hseq]
    simp only [streamEntries, hpos, not_true_eq_false, if_false, List.flatMap_cons, lpEntries_append,
      List.append_assoc]
    -- unfold the entry's listpack elements
    have hlp : ∃ c : Nat, e.lp mf.length = [lpIntMin e.flags, e.msDelta, e.seqDelta] ++
        (if e.same then [] else [lpIntMin (e.numFields mf.length)]) ++ e.items ++ [lpIntMin (c : Int)] :=
      ⟨_, rfl⟩
    obtain ⟨c, hlp⟩ := hlp
    have hw_flags : (lpIntMin (e.flags : Int)).wf := hwfe _ (by rw [hlp]; simp)
    have hw_ms : e.msDelta.wf := hwfe _ (by rw [hlp]; simp)
    have hw_seq : e.seqDelta.wf := hwfe _ (by rw [hlp]; simp)
    have hw_items : ∀ x ∈ e.items, x.wf := fun x hx => hwfe x (by rw [hlp]; simp [hx])
    have hw_cnt : (lpIntMin (c : Int)).wf := hwfe _ (by rw [hlp]; simp)
    rw [hlp]
    simp only [lpEntries_append, lpEntries_cons, List.append_assoc, List.cons_append, List.nil_append]
    have e0 : lpEntries [] = ([] : Bytes) := rfl
    simp only [e0, List.nil_append]
    rw [lpNextInt_min e.flags _ hflags]
    simp only
    rw [lpNextInt_enc e.msDelta dms _ hw_ms hms]
    simp only
    rw [lpNextInt_enc e.seqDelta dseq _ hw_seq hseq]
    simp only [hid_eq]
    cases hs : e.same with
    | true =>
      have hlen := hsame hs
      have hnf : e.numFields mf.length = mf.length := by simp [SEntryE.numFields, hs]
      simp only [hfl_same.mpr hs, if_true, hs, e0, List.nil_append, hnf]
      have htake := lpTake_entries e.items
        ((lpIntMin (c : Int)).enc ++ (lpEntries (es.flatMap (fun e => e.lp mf.length)) ++ X)) hw_items
      rw [hlen] at htake
      rw [htake]
      simp only [Option.map_some]
      rw [lpNext_enc (lpIntMin (c : Int)) _ hw_cnt]
      simp only
      have hfv : interleave (mf.map LPEntry.val) (e.items.map LPEntry.val) = e.fieldVals mf := by
        rw [interleave_zip mf e.items hlen.symm]
        simp [SEntryE.fieldVals, hs]
      rw [hfv]
      cases hd : e.deleted with
      | true =>
        have hc : liveCount (e :: es) = liveCount es := by simp [liveCount, List.filter_cons, hd]
        have hdc : ((delCount (e :: es) : Nat) : Int) - 1 = (delCount es : Nat) := by
          simp [delCount, List.filter_cons, hd]
        simp only [hfl_del.mpr hd, if_true, hc, hdc, ih', List.filter_cons, hd, Bool.not_true,
          Bool.false_eq_true, if_false]
      | false =>
        have hc : ((liveCount (e :: es) : Nat) : Int) - 1 = (liveCount es : Nat) := by
          simp [liveCount, List.filter_cons, hd]
        have hdc : delCount (e :: es) = delCount es := by simp [delCount, List.filter_cons, hd]
        have hnd : ¬ ((e.flags : Int) % 2 = 1) := fun h => by
          have := hfl_del.mp h; rw [hd] at this; exact absurd this (by decide)
        simp only [hnd, if_false, hc, hdc, ih', List.filter_cons, hd, Bool.not_false, if_true, List.map_cons]
    | false =>
      have hev := heven hs
      have hnf : e.numFields mf.length = e.items.length / 2 := by simp [SEntryE.numFields, hs]
      have hns : ¬ ((e.flags : Int) % 4 ≥ 2) := fun h => by
        have := hfl_same.mp h; rw [hs] at this; exact absurd this (by decide)
      simp only [hns, if_false, hs, Bool.false_eq_true, lpEntries_cons, e0, List.append_nil, List.append_assoc,
        hnf]
      rw [lpNextInt_min (e.items.length / 2) _ (by omega)]
      simp only [Int.toNat_natCast]
      have h2 : 2 * (e.items.length / 2) = e.items.length := by omega
      rw [h2]
      have htake := lpTake_entries e.items
        ((lpIntMin (c : Int)).enc ++ (lpEntries (es.flatMap (fun e => e.lp mf.length)) ++ X)) hw_items
      rw [htake]
      simp only
      rw [lpNext_enc (lpIntMin (c : Int)) _ hw_cnt]
      simp only
      have hfv : e.items.map LPEntry.val = e.fieldVals mf := by simp [SEntryE.fieldVals, hs]
      rw [hfv]
      cases hd : e.deleted with
      | true =>
        have hc : liveCount (e :: es) = liveCount es := by simp [liveCount, List.filter_cons, hd]
        have hdc : ((delCount (e :: es) : Nat) : Int) - 1 = (delCount es : Nat) := by
          simp [delCount, List.filter_cons, hd]
        simp only [hfl_del.mpr hd, if_true, hc, hdc, ih', List.filter_cons, hd, Bool.not_true,
          Bool.false_eq_true, if_false]
      | false =>
        have hc : ((liveCount (e :: es) : Nat) : Int) - 1 = (liveCount es : Nat) := by
          simp [liveCount, List.filter_cons, hd]
        have hdc : delCount (e :: es) = delCount es := by simp [delCount, List.filter_cons, hd]
        have hnd : ¬ ((e.flags : Int) % 2 = 1) := fun h => by
          have := hfl_del.mp h; rw [hd] at this; exact absurd this (by decide)
        simp only [hnd, if_false, hc, hdc, ih', List.filter_cons, hd, Bool.not_false, if_true, List.map_cons]

theorem lpBacklen_length_pos (l : Nat) : 1 ≤ (lpBacklen l).length := by
  unfold lpBacklen
  split
  · simp
  · split
    · simp
    · split
      · simp
      · split <;> simp

theorem lpEntries_length_ge (es : List LPEntry) : es.length ≤ (lpEntries es).length := by
  induction es with
  | nil => simp [lpEntries]
  | cons e es ih =>
    rw [lpEntries_cons, List.length_append, List.length_cons]
    have : 1 ≤ e.enc.length := by
      unfold LPEntry.enc
      rw [List.length_append]
      have := lpBacklen_length_pos e.body.length
      omega
    omega

theorem flatMap_lp_length_ge (es : List SEntryE) (m : Nat) : es.length ≤ (es.flatMap (fun e => e.lp m)).length := by
  induction es with
  | nil => simp
  | cons e es ih =>
    rw [List.flatMap_cons, List.length_append, List.length_cons]
    have : 1 ≤ (e.lp m).length := by simp [SEntryE.lp]
    omega

theorem mem_flatMap_lp_length (l : List SEntryE) (m : Nat) (e : SEntryE) (he : e ∈ l) :
    (e.lp m).length ≤ (l.flatMap (fun e => e.lp m)).length := by
  induction l with
  | nil => simp at he
  | cons a t ih =>
    rw [List.flatMap_cons, List.length_append]
    rcases List.mem_cons.mp he with rfl | he'
    · omega
    · have := ih he'; omega

/-- the XADDs a node stands for -/
def SNodeE.xadds (n : SNodeE) (key : Bytes) : List Cmd :=
  n.live.map (fun p => cmdB b!"XADD" (key :: p.1 :: p.2))

/-- One stream node (`<master id><listpack>`): the expansion is one XADD per
    live entry, with the entry's id and its own field/value list. -/
theorem streamNode_spec (key : Bytes) (n : SNodeE) (rest : Bytes) (hwf : n.wf)
    (hid : ∀ e ∈ n.entries, e.idWf n.masterMs n.masterSeq) :
    streamNode key (n.enc ++ rest) = some (n.xadds key, rest) := by
  obtain ⟨hw, hv, hlp, hms, hseq, hent⟩ := hwf
  obtain ⟨hlpw, hlplen⟩ := hlp
  have p63 : (2 : Nat) ^ 63 = 9223372036854775808 := by decide
  -- the 16-byte master id
  have hmid : (beN 8 n.masterMs ++ beN 8 n.masterSeq).length = 16 := by simp [beN_length]
  have hkeyse : (SE.raw .b6 (beN 8 n.masterMs ++ beN 8 n.masterSeq)).wf := by
    show LenForm.b6.fits _
    rw [hmid]; decide
  have hread : readString (encLen .b6 16 ++ (beN 8 n.masterMs ++ (beN 8 n.masterSeq ++ (n.w.enc ++ rest)))) =
      some (beN 8 n.masterMs ++ beN 8 n.masterSeq, n.w.enc ++ rest) := by
    have h := readString_enc (SE.raw .b6 (beN 8 n.masterMs ++ beN 8 n.masterSeq)) (n.w.enc ++ rest) hkeyse
    have e : (SE.raw .b6 (beN 8 n.masterMs ++ beN 8 n.masterSeq)).enc =
        encLen .b6 16 ++ (beN 8 n.masterMs ++ beN 8 n.masterSeq) := by
      show encLen .b6 (beN 8 n.masterMs ++ beN 8 n.masterSeq).length ++ _ = _
      rw [hmid]
    rw [e] at h
    simpa [List.append_assoc, SE.val] using h
  unfold streamNode SNodeE.enc
  simp only [List.append_assoc]
  rw [hread]
  simp only [hmid, ne_eq, not_true_eq_false, if_false]
  have ht : (beN 8 n.masterMs ++ beN 8 n.masterSeq).take 8 = beN 8 n.masterMs := by
    rw [List.take_left' (beN_length 8 _)]
  have hd : (beN 8 n.masterMs ++ beN 8 n.masterSeq).drop 8 = beN 8 n.masterSeq := by
    rw [List.drop_left' (beN_length 8 _)]
  rw [ht, hd, ofBE_beN 8 _ (by simpa using hms), ofBE_beN 8 _ (by simpa using hseq)]
  rw [readString_enc n.w rest hw]
  simp only
  rw [hv]
  unfold SNodeE.blob
  rw [lpNew_blob _ hlplen]
  simp only
  -- the master entry
  have hlpe : n.lpEntries = [lpIntMin ((liveCount n.entries : Nat) : Int), lpIntMin ((delCount n.entries : Nat) : Int),
      lpIntMin ((n.masterFields.length : Nat) : Int)] ++ n.masterFields ++ [lpIntMin 0] ++
      n.entries.flatMap (fun e => e.lp n.masterFields.length) := rfl
  have hge := flatMap_lp_length_ge n.entries n.masterFields.length
  have hlen_all : n.lpEntries.length = 3 + n.masterFields.length + 1 +
      (n.entries.flatMap (fun e => e.lp n.masterFields.length)).length := by
    rw [hlpe]; simp; omega
  have hlive : liveCount n.entries ≤ n.entries.length := List.length_filter_le _ _
  have hdel : delCount n.entries ≤ n.entries.length := List.length_filter_le _ _
  have hwf_mf : ∀ x ∈ n.masterFields, x.wf := fun x hx => hlpw x (by rw [hlpe]; simp [hx])
  have hwf_zero : (lpIntMin 0).wf := hlpw _ (by rw [hlpe]; simp)
  have hwf_ent : ∀ x ∈ n.entries.flatMap (fun e => e.lp n.masterFields.length), x.wf :=
    fun x hx => hlpw x (by rw [hlpe]; exact List.mem_append_right _ hx)
  have hfuel : n.entries.length < (lpBlob n.lpEntries).length + 1 := by
    have h1 := lpEntries_length_ge n.lpEntries
    unfold lpBlob
    simp only [List.length_append]
    omega
  generalize (lpBlob n.lpEntries).length + 1 = F at hfuel ⊢
  rw [hlpe]
  simp only [lpEntries_append, lpEntries_cons, List.append_assoc, List.cons_append, List.nil_append]
  rw [lpNextInt_min _ _ (by omega)]
  simp only
  rw [lpNextInt_min _ _ (by omega)]
  simp only
  rw [lpNextInt_min _ _ (by omega)]
  simp only
  have hnn : ¬ ((n.masterFields.length : Int) < 0) := by omega
  simp only [hnn, if_false, Int.toNat_natCast]
  rw [lpTake_entries n.masterFields _ hwf_mf]
  simp only
  rw [lpNext_enc (lpIntMin 0) _ hwf_zero]
  have hz : (lpIntMin 0).val = b!"0" := by decide
  simp only [hz, ne_eq, not_true_eq_false, if_false]
  have hsmall : ∀ e ∈ n.entries, e.items.length < 65535 := by
    intro e he
    have h1 := mem_flatMap_lp_length n.entries n.masterFields.length e he
    have h2 : e.items.length ≤ (e.lp n.masterFields.length).length := by
      simp only [SEntryE.lp, List.length_append]; omega
    omega
  have := streamEntries_spec key n.masterMs n.masterSeq n.masterFields n.entries ([0xFF]) F hfuel hwf_ent hid
    (fun e he => ⟨(hent e he).2, (hent e he).1⟩) hsmall (by omega)
  rw [this]
  simp only [SNodeE.xadds, SNodeE.live, List.map_map]
  rfl

/-- all listpack nodes of a stream, in order -/
theorem streamNodes_spec (key : Bytes) (nodes : List SNodeE) (rest : Bytes)
    (hwf : ∀ n ∈ nodes, n.wf ∧ ∀ e ∈ n.entries, e.idWf n.masterMs n.masterSeq) :
    streamNodes key nodes.length (nodes.flatMap SNodeE.enc ++ rest) =
      some (nodes.flatMap (fun n => n.xadds key), rest) := by
  induction nodes with
  | nil => simp [streamNodes]
  | cons n nodes ih =>
    obtain ⟨h1, h2⟩ := hwf n (List.mem_cons_self ..)
    simp only [List.length_cons, List.flatMap_cons, List.append_assoc, streamNodes]
    rw [streamNode_spec key n _ h1 h2]
    simp only
    rw [ih (fun x hx => hwf x (List.mem_cons_of_mem _ hx))]

end GunYu.Rdb
