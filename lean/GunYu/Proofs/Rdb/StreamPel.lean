/-
  Helper lemmas for C03 (streams): the pending entries `StreamE.xval` lists consumer by
  consumer (the order the XCLAIMs are issued in) are, as a SET, exactly the group's PEL as
  the description gives it — every record of `g.pel` with its delivery time, its delivery
  count and the consumer that owns it.
-/
import GunYu.Proofs.Rdb.StreamId

namespace GunYu.Rdb
open GunYu GunYu.RedisSem

/-- the consumer whose PEL lists the id -/
def SGroupE.owner (g : SGroupE) (p : Nat × Nat) : Bytes :=
  ((g.consumers.find? (fun c => c.pel.contains p)).map (fun c => c.name.val)).getD []

/-- the group's PEL as a Redis server holds it — one record per pending id (the rax
    `cg->pel`), each with owner, delivery time and delivery count — restricted to the pending
    ids whose entry is still in the stream (the others cannot be recreated by commands) -/
def SGroupE.pelLogical (s : StreamE) (g : SGroupE) : List XNack :=
  (g.pel.filter (fun n => s.isLive (n.ms, n.seq))).map
    (fun n => (⟨fmtId n.ms n.seq, g.owner (n.ms, n.seq), natToDec n.time, natToDec n.count⟩ : XNack))

/-- what Redis guarantees of a group's PEL: one record per id, and the consumers' PELs
    partition it -/
def SGroupE.pelPartition (g : SGroupE) : Prop :=
  (g.pel.map (fun n => (n.ms, n.seq))).Nodup ∧
  (g.consumers.flatMap (fun c => c.pel)).Perm (g.pel.map (fun n => (n.ms, n.seq)))

theorem flatMap_congr' {α β} (l : List α) (f g : α → List β) (h : ∀ a ∈ l, f a = g a) :
    l.flatMap f = l.flatMap g := by
  induction l with
  | nil => rfl
  | cons a l ih =>
    simp only [List.flatMap_cons]
    rw [h a (List.mem_cons_self ..), ih (fun x hx => h x (List.mem_cons_of_mem _ hx))]

theorem flatMap_nodup_owner {α β} (f : α → List β) : ∀ (l : List α), (l.flatMap f).Nodup →
    ∀ x ∈ l, ∀ y ∈ l, ∀ a, a ∈ f x → a ∈ f y → x = y := by
  intro l
  induction l with
  | nil => intro _ x hx; cases hx
  | cons z l ih =>
    intro hnd x hx y hy a hax hay
    simp only [List.flatMap_cons] at hnd
    obtain ⟨_, hl, hdis⟩ := List.nodup_append.mp hnd
    rcases List.mem_cons.mp hx with rfl | hx' <;> rcases List.mem_cons.mp hy with rfl | hy'
    · rfl
    · exact absurd rfl (hdis a hax a (List.mem_flatMap.mpr ⟨y, hy', hay⟩))
    · exact absurd rfl (hdis a hay a (List.mem_flatMap.mpr ⟨x, hx', hax⟩))
    · exact ih hl x hx' y hy' a hax hay

theorem owner_of_mem (g : SGroupE) (hnd : (g.consumers.flatMap (fun c => c.pel)).Nodup)
    (c : SConsumerE) (hc : c ∈ g.consumers) (p : Nat × Nat) (hp : p ∈ c.pel) : g.owner p = c.name.val := by
  unfold SGroupE.owner
  cases hf : g.consumers.find? (fun c => c.pel.contains p) with
  | none =>
    rw [List.find?_eq_none] at hf
    exact absurd (by simpa using hp) (hf c hc)
  | some c' =>
    have hc' := List.mem_of_find?_eq_some hf
    have hp' : p ∈ c'.pel := by simpa using List.find?_some hf
    have := flatMap_nodup_owner (fun c : SConsumerE => c.pel) g.consumers hnd c' hc' c hc p hp' hp
    subst this
    rfl

theorem nack_of_mem (g : SGroupE) (hnd : (g.pel.map (fun n => (n.ms, n.seq))).Nodup) (n : SNackE) (hn : n ∈ g.pel) :
    g.nack n.ms n.seq = (n.time, n.count) := by
  unfold SGroupE.nack
  cases hf : g.pel.reverse.find? (fun m => m.ms == n.ms && m.seq == n.seq) with
  | none =>
    rw [List.find?_eq_none] at hf
    exact absurd (by simp) (hf n (List.mem_reverse.mpr hn))
  | some m =>
    have hm : m ∈ g.pel := List.mem_reverse.mp (List.mem_of_find?_eq_some hf)
    have hid : (m.ms, m.seq) = (n.ms, n.seq) := by
      have := List.find?_some hf
      simp only [Bool.and_eq_true, beq_iff_eq] at this
      exact Prod.ext this.1 this.2
    -- distinct ids: the record found is `n` itself
    have : m = n := by
      have key : ∀ (l : List SNackE), (l.map (fun n => (n.ms, n.seq))).Nodup → m ∈ l → n ∈ l → m = n := by
        intro l
        induction l with
        | nil => intro _ h; cases h
        | cons z l ih =>
          intro hnd hm hn
          simp only [List.map_cons, List.nodup_cons, List.mem_map, not_exists, not_and] at hnd
          rcases List.mem_cons.mp hm with rfl | hm' <;> rcases List.mem_cons.mp hn with rfl | hn'
          · rfl
          · exact absurd hid.symm (hnd.1 n hn')
          · exact absurd hid (hnd.1 m hm')
          · exact ih hnd.2 hm' hn'
      exact key g.pel hnd hm hn
    subst this
    rfl

/-- the pending entries the replay recreates (in XCLAIM order) are a permutation of the
    group's logical PEL restricted to the ids that are still entries of the stream -/
theorem pelX_perm_logical (s : StreamE) (g : SGroupE) (h : g.pelPartition) : (g.pelX s).Perm (g.pelLogical s) := by
  obtain ⟨hnd, hperm⟩ := h
  have hndc : (g.consumers.flatMap (fun c => c.pel)).Nodup := (hperm.nodup_iff).mpr hnd
  let G : Nat × Nat → XNack := fun p => ⟨fmtId p.1 p.2, g.owner p, natToDec (g.nack p.1 p.2).1, natToDec (g.nack p.1 p.2).2⟩
  have h1 : g.pelX s = ((g.consumers.flatMap (fun c => c.pel)).filter s.isLive).map G := by
    simp only [SGroupE.pelX, List.filter_flatMap, List.map_flatMap]
    apply flatMap_congr'
    intro c hc
    apply List.map_congr_left
    intro p hp
    simp only [G, owner_of_mem g hndc c hc p (List.mem_filter.mp hp).1]
  have h2 : g.pelLogical s = ((g.pel.map (fun n => (n.ms, n.seq))).filter s.isLive).map G := by
    simp only [SGroupE.pelLogical, List.filter_map, List.map_map]
    apply List.map_congr_left
    intro n hn
    simp only [Function.comp, G, nack_of_mem g hnd n (List.mem_filter.mp hn).1]
  rw [h1, h2]
  exact (hperm.filter _).map G

end GunYu.Rdb
