/-
  Helper lemmas for C03: ziplist / intset / zipmap blobs decode to their
  logical contents.
-/
import GunYu.Model.Rdb.Ziplist
import GunYu.Proofs.Rdb.Lzf

namespace GunYu.Rdb
open GunYu

theorem i4_bytes : ∀ v : Fin 13,
    let e := UInt8.ofNat (0xF1 + v.val)
    e.toNat / 64 = 3 ∧ e ≠ 0xFE ∧ e ≠ 0xC0 ∧ e ≠ 0xF0 ∧ e ≠ 0xD0 ∧ e ≠ 0xE0 ∧
      e.toNat / 16 = 15 ∧ e.toNat % 16 = v.val + 1 := by decide

theorem pow256 (k : Nat) : (256 : Nat) ^ k = 2 ^ (8 * k) := by
  rw [show (256 : Nat) = 2 ^ 8 by decide, ← Nat.pow_mul]

/-- encoding byte(s) + payload of every entry kind decode to its value -/
theorem zlBody_body (e : ZEntry) (rest : Bytes) (h : e.wf) :
    zlBody (e.body ++ rest) = some (e.val, rest) := by
  cases e with
  | s6 s =>
    have h : s.length < 64 := h
    simp only [ZEntry.body, ZEntry.val, List.cons_append, zlBody]
    rw [u8_toNat s.length (by omega)]
    have h0 : s.length / 64 = 0 := by omega
    have h1 : s.length % 64 = s.length := by omega
    simp only [h0, h1, if_true]
    exact readN_append s rest
  | s14 s =>
    have h : s.length < 16384 := h
    simp only [ZEntry.body, ZEntry.val, List.cons_append, zlBody]
    rw [u8_toNat (64 + s.length / 256) (by omega), u8_toNat (s.length % 256) (by omega)]
    have h0 : (64 + s.length / 256) / 64 = 1 := by omega
    have h1 : (64 + s.length / 256) % 64 * 256 + s.length % 256 = s.length := by omega
    simp only [h0, h1, show (1 : Nat) ≠ 0 by decide, if_false, if_true]
    exact readN_append s rest
  | s32 s =>
    have h : s.length < 2 ^ 32 := h
    simp only [ZEntry.body, ZEntry.val, List.cons_append, zlBody, List.append_assoc]
    have h0 : (0x80 : UInt8).toNat / 64 = 2 := by decide
    simp only [h0, show (2 : Nat) ≠ 0 by decide, show (2 : Nat) ≠ 1 by decide, if_false, if_true]
    rw [readN_append' 4 _ _ (beN_length 4 _)]
    simp only [ofBE_beN 4 s.length (by simpa using h)]
    exact readN_append s rest
  | i4 v =>
    have h : v ≤ 12 := h
    obtain ⟨a, b, c, d, e', f, g, i⟩ := i4_bytes ⟨v, by omega⟩
    simp only at a b c d e' f g i
    simp only [ZEntry.body, ZEntry.val, List.cons_append, List.nil_append, zlBody]
    simp only [a, show (3 : Nat) ≠ 0 by decide, show (3 : Nat) ≠ 1 by decide, show (3 : Nat) ≠ 2 by decide,
      b, c, d, e', f, g, i, if_false, if_true]
    have : 1 ≤ v + 1 ∧ v + 1 ≤ 13 := by omega
    simp [this]
  | i8 v =>
    have h : inSigned (8 * 1) v := h
    simp only [ZEntry.body, ZEntry.val, List.cons_append, zlBody]
    have h0 : (0xFE : UInt8).toNat / 64 = 3 := by decide
    simp only [h0, show (3 : Nat) ≠ 0 by decide, show (3 : Nat) ≠ 1 by decide, show (3 : Nat) ≠ 2 by decide,
      if_false, if_true]
    rw [readN_append' 1 _ _ (leN_length 1 _)]
    simp only [int_le_roundtrip 1 v (by decide) h]
  | i16 v =>
    have h : inSigned (8 * 2) v := h
    simp only [ZEntry.body, ZEntry.val, List.cons_append, zlBody]
    have h0 : (0xC0 : UInt8).toNat / 64 = 3 := by decide
    simp only [h0, show (3 : Nat) ≠ 0 by decide, show (3 : Nat) ≠ 1 by decide, show (3 : Nat) ≠ 2 by decide,
      show ((0xC0 : UInt8) = 0xFE) = False by decide, if_false, if_true]
    rw [readN_append' 2 _ _ (leN_length 2 _)]
    simp only [int_le_roundtrip 2 v (by decide) h]
  | i24 v =>
    have h : inSigned (8 * 3) v := h
    simp only [ZEntry.body, ZEntry.val, List.cons_append, zlBody]
    have h0 : (0xF0 : UInt8).toNat / 64 = 3 := by decide
    simp only [h0, show (3 : Nat) ≠ 0 by decide, show (3 : Nat) ≠ 1 by decide, show (3 : Nat) ≠ 2 by decide,
      show ((0xF0 : UInt8) = 0xFE) = False by decide, show ((0xF0 : UInt8) = 0xC0) = False by decide,
      if_false, if_true]
    rw [readN_append' 3 _ _ (leN_length 3 _)]
    simp only [int_le_roundtrip 3 v (by decide) h]
  | i32 v =>
    have h : inSigned (8 * 4) v := h
    simp only [ZEntry.body, ZEntry.val, List.cons_append, zlBody]
    have h0 : (0xD0 : UInt8).toNat / 64 = 3 := by decide
    simp only [h0, show (3 : Nat) ≠ 0 by decide, show (3 : Nat) ≠ 1 by decide, show (3 : Nat) ≠ 2 by decide,
      show ((0xD0 : UInt8) = 0xFE) = False by decide, show ((0xD0 : UInt8) = 0xC0) = False by decide,
      show ((0xD0 : UInt8) = 0xF0) = False by decide, if_false, if_true]
    rw [readN_append' 4 _ _ (leN_length 4 _)]
    simp only [int_le_roundtrip 4 v (by decide) h]
  | i64 v =>
    have h : inSigned (8 * 8) v := h
    simp only [ZEntry.body, ZEntry.val, List.cons_append, zlBody]
    have h0 : (0xE0 : UInt8).toNat / 64 = 3 := by decide
    simp only [h0, show (3 : Nat) ≠ 0 by decide, show (3 : Nat) ≠ 1 by decide, show (3 : Nat) ≠ 2 by decide,
      show ((0xE0 : UInt8) = 0xFE) = False by decide, show ((0xE0 : UInt8) = 0xC0) = False by decide,
      show ((0xE0 : UInt8) = 0xF0) = False by decide, show ((0xE0 : UInt8) = 0xD0) = False by decide,
      if_false, if_true]
    rw [readN_append' 8 _ _ (leN_length 8 _)]
    simp only [int_le_roundtrip 8 v (by decide) h]

/-- iterator invariant: `n` entries remain; either the length is unknown or
    `pos` counts exactly up to it -/
def ZlInv (L p n : Nat) : Prop := L = 65535 ∨ (L ≠ 65535 ∧ p + n = L)

theorem zlEntry_prevlen (big : Bool) (prev : Nat) (X : Bytes) :
    ∃ fb r, zlPrevlen big prev ++ X = fb :: r ∧ fb ≠ 0xFF ∧
      (if fb = 0xFE then r.drop 4 else r) = X := by
  unfold zlPrevlen
  by_cases hb : (big = true ∨ 254 ≤ prev)
  · simp only [hb, if_true]
    refine ⟨0xFE, leN 4 prev ++ X, by simp, by decide, ?_⟩
    simp only [if_true]
    have := leN_length 4 prev
    rw [List.drop_left' this]
  · simp only [hb, if_false]
    have hp : prev < 254 := by omega
    refine ⟨UInt8.ofNat prev, X, by simp, ?_, ?_⟩
    · intro h
      have := congrArg UInt8.toNat h
      rw [u8_toNat prev (by omega)] at this
      have e : (0xFF : UInt8).toNat = 255 := by decide
      omega
    · have : UInt8.ofNat prev ≠ 0xFE := by
        intro h
        have := congrArg UInt8.toNat h
        rw [u8_toNat prev (by omega)] at this
        have e : (0xFE : UInt8).toNat = 254 := by decide
        omega
      simp [this]

/-- `Next` on an iterator positioned at an entry -/
theorem zlNext_entry (L p prev : Nat) (big : Bool) (e : ZEntry) (es : List (Bool × ZEntry)) (hw : e.wf)
    (hinv : ZlInv L p (es.length + 1)) :
    zlNext { rem := zlEntriesFrom prev ((big, e) :: es) ++ [0xFF], length := L, pos := p, done := false } =
      some (some e.val,
        { rem := zlEntriesFrom (zlPrevlen big prev ++ e.body).length es ++ [0xFF], length := L,
          pos := if L = 65535 then p else p + 1, done := false }) := by
  obtain ⟨fb, r, hfr, hne, hdrop⟩ := zlEntry_prevlen big prev (e.body ++ (zlEntriesFrom (zlPrevlen big prev ++ e.body).length es ++ [0xFF]))
  have hrem : zlEntriesFrom prev ((big, e) :: es) ++ [0xFF] = fb :: r := by
    rw [← hfr]; simp [zlEntriesFrom]
  have hent : zlEntry fb r = some (e.val, zlEntriesFrom (zlPrevlen big prev ++ e.body).length es ++ [0xFF]) := by
    unfold zlEntry
    rw [hdrop]
    exact zlBody_body e _ hw
  unfold zlNext
  simp only [Bool.false_eq_true, if_false, hrem]
  rcases hinv with hL | ⟨hL, hp⟩
  · simp [hL, hne, hent]
  · have : p < L := by omega
    simp [hL, this, hent]

theorem zlNext_end (L p : Nat) (hinv : ZlInv L p 0) :
    zlNext { rem := [0xFF], length := L, pos := p, done := false } =
      some (none, { rem := [], length := L, pos := p, done := true }) := by
  unfold zlNext
  rcases hinv with hL | ⟨hL, hp⟩
  · simp [hL]
  · have : ¬ p < L := by omega
    simp [hL, this]

theorem ZlInv.step {L p n : Nat} (h : ZlInv L p (n + 1)) : ZlInv L (if L = 65535 then p else p + 1) n := by
  rcases h with hL | ⟨hL, hp⟩
  · exact Or.inl hL
  · right; simp [hL]; omega

theorem zlAllLoop_entries (es : List (Bool × ZEntry)) (L p prev fuel : Nat)
    (hw : ∀ e ∈ es, e.2.wf) (hinv : ZlInv L p es.length) (hf : es.length < fuel) :
    zlAllLoop fuel { rem := zlEntriesFrom prev es ++ [0xFF], length := L, pos := p, done := false } =
      some (es.map (·.2.val)) := by
  induction es generalizing p prev fuel with
  | nil =>
    obtain ⟨f, rfl⟩ : ∃ f, fuel = f + 1 := ⟨fuel - 1, by simp at hf; omega⟩
    simp only [zlEntriesFrom, List.nil_append, zlAllLoop]
    rw [zlNext_end L p hinv]
    rfl
  | cons be es ih =>
    obtain ⟨big, e⟩ := be
    obtain ⟨f, rfl⟩ : ∃ f, fuel = f + 1 := ⟨fuel - 1, by simp at hf; omega⟩
    have hwe : e.wf := hw (big, e) (List.mem_cons_self ..)
    simp only [zlAllLoop]
    rw [zlNext_entry L p prev big e es hwe hinv]
    simp only
    rw [ih _ _ f (fun x hx => hw x (List.mem_cons_of_mem _ hx)) hinv.step (by simp at hf; omega)]
    rfl

theorem flatMap_pair_length {α} (ps : List (α × α)) :
    (ps.flatMap (fun q => [q.1, q.2])).length = 2 * ps.length := by
  induction ps with
  | nil => rfl
  | cons a t iht =>
    rw [List.flatMap_cons, List.length_append, iht]
    simp only [List.length_cons, List.length_nil]
    omega

theorem zlPairsLoop_entries (ps : List ((Bool × ZEntry) × (Bool × ZEntry))) (L p prev fuel : Nat)
    (hw : ∀ q ∈ ps, q.1.2.wf ∧ q.2.2.wf) (hinv : ZlInv L p (2 * ps.length)) (hf : ps.length < fuel) :
    zlPairsLoop fuel { rem := zlEntriesFrom prev (ps.flatMap (fun q => [q.1, q.2])) ++ [0xFF],
                       length := L, pos := p, done := false } =
      some (ps.map (fun q => (q.1.2.val, q.2.2.val))) := by
  induction ps generalizing p prev fuel with
  | nil =>
    obtain ⟨f, rfl⟩ : ∃ f, fuel = f + 1 := ⟨fuel - 1, by simp at hf; omega⟩
    simp only [List.flatMap_nil, zlEntriesFrom, List.nil_append, zlPairsLoop]
    rw [zlNext_end L p hinv]
    simp [zlNext]
  | cons q ps ih =>
    obtain ⟨⟨b1, e1⟩, ⟨b2, e2⟩⟩ := q
    obtain ⟨f, rfl⟩ : ∃ f, fuel = f + 1 := ⟨fuel - 1, by simp at hf; omega⟩
    obtain ⟨hw1, hw2⟩ := hw _ (List.mem_cons_self ..)
    have hlen := flatMap_pair_length ps
    have hinv1 : ZlInv L p (((b2, e2) :: ps.flatMap (fun q => [q.1, q.2])).length + 1) := by
      simp only [List.length_cons, hlen]
      have : 2 * (ps.length + 1) = 2 * ps.length + 1 + 1 := by omega
      simpa [this] using hinv
    simp only [List.flatMap_cons, List.cons_append, List.nil_append, zlPairsLoop]
    rw [zlNext_entry L p prev b1 e1 _ hw1 hinv1]
    simp only
    have hinv2 := hinv1.step
    simp only [List.length_cons] at hinv2
    rw [zlNext_entry L _ _ b2 e2 _ hw2 hinv2]
    simp only
    have hinv3 := hinv2.step
    rw [hlen] at hinv3
    rw [ih _ _ f (fun x hx => hw x (List.mem_cons_of_mem _ hx)) hinv3 (by simp at hf; omega)]
    rfl

theorem zlPrevlen_length_pos (big : Bool) (prev : Nat) : 1 ≤ (zlPrevlen big prev).length := by
  unfold zlPrevlen; split <;> simp

theorem zlEntriesFrom_length_ge (prev : Nat) (es : List (Bool × ZEntry)) :
    es.length ≤ (zlEntriesFrom prev es).length := by
  induction es generalizing prev with
  | nil => simp [zlEntriesFrom]
  | cons be es ih =>
    obtain ⟨big, e⟩ := be
    simp only [zlEntriesFrom, List.length_append, List.length_cons]
    have := zlPrevlen_length_pos big prev
    have := ih (zlPrevlen big prev ++ e.body).length
    simp only [List.length_append] at this
    omega

theorem zlNew_blob (z : ZL) :
    zlNew z.blob = some { rem := zlEntriesFrom 0 z.entries ++ [0xFF],
                          length := (if z.unknown ∨ 65535 ≤ z.entries.length then 65535 else z.entries.length),
                          pos := 0, done := false } := by
  unfold zlNew ZL.blob
  simp only
  generalize zlEntriesFrom 0 z.entries = body
  generalize hn' : (if z.unknown = true ∨ 65535 ≤ z.entries.length then 65535 else z.entries.length) = n
  have hn : n < 65536 := by
    rw [← hn']; split
    · decide
    · omega
  generalize hA : leN 4 (10 + body.length + 1) = A
  generalize hB : leN 4 (if z.entries.isEmpty = true then 10 else 10 + body.length - zlLastLen 0 z.entries) = B
  have hAl : A.length = 4 := by rw [← hA]; exact leN_length 4 _
  have hBl : B.length = 4 := by rw [← hB]; exact leN_length 4 _
  have hCl : (leN 2 n).length = 2 := leN_length 2 _
  have hlen : ¬ (A ++ B ++ leN 2 n ++ body ++ [0xFF]).length < 10 := by
    simp only [List.length_append, hAl, hBl, hCl]; omega
  simp only [hlen, if_false]
  have e10 : (A ++ B ++ leN 2 n ++ body ++ [0xFF]) = (A ++ B ++ leN 2 n) ++ (body ++ [0xFF]) := by simp
  have e8 : (A ++ B ++ leN 2 n ++ body ++ [0xFF]) = (A ++ B) ++ (leN 2 n ++ (body ++ [0xFF])) := by simp
  have l10 : (A ++ B ++ leN 2 n).length = 10 := by simp [hAl, hBl, hCl]
  have l8 : (A ++ B).length = 8 := by simp [hAl, hBl]
  have d10 : (A ++ B ++ leN 2 n ++ body ++ [0xFF]).drop 10 = body ++ [0xFF] := by
    rw [e10, List.drop_left' l10]
  have d8 : ((A ++ B ++ leN 2 n ++ body ++ [0xFF]).drop 8).take 2 = leN 2 n := by
    rw [e8, List.drop_left' l8, List.take_left' hCl]
  rw [d10, d8, ofLE_leN' 2 n (by simpa using hn)]

theorem zlInv_blob (z : ZL) :
    ZlInv (if z.unknown ∨ 65535 ≤ z.entries.length then 65535 else z.entries.length) 0 z.entries.length := by
  unfold ZlInv
  split
  · exact Or.inl rfl
  · right; constructor <;> omega

theorem blob_length_gt (z : ZL) : z.entries.length < z.blob.length + 1 := by
  have := zlEntriesFrom_length_ge 0 z.entries
  unfold ZL.blob
  simp only [List.length_append]
  omega

/-- a well-formed ziplist blob iterates to exactly its entries' values -/
theorem zlAll_blob (z : ZL) (h : z.wf) : zlAll z.blob = some z.vals := by
  unfold zlAll
  rw [zlNew_blob]
  exact zlAllLoop_entries z.entries _ 0 0 _ h (zlInv_blob z) (blob_length_gt z)

/-- pairs view of an even-length list -/
theorem even_pairs {α} : ∀ (l : List α), l.length % 2 = 0 → ∃ ps : List (α × α), l = ps.flatMap (fun q => [q.1, q.2])
  | [], _ => ⟨[], rfl⟩
  | [_], h => by simp at h
  | a :: b :: rest, h => by
    have h' : rest.length % 2 = 0 := by simp only [List.length_cons] at h; omega
    obtain ⟨ps, hps⟩ := even_pairs rest h'
    exact ⟨(a, b) :: ps, by simp [hps]⟩

theorem pairUp_flatMap (ps : List (Bytes × Bytes)) : pairUp (ps.flatMap (fun q => [q.1, q.2])) = ps := by
  induction ps with
  | nil => rfl
  | cons q ps ih => simp [pairUp, ih]

theorem map_flatMap_pairs {α} (f : α → Bytes) (ps : List (α × α)) :
    (ps.flatMap (fun q => [q.1, q.2])).map f =
      (ps.map (fun q => (f q.1, f q.2))).flatMap (fun q => [q.1, q.2]) := by
  induction ps with
  | nil => rfl
  | cons q ps ih => simp [List.flatMap_cons, ih]

/-- hash / zset view: (first, second) pairs in order -/
theorem zlPairs_blob (z : ZL) (h : z.wf) (he : z.entries.length % 2 = 0) :
    zlPairs z.blob = some (pairUp z.vals) := by
  obtain ⟨ps, hps⟩ := even_pairs z.entries he
  unfold zlPairs
  rw [zlNew_blob]
  have hl : z.entries.length = 2 * ps.length := by rw [hps]; exact flatMap_pair_length ps
  have hinv := zlInv_blob z
  have hf := blob_length_gt z
  have hvals : pairUp z.vals = ps.map (fun q => (q.1.2.val, q.2.2.val)) := by
    unfold ZL.vals
    rw [hps]
    rw [map_flatMap_pairs, pairUp_flatMap]
  rw [hvals]
  have hw : ∀ q ∈ ps, q.1.2.wf ∧ q.2.2.wf := by
    intro q hq
    constructor
    · apply h; rw [hps]; simp only [List.mem_flatMap]; exact ⟨q, hq, by simp⟩
    · apply h; rw [hps]; simp only [List.mem_flatMap]; exact ⟨q, hq, by simp⟩
  have := zlPairsLoop_entries ps (if z.unknown ∨ 65535 ≤ z.entries.length then 65535 else z.entries.length)
    0 0 (z.blob.length + 1) hw (by rw [← hl]; exact hinv) (by omega)
  rw [← hps] at this
  exact this

/-! ### intset -/

theorem intsetLoop_blob (width : Nat) (hw : 0 < width) (vs : List Int) (rest : Bytes)
    (h : ∀ v ∈ vs, inSigned (8 * width) v) :
    intsetLoop width vs.length (vs.flatMap (fun v => leN width (ofSigned (8 * width) v)) ++ rest) =
      some (vs.map intToDec) := by
  induction vs with
  | nil => simp [intsetLoop]
  | cons v vs ih =>
    simp only [List.length_cons, List.flatMap_cons, List.append_assoc, intsetLoop]
    rw [readN_append' width _ _ (leN_length width _)]
    simp only
    rw [ih (fun x hx => h x (List.mem_cons_of_mem _ hx))]
    simp only [List.map_cons]
    rw [int_le_roundtrip width v hw (h v (List.mem_cons_self ..))]

theorem intsetAll_blob (width : Nat) (vs : List Int) (hw : width = 2 ∨ width = 4 ∨ width = 8)
    (hl : vs.length < 2 ^ 32) (h : ∀ v ∈ vs, inSigned (8 * width) v) :
    intsetAll (intsetBlob width vs) = some (vs.map intToDec) := by
  unfold intsetAll intsetBlob
  simp only [List.append_assoc]
  rw [readN_append' 4 _ _ (leN_length 4 _)]
  have hw4 : width < 256 ^ 4 := by rcases hw with h | h | h <;> subst h <;> decide
  simp only [ofLE_leN' 4 width hw4]
  have hne : ¬ (width ≠ 2 ∧ width ≠ 4 ∧ width ≠ 8) := by omega
  simp only [hne, if_false]
  rw [readN_append' 4 _ _ (leN_length 4 _)]
  simp only [ofLE_leN' 4 vs.length (by simpa using hl)]
  have := intsetLoop_blob width (by omega) vs [] h
  simpa using this

/-! ### zipmap -/

/-- the length prefix of an item (1 byte, or 254 + 4 bytes LE) is read back -/
theorem zmItemLength_zmLen_field (l : Nat) (rest : Bytes) (h : l < 2 ^ 32) :
    zmItemLength false (zmLen l ++ rest) = some ((some l, 0), rest) := by
  unfold zmLen
  by_cases hs : l < 254
  · have hb : (UInt8.ofNat l).toNat = l := u8_toNat _ (by omega)
    have n2 : UInt8.ofNat l ≠ 254 := u8_ne _ _ (by omega) (by simp; omega)
    have n3 : UInt8.ofNat l ≠ 255 := u8_ne _ _ (by omega) (by simp; omega)
    simp [hs, zmItemLength, n2, n3, hb]
  · simp only [hs, if_false, List.cons_append, zmItemLength,
      show ((254 : UInt8) = 255) = False by decide, if_true]
    rw [readN_append' 4 _ _ (leN_length 4 _)]
    simp only [ofLE_leN' 4 l (by simpa using h)]
    simp

theorem zmItemLength_zmLen_value (l free : Nat) (rest : Bytes) (h : l < 2 ^ 32) (hf : free < 256) :
    zmItemLength true (zmLen l ++ UInt8.ofNat free :: rest) = some ((some l, free), rest) := by
  have hfb : (UInt8.ofNat free).toNat = free := u8_toNat _ hf
  unfold zmLen
  by_cases hs : l < 254
  · have hb : (UInt8.ofNat l).toNat = l := u8_toNat _ (by omega)
    have n2 : UInt8.ofNat l ≠ 254 := u8_ne _ _ (by omega) (by simp; omega)
    have n3 : UInt8.ofNat l ≠ 255 := u8_ne _ _ (by omega) (by simp; omega)
    simp [hs, zmItemLength, n2, n3, hb, hfb]
  · simp only [hs, if_false, List.cons_append, zmItemLength,
      show ((254 : UInt8) = 255) = False by decide, if_true]
    rw [readN_append' 4 _ _ (leN_length 4 _)]
    simp only [ofLE_leN' 4 l (by simpa using h)]
    simp [hfb]

theorem zmItem_field (f rest : Bytes) (h : f.length < 2 ^ 32) :
    zmItem false (zmLen f.length ++ (f ++ rest)) = some (f, rest) := by
  simp only [zmItem, zmItemLength_zmLen_field f.length _ h]
  rw [readN_append]
  simp

theorem zmItem_value (v rest : Bytes) (free : Nat) (h : v.length < 2 ^ 32) (hf : free < 256) :
    zmItem true (zmLen v.length ++ UInt8.ofNat free :: (v ++ (List.replicate free 0 ++ rest))) =
      some (v, rest) := by
  simp only [zmItem, zmItemLength_zmLen_value v.length free _ h hf]
  rw [readN_append]
  simp only
  rw [List.drop_left' (by simp)]

theorem zmPairs_blob (items : List (Bytes × Bytes × Nat)) (rest : Bytes)
    (h : ∀ i ∈ items, i.1.length < 2 ^ 32 ∧ i.2.1.length < 2 ^ 32 ∧ i.2.2 < 256) :
    zmPairs items.length (items.flatMap zipmapItem ++ rest) = some (items.map (fun i => (i.1, i.2.1))) := by
  induction items with
  | nil => simp [zmPairs]
  | cons i items ih =>
    obtain ⟨h1, h2, h3⟩ := h i (List.mem_cons_self ..)
    simp only [List.length_cons, List.flatMap_cons, zmPairs, zipmapItem, List.append_assoc, List.cons_append]
    rw [zmItem_field i.1 _ h1]
    simp only
    rw [zmItem_value i.2.1 _ i.2.2 h2 h3]
    simp only
    rw [ih (fun x hx => h x (List.mem_cons_of_mem _ hx))]
    rfl

/-- the counting walk over a well-formed map sees two items per pair -/
theorem zmCount_blob (items : List (Bytes × Bytes × Nat)) (rest : Bytes) (fuel n : Nat)
    (h : ∀ i ∈ items, i.1.length < 2 ^ 32 ∧ i.2.1.length < 2 ^ 32 ∧ i.2.2 < 256)
    (hn : n % 2 = 0) (hfuel : 2 * items.length < fuel) :
    zmCount fuel n (items.flatMap zipmapItem ++ 0xFF :: rest) = some (n + 2 * items.length) := by
  induction items generalizing fuel n with
  | nil =>
    obtain ⟨fuel, rfl⟩ : ∃ k, fuel = k + 1 := ⟨fuel - 1, by simp at hfuel; omega⟩
    simp [zmCount, zmItemLength]
  | cons i items ih =>
    obtain ⟨h1, h2, h3⟩ := h i (List.mem_cons_self ..)
    simp only [List.length_cons] at hfuel
    obtain ⟨fuel, rfl⟩ : ∃ k, fuel = k + 2 := ⟨fuel - 2, by omega⟩
    have hn1 : (n % 2 != 0) = false := by simp [hn]
    have hn2 : ((n + 1) % 2 != 0) = true := by
      have : (n + 1) % 2 = 1 := by omega
      simp [this]
    simp only [List.flatMap_cons, zipmapItem, List.append_assoc, List.cons_append]
    rw [zmCount, hn1, zmItemLength_zmLen_field _ _ h1]
    simp only [Nat.add_zero]
    rw [List.drop_left' rfl]
    rw [zmCount, hn2, zmItemLength_zmLen_value _ _ _ h2 h3]
    simp only
    have hd : ∀ (tl : Bytes), List.drop (i.2.1.length + i.2.2) (i.2.1 ++ (List.replicate i.2.2 0 ++ tl)) = tl := by
      intro tl
      rw [← List.append_assoc]
      exact List.drop_left' (by simp)
    rw [hd]
    rw [ih fuel (n + 1 + 1) (fun x hx => h x (List.mem_cons_of_mem _ hx)) (by omega) (by omega)]
    simp only [List.length_cons]
    congr 1
    omega

theorem zipmapItem_length_ge (i : Bytes × Bytes × Nat) : 3 ≤ (zipmapItem i).length := by
  unfold zipmapItem zmLen
  split <;> split <;> simp <;> omega

theorem flatMap_zipmapItem_length_ge (items : List (Bytes × Bytes × Nat)) :
    3 * items.length ≤ (items.flatMap zipmapItem).length := by
  induction items with
  | nil => simp
  | cons i items ih =>
    have := zipmapItem_length_ge i
    simp only [List.flatMap_cons, List.length_append, List.length_cons]
    omega

/-- a zipmap of ANY number of pairs, with items of any length below 2^32, decodes
    to its pairs (`<zmlen>` exact below 254 pairs, else the counting walk) -/
theorem zipmapAll_blob (items : List (Bytes × Bytes × Nat))
    (h : ∀ i ∈ items, i.1.length < 2 ^ 32 ∧ i.2.1.length < 2 ^ 32 ∧ i.2.2 < 256) :
    zipmapAll (zipmapBlob items) = some (items.map (fun i => (i.1, i.2.1))) := by
  unfold zipmapAll zipmapBlob
  simp only
  by_cases hl : items.length < 254
  · simp only [hl, if_true]
    rw [u8_toNat items.length (by omega)]
    have : ¬ items.length ≥ 254 := by omega
    simp only [this, if_false]
    exact zmPairs_blob items [0xFF] h
  · simp only [hl, if_false]
    have : (UInt8.ofNat 254).toNat ≥ 254 := by decide
    simp only [this, if_true]
    have hlen := flatMap_zipmapItem_length_ge items
    rw [zmCount_blob items [] _ 0 h rfl (by simp only [List.length_cons, List.length_append]; omega)]
    have h2 : (0 + 2 * items.length) % 2 = 0 := by omega
    have h3 : (0 + 2 * items.length) / 2 = items.length := by omega
    simp only [h2, h3, ne_eq, not_true_eq_false, if_false]
    exact zmPairs_blob items [0xFF] h

end GunYu.Rdb
