/-
  Helper lemmas for C03 (streams): the replay ORACLE on the commands a stream is
  expanded into. XADD with explicit ids builds the entries, XSETID sets last id
  and counters, XGROUP CREATE appends a group, XCLAIM … JUSTID FORCE appends a
  pending entry to that group; replayed into a keyspace that does not hold the
  key, `StreamE.cmds` leaves exactly `StreamE.xval` (`stream_cmds_apply`).
-/
import GunYu.Proofs.Rdb.StreamId
import GunYu.Proofs.Rdb.Sem

namespace GunYu.RedisSem
open GunYu GunYu.Rdb

/-! ## single commands -/

theorem mapM_argBytes (l : List Bytes) : (l.map Arg.b).mapM argBytes = some l := by
  induction l with
  | nil => rfl
  | cons a l ih => simp [List.mapM_cons, ih, argBytes]

theorem lower_XADD : lower b!"XADD" = b!"xadd" := by decide
theorem lower_XSETID : lower b!"XSETID" = b!"xsetid" := by decide
theorem lower_XGROUP : lower b!"XGROUP" = b!"xgroup" := by decide
theorem lower_XCLAIM : lower b!"XCLAIM" = b!"xclaim" := by decide

theorem apply_xadd (ks : Keyspace) (k id f v : Bytes) (r : List Bytes) (hm : id ≠ b!"MAXLEN") :
    applyXCmd ks (cmdB b!"XADD" (k :: id :: f :: v :: r)) = doXadd ks k false id ((f :: v :: r).map Arg.b) := by
  simp [applyXCmd, applyCmd, cmdB, lower_XADD, argBytes, hm]

/-- a field/value list XADD accepts: at least one pair -/
def fvOk (fv : List Bytes) : Prop := 2 ≤ fv.length ∧ fv.length % 2 = 0

theorem fvOk_shape {fv : List Bytes} (h : fvOk fv) : ∃ f v r, fv = f :: v :: r := by
  obtain ⟨h2, _⟩ := h
  match fv, h2 with
  | f :: v :: r, _ => exact ⟨f, v, r, rfl⟩

/-- the first XADD creates the stream -/
theorem xadd_create (ks : Keyspace) (k : Bytes) (a : Nat × Nat) (fv : List Bytes) (hfv : fvOk fv)
    (hfr : get ks k = none) (hpos : idLtN (0, 0) a = true) :
    applyXCmd ks (cmdB b!"XADD" (k :: fmtId a.1 a.2 :: fv)) =
      some (ks ++ [(k, .stream { entries := [⟨fmtId a.1 a.2, fv⟩], lastId := fmtId a.1 a.2 }, 0)]) := by
  obtain ⟨f, v, r, rfl⟩ := fvOk_shape hfv
  rw [apply_xadd ks k _ f v r (fmtId_ne_maxlen _ _)]
  obtain ⟨_, hev⟩ := hfv
  have hne : ¬ ((f :: v :: r).length % 2 ≠ 0) := by omega
  simp only [doXadd, mapM_argBytes, List.isEmpty_cons, Bool.false_or, hne, decide_false, Bool.false_eq_true, if_false, hfr,
    idLt_zero, hpos, if_true]
  rw [put_new ks k _ _ hfr]

/-- a further XADD with a greater id appends an entry -/
theorem xadd_append (ks : Keyspace) (k : Bytes) (st : XStream) (t : Nat) (last a : Nat × Nat) (fv : List Bytes)
    (hfv : fvOk fv) (hfr : get ks k = none) (hlast : st.lastId = fmtId last.1 last.2) (hlt : idLtN last a = true) :
    applyXCmd (ks ++ [(k, .stream st, t)]) (cmdB b!"XADD" (k :: fmtId a.1 a.2 :: fv)) =
      some (ks ++ [(k, .stream { st with entries := st.entries ++ [⟨fmtId a.1 a.2, fv⟩], lastId := fmtId a.1 a.2 }, t)]) := by
  obtain ⟨f, v, r, rfl⟩ := fvOk_shape hfv
  rw [apply_xadd _ k _ f v r (fmtId_ne_maxlen _ _)]
  obtain ⟨_, hev⟩ := hfv
  have hne : ¬ ((f :: v :: r).length % 2 ≠ 0) := by omega
  simp only [doXadd, mapM_argBytes, List.isEmpty_cons, Bool.false_or, hne, decide_false, Bool.false_eq_true, if_false,
    get_frame ks k _ _ hfr, hlast, idLt_fmtId, hlt, if_true, put_frame ks k _ _ _ _ hfr]

/-- the `MAXLEN 0` trick creates an empty stream -/
theorem xadd_empty (ks : Keyspace) (k : Bytes) (hfr : get ks k = none) :
    applyXCmd ks (cmdB b!"XADD" [k, b!"MAXLEN", b!"0", b!"0-1", b!"x", b!"y"]) =
      some (ks ++ [(k, .stream { entries := [], lastId := b!"0-1" }, 0)]) := by
  have h1 : idLt b!"0-0" b!"0-1" = true := by decide
  simp [applyXCmd, applyCmd, cmdB, lower_XADD, argBytes, doXadd, List.mapM_cons, hfr, h1, put_new ks k _ _ hfr]

/-! ### argument checks of the faithful oracle -/

theorem validId_fmtId (a b : Nat) (ha : a < 2 ^ 64) (hb : b < 2 ^ 64) : validId (fmtId a b) = true := by
  simp [validId, splitId_fmtId, ha, hb]

theorem int63_natToDec (n : Nat) (h : n < 2 ^ 63) : int63? (natToDec n) = some n := by
  simp [int63?, decToNat_natToDec, h]

theorem natToDec_one : natToDec 1 = b!"1" := by decide

theorem validEntriesRead_signed (u : Nat) (hu : u < 2 ^ 64) (h : -1 ≤ toSigned 64 u) :
    validEntriesRead (intToDec (toSigned 64 u)) = true := by
  unfold toSigned at h ⊢
  by_cases hs : u < 2 ^ (64 - 1)
  · simp only [hs, if_true] at h ⊢
    have hn : ¬ ((u : Int) < 0) := by omega
    have h63 : u < 2 ^ 63 := hs
    simp [validEntriesRead, intToDec, hn, int63_natToDec u h63]
  · simp only [hs, if_false] at h ⊢
    have hp : ((2 ^ 64 : Nat) : Int) = 18446744073709551616 := by decide
    have hu' : (u : Int) < 18446744073709551616 := by
      have : (u : Int) < ((2 ^ 64 : Nat) : Int) := by exact_mod_cast hu
      omega
    have hv : (u : Int) - ((2 ^ 64 : Nat) : Int) = -1 := by omega
    rw [hv]
    decide

/-- the ids of the entries a stream state holds -/
def topOkFor (entries : List XEntry) (id : Bytes) : Bool :=
  match entries.getLast? with
  | some e => !idLt id e.id
  | none => true

theorem xsetid_plain (ks : Keyspace) (k id : Bytes) (st : XStream) (t : Nat) (hfr : get ks k = none)
    (hid : validId id = true) (htop : topOkFor st.entries id = true) :
    applyXCmd (ks ++ [(k, .stream st, t)]) (cmdB b!"XSETID" [k, id]) =
      some (ks ++ [(k, .stream { st with lastId := id }, t)]) := by
  unfold topOkFor at htop
  simp [applyXCmd, applyCmd, cmdB, lower_XSETID, argBytes, doXsetid, get_frame ks k _ _ hfr,
    put_frame ks k _ _ _ _ hfr, hid]
  exact htop

theorem lower_ENTRIESADDED : lower b!"ENTRIESADDED" = b!"entriesadded" := by decide
theorem lower_MAXDELETEDID : lower b!"MAXDELETEDID" = b!"maxdeletedid" := by decide

theorem xsetid_full (ks : Keyspace) (k id mid : Bytes) (v : Nat) (st : XStream) (t : Nat) (hfr : get ks k = none)
    (hid : validId id = true) (hmid : validId mid = true) (hle : idLt id mid = false)
    (htop : topOkFor st.entries id = true) (hv : v < 2 ^ 63) (hlen : st.entries.length ≤ v)
    (hmd : st.maxDeleted = none) :
    applyXCmd (ks ++ [(k, .stream st, t)])
        (cmdB b!"XSETID" [k, id, b!"ENTRIESADDED", natToDec v, b!"MAXDELETEDID", mid]) =
      some (ks ++ [(k, .stream { st with lastId := id, entriesAdded := some (natToDec v), maxDeleted := some mid }, t)]) := by
  unfold topOkFor at htop
  simp [applyXCmd, applyCmd, cmdB, lower_XSETID, argBytes, doXsetid, get_frame ks k _ _ hfr,
    put_frame ks k _ _ _ _ hfr, hid, hmid, hle, int63_natToDec v hv, hlen, hmd,
    lower_ENTRIESADDED, lower_MAXDELETEDID]
  exact htop

/-- the option words of XGROUP CREATE for an entries-read counter -/
def erArgs : Option Bytes → List Bytes
  | some n => [b!"ENTRIESREAD", n]
  | none => []

theorem lower_CREATE : lower b!"CREATE" = b!"create" := by decide
theorem lower_CREATECONSUMER : lower b!"CREATECONSUMER" = b!"createconsumer" := by decide
theorem lower_ENTRIESREAD : lower b!"ENTRIESREAD" = b!"entriesread" := by decide

theorem xgroup_create (ks : Keyspace) (k g id : Bytes) (er : Option Bytes) (st : XStream) (t : Nat)
    (hfr : get ks k = none) (hnew : ∀ x ∈ st.groups, x.name ≠ g) (hid : validId id = true)
    (her : ∀ n, er = some n → validEntriesRead n = true) :
    applyXCmd (ks ++ [(k, .stream st, t)]) (cmdB b!"XGROUP" ([b!"CREATE", k, g, id] ++ erArgs er)) =
      some (ks ++ [(k, .stream { st with groups := st.groups ++ [⟨g, id, er, [], []⟩] }, t)]) := by
  have hany : st.groups.any (fun x => x.name == g) = false := by
    rw [List.any_eq_false]
    intro x hx
    simpa using hnew x hx
  cases er with
  | none =>
    simp [applyXCmd, cmdB, lower_XGROUP, erArgs, get_frame ks k _ _ hfr, put_frame ks k _ _ _ _ hfr, hany,
      lower_CREATE, hid]
  | some n =>
    simp [applyXCmd, cmdB, lower_XGROUP, erArgs, get_frame ks k _ _ hfr, put_frame ks k _ _ _ _ hfr, hany,
      lower_CREATE, lower_ENTRIESREAD, hid, her n rfl]

/-- add a consumer name unless the group knows it -/
def addC (cs : List Bytes) (c : Bytes) : List Bytes := if cs.contains c then cs else cs ++ [c]

theorem addC_idem (cs : List Bytes) (c : Bytes) : addC (addC cs c) c = addC cs c := by
  by_cases h : c ∈ cs <;> simp [addC, h]

theorem xgroup_createconsumer (ks : Keyspace) (k g cn : Bytes) (st : XStream) (t : Nat)
    (hfr : get ks k = none) (hex : st.groups.any (fun x => x.name == g) = true) :
    applyXCmd (ks ++ [(k, .stream st, t)]) (cmdB b!"XGROUP" [b!"CREATECONSUMER", k, g, cn]) =
      some (ks ++ [(k, .stream { st with groups := st.groups.map (fun x =>
        if x.name == g then { x with consumers := addC x.consumers cn } else x) }, t)]) := by
  simp [applyXCmd, cmdB, lower_XGROUP, lower_CREATECONSUMER, get_frame ks k _ _ hfr, put_frame ks k _ _ _ _ hfr,
    hex, addC]

/-- the XCLAIM the tool emits for one pending entry -/
def claimCmd (k g : Bytes) (n : XNack) : Cmd :=
  cmdB b!"XCLAIM" [k, g, n.consumer, b!"0", n.id, b!"TIME", n.time, b!"RETRYCOUNT", n.count, b!"JUSTID", b!"FORCE"]

/-- the arguments of a claim the target accepts -/
def nackOk (n : XNack) : Prop :=
  validId n.id = true ∧ (int63? n.time).isSome = true ∧ (int63? n.count).isSome = true

theorem lower_TIME : lower b!"TIME" = b!"time" := by decide
theorem lower_RETRYCOUNT : lower b!"RETRYCOUNT" = b!"retrycount" := by decide
theorem lower_JUSTID : lower b!"JUSTID" = b!"justid" := by decide
theorem lower_FORCE : lower b!"FORCE" = b!"force" := by decide

theorem xclaim_apply (ks : Keyspace) (k g : Bytes) (n : XNack) (st : XStream) (t : Nat)
    (hfr : get ks k = none) (hex : st.groups.any (fun x => x.name == g) = true) (hn : nackOk n) :
    applyXCmd (ks ++ [(k, .stream st, t)]) (claimCmd k g n) =
      some (ks ++ [(k, .stream { st with groups := st.groups.map (fun x =>
        if x.name == g then
          (if st.entries.any (fun e => e.id == n.id) then
            { x with pel := (x.pel.filter (fun m => !(m.id == n.id))) ++ [⟨n.id, n.consumer, n.time, n.count⟩],
                     consumers := addC x.consumers n.consumer }
           else { x with pel := x.pel.filter (fun m => !(m.id == n.id)) })
        else x) }, t)]) := by
  obtain ⟨h1, h2, h3⟩ := hn
  have h2' : (int63? n.time).isNone = false := by cases h : int63? n.time <;> simp_all
  have h3' : (int63? n.count).isNone = false := by cases h : int63? n.count <;> simp_all
  simp [applyXCmd, claimCmd, cmdB, lower_XCLAIM, get_frame ks k _ _ hfr, put_frame ks k _ _ _ _ hfr, hex,
    lower_TIME, lower_RETRYCOUNT, lower_JUSTID, lower_FORCE, h1, h2', h3', addC]

/-! ## folds -/

/-- stream entries as ((ms, seq), field/value list) -/
abbrev LiveT := List ((Nat × Nat) × List Bytes)

def xaddCmds (k : Bytes) (es : LiveT) : List Cmd :=
  es.map (fun e => cmdB b!"XADD" (k :: fmtId e.1.1 e.1.2 :: e.2))

def toX (es : LiveT) : List XEntry := es.map (fun e => (⟨fmtId e.1.1 e.1.2, e.2⟩ : XEntry))

theorem xadd_fold (ks : Keyspace) (k : Bytes) (hfr : get ks k = none) (t : Nat) :
    ∀ (es : LiveT) (st : XStream) (last : Nat × Nat), st.lastId = fmtId last.1 last.2 →
      increasingN (last :: es.map (·.1)) = true → (∀ e ∈ es, fvOk e.2) →
      ∃ lid, applyCmds (ks ++ [(k, .stream st, t)]) (xaddCmds k es) =
        some (ks ++ [(k, .stream { st with entries := st.entries ++ toX es, lastId := lid }, t)]) := by
  intro es
  induction es with
  | nil =>
    intro st last _ _ _
    refine ⟨st.lastId, ?_⟩
    cases st
    simp [xaddCmds, toX, applyCmds]
  | cons e es ih =>
    intro st last hlast hinc hfv
    simp only [List.map_cons, increasingN, Bool.and_eq_true] at hinc
    obtain ⟨h1, h2⟩ := hinc
    have hstep := xadd_append ks k st t last e.1 e.2 (hfv e (List.mem_cons_self ..)) hfr hlast h1
    obtain ⟨lid, hrest⟩ := ih { st with entries := st.entries ++ [⟨fmtId e.1.1 e.1.2, e.2⟩], lastId := fmtId e.1.1 e.1.2 }
      e.1 rfl h2 (fun x hx => hfv x (List.mem_cons_of_mem _ hx))
    refine ⟨lid, ?_⟩
    simp only [xaddCmds, List.map_cons, applyCmds, hstep]
    simp only [xaddCmds] at hrest
    rw [hrest]
    simp [toX]

/-- phase 1: the XADDs (or the `MAXLEN 0` trick) create the stream with its entries -/
theorem xadd_all (ks : Keyspace) (k : Bytes) (hfr : get ks k = none) (es : LiveT) (len : Nat)
    (hlen : len = es.length) (hinc : increasingN ((0, 0) :: es.map (·.1)) = true) (hfv : ∀ e ∈ es, fvOk e.2) :
    ∃ lid, applyCmds ks (xaddCmds k es ++
        (if len = 0 then [cmdB b!"XADD" [k, b!"MAXLEN", b!"0", b!"0-1", b!"x", b!"y"]] else [])) =
      some (ks ++ [(k, .stream { entries := toX es, lastId := lid }, 0)]) := by
  cases es with
  | nil =>
    subst hlen
    refine ⟨b!"0-1", ?_⟩
    simp [xaddCmds, toX, applyCmds, xadd_empty ks k hfr]
  | cons e es =>
    have hl : ¬ (len = 0) := by rw [hlen]; simp
    simp only [hl, if_false, List.append_nil]
    simp only [List.map_cons, increasingN, Bool.and_eq_true] at hinc
    obtain ⟨h1, h2⟩ := hinc
    have hstep := xadd_create ks k e.1 e.2 (hfv e (List.mem_cons_self ..)) hfr h1
    obtain ⟨lid, hrest⟩ := xadd_fold ks k hfr 0 es { entries := [⟨fmtId e.1.1 e.1.2, e.2⟩], lastId := fmtId e.1.1 e.1.2 }
      e.1 rfl h2 (fun x hx => hfv x (List.mem_cons_of_mem _ hx))
    refine ⟨lid, ?_⟩
    simp only [xaddCmds, List.map_cons, applyCmds, hstep]
    simp only [xaddCmds] at hrest
    rw [hrest]
    simp [toX]

/-- the stream with its groups replaced -/
abbrev withGroups (st : XStream) (gs : List XGroup) : XStream := { st with groups := gs }

/-- the last group of the stream so far: `G` are the groups before it -/
def lastGroup (G : List XGroup) (gn gid : Bytes) (ger : Option Bytes) (pel : List XNack) (cons : List Bytes) :
    List XGroup := G ++ [⟨gn, gid, ger, pel, cons⟩]

theorem map_lastGroup (G : List XGroup) (gn gid : Bytes) (ger : Option Bytes) (pel : List XNack) (cons : List Bytes)
    (f : XGroup → XGroup) (hG : ∀ x ∈ G, x.name ≠ gn) :
    (lastGroup G gn gid ger pel cons).map (fun x => if x.name == gn then f x else x) =
      G ++ [f ⟨gn, gid, ger, pel, cons⟩] := by
  unfold lastGroup
  rw [List.map_append]
  congr 1
  · apply map_id_of_mem
    intro x hx
    have := hG x hx
    simp [this]
  · simp

def liveIn (E : List XEntry) (n : XNack) : Bool := E.any (fun e => e.id == n.id)

/-- the XCLAIMs of one consumer `cn` on the last group: a claim whose id is an entry of the
    stream appends a pending entry (and makes the consumer known), a claim for an id that is
    NOT an entry of the stream changes nothing -/
theorem claims_fold (ks : Keyspace) (k : Bytes) (hfr : get ks k = none) (t : Nat) (gn gid : Bytes) (ger : Option Bytes)
    (G : List XGroup) (hG : ∀ x ∈ G, x.name ≠ gn) (cn : Bytes) :
    ∀ (ns : List XNack) (st : XStream) (pel0 : List XNack) (cons0 : List Bytes),
      st.groups = lastGroup G gn gid ger pel0 cons0 →
      (∀ n ∈ ns, n.consumer = cn ∧ nackOk n) → ((pel0 ++ ns).map (·.id)).Nodup →
      applyCmds (ks ++ [(k, .stream st, t)]) (ns.map (claimCmd k gn)) =
        some (ks ++ [(k, .stream (withGroups st (lastGroup G gn gid ger
          (pel0 ++ ns.filter (liveIn st.entries))
          (if ns.any (liveIn st.entries) then addC cons0 cn else cons0))), t)]) := by
  intro ns
  induction ns with
  | nil =>
    intro st pel0 cons0 hg _ _
    cases st
    simp_all [applyCmds]
  | cons n ns ih =>
    intro st pel0 cons0 hg hns hnd
    obtain ⟨hcn, hok⟩ := hns n (List.mem_cons_self ..)
    have hex : st.groups.any (fun x => x.name == gn) = true := by
      rw [hg]; simp [lastGroup]
    have hstep := xclaim_apply ks k gn n st t hfr hex hok
    have hfilter : pel0.filter (fun m => !(m.id == n.id)) = pel0 := by
      rw [List.filter_eq_self]
      intro m hm
      have hnd' : ((pel0.map (·.id)) ++ (n.id :: ns.map (·.id))).Nodup := by simpa using hnd
      have hdis := (List.nodup_append.mp hnd').2.2
      have := hdis m.id (List.mem_map.mpr ⟨m, hm, rfl⟩) n.id (List.mem_cons_self ..)
      simpa using this
    have hn : (⟨n.id, n.consumer, n.time, n.count⟩ : XNack) = n := by cases n; rfl
    have hn' : (⟨n.id, cn, n.time, n.count⟩ : XNack) = n := by rw [← hcn]
    simp only [List.map_cons, applyCmds, hstep]
    by_cases hl : st.entries.any (fun e => e.id == n.id) = true
    · -- the id is an entry of the stream: the pending entry is created
      have hgroups : st.groups.map (fun x => if x.name == gn then
          (if st.entries.any (fun e => e.id == n.id) then
            { x with pel := (x.pel.filter (fun m => !(m.id == n.id))) ++ [⟨n.id, n.consumer, n.time, n.count⟩],
                     consumers := addC x.consumers n.consumer }
           else { x with pel := x.pel.filter (fun m => !(m.id == n.id)) }) else x) =
          lastGroup G gn gid ger (pel0 ++ [n]) (addC cons0 cn) := by
        rw [hg, map_lastGroup G gn gid ger pel0 cons0 _ hG]
        simp [hl, hfilter, hn', hcn, lastGroup]
      rw [hgroups]
      have := ih { st with groups := lastGroup G gn gid ger (pel0 ++ [n]) (addC cons0 cn) } (pel0 ++ [n]) (addC cons0 cn)
        rfl (fun x hx => hns x (List.mem_cons_of_mem _ hx)) (by simpa [List.append_assoc] using hnd)
      rw [this]
      have hl2 : liveIn st.entries n = true := hl
      simp [hl2, List.filter_cons, List.append_assoc, addC_idem]
    · -- not an entry of the stream: nothing changes
      have hl' : st.entries.any (fun e => e.id == n.id) = false := by simpa using hl
      have hgroups : st.groups.map (fun x => if x.name == gn then
          (if st.entries.any (fun e => e.id == n.id) then
            { x with pel := (x.pel.filter (fun m => !(m.id == n.id))) ++ [⟨n.id, n.consumer, n.time, n.count⟩],
                     consumers := addC x.consumers n.consumer }
           else { x with pel := x.pel.filter (fun m => !(m.id == n.id)) }) else x) =
          lastGroup G gn gid ger pel0 cons0 := by
        rw [hg, map_lastGroup G gn gid ger pel0 cons0 _ hG]
        simp [hl', hfilter, lastGroup]
      rw [hgroups]
      have hnd2 : ((pel0 ++ ns).map (·.id)).Nodup := by
        have hnd' : ((pel0.map (·.id)) ++ (n.id :: ns.map (·.id))).Nodup := by simpa using hnd
        obtain ⟨h1, h2, h3⟩ := List.nodup_append.mp hnd'
        rw [List.map_append]
        exact List.nodup_append.mpr ⟨h1, (List.nodup_cons.mp h2).2, fun a ha b hb => h3 a ha b (List.mem_cons_of_mem _ hb)⟩
      have := ih { st with groups := lastGroup G gn gid ger pel0 cons0 } pel0 cons0
        rfl (fun x hx => hns x (List.mem_cons_of_mem _ hx)) hnd2
      rw [this]
      have hl3 : liveIn st.entries n = false := hl'
      simp [hl3, List.filter_cons]

/-- one consumer as the expansion describes it: name and the claims of its PEL -/
abbrev CSpec := Bytes × List XNack

/-- `XGROUP CREATECONSUMER` for an empty PEL (target ≥ 6.2: `cc`), else one XCLAIM per claim -/
def consumerCmds (cc : Bool) (k gn : Bytes) (c : CSpec) : List Cmd :=
  (if cc = true ∧ c.2.length = 0 then [cmdB b!"XGROUP" [b!"CREATECONSUMER", k, gn, c.1]] else []) ++
    c.2.map (claimCmd k gn)

/-- is the consumer known to the group after its commands? -/
def keeps (cc : Bool) (E : List XEntry) (c : CSpec) : Bool := (cc && c.2.isEmpty) || c.2.any (liveIn E)

theorem consumer_apply (ks : Keyspace) (k : Bytes) (hfr : get ks k = none) (t : Nat) (gn gid : Bytes) (ger : Option Bytes)
    (G : List XGroup) (hG : ∀ x ∈ G, x.name ≠ gn) (cc : Bool) (c : CSpec)
    (st : XStream) (pel0 : List XNack) (cons0 : List Bytes)
    (hg : st.groups = lastGroup G gn gid ger pel0 cons0)
    (hns : ∀ n ∈ c.2, n.consumer = c.1 ∧ nackOk n) (hnd : ((pel0 ++ c.2).map (·.id)).Nodup) :
    applyCmds (ks ++ [(k, .stream st, t)]) (consumerCmds cc k gn c) =
      some (ks ++ [(k, .stream (withGroups st (lastGroup G gn gid ger (pel0 ++ c.2.filter (liveIn st.entries))
        (if keeps cc st.entries c then addC cons0 c.1 else cons0))), t)]) := by
  obtain ⟨cn, ns⟩ := c
  cases ns with
  | nil =>
    cases cc with
    | false =>
      cases st
      simp_all [consumerCmds, applyCmds, keeps]
    | true =>
      have hex : st.groups.any (fun x => x.name == gn) = true := by rw [hg]; simp [lastGroup]
      have hgroups : st.groups.map (fun x => if x.name == gn then { x with consumers := addC x.consumers cn } else x) =
          lastGroup G gn gid ger pel0 (addC cons0 cn) := by
        rw [hg, map_lastGroup G gn gid ger pel0 cons0 _ hG]
        rfl
      simp only [beq_iff_eq] at hgroups
      simp [consumerCmds, applyCmds, xgroup_createconsumer ks k gn cn st t hfr hex, keeps]
      exact hgroups
  | cons n ns =>
    have := claims_fold ks k hfr t gn gid ger G hG cn (n :: ns) st pel0 cons0 hg hns hnd
    simpa [consumerCmds, keeps, liveIn] using this

/-- all consumers of the group, in order -/
theorem consumers_fold (ks : Keyspace) (k : Bytes) (hfr : get ks k = none) (t : Nat) (gn gid : Bytes) (ger : Option Bytes)
    (G : List XGroup) (hG : ∀ x ∈ G, x.name ≠ gn) (cc : Bool) :
    ∀ (cl : List CSpec) (st : XStream) (pel0 : List XNack) (cons0 : List Bytes),
      st.groups = lastGroup G gn gid ger pel0 cons0 →
      (∀ c ∈ cl, ∀ n ∈ c.2, n.consumer = c.1 ∧ nackOk n) →
      ((pel0 ++ cl.flatMap (·.2)).map (·.id)).Nodup → (cons0 ++ cl.map (·.1)).Nodup →
      applyCmds (ks ++ [(k, .stream st, t)]) (cl.flatMap (consumerCmds cc k gn)) =
        some (ks ++ [(k, .stream (withGroups st (lastGroup G gn gid ger
          (pel0 ++ cl.flatMap (fun c => c.2.filter (liveIn st.entries)))
          (cons0 ++ (cl.filter (keeps cc st.entries)).map (·.1)))), t)]) := by
  intro cl
  induction cl with
  | nil =>
    intro st pel0 cons0 hg _ _ _
    cases st
    simp_all [applyCmds]
  | cons c cl ih =>
    intro st pel0 cons0 hg hns hnd hcn
    have hnd1 : ((pel0 ++ c.2).map (·.id)).Nodup := by
      have : ((pel0 ++ c.2).map (·.id) ++ (cl.flatMap (·.2)).map (·.id)).Nodup := by
        simpa [List.flatMap_cons, List.append_assoc] using hnd
      exact (List.nodup_append.mp this).1
    have hstep := consumer_apply ks k hfr t gn gid ger G hG cc c st pel0 cons0 hg
      (hns c (List.mem_cons_self ..)) hnd1
    simp only [List.flatMap_cons, applyCmds_append, hstep, Option.bind_some]
    have hnew : cons0.contains c.1 = false := by
      have h' : (cons0 ++ (c.1 :: cl.map (·.1))).Nodup := by simpa using hcn
      have hdis := (List.nodup_append.mp h').2.2
      cases hc : cons0.contains c.1 with
      | false => rfl
      | true =>
        have hm : c.1 ∈ cons0 := by simpa using hc
        exact absurd rfl (hdis c.1 hm c.1 (List.mem_cons_self ..))
    have haddC : addC cons0 c.1 = cons0 ++ [c.1] := by
      have : ¬ c.1 ∈ cons0 := by simpa using hnew
      simp [addC, this]
    have hcn' : ∀ cs' : List Bytes, (cs' = cons0 ∨ cs' = cons0 ++ [c.1]) → (cs' ++ cl.map (·.1)).Nodup := by
      intro cs' h
      have h' : (cons0 ++ (c.1 :: cl.map (·.1))).Nodup := by simpa using hcn
      rcases h with rfl | rfl
      · obtain ⟨h1, h2, h3⟩ := List.nodup_append.mp h'
        exact List.nodup_append.mpr ⟨h1, (List.nodup_cons.mp h2).2, fun a ha b hb => h3 a ha b (List.mem_cons_of_mem _ hb)⟩
      · simpa [List.append_assoc] using h'
    by_cases hk : keeps cc st.entries c = true
    · simp only [hk, if_true, haddC]
      have := ih { st with groups := lastGroup G gn gid ger (pel0 ++ c.2.filter (liveIn st.entries)) (cons0 ++ [c.1]) }
        (pel0 ++ c.2.filter (liveIn st.entries)) (cons0 ++ [c.1]) rfl
        (fun x hx => hns x (List.mem_cons_of_mem _ hx))
        (by
          have h0 : ((pel0 ++ c.2 ++ cl.flatMap (·.2)).map (·.id)).Nodup := by
            simpa [List.flatMap_cons, List.append_assoc] using hnd
          refine List.Nodup.sublist ?_ h0
          apply List.Sublist.map
          exact List.Sublist.append (List.Sublist.append (List.Sublist.refl _) List.filter_sublist) (List.Sublist.refl _))
        (hcn' _ (Or.inr rfl))
      rw [this]
      simp [List.filter_cons, hk, List.append_assoc]
    · have hk' : keeps cc st.entries c = false := by simpa using hk
      simp only [hk', Bool.false_eq_true, if_false]
      have := ih { st with groups := lastGroup G gn gid ger (pel0 ++ c.2.filter (liveIn st.entries)) cons0 }
        (pel0 ++ c.2.filter (liveIn st.entries)) cons0 rfl
        (fun x hx => hns x (List.mem_cons_of_mem _ hx))
        (by
          have h0 : ((pel0 ++ c.2 ++ cl.flatMap (·.2)).map (·.id)).Nodup := by
            simpa [List.flatMap_cons, List.append_assoc] using hnd
          refine List.Nodup.sublist ?_ h0
          apply List.Sublist.map
          exact List.Sublist.append (List.Sublist.append (List.Sublist.refl _) List.filter_sublist) (List.Sublist.refl _))
        (hcn' _ (Or.inl rfl))
      rw [this]
      simp [List.filter_cons, hk', List.append_assoc]

/-- a group as the expansion describes it -/
structure GSpec where
  name : Bytes
  lastId : Bytes
  entriesRead : Option Bytes
  consumers : List CSpec

def GSpec.toX (cc : Bool) (E : List XEntry) (g : GSpec) : XGroup :=
  ⟨g.name, g.lastId, g.entriesRead, g.consumers.flatMap (fun c => c.2.filter (liveIn E)),
    (g.consumers.filter (keeps cc E)).map (·.1)⟩

/-- the commands that recreate one group -/
def groupCmds (cc : Bool) (k : Bytes) (g : GSpec) : List Cmd :=
  cmdB b!"XGROUP" ([b!"CREATE", k, g.name, g.lastId] ++ erArgs g.entriesRead) ::
    g.consumers.flatMap (consumerCmds cc k g.name)

def GSpec.ok (g : GSpec) : Prop :=
  validId g.lastId = true ∧ (∀ n, g.entriesRead = some n → validEntriesRead n = true) ∧
  (∀ c ∈ g.consumers, ∀ n ∈ c.2, n.consumer = c.1 ∧ nackOk n) ∧
  ((g.consumers.flatMap (·.2)).map (·.id)).Nodup ∧ (g.consumers.map (·.1)).Nodup

theorem group_apply (ks : Keyspace) (k : Bytes) (hfr : get ks k = none) (t : Nat) (cc : Bool) (g : GSpec) (st : XStream)
    (hnew : ∀ x ∈ st.groups, x.name ≠ g.name) (hok : g.ok) :
    applyCmds (ks ++ [(k, .stream st, t)]) (groupCmds cc k g) =
      some (ks ++ [(k, .stream { st with groups := st.groups ++ [g.toX cc st.entries] }, t)]) := by
  obtain ⟨h1, h2, h3, h4, h5⟩ := hok
  simp only [groupCmds, applyCmds, xgroup_create ks k g.name g.lastId g.entriesRead st t hfr hnew h1 h2]
  have := consumers_fold ks k hfr t g.name g.lastId g.entriesRead st.groups hnew cc g.consumers
    { st with groups := st.groups ++ [⟨g.name, g.lastId, g.entriesRead, [], []⟩] } [] [] rfl h3
    (by simpa using h4) (by simpa using h5)
  rw [this]
  simp [lastGroup, GSpec.toX]

/-- phase 3: all groups, in order -/
theorem groups_fold (ks : Keyspace) (k : Bytes) (hfr : get ks k = none) (t : Nat) (cc : Bool) :
    ∀ (gs : List GSpec) (st : XStream),
      (st.groups.map (·.name) ++ gs.map (·.name)).Nodup → (∀ g ∈ gs, g.ok) →
      applyCmds (ks ++ [(k, .stream st, t)]) (gs.flatMap (groupCmds cc k)) =
        some (ks ++ [(k, .stream { st with groups := st.groups ++ gs.map (GSpec.toX cc st.entries) }, t)]) := by
  intro gs
  induction gs with
  | nil =>
    intro st _ _
    cases st
    simp [applyCmds]
  | cons g gs ih =>
    intro st hnd hok
    have hnd' : (st.groups.map (·.name) ++ (g.name :: gs.map (·.name))).Nodup := by simpa using hnd
    have hnew : ∀ x ∈ st.groups, x.name ≠ g.name := by
      intro x hx
      exact (List.nodup_append.mp hnd').2.2 x.name (List.mem_map.mpr ⟨x, hx, rfl⟩) g.name (List.mem_cons_self ..)
    simp only [List.flatMap_cons, applyCmds_append,
      group_apply ks k hfr t cc g st hnew (hok g (List.mem_cons_self ..)), Option.bind_some]
    have := ih { st with groups := st.groups ++ [g.toX cc st.entries] }
      (by simpa [List.append_assoc, GSpec.toX] using hnd) (fun x hx => hok x (List.mem_cons_of_mem _ hx))
    rw [this]
    simp [List.append_assoc]

end GunYu.RedisSem

/-! ## the whole stream -/

namespace GunYu.Rdb
open GunYu GunYu.RedisSem

def SNodeE.liveT (n : SNodeE) : LiveT :=
  (n.entries.filter (fun e => !e.deleted)).map (fun e => (e.idN n.masterMs n.masterSeq, e.fieldVals n.masterFields))

def StreamE.liveT (s : StreamE) : LiveT := s.nodes.flatMap SNodeE.liveT

theorem live_liveT (n : SNodeE) : n.live = n.liveT.map (fun e => (fmtId e.1.1 e.1.2, e.2)) := by
  simp only [SNodeE.live, SNodeE.liveT, List.map_map]
  rfl

theorem cmds_xadds (s : StreamE) (k : Bytes) :
    s.nodes.flatMap (fun n => n.live.map (fun p => cmdB b!"XADD" (k :: p.1 :: p.2))) = xaddCmds k s.liveT := by
  simp only [xaddCmds, StreamE.liveT, List.map_flatMap, live_liveT, List.map_map]
  rfl

theorem entriesX_liveT (s : StreamE) : s.entriesX = toX s.liveT := by
  simp only [toX, StreamE.entriesX, StreamE.liveT, List.map_flatMap, live_liveT, List.map_map]
  rfl

theorem liveIds_liveT (s : StreamE) : s.liveT.map (·.1) = s.liveIds := by
  simp only [StreamE.liveIds, StreamE.liveT, SNodeE.liveT, List.map_flatMap, List.map_map]
  rfl

theorem pairs_length {α β} (l : List α) (f g : α → β) : (l.flatMap (fun p => [f p, g p])).length = 2 * l.length := by
  induction l with
  | nil => rfl
  | cons a l ih => simp only [List.flatMap_cons, List.length_append, ih, List.length_cons, List.length_nil]; omega

theorem liveT_fvOk (s : StreamE) (hn : ∀ n ∈ s.nodes, n.wf)
    (hf : ∀ n ∈ s.nodes, ∀ e ∈ n.entries, e.deleted = false →
      (e.same = true → n.masterFields ≠ []) ∧ (e.same = false → e.items ≠ [])) :
    ∀ e ∈ s.liveT, fvOk e.2 := by
  intro e he
  simp only [StreamE.liveT, SNodeE.liveT, List.mem_flatMap, List.mem_map, List.mem_filter] at he
  obtain ⟨n, hn', e0, ⟨he0, hlive⟩, rfl⟩ := he
  have hdel : e0.deleted = false := by simpa using hlive
  obtain ⟨_, _, _, _, _, hent⟩ := hn n hn'
  obtain ⟨h1, h2⟩ := hent e0 he0
  obtain ⟨g1, g2⟩ := hf n hn' e0 he0 hdel
  simp only [SEntryE.fieldVals, fvOk]
  cases hs : e0.same with
  | true =>
    have hlen := h2 hs
    have hne := g1 hs
    simp only [if_true, pairs_length, List.length_zip, hlen, Nat.min_self]
    have : 1 ≤ n.masterFields.length := by
      cases hm : n.masterFields with
      | nil => exact absurd hm hne
      | cons a l => simp
    omega
  | false =>
    have hev := h1 hs
    have hne := g2 hs
    simp only [Bool.false_eq_true, if_false, List.length_map]
    have : 1 ≤ e0.items.length := by
      cases hm : e0.items with
      | nil => exact absurd hm hne
      | cons a l => simp
    omega

/-- a consumer / a group of the description as the oracle lemmas see them -/
def SGroupE.cspec (g : SGroupE) (c : SConsumerE) : CSpec :=
  (c.name.val, c.pel.map (fun p =>
    (⟨fmtId p.1 p.2, c.name.val, natToDec (g.nack p.1 p.2).1, natToDec (g.nack p.1 p.2).2⟩ : XNack)))

def SGroupE.gspec (x : XCfg) (s : StreamE) (g : SGroupE) : GSpec :=
  ⟨g.name.val, fmtId g.lastMs g.lastSeq, if x.tgtMajor ≥ 7 then some (intToDec (g.read s)) else none,
    g.consumers.map g.cspec⟩

theorem group_cmds_eq (x : XCfg) (s : StreamE) (k : Bytes) (g : SGroupE) :
    SGroupE.cmds x s k g = groupCmds x.hasCreateConsumer k (g.gspec x s) := by
  simp only [SGroupE.cmds, groupCmds, SGroupE.gspec, List.flatMap_map, consumerCmds, SGroupE.cspec, List.map_map,
    List.length_map]
  congr 1
  · split <;> rfl

theorem flatMap_congrL {α β} (l : List α) (f g : α → List β) (h : ∀ a ∈ l, f a = g a) :
    l.flatMap f = l.flatMap g := by
  induction l with
  | nil => rfl
  | cons a l ih =>
    simp only [List.flatMap_cons]
    rw [h a (List.mem_cons_self ..), ih (fun x hx => h x (List.mem_cons_of_mem _ hx))]

theorem any_congrL {α} (l : List α) (f g : α → Bool) (h : ∀ a ∈ l, f a = g a) : l.any f = l.any g := by
  induction l with
  | nil => rfl
  | cons a l ih =>
    simp only [List.any_cons]
    rw [h a (List.mem_cons_self ..), ih (fun x hx => h x (List.mem_cons_of_mem _ hx))]

theorem liveIn_toX (s : StreamE) (p : Nat × Nat) (c t n : Bytes) :
    liveIn (toX s.liveT) ⟨fmtId p.1 p.2, c, t, n⟩ = s.isLive p := by
  unfold liveIn StreamE.isLive
  rw [← liveIds_liveT]
  simp only [toX, List.any_map, List.contains_eq_any_beq]
  apply any_congrL
  intro e _
  simp only [Function.comp]
  by_cases h : e.1 = p
  · subst h; simp
  · have : fmtId e.1.1 e.1.2 ≠ fmtId p.1 p.2 := fun he => h (by
      obtain ⟨h1, h2⟩ := fmtId_inj he
      exact Prod.ext h1 h2)
    have h' : ¬ (p = e.1) := fun q => h q.symm
    rw [beq_eq_false_iff_ne.mpr this, beq_eq_false_iff_ne.mpr h']

def nackOfP (g : SGroupE) (cn : Bytes) (p : Nat × Nat) : XNack :=
  ⟨fmtId p.1 p.2, cn, natToDec (g.nack p.1 p.2).1, natToDec (g.nack p.1 p.2).2⟩

theorem cspec_eq (g : SGroupE) (c : SConsumerE) : g.cspec c = (c.name.val, c.pel.map (nackOfP g c.name.val)) := rfl

theorem filter_cspec (s : StreamE) (g : SGroupE) (c : SConsumerE) :
    (g.cspec c).2.filter (liveIn (toX s.liveT)) = (c.pel.filter s.isLive).map (nackOfP g c.name.val) := by
  rw [cspec_eq]
  simp only [List.filter_map]
  congr 1
  apply List.filter_congr
  intro p _
  exact liveIn_toX s p _ _ _

theorem keeps_cspec (cc : Bool) (s : StreamE) (g : SGroupE) (c : SConsumerE) :
    keeps cc (toX s.liveT) (g.cspec c) = ((cc && c.pel.isEmpty) || c.pel.any s.isLive) := by
  rw [cspec_eq]
  unfold keeps
  have h1 : (c.pel.map (nackOfP g c.name.val)).isEmpty = c.pel.isEmpty := by cases c.pel <;> rfl
  have h2 : (c.pel.map (nackOfP g c.name.val)).any (liveIn (toX s.liveT)) = c.pel.any s.isLive := by
    rw [List.any_map]
    apply any_congrL
    intro p _
    exact liveIn_toX s p _ _ _
  simp only [h1, h2]

theorem gspec_toX (x : XCfg) (s : StreamE) (g : SGroupE) :
    (g.gspec x s).toX x.hasCreateConsumer (toX s.liveT) = g.xgroup x s := by
  have hp : (g.consumers.map g.cspec).flatMap (fun c => c.2.filter (liveIn (toX s.liveT))) = g.pelX s := by
    rw [List.flatMap_map]
    unfold SGroupE.pelX
    apply flatMap_congrL
    intro c _
    exact filter_cspec s g c
  have hc : ((g.consumers.map g.cspec).filter (keeps x.hasCreateConsumer (toX s.liveT))).map (·.1) =
      g.consumersIdeal x s := by
    unfold SGroupE.consumersIdeal
    rw [List.filter_map, List.map_map]
    have : (g.consumers.filter (keeps x.hasCreateConsumer (toX s.liveT) ∘ g.cspec)) =
        g.consumers.filter (fun c => (x.hasCreateConsumer && c.pel.isEmpty) || c.pel.any s.isLive) := by
      apply List.filter_congr
      intro c _
      exact keeps_cspec x.hasCreateConsumer s g c
    rw [this]
    rfl
  simp only [GSpec.toX, SGroupE.gspec, SGroupE.xgroup, hp, hc]

theorem estimate_lt (ea sl a b c d : Nat) (h : ea < 2 ^ 64) : estimateEntriesRead ea sl a b c d < 2 ^ 64 := by
  unfold estimateEntriesRead
  simp only
  have hp : (2 : Nat) ^ 64 - 1 < 2 ^ 64 := by decide
  split
  · omega
  · split
    · exact h
    · split
      · exact h
      · split
        · exact hp
        · split
          · omega
          · split
            · exact Nat.mod_lt _ (by decide)
            · exact hp

theorem nack_bounds (g : SGroupE) (ms seq : Nat) (ht : ∀ n ∈ g.pel, n.time < 2 ^ 63) (hc : ∀ n ∈ g.pel, n.count < 2 ^ 32) :
    (g.nack ms seq).1 < 2 ^ 63 ∧ (g.nack ms seq).2 < 2 ^ 63 := by
  unfold SGroupE.nack
  cases hf : g.pel.reverse.find? (fun n => n.ms == ms && n.seq == seq) with
  | none => exact ⟨by decide, by decide⟩
  | some n =>
    have hm : n ∈ g.pel := List.mem_reverse.mp (List.mem_of_find?_eq_some hf)
    have := hc n hm
    have h32 : (2 : Nat) ^ 32 < 2 ^ 63 := by decide
    exact ⟨ht n hm, by simp only; omega⟩

theorem gspec_ok (x : XCfg) (s : StreamE) (hwf : s.wf) (hs : s.sound) : ∀ g ∈ s.groups, (g.gspec x s).ok := by
  intro g hg
  obtain ⟨_, _, _, _, hlen, _, _, _, _, _, _, hea, hgw, _⟩ := hwf
  obtain ⟨_, _, _, _, _, _, _, _, hpel, _, hcnt⟩ := hs
  obtain ⟨_, _, _, _, hgc⟩ := hcnt
  obtain ⟨hread, htime, hnames⟩ := hgc g hg
  obtain ⟨_, hlm, hls, her, _, hpelw, hcw⟩ := hgw g hg
  refine ⟨validId_fmtId _ _ hlm hls, ?_, ?_, ?_, ?_⟩
  · intro n hn
    simp only [SGroupE.gspec] at hn
    split at hn
    · cases hn
      unfold SGroupE.read at hread ⊢
      apply validEntriesRead_signed _ _ hread
      split
      · exact her
      · exact estimate_lt _ _ _ _ _ _ hlen
    · cases hn
  · intro c hc n hn
    simp only [SGroupE.gspec, List.mem_map] at hc
    obtain ⟨c0, hc0, rfl⟩ := hc
    simp only [SGroupE.cspec, List.mem_map] at hn
    obtain ⟨p, hp, rfl⟩ := hn
    obtain ⟨_, _, _, hpp⟩ := hcw c0 hc0
    obtain ⟨b1, b2⟩ := nack_bounds g p.1 p.2 htime (fun m hm => (hpelw m hm).2.2.2)
    exact ⟨rfl, validId_fmtId _ _ (hpp p hp).1 (hpp p hp).2, by simp [int63_natToDec _ b1], by simp [int63_natToDec _ b2]⟩
  · have : ((g.gspec x s).consumers.flatMap (·.2)).map (·.id) =
        (g.consumers.flatMap (fun c => c.pel)).map (fun p => fmtId p.1 p.2) := by
      simp only [SGroupE.gspec, SGroupE.cspec, List.flatMap_map, List.map_flatMap, List.map_map]
      rfl
    rw [this]
    exact List.pairwise_map.mpr (List.Pairwise.imp (fun {a b} hne heq => hne (by
      obtain ⟨h1, h2⟩ := fmtId_inj heq
      exact Prod.ext h1 h2)) (hpel g hg))
  · simpa [SGroupE.gspec, SGroupE.cspec, List.map_map, Function.comp_def] using hnames

theorem topOk_toX (es : LiveT) (last : Nat × Nat) (h : ∀ i ∈ es.map (·.1), idLtN last i = false) :
    topOkFor (toX es) (fmtId last.1 last.2) = true := by
  unfold topOkFor
  cases hl : (toX es).getLast? with
  | none => rfl
  | some e =>
    have hm : e ∈ toX es := List.mem_of_getLast? hl
    simp only [toX, List.mem_map] at hm
    obtain ⟨e0, he0, rfl⟩ := hm
    have := h e0.1 (List.mem_map.mpr ⟨e0, he0, rfl⟩)
    simp [idLt_fmtId, this]

/-- **the oracle on a stream's expansion**: replayed into any keyspace that does not
    hold the key, the expected commands of a sound stream leave exactly its logical
    value (entries with ids, last id, counters, groups with last-delivered id,
    entries-read, the pending entries whose item is still in the stream, and consumers),
    without time to live, and every other key as it was -/
theorem stream_cmds_apply (ks : Keyspace) (k : Bytes) (x : XCfg) (s : StreamE)
    (hwf : s.wf) (hs : s.sound) (hfr : get ks k = none) :
    applyCmds ks (s.cmds x k) = some (ks ++ [(k, .stream (s.xval x), 0)]) := by
  have hgok := gspec_ok x s hwf hs
  have hn : ∀ n ∈ s.nodes, n.wf := hwf.2.2.2.1
  obtain ⟨_, _, _, _, _, hlm, hls, _, _, hdm, hds, _, _, _⟩ := hwf
  obtain ⟨_, _, _, _, hinc, hlen, hf, hgn, _, _, hcnt⟩ := hs
  obtain ⟨htop, hmd, ha63, hla, _⟩ := hcnt
  unfold StreamE.cmds
  rw [cmds_xadds]
  have hlen' : s.length = s.liveT.length := by rw [hlen, entriesX_liveT]; simp [toX]
  obtain ⟨lid, h1⟩ := xadd_all ks k hfr s.liveT s.length hlen' (by rw [liveIds_liveT]; exact hinc)
    (liveT_fvOk s hn hf)
  have hshape : ∀ (A B C D : List Cmd), A ++ B ++ C ++ D = (A ++ B) ++ (C ++ D) := by intros; simp
  rw [hshape, applyCmds_append, h1]
  simp only [Option.bind_some, applyCmds_append]
  have hgroups : s.groups.flatMap (SGroupE.cmds x s k) =
      (s.groups.map (SGroupE.gspec x s)).flatMap (groupCmds x.hasCreateConsumer k) := by
    rw [List.flatMap_map, show SGroupE.cmds x s k = fun g => groupCmds x.hasCreateConsumer k (g.gspec x s) from
      funext (group_cmds_eq x s k)]
  have hnames : (([] : List XGroup).map (·.name) ++ (s.groups.map (SGroupE.gspec x s)).map (·.name)).Nodup := by
    simpa [List.map_map, SGroupE.gspec, Function.comp_def] using hgn
  have hoks : ∀ g ∈ s.groups.map (SGroupE.gspec x s), g.ok := by
    intro g hg
    obtain ⟨g0, hg0, rfl⟩ := List.mem_map.mp hg
    exact hgok g0 hg0
  have htopX : topOkFor (toX s.liveT) (fmtId s.lastMs s.lastSeq) = true :=
    topOk_toX s.liveT (s.lastMs, s.lastSeq) (by rw [liveIds_liveT]; exact htop)
  have hxg : (s.groups.map (SGroupE.gspec x s)).map (GSpec.toX x.hasCreateConsumer (toX s.liveT)) =
      s.groups.map (SGroupE.xgroup x s) := by
    rw [List.map_map]
    apply List.map_congr_left
    intro g _
    exact gspec_toX x s g
  have hmdv : validId (fmtId s.maxDel.1 s.maxDel.2) = true := by
    unfold StreamE.maxDel
    split
    · exact validId_fmtId _ _ hdm hds
    · exact validId_fmtId _ _ (by decide) (by decide)
  by_cases h7 : x.tgtMajor ≥ 7
  · simp only [h7, if_true, List.cons_append, List.nil_append, applyCmds]
    rw [xsetid_full ks k _ _ s.added _ 0 hfr (validId_fmtId _ _ hlm hls) hmdv
      (by rw [idLt_fmtId (s.lastMs, s.lastSeq) s.maxDel]; exact hmd) htopX ha63
      (by simp only [toX, List.length_map]; omega) rfl]
    simp only [Option.bind_some]
    rw [hgroups]
    have := groups_fold ks k hfr 0 x.hasCreateConsumer (s.groups.map (SGroupE.gspec x s))
      { entries := toX s.liveT, lastId := fmtId s.lastMs s.lastSeq, entriesAdded := some (natToDec s.added),
        maxDeleted := some (fmtId s.maxDel.1 s.maxDel.2) } hnames hoks
    rw [this]
    simp [StreamE.xval, h7, entriesX_liveT, hxg]
  · simp only [h7, if_false, List.append_nil, applyCmds]
    rw [xsetid_plain ks k _ _ 0 hfr (validId_fmtId _ _ hlm hls) htopX]
    simp only [Option.bind_some]
    rw [hgroups]
    have := groups_fold ks k hfr 0 x.hasCreateConsumer (s.groups.map (SGroupE.gspec x s))
      { entries := toX s.liveT, lastId := fmtId s.lastMs s.lastSeq } hnames hoks
    rw [this]
    simp [StreamE.xval, h7, entriesX_liveT, hxg]

end GunYu.Rdb
