/-
  Helper lemmas for C03: length and string encodings round-trip
  (`readString (se.enc ++ rest) = some (se.val, rest)`).
-/
import GunYu.Model.Rdb.Str
import GunYu.Proofs.Rdb.Crc64

namespace GunYu.Rdb
open GunYu

theorem u8_toNat (n : Nat) (h : n < 256) : (UInt8.ofNat n).toNat = n := by
  rw [UInt8.toNat_ofNat']; omega

theorem u8_ne (n : Nat) (c : UInt8) (h : n < 256) (hne : n ≠ c.toNat) : UInt8.ofNat n ≠ c := by
  intro e
  have := congrArg UInt8.toNat e
  rw [u8_toNat n h] at this
  exact hne this

theorem readN_append (a r : Bytes) : readN a.length (a ++ r) = some (a, r) := by
  simp [readN]

theorem readN_append' (n : Nat) (a r : Bytes) (h : a.length = n) : readN n (a ++ r) = some (a, r) := by
  subst h; exact readN_append a r

theorem beN_length (k n : Nat) : (beN k n).length = k := by
  induction k with
  | zero => rfl
  | succ k ih => simp [beN, ih]

theorem foldl_beN (k n acc : Nat) :
    (beN k n).foldl (fun acc b => acc * 256 + b.toNat) acc = acc * 256 ^ k + n % 256 ^ k := by
  induction k generalizing acc with
  | zero => simp [beN, Nat.mod_one]
  | succ k ih =>
    simp only [beN, List.foldl_cons, ih]
    rw [u8_toNat _ (Nat.mod_lt _ (by decide))]
    rw [Nat.mod_pow_succ (b := 256) (k := k)]
    rw [Nat.add_mul, Nat.pow_succ, Nat.mul_assoc, Nat.mul_comm 256 (256 ^ k)]
    rw [Nat.mul_comm (n / 256 ^ k % 256) (256 ^ k)]
    omega

theorem ofBE_beN (k n : Nat) (h : n < 256 ^ k) : ofBE (beN k n) = n := by
  unfold ofBE
  rw [foldl_beN, Nat.mod_eq_of_lt h]; simp

theorem ofLE_leN' (k n : Nat) (h : n < 256 ^ k) : ofLE (leN k n) = n := by
  rw [ofLE_leN, Nat.mod_eq_of_lt h]

/-! ### lengths -/

theorem readEncodedLength_encLen (f : LenForm) (n : Nat) (rest : Bytes) (h : f.fits n) :
    readEncodedLength (encLen f n ++ rest) = some ((n, false), rest) := by
  cases f with
  | b6 =>
    have h : n < 64 := h
    simp only [encLen, List.cons_append, List.nil_append, readEncodedLength]
    rw [u8_toNat n (by omega)]
    have : n / 64 = 0 := by omega
    have : n % 64 = n := by omega
    simp [*]
  | b14 =>
    have h : n < 16384 := h
    simp only [encLen, List.cons_append, List.nil_append, readEncodedLength]
    rw [u8_toNat (64 + n / 256) (by omega), u8_toNat (n % 256) (by omega)]
    have h1 : (64 + n / 256) / 64 = 1 := by omega
    have h2 : (64 + n / 256) % 64 = n / 256 := by omega
    have h3 : n / 256 * 256 + n % 256 = n := by omega
    simp [h1, h2, h3]
  | b32 =>
    have h : n < 2 ^ 32 := h
    simp only [encLen, List.cons_append, readEncodedLength]
    have e : (0x80 : UInt8).toNat / 64 = 2 := by decide
    rw [e]
    simp only [show (2 : Nat) ≠ 0 by decide, show (2 : Nat) ≠ 1 by decide, show (2 : Nat) ≠ 3 by decide,
      if_false, if_true]
    rw [readN_append' 4 _ _ (beN_length 4 n)]
    simp only [ofBE_beN 4 n (by simpa using h)]
  | b64 =>
    have h : n < 2 ^ 64 := h
    simp only [encLen, List.cons_append, readEncodedLength]
    have e : (0x81 : UInt8).toNat / 64 = 2 := by decide
    rw [e]
    simp only [show (2 : Nat) ≠ 0 by decide, show (2 : Nat) ≠ 1 by decide, show (2 : Nat) ≠ 3 by decide,
      if_false, show ((0x81 : UInt8) = 0x80) = False by decide, if_true]
    rw [readN_append' 8 _ _ (beN_length 8 n)]
    simp only [ofBE_beN 8 n (by simpa using h)]

theorem readLength64_encLen (f : LenForm) (n : Nat) (rest : Bytes) (h : f.fits n) :
    readLength64 (encLen f n ++ rest) = some (n, rest) := by
  simp [readLength64, readEncodedLength_encLen f n rest h]

theorem readLength_encLen (f : LenForm) (n : Nat) (rest : Bytes) (h : f.fits n) (h32 : n < 2 ^ 32) :
    readLength (encLen f n ++ rest) = some (n, rest) := by
  simp [readLength, readEncodedLength_encLen f n rest h, Nat.mod_eq_of_lt h32]

theorem minForm_fits (n : Nat) (h : n < 2 ^ 64) : (minForm n).fits n := by
  unfold minForm
  split
  · assumption
  · split
    · assumption
    · split <;> simp [LenForm.fits, *]

/-! ### two's complement -/

theorem ofSigned_lt (bits : Nat) (v : Int) (hb : 0 < bits) (h : inSigned bits v) :
    ofSigned bits v < 2 ^ bits := by
  obtain ⟨h1, h2⟩ := h
  have hp : (2 : Nat) ^ bits = 2 * 2 ^ (bits - 1) := by
    have : bits = (bits - 1) + 1 := by omega
    rw [this, Nat.pow_succ]; simp; omega
  unfold ofSigned
  split
  · have : v.toNat < 2 ^ (bits - 1) := by omega
    omega
  · rw [hp]; omega

theorem toSigned_ofSigned (bits : Nat) (v : Int) (hb : 0 < bits) (h : inSigned bits v) :
    toSigned bits (ofSigned bits v) = v := by
  obtain ⟨h1, h2⟩ := h
  have hp : (2 : Nat) ^ bits = 2 * 2 ^ (bits - 1) := by
    have : bits = (bits - 1) + 1 := by omega
    rw [this, Nat.pow_succ]; simp; omega
  unfold ofSigned toSigned
  split
  · have : v.toNat < 2 ^ (bits - 1) := by omega
    simp [this]; omega
  · have hlt : ¬ (((2 ^ bits : Nat) : Int) + v).toNat < 2 ^ (bits - 1) := by rw [hp]; omega
    simp only [hlt, if_false]
    rw [hp]; omega

/-- signed integer of `k` bytes survives little-endian storage -/
theorem int_le_roundtrip (k : Nat) (v : Int) (hk : 0 < k) (h : inSigned (8 * k) v) :
    toSigned (8 * k) (ofLE (leN k (ofSigned (8 * k) v))) = v := by
  have hlt := ofSigned_lt (8 * k) v (by omega) h
  have : (256 : Nat) ^ k = 2 ^ (8 * k) := by
    rw [show (256 : Nat) = 2 ^ 8 by decide, ← Nat.pow_mul]
  rw [ofLE_leN' k _ (by rw [this]; exact hlt)]
  exact toSigned_ofSigned (8 * k) v (by omega) h

end GunYu.Rdb
