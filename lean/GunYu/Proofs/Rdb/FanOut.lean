/-
  Helper lemmas for C03: the keyed fan-out keeps, on every worker, the requests
  of the entries routed to it in snapshot order.
-/
import GunYu.Model.Rdb.Replay

namespace GunYu.Rdb
open GunYu

/-- the connection after the DB switch of `workerStep` -/
def afterSelect (cfg : RCfg) (w : Worker) (e : Entry) : Worker :=
  if e.db = -1 then w else
  if mapDb cfg e.db ≠ w.cur then
    { cur := mapDb cfg e.db, log := w.log ++ [cmdB b!"select" [intToDec (mapDb cfg e.db)]] } else w

theorem afterSelect_log (cfg : RCfg) (w : Worker) (e : Entry) :
    ∃ d, (afterSelect cfg w e).log = w.log ++ d := by
  unfold afterSelect
  split
  · exact ⟨[], by simp⟩
  · split
    · exact ⟨_, rfl⟩
    · exact ⟨[], by simp⟩

theorem workerStep_eq (cfg : RCfg) (w : Worker) (ex : Exists) (e : Entry) :
    workerStep cfg w ex e =
      if e.db ≠ -1 ∧ cfg.filterDb e.db then (w, ex, true) else
      if cfg.filterKey e.key then (afterSelect cfg w e, ex, true) else
      let r := replayEntry { cfg with now := cfg.now + cfg.tick * (afterSelect cfg w e).log.length }
        (afterSelect cfg w e).cur ex e
      ({ afterSelect cfg w e with log := (afterSelect cfg w e).log ++ r.1 }, r.2.1, r.2.2) := by
  unfold workerStep afterSelect
  rfl

/-- a worker only ever appends to its request log -/
theorem workerStep_log (cfg : RCfg) (w : Worker) (ex : Exists) (e : Entry) :
    ∃ d, (workerStep cfg w ex e).1.log = w.log ++ d := by
  rw [workerStep_eq]
  obtain ⟨d1, h1⟩ := afterSelect_log cfg w e
  split
  · exact ⟨[], by simp⟩
  · split
    · exact ⟨d1, h1⟩
    · simp only
      rw [h1]
      exact ⟨_, List.append_assoc _ _ _⟩

theorem workerStep_log_drop (cfg : RCfg) (w : Worker) (ex : Exists) (e : Entry) :
    (workerStep cfg w ex e).1.log = w.log ++ (workerStep cfg w ex e).1.log.drop w.log.length := by
  obtain ⟨d, hd⟩ := workerStep_log cfg w ex e
  rw [hd, List.drop_left]

theorem getD_set_eq (ws : List Worker) (i : Nat) (w : Worker) (h : i < ws.length) :
    (ws.set i w).getD i {} = w := by
  simp [List.getD, h]

theorem getD_set_ne (ws : List Worker) (i j : Nat) (w : Worker) (h : i ≠ j) :
    (ws.set i w).getD j {} = ws.getD j {} := by
  simp [List.getD, List.getElem?_set_ne h]

/-- every worker's log after the fan-out is its log before, followed by the
    request blocks of exactly the entries routed to it, in snapshot order -/
theorem fanOut_logs (cfg : RCfg) (es : List Entry) (idx : Nat) (ws : List Worker) (ex : Exists)
    (hn : 0 < ws.length) (j : Nat) (hj : j < ws.length) :
    ((fanOut cfg es idx ws ex).1.getD j {}).log =
      (ws.getD j {}).log ++ ((fanOutTrace cfg es idx ws ex).filter (fun p => p.1 == j)).flatMap (·.2) := by
  induction es generalizing idx ws ex with
  | nil => simp [fanOut, fanOutTrace]
  | cons e es ih =>
    have hlt : workerOf cfg ws.length e idx < ws.length := by
      unfold workerOf; split <;> exact Nat.mod_lt _ hn
    simp only [fanOut, fanOutTrace]
    generalize hi : workerOf cfg ws.length e idx = i at hlt ⊢
    have hdrop := workerStep_log_drop cfg (ws.getD i {}) ex e
    generalize hstep : workerStep cfg (ws.getD i {}) ex e = r at hdrop ⊢
    obtain ⟨w', ex', ok⟩ := r
    simp only at hdrop ⊢
    have hlen : (ws.set i w').length = ws.length := by simp
    cases ok with
    | true =>
      simp only [if_true]
      rw [ih i (ws.set i w') ex' (by rw [hlen]; exact hn) (by rw [hlen]; exact hj)]
      by_cases hij : i = j
      · subst hij
        rw [getD_set_eq ws i w' hlt]
        simp only [List.filter_cons, beq_self_eq_true, if_true, List.flatMap_cons]
        rw [← List.append_assoc, ← hdrop]
      · rw [getD_set_ne ws i j w' hij]
        have : (i == j) = false := by simp [hij]
        simp only [List.filter_cons, this, Bool.false_eq_true, if_false]
    | false =>
      simp only [Bool.false_eq_true, if_false]
      by_cases hij : i = j
      · subst hij
        rw [getD_set_eq ws i w' hlt]
        simp only [List.filter_cons, beq_self_eq_true, if_true, List.flatMap_cons, List.filter_nil,
          List.flatMap_nil, List.append_nil]
        exact hdrop
      · rw [getD_set_ne ws i j w' hij]
        have : (i == j) = false := by simp [hij]
        simp [this]

end GunYu.Rdb
