/-
  Helper lemmas for C03: the oracle's keyspace commands are LOCAL to their key —
  the reply and the new state of the key depend only on the key's old state, every
  other key is untouched — hence commands on different keys commute (up to the
  order of the key list) and respect key-wise equality of keyspaces.
-/
import GunYu.Proofs.Rdb.Sem

namespace GunYu.RedisSem
open GunYu GunYu.Rdb

/-! ## get / put / del -/

theorem get_cons (x : Bytes × Val × Nat) (ks : Keyspace) (k : Bytes) :
    get (x :: ks) k = if x.1 == k then some x.2 else get ks k := by
  unfold get
  rw [List.find?_cons]
  cases h : (x.1 == k) <;> simp

theorem get_map_upd (ks : Keyspace) (k k' : Bytes) (v : Val) (t : Nat) :
    get (ks.map (fun e => if e.1 == k then (k, v, t) else e)) k' =
      if k' = k then (if ks.any (fun e => e.1 == k) then some (v, t) else none) else get ks k' := by
  induction ks with
  | nil => by_cases h : k' = k <;> simp [get, h]
  | cons x ks ih =>
    rw [List.map_cons, get_cons, ih, get_cons, List.any_cons]
    by_cases hx : x.1 = k
    · have hb : (x.1 == k) = true := by simp [hx]
      simp only [hb, if_true, Bool.true_or]
      by_cases h : k' = k
      · subst h; simp
      · have : ((k == k') = true) = False := by simp; exact fun h' => h h'.symm
        simp only [this, if_false, h]
        have : ((x.1 == k') = true) = False := by simp [hx]; exact fun h' => h h'.symm
        simp only [this, if_false]
    · have hb : (x.1 == k) = false := by simp [hx]
      simp only [hb, Bool.false_eq_true, if_false, Bool.false_or]
      by_cases h : k' = k
      · subst h
        have : ((x.1 == k') = true) = False := by simp [hx]
        simp only [this, if_false, if_true]
      · simp only [h, if_false]

theorem get_put_same (ks : Keyspace) (k : Bytes) (v : Val) (t : Nat) : get (put ks k v t) k = some (v, t) := by
  unfold put
  split
  · rename_i h
    rw [get_map_upd]; simp [h]
  · rename_i h
    have h' : ks.any (fun e => e.1 == k) = false := by
      cases hh : ks.any (fun e => e.1 == k) with
      | false => rfl
      | true => exact absurd hh h
    have hg : get ks k = none := by
      unfold get
      rw [List.any_eq_false] at h'
      rw [List.find?_eq_none.mpr h']; rfl
    exact get_frame ks k v t hg

theorem get_put_other (ks : Keyspace) (k k' : Bytes) (v : Val) (t : Nat) (h : k' ≠ k) :
    get (put ks k v t) k' = get ks k' := by
  unfold put
  split
  · rw [get_map_upd]; simp [h]
  · unfold get
    rw [List.find?_append]
    cases hf : ks.find? (fun e => e.1 == k') with
    | some y => simp
    | none => simp; exact fun h' => h h'.symm

theorem get_del_same (ks : Keyspace) (k : Bytes) : get (del ks k) k = none := by
  unfold get del
  rw [List.find?_eq_none.mpr]
  · rfl
  · intro x hx
    have := (List.mem_filter.mp hx).2
    simpa using this

theorem get_del_other (ks : Keyspace) (k k' : Bytes) (h : k' ≠ k) : get (del ks k) k' = get ks k' := by
  induction ks with
  | nil => rfl
  | cons x ks ih =>
    unfold del at ih ⊢
    rw [List.filter_cons]
    by_cases hx : x.1 = k
    · have : (!(x.1 == k)) = false := by simp [hx]
      simp only [this, Bool.false_eq_true, if_false, ih, get_cons]
      have : ((x.1 == k') = true) = False := by simp [hx]; exact fun h' => h h'.symm
      simp only [this, if_false]
    · have : (!(x.1 == k)) = true := by simp [hx]
      simp only [this, if_true, get_cons, ih]

/-! ## commands local to one key -/

/-- what a command does to its key -/
inductive Upd where
  | keep
  | set (v : Val) (t : Nat)
  | reset (v : Val) (t : Nat)
  | remove

def applyUpd (ks : Keyspace) (k : Bytes) : Upd → Keyspace
  | .keep => ks
  | .set v t => put ks k v t
  | .reset v t => put (del ks k) k v t
  | .remove => del ks k

def Upd.slot (cur : Option (Val × Nat)) : Upd → Option (Val × Nat)
  | .keep => cur
  | .set v t => some (v, t)
  | .reset v t => some (v, t)
  | .remove => none

theorem get_applyUpd_same (ks : Keyspace) (k : Bytes) (u : Upd) : get (applyUpd ks k u) k = u.slot (get ks k) := by
  cases u <;> simp [applyUpd, Upd.slot, get_put_same, get_del_same]

theorem get_applyUpd_other (ks : Keyspace) (k k' : Bytes) (u : Upd) (h : k' ≠ k) :
    get (applyUpd ks k u) k' = get ks k' := by
  cases u <;> simp [applyUpd, get_put_other _ _ _ _ _ h, get_del_other _ _ _ h]

/-- `f` reads and writes key `k` only: reply (error or not) and update are a function of
    the key's current state -/
def LocalAt (k : Bytes) (f : Keyspace → Option Keyspace) : Prop :=
  ∃ F : Option (Val × Nat) → Option Upd, ∀ ks, f ks = (F (get ks k)).map (applyUpd ks k)

theorem local_none (k : Bytes) : LocalAt k (fun _ => none) := ⟨fun _ => none, fun _ => rfl⟩

theorem local_upd (k : Bytes) (u : Upd) : LocalAt k (fun ks => some (applyUpd ks k u)) :=
  ⟨fun _ => some u, fun _ => rfl⟩

theorem local_rpush (k e : Bytes) : LocalAt k (fun ks => doRpush ks k e) := by
  refine ⟨fun cur => match cur with
    | none => some (.set (.list [e]) 0)
    | some (.list l, t) => some (.set (.list (l ++ [e])) t)
    | _ => none, fun ks => ?_⟩
  unfold doRpush
  dsimp only
  generalize get ks k = cur
  cases cur with
  | none => rfl
  | some p => obtain ⟨v, t⟩ := p; cases v <;> rfl

theorem local_sadd (k m : Bytes) : LocalAt k (fun ks => doSadd ks k m) := by
  refine ⟨fun cur => match cur with
    | none => some (.set (.set [m]) 0)
    | some (.set l, t) => some (.set (.set (if l.contains m then l else l ++ [m])) t)
    | _ => none, fun ks => ?_⟩
  unfold doSadd
  dsimp only
  generalize get ks k = cur
  cases cur with
  | none => rfl
  | some p => obtain ⟨v, t⟩ := p; cases v <;> rfl

theorem local_zadd (k : Bytes) (score : Arg) (m : Bytes) : LocalAt k (fun ks => doZadd ks k score m) := by
  refine ⟨fun cur => match cur with
    | none => some (.set (.zset [(m, score)]) 0)
    | some (.zset l, t) => some (.set (.zset (upsert l m score)) t)
    | _ => none, fun ks => ?_⟩
  unfold doZadd
  dsimp only
  generalize get ks k = cur
  cases cur with
  | none => rfl
  | some p => obtain ⟨v, t⟩ := p; cases v <;> rfl

theorem local_hset (k f v : Bytes) : LocalAt k (fun ks => doHset ks k f v) := by
  refine ⟨fun cur => match cur with
    | none => some (.set (.hash [(f, v)]) 0)
    | some (.hash l, t) => some (.set (.hash (upsert l f v)) t)
    | _ => none, fun ks => ?_⟩
  unfold doHset
  dsimp only
  generalize get ks k = cur
  cases cur with
  | none => rfl
  | some p => obtain ⟨v', t⟩ := p; cases v' <;> rfl

theorem local_pexpire (k t : Bytes) : LocalAt k (fun ks => doPexpire ks k t) := by
  refine ⟨fun cur => match decToNat? t, cur with
    | some ttl, some (v, _) => some (.set v ttl)
    | some _, none => some .keep
    | none, _ => none, fun ks => ?_⟩
  unfold doPexpire
  dsimp only
  generalize get ks k = cur
  cases decToNat? t with
  | none => rfl
  | some ttl =>
    cases cur with
    | none => rfl
    | some p => rfl

theorem local_restore (k t payload : Bytes) (opts : List Arg) : LocalAt k (fun ks => doRestore ks k t payload opts) := by
  refine ⟨fun cur => match decToNat? t with
    | none => none
    | some ttl => if cur.isSome && !(opts.any (fun a => a == .b b!"REPLACE")) then none
                  else some (.reset (.restored payload) ttl), fun ks => ?_⟩
  unfold doRestore
  dsimp only
  generalize get ks k = cur
  cases decToNat? t with
  | none => rfl
  | some ttl =>
    dsimp only
    split <;> rfl

/-- the commands of strings, lists, sets, sorted sets and hashes (and RESTORE, EXISTS, DEL, PEXPIRE) -/
def plainNames : List Bytes :=
  [b!"set", b!"del", b!"exists", b!"pexpire", b!"rpush", b!"sadd", b!"zadd", b!"hset", b!"restore"]

theorem local_of_eq {k : Bytes} {f g : Keyspace → Option Keyspace} (h : ∀ ks, f ks = g ks) (hg : LocalAt k g) :
    LocalAt k f := by
  obtain ⟨F, hF⟩ := hg
  exact ⟨F, fun ks => by rw [h ks, hF ks]⟩

set_option hygiene false in
macro "xc" : tactic =>
  `(tactic| (unfold applyXCmd applyCmd; simp only [h, argBytes]; simp))

/-- every plain command is local to the key it names -/
theorem local_applyXCmd (c : Cmd) (k : Bytes) (rest : List Arg) (hargs : c.args = .b k :: rest)
    (hname : lower c.name ∈ plainNames) : LocalAt k (fun ks => applyXCmd ks c) := by
  obtain ⟨name, args⟩ := c
  simp only at hargs hname
  subst hargs
  simp only [plainNames, List.mem_cons, List.not_mem_nil, or_false] at hname
  rcases hname with h | h | h | h | h | h | h | h | h
  · -- set
    rcases rest with _ | ⟨a, _ | ⟨b, r⟩⟩
    · exact local_of_eq (fun ks => by xc) (local_none k)
    · cases a with
      | b v => exact local_of_eq (fun ks => by xc; rfl) (local_upd k (.set (.str v) 0))
      | f x => exact local_of_eq (fun ks => by xc) (local_none k)
    · exact local_of_eq (fun ks => by xc) (local_none k)
  · exact local_of_eq (fun ks => by xc; rfl) (local_upd k .remove)
  · exact local_of_eq (fun ks => by xc; rfl) (local_upd k .keep)
  · -- pexpire
    rcases rest with _ | ⟨a, _ | ⟨b, r⟩⟩
    · exact local_of_eq (fun ks => by xc) (local_none k)
    · cases a with
      | b t => exact local_of_eq (fun ks => by xc) (local_pexpire k t)
      | f x => exact local_of_eq (fun ks => by xc) (local_none k)
    · exact local_of_eq (fun ks => by xc) (local_none k)
  · -- rpush
    rcases rest with _ | ⟨a, _ | ⟨b, r⟩⟩
    · exact local_of_eq (fun ks => by xc) (local_none k)
    · cases a with
      | b e => exact local_of_eq (fun ks => by xc) (local_rpush k e)
      | f x => exact local_of_eq (fun ks => by xc) (local_none k)
    · exact local_of_eq (fun ks => by xc) (local_none k)
  · -- sadd
    rcases rest with _ | ⟨a, _ | ⟨b, r⟩⟩
    · exact local_of_eq (fun ks => by xc) (local_none k)
    · cases a with
      | b m => exact local_of_eq (fun ks => by xc) (local_sadd k m)
      | f x => exact local_of_eq (fun ks => by xc) (local_none k)
    · exact local_of_eq (fun ks => by xc) (local_none k)
  · -- zadd
    rcases rest with _ | ⟨a, _ | ⟨b, _ | ⟨c', r⟩⟩⟩
    · exact local_of_eq (fun ks => by xc) (local_none k)
    · exact local_of_eq (fun ks => by xc) (local_none k)
    · cases b with
      | b m => exact local_of_eq (fun ks => by xc) (local_zadd k a m)
      | f x => exact local_of_eq (fun ks => by xc) (local_none k)
    · exact local_of_eq (fun ks => by xc) (local_none k)
  · -- hset
    rcases rest with _ | ⟨a, _ | ⟨b, _ | ⟨c', r⟩⟩⟩
    · exact local_of_eq (fun ks => by xc) (local_none k)
    · exact local_of_eq (fun ks => by xc) (local_none k)
    · cases a with
      | b f =>
        cases b with
        | b v => exact local_of_eq (fun ks => by xc) (local_hset k f v)
        | f x => exact local_of_eq (fun ks => by xc) (local_none k)
      | f x => exact local_of_eq (fun ks => by xc) (local_none k)
    · exact local_of_eq (fun ks => by xc) (local_none k)
  · -- restore
    rcases rest with _ | ⟨a, _ | ⟨b, r⟩⟩
    · exact local_of_eq (fun ks => by xc) (local_none k)
    · exact local_of_eq (fun ks => by xc) (local_none k)
    · cases a with
      | b t =>
        cases b with
        | b payload => exact local_of_eq (fun ks => by xc) (local_restore k t payload r)
        | f x => exact local_of_eq (fun ks => by xc) (local_none k)
      | f x => exact local_of_eq (fun ks => by xc) (local_none k)

/-! ## consequences of locality -/

/-- the same keys with the same values and times to live (the order of the key list aside) -/
def KEq (a b : Keyspace) : Prop := ∀ k, get a k = get b k

/-- both fail, or both succeed with related results -/
def ORel {α : Type} (R : α → α → Prop) : Option α → Option α → Prop
  | none, none => True
  | some a, some b => R a b
  | _, _ => False

theorem local_congr {k : Bytes} {f : Keyspace → Option Keyspace} (h : LocalAt k f) {a b : Keyspace}
    (hab : KEq a b) : ORel KEq (f a) (f b) := by
  obtain ⟨F, hF⟩ := h
  rw [hF a, hF b, hab k]
  cases F (get b k) with
  | none => trivial
  | some u =>
    intro k'
    by_cases hk : k' = k
    · subst hk; simp only [get_applyUpd_same, hab k']
    · simp only [get_applyUpd_other _ _ _ _ hk, hab k']

theorem local_commute {k1 k2 : Bytes} {f1 f2 : Keyspace → Option Keyspace} (h1 : LocalAt k1 f1)
    (h2 : LocalAt k2 f2) (hne : k1 ≠ k2) (ks : Keyspace) :
    ORel KEq ((f1 ks).bind f2) ((f2 ks).bind f1) := by
  obtain ⟨F1, hF1⟩ := h1
  obtain ⟨F2, hF2⟩ := h2
  have hne' : k2 ≠ k1 := fun h => hne h.symm
  rw [hF1 ks, hF2 ks]
  cases hu1 : F1 (get ks k1) with
  | none =>
    cases hu2 : F2 (get ks k2) with
    | none => trivial
    | some u2 =>
      simp only [Option.map_none, Option.bind_none, Option.map_some, Option.bind_some]
      rw [hF1, get_applyUpd_other _ _ _ _ hne, hu1]
      trivial
  | some u1 =>
    cases hu2 : F2 (get ks k2) with
    | none =>
      simp only [Option.map_none, Option.bind_none, Option.map_some, Option.bind_some]
      rw [hF2, get_applyUpd_other _ _ _ _ hne', hu2]
      trivial
    | some u2 =>
      simp only [Option.map_some, Option.bind_some]
      rw [hF2, get_applyUpd_other _ _ _ _ hne', hu2, hF1, get_applyUpd_other _ _ _ _ hne, hu1]
      intro k
      by_cases hk1 : k = k1
      · subst hk1
        simp only [get_applyUpd_other _ _ _ _ hne, get_applyUpd_same]
      · by_cases hk2 : k = k2
        · subst hk2
          simp only [get_applyUpd_other _ _ _ _ hne', get_applyUpd_same]
        · simp only [get_applyUpd_other _ _ _ _ hk1, get_applyUpd_other _ _ _ _ hk2]

end GunYu.RedisSem
