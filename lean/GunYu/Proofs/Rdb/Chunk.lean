/-
  Helper lemmas for C03: a hash table is emitted in one or more chunks (any
  threshold) whose expansions, concatenated, are the expansion of the whole.
-/
import GunYu.Proofs.Rdb.Read

namespace GunYu.Rdb
open GunYu

/-- field/value pairs as written into the file -/
def encPairs (ps : List (SE × SE)) : Bytes := ps.flatMap (fun p => p.1.enc ++ p.2.enc)

theorem encPairs_split (ps : List (SE × SE)) (j : Nat) :
    encPairs ps = encPairs (ps.take j) ++ encPairs (ps.drop j) := by
  unfold encPairs
  rw [← List.flatMap_append, List.take_append_drop]

/-- the chunk loop reads `j ≥ 1` pairs (all of them, or it broke off early) -/
theorem hashChunkLoop_pairs (thr start : Nat) (ps : List (SE × SE)) (rest : Bytes) (rd : Nat)
    (h : ∀ p ∈ ps, p.1.wf ∧ p.2.wf) :
    ∃ j, (ps ≠ [] → 1 ≤ j) ∧ j ≤ ps.length ∧
      hashChunkLoop thr start ps.length (encPairs ps ++ rest) rd = some (encPairs (ps.drop j) ++ rest, rd + j) := by
  induction ps generalizing rd with
  | nil => exact ⟨0, by simp, by simp, by simp [hashChunkLoop, encPairs]⟩
  | cons p ps ih =>
    obtain ⟨h1, h2⟩ := h p (List.mem_cons_self ..)
    have hstep : ∀ X, skipString (p.1.enc ++ (p.2.enc ++ X)) = some (p.2.enc ++ X) :=
      fun X => skipString_enc p.1 _ h1
    simp only [List.length_cons, encPairs, List.flatMap_cons, List.append_assoc, hashChunkLoop]
    rw [hstep]
    simp only
    rw [skipString_enc p.2 _ h2]
    simp only
    split
    · exact ⟨1, by simp, by simp, by simp [encPairs]⟩
    · obtain ⟨j, hj1, hj2, hj3⟩ := ih (rd + 1) (fun x hx => h x (List.mem_cons_of_mem _ hx))
      refine ⟨j + 1, by simp, by simp; omega, ?_⟩
      simp only [encPairs] at hj3
      rw [hj3]
      simp [encPairs, Nat.add_assoc, Nat.add_comm 1 j]

/-- first chunk of a hash table, given what the chunk loop did -/
theorem readBuffer_hash_first' (cfg : DCfg) (ls : LState) (key : SE) (f : LenForm) (items : List (SE × SE))
    (rest : Bytes) (j : Nat) (hls : ls.total = 0 ∧ ls.read = 0) (hkey : key.wf)
    (hf : f.fits items.length) (h32 : items.length < 2 ^ 32)
    (hloop : hashChunkLoop cfg.thr (encLen f items.length ++ (encPairs items ++ rest)).length items.length
      (encPairs items ++ rest) 0 = some (encPairs (items.drop j) ++ rest, 0 + j)) :
      readBuffer cfg ls 4 (key.enc ++ (encLen f items.length ++ (encPairs items ++ rest))) =
        some ({ rtype := 4, key := key.val, buf := encLen f items.length ++ encPairs (items.take j),
                total := items.length, read := j, history := 0 },
              (if items.length - j = 0 then { ls with total := 0, read := 0 }
               else { ls with total := items.length, read := j }),
              encPairs (items.drop j) ++ rest) := by
  unfold readBuffer
  have ho : otypeOf 4 = some .hash := by decide
  simp only [ho, hls.1, hls.2, Nat.sub_self, ne_eq, not_true_eq_false, if_false,
    show ¬ (OType.hash = OType.function) by decide, if_true]
  rw [readString_enc key _ hkey]
  simp only
  rw [readLength_encLen f _ _ hf h32]
  simp only [Option.map_some]
  rw [hloop]
  simp only [Nat.zero_add]
  have hc : consumed (encLen f items.length ++ (encPairs items ++ rest)) (encPairs (items.drop j) ++ rest) =
      encLen f items.length ++ encPairs (items.take j) := by
    have e : encLen f items.length ++ (encPairs items ++ rest) =
        (encLen f items.length ++ encPairs (items.take j)) ++ (encPairs (items.drop j) ++ rest) := by
      rw [encPairs_split items j]; simp
    rw [e, consumed_append]
  rw [hc]

/-- first chunk of a hash table -/
theorem readBuffer_hash_first (cfg : DCfg) (ls : LState) (key : SE) (f : LenForm) (items : List (SE × SE))
    (rest : Bytes) (hls : ls.total = 0 ∧ ls.read = 0) (hkey : key.wf)
    (hf : f.fits items.length) (h32 : items.length < 2 ^ 32) (h : ∀ p ∈ items, p.1.wf ∧ p.2.wf) :
    ∃ j, (items ≠ [] → 1 ≤ j) ∧ j ≤ items.length ∧
      readBuffer cfg ls 4 (key.enc ++ (encLen f items.length ++ (encPairs items ++ rest))) =
        some ({ rtype := 4, key := key.val, buf := encLen f items.length ++ encPairs (items.take j),
                total := items.length, read := j, history := 0 },
              (if items.length - j = 0 then { ls with total := 0, read := 0 }
               else { ls with total := items.length, read := j }),
              encPairs (items.drop j) ++ rest) := by
  obtain ⟨j, hj1, hj2, hj3⟩ := hashChunkLoop_pairs cfg.thr
    (encLen f items.length ++ (encPairs items ++ rest)).length items rest 0 h
  exact ⟨j, hj1, hj2, readBuffer_hash_first' cfg ls key f items rest j hls hkey hf h32 hj3⟩

/-- below the threshold the loop never breaks off -/
theorem hashChunkLoop_nobreak (thr start : Nat) (ps : List (SE × SE)) (rest : Bytes) (rd A : Nat)
    (h : ∀ p ∈ ps, p.1.wf ∧ p.2.wf) (hstart : start = A + (encPairs ps ++ rest).length)
    (hthr : A + (encPairs ps).length ≤ thr) :
    hashChunkLoop thr start ps.length (encPairs ps ++ rest) rd = some (rest, rd + ps.length) := by
  induction ps generalizing rd A with
  | nil => simp [hashChunkLoop, encPairs]
  | cons p ps ih =>
    obtain ⟨h1, h2⟩ := h p (List.mem_cons_self ..)
    have hstep : ∀ X, skipString (p.1.enc ++ (p.2.enc ++ X)) = some (p.2.enc ++ X) :=
      fun X => skipString_enc p.1 _ h1
    simp only [List.length_cons, encPairs, List.flatMap_cons, List.append_assoc, hashChunkLoop]
    rw [hstep]
    simp only
    rw [skipString_enc p.2 _ h2]
    simp only
    simp only [encPairs, List.flatMap_cons, List.append_assoc, List.length_append] at hstart hthr
    have hnb : ¬ (start - (List.flatMap (fun p => p.1.enc ++ p.2.enc) ps ++ rest).length > thr ∧ ps.length ≠ 0) := by
      simp only [List.length_append]; omega
    simp only [hnb, if_false]
    have := ih (rd + 1) (A + p.1.enc.length + p.2.enc.length) (fun x hx => h x (List.mem_cons_of_mem _ hx))
      (by simp only [encPairs, List.length_append]; omega) (by simp only [encPairs]; omega)
    simp only [encPairs] at this
    rw [this]
    simp [Nat.add_assoc, Nat.add_comm 1]

theorem flatMap_congr_mem {α β} (l : List α) (f g : α → List β) (h : ∀ a ∈ l, f a = g a) :
    l.flatMap f = l.flatMap g := by
  induction l with
  | nil => rfl
  | cons a l ih =>
    simp only [List.flatMap_cons]
    rw [h a (List.mem_cons_self ..), ih (fun x hx => h x (List.mem_cons_of_mem _ hx))]

/-- a continuation chunk -/
theorem readBuffer_hash_cont (cfg : DCfg) (ls : LState) (le : Entry) (ps : List (SE × SE)) (rest : Bytes)
    (hlast : ls.last = some le) (hrem : ls.total - ls.read = ps.length) (hne : ps ≠ [])
    (h : ∀ p ∈ ps, p.1.wf ∧ p.2.wf) :
    ∃ j, 1 ≤ j ∧ j ≤ ps.length ∧
      readBuffer cfg ls 4 (encPairs ps ++ rest) =
        some ({ rtype := 4, key := le.key, buf := encPairs (ps.take j),
                total := ls.total, read := ls.read + j, history := ls.read },
              (if ls.total - (ls.read + j) = 0 then { ls with total := 0, read := 0 }
               else { ls with total := ls.total, read := ls.read + j }),
              encPairs (ps.drop j) ++ rest) := by
  obtain ⟨j, hj1, hj2, hj3⟩ := hashChunkLoop_pairs cfg.thr (encPairs ps ++ rest).length ps rest ls.read h
  refine ⟨j, hj1 hne, hj2, ?_⟩
  have hpos : ps.length ≠ 0 := by
    intro h0; exact hne (List.length_eq_zero_iff.mp h0)
  unfold readBuffer
  have ho : otypeOf 4 = some .hash := by decide
  simp only [ho, show ¬ (OType.hash = OType.function) by decide, if_false, hrem, ne_eq, hpos,
    not_false_eq_true, if_true, hlast, Option.map_some, Option.getD_some]
  rw [hj3]
  simp only
  have hc : consumed (encPairs ps ++ rest) (encPairs (ps.drop j) ++ rest) = encPairs (ps.take j) := by
    have e : encPairs ps ++ rest = encPairs (ps.take j) ++ (encPairs (ps.drop j) ++ rest) := by
      rw [encPairs_split ps j]; simp
    rw [e, consumed_append]
  rw [hc]

/-! ### `Loader.Next` on a key item -/

theorem not_opcode (t : UInt8) (h : t.toNat < 244) :
    t ≠ 0xFA ∧ t ≠ 0xFB ∧ t ≠ 0xFC ∧ t ≠ 0xFD ∧ t ≠ 0xFE ∧ t ≠ 0xF4 ∧ t ≠ 0xFF ∧ t ≠ 0xF7 ∧ t ≠ 0xF8 ∧
      t ≠ 0xF9 ∧ t ≠ 0xF5 := by
  refine ⟨?_, ?_, ?_, ?_, ?_, ?_, ?_, ?_, ?_, ?_, ?_⟩ <;> (intro e; subst e; revert h; decide)

/-- the entry metadata accumulated from the opcodes before the type byte -/
def metaOf (k : KeyE) (e : Entry) : Entry :=
  let e1 := match k.exp with | .none => e | x => { e with expireAt := x.at }
  let e2 := match k.idle with | none => e1 | some (_, n) => { e1 with idle := n }
  match k.freq with | none => e2 | some n => { e2 with freq := n }

def nOps (k : KeyE) : Nat :=
  (match k.exp with | .none => 0 | _ => 1) + (match k.idle with | none => 0 | some _ => 1) +
  (match k.freq with | none => 0 | some _ => 1)

/-- the opcodes before the type byte only update the pending entry -/
theorem nextLoop_prefix (cfg : DCfg) (fuel : Nat) (ls : LState) (e : Entry) (k : KeyE) (X : Bytes)
    (hls : ls.total - ls.read = 0) (hwf : k.wf) :
    nextLoop cfg (fuel + nOps k) ls e
        (k.exp.enc ++ (idleBytes k ++ (freqBytes k ++ X))) =
      nextLoop cfg fuel ls (metaOf k e) X := by
  obtain ⟨_, _, hexp, hidle, hfreq⟩ := hwf
  have hn : ¬ (ls.total - ls.read ≠ 0) := by omega
  -- freq
  have hF : ∀ (fuel : Nat) (e : Entry),
      nextLoop cfg (fuel + (match k.freq with | none => 0 | some _ => 1)) ls e
        (freqBytes k ++ X) =
      nextLoop cfg fuel ls (match k.freq with | none => e | some n => { e with freq := n }) X := by
    intro fuel e
    unfold freqBytes
    cases hfr : k.freq with
    | none => simp
    | some n =>
      have hn' : n < 256 := by simpa [hfr] using hfreq
      simp only [List.cons_append, List.nil_append, nextLoop, hn, if_false]
      simp only [show ((0xF9 : UInt8) = 0xFA) = False by decide, show ((0xF9 : UInt8) = 0xFB) = False by decide,
        show ((0xF9 : UInt8) = 0xFC) = False by decide, show ((0xF9 : UInt8) = 0xFD) = False by decide,
        show ((0xF9 : UInt8) = 0xFE) = False by decide, show ((0xF9 : UInt8) = 0xF4) = False by decide,
        show ((0xF9 : UInt8) = 0xFF) = False by decide, show ((0xF9 : UInt8) = 0xF7) = False by decide,
        show ((0xF9 : UInt8) = 0xF8) = False by decide, if_false, if_true, u8_toNat n hn']
  -- idle
  have hI : ∀ (fuel : Nat) (e : Entry) (Y : Bytes),
      nextLoop cfg (fuel + (match k.idle with | none => 0 | some _ => 1)) ls e
        (idleBytes k ++ Y) =
      nextLoop cfg fuel ls (match k.idle with | none => e | some (_, n) => { e with idle := n }) Y := by
    intro fuel e Y
    unfold idleBytes
    cases hid : k.idle with
    | none => simp
    | some fn =>
      obtain ⟨f, n⟩ := fn
      have hfn : f.fits n ∧ n < 2 ^ 32 := by simpa [hid] using hidle
      simp only [List.cons_append, nextLoop, hn, if_false]
      simp only [show ((0xF8 : UInt8) = 0xFA) = False by decide, show ((0xF8 : UInt8) = 0xFB) = False by decide,
        show ((0xF8 : UInt8) = 0xFC) = False by decide, show ((0xF8 : UInt8) = 0xFD) = False by decide,
        show ((0xF8 : UInt8) = 0xFE) = False by decide, show ((0xF8 : UInt8) = 0xF4) = False by decide,
        show ((0xF8 : UInt8) = 0xFF) = False by decide, show ((0xF8 : UInt8) = 0xF7) = False by decide,
        if_false, if_true]
      rw [readLength_encLen f n Y hfn.1 hfn.2]
  -- expiry
  have hE : ∀ (fuel : Nat) (e : Entry) (Y : Bytes),
      nextLoop cfg (fuel + (match k.exp with | .none => 0 | _ => 1)) ls e (k.exp.enc ++ Y) =
      nextLoop cfg fuel ls (match k.exp with | .none => e | x => { e with expireAt := x.at }) Y := by
    intro fuel e Y
    cases hex : k.exp with
    | none => simp [ExpE.enc]
    | ms t =>
      have ht : t < 2 ^ 64 := by simpa [hex] using hexp
      simp only [ExpE.enc, List.cons_append, nextLoop, hn, if_false]
      simp only [show ((0xFC : UInt8) = 0xFA) = False by decide, show ((0xFC : UInt8) = 0xFB) = False by decide,
        if_false, if_true]
      rw [readN_append' 8 _ _ (leN_length 8 _)]
      simp only [ofLE_leN' 8 t (by simpa using ht), ExpE.at]
    | sec t =>
      have ht : t < 2 ^ 32 := by simpa [hex] using hexp
      simp only [ExpE.enc, List.cons_append, nextLoop, hn, if_false]
      simp only [show ((0xFD : UInt8) = 0xFA) = False by decide, show ((0xFD : UInt8) = 0xFB) = False by decide,
        show ((0xFD : UInt8) = 0xFC) = False by decide, if_false, if_true]
      rw [readN_append' 4 _ _ (leN_length 4 _)]
      simp only [ofLE_leN' 4 t (by simpa using ht), ExpE.at]
  unfold nOps metaOf
  have e1 : fuel + ((match k.exp with | .none => 0 | _ => 1) + (match k.idle with | none => 0 | some _ => 1) +
      (match k.freq with | none => 0 | some _ => 1)) =
      (fuel + (match k.freq with | none => 0 | some _ => 1) + (match k.idle with | none => 0 | some _ => 1)) +
      (match k.exp with | .none => 0 | _ => 1) := by omega
  rw [e1, hE, hI, hF]

def pairVals (ps : List (SE × SE)) : List (Bytes × Bytes) := ps.map (fun p => (p.1.val, p.2.val))

/-- what the chunks of one value must look like: same key / DB / expiry / idle /
    freq / type as the value, and none of them is a first chunk -/
def ContChunk (ls : LState) (le : Entry) (e : Entry) : Prop :=
  e.key = le.key ∧ e.expireAt = le.expireAt ∧ e.idle = le.idle ∧ e.freq = le.freq ∧ e.type = 4 ∧
    e.db = (ls.db : Int) ∧ e.obj.firstBin = false ∧ e.obj.key = le.key ∧ e.obj.rtype = 4

theorem hashPairs_cont (key : Bytes) (ps : List (SE × SE)) (total read history : Nat)
    (hh : history ≠ 0) (hr : read - history = ps.length) (h : ∀ p ∈ ps, p.1.wf ∧ p.2.wf) :
    hashPairs { rtype := 4, key := key, buf := encPairs ps, total := total, read := read, history := history } =
      some (pairVals ps) := by
  have hfb : (decide (history = 0)) = false := by simp [hh]
  simp only [hashPairs, PObj.firstBin, hfb, if_true, Bool.false_eq_true, if_false, hr]
  have := readPairs_enc ps [] h
  simp only [List.append_nil] at this
  unfold encPairs
  rw [this]
  rfl

def contObj (ls : LState) (le : Entry) (ps : List (SE × SE)) (j : Nat) : PObj :=
  { rtype := 4, key := le.key, buf := encPairs (ps.take j), total := ls.total, read := ls.read + j,
    history := ls.read }

def contEnt (ls : LState) (le : Entry) (ps : List (SE × SE)) (j : Nat) : Entry :=
  { db := (ls.db : Int), key := le.key, type := le.type, expireAt := le.expireAt, idle := le.idle,
    freq := le.freq, obj := contObj ls le ps j }

def contLs (ls : LState) (ent : Entry) (j : Nat) : LState :=
  { (if ls.total - (ls.read + j) = 0 then { ls with total := 0, read := 0 }
     else { ls with total := ls.total, read := ls.read + j } : LState) with last := some ent }

/-- one `Next` in the middle of a split value -/
theorem next_cont (cfg : DCfg) (rest : Bytes) (ps : List (SE × SE)) (ls : LState) (le : Entry)
    (hne : ps ≠ []) (hlast : ls.last = some le) (hty : le.type = 4)
    (hrem : ls.total - ls.read = ps.length) (hread : 1 ≤ ls.read) (h : ∀ p ∈ ps, p.1.wf ∧ p.2.wf) :
    ∃ j ent ls', 1 ≤ j ∧ j ≤ ps.length ∧
      next cfg ls (encPairs ps ++ rest) = some (some ent, ls', encPairs (ps.drop j) ++ rest) ∧
      ContChunk ls le ent ∧ hashPairs ent.obj = some (pairVals (ps.take j)) ∧
      ls'.db = ls.db ∧ ls'.last = some ent ∧
      (j = ps.length → ls'.total = 0 ∧ ls'.read = 0) ∧
      (j ≠ ps.length → ls'.total - ls'.read = ps.length - j ∧ 1 ≤ ls'.read) := by
  obtain ⟨j, hj1, hj2, hrb⟩ := readBuffer_hash_cont cfg ls le ps rest hlast hrem hne h
  have hpos : ls.total - ls.read ≠ 0 := by
    rw [hrem]; intro h0; exact hne (List.length_eq_zero_iff.mp h0)
  refine ⟨j, contEnt ls le ps j, contLs ls (contEnt ls le ps j) j, hj1, hj2, ?_, ?_, ?_, ?_, ?_, ?_, ?_⟩
  · unfold next
    simp only [nextLoop, hpos, ne_eq, not_false_eq_true, if_true, hlast, hty, hrb]
    simp only [contEnt, contObj, contLs, hty, hlast]
  · refine ⟨rfl, rfl, rfl, rfl, hty, rfl, ?_, rfl, rfl⟩
    show decide (ls.read = 0) = false
    simp; omega
  · exact hashPairs_cont le.key (ps.take j) ls.total (ls.read + j) ls.read (by omega)
      (by rw [List.length_take]; omega) (fun p hp => h p (List.mem_of_mem_take hp))
  · simp only [contLs]; split <;> rfl
  · rfl
  · intro hj
    have : ls.total - (ls.read + j) = 0 := by omega
    simp [contLs, this]
  · intro hj
    have : ¬ (ls.total - (ls.read + j) = 0) := by omega
    simp only [contLs, this, if_false]
    constructor <;> omega

/-- the continuation chunks after a first chunk -/
theorem nextValue_cont (cfg : DCfg) (rest : Bytes) (fuel : Nat) (ps : List (SE × SE)) (ls : LState) (le : Entry)
    (hne : ps ≠ []) (hfuel : ps.length ≤ fuel) (hlast : ls.last = some le) (hty : le.type = 4)
    (hrem : ls.total - ls.read = ps.length) (hread : 1 ≤ ls.read) (h : ∀ p ∈ ps, p.1.wf ∧ p.2.wf) :
    ∃ es ls', nextValue cfg fuel ls (encPairs ps ++ rest) = some (es, ls', rest) ∧
      ls'.total - ls'.read = 0 ∧ ls'.db = ls.db ∧ (∀ e ∈ es, ContChunk ls le e) ∧
      (∀ e ∈ es, (hashPairs e.obj).isSome) ∧
      es.flatMap (fun e => (hashPairs e.obj).getD []) = pairVals ps ∧
      ls'.total = 0 ∧ ls'.read = 0 := by
  induction fuel generalizing ps ls le with
  | zero =>
    have : ps.length = 0 := by omega
    exact absurd (List.length_eq_zero_iff.mp this) hne
  | succ fuel ih =>
    obtain ⟨j, ent, ls1, hj1, hj2, hnext, hcc, hchunk, hdb1, hlast1, hdone, hmore⟩ :=
      next_cont cfg rest ps ls le hne hlast hty hrem hread h
    simp only [nextValue, hnext]
    by_cases hj : j = ps.length
    · have hz0 := hdone hj
      have hz : ls1.total - ls1.read = 0 := by omega
      simp only [hz, if_true]
      refine ⟨[ent], ls1, ?_, hz, hdb1, ?_, ?_, ?_, hz0.1, hz0.2⟩
      · subst hj; simp [encPairs]
      · intro e he; simp only [List.mem_singleton] at he; subst he; exact hcc
      · intro e he; simp only [List.mem_singleton] at he; subst he; simp [hchunk]
      · simp only [List.flatMap_cons, List.flatMap_nil, List.append_nil, hchunk, Option.getD_some]
        subst hj; simp
    · obtain ⟨hrem1, hread1⟩ := hmore hj
      have hnz : ¬ (ls1.total - ls1.read = 0) := by omega
      simp only [hnz, if_false]
      have hne' : ps.drop j ≠ [] := by
        intro h0
        have := congrArg List.length h0
        simp at this; omega
      obtain ⟨es, ls', hes, hz, hdb, hall, hsome, hflat, hz1, hz2⟩ := ih (ps.drop j) ls1 ent hne'
        (by simp; omega) hlast1 hcc.2.2.2.2.1 (by simp; omega) hread1
        (fun p hp => h p (List.mem_of_mem_drop hp))
      rw [hes]
      refine ⟨ent :: es, ls', rfl, hz, by rw [hdb, hdb1], ?_, ?_, ?_, hz1, hz2⟩
      · intro e he
        rcases List.mem_cons.mp he with rfl | he'
        · exact hcc
        · obtain ⟨a, b, c, d, e5, f, g, hk', hr'⟩ := hall e he'
          obtain ⟨a', b', c', d', _, _, _, _, _⟩ := hcc
          exact ⟨a.trans a', b.trans b', c.trans c', d.trans d', e5, by rw [f, hdb1], g, hk'.trans a', hr'⟩
      · intro e he
        rcases List.mem_cons.mp he with rfl | he'
        · simp [hchunk]
        · exact hsome e he'
      · simp only [List.flatMap_cons, hchunk, Option.getD_some, hflat]
        unfold pairVals
        rw [← List.map_append, List.take_append_drop]

/-! ### the first chunk and the whole value -/

theorem keyE_enc_assoc (k : KeyE) (rest : Bytes) :
    k.enc ++ rest = k.exp.enc ++ (idleBytes k ++ (freqBytes k ++ (k.obj.rtype :: (k.key.enc ++ (k.obj.ser ++ rest))))) := by
  simp [KeyE.enc, List.append_assoc]

theorem nOps_le (k : KeyE) : nOps k ≤ (k.exp.enc ++ (idleBytes k ++ freqBytes k)).length := by
  unfold nOps idleBytes freqBytes
  cases k.exp <;> cases k.idle <;> cases k.freq <;> simp [ExpE.enc] <;> omega

theorem metaOf_fields (k : KeyE) :
    (metaOf k {}).expireAt = k.exp.at ∧
    (metaOf k {}).idle = (match k.idle with | none => 0 | some (_, n) => n) ∧
    (metaOf k {}).freq = (match k.freq with | none => 0 | some n => n) ∧
    (metaOf k {}).db = -1 := by
  unfold metaOf
  cases k.exp <;> cases k.idle <;> cases k.freq <;> simp [ExpE.at]

/-- `Next` positioned at a key item reaches the type byte with the metadata set -/
theorem next_at_key (cfg : DCfg) (ls : LState) (k : KeyE) (rest : Bytes)
    (hls : ls.total - ls.read = 0) (hwf : k.wf) :
    ∃ fuel, next cfg ls (k.enc ++ rest) =
      nextLoop cfg (fuel + 1) ls (metaOf k {}) (k.obj.rtype :: (k.key.enc ++ (k.obj.ser ++ rest))) := by
  have hle := nOps_le k
  rw [keyE_enc_assoc]
  unfold next
  generalize hX : (k.obj.rtype :: (k.key.enc ++ (k.obj.ser ++ rest))) = X
  have hlen : (k.exp.enc ++ (idleBytes k ++ (freqBytes k ++ X))).length + 1 =
      ((k.exp.enc ++ (idleBytes k ++ (freqBytes k ++ X))).length - nOps k + 1) + nOps k := by
    simp only [List.length_append] at hle ⊢; omega
  rw [hlen]
  have := nextLoop_prefix cfg ((k.exp.enc ++ (idleBytes k ++ (freqBytes k ++ X))).length - nOps k + 1) ls {} k X hls hwf
  rw [this]
  exact ⟨_, rfl⟩

/-- the properties every chunk of the value of key item `k` must have -/
def ChunkOf (ls : LState) (k : KeyE) (e : Entry) : Prop :=
  e.key = k.key.val ∧ e.db = (ls.db : Int) ∧ e.expireAt = k.exp.at ∧
  e.idle = (match k.idle with | none => 0 | some (_, n) => n) ∧
  e.freq = (match k.freq with | none => 0 | some n => n) ∧ e.type = 4 ∧
  e.obj.key = k.key.val ∧ e.obj.rtype = 4

theorem hashPairs_first (key : Bytes) (f : LenForm) (n : Nat) (ps : List (SE × SE)) (total : Nat)
    (hf : f.fits n) (h32 : n < 2 ^ 32) (h : ∀ p ∈ ps, p.1.wf ∧ p.2.wf) :
    hashPairs { rtype := 4, key := key, buf := encLen f n ++ encPairs ps, total := total, read := ps.length,
                history := 0 } = some (pairVals ps) := by
  simp only [hashPairs, PObj.firstBin, decide_true, if_true, skipLength, Nat.sub_zero]
  rw [readLength_encLen f n _ hf h32]
  simp only [Option.map_some]
  have := readPairs_enc ps [] h
  simp only [List.append_nil] at this
  unfold encPairs
  rw [this]
  rfl

/-- A hash table, whatever the chunk threshold: `Next` is called until the value
    is complete; every chunk carries the key, DB, expiry, idle time and freq of
    the value; only the first is a "first chunk"; the chunks' pairs concatenated
    are the pairs of the table, in order; the input left is what follows the value. -/
theorem nextValue_hash (cfg : DCfg) (ls : LState) (k : KeyE) (f : LenForm) (items : List (SE × SE)) (rest : Bytes)
    (hobj : k.obj = .hashTable f items) (hls : ls.total = 0 ∧ ls.read = 0) (hwf : k.wf) (hne : items ≠ []) :
    ∃ es ls', nextValue cfg (items.length + 1) ls (k.enc ++ rest) = some (es, ls', rest) ∧
      ls'.total - ls'.read = 0 ∧ ls'.db = ls.db ∧
      (∀ e ∈ es, ChunkOf ls k e) ∧
      (∃ e0 tl, es = e0 :: tl ∧ e0.obj.firstBin = true ∧ ∀ e ∈ tl, e.obj.firstBin = false) ∧
      (∀ e ∈ es, (hashPairs e.obj).isSome) ∧
      es.flatMap (fun e => (hashPairs e.obj).getD []) = pairVals items ∧
      ls'.total = 0 ∧ ls'.read = 0 ∧
      ((∃ e, es = [e] ∧ e.obj = pobjOf k.key.val k.obj) ∨ (∀ e ∈ es, e.obj.isSplited = true)) := by
  have hwf' := hwf
  obtain ⟨hkey, hobjwf, _, _, _⟩ := hwf
  rw [hobj] at hobjwf
  obtain ⟨hf, h32, hitems⟩ := hobjwf
  have hls0 : ls.total - ls.read = 0 := by omega
  obtain ⟨fuel, hnext0⟩ := next_at_key cfg ls k rest hls0 hwf'
  obtain ⟨hm1, hm2, hm3, _⟩ := metaOf_fields k
  obtain ⟨j, hj1, hj2, hrb⟩ := readBuffer_hash_first cfg ls k.key f items rest hls hkey hf h32 hitems
  have hj1 := hj1 hne
  -- the first `Next`
  let p0 : PObj := { rtype := 4, key := k.key.val, buf := encLen f items.length ++ encPairs (items.take j),
                     total := items.length, read := j, history := 0 }
  let ent : Entry := { metaOf k {} with db := (ls.db : Int), key := k.key.val, type := 4, obj := p0 }
  let ls1 : LState := { (if items.length - j = 0 then { ls with total := 0, read := 0 }
                         else { ls with total := items.length, read := j } : LState) with last := some ent }
  have hnext : next cfg ls (k.enc ++ rest) = some (some ent, ls1, encPairs (items.drop j) ++ rest) := by
    rw [hnext0, hobj]
    have hn : ¬ (ls.total - ls.read ≠ 0) := by omega
    simp only [ObjE.rtype, ObjE.ser, nextLoop, hn, if_false, List.append_assoc]
    simp only [show ((4 : UInt8) = 0xFA) = False by decide, show ((4 : UInt8) = 0xFB) = False by decide,
      show ((4 : UInt8) = 0xFC) = False by decide, show ((4 : UInt8) = 0xFD) = False by decide,
      show ((4 : UInt8) = 0xFE) = False by decide, show ((4 : UInt8) = 0xF4) = False by decide,
      show ((4 : UInt8) = 0xFF) = False by decide, show ((4 : UInt8) = 0xF7) = False by decide,
      show ((4 : UInt8) = 0xF8) = False by decide, show ((4 : UInt8) = 0xF9) = False by decide,
      show ((4 : UInt8) = 0xF5) = False by decide, if_false]
    have hrb' := hrb
    unfold encPairs at hrb'
    rw [hrb']
    simp only [ent, p0, ls1, encPairs]
  have hchunk0 : hashPairs ent.obj = some (pairVals (items.take j)) := by
    have := hashPairs_first k.key.val f items.length (items.take j) items.length hf h32
      (fun p hp => hitems p (List.mem_of_mem_take hp))
    rw [List.length_take, Nat.min_eq_left hj2] at this
    exact this
  have hc0 : ChunkOf ls k ent := ⟨rfl, rfl, hm1, hm2, hm3, rfl, rfl, rfl⟩
  have hfb0 : ent.obj.firstBin = true := by simp [ent, p0, PObj.firstBin]
  simp only [nextValue, hnext]
  by_cases hj : j = items.length
  · have hz : ls1.total - ls1.read = 0 := by simp [ls1, hj]
    simp only [hz, if_true]
    refine ⟨[ent], ls1, ?_, hz, ?_, ?_, ⟨ent, [], rfl, hfb0, by simp⟩, ?_, ?_, ?_, ?_, Or.inl ⟨ent, rfl, ?_⟩⟩
    · subst hj; simp [encPairs]
    · simp only [ls1]; split <;> rfl
    · intro e he; simp only [List.mem_singleton] at he; subst he; exact hc0
    · intro e he; simp only [List.mem_singleton] at he; subst he; simp [hchunk0]
    · simp only [List.flatMap_cons, List.flatMap_nil, List.append_nil, hchunk0, Option.getD_some]
      subst hj; simp
    · simp [ls1, hj]
    · simp [ls1, hj]
    · rw [hobj]
      simp only [ent, p0, pobjOf, hj, List.take_length, encPairs, ObjE.rtype, ObjE.ser]
  · have hnz' : ¬ (items.length - j = 0) := by omega
    have hrem1 : ls1.total - ls1.read = (items.drop j).length := by simp [ls1, hnz']
    have hnz : ¬ (ls1.total - ls1.read = 0) := by rw [hrem1]; simp; omega
    simp only [hnz, if_false]
    have hne' : items.drop j ≠ [] := by
      intro h0
      have := congrArg List.length h0
      simp at this; omega
    obtain ⟨es, ls', hes, hz, hdb, hall, hsome, hflat, hz1, hz2⟩ := nextValue_cont cfg rest items.length (items.drop j) ls1 ent hne'
      (by simp) (by simp [ls1]) rfl hrem1 (by simp [ls1, hnz']; omega)
      (fun p hp => hitems p (List.mem_of_mem_drop hp))
    rw [hes]
    have hdb1 : ls1.db = ls.db := by simp only [ls1]; split <;> rfl
    refine ⟨ent :: es, ls', rfl, hz, by rw [hdb, hdb1], ?_, ⟨ent, es, rfl, hfb0, fun e he => (hall e he).2.2.2.2.2.2.1⟩, ?_, ?_,
      hz1, hz2, Or.inr ?_⟩
    · intro e he
      rcases List.mem_cons.mp he with rfl | he'
      · exact hc0
      · obtain ⟨a, b, c, d, e5, f6, _, hk', hr'⟩ := hall e he'
        exact ⟨a, by rw [f6, hdb1], b.trans hm1, c.trans hm2, d.trans hm3, e5, hk', hr'⟩
    · intro e he
      rcases List.mem_cons.mp he with rfl | he'
      · simp [hchunk0]
      · exact hsome e he'
    · simp only [List.flatMap_cons, hchunk0, Option.getD_some, hflat]
      unfold pairVals
      rw [← List.map_append, List.take_append_drop]
    · intro e he
      rcases List.mem_cons.mp he with rfl | he'
      · simp only [ent, p0, PObj.isSplited]
        simp; omega
      · have := (hall e he').2.2.2.2.2.2.1
        simp only [PObj.firstBin, decide_eq_false_iff_not] at this
        simp [PObj.isSplited, this]

/-! ### a key item of any non-split type -/

theorem rtype_lt_244 (o : ObjE) (hk : o.kind ≠ .other) : o.rtype.toNat < 244 := by
  cases o <;> first
    | exact absurd rfl hk
    | (simp only [ObjE.rtype]; decide)

/-- `Next` on a key item of a non-chunkable type: ONE entry, carrying the key, the
    loader's DB, the absolute expiry, idle time, freq, and exactly the parser
    object `pobjOf` of the value (buffer = serialization); the loader is ready
    for the next item and the input is positioned behind the value. -/
theorem next_plain (cfg : DCfg) (ls : LState) (k : KeyE) (rest : Bytes)
    (hls : ls.total = 0 ∧ ls.read = 0) (hwf : k.wf) (hk : k.obj.kind ≠ .other) (hh : k.obj.rtype ≠ 4) :
    ∃ e ls', next cfg ls (k.enc ++ rest) = some (some e, ls', rest) ∧
      e.key = k.key.val ∧ e.db = (ls.db : Int) ∧ e.expireAt = k.exp.at ∧
      e.idle = (match k.idle with | none => 0 | some (_, n) => n) ∧
      e.freq = (match k.freq with | none => 0 | some n => n) ∧
      e.type = k.obj.rtype ∧ e.obj = pobjOf k.key.val k.obj ∧
      ls'.db = ls.db ∧ ls'.total = 0 ∧ ls'.read = 0 := by
  have hwf' := hwf
  obtain ⟨hkey, hobjwf, _, _, _⟩ := hwf
  have hls0 : ls.total - ls.read = 0 := by omega
  obtain ⟨fuel, hnext0⟩ := next_at_key cfg ls k rest hls0 hwf'
  obtain ⟨hm1, hm2, hm3, _⟩ := metaOf_fields k
  obtain ⟨n1, n2, n3, n4, n5, n6, n7, n8, n9, n10, n11⟩ := not_opcode k.obj.rtype (rtype_lt_244 k.obj hk)
  -- readBuffer does not look at the loader's DB / last entry when nothing is pending
  have hrb : readBuffer cfg ls k.obj.rtype (k.key.enc ++ (k.obj.ser ++ rest)) =
      some (pobjOf k.key.val k.obj, { ls with total := 0, read := 0 }, rest) := by
    have h0 := readBuffer_plain cfg k.key k.obj rest hkey hobjwf hk hh
    have hot := otypeOf_rtype k.obj hk
    have hnf := otOf_ne_function k.obj
    unfold readBuffer at h0 ⊢
    simp only [hot, hnf, if_false, hls.1, hls.2, Nat.sub_self, ne_eq, not_true_eq_false, hh] at h0 ⊢
    cases hrs : readString (k.key.enc ++ (k.obj.ser ++ rest)) with
    | none => simp [hrs] at h0
    | some kr =>
      simp only [hrs] at h0 ⊢
      cases hsv : skipValue k.obj.rtype kr.2 with
      | none => simp [hsv] at h0
      | some r =>
        simp only [hsv, Option.some.injEq, Prod.mk.injEq] at h0 ⊢
        obtain ⟨a, _, c⟩ := h0
        exact ⟨a, by simp, c⟩
  refine ⟨{ metaOf k {} with db := (ls.db : Int), key := k.key.val, type := k.obj.rtype,
                              obj := pobjOf k.key.val k.obj },
          { ({ ls with total := 0, read := 0 } : LState) with
              last := some { metaOf k {} with db := (ls.db : Int), key := k.key.val, type := k.obj.rtype,
                                              obj := pobjOf k.key.val k.obj } }, ?_, rfl, rfl, hm1, hm2, hm3,
          rfl, rfl, rfl, rfl, rfl⟩
  rw [hnext0]
  have hn : ¬ (ls.total - ls.read ≠ 0) := by omega
  simp only [nextLoop, hn, if_false, n1, n2, n3, n4, n5, n6, n7, n8, n9, n10, n11, hrb]
  rfl

/-- the expansion of one hash-table chunk -/
theorem execCmd_hash_chunk (x : XCfg) (p : PObj) (hr : p.rtype = 4) :
    execCmd x p = (hashPairs p).map (fun ps => ps.map (fun q => cmdB b!"HSET" [p.key, q.1, q.2])) := by
  unfold execCmd
  rw [hr]
  have : otypeOf 4 = some .hash := by decide
  simp [this]


end GunYu.Rdb
