/-
  Helper lemmas for C03: replaying an expansion into an empty keyspace builds
  exactly the value (replay oracle folds).
-/
import GunYu.Model.Rdb.Value

namespace GunYu.RedisSem
open GunYu GunYu.Rdb

theorem get_nil (k : Bytes) : get [] k = none := rfl
theorem put_nil (k : Bytes) (v : Val) (t : Nat) : put [] k v t = [(k, v, t)] := rfl

theorem get_single (k : Bytes) (v : Val) (t : Nat) : get [(k, v, t)] k = some (v, t) := by
  simp [get]

theorem put_single (k : Bytes) (v v' : Val) (t t' : Nat) : put [(k, v, t)] k v' t' = [(k, v', t')] := by
  simp [put]

theorem lower_RPUSH : lower b!"RPUSH" = b!"rpush" := by decide
theorem lower_SADD : lower b!"SADD" = b!"sadd" := by decide
theorem lower_ZADD : lower b!"ZADD" = b!"zadd" := by decide
theorem lower_HSET : lower b!"HSET" = b!"hset" := by decide
theorem lower_set : lower b!"set" = b!"set" := by decide

theorem apply_rpush (ks : Keyspace) (k e : Bytes) :
    applyXCmd ks (cmdB b!"RPUSH" [k, e]) = doRpush ks k e := by
  simp [applyXCmd, applyCmd, cmdB, lower_RPUSH, argBytes]

theorem apply_sadd (ks : Keyspace) (k e : Bytes) :
    applyXCmd ks (cmdB b!"SADD" [k, e]) = doSadd ks k e := by
  simp [applyXCmd, applyCmd, cmdB, lower_SADD, argBytes]

theorem apply_zadd (ks : Keyspace) (k m : Bytes) (s : Arg) :
    applyXCmd ks ⟨b!"ZADD", [Arg.b k, s, Arg.b m]⟩ = doZadd ks k s m := by
  simp [applyXCmd, applyCmd, lower_ZADD, argBytes]

theorem apply_hset (ks : Keyspace) (k f v : Bytes) :
    applyXCmd ks (cmdB b!"HSET" [k, f, v]) = doHset ks k f v := by
  simp [applyXCmd, applyCmd, cmdB, lower_HSET, argBytes]

theorem apply_set (ks : Keyspace) (k v : Bytes) :
    applyXCmd ks (cmdB b!"set" [k, v]) = some (put ks k (.str v) 0) := by
  simp [applyXCmd, applyCmd, cmdB, lower_set, argBytes]

/-! ### lists -/

theorem rpush_fold (k : Bytes) (es l : List Bytes) (t : Nat) :
    applyCmds [(k, .list l, t)] (es.map (fun e => cmdB b!"RPUSH" [k, e])) =
      some [(k, .list (l ++ es), t)] := by
  induction es generalizing l with
  | nil => simp [applyCmds]
  | cons e es ih =>
    simp only [List.map_cons, applyCmds, apply_rpush, doRpush, get_single, put_single]
    rw [ih]
    simp

theorem rpush_all (k : Bytes) (es : List Bytes) (h : es ≠ []) :
    applyCmds [] (es.map (fun e => cmdB b!"RPUSH" [k, e])) = some [(k, .list es, 0)] := by
  cases es with
  | nil => exact absurd rfl h
  | cons e es =>
    simp only [List.map_cons, applyCmds, apply_rpush, doRpush, get_nil, put_nil]
    rw [rpush_fold]
    simp

/-! ### sets -/

theorem sadd_fold (k : Bytes) (es l : List Bytes) (t : Nat) (hnd : (l ++ es).Nodup) :
    applyCmds [(k, .set l, t)] (es.map (fun e => cmdB b!"SADD" [k, e])) =
      some [(k, .set (l ++ es), t)] := by
  induction es generalizing l with
  | nil => simp [applyCmds]
  | cons e es ih =>
    have hnot : l.contains e = false := by
      have := List.nodup_append.mp hnd
      have hd := this.2.2 e
      simp only [List.contains_eq_mem, decide_eq_false_iff_not]
      intro hm
      exact (this.2.2 e hm e (List.mem_cons_self ..)) rfl
    simp only [List.map_cons, applyCmds, apply_sadd, doSadd, get_single, put_single, hnot]
    have hnd' : ((l ++ [e]) ++ es).Nodup := by simpa using hnd
    have := ih (l ++ [e]) hnd'
    simp only [Bool.false_eq_true, if_false]
    rw [this]
    simp

theorem sadd_all (k : Bytes) (es : List Bytes) (h : es ≠ []) (hnd : es.Nodup) :
    applyCmds [] (es.map (fun e => cmdB b!"SADD" [k, e])) = some [(k, .set es, 0)] := by
  cases es with
  | nil => exact absurd rfl h
  | cons e es =>
    simp only [List.map_cons, applyCmds, apply_sadd, doSadd, get_nil, put_nil]
    rw [sadd_fold k es [e] 0 (by simpa using hnd)]
    simp

/-! ### association lists (sorted sets, hashes) -/

theorem upsert_new {β} (l : List (Bytes × β)) (k : Bytes) (v : β) (h : ∀ e ∈ l, e.1 ≠ k) :
    upsert l k v = l ++ [(k, v)] := by
  unfold upsert
  have : l.any (fun e => e.1 == k) = false := by
    rw [List.any_eq_false]
    intro e he
    simpa using h e he
  simp [this]

theorem zadd_fold (k : Bytes) (ps l : List (Bytes × Arg)) (t : Nat) (hnd : ((l ++ ps).map (·.1)).Nodup) :
    applyCmds [(k, .zset l, t)] (ps.map (fun p => ⟨b!"ZADD", [Arg.b k, p.2, Arg.b p.1]⟩)) =
      some [(k, .zset (l ++ ps), t)] := by
  induction ps generalizing l with
  | nil => simp [applyCmds]
  | cons p ps ih =>
    have hnew : ∀ e ∈ l, e.1 ≠ p.1 := by
      intro e he heq
      rw [List.map_append, List.nodup_append] at hnd
      exact (hnd.2.2 e.1 (List.mem_map_of_mem he) p.1 (by simp)) heq
    simp only [List.map_cons, applyCmds, apply_zadd, doZadd, get_single, put_single, upsert_new l p.1 p.2 hnew]
    have hnd' : (((l ++ [(p.1, p.2)]) ++ ps).map (·.1)).Nodup := by simpa using hnd
    rw [ih (l ++ [(p.1, p.2)]) hnd']
    simp

theorem zadd_all (k : Bytes) (ps : List (Bytes × Arg)) (h : ps ≠ []) (hnd : (ps.map (·.1)).Nodup) :
    applyCmds [] (ps.map (fun p => ⟨b!"ZADD", [Arg.b k, p.2, Arg.b p.1]⟩)) = some [(k, .zset ps, 0)] := by
  cases ps with
  | nil => exact absurd rfl h
  | cons p ps =>
    simp only [List.map_cons, applyCmds, apply_zadd, doZadd, get_nil, put_nil]
    rw [zadd_fold k ps [(p.1, p.2)] 0 (by simpa using hnd)]
    simp

theorem hset_fold (k : Bytes) (ps l : List (Bytes × Bytes)) (t : Nat) (hnd : ((l ++ ps).map (·.1)).Nodup) :
    applyCmds [(k, .hash l, t)] (ps.map (fun p => cmdB b!"HSET" [k, p.1, p.2])) =
      some [(k, .hash (l ++ ps), t)] := by
  induction ps generalizing l with
  | nil => simp [applyCmds]
  | cons p ps ih =>
    have hnew : ∀ e ∈ l, e.1 ≠ p.1 := by
      intro e he heq
      rw [List.map_append, List.nodup_append] at hnd
      exact (hnd.2.2 e.1 (List.mem_map_of_mem he) p.1 (by simp)) heq
    simp only [List.map_cons, applyCmds, apply_hset, doHset, get_single, put_single, upsert_new l p.1 p.2 hnew]
    have hnd' : (((l ++ [(p.1, p.2)]) ++ ps).map (·.1)).Nodup := by simpa using hnd
    rw [ih (l ++ [(p.1, p.2)]) hnd']
    simp

theorem hset_all (k : Bytes) (ps : List (Bytes × Bytes)) (h : ps ≠ []) (hnd : (ps.map (·.1)).Nodup) :
    applyCmds [] (ps.map (fun p => cmdB b!"HSET" [k, p.1, p.2])) = some [(k, .hash ps, 0)] := by
  cases ps with
  | nil => exact absurd rfl h
  | cons p ps =>
    simp only [List.map_cons, applyCmds, apply_hset, doHset, get_nil, put_nil]
    rw [hset_fold k ps [(p.1, p.2)] 0 (by simpa using hnd)]
    simp

/-! ### frame: other keys of the keyspace are untouched -/

theorem any_false_of_get_none (ks : Keyspace) (k : Bytes) (h : get ks k = none) :
    ks.any (fun e => e.1 == k) = false := by
  unfold get at h
  cases hf : ks.find? (fun e => e.1 == k) with
  | some x => simp [hf] at h
  | none =>
    rw [List.find?_eq_none] at hf
    rw [List.any_eq_false]
    exact hf

theorem get_frame (ks : Keyspace) (k : Bytes) (v : Val) (t : Nat) (h : get ks k = none) :
    get (ks ++ [(k, v, t)]) k = some (v, t) := by
  have ha := any_false_of_get_none ks k h
  unfold get
  rw [List.find?_append]
  have : ks.find? (fun e => e.1 == k) = none := by
    rw [List.find?_eq_none]; rw [List.any_eq_false] at ha; exact ha
  simp [this]

theorem map_id_of_mem {α} (l : List α) (f : α → α) (h : ∀ a ∈ l, f a = a) : l.map f = l := by
  induction l with
  | nil => rfl
  | cons a l ih =>
    rw [List.map_cons, h a (List.mem_cons_self ..), ih (fun x hx => h x (List.mem_cons_of_mem _ hx))]

theorem put_frame (ks : Keyspace) (k : Bytes) (v v' : Val) (t t' : Nat) (h : get ks k = none) :
    put (ks ++ [(k, v, t)]) k v' t' = ks ++ [(k, v', t')] := by
  have ha := any_false_of_get_none ks k h
  unfold put
  have hany : (ks ++ [(k, v, t)]).any (fun e => e.1 == k) = true := by simp
  rw [hany]
  simp only [if_true, List.map_append, List.map_cons, List.map_nil, beq_self_eq_true]
  congr 1
  rw [List.any_eq_false] at ha
  apply map_id_of_mem
  intro e he
  have := ha e he
  simp at this
  simp [this]

theorem put_new (ks : Keyspace) (k : Bytes) (v : Val) (t : Nat) (h : get ks k = none) :
    put ks k v t = ks ++ [(k, v, t)] := by
  unfold put
  rw [any_false_of_get_none ks k h]
  simp

/-- replaying commands that only touch key `k` into a keyspace that does not hold
    `k` is replaying them into the empty keyspace, next to the untouched rest -/
theorem rpush_fold_frame (ks : Keyspace) (k : Bytes) (es l : List Bytes) (t : Nat) (h : get ks k = none) :
    applyCmds (ks ++ [(k, .list l, t)]) (es.map (fun e => cmdB b!"RPUSH" [k, e])) =
      some (ks ++ [(k, .list (l ++ es), t)]) := by
  induction es generalizing l with
  | nil => simp [applyCmds]
  | cons e es ih =>
    simp only [List.map_cons, applyCmds, apply_rpush, doRpush, get_frame ks k _ _ h, put_frame ks k _ _ _ _ h]
    rw [ih]
    simp

theorem sadd_fold_frame (ks : Keyspace) (k : Bytes) (es l : List Bytes) (t : Nat) (h : get ks k = none)
    (hnd : (l ++ es).Nodup) :
    applyCmds (ks ++ [(k, .set l, t)]) (es.map (fun e => cmdB b!"SADD" [k, e])) =
      some (ks ++ [(k, .set (l ++ es), t)]) := by
  induction es generalizing l with
  | nil => simp [applyCmds]
  | cons e es ih =>
    have hnot : l.contains e = false := by
      have := List.nodup_append.mp hnd
      simp only [List.contains_eq_mem, decide_eq_false_iff_not]
      intro hm
      exact (this.2.2 e hm e (List.mem_cons_self ..)) rfl
    simp only [List.map_cons, applyCmds, apply_sadd, doSadd, get_frame ks k _ _ h, put_frame ks k _ _ _ _ h, hnot]
    have hnd' : ((l ++ [e]) ++ es).Nodup := by simpa using hnd
    have := ih (l ++ [e]) hnd'
    simp only [Bool.false_eq_true, if_false]
    rw [this]
    simp

theorem zadd_fold_frame (ks : Keyspace) (k : Bytes) (ps l : List (Bytes × Arg)) (t : Nat) (h : get ks k = none)
    (hnd : ((l ++ ps).map (·.1)).Nodup) :
    applyCmds (ks ++ [(k, .zset l, t)]) (ps.map (fun p => ⟨b!"ZADD", [Arg.b k, p.2, Arg.b p.1]⟩)) =
      some (ks ++ [(k, .zset (l ++ ps), t)]) := by
  induction ps generalizing l with
  | nil => simp [applyCmds]
  | cons p ps ih =>
    have hnew : ∀ e ∈ l, e.1 ≠ p.1 := by
      intro e he heq
      rw [List.map_append, List.nodup_append] at hnd
      exact (hnd.2.2 e.1 (List.mem_map_of_mem he) p.1 (by simp)) heq
    simp only [List.map_cons, applyCmds, apply_zadd, doZadd, get_frame ks k _ _ h, put_frame ks k _ _ _ _ h,
      upsert_new l p.1 p.2 hnew]
    have hnd' : (((l ++ [(p.1, p.2)]) ++ ps).map (·.1)).Nodup := by simpa using hnd
    rw [ih (l ++ [(p.1, p.2)]) hnd']
    simp

theorem hset_fold_frame (ks : Keyspace) (k : Bytes) (ps l : List (Bytes × Bytes)) (t : Nat) (h : get ks k = none)
    (hnd : ((l ++ ps).map (·.1)).Nodup) :
    applyCmds (ks ++ [(k, .hash l, t)]) (ps.map (fun p => cmdB b!"HSET" [k, p.1, p.2])) =
      some (ks ++ [(k, .hash (l ++ ps), t)]) := by
  induction ps generalizing l with
  | nil => simp [applyCmds]
  | cons p ps ih =>
    have hnew : ∀ e ∈ l, e.1 ≠ p.1 := by
      intro e he heq
      rw [List.map_append, List.nodup_append] at hnd
      exact (hnd.2.2 e.1 (List.mem_map_of_mem he) p.1 (by simp)) heq
    simp only [List.map_cons, applyCmds, apply_hset, doHset, get_frame ks k _ _ h, put_frame ks k _ _ _ _ h,
      upsert_new l p.1 p.2 hnew]
    have hnd' : (((l ++ [(p.1, p.2)]) ++ ps).map (·.1)).Nodup := by simpa using hnd
    rw [ih (l ++ [(p.1, p.2)]) hnd']
    simp

/-- the whole expansion of a fresh key, next to an arbitrary rest of the keyspace -/
theorem cmds_frame (ks : Keyspace) (k : Bytes) (o : ObjE) (hk : o.kind ≠ .other) (hne : o.nonempty)
    (hd : o.members.Nodup) (h : get ks k = none) :
    applyCmds ks (o.cmds k) = some (ks ++ [(k, o.value, 0)]) := by
  unfold ObjE.cmds ObjE.value
  unfold ObjE.nonempty at hne
  unfold ObjE.members at hd
  cases hkind : o.kind with
  | other => exact absurd hkind hk
  | str =>
    cases o with
    | str s => simp [applyCmds, apply_set, put_new ks k _ _ h]
    | _ => simp [ObjE.kind] at hkind
  | list =>
    simp only [hkind] at hne ⊢
    cases hes : o.elems with
    | nil => exact absurd hes hne
    | cons e es =>
      simp only [List.map_cons, applyCmds, apply_rpush, doRpush, h, put_new ks k _ _ h]
      rw [rpush_fold_frame ks k es [e] 0 h]; simp
  | set =>
    simp only [hkind] at hne hd ⊢
    cases hes : o.elems with
    | nil => exact absurd hes hne
    | cons e es =>
      rw [hes] at hd
      simp only [List.map_cons, applyCmds, apply_sadd, doSadd, h, put_new ks k _ _ h]
      rw [sadd_fold_frame ks k es [e] 0 h (by simpa using hd)]; simp
  | zset =>
    simp only [hkind] at hne hd ⊢
    cases hes : o.scored with
    | nil => exact absurd hes hne
    | cons p ps =>
      rw [hes] at hd
      simp only [List.map_cons, applyCmds, apply_zadd, doZadd, h, put_new ks k _ _ h]
      rw [zadd_fold_frame ks k ps [(p.1, p.2)] 0 h (by simpa using hd)]; simp
  | hash =>
    simp only [hkind] at hne hd ⊢
    cases hes : o.pairs with
    | nil => exact absurd hes hne
    | cons p ps =>
      rw [hes] at hd
      simp only [List.map_cons, applyCmds, apply_hset, doHset, h, put_new ks k _ _ h]
      rw [hset_fold_frame ks k ps [(p.1, p.2)] 0 h (by simpa using hd)]; simp

theorem applyCmds_append (ks : Keyspace) (a b : List Cmd) :
    applyCmds ks (a ++ b) = (applyCmds ks a).bind (fun ks' => applyCmds ks' b) := by
  induction a generalizing ks with
  | nil => simp [applyCmds]
  | cons c a ih =>
    simp only [List.cons_append, applyCmds]
    cases applyXCmd ks c with
    | none => simp
    | some ks' => simp [ih]

theorem lower_exists : lower b!"exists" = b!"exists" := by decide
theorem lower_pexpire : lower b!"pexpire" = b!"pexpire" := by decide

theorem apply_exists (ks : Keyspace) (k : Bytes) : applyXCmd ks (cmdB b!"exists" [k]) = some ks := by
  simp [applyXCmd, applyCmd, cmdB, lower_exists, argBytes]

theorem apply_pexpire (ks : Keyspace) (k t : Bytes) :
    applyXCmd ks (cmdB b!"pexpire" [k, t]) = doPexpire ks k t := by
  simp [applyXCmd, applyCmd, cmdB, lower_pexpire, argBytes]

end GunYu.RedisSem
