/-
  Helper lemmas for C03: replaying an expansion into an empty keyspace builds
  exactly the value (replay oracle folds).
-/
import GunYu.Model.Rdb.Value

namespace GunYu.RedisSem
open GunYu GunYu.Rdb

theorem get_nil (k : Bytes) : get [] k = none := rfl
theorem put_nil (k : Bytes) (v : Val) (t : Nat) : put [] k v t = [(k, v, t)] := rfl

theorem get_single (k : Bytes) (v : Val) (t : Nat) : get [(k, v, t)] k = some (v, t) := by
  simp [get]

theorem put_single (k : Bytes) (v v' : Val) (t t' : Nat) : put [(k, v, t)] k v' t' = [(k, v', t')] := by
  simp [put]

theorem lower_RPUSH : lower b!"RPUSH" = b!"rpush" := by decide
theorem lower_SADD : lower b!"SADD" = b!"sadd" := by decide
theorem lower_ZADD : lower b!"ZADD" = b!"zadd" := by decide
theorem lower_HSET : lower b!"HSET" = b!"hset" := by decide
theorem lower_set : lower b!"set" = b!"set" := by decide

theorem apply_rpush (ks : Keyspace) (k e : Bytes) :
    applyXCmd ks (cmdB b!"RPUSH" [k, e]) = doRpush ks k e := by
  simp [applyXCmd, applyCmd, cmdB, lower_RPUSH, argBytes]

theorem apply_sadd (ks : Keyspace) (k e : Bytes) :
    applyXCmd ks (cmdB b!"SADD" [k, e]) = doSadd ks k e := by
  simp [applyXCmd, applyCmd, cmdB, lower_SADD, argBytes]

theorem apply_zadd (ks : Keyspace) (k m : Bytes) (s : Arg) :
    applyXCmd ks ⟨b!"ZADD", [Arg.b k, s, Arg.b m]⟩ = doZadd ks k s m := by
  simp [applyXCmd, applyCmd, lower_ZADD, argBytes]

theorem apply_hset (ks : Keyspace) (k f v : Bytes) :
    applyXCmd ks (cmdB b!"HSET" [k, f, v]) = doHset ks k f v := by
  simp [applyXCmd, applyCmd, cmdB, lower_HSET, argBytes]

theorem apply_set (ks : Keyspace) (k v : Bytes) :
    applyXCmd ks (cmdB b!"set" [k, v]) = some (put ks k (.str v) 0) := by
  simp [applyXCmd, applyCmd, cmdB, lower_set, argBytes]

/-! ### lists -/

theorem rpush_fold (k : Bytes) (es l : List Bytes) (t : Nat) :
    applyCmds [(k, .list l, t)] (es.map (fun e => cmdB b!"RPUSH" [k, e])) =
      some [(k, .list (l ++ es), t)] := by
  induction es generalizing l with
  | nil => simp [applyCmds]
  | cons e es ih =>
    simp only [List.map_cons, applyCmds, apply_rpush, doRpush, get_single, put_single]
    rw [ih]
    simp

theorem rpush_all (k : Bytes) (es : List Bytes) (h : es ≠ []) :
    applyCmds [] (es.map (fun e => cmdB b!"RPUSH" [k, e])) = some [(k, .list es, 0)] := by
  cases es with
  | nil => exact absurd rfl h
  | cons e es =>
    simp only [List.map_cons, applyCmds, apply_rpush, doRpush, get_nil, put_nil]
    rw [rpush_fold]
    simp

/-! ### sets -/

theorem sadd_fold (k : Bytes) (es l : List Bytes) (t : Nat) (hnd : (l ++ es).Nodup) :
    applyCmds [(k, .set l, t)] (es.map (fun e => cmdB b!"SADD" [k, e])) =
      some [(k, .set (l ++ es), t)] := by
  induction es generalizing l with
  | nil => simp [applyCmds]
  | cons e es ih =>
    have hnot : l.contains e = false := by
      have := List.nodup_append.mp hnd
      have hd := this.2.2 e
      simp only [List.contains_eq_mem, decide_eq_false_iff_not]
      intro hm
      exact (this.2.2 e hm e (List.mem_cons_self ..)) rfl
    simp only [List.map_cons, applyCmds, apply_sadd, doSadd, get_single, put_single, hnot]
    have hnd' : ((l ++ [e]) ++ es).Nodup := by simpa using hnd
    have := ih (l ++ [e]) hnd'
    simp only [Bool.false_eq_true, if_false]
    rw [this]
    simp

theorem sadd_all (k : Bytes) (es : List Bytes) (h : es ≠ []) (hnd : es.Nodup) :
    applyCmds [] (es.map (fun e => cmdB b!"SADD" [k, e])) = some [(k, .set es, 0)] := by
  cases es with
  | nil => exact absurd rfl h
  | cons e es =>
    simp only [List.map_cons, applyCmds, apply_sadd, doSadd, get_nil, put_nil]
    rw [sadd_fold k es [e] 0 (by simpa using hnd)]
    simp

/-! ### association lists (sorted sets, hashes) -/

theorem upsert_new {β} (l : List (Bytes × β)) (k : Bytes) (v : β) (h : ∀ e ∈ l, e.1 ≠ k) :
    upsert l k v = l ++ [(k, v)] := by
  unfold upsert
  have : l.any (fun e => e.1 == k) = false := by
    rw [List.any_eq_false]
    intro e he
    simpa using h e he
  simp [this]

theorem zadd_fold (k : Bytes) (ps l : List (Bytes × Arg)) (t : Nat) (hnd : ((l ++ ps).map (·.1)).Nodup) :
    applyCmds [(k, .zset l, t)] (ps.map (fun p => ⟨b!"ZADD", [Arg.b k, p.2, Arg.b p.1]⟩)) =
      some [(k, .zset (l ++ ps), t)] := by
  induction ps generalizing l with
  | nil => simp [applyCmds]
  | cons p ps ih =>
    have hnew : ∀ e ∈ l, e.1 ≠ p.1 := by
      intro e he heq
      rw [List.map_append, List.nodup_append] at hnd
      exact (hnd.2.2 e.1 (List.mem_map_of_mem he) p.1 (by simp)) heq
    simp only [List.map_cons, applyCmds, apply_zadd, doZadd, get_single, put_single, upsert_new l p.1 p.2 hnew]
    have hnd' : (((l ++ [(p.1, p.2)]) ++ ps).map (·.1)).Nodup := by simpa using hnd
    rw [ih (l ++ [(p.1, p.2)]) hnd']
    simp

theorem zadd_all (k : Bytes) (ps : List (Bytes × Arg)) (h : ps ≠ []) (hnd : (ps.map (·.1)).Nodup) :
    applyCmds [] (ps.map (fun p => ⟨b!"ZADD", [Arg.b k, p.2, Arg.b p.1]⟩)) = some [(k, .zset ps, 0)] := by
  cases ps with
  | nil => exact absurd rfl h
  | cons p ps =>
    simp only [List.map_cons, applyCmds, apply_zadd, doZadd, get_nil, put_nil]
    rw [zadd_fold k ps [(p.1, p.2)] 0 (by simpa using hnd)]
    simp

theorem hset_fold (k : Bytes) (ps l : List (Bytes × Bytes)) (t : Nat) (hnd : ((l ++ ps).map (·.1)).Nodup) :
    applyCmds [(k, .hash l, t)] (ps.map (fun p => cmdB b!"HSET" [k, p.1, p.2])) =
      some [(k, .hash (l ++ ps), t)] := by
  induction ps generalizing l with
  | nil => simp [applyCmds]
  | cons p ps ih =>
    have hnew : ∀ e ∈ l, e.1 ≠ p.1 := by
      intro e he heq
      rw [List.map_append, List.nodup_append] at hnd
      exact (hnd.2.2 e.1 (List.mem_map_of_mem he) p.1 (by simp)) heq
    simp only [List.map_cons, applyCmds, apply_hset, doHset, get_single, put_single, upsert_new l p.1 p.2 hnew]
    have hnd' : (((l ++ [(p.1, p.2)]) ++ ps).map (·.1)).Nodup := by simpa using hnd
    rw [ih (l ++ [(p.1, p.2)]) hnd']
    simp

theorem hset_all (k : Bytes) (ps : List (Bytes × Bytes)) (h : ps ≠ []) (hnd : (ps.map (·.1)).Nodup) :
    applyCmds [] (ps.map (fun p => cmdB b!"HSET" [k, p.1, p.2])) = some [(k, .hash ps, 0)] := by
  cases ps with
  | nil => exact absurd rfl h
  | cons p ps =>
    simp only [List.map_cons, applyCmds, apply_hset, doHset, get_nil, put_nil]
    rw [hset_fold k ps [(p.1, p.2)] 0 (by simpa using hnd)]
    simp

end GunYu.RedisSem
