/-
  Helper lemmas for C03: the expansion of every (non-stream) encoded value is
  the expected command list.
-/
import GunYu.Model.Rdb.Value
import GunYu.Proofs.Rdb.Listpack
import GunYu.Proofs.Rdb.Sem

namespace GunYu.Rdb
open GunYu

theorem readString_enc' (s : SE) (h : s.wf) : readString s.enc = some (s.val, []) := by
  have := readString_enc s [] h
  simpa using this

theorem readStrings_enc (items : List SE) (rest : Bytes) (h : ∀ s ∈ items, s.wf) :
    readStrings items.length (flatEnc items ++ rest) = some (items.map SE.val, rest) := by
  induction items with
  | nil => simp [readStrings, flatEnc]
  | cons s items ih =>
    simp only [List.length_cons, flatEnc, List.flatMap_cons, List.append_assoc, readStrings]
    rw [readString_enc s _ (h s (List.mem_cons_self ..))]
    simp only
    have := ih (fun x hx => h x (List.mem_cons_of_mem _ hx))
    simp only [flatEnc] at this
    rw [this]
    rfl

theorem readPairs_enc (items : List (SE × SE)) (rest : Bytes) (h : ∀ p ∈ items, p.1.wf ∧ p.2.wf) :
    readPairs items.length (items.flatMap (fun p => p.1.enc ++ p.2.enc) ++ rest) =
      some (items.map (fun p => (p.1.val, p.2.val)), rest) := by
  induction items with
  | nil => simp [readPairs]
  | cons p items ih =>
    obtain ⟨h1, h2⟩ := h p (List.mem_cons_self ..)
    simp only [List.length_cons, List.flatMap_cons, List.append_assoc, readPairs]
    rw [readString_enc p.1 _ h1]
    simp only
    rw [readString_enc p.2 _ h2]
    simp only
    rw [ih (fun x hx => h x (List.mem_cons_of_mem _ hx))]
    rfl

theorem quicklistNodes_enc (nodes : List (SE × ZL)) (rest : Bytes)
    (h : ∀ n ∈ nodes, n.1.wf ∧ n.1.val = n.2.blob ∧ n.2.wf) :
    quicklistNodes nodes.length (nodes.flatMap (fun n => n.1.enc) ++ rest) =
      some (nodes.flatMap (fun n => n.2.vals)) := by
  induction nodes with
  | nil => simp [quicklistNodes]
  | cons n nodes ih =>
    obtain ⟨h1, h2, h3⟩ := h n (List.mem_cons_self ..)
    simp only [List.length_cons, List.flatMap_cons, List.append_assoc, quicklistNodes]
    rw [readString_enc n.1 _ h1]
    simp only
    rw [h2, zlAll_blob n.2 h3]
    simp only
    rw [ih (fun x hx => h x (List.mem_cons_of_mem _ hx))]

theorem quicklist2Nodes_enc (nodes : List QNode) (rest : Bytes) (h : ∀ n ∈ nodes, n.wf) :
    quicklist2Nodes nodes.length (nodes.flatMap QNode.enc ++ rest) = some (nodes.flatMap QNode.vals) := by
  induction nodes with
  | nil => simp [quicklist2Nodes]
  | cons n nodes ih =>
    have hn := h n (List.mem_cons_self ..)
    have ih' := ih (fun x hx => h x (List.mem_cons_of_mem _ hx))
    simp only [List.length_cons, List.flatMap_cons, List.append_assoc, quicklist2Nodes]
    cases n with
    | plain s =>
      have hs : s.wf := hn
      simp only [QNode.enc, List.append_assoc]
      rw [readLength_encLen .b6 1 _ (by decide) (by decide)]
      simp only
      rw [readString_enc s _ hs]
      simp only [if_true, ih', QNode.vals]
    | packed w es =>
      obtain ⟨hw, hv, hes⟩ := hn
      simp only [QNode.enc, List.append_assoc]
      rw [readLength_encLen .b6 2 _ (by decide) (by decide)]
      simp only
      rw [readString_enc w _ hw]
      simp only [show (2 : Nat) ≠ 1 by decide, if_false, if_true]
      rw [hv, lpAll_blob es hes]
      simp only [ih', QNode.vals]

theorem readFloatStr_enc (sc : Score1) (rest : Bytes) (h : sc.wf) :
    readFloatStr (sc.enc ++ rest) = some (sc.enc, rest) := by
  cases sc with
  | nan => simp [Score1.enc, readFloatStr]
  | pinf => simp [Score1.enc, readFloatStr]
  | ninf => simp [Score1.enc, readFloatStr]
  | ascii s =>
    obtain ⟨hl, _⟩ := h
    simp only [Score1.enc, List.cons_append, readFloatStr]
    rw [u8_toNat s.length (by omega)]
    have : ¬ s.length ≥ 253 := by omega
    simp only [this, if_false]
    rw [readN_append]

theorem floatStrBits_enc (sc : Score1) (h : sc.wf) : floatStrBits sc.enc = some sc.bits := by
  cases sc with
  | nan => simp [Score1.enc, floatStrBits, Score1.bits]
  | pinf => simp [Score1.enc, floatStrBits, Score1.bits]
  | ninf => simp [Score1.enc, floatStrBits, Score1.bits]
  | ascii s =>
    obtain ⟨hl, hd⟩ := h
    have c253 : (253 : UInt8).toNat = 253 := by decide
    have c254 : (254 : UInt8).toNat = 254 := by decide
    have c255 : (255 : UInt8).toNat = 255 := by decide
    have n1 := u8_ne s.length 253 (by omega) (by omega)
    have n2 := u8_ne s.length 254 (by omega) (by omega)
    have n3 := u8_ne s.length 255 (by omega) (by omega)
    cases hn : parseF64 s with
    | none => simp [hn] at hd
    | some bits =>
    simp only [Score1.enc, floatStrBits, n1, n2, n3, if_false, Score1.bits, hn, Option.getD_some]

theorem zset1Elems_enc (items : List (SE × Score1)) (rest : Bytes) (h : ∀ p ∈ items, p.1.wf ∧ p.2.wf) :
    zset1Elems items.length (items.flatMap (fun p => p.1.enc ++ p.2.enc) ++ rest) =
      some (items.map (fun p => (p.1.val, p.2.bits))) := by
  induction items with
  | nil => simp [zset1Elems]
  | cons p items ih =>
    obtain ⟨h1, h2⟩ := h p (List.mem_cons_self ..)
    simp only [List.length_cons, List.flatMap_cons, List.append_assoc, zset1Elems]
    rw [readString_enc p.1 _ h1]
    simp only
    rw [readFloatStr_enc p.2 _ h2]
    simp only
    rw [floatStrBits_enc p.2 h2]
    simp only
    rw [ih (fun x hx => h x (List.mem_cons_of_mem _ hx))]
    rfl

theorem zset2Elems_enc (items : List (SE × Nat)) (rest : Bytes) (h : ∀ p ∈ items, p.1.wf ∧ p.2 < 2 ^ 64) :
    zset2Elems items.length (items.flatMap (fun p => p.1.enc ++ leN 8 p.2) ++ rest) =
      some (items.map (fun p => (p.1.val, p.2))) := by
  induction items with
  | nil => simp [zset2Elems]
  | cons p items ih =>
    obtain ⟨h1, h2⟩ := h p (List.mem_cons_self ..)
    simp only [List.length_cons, List.flatMap_cons, List.append_assoc, zset2Elems]
    rw [readString_enc p.1 _ h1]
    simp only
    rw [readN_append' 8 _ _ (leN_length 8 _)]
    simp only [ofLE_leN' 8 p.2 (by simpa using h2)]
    rw [ih (fun x hx => h x (List.mem_cons_of_mem _ hx))]
    rfl

/-- the expansion of an encoded value is the expected command list -/
theorem execCmd_pobjOf (x : XCfg) (k : Bytes) (o : ObjE) (hwf : o.wf) (hk : o.kind ≠ .other) :
    execCmd x (pobjOf k o) = some (o.cmds k) := by
  cases o with
  | str s =>
    simp [execCmd, pobjOf, ObjE.rtype, otypeOf, ObjE.cmds, ObjE.kind]
  | listLinked f items =>
    obtain ⟨hf, h32, hi⟩ := hwf
    simp only [execCmd, pobjOf, ObjE.rtype, ObjE.ser, ObjE.cmds, ObjE.kind, ObjE.elems, listElems]
    have ho : otypeOf 1 = some .list := by decide
    simp only [ho, show ((1 : UInt8) = 10) = False by decide, if_false, if_true]
    rw [readLength_encLen f _ _ hf h32]
    simp only
    have := readStrings_enc items [] hi
    simp only [List.append_nil] at this
    rw [this]
    rfl
  | listZiplist w zl =>
    obtain ⟨hw, hv, hz⟩ := hwf
    simp only [execCmd, pobjOf, ObjE.rtype, ObjE.ser, ObjE.cmds, ObjE.kind, ObjE.elems, listElems]
    have ho : otypeOf 10 = some .list := by decide
    simp only [ho, if_true]
    rw [readString_enc' w hw]
    simp only
    rw [hv, zlAll_blob zl hz]
    rfl
  | listQuick f nodes =>
    obtain ⟨hf, h32, hn⟩ := hwf
    simp only [execCmd, pobjOf, ObjE.rtype, ObjE.ser, ObjE.cmds, ObjE.kind, ObjE.elems, listElems]
    have ho : otypeOf 14 = some .list := by decide
    simp only [ho, show ((14 : UInt8) = 10) = False by decide, show ((14 : UInt8) = 1) = False by decide,
      if_false, if_true]
    rw [readLength_encLen f _ _ hf h32]
    simp only
    have := quicklistNodes_enc nodes [] hn
    simp only [List.append_nil] at this
    rw [this]
    rfl
  | listQuick2 f nodes =>
    obtain ⟨hf, h32, hn⟩ := hwf
    simp only [execCmd, pobjOf, ObjE.rtype, ObjE.ser, ObjE.cmds, ObjE.kind, ObjE.elems, listElems]
    have ho : otypeOf 18 = some .list := by decide
    simp only [ho, show ((18 : UInt8) = 10) = False by decide, show ((18 : UInt8) = 1) = False by decide,
      show ((18 : UInt8) = 14) = False by decide, if_false, if_true]
    rw [readLength_encLen f _ _ hf h32]
    simp only
    have := quicklist2Nodes_enc nodes [] hn
    simp only [List.append_nil] at this
    rw [this]
    rfl
  | setTable f items =>
    obtain ⟨hf, h32, hi⟩ := hwf
    simp only [execCmd, pobjOf, ObjE.rtype, ObjE.ser, ObjE.cmds, ObjE.kind, ObjE.elems, setElems]
    have ho : otypeOf 2 = some .set := by decide
    simp only [ho, if_true]
    rw [readLength_encLen f _ _ hf h32]
    simp only
    have := readStrings_enc items [] hi
    simp only [List.append_nil] at this
    rw [this]
    rfl
  | setIntset w width vs =>
    obtain ⟨hw, hv, hwd, h32, hin⟩ := hwf
    simp only [execCmd, pobjOf, ObjE.rtype, ObjE.ser, ObjE.cmds, ObjE.kind, ObjE.elems, setElems]
    have ho : otypeOf 11 = some .set := by decide
    simp only [ho, show ((11 : UInt8) = 2) = False by decide, if_false, if_true]
    rw [readString_enc' w hw]
    simp only
    rw [hv, intsetAll_blob width vs hwd h32 hin]
    rfl
  | setListpack w es =>
    obtain ⟨hw, hv, hes⟩ := hwf
    simp only [execCmd, pobjOf, ObjE.rtype, ObjE.ser, ObjE.cmds, ObjE.kind, ObjE.elems, setElems]
    have ho : otypeOf 20 = some .set := by decide
    simp only [ho, show ((20 : UInt8) = 2) = False by decide, show ((20 : UInt8) = 11) = False by decide,
      if_false, if_true]
    rw [readString_enc' w hw]
    simp only
    rw [hv, lpAll_blob es hes]
    rfl
  | zset1 f items =>
    obtain ⟨hf, h32, hi⟩ := hwf
    simp only [execCmd, pobjOf, ObjE.rtype, ObjE.ser, ObjE.cmds, ObjE.kind, ObjE.scored]
    have ho : otypeOf 3 = some .zset := by decide
    simp only [ho, true_or, if_true]
    rw [readLength_encLen f _ _ hf h32]
    simp only
    have := zset1Elems_enc items [] hi
    simp only [List.append_nil] at this
    rw [this]
    simp [List.map_map, Function.comp_def]
  | zset2 f items =>
    obtain ⟨hf, h32, hi⟩ := hwf
    simp only [execCmd, pobjOf, ObjE.rtype, ObjE.ser, ObjE.cmds, ObjE.kind, ObjE.scored]
    have ho : otypeOf 5 = some .zset := by decide
    simp only [ho, or_true, if_true, show ((5 : UInt8) = 3) = False by decide, if_false]
    rw [readLength_encLen f _ _ hf h32]
    simp only
    have := zset2Elems_enc items [] hi
    simp only [List.append_nil] at this
    rw [this]
    simp [List.map_map, Function.comp_def]
  | zsetZiplist w zl =>
    obtain ⟨hw, hv, hz, he⟩ := hwf
    simp only [execCmd, pobjOf, ObjE.rtype, ObjE.ser, ObjE.cmds, ObjE.kind, ObjE.scored]
    have ho : otypeOf 12 = some .zset := by decide
    simp only [ho, show ((12 : UInt8) = 3) = False by decide, show ((12 : UInt8) = 5) = False by decide,
      or_self, if_false, if_true]
    rw [readString_enc' w hw]
    simp only
    rw [hv, zlPairs_blob zl hz he]
    simp [List.map_map, Function.comp_def, cmdB]
  | zsetListpack w es =>
    obtain ⟨hw, hv, hes, he⟩ := hwf
    simp only [execCmd, pobjOf, ObjE.rtype, ObjE.ser, ObjE.cmds, ObjE.kind, ObjE.scored]
    have ho : otypeOf 17 = some .zset := by decide
    simp only [ho, show ((17 : UInt8) = 3) = False by decide, show ((17 : UInt8) = 5) = False by decide,
      show ((17 : UInt8) = 12) = False by decide, or_self, if_false]
    rw [readString_enc' w hw]
    simp only
    rw [hv, lpPairs_blob es hes he]
    simp [List.map_map, Function.comp_def, cmdB]
  | hashTable f items =>
    obtain ⟨hf, h32, hi⟩ := hwf
    simp only [execCmd, pobjOf, ObjE.rtype, ObjE.ser, ObjE.cmds, ObjE.kind, ObjE.pairs, hashPairs, PObj.firstBin]
    have ho : otypeOf 4 = some .hash := by decide
    simp only [ho, if_true, decide_true, skipLength]
    rw [readLength_encLen f _ _ hf h32]
    simp only [Option.map_some, Nat.sub_zero]
    have := readPairs_enc items [] hi
    simp only [List.append_nil] at this
    rw [this]
    rfl
  | hashZipmap w items =>
    obtain ⟨hw, hv, hi⟩ := hwf
    simp only [execCmd, pobjOf, ObjE.rtype, ObjE.ser, ObjE.cmds, ObjE.kind, ObjE.pairs, hashPairs]
    have ho : otypeOf 9 = some .hash := by decide
    simp only [ho, show ((9 : UInt8) = 4) = False by decide, show ((9 : UInt8) = 13) = False by decide,
      show ((9 : UInt8) = 16) = False by decide, if_false, if_true]
    rw [readString_enc' w hw]
    simp only
    rw [hv, zipmapAll_blob items hi]
    rfl
  | hashZiplist w zl =>
    obtain ⟨hw, hv, hz, he⟩ := hwf
    simp only [execCmd, pobjOf, ObjE.rtype, ObjE.ser, ObjE.cmds, ObjE.kind, ObjE.pairs, hashPairs]
    have ho : otypeOf 13 = some .hash := by decide
    simp only [ho, show ((13 : UInt8) = 4) = False by decide, if_false, if_true]
    rw [readString_enc' w hw]
    simp only
    rw [hv, zlPairs_blob zl hz he]
    rfl
  | hashListpack w es =>
    obtain ⟨hw, hv, hes, he⟩ := hwf
    simp only [execCmd, pobjOf, ObjE.rtype, ObjE.ser, ObjE.cmds, ObjE.kind, ObjE.pairs, hashPairs]
    have ho : otypeOf 16 = some .hash := by decide
    simp only [ho, show ((16 : UInt8) = 4) = False by decide, show ((16 : UInt8) = 13) = False by decide,
      if_false, if_true]
    rw [readString_enc' w hw]
    simp only
    rw [hv, lpPairs_blob es hes he]
    rfl
  | stream s => exact absurd rfl hk
  | module2 id ops => exact absurd rfl hk
  | raw t b => exact absurd rfl hk

end GunYu.Rdb
