/-
  Helper lemmas for C14 (Props/C14.lean) about Model/Frontier.lean. Core only.
  Part 1: RebuildBisyncFrontier never passes a missing sequence number.
-/
import GunYu.Model.Frontier

namespace GunYu.Frontier
open GunYu

set_option linter.unusedSimpArgs false
set_option linter.unusedVariables false

/-- what `seqMap[n]` can be: a record of the list carrying sequence number `n > 0` -/
theorem pickStep_some (n : Int) (acc : Option Rec) (x r : Rec) (h : pickStep n acc x = some r) :
    acc = some r ∨ (r = x ∧ x.seq = n ∧ 0 < x.seq) := by
  unfold pickStep at h
  by_cases h1 : x.seq ≤ 0
  · rw [if_pos h1] at h; exact Or.inl h
  · by_cases h2 : x.seq ≠ n
    · rw [if_neg h1, if_pos h2] at h; exact Or.inl h
    · have hx : x.seq = n := Classical.not_not.mp h2
      rw [if_neg h1, if_neg h2] at h
      cases acc with
      | none => simp only [Option.some.injEq] at h; exact Or.inr ⟨h.symm, hx, by omega⟩
      | some e =>
        simp only at h
        split at h
        · simp only [Option.some.injEq] at h; exact Or.inr ⟨h.symm, hx, by omega⟩
        · exact Or.inl h

theorem pick_foldl (n : Int) (recs : List Rec) :
    ∀ (acc : Option Rec) (pre : List Rec),
      (∀ r, acc = some r → r.seq = n ∧ 0 < r.seq ∧ r ∈ pre) →
      ∀ r, recs.foldl (pickStep n) acc = some r → r.seq = n ∧ 0 < r.seq ∧ r ∈ pre ++ recs := by
  induction recs with
  | nil => intro acc pre h r hr; simpa using h r hr
  | cons x recs ih =>
    intro acc pre h r hr
    simp only [List.foldl_cons] at hr
    have := ih (pickStep n acc x) (pre ++ [x]) ?_ r hr
    · simpa using this
    · intro r' hr'
      rcases pickStep_some n acc x r' hr' with h1 | ⟨rfl, hx, hpos⟩
      · obtain ⟨a, b, c⟩ := h r' h1; exact ⟨a, b, List.mem_append_left _ c⟩
      · exact ⟨hx, hpos, by simp⟩

theorem pick_some {recs : List Rec} {n : Int} {r : Rec} (h : pick recs n = some r) :
    r.seq = n ∧ 0 < r.seq ∧ r ∈ recs := by
  have := pick_foldl n recs none [] (by intro r hr; exact absurd hr (by simp)) r h
  simpa using this

/-- the advancing loop: never before the start, every sequence number it passes is in a
    record, the final offset / run id are those of a record carrying the final number -/
theorem advance_spec (recs : List Rec) :
    ∀ (fuel : Nat) (cur : Snap),
      cur.seq ≤ (advance fuel recs cur).seq ∧
      (∀ m, cur.seq < m → m ≤ (advance fuel recs cur).seq → ∃ r ∈ recs, r.seq = m ∧ 0 < r.seq) ∧
      (cur.seq < (advance fuel recs cur).seq →
        ∃ r ∈ recs, r.seq = (advance fuel recs cur).seq ∧ r.endOff = (advance fuel recs cur).offset ∧
          r.runId = (advance fuel recs cur).runId) ∧
      ((advance fuel recs cur).seq = cur.seq → advance fuel recs cur = cur) ∧
      (advance fuel recs cur).version = cur.version := by
  intro fuel
  induction fuel with
  | zero =>
    intro cur
    refine ⟨by simp [advance], ?_, by simp [advance], by simp [advance], by simp [advance]⟩
    intro m h1 h2; simp only [advance] at h2; omega
  | succ fuel ih =>
    intro cur
    unfold advance
    cases hp : pick recs (cur.seq + 1) with
    | none =>
      refine ⟨by simp, ?_, by simp, by simp, by simp⟩
      intro m h1 h2; simp only at h2; omega
    | some r =>
      simp only
      obtain ⟨hs, hpos, hmem⟩ := pick_some hp
      obtain ⟨h1, h2, h3, h4, h5⟩ := ih (stepSnap cur r)
      have hss : (stepSnap cur r).seq = r.seq := rfl
      have hsv : (stepSnap cur r).version = cur.version := rfl
      rw [hss] at h1 h2 h3 h4
      refine ⟨by omega, ?_, ?_, ?_, by rw [h5, hsv]⟩
      · intro m hlo hhi
        by_cases hm : m = cur.seq + 1
        · exact ⟨r, hmem, by rw [hm, hs], hpos⟩
        · exact h2 m (by omega) hhi
      · intro _
        by_cases hadv : r.seq < (advance fuel recs (stepSnap cur r)).seq
        · exact h3 hadv
        · have heq : (advance fuel recs (stepSnap cur r)).seq = r.seq := by omega
          rw [h4 heq]
          exact ⟨r, hmem, rfl, rfl, rfl⟩
      · intro heq; omega

/-- the sequence number a rebuild starts from -/
def baseSeq (snap : Option Snap) : Int := match snap with | some s => s.seq | none => 0

theorem rebuild_spec (ver : Bytes) (snap : Option Snap) (recs : List Rec) (res : Snap)
    (h : rebuild ver snap recs = .ok (some res)) :
    baseSeq snap ≤ res.seq ∧
    (∀ m, baseSeq snap < m → m ≤ res.seq → ∃ r ∈ recs, r.seq = m ∧ 0 < r.seq) ∧
    (baseSeq snap < res.seq → ∃ r ∈ recs, r.seq = res.seq ∧ r.endOff = res.offset ∧ r.runId = res.runId) ∧
    (res.seq = baseSeq snap → snap = some res ∨ (snap = none ∧ res.seq = 0)) := by
  unfold rebuild at h
  by_cases he : recs.isEmpty = true
  · rw [if_pos he] at h
    simp only [Except.ok.injEq] at h
    subst h
    refine ⟨by simp [baseSeq], ?_, by simp [baseSeq], by simp [baseSeq]⟩
    intro m h1 h2; simp only [baseSeq] at h1; omega
  · rw [if_neg he] at h
    cases snap with
    | none =>
      simp only at h
      split at h
      · exact absurd h (by simp)
      · simp only [Except.ok.injEq, Option.some.injEq] at h
        obtain ⟨h1, h2, h3, h4, _⟩ := advance_spec recs recs.length
          { runId := [], seq := 0, offset := 0, mtime := 0, version := ver }
        rw [h] at h1 h2 h3 h4
        refine ⟨h1, h2, h3, ?_⟩
        intro heq; right; exact ⟨rfl, heq⟩
    | some s =>
      simp only at h
      split at h
      · exact absurd h (by simp)
      · simp only [Except.ok.injEq, Option.some.injEq] at h
        obtain ⟨h1, h2, h3, h4, _⟩ := advance_spec recs recs.length s
        rw [h] at h1 h2 h3 h4
        refine ⟨h1, h2, h3, ?_⟩
        intro heq; left; rw [h4 heq]

end GunYu.Frontier
