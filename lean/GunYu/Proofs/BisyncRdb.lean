/-
  Helper lemmas for C18, snapshot phase: every command of the list
  `buildBisyncRdbReplayUnit` assembles (expanded form with key rewriting,
  DEL prefix, PEXPIRE suffix; RESTORE form) resolves to exactly the target key.
-/
import GunYu.Proofs.BisyncCommit
import GunYu.Proofs.FilterKeys
import GunYu.Proofs.FilterParse

namespace GunYu.BisyncUnit
open GunYu

/-- what an object parser hands over for an entry with key `src`: the static
    tables name key positions, all holding `src`, and those positions do not
    move when the arguments there are replaced by `tgt` -/
def RawOn (src tgt : Bytes) (c : Cmd) : Prop :=
  ∃ idx, Filter.keyIndexes (lower c.name) c.args = some idx ∧
    (∀ i ∈ idx, c.args.getD i [] = src) ∧
    Filter.keyIndexes (lower c.name) (rewriteRdbKeys (lower c.name) c.args src tgt) = some idx

/-- all resolved keys of `c` are `tgt`, and there is at least one -/
def OnKey (tgt : Bytes) (c : Cmd) : Prop :=
  ∃ ks, commandKeys c.name c.args = some ks ∧ ks ≠ [] ∧ ∀ x ∈ ks, x = tgt

theorem rewrite_length (name : Bytes) (args : List Bytes) (src tgt : Bytes) :
    (rewriteRdbKeys name args src tgt).length = args.length := by
  unfold rewriteRdbKeys
  split
  · rfl
  · split
    · rfl
    · exact List.length_mapIdx

theorem rewrite_getD (name : Bytes) (args : List Bytes) (src tgt : Bytes) (idx : List Nat)
    (hidx : Filter.keyIndexes name args = some idx) (hemp : src.isEmpty = true → tgt = src)
    (i : Nat) (hi : i ∈ idx) (hlt : i < args.length) (hsrc : args.getD i [] = src) :
    (rewriteRdbKeys name args src tgt).getD i [] = tgt := by
  unfold rewriteRdbKeys
  split
  · rename_i h
    rw [hsrc]
    rw [Bool.or_eq_true] at h
    rcases h with h | h
    · exact (hemp h).symm
    · exact (by simpa using h)
  · rw [hidx]
    simp only
    rw [List.getD_eq_getElem?_getD, List.getElem?_mapIdx, List.getElem?_eq_getElem hlt]
    have hsrc' : args[i] = src := by
      rw [List.getD_eq_getElem?_getD, List.getElem?_eq_getElem hlt] at hsrc
      simpa using hsrc
    simp only [Option.map_some, Option.getD_some, hsrc', beq_self_eq_true, Bool.and_true]
    have hc : idx.contains i = true := by simpa using hi
    rw [hc]; rfl

theorem onKey_of_raw (src tgt : Bytes) (c : Cmd) (hemp : src.isEmpty = true → tgt = src) (h : RawOn src tgt c) :
    OnKey tgt ⟨lower c.name, rewriteRdbKeys (lower c.name) c.args src tgt⟩ := by
  obtain ⟨idx, hidx, hon, hst⟩ := h
  obtain ⟨hne, hrange⟩ := Filter.keyIndexes_inRange hidx
  obtain ⟨_, hrange'⟩ := Filter.keyIndexes_inRange hst
  refine ⟨idx.map (fun i => (rewriteRdbKeys (lower c.name) c.args src tgt).getD i []), ?_, ?_, ?_⟩
  · unfold commandKeys
    simp only
    rw [hst]
    simp only
    have h1 : idx.isEmpty = false := by simpa using hne
    have h2 : idx.any (fun i => i ≥ (rewriteRdbKeys (lower c.name) c.args src tgt).length) = false := by
      rw [List.any_eq_false]
      intro i hi
      have := hrange' i hi
      simp only [ge_iff_le, decide_eq_true_eq]
      omega
    simp only [h1, h2, Bool.false_eq_true, ↓reduceIte]
  · intro hm
    exact hne (List.map_eq_nil_iff.mp hm)
  · intro x hx
    obtain ⟨i, hi, rfl⟩ := List.mem_map.mp hx
    exact rewrite_getD _ _ _ _ idx hidx hemp i hi (hrange i hi) (hon i hi)

/-- commands of the first-key class of the tables (`set`, `hset`, `rpush`,
    `sadd`, `zadd`, `xadd`, … : position (1,1,1), no extractor) on the source
    key are `RawOn` -/
theorem rawOn_generic (src tgt : Bytes) (name : Bytes) (rest : List Bytes)
    (h1 : Gen.commandKeyExtractors.lookup (lower (lower name)) = none)
    (h2 : Gen.commandKeyPositions.lookup (lower (lower name)) = some (1, 1, 1)) :
    RawOn src tgt ⟨name, src :: rest⟩ := by
  have hk : ∀ k r, Filter.keyIndexes (lower name) (k :: r) = some [0] := fun k r => keyIndexes_generic (lower name) k r h1 h2
  refine ⟨[0], hk _ _, ?_, ?_⟩
  · intro i hi
    have : i = 0 := by simpa using hi
    rw [this]; rfl
  · have hlen := rewrite_length (lower name) (src :: rest) src tgt
    cases hr : rewriteRdbKeys (lower name) (src :: rest) src tgt with
    | nil => rw [hr] at hlen; simp at hlen
    | cons k r => exact hk k r

/-- `XGROUP <CREATE|SETID|DESTROY|CREATECONSUMER|DELCONSUMER> key …`: the key is
    the SECOND argument (extractor `xgroup`); rewriting it leaves the position -/
theorem rawOn_xgroup (src tgt name sub : Bytes) (rest : List Bytes)
    (h1 : Gen.commandKeyExtractors.lookup (lower (lower name)) = some .xgroup)
    (hsub : (lower sub == Filter.wCreate || lower sub == Filter.wSetid || lower sub == Filter.wDestroy ||
      lower sub == Filter.wCreateconsumer || lower sub == Filter.wDelconsumer) = true) :
    RawOn src tgt ⟨name, sub :: src :: rest⟩ := by
  have hk : ∀ k r, Filter.keyIndexes (lower name) (sub :: k :: r) = some [1] := by
    intro k r
    unfold Filter.keyIndexes
    simp only [List.isEmpty_cons, Bool.false_eq_true, ↓reduceIte, h1, Filter.runExtractor, Filter.xgroupIdx, hsub]
  refine ⟨[1], hk _ _, ?_, ?_⟩
  · intro i hi
    have : i = 1 := by simpa using hi
    rw [this]; rfl
  · have hshape : ∃ k r, rewriteRdbKeys (lower name) (sub :: src :: rest) src tgt = sub :: k :: r := by
      unfold rewriteRdbKeys
      split
      · exact ⟨src, rest, rfl⟩
      · rw [hk]
        simp only [List.mapIdx_cons]
        exact ⟨_, _, by simp; exact ⟨rfl, rfl⟩⟩
    obtain ⟨k, r, hr⟩ := hshape
    rw [hr]; exact hk k r

theorem onKey_del (tgt : Bytes) : OnKey tgt ⟨rDel, [tgt]⟩ := by
  refine ⟨[tgt], ?_, by simp, by simp⟩
  unfold commandKeys
  simp only
  rw [Filter.keyIndexes_del rDel (Or.inl (by decide)) [tgt] (by simp)]
  simp [List.range, List.range.loop]

theorem onKey_generic (tgt name : Bytes) (rest : List Bytes)
    (h1 : Gen.commandKeyExtractors.lookup (lower name) = none)
    (h2 : Gen.commandKeyPositions.lookup (lower name) = some (1, 1, 1)) : OnKey tgt ⟨name, tgt :: rest⟩ :=
  ⟨[tgt], commandKeys_generic name tgt rest h1 h2, by simp, by simp⟩

/-- **every command of the expanded form is on the target key** -/
theorem rdbExpanded_onKey (src tgt : Bytes) (raw : List Cmd) (delPrefix : Bool) (ttl : Option Bytes)
    (hemp : src.isEmpty = true → tgt = src) (hraw : ∀ c ∈ raw, RawOn src tgt c) :
    ∀ c ∈ rdbExpanded src tgt raw delPrefix ttl, OnKey tgt c := by
  intro c hc
  unfold rdbExpanded at hc
  rcases List.mem_append.mp hc with hc | hc
  · rcases List.mem_append.mp hc with hc | hc
    · cases delPrefix with
      | false => cases hc
      | true =>
        have : c = ⟨rDel, [tgt]⟩ := by simpa using hc
        rw [this]
        exact onKey_del tgt
    · obtain ⟨c0, hc0, rfl⟩ := List.mem_map.mp hc
      exact onKey_of_raw src tgt c0 hemp (hraw c0 hc0)
  · cases ttl with
    | none => cases hc
    | some t =>
      have : c = ⟨rPexpire, [tgt, t]⟩ := by simpa using hc
      rw [this]
      exact onKey_generic tgt rPexpire [t] (by decide +kernel) (by decide +kernel)

theorem rdbRestore_onKey (tgt ttl dump : Bytes) (opts : List Bytes) :
    ∀ c ∈ rdbRestore tgt ttl dump opts, OnKey tgt c := by
  intro c hc
  have : c = ⟨rRestore, tgt :: ttl :: dump :: opts⟩ := by simpa [rdbRestore] using hc
  rw [this]
  exact onKey_generic tgt rRestore _ (by decide +kernel) (by decide +kernel)

/-- with the static tables answering, the resolver's keys are the tables' -/
theorem resolved_of_onKey (fb : Bytes → List Bytes → Fb) (tgt : Bytes) (c : Cmd) (h : OnKey tgt c) :
    ∀ x ∈ resolvedKeys (resolverWith fb) c, x = tgt := by
  obtain ⟨ks, hk, _, hall⟩ := h
  have : resolverWith fb c.name c.args = .ok ks := by unfold resolverWith; rw [hk]
  rw [resolvedKeys_of_ok this]
  exact hall

end GunYu.BisyncUnit
