/-
  Helper lemmas for C14, part 6: the replay system with the memory of the process
  (Model/FrontierProc.lean) — restarts inside one process (frontier-miss fast path), loops that
  stop, clean-ups that give up. Core only.
-/
import GunYu.Model.FrontierProc
import GunYu.Proofs.FrontierTraffic

namespace GunYu.Frontier
open GunYu

set_option linter.unusedSimpArgs false
set_option linter.unusedVariables false

/-! ### small facts about queues and the coordinator -/

theorem QSafe_le_lastBound (ids : List Bytes) (q : List Req) : ∀ b, QSafe ids b q → b ≤ lastBound b q := by
  induction q with
  | nil => intro b _; exact Int.le_refl _
  | cons x q ih =>
    intro b h
    cases x with
    | saveFrontier f => exact Int.le_trans h.2.1 (ih _ h.2.2)
    | delRec k => exact ih _ h.2
    | zrem ks => exact ih _ h.2
    | delFrontier => exact h.elim
    | commit r => exact h.elim
    | commitLatest r => exact h.elim

theorem CoordOk.weaken {W : World} {c : Coord} {B B' : Int} (h : CoordOk W c B) (hb : B' ≤ B) :
    CoordOk W c B' := ⟨Int.le_trans hb h.cb, h.adv, h.vis, h.pend⟩

theorem coordFlush_frontier (c : Coord) (now : Int) : (coordFlush c now).1.frontier = c.frontier := by
  unfold coordFlush; split <;> rfl

theorem coordOnCommitted_frontier_le (c : Coord) (r : Rec) (now : Int) (pol : FlushPolicy) :
    c.frontier.seq ≤ (coordOnCommitted c r now pol).1.frontier.seq := by
  unfold coordOnCommitted
  generalize hc1 : ({ c with pending := c.pending.filter (fun x => x.seq ≠ r.seq) ++ [r] } : Coord) = c1
  have hc1f : c1.frontier = c.frontier := by rw [← hc1]
  obtain ⟨h1, _⟩ := coordAdvance_bound [] c1.pending.length c1
  simp only
  cases hadv : coordAdvance c1.pending.length c1 with
  | mk c2 adv =>
    rw [hadv] at h1
    simp only at h1 ⊢
    rw [hc1f] at h1
    split
    · exact h1
    · split
      · rw [coordFlush_frontier]; exact h1
      · exact h1

/-- a start that misses sees no snapshot above sequence 0 -/
theorem startMisses_snapSeq {ver : Bytes} {ns : NS} {ids : List Bytes} (h0 : 0 ≤ snapSeq ns ids)
    (h : startMisses ver ns ids = true) : snapSeq ns ids = 0 := by
  unfold startMisses at h
  unfold snapSeq at h0 ⊢
  cases hrb : rebuild ver (loadSnapshot ns ids) ((startRecords ns ids).map (·.r)) with
  | error m => exact (rebuild_zero ver _ _ h0 (Or.inl ⟨m, hrb⟩)).1
  | ok res =>
    cases res with
    | none => exact (rebuild_zero ver _ _ h0 (Or.inr (Or.inl hrb))).1
    | some f =>
      rw [hrb] at h
      simp only [decide_eq_true_eq] at h
      exact (rebuild_zero ver _ _ h0 (Or.inr (Or.inr ⟨f, hrb, h⟩))).1

/-- a start that does not miss returns a positive number or the root because it is newer -/
theorem startMisses_false {ver : Bytes} {ns : NS} {ids : List Bytes} (h : startMisses ver ns ids = false) :
    ∃ f, rebuild ver (loadSnapshot ns ids) ((startRecords ns ids).map (·.r)) = .ok (some f) ∧ f.seq > 0 := by
  unfold startMisses at h
  cases hrb : rebuild ver (loadSnapshot ns ids) ((startRecords ns ids).map (·.r)) with
  | error m => rw [hrb] at h; exact absurd h (by simp)
  | ok res =>
    cases res with
    | none => rw [hrb] at h; exact absurd h (by simp)
    | some f =>
      rw [hrb] at h
      simp only [decide_eq_false_iff_not] at h
      exact ⟨f, rfl, by omega⟩

/-! ### the four steps that neither start nor end a run -/

/-- what `commit`, `report`, `tick`, `apply` do to the fields the process invariant talks about -/
structure Quiet (s s' : TSys) : Prop where
  root : s'.ns.root = s.ns.root
  run : (s.run = none ∧ s' = s) ∨
        ∃ r r', s.run = some r ∧ s'.run = some r' ∧ r'.startSeq = r.startSeq ∧
          r.coord.frontier.seq ≤ r'.coord.frontier.seq
  rq : (s'.rq = s.rq ∧ (s.rq ≠ [] → s' = s)) ∨ ∃ q, s.rq = q :: s'.rq ∧ s'.ns = applyReq s.ns q ∧ s'.cq = s.cq
  com : ∀ x, x ∈ s.committed → x ∈ s'.committed

theorem tstep_quiet {W : World} {s : TSys} (hidle : s.run = none → s.rq = [] ∧ s.cq = []) (st : Step)
    (h1 : st ≠ .start) (h2 : st ≠ .crash) : Quiet s (tstep W s st) := by
  cases st with
  | start => exact absurd rfl h1
  | crash => exact absurd rfl h2
  | commit i mt =>
    cases hr : s.run with
    | none =>
      have e : tstep W s (.commit i mt) = s := by simp [tstep, hr]
      rw [e]; exact ⟨rfl, Or.inl ⟨hr, rfl⟩, Or.inl ⟨rfl, fun _ => rfl⟩, fun x hx => hx⟩
    | some r =>
      by_cases hc : s.rq = [] ∧ r.startSeq < i
      · have e : tstep W s (.commit i mt) =
            { s with ns := applyReq s.ns (Req.commit (unitRec W i mt)), committed := i :: s.committed } := by
          simp [tstep, hr, hc]
        rw [e]
        refine ⟨applyReq_root _ _, Or.inr ⟨r, r, hr, hr, rfl, Int.le_refl _⟩,
          Or.inl ⟨rfl, fun hn => absurd hc.1 hn⟩, fun x hx => List.mem_cons_of_mem _ hx⟩
      · have e : tstep W s (.commit i mt) = s := by simp [tstep, hr, hc]
        rw [e]; exact ⟨rfl, Or.inr ⟨r, r, hr, hr, rfl, Int.le_refl _⟩, Or.inl ⟨rfl, fun _ => rfl⟩, fun x hx => hx⟩
  | report i mt now =>
    cases hr : s.run with
    | none =>
      have e : tstep W s (.report i mt now) = s := by simp [tstep, hr]
      rw [e]; exact ⟨rfl, Or.inl ⟨hr, rfl⟩, Or.inl ⟨rfl, fun _ => rfl⟩, fun x hx => hx⟩
    | some r =>
      by_cases hc : s.rq = [] ∧ i ∈ s.committed ∧ r.startSeq < i
      · have e : tstep W s (.report i mt now) = { s with
            run := some { r with coord := (coordOnCommitted r.coord (unitRec W i mt) now W.pol).1 },
            cq := s.cq ++ (coordOnCommitted r.coord (unitRec W i mt) now W.pol).2 } := by
          simp [tstep, hr, hc]
        rw [e]
        refine ⟨rfl, Or.inr ⟨r, _, hr, rfl, rfl, coordOnCommitted_frontier_le _ _ _ _⟩,
          Or.inl ⟨rfl, fun hn => absurd hc.1 hn⟩, fun x hx => hx⟩
      · have e : tstep W s (.report i mt now) = s := by simp [tstep, hr, hc]
        rw [e]; exact ⟨rfl, Or.inr ⟨r, r, hr, hr, rfl, Int.le_refl _⟩, Or.inl ⟨rfl, fun _ => rfl⟩, fun x hx => hx⟩
  | tick now =>
    cases hr : s.run with
    | none =>
      have e : tstep W s (.tick now) = s := by simp [tstep, hr]
      rw [e]; exact ⟨rfl, Or.inl ⟨hr, rfl⟩, Or.inl ⟨rfl, fun _ => rfl⟩, fun x hx => hx⟩
    | some r =>
      by_cases hc : s.rq = []
      · have e : tstep W s (.tick now) = { s with
            run := some { r with coord := (coordFlush r.coord now).1 },
            cq := s.cq ++ (coordFlush r.coord now).2 } := by
          simp [tstep, hr, hc]
        rw [e]
        refine ⟨rfl, Or.inr ⟨r, _, hr, rfl, rfl, by rw [coordFlush_frontier]; exact Int.le_refl _⟩,
          Or.inl ⟨rfl, fun hn => absurd hc hn⟩, fun x hx => hx⟩
      · have e : tstep W s (.tick now) = s := by simp [tstep, hr, hc]
        rw [e]; exact ⟨rfl, Or.inr ⟨r, r, hr, hr, rfl, Int.le_refl _⟩, Or.inl ⟨rfl, fun _ => rfl⟩, fun x hx => hx⟩
  | apply =>
    have hrun : (s.run = none ∧ tstep W s .apply = s) ∨
        ∃ r r', s.run = some r ∧ (tstep W s .apply).run = some r' ∧ r'.startSeq = r.startSeq ∧
          r.coord.frontier.seq ≤ r'.coord.frontier.seq := by
      cases hr : s.run with
      | none =>
        obtain ⟨a, b⟩ := hidle hr
        left; exact ⟨rfl, by simp [tstep, a, b]⟩
      | some r =>
        right
        refine ⟨r, r, rfl, ?_, rfl, Int.le_refl _⟩
        simp only [tstep]
        split
        · exact hr
        · split <;> exact hr
    cases hq : s.rq with
    | cons q rest =>
      have e : tstep W s .apply = { s with ns := applyReq s.ns q, rq := rest } := by simp [tstep, hq]
      refine ⟨by rw [e]; exact applyReq_root _ _, hrun, Or.inr ⟨q, by rw [e]; exact hq, by rw [e], by rw [e]⟩,
        fun x hx => by rw [e]; exact hx⟩
    | nil =>
      cases hcq : s.cq with
      | nil =>
        have e : tstep W s .apply = s := by simp [tstep, hq, hcq]
        rw [e] at hrun ⊢
        exact ⟨rfl, hrun, Or.inl ⟨rfl, fun _ => rfl⟩, fun x hx => hx⟩
      | cons q rest =>
        have e : tstep W s .apply = { s with ns := applyReq s.ns q, cq := rest } := by simp [tstep, hq, hcq]
        refine ⟨by rw [e]; exact applyReq_root _ _, hrun, Or.inl ⟨by rw [e], fun hn => absurd hq hn⟩,
          fun x hx => by rw [e]; exact hx⟩

/-! ### the invariant of the system with the memory of the process -/

/-- the fast path will answer the next start of this process -/
def Armed (W : World) (ns : NS) (m : Mem) : Prop :=
  ∃ root, ns.root = some root ∧ root.1 ≠ [] ∧ matchRun root.1 W.ids = true ∧ m.miss = root.1

/-- the purge of a start that fell back to the root is outstanding -/
def PurgeOut (s : TSys) : Prop := ∃ r, s.run = some r ∧ r.startSeq = 0 ∧ s.rq ≠ []

structure PInv (W : World) (s : PSys) : Prop where
  ti : TInv W s.t
  rqcq : s.t.rq ≠ [] → s.t.cq = []
  runMem : ∀ r, s.t.run = some r → ∃ m, s.mem = some m
  adv : ∀ r, s.t.run = some r → r.startSeq ≤ r.coord.frontier.seq
  purge : ∀ r, s.t.run = some r → r.startSeq = 0 → s.t.rq ≠ [] → PurgeQ s.t.rq
  memOk : ∀ m, s.mem = some m →
    0 ≤ m.seq ∧ (0 < m.seq → m.off = W.e m.seq) ∧ PrefixCommitted s.t.committed m.seq
  snapLe : ∀ m, s.mem = some m → Armed W s.t.ns m → (s.t.run = none ∨ PurgeOut s.t) →
    snapSeq s.t.ns W.ids ≤ m.seq
  fl0 : s.mem = none → s.floor = 0
  flNonneg : 0 ≤ s.floor
  flRun : ∀ r, s.t.run = some r → s.floor = r.startSeq
  flMem : ∀ m, s.mem = some m → s.t.run = none → s.floor ≤ m.seq
  flFresh : (∀ m, s.mem = some m → ¬ Armed W s.t.ns m) → s.floor ≤ startSeqOf W.ver s.t.ns W.ids

theorem mono_of_strict {W : World} (hs : ∀ i j, i < j → W.e i < W.e j) : ∀ i j, i ≤ j → W.e i ≤ W.e j := by
  intro i j h
  by_cases e : i = j
  · rw [e]; exact Int.le_refl _
  · exact Int.le_of_lt (hs i j (by omega))

theorem purgeQ_tail {q : Req} {rest : List Req} (h : PurgeQ (q :: rest)) (hne : rest ≠ []) :
    PurgeQ rest ∧ ((∃ k, q = Req.delRec k) ∨ (∃ ks, q = Req.zrem ks)) := by
  obtain ⟨dels, hd, hdels⟩ := h
  cases dels with
  | nil =>
    simp only [List.nil_append, List.cons.injEq] at hd
    exact absurd hd.2 hne
  | cons d dels' =>
    simp only [List.cons_append, List.cons.injEq] at hd
    obtain ⟨rfl, hrest⟩ := hd
    exact ⟨⟨dels', hrest, fun x hx => hdels x (List.mem_cons_of_mem _ hx)⟩, hdels q (List.mem_cons_self ..)⟩

theorem fastPath_some {root : Bytes × Int × Nat} {ids : List Bytes} {m : Mem} {a : Nat × Bytes × Int × Int}
    (h : fastPath root ids m = some a) :
    root.1 ≠ [] ∧ matchRun root.1 ids = true ∧ m.miss = root.1 ∧
      ((m.seq > 0 ∧ m.off > root.2.1 ∧ a = (0, root.1, m.off, m.seq)) ∨
       (¬ (m.seq > 0 ∧ m.off > root.2.1) ∧ a = (root.2.2, root.1, root.2.1, 0))) := by
  unfold fastPath at h
  split at h
  · exact absurd h (by simp)
  · rename_i h1
    split at h
    · exact absurd h (by simp)
    · rename_i h2
      have h1' : root.1 ≠ [] ∧ matchRun root.1 ids = true := by
        constructor
        · intro e; exact h1 (Or.inl e)
        · cases hm : matchRun root.1 ids with
          | true => rfl
          | false => exact absurd (Or.inr hm) h1
      have h2' : m.miss = root.1 := by
        by_cases e : m.miss = root.1
        · exact e
        · exact absurd e h2
      split at h
      · rename_i h3
        simp only [Option.some.injEq] at h
        exact ⟨h1'.1, h1'.2, h2', Or.inl ⟨h3.1, h3.2, h.symm⟩⟩
      · rename_i h3
        simp only [Option.some.injEq] at h
        exact ⟨h1'.1, h1'.2, h2', Or.inr ⟨h3, h.symm⟩⟩

theorem fastPath_none {root : Bytes × Int × Nat} {ids : List Bytes} {m : Mem}
    (h : fastPath root ids m = none) : ¬ (root.1 ≠ [] ∧ matchRun root.1 ids = true ∧ m.miss = root.1) := by
  intro ⟨a, b, c⟩
  unfold fastPath at h
  rw [if_neg (by intro hh; rcases hh with hh | hh; exact a hh; rw [b] at hh; exact absurd hh (by simp))] at h
  rw [if_neg (by intro hh; exact hh c)] at h
  split at h <;> exact absurd h (by simp)

/-- every step keeps the invariant; the point a FRESH start would resume from does not move backwards;
    and unless the process dies, the number its latest start returned does not either -/
theorem pstep_pinv {W : World} (hs : ∀ i j, i < j → W.e i < W.e j) (hvis : matchRun W.rid W.ids = true)
    {s : PSys} (h : PInv W s) (st : PStep) :
    PInv W (pstep W s st) ∧
      startSeqOf W.ver s.t.ns W.ids ≤ startSeqOf W.ver (pstep W s st).t.ns W.ids ∧
      (st ≠ .sys .crash → s.floor ≤ (pstep W s st).floor) := by
  have hm := mono_of_strict hs
  have hsame : pstep W s st = s → PInv W (pstep W s st) ∧
      startSeqOf W.ver s.t.ns W.ids ≤ startSeqOf W.ver (pstep W s st).t.ns W.ids ∧
      (st ≠ .sys .crash → s.floor ≤ (pstep W s st).floor) := by
    intro e; rw [e]; exact ⟨h, Int.le_refl _, fun _ => Int.le_refl _⟩
  obtain ⟨root, hroot⟩ := h.ti.root
  have hroot0 : root.2.1 = W.e 0 := h.ti.hi.root root hroot
  -- the four quiet steps
  have hquiet : ∀ st', st' ≠ Step.start → st' ≠ Step.crash → pstep W s (.sys st') = { s with t := tstep W s.t st' } →
      PInv W (pstep W s (.sys st')) ∧
      startSeqOf W.ver s.t.ns W.ids ≤ startSeqOf W.ver (pstep W s (.sys st')).t.ns W.ids ∧
      (PStep.sys st' ≠ .sys .crash → s.floor ≤ (pstep W s (.sys st')).floor) := by
    intro st' h1 h2 e
    rw [e]
    obtain ⟨hti, hmono⟩ := tstep_tinv hm hvis h.ti st'
    have hq := tstep_quiet (W := W) h.ti.idle st' h1 h2
    refine ⟨?_, hmono, fun _ => Int.le_refl _⟩
    have harm : ∀ m, Armed W (tstep W s.t st').ns m ↔ Armed W s.t.ns m := by
      intro m; unfold Armed; rw [hq.root]
    refine ⟨hti, ?_, ?_, ?_, ?_, ?_, ?_, h.fl0, h.flNonneg, ?_, ?_, ?_⟩
    · -- rqcq
      intro hne
      rcases hq.rq with ⟨e1, e2⟩ | ⟨q, e1, _, e3⟩
      · rw [e1] at hne; rw [e2 hne]; exact h.rqcq hne
      · rw [e3]; exact h.rqcq (by rw [e1]; simp)
    · -- runMem
      intro r' hr'
      rcases hq.run with ⟨hn, e1⟩ | ⟨r, r'', hr, hr'', _, _⟩
      · rw [e1, hn] at hr'; exact absurd hr' (by simp)
      · exact h.runMem r hr
    · -- adv
      intro r' hr'
      rcases hq.run with ⟨hn, e1⟩ | ⟨r, r'', hr, hr'', e1, e2⟩
      · rw [e1, hn] at hr'; exact absurd hr' (by simp)
      · rw [hr''] at hr'; simp only [Option.some.injEq] at hr'; subst hr'
        rw [e1]; exact Int.le_trans (h.adv r hr) e2
    · -- purge
      intro r' hr' h0 hne
      rcases hq.run with ⟨hn, e1⟩ | ⟨r, r'', hr, hr'', e1, _⟩
      · rw [e1, hn] at hr'; exact absurd hr' (by simp)
      · rw [hr''] at hr'; simp only [Option.some.injEq] at hr'; subst hr'
        rw [e1] at h0
        rcases hq.rq with ⟨e3, _⟩ | ⟨q, e3, _, _⟩
        · rw [e3] at hne ⊢; exact h.purge r hr h0 hne
        · exact (purgeQ_tail (by rw [← e3]; exact h.purge r hr h0 (by rw [e3]; simp)) hne).1
    · -- memOk
      intro m hmem
      obtain ⟨a, b, c⟩ := h.memOk m hmem
      exact ⟨a, b, fun j h1 h2 => hq.com j (c j h1 h2)⟩
    · -- snapLe
      intro m hmem harm' hcase
      rw [harm] at harm'
      rcases hq.run with ⟨hn, e1⟩ | ⟨r, r'', hr, hr'', e1, _⟩
      · rw [e1]; exact h.snapLe m hmem harm' (Or.inl hn)
      · rcases hcase with hcase | ⟨r3, hr3, h0, hne⟩
        · rw [hr''] at hcase; exact absurd hcase (by simp)
        · rw [hr''] at hr3; simp only [Option.some.injEq] at hr3; subst hr3
          rw [e1] at h0
          rcases hq.rq with ⟨e3, e4⟩ | ⟨q, e3, e4, _⟩
          · rw [e3] at hne; rw [e4 hne]; exact h.snapLe m hmem harm' (Or.inr ⟨r, hr, h0, hne⟩)
          · have hpo : PurgeOut s.t := ⟨r, hr, h0, by rw [e3]; simp⟩
            have hle := h.snapLe m hmem harm' (Or.inr hpo)
            have hpq := h.purge r hr h0 (by rw [e3]; simp)
            rw [e3] at hpq
            obtain ⟨_, hdq⟩ := purgeQ_tail hpq hne
            rw [e4]
            rcases hdq with ⟨k, rfl⟩ | ⟨ks, rfl⟩
            · exact hle
            · exact hle
    · -- flRun
      intro r' hr'
      rcases hq.run with ⟨hn, e1⟩ | ⟨r, r'', hr, hr'', e1, _⟩
      · rw [e1, hn] at hr'; exact absurd hr' (by simp)
      · rw [hr''] at hr'; simp only [Option.some.injEq] at hr'; subst hr'
        rw [e1]; exact h.flRun r hr
    · -- flMem
      intro m hmem hn'
      rcases hq.run with ⟨hn, e1⟩ | ⟨r, r'', hr, hr'', _, _⟩
      · exact h.flMem m hmem hn
      · rw [hr''] at hn'; exact absurd hn' (by simp)
    · -- flFresh
      intro hna
      exact Int.le_trans (h.flFresh (fun m hmem ha => hna m hmem ((harm m).mpr ha))) hmono
  cases st with
  | sys st' =>
    cases st' with
    | commit i mt => exact hquiet _ (by simp) (by simp) rfl
    | report i mt now => exact hquiet _ (by simp) (by simp) rfl
    | tick now => exact hquiet _ (by simp) (by simp) rfl
    | apply => exact hquiet _ (by simp) (by simp) rfl
    | crash =>
      have e : pstep W s (.sys .crash) = { t := tstep W s.t .crash, mem := none, floor := 0 } := rfl
      rw [e]
      obtain ⟨hti, hmono⟩ := tstep_tinv hm hvis h.ti .crash
      have e2 : tstep W s.t .crash = { s.t with run := none, rq := [], cq := [] } := rfl
      refine ⟨⟨hti, ?_, ?_, ?_, ?_, ?_, ?_, fun _ => rfl, Int.le_refl _, ?_, ?_, ?_⟩, hmono, fun hn => absurd rfl hn⟩
      · intro hne; rw [e2] at hne; exact absurd rfl hne
      · intro r hr; rw [e2] at hr; exact absurd hr (by simp)
      · intro r hr; rw [e2] at hr; exact absurd hr (by simp)
      · intro r hr; rw [e2] at hr; exact absurd hr (by simp)
      · intro m hmem; exact absurd hmem (by simp)
      · intro m hmem; exact absurd hmem (by simp)
      · intro r hr; rw [e2] at hr; exact absurd hr (by simp)
      · intro m hmem; exact absurd hmem (by simp)
      · intro _; exact startSeqOf_nonneg _ _ _
    | start =>
      cases hr : s.t.run with
      | some r => exact hsame (by simp [pstep, hr])
      | none =>
        have e0 : pstep W s (.sys .start) = pstart W s := by simp [pstep, hr]
        rw [e0]
        -- the memory the start works with
        have hmem0 : ∀ m, m = s.mem.getD {} →
            0 ≤ m.seq ∧ (0 < m.seq → m.off = W.e m.seq) ∧ PrefixCommitted s.t.committed m.seq ∧
            (s.mem = none → m.miss = []) ∧ (∀ m', s.mem = some m' → m' = m) := by
          intro m hm'
          cases hmem : s.mem with
          | none =>
            rw [hmem] at hm'; simp only [Option.getD_none] at hm'
            subst hm'
            exact ⟨by decide, fun hh => absurd hh (by decide), fun j h1 h2 => by simp only at h2; omega, fun _ => rfl,
              fun m' hm'' => by simp at hm''⟩
          | some m0 =>
            rw [hmem] at hm'; simp only [Option.getD_some] at hm'
            subst hm'
            obtain ⟨a, b, c⟩ := h.memOk m hmem
            exact ⟨a, b, c, fun hn => by simp at hn, fun m' hm'' => by simp only [Option.some.injEq] at hm''; exact hm''.symm⟩
        obtain ⟨hm0a, hm0b, hm0c, hm0d, hm0e⟩ := hmem0 _ rfl
        cases hfp : fastPath root W.ids (s.mem.getD {}) with
        | some a =>
          obtain ⟨hr1, hr2, hr3, hcase⟩ := fastPath_some hfp
          -- the memory is that of a live process, and it is armed
          have hsome : s.mem = some (s.mem.getD {}) := by
            cases hmem : s.mem with
            | none => rw [hm0d hmem] at hr3; exact absurd hr3.symm hr1
            | some m0 => simp
          have harmed : Armed W s.t.ns (s.mem.getD {}) := ⟨root, hroot, hr1, hr2, hr3⟩
          have hsnap := h.snapLe _ hsome harmed (Or.inl hr)
          have hfl := h.flMem _ hsome hr
          -- the answer: (rid, off, seq) with a sound frontier
          have hans : ∃ db off seq, a = (db, root.1, off, seq) ∧ 0 ≤ seq ∧ off = W.e seq ∧
              PrefixCommitted s.t.committed seq ∧ snapSeq s.t.ns W.ids ≤ seq ∧ s.floor ≤ seq := by
            rcases hcase with ⟨h1, h2, h3⟩ | ⟨h1, h3⟩
            · exact ⟨_, _, _, h3, hm0a, hm0b h1, hm0c, hsnap, hfl⟩
            · have hz : (s.mem.getD {}).seq = 0 := by
                by_cases hp : 0 < (s.mem.getD {}).seq
                · have := hm0b hp
                  have h4 := hs 0 (s.mem.getD {}).seq hp
                  exact absurd ⟨hp, by rw [this, hroot0]; exact h4⟩ h1
                · omega
              exact ⟨_, _, _, h3, Int.le_refl _, hroot0, fun j h1 h2 => by omega, by rw [hz] at hsnap; exact hsnap,
                by rw [hz] at hfl; exact hfl⟩
          obtain ⟨db, off, seq, rfl, hq0, hoff, hpre, hsn, hflo⟩ := hans
          have e : pstart W s = { t := { s.t with run := some (mkRun W.ver root.1 off seq), rq := [], cq := [] }, mem := some (s.mem.getD {}), floor := seq } := by
            simp only [pstart, hroot, hfp]
          rw [e]
          refine ⟨⟨?_, ?_, ?_, ?_, ?_, ?_, ?_, ?_, hq0, ?_, ?_, ?_⟩, Int.le_refl _, fun _ => hflo⟩
          · -- TInv
            refine ⟨⟨h.ti.hi.root, h.ti.hi.jr, h.ti.hi.fr, ?_, by simp [TSys.toSys]⟩, h.ti.ix, ⟨root, hroot⟩,
              fun hn => by simp at hn, ?_⟩
            · intro r' hr'
              simp only [TSys.toSys, Option.some.injEq] at hr'
              subst hr'
              exact ⟨⟨hq0, hoff, hpre⟩, hq0, by simp [mkRun]⟩
            · intro r' hr'
              simp only [Option.some.injEq] at hr'
              subst hr'
              right
              refine ⟨trivial, ?_⟩
              simp only [List.append_nil, lastBound]
              exact ⟨hsn, by simp [mkRun], by simp [mkRun], by simp [mkRun]⟩
          · intro hne; exact absurd rfl hne
          · intro r' _; exact ⟨_, rfl⟩
          · intro r' hr'; simp only [Option.some.injEq] at hr'; subst hr'; exact Int.le_refl _
          · intro r' _ _ hne; exact absurd rfl hne
          · intro m hmem
            simp only [Option.some.injEq] at hmem; subst hmem
            exact ⟨hm0a, hm0b, hm0c⟩
          · intro m _ _ hc
            rcases hc with hc | ⟨r', _, _, hne⟩
            · simp at hc
            · exact absurd rfl hne
          · intro hn; simp at hn
          · intro r' hr'; simp only [Option.some.injEq] at hr'; subst hr'; rfl
          · intro m _ hn; simp at hn
          · intro hna; exact absurd harmed (hna _ rfl)
        | none =>
          have hnarm := fastPath_none hfp
          have e : pstart W s = { t := tstartRun W s.t, mem := some { (s.mem.getD {}) with miss := missAfter root (startMisses W.ver s.t.ns W.ids) (s.mem.getD {}).miss }, floor := startSeqOf W.ver s.t.ns W.ids } := by
            simp only [pstart, hroot, hfp]
          rw [e]
          have et : tstartRun W s.t = tstep W s.t .start := by simp [tstep, hr]
          obtain ⟨hti, hmono⟩ := tstep_tinv hm hvis h.ti .start
          rw [← et] at hti hmono
          have h0 : 0 ≤ snapSeq s.t.ns W.ids := snap0_of_sysInv h.ti.hi
          -- before the start the process (if any) was not armed
          have hnot : ∀ m, s.mem = some m → ¬ Armed W s.t.ns m := by
            intro m hmem ⟨root', hroot', a, b, c⟩
            rw [hroot] at hroot'; simp only [Option.some.injEq] at hroot'; subst hroot'
            rw [hm0e m hmem] at c
            exact hnarm ⟨a, b, c⟩
          have hflo := h.flFresh hnot
          -- the shape of the run the start creates
          have hshape : (∃ reqs, tstartRun W s.t = { s.t with run := some (mkRun W.ver root.1 root.2.1 0), rq := reqs, cq := [] } ∧
                (PurgeQ reqs ∨ reqs = []) ∧ startSeqOf W.ver s.t.ns W.ids = 0) ∨
              (∃ (f : Snap) (rid : Bytes), tstartRun W s.t = { s.t with run := some (mkRun W.ver rid f.offset f.seq), rq := recoveryReqs (startRecords s.t.ns W.ids) f, cq := [] } ∧
                f.seq > 0 ∧ startSeqOf W.ver s.t.ns W.ids = f.seq ∧ startMisses W.ver s.t.ns W.ids = false) := by
            rcases startFrontier_cases2 W.ver s.t.ns W.ids root hroot with ⟨reqs, hst, hp⟩ | ⟨f, hrb, hpos, hst⟩
            · left
              refine ⟨reqs, by simp only [tstartRun, hst, rootPoint, mkRun], ?_, by simp only [startSeqOf, hst, rootPoint]⟩
              rcases hp with hp | ⟨hp, _⟩
              · exact Or.inl hp
              · exact Or.inr hp
            · right
              refine ⟨f, (if f.runId = [] then W.ids.headD [] else f.runId), by simp only [tstartRun, hst, mkRun], hpos, by simp only [startSeqOf, hst], ?_⟩
              unfold startMisses; rw [hrb]; simp only [decide_eq_false_iff_not]; omega
          have hns : (tstartRun W s.t).ns = s.t.ns := by
            rcases hshape with ⟨reqs, e1, _⟩ | ⟨f, rid, e1, _⟩ <;> rw [e1]
          have hcom : (tstartRun W s.t).committed = s.t.committed := by
            rcases hshape with ⟨reqs, e1, _⟩ | ⟨f, rid, e1, _⟩ <;> rw [e1]
          refine ⟨⟨hti, ?_, ?_, ?_, ?_, ?_, ?_, fun hn => by simp at hn, startSeqOf_nonneg _ _ _, ?_, ?_, ?_⟩,
            by rw [hns]; exact Int.le_refl _, fun _ => hflo⟩
          · rcases hshape with ⟨reqs, e1, _⟩ | ⟨f, rid, e1, _⟩ <;> rw [e1] <;> intro _ <;> rfl
          · intro r' _; exact ⟨_, rfl⟩
          · intro r' hr'
            rcases hshape with ⟨reqs, e1, _⟩ | ⟨f, rid, e1, _⟩ <;> rw [e1] at hr' <;>
              simp only [Option.some.injEq] at hr' <;> subst hr' <;> exact Int.le_refl _
          · intro r' hr' hz hne
            rcases hshape with ⟨reqs, e1, hp, _⟩ | ⟨f, rid, e1, hpos, _⟩
            · rw [e1] at hne ⊢
              rcases hp with hp | hp
              · exact hp
              · exact absurd hp hne
            · rw [e1] at hr'; simp only [Option.some.injEq] at hr'; subst hr'
              simp only [mkRun] at hz; omega
          · intro m hmem
            simp only [Option.some.injEq] at hmem; subst hmem
            rw [hcom]
            exact ⟨hm0a, hm0b, hm0c⟩
          · intro m hmem harm hc
            simp only [Option.some.injEq] at hmem; subst hmem
            rw [hns] at harm ⊢
            obtain ⟨root', hroot', a, b, c⟩ := harm
            rw [hroot] at hroot'; simp only [Option.some.injEq] at hroot'; subst hroot'
            simp only at c ⊢
            -- armed after a start that read the target: it missed
            have hmiss : startMisses W.ver s.t.ns W.ids = true := by
              cases hmm : startMisses W.ver s.t.ns W.ids with
              | true => rfl
              | false =>
                rw [hmm] at c
                simp only [missAfter, Bool.false_eq_true, if_false] at c
                split at c
                · exact absurd c.symm a
                · rename_i hh; exact absurd c (fun cc => hh (Or.inr cc))
            rw [startMisses_snapSeq h0 hmiss]; exact hm0a
          · intro r' hr'
            rcases hshape with ⟨reqs, e1, _, hz⟩ | ⟨f, rid, e1, _, hz, _⟩ <;> rw [e1] at hr' <;>
              simp only [Option.some.injEq] at hr' <;> subst hr' <;> rw [hz] <;> rfl
          · intro m _ hn
            rcases hshape with ⟨reqs, e1, _⟩ | ⟨f, rid, e1, _⟩ <;> rw [e1] at hn <;> simp at hn
          · intro _; rw [hns]; exact Int.le_refl _
  | stop =>
    cases hr : s.t.run with
    | none => exact hsame (by simp [pstep, pstop, hr])
    | some r =>
      obtain ⟨hti, hmono⟩ := tstep_tinv hm hvis h.ti .crash
      have e2 : tstep W s.t .crash = { s.t with run := none, rq := [], cq := [] } := rfl
      rw [e2] at hti
      obtain ⟨m, hmem⟩ := h.runMem r hr
      obtain ⟨hco, hst0, _⟩ := h.ti.hi.co r (by simp [TSys.toSys, hr])
      by_cases hc : r.startSeq = 0 ∧ s.t.rq ≠ []
      · have e : pstep W s .stop = { s with t := { s.t with run := none, rq := [], cq := [] } } := by
          simp [pstep, pstop, hr, hc]
        rw [e]
        refine ⟨⟨hti, fun hne => absurd rfl hne, fun r' hr' => by simp at hr', fun r' hr' => by simp at hr',
          fun r' hr' => by simp at hr', h.memOk, ?_, h.fl0, h.flNonneg, fun r' hr' => by simp at hr', ?_, ?_⟩,
          Int.le_refl _, fun _ => Int.le_refl _⟩
        · intro m' hm' harm _
          exact h.snapLe m' hm' harm (Or.inr ⟨r, hr, hc.1, hc.2⟩)
        · intro m' hm' _
          rw [h.flRun r hr, hc.1]; exact (h.memOk m' hm').1
        · intro _
          rw [h.flRun r hr, hc.1]; exact startSeqOf_nonneg _ _ _
      · have e : pstep W s .stop = { s with t := { s.t with run := none, rq := [], cq := [] }, mem := some { m with seq := r.coord.frontier.seq, off := r.coord.frontier.offset } } := by
          simp [pstep, pstop, hr, hc, hmem]
        rw [e]
        -- the frontier of the coordinator is not below the visible snapshot
        have hsn : snapSeq s.t.ns W.ids ≤ r.coord.frontier.seq := by
          rcases h.ti.phase r hr with ⟨hpq, _, _, hf0, _⟩ | ⟨hq, hcok⟩
          · exfalso
            apply hc
            have := h.adv r hr
            refine ⟨by omega, ?_⟩
            obtain ⟨dels, hd, _⟩ := hpq
            rw [hd]; simp
          · exact Int.le_trans (QSafe_le_lastBound _ _ _ hq) hcok.cb
        refine ⟨⟨hti, fun hne => absurd rfl hne, fun r' hr' => by simp at hr', fun r' hr' => by simp at hr',
          fun r' hr' => by simp at hr', ?_, ?_, fun hn => by simp at hn, h.flNonneg, fun r' hr' => by simp at hr', ?_, ?_⟩,
          Int.le_refl _, fun _ => Int.le_refl _⟩
        · intro m' hm'
          simp only [Option.some.injEq] at hm'; subst hm'
          exact ⟨hco.1, fun _ => hco.2.1, hco.2.2⟩
        · intro m' hm' _ _
          simp only [Option.some.injEq] at hm'; subst hm'
          exact hsn
        · intro m' hm' _
          simp only [Option.some.injEq] at hm'; subst hm'
          rw [h.flRun r hr]; exact h.adv r hr
        · intro hna
          apply h.flFresh
          intro m' hm' ⟨root', hroot', a, b, c⟩
          rw [hmem] at hm'; simp only [Option.some.injEq] at hm'; subst hm'
          exact hna _ rfl ⟨root', hroot', a, b, c⟩
  | giveUp =>
    cases hr : s.t.run with
    | none => exact hsame (by simp [pstep, pgiveUp, hr])
    | some r =>
      by_cases hc : 0 < r.startSeq
      · have e : pstep W s .giveUp = { s with t := { s.t with rq := [] } } := by simp [pstep, pgiveUp, hr, hc]
        rw [e]
        refine ⟨⟨?_, fun hne => absurd rfl hne, h.runMem, h.adv, fun r' _ _ hne => absurd rfl hne, h.memOk, ?_,
          h.fl0, h.flNonneg, h.flRun, h.flMem, h.flFresh⟩, Int.le_refl _, fun _ => Int.le_refl _⟩
        · refine ⟨⟨h.ti.hi.root, h.ti.hi.jr, h.ti.hi.fr, h.ti.hi.co, ?_⟩, h.ti.ix, h.ti.root,
            fun hn => by rw [hr] at hn; exact absurd hn (by simp), ?_⟩
          · intro q hq
            exact h.ti.hi.qu q (by simp only [TSys.toSys, List.nil_append] at hq; simp only [TSys.toSys]; exact List.mem_append_right _ hq)
          · intro r' hr'
            have hr'' : s.t.run = some r' := hr'
            rw [hr] at hr''; simp only [Option.some.injEq] at hr''; subst hr''
            rcases h.ti.phase r hr with ⟨_, _, _, hf0, _⟩ | ⟨hq, hcok⟩
            · have := h.adv r hr; omega
            · right
              by_cases hne : s.t.rq = []
              · show QSafe W.ids _ ([] ++ s.t.cq) ∧ CoordOk W _ (lastBound _ ([] ++ s.t.cq))
                rw [hne] at hq hcok; exact ⟨hq, hcok⟩
              · have hcq := h.rqcq hne
                show QSafe W.ids _ ([] ++ s.t.cq) ∧ CoordOk W _ (lastBound _ ([] ++ s.t.cq))
                rw [hcq]
                refine ⟨trivial, ?_⟩
                simp only [List.append_nil, lastBound]
                exact hcok.weaken (QSafe_le_lastBound _ _ _ hq)
        · intro m hmem harm hcase
          rcases hcase with hcase | ⟨r', _, _, hne⟩
          · have : s.t.run = none := hcase
            rw [hr] at this; exact absurd this (by simp)
          · exact absurd rfl hne
      · exact hsame (by simp [pstep, pgiveUp, hr, hc])

/-- the run a start creates: the coordinator's frontier starts at the answer -/
theorem pstart_run_seq (W : World) (s : PSys) (hr : s.t.run = none) (r : Run)
    (h : (pstart W s).t.run = some r) : r.coord.frontier.seq = r.startSeq := by
  unfold pstart at h
  cases hroot : s.t.ns.root with
  | none => rw [hroot] at h; simp only at h; rw [hr] at h; exact absurd h (by simp)
  | some root =>
    rw [hroot] at h
    simp only at h
    cases hfp : fastPath root W.ids (s.mem.getD {}) with
    | some a =>
      obtain ⟨db, rid, off, seq⟩ := a
      rw [hfp] at h
      simp only [Option.some.injEq] at h
      subst h; rfl
    | none =>
      rw [hfp] at h
      simp only [tstartRun] at h
      cases hst : startFrontier W.ver s.t.ns W.ids with
      | mk p reqs =>
        cases p with
        | empty => rw [hst] at h; simp only at h; rw [hr] at h; exact absurd h (by simp)
        | point db rid off seq =>
          rw [hst] at h
          simp only [Option.some.injEq] at h
          subst h; rfl

theorem prunSteps_pinv {W : World} (hs : ∀ i j, i < j → W.e i < W.e j) (hvis : matchRun W.rid W.ids = true)
    (steps : List PStep) :
    ∀ {s : PSys}, PInv W s → PInv W (prunSteps W s steps) ∧
      startSeqOf W.ver s.t.ns W.ids ≤ startSeqOf W.ver (prunSteps W s steps).t.ns W.ids ∧
      ((∀ st ∈ steps, st ≠ .sys .crash) → s.floor ≤ (prunSteps W s steps).floor) := by
  induction steps with
  | nil => intro s h; exact ⟨h, Int.le_refl _, fun _ => Int.le_refl _⟩
  | cons st rest ih =>
    intro s h
    obtain ⟨h1, h2, h3⟩ := pstep_pinv hs hvis h st
    obtain ⟨h4, h5, h6⟩ := ih h1
    refine ⟨h4, Int.le_trans h2 h5, ?_⟩
    intro hall
    exact Int.le_trans (h3 (hall st (List.mem_cons_self ..)))
      (h6 (fun x hx => hall x (List.mem_cons_of_mem _ hx)))

theorem prunSteps_append (W : World) (s : PSys) (a b : List PStep) :
    prunSteps W s (a ++ b) = prunSteps W (prunSteps W s a) b := by
  simp [prunSteps, List.foldl_append]

end GunYu.Frontier
