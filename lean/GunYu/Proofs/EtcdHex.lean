/-
  `%x` rendering used in the etcd election key (`prefix ++ hex(lease id)`):
  round trip, hence injectivity; every digit is a non-zero byte.
-/
import GunYu.Model.EtcdLease

set_option linter.unusedSimpArgs false
set_option linter.unusedVariables false

namespace GunYu.Etcd
open GunYu

def hexVal (b : UInt8) : Nat := if b.toNat < 58 then b.toNat - 48 else b.toNat - 87

def hexStepF (acc : Nat) (b : UInt8) : Nat := acc * 16 + hexVal b

theorem hexDigit_toNat (n : Nat) (h : n < 16) :
    (hexDigit n).toNat = if n < 10 then 48 + n else 87 + n := by
  unfold hexDigit
  by_cases h10 : n < 10
  · simp only [h10, ↓reduceIte, UInt8.toNat_ofNat']; omega
  · simp only [h10, ↓reduceIte, UInt8.toNat_ofNat']; omega

theorem hexVal_hexDigit (n : Nat) (h : n < 16) : hexVal (hexDigit n) = n := by
  unfold hexVal
  rw [hexDigit_toNat n h]
  by_cases h10 : n < 10
  · simp only [h10, ↓reduceIte]
    have : 48 + n < 58 := by omega
    simp only [this, ↓reduceIte]; omega
  · simp only [h10, ↓reduceIte]
    have : ¬ 87 + n < 58 := by omega
    simp only [this, ↓reduceIte]; omega

theorem hexDigit_ne_zero (n : Nat) (h : n < 16) : hexDigit n ≠ 0 := by
  intro h0
  have := hexDigit_toNat n h
  rw [h0] at this
  by_cases h10 : n < 10
  · simp only [h10, ↓reduceIte] at this
    have h2 : (0 : UInt8).toNat = 0 := rfl
    omega
  · simp only [h10, ↓reduceIte] at this
    have h2 : (0 : UInt8).toNat = 0 := rfl
    omega

theorem natToHexAux_foldl (fuel n : Nat) (acc : Bytes) (h : n < fuel) :
    (natToHexAux fuel n acc).foldl hexStepF 0 = acc.foldl hexStepF n := by
  induction fuel generalizing n acc with
  | zero => omega
  | succ f ih =>
    have hm : n % 16 < 16 := Nat.mod_lt _ (by decide)
    simp only [natToHexAux]
    split
    · rename_i h0
      simp only [List.foldl_cons, hexStepF, hexVal_hexDigit _ hm]
      congr 1; omega
    · rename_i h0
      rw [ih _ _ (by omega)]
      simp only [List.foldl_cons, hexStepF, hexVal_hexDigit _ hm]
      congr 1; omega

theorem natToHex_foldl (n : Nat) : (natToHex n).foldl hexStepF 0 = n := by
  have := natToHexAux_foldl (n + 1) n [] (by omega)
  simpa [natToHex] using this

theorem natToHex_inj {a b : Nat} (h : natToHex a = natToHex b) : a = b := by
  have ha := natToHex_foldl a
  have hb := natToHex_foldl b
  rw [h] at ha
  omega

theorem natToHexAux_ne_nil (fuel n : Nat) (acc : Bytes) (h : n < fuel) :
    natToHexAux fuel n acc ≠ [] := by
  induction fuel generalizing n acc with
  | zero => omega
  | succ f ih =>
    simp only [natToHexAux]
    split
    · simp
    · apply ih; omega

theorem natToHex_ne_nil (n : Nat) : natToHex n ≠ [] :=
  natToHexAux_ne_nil (n + 1) n [] (by omega)

theorem natToHexAux_nz (fuel n : Nat) (acc : Bytes) (hacc : ∀ b ∈ acc, b ≠ 0) :
    ∀ b ∈ natToHexAux fuel n acc, b ≠ 0 := by
  induction fuel generalizing n acc with
  | zero => simpa [natToHexAux] using hacc
  | succ f ih =>
    have hm : n % 16 < 16 := Nat.mod_lt _ (by decide)
    have hacc' : ∀ b ∈ hexDigit (n % 16) :: acc, b ≠ 0 := by
      intro b hb
      rcases List.mem_cons.1 hb with rfl | hb
      · exact hexDigit_ne_zero _ hm
      · exact hacc b hb
    simp only [natToHexAux]
    split
    · exact hacc'
    · exact ih _ _ hacc'

theorem natToHex_nz (n : Nat) : ∀ b ∈ natToHex n, b ≠ 0 :=
  natToHexAux_nz (n + 1) n [] (by simp)

/-- the election key of a session: never empty, never `"\x00"`, and different
    sessions have different keys under one prefix -/
theorem keyOf_eq (p : Bytes) (L : Nat) : keyOf p L = p ++ natToHex L := rfl

theorem keyOf_inj {p : Bytes} {L1 L2 : Nat} (h : keyOf p L1 = keyOf p L2) : L1 = L2 := by
  rw [keyOf_eq, keyOf_eq] at h
  exact natToHex_inj (List.append_cancel_left h)

theorem keyOf_ne_nil (p : Bytes) (L : Nat) : keyOf p L ≠ [] := by
  rw [keyOf_eq]
  intro h
  exact natToHex_ne_nil L (List.append_eq_nil_iff.1 h).2

theorem keyOf_ne_nul (p : Bytes) (L : Nat) : keyOf p L ≠ nulKey := by
  rw [keyOf_eq]
  intro h
  have hne := natToHex_ne_nil L
  have hnz := natToHex_nz L
  -- the last byte of the key is a hex digit, the last byte of "\x00" is 0
  have hl : (p ++ natToHex L).getLast? = (natToHex L).getLast? := by
    rw [List.getLast?_append]
    cases hh : (natToHex L).getLast? with
    | none => exact absurd (List.getLast?_eq_none_iff.1 hh) hne
    | some x => simp
  rw [h] at hl
  cases hh : (natToHex L).getLast? with
  | none => exact absurd (List.getLast?_eq_none_iff.1 hh) hne
  | some x =>
    rw [hh] at hl
    have hx : x ∈ natToHex L := List.mem_of_getLast? hh
    have : x = 0 := by
      simp [nulKey] at hl
      exact hl.symm
    exact hnz x hx this

theorem keyOf_prefix (p : Bytes) (L : Nat) : p.isPrefixOf (keyOf p L) = true := by
  rw [keyOf_eq]
  simp [List.isPrefixOf_iff_prefix]

end GunYu.Etcd
