/-
  C08, extended operation set: the snapshot side needs no source. Every operation
  of a script with faults that takes effect is safe for committed snapshot files
  (`RdbSafeP`): a committed name appears only by the rename of a temporary file
  that holds exactly the bytes received.
-/
import GunYu.Proofs.StoreFsXScript

namespace GunYu.StoreFsX
open GunYu GunYu.Store GunYu.StoreFs

structure StepSafe (P : Nat → Nat → Bytes → Prop) (s : XDisk) (r : XDisk × List Att) : Prop where
  fsEq : r.1.fs = s.fs.applyAll (okOps r.2)
  safe : Pos (RdbSafeP P) s.fs (okOps r.2)
  tmp : TmpRel r.1.d r.1.fs

theorem StepSafe.mk' {P : Nat → Nat → Bytes → Prop} {s : XDisk} {d' : Disk} {fs' : FS}
    {z' : List Nat} {atts : List Att} (hfs : fs' = s.fs.applyAll (okOps atts))
    (hs : Pos (RdbSafeP P) s.fs (okOps atts)) (ht : TmpRel d' fs') : StepSafe P s (⟨d', fs', z'⟩, atts) := ⟨hfs, hs, ht⟩

theorem StepSafe.seq {P : Nat → Nat → Bytes → Prop} {s s1 : XDisk} {r2 : XDisk × List Att}
    {ops1 : List FsOp} {fails : List Att} (hfs : s1.fs = s.fs.applyAll ops1)
    (hs1 : Pos (RdbSafeP P) s.fs ops1) (hfails : okOps fails = []) (h2 : StepSafe P s1 r2) :
    StepSafe P s (r2.1, allOk ops1 ++ fails ++ r2.2) := by
  have hok : okOps (allOk ops1 ++ fails ++ r2.2) = ops1 ++ okOps r2.2 := by
    rw [okOps_append, okOps_append, okOps_allOk, hfails, List.append_nil]
  refine ⟨?_, ?_, h2.tmp⟩
  · show r2.1.fs = s.fs.applyAll (okOps (allOk ops1 ++ fails ++ r2.2))
    rw [hok, applyAll_append, ← hfs]; exact h2.fsEq
  · show Pos (RdbSafeP P) s.fs (okOps (allOk ops1 ++ fails ++ r2.2))
    rw [hok]; exact Pos.append hs1 (by rw [← hfs]; exact h2.safe)

theorem gcZ_rdb_keep (s : Disk) (z : List Nat) : ∀ r, (gcZ s z).rdb = some r → s.rdb = some r := by
  intro r hr
  obtain ⟨pre, segs', rdb', he, _, _, hrdb, _⟩ := gcZ_cases s z
  rw [he] at hr
  simp only [] at hr
  rcases hrdb with h1 | ⟨h1, _⟩
  · rw [← h1]; exact hr
  · rw [h1] at hr; cases hr

theorem xbase_safe {P : Nat → Nat → Bytes → Prop} (s : XDisk) (o : DOp) (htmp : TmpRel s.d s.fs) (hok : s.d.okOp o)
    (hP : ∀ r chunk, o = .rdbAppend chunk → s.d.rdb = some r → r.writing = true →
      r.data.length + chunk.length = r.size → P r.left r.size (r.data ++ chunk)) :
    StepSafe P s (xbase s o) := by
  by_cases h2 : o = .gc
  · subst h2
    unfold xbase
    simp only [baseOps, baseDisk]
    refine StepSafe.mk' (by rw [okOps_allOk]) ?_ ?_
    · rw [okOps_allOk]
      exact Pos.ofAll (fun o ho fs' => by
        rcases gcOpsZ_mem ho with ⟨l, sz, rfl⟩ | ⟨g, _, rfl⟩ <;> trivial)
    · apply tmpRel_frame htmp (fun r hr _ => gcZ_rdb_keep _ _ r hr)
      intro o ho l sz
      rcases gcOpsZ_mem ho with ⟨l', sz', rfl⟩ | ⟨x, _, rfl⟩
      · simp [FsOp.names, rdbTmpName, rdbName]
      · simp [FsOp.names, rdbTmpName, aofName]
  · by_cases h1 : ∃ off size, o = .newRdbWriter off size
    · obtain ⟨off, size, rfl⟩ := h1
      unfold xbase
      simp only [baseOps, baseDisk]
      refine StepSafe.mk' (by rw [okOps_allOk]) ?_ ?_
      · rw [okOps_allOk]
        apply Pos.ofAll
        intro o ho fs'
        unfold xResetOps at ho
        simp only [List.mem_append, List.mem_singleton] at ho
        rcases ho with ((ho | ho) | ho) | ho
        · obtain ⟨l, sz, rfl⟩ := rdbCloseOps_mem ho; trivial
        · exact RdbSafeP_of_RdbSafe (fun a b e => rename_not_mem_closeLiveOps s.d a b (e ▸ ho)) ((closeLiveOps_aof s.d o ho).2 fs')
        · obtain ⟨n, _, rfl⟩ := List.mem_map.mp ho; trivial
        · subst ho; simp [RdbSafeP, rdbTmpName, parseRdbName]
      · intro r hr' hw
        simp only [Disk.step] at hr'
        simp at hr'; subst hr'
        rw [applyAll_append]
        show ((s.fs.applyAll (xResetOps s.d s.fs)).apply (.create (rdbTmpName off size))).get (rdbTmpName off size) = some []
        exact get_set_eq _ _ _
    · obtain ⟨e1, e2⟩ := base_generic s o (fun off size e => h1 ⟨off, size, e⟩) h2
      obtain ⟨_, htmp'⟩ := fsOps_step s.d s.fs o hok htmp
      have hsafe := fsOps_stepP P s.d s.fs o hok htmp hP
      unfold xbase
      simp only [e1, e2]
      exact StepSafe.mk' (by rw [okOps_allOk]) (by rw [okOps_allOk]; exact hsafe) htmp'

/-- operations on one stream file, then failed attempts: safe, and the temporary
    snapshot is untouched -/
theorem onAof_safe {P : Nat → Nat → Bytes → Prop} (s : XDisk) (htmp : TmpRel s.d s.fs) (l : Nat) (ops : List FsOp)
    (hon : OnAof l ops) (d' : Disk) (hrdb : d'.rdb = s.d.rdb) (z' : List Nat) (fails : List Att)
    (hfails : okOps fails = []) :
    StepSafe P s (⟨d', s.fs.applyAll ops, z'⟩, allOk ops ++ fails) := by
  have hok : okOps (allOk ops ++ fails) = ops := by rw [okOps_append, okOps_allOk, hfails, List.append_nil]
  exact StepSafe.mk' (by rw [hok]) (by rw [hok]; exact hon.safe _)
    (tmpRel_frame htmp (fun r hr _ => by rw [hrdb] at hr; exact hr) hon.tmp)

theorem onAof_append_hdrs (l : Nat) (chunk : Bytes) {hs : List FsOp}
    (hall : ∀ o ∈ hs, ∃ h, o = FsOp.pwriteHdr (aofName l) h ∧ h.length ≤ headerSize) :
    OnAof l ([FsOp.append (aofName l) chunk] ++ hs) := by
  intro o ho
  rcases List.mem_append.mp ho with h1 | h1
  · simp at h1; subst h1; exact Or.inl ⟨_, rfl⟩
  · exact onAof_hdrs hall o h1

theorem xstep_safe {P : Nat → Nat → Bytes → Prop} (s : XDisk) (x : XOp) (htmp : TmpRel s.d s.fs) (hok : okX s x)
    (hP : ∀ r chunk, x = .op (.rdbAppend chunk) → s.d.rdb = some r → r.writing = true →
      r.data.length + chunk.length = r.size → P r.left r.size (r.data ++ chunk)) :
    StepSafe P s (xstep s x) := by
  have noP : ∀ o : DOp, (∀ c, o ≠ .rdbAppend c) → ∀ r chunk, o = .rdbAppend chunk → s.d.rdb = some r → r.writing = true →
      r.data.length + chunk.length = r.size → P r.left r.size (r.data ++ chunk) :=
    fun o hne r chunk e => absurd e (hne chunk)
  have hclose : StepSafe P s (xbase s .aofClose) := xbase_safe s .aofClose htmp trivial (noP _ (by intro c e; cases e))
  have happ : ∀ chunk, chunk ≠ [] → StepSafe P s (xbase s (.aofAppend chunk)) :=
    fun chunk hc => xbase_safe s (.aofAppend chunk) htmp hc (noP _ (by intro c e; cases e))
  cases x with
  | op o => exact xbase_safe s o htmp hok (fun r chunk e => hP r chunk (by rw [e]))
  | aofCloseHdrFail k =>
    simp only [xstep]
    cases hl : s.d.live with
    | none => exact hclose
    | some g =>
      simp only []
      split
      · exact hclose
      · exact onAof_safe s htmp g.left _ (onAof_hdrs (hdrTornOps_all _ _ _)) _ (closeLive_rdb _) _ _ (okOps_fail1 _)
  | aofAppendHdrFail chunk k =>
    simp only [xstep]
    cases hl : s.d.live with
    | none => exact happ chunk hok.1
    | some g =>
      simp only []
      split
      · rename_i hrot
        exact onAof_safe s htmp g.left _ (onAof_append_hdrs _ _ (hdrTornOps_all _ _ _)) _
          (rot_fail_all s.d g chunk hl hrot).2 _ _ (okOps_fail1 _)
      · exact happ chunk hok.1
  | aofAppendOpenFail chunk =>
    simp only [xstep]
    cases hl : s.d.live with
    | none => exact happ chunk hok
    | some g =>
      simp only []
      split
      · rename_i hrot
        exact onAof_safe s htmp g.left _ (onAof_append_hdrs _ _ (single_hdr_all _ _)) _
          (rot_fail_all s.d g chunk hl hrot).2 _ _ (okOps_fail1 _)
      · exact happ chunk hok
  | aofAppendShort chunk k =>
    have hcne : chunk ≠ [] := by
      intro e; rw [e] at hok; simp [okX] at hok
    simp only [xstep]
    cases hl : s.d.live with
    | none => exact happ chunk hcne
    | some g =>
      simp only []
      have hon : OnAof g.left [FsOp.append (aofName g.left) (chunk.take k)] := by
        intro o ho; simp at ho; subst ho; exact Or.inl ⟨_, rfl⟩
      refine StepSafe.seq (s := s) rfl (hon.safe _) (okOps_fail1 _)
        (xbase_safe (P := P) ⟨_, _, s.zombies⟩ .aofClose ?_ trivial (fun r c e => by cases e))
      exact tmpRel_frame htmp (fun r hr _ => hr) hon.tmp
  | aofCloseRmFail =>
    simp only [xstep]
    cases hl : s.d.live with
    | none => exact hclose
    | some g =>
      simp only []
      split
      · have := onAof_safe (P := P) s htmp g.left [] (by intro o ho; cases ho) s.d.closeLive (closeLive_rdb _) s.zombies
          [⟨.remove (aofName g.left), false⟩] (okOps_fail1 _)
        simpa [allOk, FS.applyAll] using this
      · exact hclose
  | rdbCloseRmFail =>
    have hb : StepSafe P s (xbase s .rdbClose) := xbase_safe s .rdbClose htmp trivial (noP _ (by intro c e; cases e))
    simp only [xstep]
    cases hr : s.d.rdb with
    | none => exact hb
    | some r =>
      simp only []
      split
      · rename_i hw
        refine StepSafe.mk' (by rw [okOps_fail1]; rfl) (by rw [okOps_fail1]; exact Pos.nil) ?_
        intro r' hr'
        simp only [Disk.step, hr, hw, if_true] at hr'
        cases hr'
      · exact hb
  | rdbCommitFail chunk ren rmOk =>
    simp only [xstep]
    cases hr : s.d.rdb with
    | none =>
      exact xbase_safe s (.rdbAppend chunk) htmp hok (fun r c _ hr' => by rw [hr] at hr'; cases hr')
    | some r =>
      simp only []
      split
      · rename_i hc
        simp only [Bool.and_eq_true, decide_eq_true_eq] at hc
        refine StepSafe.mk' rfl ?_ ?_
        · exact Pos.ofAll (fun o ho fs' => by
            rcases commitFail_okOps_mem r chunk ren rmOk o ho with rfl | rfl
            · rfl
            · trivial)
        · intro r' hr'
          simp only [Disk.step, hr, hc.1, if_true] at hr'
          cases hr'
      · rename_i hc
        refine xbase_safe s (.rdbAppend chunk) htmp hok (fun r' c e' hr' hw hlen => ?_)
        rw [hr] at hr'; cases hr'; cases e'
        exact absurd (by simp [hw, hlen]) hc
  | gcRmFail stuck all =>
    simp only [xstep]
    have hrm : ∀ o ∈ okOps ((gcOpsZ s.d s.zombies).map (fun o => (⟨o, !gcStuck stuck all o⟩ : Att))),
        o ∈ gcOpsZ s.d s.zombies := fun o ho => mem_okOps_map ho
    refine StepSafe.mk' rfl ?_ ?_
    · exact Pos.ofAll (fun o ho fs' => by
        rcases gcOpsZ_mem (hrm o ho) with ⟨l, sz, rfl⟩ | ⟨g, _, rfl⟩ <;> trivial)
    · apply tmpRel_frame htmp (fun r hr _ => gcZ_rdb_keep _ _ r hr)
      intro o ho l sz
      rcases gcOpsZ_mem (hrm o ho) with ⟨l', sz', rfl⟩ | ⟨x, _, rfl⟩
      · simp [FsOp.names, rdbTmpName, rdbName]
      · simp [FsOp.names, rdbTmpName, aofName]

/-- **every operation of a script with faults is safe for committed snapshot files** -/
theorem xrun_safe {P : Nat → Nat → Bytes → Prop} (g0 : RecvG) (xs0 : List XOp)
    (hP0 : ∀ L S c, RecvFrom g0 (xs0.map recvOp) L S c → P L S c) :
    ∀ (rest pre : List XOp) (s : XDisk), xs0 = pre ++ rest → wfX s rest → TmpRel s.d s.fs →
      GInv s.d (recvFrom g0 (pre.map recvOp)) → Pos (RdbSafeP P) s.fs (xScriptOps s rest) := by
  intro rest
  induction rest with
  | nil => intro pre s _ _ _ _; exact Pos.nil
  | cons x rest ih =>
    intro pre s hxs hwf htmp hg
    have hstep := xstep_safe (P := P) s x htmp hwf.1 (by
      intro r chunk hx hrdb hw hc
      subst hx
      obtain ⟨hcur, hpos⟩ := hg.held r hrdb
      apply hP0
      refine ⟨hpos, by simp [hc], pre.length + 1, by rw [hxs]; simp, ?_⟩
      have htake : (xs0.map recvOp).take (pre.length + 1) = pre.map recvOp ++ [DOp.rdbAppend chunk] := by
        rw [hxs]
        have e : (pre ++ XOp.op (DOp.rdbAppend chunk) :: rest).map recvOp =
            (pre.map recvOp ++ [DOp.rdbAppend chunk]) ++ rest.map recvOp := by simp [recvOp]
        rw [e, List.take_left' (by simp)]
      rw [htake, recvFrom_snoc]
      simp only [recvStep, hcur, hw, if_true]
      have : (r.data ++ chunk).length = r.size := by simp [hc]
      simp [this])
    have hnext := ih (pre ++ [x]) (xstep s x).1 (by rw [hxs]; simp) hwf.2 hstep.tmp (by
      rw [List.map_append, List.map_singleton, recvFrom_snoc]
      exact ginv_xstep s _ x hg hwf.1)
    rw [xScriptOps_cons]
    rw [hstep.fsEq] at hnext
    exact Pos.append hstep.safe hnext

theorem xcrash_received (l m : Nat) (xs : List XOp) (hwf : wfX (XDisk.init l m) xs) (n k : Nat) :
    RdbOkP (RecvFrom ⟨"", none⟩ (xs.map recvOp)) (crashImageX [] (xScriptOps (XDisk.init l m) xs) n k) := by
  have := xrun_safe (P := RecvFrom ⟨"", none⟩ (xs.map recvOp)) ⟨"", none⟩ xs (fun _ _ _ h => h) xs [] _ rfl hwf
    (tmpRel_init l m) (GInv.init l m)
  exact crashImageX_rdbOkP (by intro e he; cases he) _ this n k

end GunYu.StoreFsX
