/-
  Helper lemmas for C15 (property statements are in Props/C15.lean).

  1. decimal round trip `decToNat? (natToDec n) = some n` (the Go client
     renders the `int` ttl in decimal, Redis parses it back);
  2. the two *generated* scripts evaluated symbolically: `campaignCall` /
     `resignCall` equal closed-form specifications (`campaignSpec`,
     `resignSpec`) for every store, clock, key, id and ttl. These two proofs
     are what is re-checked when a script is edited;
  3. the invariant of the system of instances and its preservation by every
     event.
-/
import GunYu.Model.Lease

set_option linter.unusedSimpArgs false
set_option linter.unusedVariables false

namespace GunYu.Lease
open GunYu GunYu.Lua

/-! ### 1. decimal round trip -/

def decStep (acc : Nat) (b : UInt8) : Nat := acc * 10 + (b.toNat - 48)

theorem digit_toNat (n : Nat) : (UInt8.ofNat (48 + n % 10)).toNat = 48 + n % 10 := by
  have : n % 10 < 10 := Nat.mod_lt _ (by decide)
  simp only [UInt8.toNat_ofNat']
  omega

theorem digit_isDigit (n : Nat) : isDigit (UInt8.ofNat (48 + n % 10)) = true := by
  have h := digit_toNat n
  have : n % 10 < 10 := Nat.mod_lt _ (by decide)
  simp only [isDigit, Bool.and_eq_true, decide_eq_true_eq, UInt8.le_iff_toNat_le, h]
  constructor
  · show (48:UInt8).toNat ≤ _ ; simp
  · show _ ≤ (57:UInt8).toNat; simp; omega

theorem natToDecAux_foldl (fuel n : Nat) (acc : Bytes) (h : n < fuel) :
    (natToDecAux fuel n acc).foldl decStep 0 = acc.foldl decStep n := by
  induction fuel generalizing n acc with
  | zero => omega
  | succ f ih =>
    simp only [natToDecAux]
    split
    · rename_i h0
      simp only [List.foldl_cons, decStep, digit_toNat]
      congr 1; omega
    · rename_i h0
      rw [ih _ _ (by omega)]
      simp only [List.foldl_cons, decStep, digit_toNat]
      congr 1; omega

theorem natToDecAux_all (fuel n : Nat) (acc : Bytes) (hacc : acc.all isDigit = true) :
    (natToDecAux fuel n acc).all isDigit = true := by
  induction fuel generalizing n acc with
  | zero => simpa [natToDecAux] using hacc
  | succ f ih =>
    simp only [natToDecAux]
    split
    · simp only [List.all_cons, digit_isDigit, hacc, Bool.and_self]
    · apply ih; simp only [List.all_cons, digit_isDigit, hacc, Bool.and_self]

theorem natToDecAux_ne_nil (fuel n : Nat) (acc : Bytes) (h : n < fuel) :
    natToDecAux fuel n acc ≠ [] := by
  induction fuel generalizing n acc with
  | zero => omega
  | succ f ih =>
    simp only [natToDecAux]
    split
    · simp
    · apply ih; omega

theorem decToNat_natToDec (n : Nat) : decToNat? (natToDec n) = some n := by
  unfold decToNat? natToDec
  have h1 := natToDecAux_ne_nil (n+1) n [] (by omega)
  have h2 := natToDecAux_all (n+1) n [] (by rfl)
  have h3 := natToDecAux_foldl (n+1) n [] (by omega)
  simp only [List.isEmpty_iff, h1, ↓reduceIte, h2]
  simp only [List.foldl_nil] at h3
  exact congrArg some h3

/-! ### 2. the generated scripts, evaluated for all inputs -/

/-- what the campaign script is expected to do: take the key if it is free,
    extend it if it holds the caller's value, otherwise change nothing
    (the ttl = 0 corner: `SET … EX 0` is an error, `EXPIRE k 0` deletes) -/
def campaignSpec (st : Store) (now : Nat) (key id : Bytes) (ttl : Nat) : Store × Reply :=
  match lookup st now key with
  | none => if ttl = 0 then (st, .err) else (st.set key ⟨id, now + ttl * 1000⟩, .int 1)
  | some e =>
    if e.val = id then
      (if ttl = 0 then (st.del key, .int 1) else (st.set key ⟨e.val, now + ttl * 1000⟩, .int 1))
    else (st, .int 0)

/-- what the resign script is expected to do: delete the key only if it holds
    the caller's value -/
def resignSpec (st : Store) (now : Nat) (key id : Bytes) : Store × Reply :=
  match lookup st now key with
  | none => (st, .int 1)
  | some e => if e.val = id then (st.del key, .int 1) else (st, .int 0)

theorem campaignCall_eq_spec (st : Store) (now : Nat) (key id : Bytes) (ttl : Nat) :
    campaignCall st now key id ttl = campaignSpec st now key id ttl := by
  unfold campaignCall campaignSpec evalLua Gen.campaignScript
  cases h : lookup st now key with
  | none =>
    by_cases ht : ttl = 0
    · simp [evalBlk, evalCall, evalExpr, envGet, idx1, argStr, argInt, truthy, toReply, h, ht, decToNat_natToDec]
    · simp [evalBlk, evalCall, evalExpr, envGet, idx1, argStr, argInt, truthy, toReply, h, ht, decToNat_natToDec]
  | some e =>
    by_cases hv : e.val = id
    · by_cases ht : ttl = 0
      · simp [evalBlk, evalCall, evalExpr, envGet, idx1, argStr, argInt, truthy, toReply, h, ht, hv, decToNat_natToDec]
      · simp [evalBlk, evalCall, evalExpr, envGet, idx1, argStr, argInt, truthy, toReply, h, ht, hv, decToNat_natToDec]
    · simp [evalBlk, evalCall, evalExpr, envGet, idx1, argStr, argInt, truthy, toReply, h, hv, decToNat_natToDec]

theorem resignCall_eq_spec (st : Store) (now : Nat) (key id : Bytes) (ttl : Nat) :
    resignCall st now key id ttl = resignSpec st now key id := by
  unfold resignCall resignSpec evalLua Gen.resignScript
  cases h : lookup st now key with
  | none =>
    simp [evalBlk, evalCall, evalExpr, envGet, idx1, argStr, truthy, toReply, h]
  | some e =>
    by_cases hv : e.val = id
    · simp [evalBlk, evalCall, evalExpr, envGet, idx1, argStr, truthy, toReply, h, hv]
    · simp [evalBlk, evalCall, evalExpr, envGet, idx1, argStr, truthy, toReply, h, hv]

/-! ### store facts -/

theorem lookup_some {st : Store} {now : Nat} {k : Bytes} {e : Entry}
    (h : lookup st now k = some e) : st k = some e ∧ now ≤ e.exp := by
  unfold lookup at h
  cases hs : st k with
  | none => simp [hs] at h
  | some e' =>
    simp only [hs] at h
    by_cases hle : now ≤ e'.exp
    · simp only [hle, ↓reduceIte, Option.some.injEq] at h
      subst h; exact ⟨rfl, hle⟩
    · simp [hle] at h

theorem lookup_of_live {st : Store} {now : Nat} {k : Bytes} {e : Entry}
    (h : st k = some e) (hle : now ≤ e.exp) : lookup st now k = some e := by
  unfold lookup; simp [h, hle]

theorem lookup_none_of {st : Store} {now : Nat} {k : Bytes}
    (h : lookup st now k = none) (e : Entry) (hs : st k = some e) : e.exp < now := by
  unfold lookup at h
  simp only [hs] at h
  by_cases hle : now ≤ e.exp
  · simp [hle] at h
  · omega

theorem set_same (st : Store) (k : Bytes) (e : Entry) : (st.set k e) k = some e := by
  simp [Store.set]

theorem set_other (st : Store) (k k' : Bytes) (e : Entry) (h : k' ≠ k) : (st.set k e) k' = st k' := by
  simp [Store.set, h]

theorem del_same (st : Store) (k : Bytes) : (st.del k) k = none := by
  simp [Store.del]

theorem del_other (st : Store) (k k' : Bytes) (h : k' ≠ k) : (st.del k) k' = st k' := by
  simp [Store.del, h]

/-! ### 3. invariant -/

/-- Whoever believes to be leader of `key` until `d`:
    (a) `d` is at most one ttl ahead of the store's clock, and
    (b) while `d` has not passed, the store holds its value for `key` with an
        expiry not before `d`. -/
def Inv (cfg : Bytes → Nat) (s : Sys) : Prop :=
  ∀ key id d, s.told key id = some d →
    d ≤ s.now + cfg id * 1000 ∧
    (s.now ≤ d → ∃ e, s.store key = some e ∧ e.val = id ∧ d ≤ e.exp)

theorem inv_init (cfg : Bytes → Nat) (st : Store) (now : Nat) : Inv cfg (Sys.init st now) := by
  intro key id d h
  simp [Sys.init] at h

/-- at most one holder per key in any state satisfying the invariant -/
theorem holder_unique_of_inv {cfg : Bytes → Nat} {s : Sys} (hinv : Inv cfg s)
    {key i j : Bytes} (hi : holder s key i) (hj : holder s key j) : i = j := by
  obtain ⟨di, hti, hdi⟩ := hi
  obtain ⟨dj, htj, hdj⟩ := hj
  obtain ⟨ei, hsi, hvi, _⟩ := (hinv key i di hti).2 hdi
  obtain ⟨ej, hsj, hvj, _⟩ := (hinv key j dj htj).2 hdj
  rw [hsi] at hsj
  cases hsj
  rw [← hvi, ← hvj]

/-- the key is free or the caller's: the store effect of a campaign that
    takes / extends the lease, with belief set to the new deadline or left
    unchanged (lost reply) -/
theorem inv_acquire {cfg : Bytes → Nat} {s : Sys} (hinv : Inv cfg s) (key' id' : Bytes)
    (hfree : lookup s.store s.now key' = none ∨
             ∃ e, lookup s.store s.now key' = some e ∧ e.val = id')
    (told' : Bytes → Bytes → Option Nat)
    (hoth : ∀ key id, ¬ (key = key' ∧ id = id') → told' key id = s.told key id)
    (hown : told' key' id' = some (s.now + cfg id' * 1000) ∨ told' key' id' = s.told key' id') :
    Inv cfg { store := s.store.set key' ⟨id', s.now + cfg id' * 1000⟩, now := s.now, told := told' } := by
  intro key id d htold
  dsimp only at htold ⊢
  by_cases hk : key = key' ∧ id = id'
  · obtain ⟨rfl, rfl⟩ := hk
    rcases hown with h | h
    · rw [h] at htold
      cases htold
      exact ⟨Nat.le_refl _, fun _ => ⟨_, set_same _ _ _, rfl, Nat.le_refl _⟩⟩
    · rw [h] at htold
      have := hinv key id d htold
      exact ⟨this.1, fun _ => ⟨_, set_same _ _ _, rfl, this.1⟩⟩
  · rw [hoth key id hk] at htold
    have h := hinv key id d htold
    refine ⟨h.1, fun hle => ?_⟩
    obtain ⟨e, hs, hv, hd⟩ := h.2 hle
    by_cases hkey : key = key'
    · subst hkey
      have hid : id ≠ id' := fun h => hk ⟨rfl, h⟩
      have hl := lookup_of_live hs (Nat.le_trans hle hd)
      rcases hfree with hf | ⟨e2, hf, hv2⟩
      · rw [hf] at hl; cases hl
      · rw [hf] at hl; cases hl; exact absurd (hv.symm.trans hv2) hid
    · exact ⟨e, by simp only [set_other _ _ _ _ hkey]; exact hs, hv, hd⟩

/-- no store change; belief of (key', id') cleared or kept -/
theorem inv_keep {cfg : Bytes → Nat} {s : Sys} (hinv : Inv cfg s) (key' id' : Bytes)
    (told' : Bytes → Bytes → Option Nat)
    (hoth : ∀ key id, ¬ (key = key' ∧ id = id') → told' key id = s.told key id)
    (hown : told' key' id' = none ∨ told' key' id' = s.told key' id') :
    Inv cfg { store := s.store, now := s.now, told := told' } := by
  intro key id d htold
  dsimp only at htold ⊢
  by_cases hk : key = key' ∧ id = id'
  · obtain ⟨rfl, rfl⟩ := hk
    rcases hown with h | h
    · rw [h] at htold; cases htold
    · rw [h] at htold; exact hinv key id d htold
  · rw [hoth key id hk] at htold
    exact hinv key id d htold

/-- the key holds the caller's value and is deleted; the caller's belief is
    cleared -/
theorem inv_release {cfg : Bytes → Nat} {s : Sys} (hinv : Inv cfg s) (key' id' : Bytes)
    (e' : Entry) (hl : lookup s.store s.now key' = some e') (hv' : e'.val = id') :
    Inv cfg { store := s.store.del key', now := s.now, told := setTold s.told key' id' none } := by
  intro key id d htold
  dsimp only at htold ⊢
  simp only [setTold] at htold
  by_cases hk : key = key' ∧ id = id'
  · simp [hk] at htold
  · simp only [hk, ↓reduceIte] at htold
    have h := hinv key id d htold
    refine ⟨h.1, fun hle => ?_⟩
    obtain ⟨e, hs, hv, hd⟩ := h.2 hle
    by_cases hkey : key = key'
    · subst hkey
      have hid : id ≠ id' := fun h => hk ⟨rfl, h⟩
      have hl2 := lookup_of_live hs (Nat.le_trans hle hd)
      rw [hl] at hl2; cases hl2
      exact absurd (hv.symm.trans hv') hid
    · exact ⟨e, by simp only [del_other _ _ _ hkey]; exact hs, hv, hd⟩

theorem inv_tick {cfg : Bytes → Nat} {s : Sys} (hinv : Inv cfg s) (δ : Nat) :
    Inv cfg { s with now := s.now + δ } := by
  intro key id d htold
  have h := hinv key id d htold
  refine ⟨by simp only; omega, fun hle => ?_⟩
  exact h.2 (by simp only at hle; omega)

/-- instances named in an event have a ttl of at least one second -/
def Ev.ttlOk (cfg : Bytes → Nat) : Ev → Prop
  | .campaign _ id => 1 ≤ cfg id
  | .renew _ id => 1 ≤ cfg id
  | .resign _ id => 1 ≤ cfg id
  | .lostCampaign _ id _ => 1 ≤ cfg id
  | .lostResign _ id _ => 1 ≤ cfg id
  | _ => True

theorem setTold_other (t : Bytes → Bytes → Option Nat) (key' id' : Bytes) (v : Option Nat)
    (key id : Bytes) (h : ¬ (key = key' ∧ id = id')) : setTold t key' id' v key id = t key id := by
  simp [setTold, h]

theorem setTold_same (t : Bytes → Bytes → Option Nat) (key' id' : Bytes) (v : Option Nat) :
    setTold t key' id' v key' id' = v := by
  simp [setTold]

/-- the state after a delivered campaign/renew -/
theorem inv_campaign {cfg : Bytes → Nat} {s : Sys} (hinv : Inv cfg s) (key' id' : Bytes)
    (h1 : 1 ≤ cfg id') :
    Inv cfg { store := (campaignCall s.store s.now key' id' (cfg id')).1, now := s.now,
              told := toldAfter s.told key' id' (s.now + cfg id' * 1000)
                        (campaignResult (campaignCall s.store s.now key' id' (cfg id')).2).1 } := by
  have h0 : cfg id' ≠ 0 := by omega
  rw [campaignCall_eq_spec]
  unfold campaignSpec
  cases hl : lookup s.store s.now key' with
  | none =>
    simp only [h0, ↓reduceIte, campaignResult, replyInt, toldAfter]
    exact inv_acquire hinv key' id' (Or.inl hl) _ (fun k i h => setTold_other _ _ _ _ _ _ h)
      (Or.inl (setTold_same _ _ _ _))
  | some e =>
    by_cases hv : e.val = id'
    · simp only [hv, h0, ↓reduceIte, campaignResult, replyInt, toldAfter]
      exact inv_acquire hinv key' id' (Or.inr ⟨e, hl, hv⟩) _ (fun k i h => setTold_other _ _ _ _ _ _ h)
        (Or.inl (setTold_same _ _ _ _))
    · simp only [hv, ↓reduceIte, campaignResult, replyInt, toldAfter]
      simp only [show ¬ ((0:Nat) = 1) by decide, ↓reduceIte]
      exact inv_keep hinv key' id' _ (fun k i h => setTold_other _ _ _ _ _ _ h)
        (Or.inl (setTold_same _ _ _ _))

/-- the store effect of a campaign whose reply was lost; beliefs unchanged -/
theorem inv_lostCampaign {cfg : Bytes → Nat} {s : Sys} (hinv : Inv cfg s) (key' id' : Bytes)
    (h1 : 1 ≤ cfg id') :
    Inv cfg { store := (campaignCall s.store s.now key' id' (cfg id')).1, now := s.now,
              told := s.told } := by
  have h0 : cfg id' ≠ 0 := by omega
  rw [campaignCall_eq_spec]
  unfold campaignSpec
  cases hl : lookup s.store s.now key' with
  | none =>
    simp only [h0, ↓reduceIte]
    exact inv_acquire hinv key' id' (Or.inl hl) _ (fun _ _ _ => rfl) (Or.inr rfl)
  | some e =>
    by_cases hv : e.val = id'
    · simp only [hv, h0, ↓reduceIte]
      exact inv_acquire hinv key' id' (Or.inr ⟨e, hl, hv⟩) _ (fun _ _ _ => rfl) (Or.inr rfl)
    · simp only [hv, ↓reduceIte]
      exact inv_keep hinv key' id' _ (fun _ _ _ => rfl) (Or.inr rfl)

/-- resign (delivered or lost-but-applied): belief cleared -/
theorem inv_resign {cfg : Bytes → Nat} {s : Sys} (hinv : Inv cfg s) (key' id' : Bytes) :
    Inv cfg { store := (resignCall s.store s.now key' id' (cfg id')).1, now := s.now,
              told := setTold s.told key' id' none } := by
  rw [resignCall_eq_spec]
  unfold resignSpec
  cases hl : lookup s.store s.now key' with
  | none =>
    exact inv_keep hinv key' id' _ (fun k i h => setTold_other _ _ _ _ _ _ h)
      (Or.inl (setTold_same _ _ _ _))
  | some e =>
    by_cases hv : e.val = id'
    · simp only [hv, ↓reduceIte]
      exact inv_release hinv key' id' e hl hv
    · simp only [hv, ↓reduceIte]
      exact inv_keep hinv key' id' _ (fun k i h => setTold_other _ _ _ _ _ _ h)
        (Or.inl (setTold_same _ _ _ _))

theorem inv_step {cfg : Bytes → Nat} {s : Sys} (hinv : Inv cfg s) (ev : Ev)
    (hok : ev.ttlOk cfg) : Inv cfg (step cfg s ev).1 := by
  cases ev with
  | campaign key id => exact inv_campaign hinv key id hok
  | renew key id => exact inv_campaign hinv key id hok
  | resign key id => exact inv_resign hinv key id
  | leader key => exact hinv
  | tick d => exact inv_tick hinv d
  | lostCampaign key id applied =>
    cases applied with
    | true => exact inv_lostCampaign hinv key id hok
    | false => exact hinv
  | lostResign key id applied =>
    cases applied with
    | true => exact inv_resign hinv key id
    | false =>
      exact inv_keep hinv key id _ (fun k i h => setTold_other _ _ _ _ _ _ h)
        (Or.inl (setTold_same _ _ _ _))

theorem inv_run {cfg : Bytes → Nat} (evs : List Ev) {s : Sys} (hinv : Inv cfg s)
    (hok : ∀ ev ∈ evs, ev.ttlOk cfg) : Inv cfg (run cfg s evs) := by
  induction evs generalizing s with
  | nil => exact hinv
  | cons ev rest ih =>
    simp only [run]
    exact ih (inv_step hinv ev (hok ev (by simp))) (fun e he => hok e (by simp [he]))

/-! ### an instance that stops calling -/

/-- the event is a call issued by instance `id` contending for `key` -/
def Ev.isBy (key id : Bytes) : Ev → Bool
  | .campaign k i => k = key ∧ i = id
  | .renew k i => k = key ∧ i = id
  | .resign k i => k = key ∧ i = id
  | .lostCampaign k i _ => k = key ∧ i = id
  | .lostResign k i _ => k = key ∧ i = id
  | _ => false

theorem toldAfter_other (t : Bytes → Bytes → Option Nat) (key' id' : Bytes) (dl : Nat) (r : Role)
    (key id : Bytes) (h : ¬ (key = key' ∧ id = id')) : toldAfter t key' id' dl r key id = t key id := by
  cases r <;> simp [toldAfter, setTold, h]

theorem told_step_notBy (cfg : Bytes → Nat) (s : Sys) (ev : Ev) (key id : Bytes)
    (h : ev.isBy key id = false) : (step cfg s ev).1.told key id = s.told key id := by
  cases ev with
  | campaign k i =>
    have hne : ¬ (key = k ∧ id = i) := by
      intro ⟨a, b⟩; simp [Ev.isBy, a, b] at h
    simp only [step]; exact toldAfter_other _ _ _ _ _ _ _ hne
  | renew k i =>
    have hne : ¬ (key = k ∧ id = i) := by
      intro ⟨a, b⟩; simp [Ev.isBy, a, b] at h
    simp only [step]; exact toldAfter_other _ _ _ _ _ _ _ hne
  | resign k i =>
    have hne : ¬ (key = k ∧ id = i) := by
      intro ⟨a, b⟩; simp [Ev.isBy, a, b] at h
    simp only [step]; exact setTold_other _ _ _ _ _ _ hne
  | leader k => rfl
  | tick d => rfl
  | lostCampaign k i a => rfl
  | lostResign k i a =>
    have hne : ¬ (key = k ∧ id = i) := by
      intro ⟨a, b⟩; simp [Ev.isBy, a, b] at h
    simp only [step]; exact setTold_other _ _ _ _ _ _ hne

theorem now_step_le (cfg : Bytes → Nat) (s : Sys) (ev : Ev) : s.now ≤ (step cfg s ev).1.now := by
  cases ev <;> simp [step]

theorem told_run_notBy (cfg : Bytes → Nat) (evs : List Ev) (s : Sys) (key id : Bytes)
    (h : ∀ ev ∈ evs, ev.isBy key id = false) : (run cfg s evs).told key id = s.told key id := by
  induction evs generalizing s with
  | nil => rfl
  | cons ev rest ih =>
    simp only [run]
    rw [ih _ (fun e he => h e (by simp [he])), told_step_notBy cfg s ev key id (h ev (by simp))]

/-- every entry of `key` carrying value `id` expires by `D` -/
def OwnBound (s : Sys) (key id : Bytes) (D : Nat) : Prop :=
  ∀ e, s.store key = some e → e.val = id → e.exp ≤ D

theorem campaignSpec_ownBound (st : Store) (now : Nat) (k i key id : Bytes) (ttl D : Nat)
    (hne : ¬ (k = key ∧ i = id))
    (h : ∀ e, st key = some e → e.val = id → e.exp ≤ D) :
    ∀ e, (campaignSpec st now k i ttl).1 key = some e → e.val = id → e.exp ≤ D := by
  unfold campaignSpec
  intro e he hv
  cases hl : lookup st now k with
  | none =>
    simp only [hl] at he
    by_cases ht : ttl = 0
    · simp only [ht, ↓reduceIte] at he; exact h e he hv
    · simp only [ht, ↓reduceIte] at he
      by_cases hk : key = k
      · subst hk; rw [set_same] at he; cases he
        exact absurd ⟨rfl, hv⟩ hne
      · rw [set_other _ _ _ _ hk] at he; exact h e he hv
  | some e0 =>
    simp only [hl] at he
    by_cases hv0 : e0.val = i
    · simp only [hv0, ↓reduceIte] at he
      by_cases ht : ttl = 0
      · simp only [ht, ↓reduceIte] at he
        by_cases hk : key = k
        · subst hk; rw [del_same] at he; cases he
        · rw [del_other _ _ _ hk] at he; exact h e he hv
      · simp only [ht, ↓reduceIte] at he
        by_cases hk : key = k
        · subst hk; rw [set_same] at he; cases he
          exact absurd ⟨rfl, hv⟩ hne
        · rw [set_other _ _ _ _ hk] at he; exact h e he hv
    · simp only [hv0, ↓reduceIte] at he; exact h e he hv

theorem resignSpec_ownBound (st : Store) (now : Nat) (k i key id : Bytes) (D : Nat)
    (h : ∀ e, st key = some e → e.val = id → e.exp ≤ D) :
    ∀ e, (resignSpec st now k i).1 key = some e → e.val = id → e.exp ≤ D := by
  unfold resignSpec
  intro e he hv
  cases hl : lookup st now k with
  | none => simp only [hl] at he; exact h e he hv
  | some e0 =>
    simp only [hl] at he
    by_cases hv0 : e0.val = i
    · simp only [hv0, ↓reduceIte] at he
      by_cases hk : key = k
      · subst hk; rw [del_same] at he; cases he
      · rw [del_other _ _ _ hk] at he; exact h e he hv
    · simp only [hv0, ↓reduceIte] at he; exact h e he hv

theorem ownBound_step (cfg : Bytes → Nat) (s : Sys) (ev : Ev) (key id : Bytes) (D : Nat)
    (hby : ev.isBy key id = false) (h : OwnBound s key id D) :
    OwnBound (step cfg s ev).1 key id D := by
  unfold OwnBound at *
  cases ev with
  | campaign k i =>
    have hne : ¬ (k = key ∧ i = id) := by simpa [Ev.isBy] using hby
    simp only [step, campaignCall_eq_spec]
    exact campaignSpec_ownBound _ _ _ _ _ _ _ _ hne h
  | renew k i =>
    have hne : ¬ (k = key ∧ i = id) := by simpa [Ev.isBy] using hby
    simp only [step, campaignCall_eq_spec]
    exact campaignSpec_ownBound _ _ _ _ _ _ _ _ hne h
  | resign k i =>
    simp only [step, resignCall_eq_spec]
    exact resignSpec_ownBound _ _ _ _ _ _ _ h
  | leader k => exact h
  | tick d => exact h
  | lostCampaign k i a =>
    have hne : ¬ (k = key ∧ i = id) := by simpa [Ev.isBy] using hby
    cases a with
    | false => exact h
    | true =>
      simp only [step, campaignCall_eq_spec, ↓reduceIte]
      exact campaignSpec_ownBound _ _ _ _ _ _ _ _ hne h
  | lostResign k i a =>
    cases a with
    | false => exact h
    | true =>
      simp only [step, resignCall_eq_spec, ↓reduceIte]
      exact resignSpec_ownBound _ _ _ _ _ _ _ h

theorem ownBound_run (cfg : Bytes → Nat) (evs : List Ev) (s : Sys) (key id : Bytes) (D : Nat)
    (hby : ∀ ev ∈ evs, ev.isBy key id = false) (h : OwnBound s key id D) :
    OwnBound (run cfg s evs) key id D := by
  induction evs generalizing s with
  | nil => exact h
  | cons ev rest ih =>
    simp only [run]
    exact ih _ (fun e he => hby e (by simp [he])) (ownBound_step cfg s ev key id D (hby ev (by simp)) h)

/-- a delivered campaign/renew, for ttl ≥ 1, in closed form -/
theorem campaign_cases (st : Store) (now : Nat) (key id : Bytes) (ttl : Nat) (h1 : 1 ≤ ttl) :
    ((lookup st now key = none ∨ ∃ e, lookup st now key = some e ∧ e.val = id) ∧
      campaignCall st now key id ttl = (st.set key ⟨id, now + ttl * 1000⟩, .int 1)) ∨
    ((∃ e, lookup st now key = some e ∧ e.val ≠ id) ∧
      campaignCall st now key id ttl = (st, .int 0)) := by
  have h0 : ttl ≠ 0 := by omega
  rw [campaignCall_eq_spec]
  unfold campaignSpec
  cases hl : lookup st now key with
  | none => left; simp [h0]
  | some e =>
    by_cases hv : e.val = id
    · left; simp [h0, hv]
    · right; simp [hv]

end GunYu.Lease
