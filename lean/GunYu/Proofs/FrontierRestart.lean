/-
  Helper lemmas for C14, part 3: sync mode, and stop/start cycles with no
  traffic never move the resume point backwards. Core only.
-/
import GunYu.Proofs.FrontierSys

namespace GunYu.Frontier
open GunYu

set_option linter.unusedSimpArgs false
set_option linter.unusedVariables false

/-! ### sync mode -/

/-- `n` units have been applied, exactly 1..n in order; `latest` is the record of unit n -/
structure SyncInv (W : World) (s : SyncSys) (n : Nat) : Prop where
  root : ∃ db, s.ns.root = some (W.rid, W.e 0, db)
  cur : s.cur = (n : Int)
  applied : s.applied = upTo n
  none0 : s.ns.latest = none → n = 0
  latest : ∀ r, s.ns.latest = some r → r = { (unitRec W (n : Int) r.mtime) with slot := r.slot } ∧ 0 < n

theorem startLatest_of_inv {W : World} {s : SyncSys} {n : Nat} (hi : SyncInv W s n)
    (hmono : ∀ i, 0 ≤ i → W.e 0 ≤ W.e i) (hrid : matchRun W.rid W.ids = true) :
    ∃ db, startLatest s.ns W.ids = .point db W.rid (W.e n) n := by
  obtain ⟨db, hroot⟩ := hi.root
  cases hl : s.ns.latest with
  | none =>
    have : n = 0 := hi.none0 hl
    subst this
    exact ⟨db, by unfold startLatest; rw [hroot, hl]; rfl⟩
  | some r =>
    obtain ⟨hrec, hpos⟩ := hi.latest r hl
    have hrun : r.runId = W.rid := by rw [hrec]; rfl
    have hseq : r.seq = (n : Int) := by rw [hrec]; rfl
    have hend : r.endOff = W.e n := by rw [hrec]; rfl
    refine ⟨0, ?_⟩
    unfold startLatest
    rw [hroot, hl]
    simp only [hrun, hrid, if_true]
    have : rootNewer (W.rid, W.e 0, db) r.endOff W.ids = false := by
      unfold rootNewer
      have := hmono n (by omega)
      simp only [hend]
      rw [Bool.eq_false_iff]
      intro h
      simp only [decide_eq_true_eq] at h
      omega
    rw [this]
    simp [hseq, hend]

theorem syncStep_inv {W : World} {s : SyncSys} {n : Nat} (hi : SyncInv W s n)
    (hmono : ∀ i, 0 ≤ i → W.e 0 ≤ W.e i) (hrid : matchRun W.rid W.ids = true) (st : SyncStep) :
    ∃ n', SyncInv W (syncStep W s st) n' := by
  cases st with
  | restart =>
    obtain ⟨db, hst⟩ := startLatest_of_inv hi hmono hrid
    refine ⟨n, ?_⟩
    simp only [syncStep, hst]
    exact ⟨hi.root, rfl, hi.applied, hi.none0, hi.latest⟩
  | commitNext mt =>
    refine ⟨n + 1, hi.root, ?_, ?_, ?_, ?_⟩
    · simp only [syncStep, hi.cur]; omega
    · simp only [syncStep, hi.applied, hi.cur, upTo]; congr 2
    · intro h; simp [syncStep, applyReq] at h
    · intro r hr
      simp only [syncStep, applyReq, Option.some.injEq] at hr
      subst hr
      refine ⟨?_, by omega⟩
      simp only [unitRec, hi.cur]
      congr 1

theorem syncRun_inv {W : World} (hmono : ∀ i, 0 ≤ i → W.e 0 ≤ W.e i)
    (hrid : matchRun W.rid W.ids = true) (steps : List SyncStep) :
    ∀ {s : SyncSys} {n : Nat}, SyncInv W s n → ∃ n', SyncInv W (syncRun W s steps) n' := by
  induction steps with
  | nil => intro s n hi; exact ⟨n, hi⟩
  | cons st rest ih =>
    intro s n hi
    obtain ⟨n', hi'⟩ := syncStep_inv hi hmono hrid st
    exact ih hi'

/-! ### restarts -/

/-- the stored offsets follow one monotone numbering -/
structure Consistent (W : World) (ns : NS) : Prop where
  mono : ∀ i j, i ≤ j → W.e i ≤ W.e j
  jr : ∀ j ∈ ns.journal, j.r.endOff = W.e j.r.seq
  fr : ∀ f, ns.frontier = some f → f.offset = W.e f.seq
  root : ∀ x, ns.root = some x → x.2.1 = W.e 0

def PointLe : Start → Start → Prop
  | .point _ _ o s, .point _ _ o' s' => o ≤ o' ∧ s ≤ s'
  | _, _ => False

def IsPoint : Start → Prop
  | .point _ _ _ _ => True
  | _ => False

/-- consecutive start points never decrease -/
def Ascending : List Start → Prop
  | a :: b :: rest => PointLe a b ∧ Ascending (b :: rest)
  | _ => True

theorem applyAll_recovery_frontier (ns : NS) (rs : List Req)
    (hrs : ∀ q ∈ rs, (∃ f, q = .saveFrontier f) ∨ (∃ k, q = .delRec k) ∨ (∃ ks, q = .zrem ks)) :
    (applyAll ns rs).root = ns.root ∧
    (∀ j ∈ (applyAll ns rs).journal, j ∈ ns.journal) ∧
    (∀ f, (applyAll ns rs).frontier = some f → ns.frontier = some f ∨ .saveFrontier f ∈ rs) := by
  induction rs generalizing ns with
  | nil => exact ⟨rfl, fun j hj => hj, fun f hf => Or.inl hf⟩
  | cons q rs ih =>
    simp only [applyAll, List.foldl_cons]
    have hq := hrs q (List.mem_cons_self ..)
    obtain ⟨h1, h2, h3⟩ := ih (applyReq ns q) (fun q' hq' => hrs q' (List.mem_cons_of_mem _ hq'))
    simp only [applyAll] at h1 h2 h3
    rcases hq with ⟨f, rfl⟩ | ⟨k, rfl⟩ | ⟨ks, rfl⟩
    · refine ⟨h1, h2, ?_⟩
      intro f' hf'
      rcases h3 f' hf' with h | h
      · simp only [applyReq, Option.some.injEq] at h
        right; rw [h]; exact List.mem_cons_self ..
      · right; exact List.mem_cons_of_mem _ h
    · refine ⟨h1, fun j hj => (List.mem_filter.mp (h2 j hj)).1, ?_⟩
      intro f' hf'
      rcases h3 f' hf' with h | h
      · left; exact h
      · right; exact List.mem_cons_of_mem _ h
    · refine ⟨h1, h2, ?_⟩
      intro f' hf'
      rcases h3 f' hf' with h | h
      · left; exact h
      · right; exact List.mem_cons_of_mem _ h

theorem loadSnapshot_match {ns : NS} {ids : List Bytes} {f : Snap} (h : loadSnapshot ns ids = some f) :
    matchRun f.runId ids = true := by
  unfold loadSnapshot at h
  split at h
  · exact absurd h (by simp)
  · split at h
    · rename_i hm; simp only [Option.some.injEq] at h; subst h; exact hm
    · exact absurd h (by simp)

theorem loadSnapshot_of_frontier {ns : NS} {ids : List Bytes} {f : Snap} (h : ns.frontier = some f)
    (hm : matchRun f.runId ids = true) : loadSnapshot ns ids = some f := by
  unfold loadSnapshot; rw [h]; simp [hm]

theorem loadRecords_match {ns : NS} {ids : List Bytes} {m : Int} {j : JRec}
    (h : j ∈ loadRecords ns ids m) : matchRun j.r.runId ids = true := by
  unfold loadRecords at h
  obtain ⟨p, _, hp⟩ := List.mem_filterMap.mp h
  split at hp
  · exact absurd hp (by simp)
  · split at hp
    · rename_i hm; simp only [Option.some.injEq] at hp; subst hp; exact hm
    · exact absurd hp (by simp)

/-- requests of a purge -/
def PurgeReq (q : Req) : Prop := (∃ k, q = .delRec k) ∨ (∃ ks, q = .zrem ks) ∨ q = .delFrontier

theorem purgeReqs_form (ns : NS) (ids : List Bytes) : ∀ q ∈ purgeReqs ns ids, PurgeReq q := by
  intro q hq
  unfold purgeReqs at hq
  rcases List.mem_append.mp hq with hq | hq
  · rcases List.mem_append.mp hq with hq | hq
    · obtain ⟨k, _, rfl⟩ := List.mem_map.mp hq; exact Or.inl ⟨k, rfl⟩
    · split at hq
      · simp at hq
      · exact Or.inr (Or.inl ⟨_, List.mem_singleton.mp hq⟩)
  · exact Or.inr (Or.inr (List.mem_singleton.mp hq))

theorem restartFromRoot_form (ns : NS) (ids : List Bytes) (root : Bytes × Int × Nat) :
    ∃ reqs, restartFromRoot ns ids root = (rootPoint root, reqs) ∧ ∀ q ∈ reqs, PurgeReq q := by
  unfold restartFromRoot
  split
  · exact ⟨_, rfl, purgeReqs_form ns ids⟩
  · exact ⟨[], rfl, by simp⟩

/-- a start finds no root checkpoint, or falls back to it (purging), or selects the rebuilt frontier `f` -/
theorem startFrontier_cases (ver : Bytes) (ns : NS) (ids : List Bytes) :
    (ns.root = none ∧ startFrontier ver ns ids = (.empty, [])) ∨
    (∃ root reqs, ns.root = some root ∧ startFrontier ver ns ids = (rootPoint root, reqs) ∧
      ∀ q ∈ reqs, PurgeReq q) ∨
    (∃ root f, ns.root = some root ∧
      rebuild ver (loadSnapshot ns ids) ((startRecords ns ids).map (·.r)) = .ok (some f) ∧
      f.seq > 0 ∧ rootNewer root f.offset ids = false ∧
      startFrontier ver ns ids =
        (.point 0 (if f.runId = [] then ids.headD [] else f.runId) f.offset f.seq,
         recoveryReqs (startRecords ns ids) f)) := by
  unfold startFrontier
  cases hroot : ns.root with
  | none => left; exact ⟨rfl, rfl⟩
  | some root =>
    dsimp only
    have hR : (∃ root' reqs, some root = some root' ∧ restartFromRoot ns ids root = (rootPoint root', reqs) ∧
        ∀ q ∈ reqs, PurgeReq q) := by
      obtain ⟨reqs, h1, h2⟩ := restartFromRoot_form ns ids root
      exact ⟨root, reqs, rfl, h1, h2⟩
    cases hrb : rebuild ver (loadSnapshot ns ids) ((startRecords ns ids).map (·.r)) with
    | error m => right; left; exact hR
    | ok res =>
      cases res with
      | none => right; left; exact hR
      | some f =>
        dsimp only
        by_cases hpos : f.seq > 0
        · rw [if_pos hpos]
          by_cases hnew : rootNewer root f.offset ids = true
          · rw [if_pos hnew]; right; left; exact hR
          · rw [if_neg hnew]; right; right
            exact ⟨root, f, rfl, rfl, hpos, by simpa using hnew, rfl⟩
        · rw [if_neg hpos]; right; left; exact hR

theorem rebuild_some_pos (ver : Bytes) (f : Snap) (recs : List Rec) (hpos : f.seq > 0) :
    ∃ f', rebuild ver (some f) recs = .ok (some f') := by
  unfold rebuild
  by_cases he : recs.isEmpty = true
  · rw [if_pos he]; exact ⟨f, rfl⟩
  · rw [if_neg he]
    have : ¬ (f.seq = 0 ∧ minSeq recs ≠ 1) := fun h => by omega
    simp only
    rw [if_neg this]; exact ⟨_, rfl⟩

theorem startFrontier_selected (ver : Bytes) (ns : NS) (ids : List Bytes) (root : Bytes × Int × Nat)
    (f' : Snap) (hroot : ns.root = some root)
    (hrb : rebuild ver (loadSnapshot ns ids) ((startRecords ns ids).map (·.r)) = .ok (some f'))
    (hpos : f'.seq > 0) (hnew : rootNewer root f'.offset ids = false) :
    ∃ rid, (startFrontier ver ns ids).1 = .point 0 rid f'.offset f'.seq := by
  unfold startFrontier
  rw [hroot]
  dsimp only
  rw [hrb]
  dsimp only
  rw [if_pos hpos, hnew]
  exact ⟨_, rfl⟩

theorem rootNewer_mono (root : Bytes × Int × Nat) (a b : Int) (ids : List Bytes) (hab : a ≤ b)
    (h : rootNewer root a ids = false) : rootNewer root b ids = false := by
  unfold rootNewer at h ⊢
  rw [Bool.eq_false_iff] at h ⊢
  intro hb
  apply h
  simp only [decide_eq_true_eq] at hb ⊢
  exact ⟨hb.1, by omega, hb.2.2⟩

/-- the frontier a start selected follows the numbering and carries a matching run id -/
theorem selected_consistent {W : World} {ns : NS} (hc : Consistent W ns) (f : Snap)
    (hrb : rebuild W.ver (loadSnapshot ns W.ids) ((startRecords ns W.ids).map (·.r)) = .ok (some f))
    (hpos : f.seq > 0) : f.offset = W.e f.seq ∧ matchRun f.runId W.ids = true := by
  obtain ⟨hb1, hb2, hb3, hb4⟩ := rebuild_spec W.ver _ _ f hrb
  by_cases hadv : baseSeq (loadSnapshot ns W.ids) < f.seq
  · obtain ⟨r, hr, hrs, hro, hrr⟩ := hb3 hadv
    obtain ⟨j, hj, rfl⟩ := List.mem_map.mp hr
    refine ⟨?_, ?_⟩
    · rw [← hro, hc.jr j (mem_loadRecords hj), hrs]
    · rw [← hrr]; exact loadRecords_match hj
  · have heq : f.seq = baseSeq (loadSnapshot ns W.ids) := by omega
    rcases hb4 heq with h1 | ⟨_, h2⟩
    · exact ⟨hc.fr f (loadSnapshot_some h1), loadSnapshot_match h1⟩
    · omega

theorem recoveryReqs_shape (records : List JRec) (f : Snap) :
    recoveryReqs records f = [] ∨
    ∃ rest, recoveryReqs records f = Req.saveFrontier f :: rest ∧
      ∀ q ∈ rest, (∃ k, q = .delRec k) ∨ (∃ ks, q = .zrem ks) := by
  unfold recoveryReqs
  split
  · left; rfl
  · right
    refine ⟨_, rfl, ?_⟩
    intro q hq
    rcases List.mem_append.mp hq with hq | hq
    · obtain ⟨k, _, rfl⟩ := List.mem_map.mp hq; exact Or.inl ⟨k, rfl⟩
    · right; exact ⟨_, by simpa using hq⟩

/-- deletions keep the saved frontier -/
theorem applyAll_dels (ns : NS) (rs : List Req)
    (hrs : ∀ q ∈ rs, (∃ k, q = .delRec k) ∨ (∃ ks, q = .zrem ks)) :
    (applyAll ns rs).root = ns.root ∧ (applyAll ns rs).frontier = ns.frontier ∧
    (∀ j ∈ (applyAll ns rs).journal, j ∈ ns.journal) := by
  induction rs generalizing ns with
  | nil => exact ⟨rfl, rfl, fun j hj => hj⟩
  | cons q rs ih =>
    simp only [applyAll, List.foldl_cons]
    obtain ⟨h1, h2, h3⟩ := ih (applyReq ns q) (fun q' hq' => hrs q' (List.mem_cons_of_mem _ hq'))
    simp only [applyAll] at h1 h2 h3
    rcases hrs q (List.mem_cons_self ..) with ⟨k, rfl⟩ | ⟨ks, rfl⟩
    · exact ⟨h1, h2, fun j hj => (List.mem_filter.mp (h3 j hj)).1⟩
    · exact ⟨h1, h2, h3⟩

/-- a purge only removes: the root stays, the journal shrinks, the frontier stays or goes -/
theorem applyAll_purge (ns : NS) (rs : List Req) (hrs : ∀ q ∈ rs, PurgeReq q) :
    (applyAll ns rs).root = ns.root ∧
    ((applyAll ns rs).frontier = ns.frontier ∨ (applyAll ns rs).frontier = none) ∧
    (∀ j ∈ (applyAll ns rs).journal, j ∈ ns.journal) := by
  induction rs generalizing ns with
  | nil => exact ⟨rfl, Or.inl rfl, fun j hj => hj⟩
  | cons q rs ih =>
    simp only [applyAll, List.foldl_cons]
    obtain ⟨h1, h2, h3⟩ := ih (applyReq ns q) (fun q' hq' => hrs q' (List.mem_cons_of_mem _ hq'))
    simp only [applyAll] at h1 h2 h3
    rcases hrs q (List.mem_cons_self ..) with ⟨k, rfl⟩ | ⟨ks, rfl⟩ | rfl
    · exact ⟨h1, h2, fun j hj => (List.mem_filter.mp (h3 j hj)).1⟩
    · exact ⟨h1, h2, h3⟩
    · refine ⟨h1, ?_, h3⟩
      rcases h2 with h | h
      · right; rw [h]; rfl
      · right; exact h

/-- in a consistent namespace with a root checkpoint every start is a point on the numbering -/
theorem start_point_of_consistent {W : World} {ns : NS} (hc : Consistent W ns)
    (root : Bytes × Int × Nat) (hroot : ns.root = some root) :
    ∃ db rid seq, (startFrontier W.ver ns W.ids).1 = .point db rid (W.e seq) seq ∧ 0 ≤ seq := by
  rcases startFrontier_cases W.ver ns W.ids with ⟨h, _⟩ | ⟨root', reqs, hr, hst, _⟩ | ⟨root', f, hr, hrb, hpos, _, hst⟩
  · rw [hroot] at h; exact absurd h (by simp)
  · rw [hst]
    refine ⟨root'.2.2, root'.1, 0, ?_, Int.le_refl _⟩
    simp only [rootPoint, hc.root root' hr]
  · rw [hst]
    obtain ⟨hfe, _⟩ := selected_consistent hc f hrb hpos
    exact ⟨0, _, f.seq, by rw [hfe], by omega⟩

/-- one stop/start cycle: the next start point is not smaller -/
theorem restart_step {W : World} {ns : NS} (hc : Consistent W ns) (db : Nat) (rid : Bytes) (off seq : Int)
    (h : (startFrontier W.ver ns W.ids).1 = .point db rid off seq) (k : Nat) :
    Consistent W (restartState W.ver W.ids ns k) ∧
    ∃ db' rid' off' seq',
      (startFrontier W.ver (restartState W.ver W.ids ns k) W.ids).1 = .point db' rid' off' seq' ∧
      off ≤ off' ∧ seq ≤ seq' := by
  have hsame : restartState W.ver W.ids ns k = ns →
      Consistent W (restartState W.ver W.ids ns k) ∧
      ∃ db' rid' off' seq',
        (startFrontier W.ver (restartState W.ver W.ids ns k) W.ids).1 = .point db' rid' off' seq' ∧
        off ≤ off' ∧ seq ≤ seq' := by
    intro he; rw [he]
    exact ⟨hc, db, rid, off, seq, h, Int.le_refl _, Int.le_refl _⟩
  rcases startFrontier_cases W.ver ns W.ids with ⟨_, hst⟩ | ⟨root, reqs, hroot, hst, hreqs⟩ |
      ⟨root, f, hroot, hrb, hpos, hnew, hst⟩
  · rw [hst] at h; exact absurd h (by simp)
  · -- fell back to the root checkpoint: a purge may have been cut anywhere
    rw [hst] at h
    simp only [rootPoint, Start.point.injEq] at h
    obtain ⟨_, _, hoff, hseq⟩ := h
    have hstate : restartState W.ver W.ids ns k = applyAll ns (reqs.take k) := by
      unfold restartState; rw [hst]
    obtain ⟨hr1, hr2, hr3⟩ := applyAll_purge ns (reqs.take k) (fun q hq => hreqs q (List.mem_of_mem_take hq))
    rw [hstate]
    generalize applyAll ns (reqs.take k) = ns' at hr1 hr2 hr3
    have hc' : Consistent W ns' := by
      refine ⟨hc.mono, fun j hj => hc.jr j (hr3 j hj), ?_, fun x hx => hc.root x (hr1 ▸ hx)⟩
      intro f' hf'
      rcases hr2 with h2 | h2
      · exact hc.fr f' (h2 ▸ hf')
      · rw [h2] at hf'; exact absurd hf' (by simp)
    refine ⟨hc', ?_⟩
    obtain ⟨db', rid', seq', hst', hs'⟩ := start_point_of_consistent hc' root (hr1.trans hroot)
    refine ⟨db', rid', W.e seq', seq', hst', ?_, by omega⟩
    rw [← hoff, hc.root root hroot]
    exact hc.mono 0 seq' hs'
  · rw [hst] at h
    simp only [Start.point.injEq] at h
    obtain ⟨_, _, hoff, hseq⟩ := h
    subst hoff hseq
    obtain ⟨hfe, hfm⟩ := selected_consistent hc f hrb hpos
    rcases recoveryReqs_shape (startRecords ns W.ids) f with hnil | ⟨rest, hshape, hrest⟩
    · apply hsame
      unfold restartState; rw [hst, hnil]; simp [applyAll]
    · cases k with
      | zero =>
        apply hsame
        unfold restartState; simp [applyAll]
      | succ k =>
        have hstate : restartState W.ver W.ids ns (k + 1)
            = applyAll (applyReq ns (.saveFrontier f)) (rest.take k) := by
          unfold restartState; rw [hst, hshape]; simp [applyAll]
        obtain ⟨hr1, hr2, hr3⟩ := applyAll_dels (applyReq ns (.saveFrontier f)) (rest.take k)
          (fun q hq => hrest q (List.mem_of_mem_take hq))
        rw [hstate]
        generalize hns' : applyAll (applyReq ns (.saveFrontier f)) (rest.take k) = ns' at hr1 hr2 hr3
        have hroot' : ns'.root = some root := by rw [hr1]; exact hroot
        have hfr' : ns'.frontier = some f := by rw [hr2]; rfl
        have hj' : ∀ j ∈ ns'.journal, j ∈ ns.journal := fun j hj => hr3 j hj
        have hc' : Consistent W ns' :=
          ⟨hc.mono, fun j hj => hc.jr j (hj' j hj), fun f' hf' => by
            rw [hfr'] at hf'; simp only [Option.some.injEq] at hf'; subst hf'; exact hfe,
           fun x hx => hc.root x (by rw [hroot'] at hx; rw [hroot]; exact hx)⟩
        refine ⟨hc', ?_⟩
        have hsnap' : loadSnapshot ns' W.ids = some f := loadSnapshot_of_frontier hfr' hfm
        obtain ⟨f', hrb'⟩ := rebuild_some_pos W.ver f ((startRecords ns' W.ids).map (·.r)) hpos
        obtain ⟨hb1, hb2, hb3, hb4⟩ := rebuild_spec W.ver _ _ f' hrb'
        simp only [baseSeq] at hb1 hb3 hb4
        have hoff : f.offset ≤ f'.offset := by
          by_cases hadv : f.seq < f'.seq
          · obtain ⟨r, hr, hrs, hro, _⟩ := hb3 hadv
            obtain ⟨j, hj, rfl⟩ := List.mem_map.mp hr
            rw [← hro, hc'.jr j (mem_loadRecords hj), hrs, hfe]
            exact hc.mono _ _ (by omega)
          · have heq : f'.seq = f.seq := by omega
            rcases hb4 heq with h1 | ⟨h1, _⟩
            · simp only [Option.some.injEq] at h1; rw [h1]; exact Int.le_refl _
            · exact absurd h1 (by simp)
        have hrb'' : rebuild W.ver (loadSnapshot ns' W.ids) ((startRecords ns' W.ids).map (·.r))
            = .ok (some f') := by rw [hsnap']; exact hrb'
        obtain ⟨rid', hsel⟩ := startFrontier_selected W.ver ns' W.ids root f' hroot' hrb''
          (by omega) (rootNewer_mono root _ _ W.ids hoff hnew)
        exact ⟨0, rid', f'.offset, f'.seq, hsel, hoff, hb1⟩

theorem restarts_head (ver : Bytes) (ids : List Bytes) (ns : NS) (ks : List Nat) :
    ∃ tl, restarts ver ids ns ks = (startFrontier ver ns ids).1 :: tl := by
  cases ks with
  | nil => exact ⟨[], rfl⟩
  | cons k ks => exact ⟨_, rfl⟩

/-- any number of stop/start cycles -/
theorem restarts_ascending {W : World} (ks : List Nat) :
    ∀ {ns : NS}, Consistent W ns → IsPoint (startFrontier W.ver ns W.ids).1 →
      Ascending (restarts W.ver W.ids ns ks) := by
  induction ks with
  | nil => intro ns _ _; simp [restarts, Ascending]
  | cons k ks ih =>
    intro ns hc hp
    cases hst : (startFrontier W.ver ns W.ids).1 with
    | empty => rw [hst] at hp; exact absurd hp (by simp [IsPoint])
    | point db rid off seq =>
      obtain ⟨hc', db', rid', off', seq', hst', ho, hs⟩ := restart_step hc db rid off seq hst k
      obtain ⟨tl, htl⟩ := restarts_head W.ver W.ids (restartState W.ver W.ids ns k) ks
      have hasc := ih hc' (by rw [hst']; trivial)
      simp only [restarts]
      rw [htl] at hasc ⊢
      rw [hst, hst'] at *
      exact ⟨⟨ho, hs⟩, hasc⟩

end GunYu.Frontier
