/-
  Helper lemmas for C14, part 3: sync mode, and stop/start cycles with no
  traffic never move the resume point backwards. Core only.
-/
import GunYu.Proofs.FrontierSys

namespace GunYu.Frontier
open GunYu

set_option linter.unusedSimpArgs false
set_option linter.unusedVariables false

/-! ### sync mode -/

structure SyncInv (W : World) (s : SyncSys) : Prop where
  root : ∃ db, s.ns.root = some (W.rid, W.e 0, db)
  nonneg : 0 ≤ s.last
  latest : ∀ r, s.ns.latest = some r → r = { (unitRec W s.last r.mtime) with slot := r.slot } ∧ 0 < s.last

theorem syncStep_inv {W : World} {s : SyncSys} (hi : SyncInv W s) (st : SyncStep) :
    SyncInv W (syncStep W s st) := by
  cases st with
  | restart => exact hi
  | commitNext mt =>
    refine ⟨hi.root, by simp only [syncStep]; have := hi.nonneg; omega, ?_⟩
    intro r hr
    simp only [syncStep, applyReq, Option.some.injEq] at hr
    subst hr
    exact ⟨rfl, by simp only [syncStep]; have := hi.nonneg; omega⟩

theorem syncRun_inv {W : World} (steps : List SyncStep) :
    ∀ {s : SyncSys}, SyncInv W s → SyncInv W (syncRun W s steps) := by
  induction steps with
  | nil => intro s hi; exact hi
  | cons st rest ih => intro s hi; exact ih (syncStep_inv hi st)

theorem startLatest_of_inv {W : World} {s : SyncSys} (hi : SyncInv W s)
    (hmono : ∀ i, 0 ≤ i → W.e 0 ≤ W.e i) (hrid : matchRun W.rid W.ids = true) (r : Rec)
    (hr : s.ns.latest = some r) : startLatest s.ns W.ids = .point 0 W.rid (W.e s.last) s.last := by
  obtain ⟨db, hroot⟩ := hi.root
  obtain ⟨hrec, hpos⟩ := hi.latest r hr
  have hrun : r.runId = W.rid := by rw [hrec]; rfl
  have hseq : r.seq = s.last := by rw [hrec]; rfl
  have hend : r.endOff = W.e s.last := by rw [hrec]; rfl
  unfold startLatest
  rw [hroot, hr]
  simp only [hrun, hrid, if_true]
  have : rootNewer (W.rid, W.e 0, db) r.endOff W.ids = false := by
    unfold rootNewer
    have := hmono s.last hi.nonneg
    simp only [hend]
    rw [Bool.eq_false_iff]
    intro h
    simp only [decide_eq_true_eq] at h
    omega
  rw [this]
  simp [hseq, hend]

/-! ### restarts -/

/-- the stored offsets follow one monotone numbering -/
structure Consistent (W : World) (ns : NS) : Prop where
  mono : ∀ i j, i ≤ j → W.e i ≤ W.e j
  jr : ∀ j ∈ ns.journal, j.r.endOff = W.e j.r.seq
  fr : ∀ f, ns.frontier = some f → f.offset = W.e f.seq

def PointLe : Start → Start → Prop
  | .point _ _ o s, .point _ _ o' s' => o ≤ o' ∧ s ≤ s'
  | _, _ => False

def IsPoint : Start → Prop
  | .point _ _ _ _ => True
  | _ => False

/-- consecutive start points never decrease -/
def Ascending : List Start → Prop
  | a :: b :: rest => PointLe a b ∧ Ascending (b :: rest)
  | _ => True

theorem applyAll_recovery_frontier (ns : NS) (rs : List Req)
    (hrs : ∀ q ∈ rs, (∃ f, q = .saveFrontier f) ∨ (∃ k, q = .delRec k) ∨ (∃ ks, q = .zrem ks)) :
    (applyAll ns rs).root = ns.root ∧
    (∀ j ∈ (applyAll ns rs).journal, j ∈ ns.journal) ∧
    (∀ f, (applyAll ns rs).frontier = some f → ns.frontier = some f ∨ .saveFrontier f ∈ rs) := by
  induction rs generalizing ns with
  | nil => exact ⟨rfl, fun j hj => hj, fun f hf => Or.inl hf⟩
  | cons q rs ih =>
    simp only [applyAll, List.foldl_cons]
    have hq := hrs q (List.mem_cons_self ..)
    obtain ⟨h1, h2, h3⟩ := ih (applyReq ns q) (fun q' hq' => hrs q' (List.mem_cons_of_mem _ hq'))
    simp only [applyAll] at h1 h2 h3
    rcases hq with ⟨f, rfl⟩ | ⟨k, rfl⟩ | ⟨ks, rfl⟩
    · refine ⟨h1, h2, ?_⟩
      intro f' hf'
      rcases h3 f' hf' with h | h
      · simp only [applyReq, Option.some.injEq] at h
        right; rw [h]; exact List.mem_cons_self ..
      · right; exact List.mem_cons_of_mem _ h
    · refine ⟨h1, fun j hj => (List.mem_filter.mp (h2 j hj)).1, ?_⟩
      intro f' hf'
      rcases h3 f' hf' with h | h
      · left; exact h
      · right; exact List.mem_cons_of_mem _ h
    · refine ⟨h1, h2, ?_⟩
      intro f' hf'
      rcases h3 f' hf' with h | h
      · left; exact h
      · right; exact List.mem_cons_of_mem _ h

theorem loadSnapshot_match {ns : NS} {ids : List Bytes} {f : Snap} (h : loadSnapshot ns ids = some f) :
    matchRun f.runId ids = true := by
  unfold loadSnapshot at h
  split at h
  · exact absurd h (by simp)
  · split at h
    · rename_i hm; simp only [Option.some.injEq] at h; subst h; exact hm
    · exact absurd h (by simp)

theorem loadSnapshot_of_frontier {ns : NS} {ids : List Bytes} {f : Snap} (h : ns.frontier = some f)
    (hm : matchRun f.runId ids = true) : loadSnapshot ns ids = some f := by
  unfold loadSnapshot; rw [h]; simp [hm]

theorem loadRecords_match {ns : NS} {ids : List Bytes} {m : Int} {j : JRec}
    (h : j ∈ loadRecords ns ids m) : matchRun j.r.runId ids = true := by
  unfold loadRecords at h
  obtain ⟨p, _, hp⟩ := List.mem_filterMap.mp h
  split at hp
  · exact absurd hp (by simp)
  · split at hp
    · rename_i hm; simp only [Option.some.injEq] at hp; subst hp; exact hm
    · exact absurd hp (by simp)

/-- either a start writes nothing, or it selected the rebuilt frontier `f` -/
theorem startFrontier_cases (ver : Bytes) (ns : NS) (ids : List Bytes) :
    (∃ st, startFrontier ver ns ids = (st, [])) ∨
    (∃ root f, ns.root = some root ∧
      rebuild ver (loadSnapshot ns ids) ((startRecords ns ids).map (·.r)) = .ok (some f) ∧
      f.seq > 0 ∧ rootNewer root f.offset ids = false ∧
      startFrontier ver ns ids =
        (.point 0 (if f.runId = [] then ids.headD [] else f.runId) f.offset f.seq,
         recoveryReqs (startRecords ns ids) f)) := by
  unfold startFrontier
  cases hroot : ns.root with
  | none => left; exact ⟨_, rfl⟩
  | some root =>
    dsimp only
    cases hrb : rebuild ver (loadSnapshot ns ids) ((startRecords ns ids).map (·.r)) with
    | error m => left; exact ⟨_, rfl⟩
    | ok res =>
      cases res with
      | none => left; exact ⟨_, rfl⟩
      | some f =>
        dsimp only
        by_cases hpos : f.seq > 0
        · rw [if_pos hpos]
          by_cases hnew : rootNewer root f.offset ids = true
          · rw [if_pos hnew]; left; exact ⟨_, rfl⟩
          · rw [if_neg hnew]; right
            exact ⟨root, f, rfl, rfl, hpos, by simpa using hnew, rfl⟩
        · rw [if_neg hpos]; left; exact ⟨_, rfl⟩

theorem rebuild_some_pos (ver : Bytes) (f : Snap) (recs : List Rec) (hpos : f.seq > 0) :
    ∃ f', rebuild ver (some f) recs = .ok (some f') := by
  unfold rebuild
  by_cases he : recs.isEmpty = true
  · rw [if_pos he]; exact ⟨f, rfl⟩
  · rw [if_neg he]
    have : ¬ (f.seq = 0 ∧ minSeq recs ≠ 1) := fun h => by omega
    simp only
    rw [if_neg this]; exact ⟨_, rfl⟩

theorem startFrontier_selected (ver : Bytes) (ns : NS) (ids : List Bytes) (root : Bytes × Int × Nat)
    (f' : Snap) (hroot : ns.root = some root)
    (hrb : rebuild ver (loadSnapshot ns ids) ((startRecords ns ids).map (·.r)) = .ok (some f'))
    (hpos : f'.seq > 0) (hnew : rootNewer root f'.offset ids = false) :
    ∃ rid, (startFrontier ver ns ids).1 = .point 0 rid f'.offset f'.seq := by
  unfold startFrontier
  rw [hroot]
  dsimp only
  rw [hrb]
  dsimp only
  rw [if_pos hpos, hnew]
  exact ⟨_, rfl⟩

theorem rootNewer_mono (root : Bytes × Int × Nat) (a b : Int) (ids : List Bytes) (hab : a ≤ b)
    (h : rootNewer root a ids = false) : rootNewer root b ids = false := by
  unfold rootNewer at h ⊢
  rw [Bool.eq_false_iff] at h ⊢
  intro hb
  apply h
  simp only [decide_eq_true_eq] at hb ⊢
  exact ⟨hb.1, by omega, hb.2.2⟩

/-- the frontier a start selected follows the numbering and carries a matching run id -/
theorem selected_consistent {W : World} {ns : NS} (hc : Consistent W ns) (f : Snap)
    (hrb : rebuild W.ver (loadSnapshot ns W.ids) ((startRecords ns W.ids).map (·.r)) = .ok (some f))
    (hpos : f.seq > 0) : f.offset = W.e f.seq ∧ matchRun f.runId W.ids = true := by
  obtain ⟨hb1, hb2, hb3, hb4⟩ := rebuild_spec W.ver _ _ f hrb
  by_cases hadv : baseSeq (loadSnapshot ns W.ids) < f.seq
  · obtain ⟨r, hr, hrs, hro, hrr⟩ := hb3 hadv
    obtain ⟨j, hj, rfl⟩ := List.mem_map.mp hr
    refine ⟨?_, ?_⟩
    · rw [← hro, hc.jr j (mem_loadRecords hj), hrs]
    · rw [← hrr]; exact loadRecords_match hj
  · have heq : f.seq = baseSeq (loadSnapshot ns W.ids) := by omega
    rcases hb4 heq with h1 | ⟨_, h2⟩
    · exact ⟨hc.fr f (loadSnapshot_some h1), loadSnapshot_match h1⟩
    · omega

theorem recoveryReqs_shape (records : List JRec) (f : Snap) :
    recoveryReqs records f = [] ∨
    ∃ rest, recoveryReqs records f = Req.saveFrontier f :: rest ∧
      ∀ q ∈ rest, (∃ k, q = .delRec k) ∨ (∃ ks, q = .zrem ks) := by
  unfold recoveryReqs
  split
  · left; rfl
  · right
    refine ⟨_, rfl, ?_⟩
    intro q hq
    rcases List.mem_append.mp hq with hq | hq
    · obtain ⟨k, _, rfl⟩ := List.mem_map.mp hq; exact Or.inl ⟨k, rfl⟩
    · right; exact ⟨_, by simpa using hq⟩

/-- deletions keep the saved frontier -/
theorem applyAll_dels (ns : NS) (rs : List Req)
    (hrs : ∀ q ∈ rs, (∃ k, q = .delRec k) ∨ (∃ ks, q = .zrem ks)) :
    (applyAll ns rs).root = ns.root ∧ (applyAll ns rs).frontier = ns.frontier ∧
    (∀ j ∈ (applyAll ns rs).journal, j ∈ ns.journal) := by
  induction rs generalizing ns with
  | nil => exact ⟨rfl, rfl, fun j hj => hj⟩
  | cons q rs ih =>
    simp only [applyAll, List.foldl_cons]
    obtain ⟨h1, h2, h3⟩ := ih (applyReq ns q) (fun q' hq' => hrs q' (List.mem_cons_of_mem _ hq'))
    simp only [applyAll] at h1 h2 h3
    rcases hrs q (List.mem_cons_self ..) with ⟨k, rfl⟩ | ⟨ks, rfl⟩
    · exact ⟨h1, h2, fun j hj => (List.mem_filter.mp (h3 j hj)).1⟩
    · exact ⟨h1, h2, h3⟩

/-- one stop/start cycle: the next start point is not smaller -/
theorem restart_step {W : World} {ns : NS} (hc : Consistent W ns) (db : Nat) (rid : Bytes) (off seq : Int)
    (h : (startFrontier W.ver ns W.ids).1 = .point db rid off seq) (k : Nat) :
    Consistent W (restartState W.ver W.ids ns k) ∧
    ∃ db' rid' off' seq',
      (startFrontier W.ver (restartState W.ver W.ids ns k) W.ids).1 = .point db' rid' off' seq' ∧
      off ≤ off' ∧ seq ≤ seq' := by
  have hsame : restartState W.ver W.ids ns k = ns →
      Consistent W (restartState W.ver W.ids ns k) ∧
      ∃ db' rid' off' seq',
        (startFrontier W.ver (restartState W.ver W.ids ns k) W.ids).1 = .point db' rid' off' seq' ∧
        off ≤ off' ∧ seq ≤ seq' := by
    intro he; rw [he]
    exact ⟨hc, db, rid, off, seq, h, Int.le_refl _, Int.le_refl _⟩
  rcases startFrontier_cases W.ver ns W.ids with ⟨st, hst⟩ | ⟨root, f, hroot, hrb, hpos, hnew, hst⟩
  · apply hsame
    unfold restartState; rw [hst]; simp [applyAll]
  · rw [hst] at h
    simp only [Start.point.injEq] at h
    obtain ⟨_, _, hoff, hseq⟩ := h
    subst hoff hseq
    obtain ⟨hfe, hfm⟩ := selected_consistent hc f hrb hpos
    rcases recoveryReqs_shape (startRecords ns W.ids) f with hnil | ⟨rest, hshape, hrest⟩
    · apply hsame
      unfold restartState; rw [hst, hnil]; simp [applyAll]
    · cases k with
      | zero =>
        apply hsame
        unfold restartState; simp [applyAll]
      | succ k =>
        have hstate : restartState W.ver W.ids ns (k + 1)
            = applyAll (applyReq ns (.saveFrontier f)) (rest.take k) := by
          unfold restartState; rw [hst, hshape]; simp [applyAll]
        obtain ⟨hr1, hr2, hr3⟩ := applyAll_dels (applyReq ns (.saveFrontier f)) (rest.take k)
          (fun q hq => hrest q (List.mem_of_mem_take hq))
        rw [hstate]
        generalize hns' : applyAll (applyReq ns (.saveFrontier f)) (rest.take k) = ns' at hr1 hr2 hr3
        have hroot' : ns'.root = some root := by rw [hr1]; exact hroot
        have hfr' : ns'.frontier = some f := by rw [hr2]; rfl
        have hj' : ∀ j ∈ ns'.journal, j ∈ ns.journal := fun j hj => hr3 j hj
        have hc' : Consistent W ns' :=
          ⟨hc.mono, fun j hj => hc.jr j (hj' j hj), fun f' hf' => by
            rw [hfr'] at hf'; simp only [Option.some.injEq] at hf'; subst hf'; exact hfe⟩
        refine ⟨hc', ?_⟩
        have hsnap' : loadSnapshot ns' W.ids = some f := loadSnapshot_of_frontier hfr' hfm
        obtain ⟨f', hrb'⟩ := rebuild_some_pos W.ver f ((startRecords ns' W.ids).map (·.r)) hpos
        obtain ⟨hb1, hb2, hb3, hb4⟩ := rebuild_spec W.ver _ _ f' hrb'
        simp only [baseSeq] at hb1 hb3 hb4
        have hoff : f.offset ≤ f'.offset := by
          by_cases hadv : f.seq < f'.seq
          · obtain ⟨r, hr, hrs, hro, _⟩ := hb3 hadv
            obtain ⟨j, hj, rfl⟩ := List.mem_map.mp hr
            rw [← hro, hc'.jr j (mem_loadRecords hj), hrs, hfe]
            exact hc.mono _ _ (by omega)
          · have heq : f'.seq = f.seq := by omega
            rcases hb4 heq with h1 | ⟨h1, _⟩
            · simp only [Option.some.injEq] at h1; rw [h1]; exact Int.le_refl _
            · exact absurd h1 (by simp)
        have hrb'' : rebuild W.ver (loadSnapshot ns' W.ids) ((startRecords ns' W.ids).map (·.r))
            = .ok (some f') := by rw [hsnap']; exact hrb'
        obtain ⟨rid', hsel⟩ := startFrontier_selected W.ver ns' W.ids root f' hroot' hrb''
          (by omega) (rootNewer_mono root _ _ W.ids hoff hnew)
        exact ⟨0, rid', f'.offset, f'.seq, hsel, hoff, hb1⟩

theorem restarts_head (ver : Bytes) (ids : List Bytes) (ns : NS) (ks : List Nat) :
    ∃ tl, restarts ver ids ns ks = (startFrontier ver ns ids).1 :: tl := by
  cases ks with
  | nil => exact ⟨[], rfl⟩
  | cons k ks => exact ⟨_, rfl⟩

/-- any number of stop/start cycles -/
theorem restarts_ascending {W : World} (ks : List Nat) :
    ∀ {ns : NS}, Consistent W ns → IsPoint (startFrontier W.ver ns W.ids).1 →
      Ascending (restarts W.ver W.ids ns ks) := by
  induction ks with
  | nil => intro ns _ _; simp [restarts, Ascending]
  | cons k ks ih =>
    intro ns hc hp
    cases hst : (startFrontier W.ver ns W.ids).1 with
    | gap m => rw [hst] at hp; exact absurd hp (by simp [IsPoint])
    | empty => rw [hst] at hp; exact absurd hp (by simp [IsPoint])
    | point db rid off seq =>
      obtain ⟨hc', db', rid', off', seq', hst', ho, hs⟩ := restart_step hc db rid off seq hst k
      obtain ⟨tl, htl⟩ := restarts_head W.ver W.ids (restartState W.ver W.ids ns k) ks
      have hasc := ih hc' (by rw [hst']; trivial)
      simp only [restarts]
      rw [htl] at hasc ⊢
      rw [hst, hst'] at *
      exact ⟨⟨ho, hs⟩, hasc⟩

end GunYu.Frontier
