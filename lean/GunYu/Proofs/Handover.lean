/-
  Lemmas about the runCluster state machine (Model/Handover.lean) for Props/C16Handover.lean.
-/
import GunYu.Model.Handover

namespace GunYu.Handover

@[simp] theorem upd_same (f : Nat → Local) (i : Nat) (v : Local) : upd f i v i = v := by simp [upd]
theorem upd_other (f : Nat → Local) {i k : Nat} (v : Local) (h : k ≠ i) : upd f i v k = f k := by
  simp [upd, h]

@[simp] theorem set_now (s : State) (i : Nat) (p : Phase) : (s.set i p).now = s.now := rfl
@[simp] theorem set_lease (s : State) (i : Nat) (p : Phase) : (s.set i p).lease = s.lease := rfl
@[simp] theorem set_same (s : State) (i : Nat) (p : Phase) : ((s.set i p).loc i).phase = p := by
  simp [State.set]
@[simp] theorem set_same_cache (s : State) (i : Nat) (p : Phase) : ((s.set i p).loc i).cache = (s.loc i).cache := by
  simp [State.set]
@[simp] theorem set_same_disk (s : State) (i : Nat) (p : Phase) : ((s.set i p).loc i).disk = (s.loc i).disk := by
  simp [State.set]
theorem set_other (s : State) {i k : Nat} (p : Phase) (h : k ≠ i) : (s.set i p).loc k = s.loc k := by
  simp [State.set, upd, h]

theorem sending_phase (l : Local) : sending l = true ↔ l.phase = .lead ∨ ∃ w, l.phase = .stopL w := by
  unfold sending
  cases l.phase <;> simp

/-- every instance that is sending holds the unexpired lease -/
def Safe (s : State) : Prop := ∀ i, sending (s.loc i) = true → holdsUntil s i s.now = true

theorem holdsUntil_iff (s : State) (i t : Nat) :
    holdsUntil s i t = true ↔ ∃ e, s.lease = some (i, e) ∧ t < e := by
  unfold holdsUntil
  cases s.lease with
  | none => simp
  | some p =>
    obtain ⟨h, e⟩ := p
    simp only [Bool.and_eq_true, beq_iff_eq, decide_eq_true_eq, Option.some.injEq, Prod.mk.injEq]
    constructor
    · rintro ⟨rfl, ht⟩; exact ⟨e, ⟨rfl, rfl⟩, ht⟩
    · rintro ⟨e', ⟨rfl, rfl⟩, ht⟩; exact ⟨rfl, ht⟩

theorem heldByOther_of_holds {s : State} {k i : Nat} (h : holdsUntil s k s.now = true) (hk : k ≠ i) :
    heldByOther s i = true := by
  obtain ⟨e, hl, ht⟩ := (holdsUntil_iff s k s.now).mp h
  simp [heldByOther, hl, ht, hk]

/-- two instances never send at the same time -/
theorem Safe.unique {s : State} (h : Safe s) {i j : Nat} (hi : sending (s.loc i) = true)
    (hj : sending (s.loc j) = true) : i = j := by
  obtain ⟨e, hl, _⟩ := (holdsUntil_iff s i s.now).mp (h i hi)
  obtain ⟨e', hl', _⟩ := (holdsUntil_iff s j s.now).mp (h j hj)
  rw [hl] at hl'
  cases hl'
  rfl

/-- instances outside `0 … n-1` do not exist -/
def Bounded (c : Cfg) (s : State) : Prop := ∀ i, c.n ≤ i → sending (s.loc i) = false

/-- the events of a trace only name existing instances -/
def Ev.within (c : Cfg) : Ev → Prop
  | .tick _ => True
  | .campaign i _ => i < c.n
  | .renew i _ => i < c.n
  | .tcampaign j _ => j < c.n
  | .offer i j => i < c.n ∧ j < c.n
  | .stopped i => i < c.n
  | .resigned i _ => i < c.n
  | .fsync j _ => j < c.n
  | .fail i _ => i < c.n
  | .landed j => j < c.n
  | .crash i => i < c.n
  | .restart i => i < c.n

theorem timely_spec (c : Cfg) (s : State) (d : Nat) (h : timely c s d = true) (i : Nat) (hi : i < c.n)
    (hs : sending (s.loc i) = true) : holdsUntil s i (s.now + d) = true := by
  unfold timely at h
  rw [List.all_eq_true] at h
  have := h i (List.mem_range.mpr hi)
  simpa [hs] using this

/-- `Safe` with the first line of every case: who is sending after the event -/
theorem step_safe (c : Cfg) (httl : 0 < c.ttl) (s : State) (ev : Ev) (hb : Bounded c s) (hw : ev.within c)
    (hs : Safe s) : Safe (step c true s ev) ∧ Bounded c (step c true s ev) := by
  cases ev with
  | tick d =>
    simp only [step, Bool.true_and]
    by_cases ht : timely c s d = true
    · simp only [ht, Bool.not_true, Bool.false_eq_true, if_false]
      refine ⟨?_, hb⟩
      intro i hi
      simp only at hi ⊢
      by_cases hin : i < c.n
      · have := timely_spec c s d ht i hin hi
        simpa [holdsUntil] using this
      · rw [hb i (by omega)] at hi; cases hi
    · simp only [ht, Bool.not_false, if_true]; exact ⟨hs, hb⟩
  | campaign i ok =>
    simp only [step]
    cases hp : (s.loc i).phase with
    | cand w =>
      simp only
      split
      · exact ⟨hs, hb⟩
      · split
        · -- the call failed: still candidate
          constructor
          · intro k hk
            by_cases hki : k = i
            · subst hki; simp [sending] at hk
            · rw [set_other s _ hki] at hk
              exact hs k hk
          · intro k hk
            by_cases hki : k = i
            · subst hki; simp [sending]
            · rw [set_other s _ hki]; exact hb k hk
        · split
          · -- the key is somebody else's: follower
            constructor
            · intro k hk
              by_cases hki : k = i
              · subst hki; simp [sending] at hk
              · rw [set_other s _ hki] at hk
                exact hs k hk
            · intro k hk
              by_cases hki : k = i
              · subst hki; simp [sending]
              · rw [set_other s _ hki]; exact hb k hk
          · next hfree =>
            -- won: nobody else can be sending
            have hfree : heldByOther s i = false := by simpa using hfree
            constructor
            · intro k hk
              simp only at hk ⊢
              by_cases hki : k = i
              · subst hki
                simp [holdsUntil]; omega
              · rw [set_other s _ hki] at hk
                have := heldByOther_of_holds (hs k hk) hki
                rw [hfree] at this; cases this
            · intro k hk
              simp only
              by_cases hki : k = i
              · subst hki; exact absurd hw (by simp [Ev.within]; omega)
              · rw [set_other s _ hki]; exact hb k hk
    | _ => exact ⟨hs, hb⟩
  | renew i ok =>
    simp only [step]
    cases hp : (s.loc i).phase with
    | lead =>
      simp only
      split
      · next hok =>
        simp only [Bool.and_eq_true] at hok
        obtain ⟨e, hl, _⟩ := (holdsUntil_iff s i s.now).mp hok.2
        refine ⟨?_, hb⟩
        intro k hk
        simp only at hk ⊢
        obtain ⟨e', hl', _⟩ := (holdsUntil_iff s k s.now).mp (hs k hk)
        rw [hl] at hl'; cases hl'
        simp [holdsUntil]; omega
      · constructor
        · intro k hk
          by_cases hki : k = i
          · subst hki
            have : sending (s.loc k) = true := by simp [sending, hp]
            exact hs k this
          · rw [set_other s _ hki] at hk
            exact hs k hk
        · intro k hk
          by_cases hki : k = i
          · subst hki; exact absurd hw (by simp [Ev.within]; omega)
          · rw [set_other s _ hki]; exact hb k hk
    | stopL w =>
      simp only
      split
      · next hok =>
        simp only [Bool.and_eq_true] at hok
        obtain ⟨e, hl, _⟩ := (holdsUntil_iff s i s.now).mp hok.2
        refine ⟨?_, hb⟩
        intro k hk
        simp only at hk ⊢
        obtain ⟨e', hl', _⟩ := (holdsUntil_iff s k s.now).mp (hs k hk)
        rw [hl] at hl'; cases hl'
        simp [holdsUntil]; omega
      · exact ⟨hs, hb⟩
    | resign w =>
      simp only
      split
      · next hok =>
        simp only [Bool.and_eq_true] at hok
        obtain ⟨e, hl, _⟩ := (holdsUntil_iff s i s.now).mp hok.2
        refine ⟨?_, hb⟩
        intro k hk
        simp only at hk ⊢
        obtain ⟨e', hl', _⟩ := (holdsUntil_iff s k s.now).mp (hs k hk)
        rw [hl] at hl'; cases hl'
        simp [holdsUntil]; omega
      · exact ⟨hs, hb⟩
    | _ => exact ⟨hs, hb⟩
  | tcampaign j ok =>
    simp only [step]
    by_cases hfo : isFollowing (s.loc j).phase = true
    · rw [if_pos hfo]
      split
      · constructor
        · intro k hk
          by_cases hkj : k = j
          · subst hkj; simp [sending] at hk
          · rw [set_other s _ hkj] at hk
            exact hs k hk
        · intro k hk
          by_cases hkj : k = j
          · subst hkj; simp [sending]
          · rw [set_other s _ hkj]; exact hb k hk
      · split
        · exact ⟨hs, hb⟩
        · next hfree =>
          have hfree : heldByOther s j = false := by simpa using hfree
          constructor
          · intro k hk
            simp only at hk
            by_cases hkj : k = j
            · subst hkj; simp [sending] at hk
            · rw [set_other s _ hkj] at hk
              have := heldByOther_of_holds (hs k hk) hkj
              rw [hfree] at this; cases this
          · intro k hk
            simp only
            by_cases hkj : k = j
            · subst hkj; simp [sending]
            · rw [set_other s _ hkj]; exact hb k hk
    · rw [if_neg hfo]; exact ⟨hs, hb⟩
  | offer i j =>
    simp only [step]
    split
    · next hc =>
      simp only [Bool.and_eq_true, bne_iff_ne, ne_eq, beq_iff_eq] at hc
      obtain ⟨⟨⟨hij, hpi⟩, hpj⟩, _⟩ := hc
      have hsi : sending (s.loc i) = true := by simp [sending, hpi]
      constructor
      · intro k hk
        by_cases hkj : k = j
        · subst hkj; simp [sending] at hk
        · rw [set_other _ _ hkj] at hk
          by_cases hki : k = i
          · subst hki; exact hs k hsi
          · rw [set_other s _ hki] at hk; exact hs k hk
      · intro k hk
        by_cases hkj : k = j
        · subst hkj; simp [sending]
        · rw [set_other _ _ hkj]
          by_cases hki : k = i
          · subst hki; exact absurd hw (by simp [Ev.within]; omega)
          · rw [set_other s _ hki]; exact hb k hk
    · exact ⟨hs, hb⟩
  | stopped i =>
    simp only [step]
    cases hp : (s.loc i).phase with
    | stopL w =>
      constructor
      · intro k hk
        simp only at hk ⊢
        by_cases hki : k = i
        · subst hki; simp [sending, endSyncer] at hk
        · rw [upd_other _ _ hki] at hk; exact hs k hk
      · intro k hk
        simp only
        by_cases hki : k = i
        · subst hki; simp [sending, endSyncer]
        · rw [upd_other _ _ hki]; exact hb k hk
    | stopF w =>
      constructor
      · intro k hk
        simp only at hk ⊢
        by_cases hki : k = i
        · subst hki; simp [sending, endSyncer] at hk
        · rw [upd_other _ _ hki] at hk; exact hs k hk
      · intro k hk
        simp only
        by_cases hki : k = i
        · subst hki; simp [sending, endSyncer]
        · rw [upd_other _ _ hki]; exact hb k hk
    | follOffered u =>
      simp only
      split
      · exact ⟨hs, hb⟩
      · constructor
        · intro k hk
          simp only at hk ⊢
          by_cases hki : k = i
          · subst hki; simp [sending, endSyncer] at hk
          · rw [upd_other _ _ hki] at hk; exact hs k hk
        · intro k hk
          simp only
          by_cases hki : k = i
          · subst hki; simp [sending, endSyncer]
          · rw [upd_other _ _ hki]; exact hb k hk
    | _ => exact ⟨hs, hb⟩
  | resigned i ok =>
    simp only [step]
    cases hp : (s.loc i).phase with
    | resign w =>
      simp only
      have hnot : ∀ k, sending ((s.set i (.cand (s.now + pauseResign c w ok))).loc k) = true → k ≠ i ∧ sending (s.loc k) = true := by
        intro k hk
        by_cases hki : k = i
        · subst hki; simp [sending] at hk
        · rw [set_other s _ hki] at hk; exact ⟨hki, hk⟩
      have hbnd : Bounded c (s.set i (.cand (s.now + pauseResign c w ok))) := by
        intro k hk
        by_cases hki : k = i
        · subst hki; simp [sending]
        · rw [set_other s _ hki]; exact hb k hk
      by_cases hok : (ok && ownsLease s i) = true
      · rw [if_pos hok]
        simp only [Bool.and_eq_true] at hok
        refine ⟨?_, hbnd⟩
        intro k hk
        simp only at hk
        obtain ⟨hki, hk'⟩ := hnot k hk
        -- a sender holds the lease, but the lease is the resigning instance's
        obtain ⟨e, hl, _⟩ := (holdsUntil_iff s k s.now).mp (hs k hk')
        have := hok.2
        simp only [ownsLease, hl, beq_iff_eq] at this
        exact absurd this hki
      · rw [if_neg hok]
        refine ⟨?_, hbnd⟩
        intro k hk
        obtain ⟨_, hk'⟩ := hnot k hk
        exact hs k hk'
    | _ => exact ⟨hs, hb⟩
  | fsync j v =>
    simp only [step]
    cases hp : (s.loc j).phase with
    | foll =>
      constructor
      · intro k hk
        simp only at hk ⊢
        by_cases hkj : k = j
        · subst hkj; simp [sending] at hk
        · rw [upd_other _ _ hkj] at hk; exact hs k hk
      · intro k hk
        simp only
        by_cases hkj : k = j
        · subst hkj; simp [sending]
        · rw [upd_other _ _ hkj]; exact hb k hk
    | _ => exact ⟨hs, hb⟩
  | fail i brk =>
    simp only [step]
    cases hp : (s.loc i).phase with
    | lead =>
      constructor
      · intro k hk
        by_cases hki : k = i
        · subst hki
          have : sending (s.loc k) = true := by simp [sending, hp]
          exact hs k this
        · rw [set_other s _ hki] at hk; exact hs k hk
      · intro k hk
        by_cases hki : k = i
        · subst hki; exact absurd hw (by simp [Ev.within]; omega)
        · rw [set_other s _ hki]; exact hb k hk
    | foll =>
      constructor
      · intro k hk
        by_cases hki : k = i
        · subst hki; simp [sending] at hk
        · rw [set_other s _ hki] at hk; exact hs k hk
      · intro k hk
        by_cases hki : k = i
        · subst hki; simp [sending]
        · rw [set_other s _ hki]; exact hb k hk
    | _ => exact ⟨hs, hb⟩
  | landed j =>
    simp only [step]
    split
    · exact ⟨hs, hb⟩
    · next hc =>
      simp only [Bool.or_eq_true, not_or, Bool.not_eq_true] at hc
      refine ⟨?_, hb⟩
      intro k hk
      simp only at hk
      by_cases hkj : k = j
      · subst hkj; rw [hc.1] at hk; cases hk
      · have := heldByOther_of_holds (hs k hk) hkj
        rw [hc.2] at this; cases this
  | crash i =>
    simp only [step]
    constructor
    · intro k hk
      simp only at hk ⊢
      by_cases hki : k = i
      · subst hki; simp [sending, endSyncer] at hk
      · rw [upd_other _ _ hki] at hk; exact hs k hk
    · intro k hk
      simp only
      by_cases hki : k = i
      · subst hki; simp [sending, endSyncer]
      · rw [upd_other _ _ hki]; exact hb k hk
  | restart i =>
    simp only [step]
    cases hp : (s.loc i).phase with
    | dead =>
      constructor
      · intro k hk
        by_cases hki : k = i
        · subst hki; simp [sending] at hk
        · rw [set_other s _ hki] at hk; exact hs k hk
      · intro k hk
        by_cases hki : k = i
        · subst hki; simp [sending]
        · rw [set_other s _ hki]; exact hb k hk
    | _ => exact ⟨hs, hb⟩


theorem run_safe (c : Cfg) (httl : 0 < c.ttl) (evs : List Ev) (s : State) (hb : Bounded c s)
    (hw : ∀ ev ∈ evs, ev.within c) (hs : Safe s) :
    Safe (run c true s evs) ∧ Bounded c (run c true s evs) := by
  induction evs generalizing s with
  | nil => exact ⟨hs, hb⟩
  | cons ev evs ih =>
    have h1 := step_safe c httl s ev hb (hw ev (List.mem_cons_self ..)) hs
    simp only [run, List.foldl_cons]
    exact ih _ h1.2 (fun e he => hw e (List.mem_cons_of_mem _ he)) h1.1

/-- the key never lives longer than one TTL from now -/
def LeaseFresh (c : Cfg) (s : State) : Prop := ∀ h e, s.lease = some (h, e) → e ≤ s.now + c.ttl

theorem step_fresh (c : Cfg) (g : Bool) (s : State) (ev : Ev) (hf : LeaseFresh c s) :
    LeaseFresh c (step c g s ev) := by
  have keep : ∀ s' : State, s'.lease = s.lease → s.now ≤ s'.now → LeaseFresh c s' := by
    intro s' hl hn h e he
    rw [hl] at he
    have := hf h e he
    omega
  have fresh : ∀ (s' : State) (i : Nat), s'.lease = some (i, s'.now + c.ttl) → LeaseFresh c s' := by
    intro s' i hl h e he
    rw [hl] at he; cases he; exact Nat.le_refl _
  cases ev with
  | tick d =>
    simp only [step]
    split
    · exact hf
    · exact keep _ rfl (by simp)
  | campaign i ok =>
    simp only [step]
    split
    · split
      · exact hf
      · split
        · exact keep _ rfl (Nat.le_refl _)
        · split
          · exact keep _ rfl (Nat.le_refl _)
          · exact fresh _ i rfl
    · exact hf
  | renew i ok =>
    simp only [step]
    split
    · split
      · exact fresh _ i rfl
      · exact keep _ rfl (Nat.le_refl _)
    · split
      · exact fresh _ i rfl
      · exact hf
    · split
      · exact fresh _ i rfl
      · exact hf
    · exact hf
  | tcampaign j ok =>
    simp only [step]
    split
    · split
      · exact keep _ rfl (Nat.le_refl _)
      · split
        · exact hf
        · exact fresh _ j rfl
    · exact hf
  | offer i j =>
    simp only [step]
    split
    · exact keep _ rfl (Nat.le_refl _)
    · exact hf
  | stopped i =>
    simp only [step]
    split
    · exact keep _ rfl (Nat.le_refl _)
    · exact keep _ rfl (Nat.le_refl _)
    · split
      · exact hf
      · exact keep _ rfl (Nat.le_refl _)
    · exact hf
  | resigned i ok =>
    simp only [step]
    split
    · split
      · intro h e he; cases he
      · exact keep _ rfl (Nat.le_refl _)
    · exact hf
  | fsync j v =>
    simp only [step]
    split <;> first | exact hf | exact keep _ rfl (Nat.le_refl _)
  | fail i brk =>
    simp only [step]
    split <;> first | exact hf | exact keep _ rfl (Nat.le_refl _)
  | landed j =>
    simp only [step]
    split
    · exact hf
    · exact fresh _ j rfl
  | crash i => exact keep _ rfl (Nat.le_refl _)
  | restart i =>
    simp only [step]
    split <;> first | exact hf | exact keep _ rfl (Nat.le_refl _)

theorem run_fresh (c : Cfg) (g : Bool) (evs : List Ev) (s : State) (hf : LeaseFresh c s) :
    LeaseFresh c (run c g s evs) := by
  induction evs generalizing s with
  | nil => exact hf
  | cons ev evs ih =>
    simp only [run, List.foldl_cons]
    exact ih _ (step_fresh c g s ev hf)

/-- only follower sessions (and, for a memory channel, the end of a syncer) change a cache -/
theorem step_cache (c : Cfg) (g : Bool) (s : State) (ev : Ev) (j : Nat) (hd : (s.loc j).disk = true)
    (hev : ∀ v, ev ≠ .fsync j v) :
    ((step c g s ev).loc j).cache = (s.loc j).cache ∧ ((step c g s ev).loc j).disk = true := by
  have hset : ∀ (i : Nat) (p : Phase), ((s.set i p).loc j).cache = (s.loc j).cache ∧ ((s.set i p).loc j).disk = true := by
    intro i p
    by_cases hji : j = i
    · subst hji; simp [hd]
    · rw [set_other s _ hji]; exact ⟨rfl, hd⟩
  have hend : ∀ (i : Nat) (p : Phase), (upd s.loc i (endSyncer (s.loc i) p) j).cache = (s.loc j).cache ∧
      (upd s.loc i (endSyncer (s.loc i) p) j).disk = true := by
    intro i p
    by_cases hji : j = i
    · subst hji; simp [endSyncer, hd]
    · rw [upd_other _ _ hji]; exact ⟨rfl, hd⟩
  cases ev with
  | tick d => simp only [step]; split <;> exact ⟨rfl, hd⟩
  | campaign i ok =>
    simp only [step]
    split
    · split
      · exact ⟨rfl, hd⟩
      · split
        · exact hset _ _
        · split <;> exact hset _ _
    · exact ⟨rfl, hd⟩
  | renew i ok =>
    simp only [step]
    split
    · split
      · exact ⟨rfl, hd⟩
      · exact hset _ _
    · split <;> exact ⟨rfl, hd⟩
    · split <;> exact ⟨rfl, hd⟩
    · exact ⟨rfl, hd⟩
  | tcampaign k ok =>
    simp only [step]
    split
    · split
      · exact hset _ _
      · split
        · exact ⟨rfl, hd⟩
        · exact hset _ _
    · exact ⟨rfl, hd⟩
  | offer i k =>
    simp only [step]
    split
    · by_cases hjk : j = k
      · subst hjk
        simp only [set_same_cache, set_same_disk]
        exact hset i _
      · rw [set_other _ _ hjk]; exact hset i _
    · exact ⟨rfl, hd⟩
  | stopped i =>
    simp only [step]
    split
    · exact hend _ _
    · exact hend _ _
    · split
      · exact ⟨rfl, hd⟩
      · exact hend _ _
    · exact ⟨rfl, hd⟩
  | resigned i ok =>
    simp only [step]
    split
    · split <;> exact hset _ _
    · exact ⟨rfl, hd⟩
  | fsync k v =>
    simp only [step]
    split
    · by_cases hjk : j = k
      · subst hjk; exact absurd rfl (hev v)
      · simp only; rw [upd_other _ _ hjk]; exact ⟨rfl, hd⟩
    · exact ⟨rfl, hd⟩
  | fail i brk =>
    simp only [step]
    split
    · exact hset _ _
    · exact hset _ _
    · exact ⟨rfl, hd⟩
  | landed k => simp only [step]; split <;> exact ⟨rfl, hd⟩
  | crash i => exact hend _ _
  | restart i =>
    simp only [step]
    split
    · exact hset _ _
    · exact ⟨rfl, hd⟩

theorem run_cache (c : Cfg) (g : Bool) (evs : List Ev) (s : State) (j : Nat) (hd : (s.loc j).disk = true)
    (hev : ∀ ev ∈ evs, ∀ v, ev ≠ .fsync j v) :
    ((run c g s evs).loc j).cache = (s.loc j).cache := by
  induction evs generalizing s with
  | nil => rfl
  | cons ev evs ih =>
    have h1 := step_cache c g s ev j hd (hev ev (List.mem_cons_self ..))
    simp only [run, List.foldl_cons]
    rw [← h1.1]
    exact ih _ h1.2 (fun e he => hev e (List.mem_cons_of_mem _ he))

/-- when nobody sends, time may pass -/
theorem timely_of_silent (c : Cfg) (s : State) (d : Nat) (h : ∀ k, sending (s.loc k) = false) :
    timely c s d = true := by
  unfold timely
  rw [List.all_eq_true]
  intro k _
  simp [h k]

/-! ### an instance that stays away from the election until an expiry has passed -/


theorem step_now_le (c : Cfg) (g : Bool) (s : State) (ev : Ev) : s.now ≤ (step c g s ev).now := by
  cases ev <;> simp only [step] <;> (repeat' split) <;> simp [State.set]

/-- the instances an event acts on -/
def Ev.targets : Ev → List Nat
  | .tick _ => []
  | .campaign i _ => [i]
  | .renew i _ => [i]
  | .tcampaign j _ => [j]
  | .offer i j => [i, j]
  | .stopped i => [i]
  | .resigned i _ => [i]
  | .fsync j _ => [j]
  | .fail i _ => [i]
  | .landed _ => []
  | .crash i => [i]
  | .restart i => [i]

theorem step_loc_other (c : Cfg) (g : Bool) (s : State) (ev : Ev) (i : Nat) (h : i ∉ ev.targets) :
    (step c g s ev).loc i = s.loc i := by
  cases ev <;> simp only [Ev.targets, List.mem_cons, List.mem_nil_iff, or_false, not_or] at h <;>
    simp only [step] <;> (repeat' split) <;> simp [State.set, upd, h]


/-- `E` (an expiry) has passed, or `i` is a candidate that will not campaign before `E`, or dead -/
def Quiet (E i : Nat) (s : State) : Prop :=
  E ≤ s.now ∨ (∃ w, (s.loc i).phase = .cand w ∧ E ≤ w) ∨ (s.loc i).phase = .dead

theorem Quiet.not_sending_before {E i : Nat} {s : State} (h : Quiet E i s) (hs : sending (s.loc i) = true) :
    E ≤ s.now := by
  rcases h with h | ⟨w, hp, _⟩ | hp
  · exact h
  · simp [sending, hp] at hs
  · simp [sending, hp] at hs

theorem step_quiet (c : Cfg) (g : Bool) (s : State) (ev : Ev) (E i : Nat) (hq : Quiet E i s)
    (hev : ev ≠ .restart i) : Quiet E i (step c g s ev) := by
  have hmono := step_now_le c g s ev
  rcases hq with h | ⟨w, hp, hE⟩ | hp
  · exact Or.inl (Nat.le_trans h hmono)
  · by_cases hin : i ∈ ev.targets
    · cases ev <;> simp only [Ev.targets, List.mem_cons, List.mem_nil_iff, or_false] at hin
      case campaign k ok =>
        subst hin
        simp only [step, hp]
        split
        · exact Or.inr (Or.inl ⟨w, hp, hE⟩)
        · left
          have : ¬ s.now < w := by assumption
          (repeat' split) <;> simp [State.set] <;> omega
      case crash k =>
        subst hin
        right; right
        simp [step, endSyncer]
      case offer a b =>
        rcases hin with rfl | rfl
        · have : (step c g s (.offer i b)) = s := by simp [step, hp]
          rw [this]; exact Or.inr (Or.inl ⟨w, hp, hE⟩)
        · have : (step c g s (.offer a i)) = s := by simp [step, hp]
          rw [this]; exact Or.inr (Or.inl ⟨w, hp, hE⟩)
      all_goals
        subst hin
        simp only [step, hp, isFollowing, Bool.false_eq_true, if_false]
        exact Or.inr (Or.inl ⟨w, hp, hE⟩)
    · rw [Quiet, step_loc_other c g s ev i hin]
      exact Or.inr (Or.inl ⟨w, hp, hE⟩)
  · by_cases hin : i ∈ ev.targets
    · cases ev <;> simp only [Ev.targets, List.mem_cons, List.mem_nil_iff, or_false] at hin
      case crash k =>
        subst hin
        right; right
        simp [step, endSyncer]
      case restart k =>
        subst hin
        exact absurd rfl hev
      case offer a b =>
        rcases hin with rfl | rfl
        · have : (step c g s (.offer i b)) = s := by simp [step, hp]
          rw [this]; exact Or.inr (Or.inr hp)
        · have : (step c g s (.offer a i)) = s := by simp [step, hp]
          rw [this]; exact Or.inr (Or.inr hp)
      all_goals
        subst hin
        simp only [step, hp, isFollowing, Bool.false_eq_true, if_false]
        exact Or.inr (Or.inr hp)
    · rw [Quiet, step_loc_other c g s ev i hin]
      exact Or.inr (Or.inr hp)

theorem run_quiet (c : Cfg) (g : Bool) (evs : List Ev) (s : State) (E i : Nat) (hq : Quiet E i s)
    (hev : ∀ ev ∈ evs, ev ≠ .restart i) : Quiet E i (run c g s evs) := by
  induction evs generalizing s with
  | nil => exact hq
  | cons ev evs ih =>
    simp only [run, List.foldl_cons]
    exact ih _ (step_quiet c g s ev E i hq (hev ev (List.mem_cons_self ..)))
      (fun e he => hev e (List.mem_cons_of_mem _ he))

end GunYu.Handover
