/-
  Helper lemmas for C13: what the tool's default output filter
  (`Filter.buildOutput {}`: NoRouteCmds + the two reserved prefixes, nothing
  configured by the user) does to the commands the bisync parser meets.
-/
import GunYu.Model.Bisync
import GunYu.Proofs.FilterCmdKey

namespace GunYu.Bisync
open GunYu GunYu.BisyncUnit GunYu.Filter

/-- a key the output filter always withholds (`config.CheckpointKey…`,
    `config.NamespacePrefixKey…`) -/
def FilterReserved (k : Bytes) : Prop := Gen.checkpointKey <+: k ∨ Gen.namespacePrefixKey <+: k

/-- the facts about the filter the parser proofs use -/
structure FOK (f : KeyFilter) : Prop where
  db : ∀ n, f.filterDb n = false
  setCmd : f.filterCmd wSet = false
  delCmd : f.filterCmd wDel = false
  unlinkCmd : f.filterCmd wUnlink = false
  pexpireatCmd : f.filterCmd [112,101,120,112,105,114,101,97,116] = false
  keyPass : ∀ name args,
    (∀ idx, keyIndexes name args = some idx → ∀ i ∈ idx, ¬ FilterReserved (args.getD i [])) →
    f.filterCmdKey name args = some args
  allReserved : ∀ name args idx, keyIndexes name args = some idx →
    (∀ i ∈ idx, FilterReserved (args.getD i [])) → f.filterCmdKey name args = none

theorem out_hasKeyRules (c : FilterCfg) : (buildOutput c).hasKeyRules = true := by
  have : (buildOutput c).prefBlack.isSome = true := by
    rw [out_prefBlack, isSome_insertPrefixes, isSome_insertPrefixes]
    right; left; simp [reservedPrefixes]
  simp [KeyFilter.hasKeyRules, this]

theorem passthrough (f : KeyFilter) (cmd : Bytes) (args : List Bytes)
    (h : f.hasKeyRules = false ∨ keyIndexes cmd args = none) : f.filterCmdKey cmd args = some args := by
  unfold KeyFilter.filterCmdKey
  rcases h with h | h
  · simp [h]
  · simp [h]

theorem default_filterKey_iff (k : Bytes) :
    (buildOutput {}).filterKey k = true ↔ prefixHit reservedPrefixes k := by
  rw [filterKey_eq, out_prefBlack, out_prefWhite]
  have hw : (insertPrefixes none ([] : List Bytes)) = none := rfl
  have : (({} : FilterCfg).prefWhite) = [] := rfl
  rw [this, hw]
  simp only [Option.isSome_none, Bool.false_and, Bool.or_false]
  rw [optMatch_prefixes2, List.append_nil]

theorem default_filterSlot (k : Bytes) : (buildOutput {}).filterSlot k = false := by
  rw [filterSlot_eq, out_slotWhite, out_slotBlack]
  rfl

theorem default_keyRejected_iff (k : Bytes) :
    (buildOutput {}).keyRejected k = true ↔ FilterReserved k := by
  unfold KeyFilter.keyRejected
  rw [default_filterSlot, Bool.or_false, default_filterKey_iff]
  constructor
  · rintro ⟨p, hp, _, hpre⟩
    simp only [reservedPrefixes, List.mem_cons, List.not_mem_nil, or_false] at hp
    rcases hp with e | e
    · left; rw [← e]; exact hpre
    · right; rw [← e]; exact hpre
  · intro h
    rcases h with h | h
    · exact ⟨Gen.checkpointKey, by simp [reservedPrefixes], by decide, h⟩
    · exact ⟨Gen.namespacePrefixKey, by simp [reservedPrefixes], by decide, h⟩

theorem defaultFilter_ok : FOK (buildOutput {}) where
  db := by
    intro n
    unfold KeyFilter.filterDb
    rw [out_dbBlack]
    by_cases h : n = -1 <;> simp [h]
  setCmd := by decide +kernel
  delCmd := by decide +kernel
  unlinkCmd := by decide +kernel
  pexpireatCmd := by decide +kernel
  keyPass := by
    intro name args h
    cases hk : keyIndexes name args with
    | none => exact passthrough _ _ _ (Or.inr hk)
    | some idx =>
      rw [filterCmdKey_resolved _ _ _ idx (out_hasKeyRules {}) hk]
      have hkept : keptIdx (buildOutput {}) args idx = idx := by
        unfold keptIdx
        rw [List.filter_eq_self]
        intro i hi
        have := h idx hk i hi
        cases hr : (buildOutput {}).keyRejected (args.getD i []) with
        | false => rfl
        | true => exact absurd ((default_keyRejected_iff _).mp hr) this
      rw [hkept]
      simp
  allReserved := by
    intro name args idx hk h
    rw [filterCmdKey_resolved _ _ _ idx (out_hasKeyRules {}) hk]
    have hne := (keyIndexes_inRange hk).1
    have hkept : keptIdx (buildOutput {}) args idx = [] := by
      unfold keptIdx
      rw [List.filter_eq_nil_iff]
      intro i hi
      have := (default_keyRejected_iff _).mpr (h i hi)
      rw [this]
      simp
    rw [hkept]
    have : ((([] : List Nat).length == idx.length) = false) := by
      cases idx with
      | nil => exact absurd rfl hne
      | cons _ _ => rfl
    rw [this]
    rfl

/-- whatever the configuration: what `FilterCmdKey` forwards consists of
    arguments of the command, and is non-empty when the command had arguments -/
theorem filterCmdKey_sub (f : KeyFilter) (cmd : Bytes) (args a' : List Bytes)
    (h : f.filterCmdKey cmd args = some a') : (∀ x ∈ a', x ∈ args) ∧ (args ≠ [] → a' ≠ []) := by
  have hsame : a' = args → (∀ x ∈ a', x ∈ args) ∧ (args ≠ [] → a' ≠ []) := by
    intro e; rw [e]; exact ⟨fun x hx => hx, fun h => h⟩
  by_cases hr : f.hasKeyRules = true
  · cases hk : keyIndexes cmd args with
    | none =>
      rw [passthrough f cmd args (Or.inr hk)] at h
      injection h with h; exact hsame h.symm
    | some idx =>
      rw [filterCmdKey_resolved f cmd args idx hr hk] at h
      have hin := (keyIndexes_inRange hk).2
      have hmem : ∀ i ∈ keptIdx f args idx, args.getD i [] ∈ args := by
        intro i hi
        have hlt := hin i (List.mem_filter.mp hi).1
        rw [List.getD_eq_getElem?_getD, List.getElem?_eq_getElem hlt]
        exact List.getElem_mem hlt
      split at h
      · injection h with h; exact hsame h.symm
      · split at h
        · cases h
        · rename_i hne
          have hne' : keptIdx f args idx ≠ [] := by
            intro e; rw [e] at hne; exact hne rfl
          split at h
          · cases h
          · split at h
            · injection h with h
              rw [← h]
              refine ⟨?_, fun _ => ?_⟩
              · intro x hx
                obtain ⟨i, hi, rfl⟩ := List.mem_map.mp hx
                exact hmem i hi
              · intro e
                exact hne' (List.map_eq_nil_iff.mp e)
            · split at h
              · split at h
                · cases h
                · rename_i hany
                  injection h with h
                  rw [← h]
                  refine ⟨?_, fun _ => ?_⟩
                  · intro x hx
                    obtain ⟨i, hi, hx⟩ := List.mem_flatMap.mp hx
                    simp only [List.mem_cons, List.not_mem_nil, or_false] at hx
                    rcases hx with rfl | rfl
                    · exact hmem i hi
                    · have : ¬ (i + 1 ≥ args.length) := by
                        intro hge
                        apply hany
                        rw [List.any_eq_true]
                        exact ⟨i, hi, by simpa using hge⟩
                      have hlt : i + 1 < args.length := by omega
                      rw [List.getD_eq_getElem?_getD, List.getElem?_eq_getElem hlt]
                      exact List.getElem_mem hlt
                  · cases hkk : keptIdx f args idx with
                    | nil => exact absurd hkk hne'
                    | cons i rest => simp
              · cases h
  · have hr' : f.hasKeyRules = false := by
      cases hx : f.hasKeyRules with
      | true => exact absurd hx hr
      | false => rfl
    rw [passthrough f cmd args (Or.inl hr')] at h
    injection h with h; exact hsame h.symm

/-! ### reserved prefixes versus the bisync namespace -/

theorem take_of_prefix {p l : Bytes} (h : p <+: l) (n : Nat) : p.take n = (l.take n).take p.length := by
  obtain ⟨t, rfl⟩ := h
  rw [List.take_take]
  by_cases hn : n ≤ p.length
  · rw [Nat.min_eq_right hn, List.take_append_of_le_length hn]
  · have hn' : p.length ≤ n := by omega
    rw [Nat.min_eq_left hn', List.take_append_of_le_length (Nat.le_refl _), List.take_length,
      List.take_of_length_le hn']

/-- a key under `redis-gunyu-bisync:` is not withheld by the output filter -/
theorem ns_not_filterReserved (k : Bytes) (h : hasPrefix nsPrefix k = true) : ¬ FilterReserved k := by
  have hp : nsPrefix <+: k := List.isPrefixOf_iff_prefix.mp h
  obtain ⟨t, rfl⟩ := hp
  rintro (h1 | h1)
  · have := take_of_prefix h1 13
    have e : ((nsPrefix ++ t).take 13) = nsPrefix.take 13 := by
      rw [List.take_append_of_le_length (by decide)]
    rw [e] at this
    revert this
    decide
  · have := take_of_prefix h1 1
    have e : ((nsPrefix ++ t).take 1) = nsPrefix.take 1 := by
      rw [List.take_append_of_le_length (by decide)]
    rw [e] at this
    revert this
    decide

end GunYu.Bisync
