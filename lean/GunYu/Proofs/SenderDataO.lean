/-
  The lemma chain of Proofs/SenderData.lean once more, with every command carrying the
  stream offset of its item (the ghost `off` of `Req.cmd`): the queue reaches the wire
  unchanged, in order, offsets included (`Sender.run_dataO`, used by Props.C02's
  resumed-run theorem).
-/
import GunYu.Proofs.SenderData

namespace GunYu.Sender

abbrev CmdO := Bytes × List Bytes × Int

def cmdOfReqO : Req → Option CmdO
  | .cmd n a off => if n = bPing then none else some (n, a, off)
  | _ => none

/-- commands (other than keep-alive pings) in a batch, in wire order -/
def dataBO (b : Batch) : List CmdO := b.filterMap cmdOfReqO
def dataOutO (out : List Batch) : List CmdO := out.flatMap dataBO

def itemCmdO (i : Item) : Option CmdO := if i.cmd = bPing then none else some (i.cmd, i.args, i.offset)
/-- commands waiting in the queue -/
def qdO (s : SState) : List CmdO := s.queue.filterMap itemCmdO

@[simp] theorem dataOutO_nil : dataOutO [] = [] := rfl
@[simp] theorem dataOutO_append (a b : List Batch) : dataOutO (a ++ b) = dataOutO a ++ dataOutO b := by
  simp [dataOutO]
@[simp] theorem dataOutO_none : dataOutO (optToList none) = [] := rfl
@[simp] theorem dataOutO_some (b : Batch) : dataOutO (optToList (some b)) = dataBO b := by
  simp [dataOutO, optToList]

theorem dataBO_append (a b : Batch) : dataBO (a ++ b) = dataBO a ++ dataBO b := by simp [dataBO]

theorem dataBO_cmds (q : List Item) :
    dataBO (q.map (fun i => Req.cmd i.cmd i.args i.offset)) = q.filterMap itemCmdO := by
  induction q with
  | nil => rfl
  | cons i q ih =>
    simp only [List.map_cons, dataBO, List.filterMap_cons, cmdOfReqO, itemCmdO] at ih ⊢
    split <;> simp_all

theorem dataBO_cpPart (c : SCfg) (s : SState) (u : Bool) (off : Int) : dataBO (cpPart c s u off) = [] := by
  unfold cpPart
  split
  · split <;> simp [dataBO, cmdOfReqO]
  · rfl

theorem dataBO_sendReqs (c : SCfg) (s : SState) (tb u : Bool) (off : Int) :
    dataBO (sendReqs c s tb u off) = qdO s := by
  unfold sendReqs qdO
  rw [dataBO_append, dataBO_append, dataBO_append, dataBO_cmds, dataBO_cpPart]
  cases tb <;> simp [dataBO, cmdOfReqO, List.filterMap]

/-- a flush moves the queue onto the wire, unchanged and in order -/
theorem sendOnce_dataO (c : SCfg) (s : SState) (tb up : Bool) (off : Int) :
    dataOutO (optToList (sendOnce c s tb up off).2) ++ qdO (sendOnce c s tb up off).1 = qdO s ∧
    (sendOnce c s tb up off).1.txn = s.txn := by
  unfold sendOnce
  simp only
  split
  · simp
  · split
    · simp
    · simp [dataBO_sendReqs, qdO]

theorem tail_dataO (c : SCfg) (s : SState) (tb up : Bool) (out : List Batch) :
    dataOutO (tail c s tb up out).2 ++ qdO (tail c s tb up out).1 = dataOutO out ++ qdO s ∧
    (tail c s tb up out).1.txn = s.txn := by
  unfold tail
  simp only
  split
  · simp only [↓reduceIte]
    have h := sendOnce_dataO c { s with needFlush := true } tb up s.lastOffset
    refine ⟨?_, h.2⟩
    rw [dataOutO_append, List.append_assoc]
    have : qdO { s with needFlush := true } = qdO s := rfl
    simp only [qdO] at h ⊢
    rw [h.1]
  · split
    · have h := sendOnce_dataO c s tb up s.lastOffset
      refine ⟨?_, h.2⟩
      rw [dataOutO_append, List.append_assoc]
      simp only [qdO] at h ⊢
      rw [h.1]
    · exact ⟨rfl, rfl⟩

theorem preFlush_dataO (c : SCfg) (s : SState) (t : Txn) (nf : Bool) (prev : Int) :
    dataOutO (preFlush c s t nf prev).2 ++ qdO (preFlush c s t nf prev).1 = qdO s ∧
    (preFlush c s t nf prev).1.txn = s.txn := by
  unfold preFlush
  split
  · simp only
    split
    · have h := sendOnce_dataO c s c.txnMode (c.resume && c.txnMode) s.lastOffset
      simp only [qdO] at h ⊢
      exact h
    · have h := sendOnce_dataO c s c.txnMode (c.resume && c.txnMode) prev
      simp only [qdO] at h ⊢
      exact h
  · simp


theorem absorb_dataO (s : SState) (t : Txn) (it : Item) (hp : it.cmd ≠ bPing) :
    qdO (absorb s t it) = qdO s ++ (if forwards t then [(it.cmd, it.args, it.offset)] else []) ∧
    (absorb s t it).txn = s.txn := by
  unfold absorb forwards
  cases t <;> simp [enqueue, qdO, itemCmdO, hp]

/-- what one event contributes to the forwarded stream, and the status after it -/
def fwd1O (t : Txn) : Ev → List CmdO × Txn
  | .item it =>
    if it.cmd = bPing then ([], t)
    else ((if forwards (txnStatus it.cmd t).1 then [(it.cmd, it.args, it.offset)] else []), (txnStatus it.cmd t).1)
  | _ => ([], t)

theorem stepItemTxn_dataO (c : SCfg) (s : SState) (t : Txn) (nf : Bool) (it : Item) (prev : Int)
    (hp : it.cmd ≠ bPing) :
    dataOutO (stepItemTxn c s t nf it prev).2 ++ qdO (stepItemTxn c s t nf it prev).1
      = qdO s ++ (if forwards t then [(it.cmd, it.args, it.offset)] else []) ∧
    (stepItemTxn c s t nf it prev).1.txn = s.txn := by
  unfold stepItemTxn
  simp only
  obtain ⟨h1, h1t⟩ := preFlush_dataO c s t nf prev
  obtain ⟨h2, h2t⟩ := absorb_dataO (preFlush c s t nf prev).1 t it hp
  obtain ⟨h3, h3t⟩ := tail_dataO c (absorb (preFlush c s t nf prev).1 t it) c.txnMode
    (c.resume && c.txnMode) (preFlush c s t nf prev).2
  refine ⟨?_, by rw [h3t, h2t, h1t]⟩
  rw [h3, h2, ← List.append_assoc, h1]

theorem stepItemPlain_dataO (c : SCfg) (s : SState) (t : Txn) (it : Item) (hp : it.cmd ≠ bPing) :
    dataOutO (stepItemPlain c s t it).2 ++ qdO (stepItemPlain c s t it).1
      = qdO s ++ (if forwards t then [(it.cmd, it.args, it.offset)] else []) ∧
    (stepItemPlain c s t it).1.txn = s.txn := by
  unfold stepItemPlain
  split
  · rename_i h; subst h; simp [forwards]
  · split
    · rename_i h; subst h
      obtain ⟨h3, h3t⟩ := tail_dataO c { s with needFlush := true } c.txnMode (c.resume && c.txnMode) []
      refine ⟨?_, h3t⟩
      rw [h3]; simp [forwards, qdO]
    · rename_i hb hc
      obtain ⟨h3, h3t⟩ := tail_dataO c (enqueue s it) c.txnMode (c.resume && c.txnMode) []
      refine ⟨?_, h3t⟩
      rw [h3]
      have : forwards t = true := by cases t <;> simp_all [forwards]
      simp [this, enqueue, qdO, itemCmdO, hp]

theorem step_dataO (c : SCfg) (s : SState) (ev : Ev) :
    dataOutO (step c s ev).2 ++ qdO (step c s ev).1 = qdO s ++ (fwd1O s.txn ev).1 ∧
    (step c s ev).1.txn = (fwd1O s.txn ev).2 := by
  cases ev with
  | item it =>
    simp only [step, fwd1O]
    split
    · simp [qdO]
    · rename_i hp
      unfold stepItem
      simp only
      split
      · have h := stepItemTxn_dataO c
          { s with lastOffset := it.offset, txn := (txnStatus it.cmd s.txn).1,
                   needFlush := (txnStatus it.cmd s.txn).2 }
          (txnStatus it.cmd s.txn).1 (txnStatus it.cmd s.txn).2 it s.lastOffset hp
        exact h
      · have h := stepItemPlain_dataO c
          { s with lastOffset := it.offset, txn := (txnStatus it.cmd s.txn).1,
                   needFlush := (txnStatus it.cmd s.txn).2 }
          (txnStatus it.cmd s.txn).1 it hp
        exact h
  | batchTick =>
    simp only [step, fwd1O]
    split
    · have h := tail_dataO c { s with needFlush := true } c.txnMode (c.resume && c.txnMode) []
      simpa [qdO] using h
    · have h := tail_dataO c s c.txnMode (c.resume && c.txnMode) []
      simpa using h
  | keepaliveTick =>
    simp only [step, fwd1O]
    split
    · split
      · rename_i he
        have h := tail_dataO c { s with queue := [pingItem s.lastOffset], needFlush := true } false
          (c.resume && c.txnMode) []
        have hq : qdO s = [] := by
          have : s.queue = [] := by simpa using he
          simp [qdO, this]
        simp only [dataOutO_nil, List.nil_append, List.append_nil] at h ⊢
        rw [hq]
        have : qdO { s with queue := [pingItem s.lastOffset], needFlush := true } = [] := by
          simp [qdO, itemCmdO, pingItem]
        rw [this] at h
        exact h
      · have h := tail_dataO c { s with needFlush := true } c.txnMode (c.resume && c.txnMode) []
        simpa [qdO] using h
    · have h := tail_dataO c s c.txnMode (c.resume && c.txnMode) []
      simpa using h
  | cpTick =>
    simp only [step, fwd1O]
    split
    · have h := tail_dataO c { s with needFlush := true } c.txnMode true []
      simpa [qdO] using h
    · have h := tail_dataO c s c.txnMode (c.resume && c.txnMode) []
      simpa using h
  | done =>
    simp only [step, fwd1O]
    split
    · have h := tail_dataO c { s with needFlush := true } c.txnMode true []
      simpa [qdO] using h
    · have h := tail_dataO c s c.txnMode (c.resume && c.txnMode) []
      simpa using h

/-- the forwarded stream of a schedule, offsets included -/
def fwdO (t : Txn) : List Ev → List CmdO
  | [] => []
  | ev :: rest => (fwd1O t ev).1 ++ (if ev = .done then [] else fwdO (fwd1O t ev).2 rest)

theorem run_dataO (c : SCfg) (s : SState) (evs : List Ev) :
    dataOutO (run c s evs).2 ++ qdO (run c s evs).1 = qdO s ++ fwdO s.txn evs := by
  induction evs generalizing s with
  | nil => simp [run, fwdO]
  | cons ev rest ih =>
    obtain ⟨h1, ht⟩ := step_dataO c s ev
    simp only [run, fwdO]
    split
    · simp only [List.append_nil]; exact h1
    · rw [dataOutO_append, List.append_assoc, ih, ht, ← List.append_assoc, h1, List.append_assoc]

end GunYu.Sender
