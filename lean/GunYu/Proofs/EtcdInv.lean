/-
  The invariant of the etcd election system (Model/EtcdLease.lean) and its
  preservation by every event.
-/
import GunYu.Proofs.EtcdLease

set_option linter.unusedSimpArgs false
set_option linter.unusedVariables false

namespace GunYu.Etcd
open GunYu

/-- (wf) the key space is well formed; (elKey) an election object's key is
    "", "\x00" or the key of its session under its prefix; (elRev) the revision
    it remembers is not from the future; (told) whoever was told it leads `p`
    has its key field set, and if that key is in the store at the remembered
    create revision it is the FIRST-CREATED key under `p`. -/
structure Inv (s : Sys) : Prop where
  wf : Wf s.st.kvs s.st.rev
  elKey : ∀ L p, (s.el L p).key = [] ∨ (s.el L p).key = nulKey ∨ (s.el L p).key = keyOf p L
  elRev : ∀ L p r, (s.el L p).rev = some r → r ≤ s.st.rev
  told : ∀ p L, s.told p L = true → (s.el L p).key = keyOf p L ∧
    ∀ kv ∈ s.st.kvs, kv.key = keyOf p L → some kv.create = (s.el L p).rev →
      ∀ kv' ∈ s.st.kvs, p.isPrefixOf kv'.key = true → kv.create ≤ kv'.create

theorem inv_init (rev now : Nat) : Inv (Sys.init rev now) := by
  refine ⟨Wf.nil _, fun L p => Or.inl rfl, fun L p r h => ?_, fun p L h => ?_⟩
  · simp [Sys.init, El.init] at h; omega
  · simp [Sys.init] at h

/-- what an election object and the belief about it must satisfy on their own -/
def ElOk (s : Sys) (L : Nat) (p : Bytes) : Prop :=
  ((s.el L p).key = [] ∨ (s.el L p).key = nulKey ∨ (s.el L p).key = keyOf p L) ∧
  (∀ r, (s.el L p).rev = some r → r ≤ s.st.rev) ∧
  (s.told p L = true → (s.el L p).key = keyOf p L ∧
    ∀ kv ∈ s.st.kvs, kv.key = keyOf p L → some kv.create = (s.el L p).rev →
      ∀ kv' ∈ s.st.kvs, p.isPrefixOf kv'.key = true → kv.create ≤ kv'.create)

/-- master preservation lemma: the key space stays well formed, every entry is
    an old one or younger than the old store revision, and every election
    object is either untouched (and not newly told) or re-established -/
theorem inv_step {s s' : Sys} (h : Inv s)
    (hwf : Wf s'.st.kvs s'.st.rev) (hrev : s.st.rev ≤ s'.st.rev)
    (hkvs : ∀ kv ∈ s'.st.kvs, kv ∈ s.st.kvs ∨ s.st.rev < kv.create)
    (hel : ∀ L p, (s'.el L p = s.el L p ∧ (s'.told p L = true → s.told p L = true)) ∨ ElOk s' L p) :
    Inv s' := by
  refine ⟨hwf, fun L p => ?_, fun L p r hr => ?_, fun p L ht => ?_⟩
  · rcases hel L p with ⟨he, _⟩ | ⟨hk, _, _⟩
    · rw [he]; exact h.elKey L p
    · exact hk
  · rcases hel L p with ⟨he, _⟩ | ⟨_, hr', _⟩
    · rw [he] at hr; have := h.elRev L p r hr; omega
    · exact hr' r hr
  · rcases hel L p with ⟨he, ht'⟩ | ⟨_, _, hT⟩
    · obtain ⟨hk, hmin⟩ := h.told p L (ht' ht)
      rw [he]
      refine ⟨hk, fun kv hkv hkey hc kv' hkv' hp => ?_⟩
      rcases hkvs kv hkv with hold | hnew
      · rcases hkvs kv' hkv' with hold' | hnew'
        · exact hmin kv hold hkey hc kv' hold' hp
        · have := (h.wf.pos kv hold).2; omega
      · have := h.elRev L p kv.create hc.symm; omega
    · exact hT ht

theorem setEl_same (f : Nat → Bytes → El) (L : Nat) (p : Bytes) (e : El) : setEl f L p e L p = e := by
  simp [setEl]

theorem setEl_other (f : Nat → Bytes → El) (L L' : Nat) (p p' : Bytes) (e : El) (h : ¬ (L' = L ∧ p' = p)) :
    setEl f L p e L' p' = f L' p' := by
  simp [setEl, h]

theorem setTold_same (f : Bytes → Nat → Bool) (p : Bytes) (L : Nat) (b : Bool) : setTold f p L b p L = b := by
  simp [setTold]

theorem setTold_other (f : Bytes → Nat → Bool) (p p' : Bytes) (L L' : Nat) (b : Bool) (h : ¬ (p' = p ∧ L' = L)) :
    setTold f p L b p' L' = f p' L' := by
  simp [setTold, h]

/-- the usual shape of a step: only the election object (L, p) and the belief
    about it may change -/
theorem hel_local {s s' : Sys} (L : Nat) (p : Bytes)
    (hE : ∀ L' p', ¬ (L' = L ∧ p' = p) → s'.el L' p' = s.el L' p')
    (hT : ∀ p' L', ¬ (p' = p ∧ L' = L) → s'.told p' L' = s.told p' L')
    (hown : (s'.el L p = s.el L p ∧ (s'.told p L = true → s.told p L = true)) ∨ ElOk s' L p) :
    ∀ L' p', (s'.el L' p' = s.el L' p' ∧ (s'.told p' L' = true → s.told p' L' = true)) ∨ ElOk s' L' p' := by
  intro L' p'
  by_cases hq : L' = L ∧ p' = p
  · obtain ⟨rfl, rfl⟩ := hq; exact hown
  · left
    refine ⟨hE L' p' hq, fun ht => ?_⟩
    rw [hT p' L' (fun hh => hq ⟨hh.2, hh.1⟩)] at ht
    exact ht

/-- an election object that is not told anything needs only its key shape and revision bound -/
theorem elOk_untold {s : Sys} {L : Nat} {p : Bytes}
    (hk : (s.el L p).key = [] ∨ (s.el L p).key = nulKey ∨ (s.el L p).key = keyOf p L)
    (hr : ∀ r, (s.el L p).rev = some r → r ≤ s.st.rev) (ht : s.told p L = false) : ElOk s L p :=
  ⟨hk, hr, fun h => by rw [ht] at h; cases h⟩

/-! ### events that only remove keys or touch leases -/

theorem inv_kvs_filter {s : Sys} (h : Inv s) (f : KV → Bool) (leases : Nat → Option LeaseRec) (now : Nat) :
    Inv { s with st := { s.st with kvs := s.st.kvs.filter f, leases := leases, now := now } } := by
  refine inv_step h ?_ ?_ ?_ ?_
  · exact h.wf.filter f _ (Nat.le_refl _)
  · exact Nat.le_refl _
  · intro kv hkv; exact Or.inl (List.mem_filter.1 hkv).1
  · intro L p; exact Or.inl ⟨rfl, fun ht => ht⟩

theorem inv_leases {s : Sys} (h : Inv s) (leases : Nat → Option LeaseRec) :
    Inv { s with st := { s.st with leases := leases } } := by
  refine inv_step h ?_ ?_ ?_ ?_
  · exact h.wf
  · exact Nat.le_refl _
  · intro kv hkv; exact Or.inl hkv
  · intro L p; exact Or.inl ⟨rfl, fun ht => ht⟩

/-- a step that touches only (L, p), leaves it untold, and only removes keys -/
theorem inv_local_untold {s s' : Sys} (h : Inv s) (L : Nat) (p : Bytes)
    (hwf : Wf s'.st.kvs s'.st.rev) (hrev : s.st.rev ≤ s'.st.rev)
    (hkvs : ∀ kv ∈ s'.st.kvs, kv ∈ s.st.kvs ∨ s.st.rev < kv.create)
    (hE : ∀ L' p', ¬ (L' = L ∧ p' = p) → s'.el L' p' = s.el L' p')
    (hT : ∀ p' L', ¬ (p' = p ∧ L' = L) → s'.told p' L' = s.told p' L')
    (hk : (s'.el L p).key = [] ∨ (s'.el L p).key = nulKey ∨ (s'.el L p).key = keyOf p L)
    (hr : ∀ r, (s'.el L p).rev = some r → r ≤ s'.st.rev) (ht : s'.told p L = false) : Inv s' :=
  inv_step h hwf hrev hkvs (hel_local L p hE hT (Or.inr (elOk_untold hk hr ht)))

theorem wf_delKV {kvs : List KV} {rev : Nat} (h : Wf kvs rev) (k : Bytes) (rev' : Nat) (hr : rev ≤ rev') :
    Wf (delKV kvs k) rev' := h.filter _ rev' hr

theorem mem_delKV {kvs : List KV} {k : Bytes} {kv : KV} (h : kv ∈ delKV kvs k) : kv ∈ kvs :=
  (List.mem_filter.1 h).1

theorem le_bump (c : Prop) [Decidable c] (r : Nat) : r ≤ (if c then r + 1 else r) := by
  split <;> omega

theorem inv_campDel (idOf : Nat → Bytes) {s : Sys} (h : Inv s) (p : Bytes) (L f : Nat) :
    Inv (campDel idOf s p L f).1 := by
  unfold campDel
  by_cases hp : (s.el L p).pend = false
  · simp only [hp, Bool.not_false, ↓reduceIte]; exact h
  have hp : (s.el L p).pend = true := by
    cases hh : (s.el L p).pend
    · exact absurd hh hp
    · rfl
  simp only [hp, Bool.not_true, Bool.false_eq_true, ↓reduceIte]
  rw [loserDelete_eval]
  have hkey := h.elKey L p
  have hrevb := h.elRev L p
  by_cases hf3 : f = 3
  · simp only [hf3, ↓reduceIte]
    refine inv_local_untold h L p h.wf (Nat.le_refl _) (fun kv hkv => Or.inl hkv)
      (fun L' p' hq => setEl_other _ _ _ _ _ _ hq) (fun p' L' hq => setTold_other _ _ _ _ _ _ hq) ?_ ?_ ?_
    · dsimp only; rw [setEl_same]; exact hkey
    · dsimp only; rw [setEl_same]; exact hrevb
    · exact setTold_same _ _ _ _
  simp only [hf3, ↓reduceIte]
  by_cases hk : (s.el L p).key = []
  · simp only [hk, ↓reduceIte]
    refine inv_local_untold h L p h.wf (Nat.le_refl _) (fun kv hkv => Or.inl hkv)
      (fun L' p' hq => setEl_other _ _ _ _ _ _ hq) (fun p' L' hq => setTold_other _ _ _ _ _ _ hq) ?_ ?_ ?_
    · dsimp only; rw [setEl_same]; exact Or.inl rfl
    · dsimp only; rw [setEl_same]; exact hrevb
    · exact setTold_same _ _ _ _
  simp only [hk, ↓reduceIte]
  by_cases hf4 : f = 4
  · simp only [hf4, ↓reduceIte]
    refine inv_local_untold h L p (wf_delKV h.wf _ _ (le_bump _ _)) (le_bump _ _)
      (fun kv hkv => Or.inl (mem_delKV hkv))
      (fun L' p' hq => setEl_other _ _ _ _ _ _ hq) (fun p' L' hq => setTold_other _ _ _ _ _ _ hq) ?_ ?_ ?_
    · dsimp only; rw [setEl_same]; exact hkey
    · dsimp only; rw [setEl_same]; intro r hr
      exact Nat.le_trans (hrevb r hr) (le_bump _ _)
    · exact setTold_same _ _ _ _
  · simp only [hf4, ↓reduceIte]
    refine inv_local_untold h L p (wf_delKV h.wf _ _ (le_bump _ _)) (le_bump _ _)
      (fun kv hkv => Or.inl (mem_delKV hkv))
      (fun L' p' hq => setEl_other _ _ _ _ _ _ hq) (fun p' L' hq => setTold_other _ _ _ _ _ _ hq) ?_ ?_ ?_
    · dsimp only; rw [setEl_same]; exact Or.inr (Or.inl rfl)
    · dsimp only; rw [setEl_same]; intro r hr; cases hr
    · exact setTold_same _ _ _ _

end GunYu.Etcd
