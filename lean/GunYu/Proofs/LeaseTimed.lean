/-
  Invariant of the lease system with timed election calls
  (Model/LeaseTimed.lean) and its preservation by every event of every
  schedule that respects `TAllowed`. Property statements: Props/C15.lean.
-/
import GunYu.Model.LeaseTimed
import GunYu.Proofs.Lease

set_option linter.unusedSimpArgs false
set_option linter.unusedVariables false

namespace GunYu.Lease
open GunYu

theorem setInst_same (f : Bytes → Bytes → Inst) (key id : Bytes) (v : Inst) :
    setInst f key id v key id = v := by simp [setInst]

theorem setInst_other (f : Bytes → Bytes → Inst) (key' id' : Bytes) (v : Inst) (key id : Bytes)
    (h : ¬ (key = key' ∧ id = id')) : setInst f key' id' v key id = f key id := by
  simp [setInst, h]

/-- per instance: calls in flight were sent in the past; an answer "leader" on
    its way is backed by a lease that runs at least one ttl from the send; an
    instance that leads is within `hold` of the send of its last successful
    call, and the lease that call obtained runs at least one ttl from it -/
def IInv (cfg hold : Bytes → Nat) (s : TSys) (key id : Bytes) : Prop :=
  (∀ p, (s.inst key id).pend = some p → p.sent ≤ s.base.now) ∧
  (∀ sent, (s.inst key id).pend = some ⟨sent, some .leader⟩ →
      ∃ d, s.base.told key id = some d ∧ sent + cfg id * 1000 ≤ d) ∧
  ((s.inst key id).acting = true →
      (s.inst key id).okSent ≤ s.base.now ∧
      ∃ d, s.base.told key id = some d ∧ (s.inst key id).okSent + cfg id * 1000 ≤ d ∧
           s.base.now ≤ (s.inst key id).okSent + hold id)

def TInv (cfg hold : Bytes → Nat) (s : TSys) : Prop :=
  Inv cfg s.base ∧ ∀ key id, IInv cfg hold s key id

theorem tinv_init (cfg hold : Bytes → Nat) (st : Store) (now : Nat) : TInv cfg hold (TSys.init st now) := by
  refine ⟨inv_init cfg st now, fun key id => ⟨?_, ?_, ?_⟩⟩ <;> simp [TSys.init, Inst.idle]

/-- an instance that leads is a holder in the sense of the untimed model -/
theorem acting_holder {cfg hold : Bytes → Nat} (hh : ∀ id, hold id ≤ cfg id * 1000) {s : TSys}
    (h : TInv cfg hold s) {key id : Bytes} (ha : (s.inst key id).acting = true) :
    holder s.base key id := by
  obtain ⟨_, d, ht, hd, hn⟩ := (h.2 key id).2.2 ha
  exact ⟨d, ht, by have := hh id; omega⟩

/-- while `id`'s lease (by script time) has not run out, its campaign script
    answers 1 -/
theorem campaign_leader_of_holder {cfg : Bytes → Nat} {b : Sys} (hinv : Inv cfg b) {key id : Bytes} {d : Nat}
    (ht : b.told key id = some d) (hd : b.now ≤ d) (h1 : 1 ≤ cfg id) :
    roleOf (step cfg b (.campaign key id)).2 = .leader := by
  obtain ⟨e, hs, hv, hde⟩ := (hinv key id d ht).2 hd
  have hl := lookup_of_live hs (Nat.le_trans hd hde)
  rcases campaign_cases b.store b.now key id (cfg id) h1 with ⟨_, hc⟩ | ⟨⟨e2, hl2, hv2⟩, _⟩
  · simp [step, hc, campaignResult, replyInt, roleOf]
  · rw [hl] at hl2; cases hl2; exact absurd hv hv2

theorem step_campaign_told (cfg : Bytes → Nat) (b : Sys) (key id : Bytes) :
    (step cfg b (.campaign key id)).1.told =
      toldAfter b.told key id (b.now + cfg id * 1000) (roleOf (step cfg b (.campaign key id)).2) ∧
    (step cfg b (.campaign key id)).1.now = b.now := by
  simp [step, roleOf]

theorem tinv_step {cfg hold : Bytes → Nat} (hcfg : ∀ id, 1 ≤ cfg id) (hh : ∀ id, hold id ≤ cfg id * 1000)
    {s : TSys} (h : TInv cfg hold s) (ev : TEv) (hal : TAllowed hold s ev) :
    TInv cfg hold (tstep cfg hold s ev) := by
  obtain ⟨hb, hi⟩ := h
  cases ev with
  | tick d =>
    refine ⟨inv_step hb (.tick d) trivial, fun key id => ?_⟩
    obtain ⟨h1, h2, h3⟩ := hi key id
    unfold IInv
    simp only [tstep, step]
    refine ⟨fun p hp => by have := h1 p hp; omega, fun sent hp => h2 sent hp, fun ha => ?_⟩
    obtain ⟨ho, d', ht, hd, hn⟩ := h3 ha
    have hal' := hal key id ha
    exact ⟨by omega, d', ht, hd, hal'⟩
  | send k i =>
    simp only [tstep]
    cases hp : (s.inst k i).pend with
    | some p => simp only; exact ⟨hb, hi⟩
    | none =>
      simp only
      refine ⟨hb, fun key id => ?_⟩
      by_cases hk : key = k ∧ id = i
      · obtain ⟨rfl, rfl⟩ := hk
        obtain ⟨h1, h2, h3⟩ := hi key id
        simp only [IInv, setInst_same]
        refine ⟨fun p hp' => ?_, fun sent hp' => ?_, h3⟩
        · simp only [Option.some.injEq] at hp'; subst hp'; exact Nat.le_refl _
        · simp at hp'
      · simp only [IInv, setInst_other _ _ _ _ _ _ hk]; exact hi key id
  | exec k i =>
    simp only [tstep]
    cases hp : (s.inst k i).pend with
    | none => simp only; exact ⟨hb, hi⟩
    | some p =>
      obtain ⟨sent, res⟩ := p
      cases res with
      | some r => simp only; exact ⟨hb, hi⟩
      | none =>
        simp only
        have hb' : Inv cfg (step cfg s.base (.campaign k i)).1 := inv_step hb (.campaign k i) (hcfg i)
        obtain ⟨htold, hnow⟩ := step_campaign_told cfg s.base k i
        refine ⟨hb', fun key id => ?_⟩
        by_cases hk : key = k ∧ id = i
        · obtain ⟨rfl, rfl⟩ := hk
          obtain ⟨h1, h2, h3⟩ := hi key id
          have hsent : sent ≤ s.base.now := h1 ⟨sent, none⟩ hp
          simp only [IInv, setInst_same, htold, hnow]
          refine ⟨fun p hp' => ?_, fun sent' hp' => ?_, fun ha => ?_⟩
          · simp only [Option.some.injEq] at hp'; subst hp'; exact hsent
          · simp only [Option.some.injEq, Pend.mk.injEq] at hp'
            obtain ⟨rfl, hr⟩ := hp'
            rw [hr]
            exact ⟨s.base.now + cfg id * 1000, by simp [toldAfter, setTold_same], by omega⟩
          · obtain ⟨ho, d', ht, hd, hn⟩ := h3 ha
            have hrole := campaign_leader_of_holder hb ht (by have := hh id; omega) (hcfg id)
            rw [hrole]
            exact ⟨ho, s.base.now + cfg id * 1000, by simp [toldAfter, setTold_same], by omega, hn⟩
        · simp only [IInv, setInst_other _ _ _ _ _ _ hk, htold, hnow, toldAfter_other _ _ _ _ _ _ _ hk]
          exact hi key id
  | answer k i =>
    simp only [tstep]
    cases hp : (s.inst k i).pend with
    | none => simp only; exact ⟨hb, hi⟩
    | some p =>
      obtain ⟨sent, res⟩ := p
      cases res with
      | none => simp only; exact ⟨hb, hi⟩
      | some r =>
        simp only
        obtain ⟨h1, h2, h3⟩ := hi k i
        by_cases hr : r = .leader
        · subst hr
          simp only [↓reduceIte]
          by_cases hw : s.base.now ≤ sent + hold i
          · simp only [hw, ↓reduceIte]
            refine ⟨hb, fun key id => ?_⟩
            by_cases hk : key = k ∧ id = i
            · obtain ⟨rfl, rfl⟩ := hk
              obtain ⟨d', ht, hd⟩ := h2 sent hp
              simp only [IInv, setInst_same]
              exact ⟨fun p hp' => by simp at hp', fun s' hp' => by simp at hp',
                fun _ => ⟨h1 _ hp, d', ht, hd, hw⟩⟩
            · simp only [IInv, setInst_other _ _ _ _ _ _ hk]; exact hi key id
          · simp only [hw, ↓reduceIte]
            refine ⟨hb, fun key id => ?_⟩
            by_cases hk : key = k ∧ id = i
            · obtain ⟨rfl, rfl⟩ := hk
              simp only [IInv, setInst_same]
              exact ⟨fun p hp' => by simp at hp', fun s' hp' => by simp at hp', fun ha => by simp at ha⟩
            · simp only [IInv, setInst_other _ _ _ _ _ _ hk]; exact hi key id
        · simp only [hr, ↓reduceIte]
          refine ⟨hb, fun key id => ?_⟩
          by_cases hk : key = k ∧ id = i
          · obtain ⟨rfl, rfl⟩ := hk
            simp only [IInv, setInst_same]
            exact ⟨fun p hp' => by simp at hp', fun s' hp' => by simp at hp', h3⟩
          · simp only [IInv, setInst_other _ _ _ _ _ _ hk]; exact hi key id
  | giveUp k i =>
    simp only [tstep]
    refine ⟨hb, fun key id => ?_⟩
    by_cases hk : key = k ∧ id = i
    · obtain ⟨rfl, rfl⟩ := hk
      obtain ⟨h1, h2, h3⟩ := hi key id
      simp only [IInv, setInst_same]
      exact ⟨fun p hp' => by simp at hp', fun s' hp' => by simp at hp', h3⟩
    · simp only [IInv, setInst_other _ _ _ _ _ _ hk]; exact hi key id
  | stray k i =>
    simp only [tstep]
    refine ⟨inv_step hb (.lostCampaign k i true) (hcfg i), fun key id => ?_⟩
    have : (step cfg s.base (.lostCampaign k i true)).1.told = s.base.told ∧
           (step cfg s.base (.lostCampaign k i true)).1.now = s.base.now := by simp [step]
    simp only [IInv, this.1, this.2]
    exact hi key id
  | stop k i =>
    simp only [tstep]
    refine ⟨hb, fun key id => ?_⟩
    by_cases hk : key = k ∧ id = i
    · obtain ⟨rfl, rfl⟩ := hk
      simp only [IInv, setInst_same]
      exact ⟨fun p hp' => by simp at hp', fun s' hp' => by simp at hp', fun ha => by simp at ha⟩
    · simp only [IInv, setInst_other _ _ _ _ _ _ hk]; exact hi key id
  | resign k i =>
    simp only [tstep]
    by_cases hc : (s.inst k i).acting = false ∧ (s.inst k i).pend = none
    · simp only [hc, and_self, ↓reduceIte]
      refine ⟨inv_step hb (.resign k i) (hcfg i), fun key id => ?_⟩
      have : (step cfg s.base (.resign k i)).1.told = setTold s.base.told k i none ∧
             (step cfg s.base (.resign k i)).1.now = s.base.now := by simp [step]
      simp only [IInv, this.1, this.2]
      by_cases hk : key = k ∧ id = i
      · obtain ⟨rfl, rfl⟩ := hk
        refine ⟨fun p hp' => ?_, fun s' hp' => ?_, fun ha => ?_⟩
        · rw [hc.2] at hp'; simp at hp'
        · rw [hc.2] at hp'; simp at hp'
        · rw [hc.1] at ha; simp at ha
      · simp only [setTold_other _ _ _ _ _ _ hk]; exact hi key id
    · simp only [hc, ↓reduceIte]; exact ⟨hb, hi⟩

theorem tinv_run {cfg hold : Bytes → Nat} (hcfg : ∀ id, 1 ≤ cfg id) (hh : ∀ id, hold id ≤ cfg id * 1000)
    (evs : List TEv) {s : TSys} (h : TInv cfg hold s) (hok : trunOk cfg hold s evs) :
    TInv cfg hold (trun cfg hold s evs) := by
  induction evs generalizing s with
  | nil => exact h
  | cons ev rest ih =>
    simp only [trun]
    exact ih (tinv_step hcfg hh h ev hok.1) hok.2

/-! ### a decidable check of `trunOk` for schedules over a finite set of instances
    (used for the non-vacuity examples) -/

def TEv.target : TEv → Option (Bytes × Bytes)
  | .tick _ => none
  | .send k i => some (k, i)
  | .exec k i => some (k, i)
  | .answer k i => some (k, i)
  | .giveUp k i => some (k, i)
  | .stray k i => some (k, i)
  | .stop k i => some (k, i)
  | .resign k i => some (k, i)

theorem tstep_inst_other (cfg hold : Bytes → Nat) (s : TSys) (ev : TEv) (key id : Bytes)
    (h : ev.target ≠ some (key, id)) : (tstep cfg hold s ev).inst key id = s.inst key id := by
  have hne : ∀ k i, TEv.target ev = some (k, i) → ¬ (key = k ∧ id = i) := by
    intro k i ht ⟨a, b⟩; subst a; subst b; exact h ht
  cases ev with
  | tick d => rfl
  | send k i =>
    have := hne k i rfl
    simp only [tstep]; split <;> simp [setInst, this]
  | exec k i =>
    have := hne k i rfl
    simp only [tstep]; split <;> simp [setInst, this]
  | answer k i =>
    have := hne k i rfl
    simp only [tstep]; split
    · split
      · split <;> simp [setInst, this]
      · simp [setInst, this]
    · rfl
  | giveUp k i => have := hne k i rfl; simp [tstep, setInst, this]
  | stray k i => rfl
  | stop k i => have := hne k i rfl; simp [tstep, setInst, this]
  | resign k i => simp only [tstep]; split <;> rfl

def allowedB (hold : Bytes → Nat) (ids : List (Bytes × Bytes)) (s : TSys) : TEv → Bool
  | .tick d => ids.all fun p =>
      !(s.inst p.1 p.2).acting || decide (s.base.now + d ≤ (s.inst p.1 p.2).okSent + hold p.2)
  | _ => true

def trunOkB (cfg hold : Bytes → Nat) (ids : List (Bytes × Bytes)) (s : TSys) : List TEv → Bool
  | [] => true
  | ev :: rest => allowedB hold ids s ev && trunOkB cfg hold ids (tstep cfg hold s ev) rest

theorem trunOk_of_B (cfg hold : Bytes → Nat) (ids : List (Bytes × Bytes)) (evs : List TEv) :
    ∀ (s : TSys), (∀ key id, (key, id) ∉ ids → (s.inst key id).acting = false) →
      (∀ ev ∈ evs, ∀ t, ev.target = some t → t ∈ ids) →
      trunOkB cfg hold ids s evs = true → trunOk cfg hold s evs := by
  induction evs with
  | nil => intro s _ _ _; trivial
  | cons ev rest ih =>
    intro s hidle htg hb
    simp only [trunOkB, Bool.and_eq_true] at hb
    refine ⟨?_, ih _ ?_ (fun e he => htg e (by simp [he])) hb.2⟩
    · cases ev with
      | tick d =>
        intro key id ha
        by_cases hm : (key, id) ∈ ids
        · have := hb.1
          simp only [allowedB, List.all_eq_true] at this
          have h2 := this (key, id) hm
          simp only [ha, Bool.not_true, Bool.false_or, decide_eq_true_eq] at h2
          exact h2
        · rw [hidle key id hm] at ha; cases ha
      | _ => trivial
    · intro key id hm
      have hne : ev.target ≠ some (key, id) := by
        intro ht; exact hm (htg ev (by simp) _ ht)
      rw [tstep_inst_other cfg hold s ev key id hne]
      exact hidle key id hm

end GunYu.Lease
