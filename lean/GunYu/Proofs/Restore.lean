/-
  Helper lemmas for C20 (Model/Restore.lean): the per-key view of the target
  semantics (`objStep`), frame properties, and the shape of the request list a
  replay worker issues for the chunks of one key.
-/
import GunYu.Model.Restore

namespace GunYu.Restore
open GunYu

/-! ### per-key view of the target semantics -/

/-- what one request does to the object stored under key `k` of the current DB -/
def objStep (k : Bytes) (now : Nat) (o : Option Obj) (r : Req) : Option Obj :=
  if reqKey r = some k then objEffect now o r else o

def objSteps (k : Bytes) (now : Nat) (o : Option Obj) (rs : List Req) : Option Obj :=
  rs.foldl (objStep k now) o

def noSel : Req → Prop
  | .select _ => False
  | _ => True

theorem applyReq_eq (t : Target) (r : Req) (h : noSel r) :
    applyReq t r = match reqKey r with
      | some k => t.put k (objEffect t.now (t.get k) r)
      | none => t := by
  cases r <;> first | rfl | exact absurd h (by simp [noSel])

theorem applyReq_cur (t : Target) (r : Req) (h : noSel r) : (applyReq t r).cur = t.cur := by
  rw [applyReq_eq t r h]
  cases reqKey r <;> simp [Target.put]

theorem applyReq_now (t : Target) (r : Req) : (applyReq t r).now = t.now := by
  cases r <;> simp [applyReq, Target.put, reqKey]

/-- one request, seen from any (db, key) cell of the keyspace -/
theorem applyReq_ks (t : Target) (r : Req) (h : noSel r) (d : Nat) (k : Bytes) :
    (applyReq t r).ks d k = if d = t.cur then objStep k t.now (t.ks d k) r else t.ks d k := by
  rw [applyReq_eq t r h]
  unfold objStep
  cases hk : reqKey r with
  | none => simp
  | some k' =>
    simp only [Target.put, KS.set, Target.get]
    by_cases hd : d = t.cur
    · subst hd
      by_cases hkk : k = k'
      · subst hkk; simp
      · have : ¬ k' = k := fun h => hkk h.symm
        simp [hkk, this]
    · simp [hd]

theorem applyReq_get (t : Target) (r : Req) (h : noSel r) (k : Bytes) :
    (applyReq t r).get k = objStep k t.now (t.get k) r := by
  unfold Target.get
  rw [applyReq_cur t r h, applyReq_ks t r h]
  simp

theorem applyReqs_cur (t : Target) (rs : List Req) (h : ∀ r ∈ rs, noSel r) : (applyReqs t rs).cur = t.cur := by
  induction rs generalizing t with
  | nil => rfl
  | cons r rs ih =>
    simp only [applyReqs, List.foldl_cons]
    have := ih (applyReq t r) (fun x hx => h x (List.mem_cons_of_mem _ hx))
    simp only [applyReqs] at this
    rw [this, applyReq_cur t r (h r (List.mem_cons_self ..))]

theorem applyReqs_now (t : Target) (rs : List Req) : (applyReqs t rs).now = t.now := by
  induction rs generalizing t with
  | nil => rfl
  | cons r rs ih =>
    simp only [applyReqs, List.foldl_cons]
    have := ih (applyReq t r)
    simp only [applyReqs] at this
    rw [this, applyReq_now]

theorem applyReqs_get (t : Target) (rs : List Req) (h : ∀ r ∈ rs, noSel r) (k : Bytes) :
    (applyReqs t rs).get k = objSteps k t.now (t.get k) rs := by
  induction rs generalizing t with
  | nil => rfl
  | cons r rs ih =>
    simp only [applyReqs, List.foldl_cons, objSteps]
    have := ih (applyReq t r) (fun x hx => h x (List.mem_cons_of_mem _ hx))
    simp only [applyReqs, objSteps] at this
    rw [this, applyReq_now, applyReq_get t r (h r (List.mem_cons_self ..))]

theorem applyReqs_append (t : Target) (a b : List Req) : applyReqs t (a ++ b) = applyReqs (applyReqs t a) b := by
  simp [applyReqs, List.foldl_append]

theorem objSteps_append (k now o) (a b : List Req) :
    objSteps k now o (a ++ b) = objSteps k now (objSteps k now o a) b := by
  simp [objSteps, List.foldl_append]

/-- requests that concern key `k` only (or no key at all) -/
def onKey (k : Bytes) : Req → Prop
  | .exists k' => k' = k
  | .del k' => k' = k
  | .pexpire k' _ => k' = k
  | .restore k' _ _ _ _ => k' = k
  | .data c => cmdKey c = k
  | .select _ => False
  | _ => True

theorem onKey_noSel {k r} (h : onKey k r) : noSel r := by
  cases r <;> simp [onKey, noSel] at *

theorem onKey_reqKey {k r} (h : onKey k r) : reqKey r = none ∨ reqKey r = some k := by
  cases r <;> simp [onKey, reqKey] at *
  all_goals exact h

theorem objStep_other {k k' now o r} (h : onKey k r) (hk : k' ≠ k) : objStep k' now o r = o := by
  unfold objStep
  rcases onKey_reqKey h with h' | h'
  · simp [h']
  · simp [h', Ne.symm hk]

theorem objSteps_other {k k' now o} {rs : List Req} (h : ∀ r ∈ rs, onKey k r) (hk : k' ≠ k) :
    objSteps k' now o rs = o := by
  induction rs generalizing o with
  | nil => rfl
  | cons r rs ih =>
    simp only [objSteps, List.foldl_cons]
    rw [objStep_other (h r (List.mem_cons_self ..)) hk]
    exact ih (fun x hx => h x (List.mem_cons_of_mem _ hx))

/-- frame: a request list on key `k` leaves every other cell of the keyspace alone -/
theorem applyReqs_frame (t : Target) (rs : List Req) (k : Bytes) (h : ∀ r ∈ rs, onKey k r)
    (d : Nat) (k' : Bytes) (hne : ¬ (d = t.cur ∧ k' = k)) : (applyReqs t rs).ks d k' = t.ks d k' := by
  induction rs generalizing t with
  | nil => rfl
  | cons r rs ih =>
    simp only [applyReqs, List.foldl_cons]
    have hr := h r (List.mem_cons_self ..)
    have hcur := applyReq_cur t r (onKey_noSel hr)
    have := ih (applyReq t r) (fun x hx => h x (List.mem_cons_of_mem _ hx)) (by rw [hcur]; exact hne)
    simp only [applyReqs] at this
    rw [this, applyReq_ks t r (onKey_noSel hr)]
    by_cases hd : d = t.cur
    · simp only [hd, if_true]
      have hk : k' ≠ k := fun hk => hne ⟨hd, hk⟩
      rw [← hd]
      exact objStep_other hr hk
    · simp [hd]

/-! ### object after a run of native commands -/

theorem objSteps_data_native (k now) (l : List Cmd) (x : Nat) (cs : List Cmd) (h : ∀ c ∈ cs, cmdKey c = k) :
    objSteps k now (some { val := .native l, exp := x }) (cs.map Req.data) = some { val := .native (l ++ cs), exp := x } := by
  induction cs generalizing l with
  | nil => simp [objSteps]
  | cons c cs ih =>
    simp only [objSteps, List.map_cons, List.foldl_cons]
    have hc := h c (List.mem_cons_self ..)
    have : objStep k now (some { val := .native l, exp := x }) (.data c) = some { val := .native (l ++ [c]), exp := x } := by
      simp [objStep, reqKey, objEffect, hc, dataStep]
    rw [this]
    have := ih (l ++ [c]) (fun y hy => h y (List.mem_cons_of_mem _ hy))
    simp only [objSteps] at this
    rw [this]; simp

theorem objSteps_data_none (k now) (c : Cmd) (cs : List Cmd) (h : ∀ x ∈ c :: cs, cmdKey x = k) :
    objSteps k now none ((c :: cs).map Req.data) = some { val := .native (c :: cs), exp := 0 } := by
  simp only [objSteps, List.map_cons, List.foldl_cons]
  have hc := h c (List.mem_cons_self ..)
  have : objStep k now none (.data c) = some { val := .native [c], exp := 0 } := by
    simp [objStep, reqKey, objEffect, hc, dataStep]
  rw [this]
  have := objSteps_data_native k now [c] 0 cs (fun y hy => h y (List.mem_cons_of_mem _ hy))
  simp only [objSteps] at this
  rw [this]; simp

/-- absolute expiry the snapshot prescribes (0 = none) -/
def expAbs (cfg : Cfg) (tnow : Nat) (expireAt : Nat) : Nat :=
  if expireAt = 0 then 0 else tnow + ttlMs cfg.now expireAt

theorem ttlMs_pos {now e : Nat} (h : e ≠ 0) : ttlMs now e ≠ 0 := by
  unfold ttlMs
  simp only [h, if_false]
  split <;> omega

/-- a later chunk (`expand`) on a native object whose expiry already is the snapshot's -/
theorem objSteps_expand_native (cfg : Cfg) (k : Bytes) (now : Nat) (E : Nat) (l : List Cmd) (e : Entry)
    (hk : e.key = k) (hc : ∀ c ∈ e.cmds, cmdKey c = k) (hE : e.expireAt = 0 ∨ e.expireAt = E) :
    objSteps k now (some { val := .native l, exp := expAbs cfg now E }) (expand cfg e)
      = some { val := .native (l ++ e.cmds), exp := expAbs cfg now E } := by
  unfold expand
  rw [objSteps_append, objSteps_data_native k now l _ e.cmds hc]
  by_cases h0 : e.expireAt = 0
  · simp [h0, objSteps]
  · have hE' : e.expireAt = E := by cases hE with
      | inl h => exact absurd h h0
      | inr h => exact h
    subst hE'
    simp only [h0, ne_eq, not_false_eq_true, if_true, objSteps, List.foldl_cons, List.foldl_nil, objStep, reqKey, objEffect, hk]
    simp [expAbs, h0]

/-- the first chunk (`expand`) on an absent key -/
theorem objSteps_expand_none (cfg : Cfg) (k : Bytes) (now : Nat) (e : Entry)
    (hk : e.key = k) (hc : ∀ c ∈ e.cmds, cmdKey c = k) (hne : e.cmds ≠ []) :
    objSteps k now none (expand cfg e)
      = some { val := .native e.cmds, exp := expAbs cfg now e.expireAt } := by
  unfold expand
  rw [objSteps_append]
  cases hcs : e.cmds with
  | nil => exact absurd hcs hne
  | cons c cs =>
    rw [objSteps_data_none k now c cs (by rw [← hcs]; exact hc)]
    by_cases h0 : e.expireAt = 0
    · simp [h0, objSteps, expAbs]
    · simp only [h0, ne_eq, not_false_eq_true, if_true, objSteps, List.foldl_cons, List.foldl_nil, objStep, reqKey, objEffect, hk]
      simp [expAbs, h0]

theorem expand_onKey (cfg : Cfg) (k : Bytes) (e : Entry) (hk : e.key = k) (hc : ∀ c ∈ e.cmds, cmdKey c = k) :
    ∀ r ∈ expand cfg e, onKey k r := by
  intro r hr
  unfold expand at hr
  rcases List.mem_append.mp hr with h | h
  · rcases List.mem_map.mp h with ⟨c, hcm, rfl⟩
    exact hc c hcm
  · split at h
    · simp at h; subst h; exact hk
    · simp at h

/-! ### shape of `replay` on the chunks of one key -/

/-- chunk of a split data value that is not the first one -/
structure Later (k : Bytes) (e : Entry) : Prop where
  key : e.key = k
  notFirst : e.first = false
  data : e.otype = .data
  split : e.splited = true

theorem useRestore_split {cfg : Cfg} {e : Entry} (h : e.splited = true) : useRestore cfg e = false := by
  simp [useRestore, h]

theorem replay_later (pol : Policy) (cfg : Cfg) (st : RState) (v : View) {k : Bytes} {e : Entry} (h : Later k e) :
    replay pol cfg st v e = if st = some k then ([], .ok, st) else (expand cfg e, .ok, st) := by
  unfold replay
  simp [h.data, useRestore_split h.split, h.notFirst, h.key]

theorem runPlain_nil (pol cfg st t) : runPlain pol cfg st t [] = { st := st, tgt := t } := rfl

theorem runPlain_cons_ok (pol : Policy) (cfg : Cfg) (st : RState) (t : Target) (e : Entry) (rest : List Entry)
    (rs : List Req) (st' : RState) (h : replay pol cfg st (viewOf t e) e = (rs, .ok, st')) :
    (runPlain pol cfg st t (e :: rest)).reqs = rs ++ (runPlain pol cfg st' (applyReqs t rs) rest).reqs ∧
    (runPlain pol cfg st t (e :: rest)).out = (runPlain pol cfg st' (applyReqs t rs) rest).out ∧
    (runPlain pol cfg st t (e :: rest)).st = (runPlain pol cfg st' (applyReqs t rs) rest).st ∧
    (runPlain pol cfg st t (e :: rest)).tgt = (runPlain pol cfg st' (applyReqs t rs) rest).tgt := by
  simp [runPlain, h]

theorem runPlain_cons_err (pol : Policy) (cfg : Cfg) (st : RState) (t : Target) (e : Entry) (rest : List Entry)
    (rs : List Req) (o : Outcome) (st' : RState) (ho : o ≠ .ok) (h : replay pol cfg st (viewOf t e) e = (rs, o, st')) :
    (runPlain pol cfg st t (e :: rest)).reqs = rs ∧
    (runPlain pol cfg st t (e :: rest)).out = o ∧
    (runPlain pol cfg st t (e :: rest)).tgt = applyReqs t rs := by
  cases o <;> simp [runPlain, h] at *

/-- remaining chunks of an ignored key: nothing is sent -/
theorem runPlain_later_skip (pol : Policy) (cfg : Cfg) (k : Bytes) :
    ∀ (rest : List Entry) (t : Target), (∀ e ∈ rest, Later k e) →
      (runPlain pol cfg (some k) t rest).reqs = [] ∧ (runPlain pol cfg (some k) t rest).out = .ok ∧
      (runPlain pol cfg (some k) t rest).tgt = t
  | [], t, _ => by simp [runPlain_nil]
  | e :: rest, t, h => by
    have he := h e (List.mem_cons_self ..)
    have hr : replay pol cfg (some k) (viewOf t e) e = ([], .ok, some k) := by
      rw [replay_later pol cfg (some k) _ he]; simp
    obtain ⟨h1, h2, _, h4⟩ := runPlain_cons_ok pol cfg (some k) t e rest [] (some k) hr
    have ih := runPlain_later_skip pol cfg k rest t (fun x hx => h x (List.mem_cons_of_mem _ hx))
    simp only [applyReqs, List.foldl_nil] at h1 h2 h4
    rw [h1, h2, h4]
    simpa using ih

/-- remaining chunks of a key that is being written: each chunk is expanded -/
theorem runPlain_later_expand (pol : Policy) (cfg : Cfg) (k : Bytes) (st : RState) (hst : st ≠ some k) :
    ∀ (rest : List Entry) (t : Target), (∀ e ∈ rest, Later k e) →
      (runPlain pol cfg st t rest).reqs = rest.flatMap (expand cfg) ∧ (runPlain pol cfg st t rest).out = .ok ∧
      (runPlain pol cfg st t rest).tgt = applyReqs t (rest.flatMap (expand cfg))
  | [], t, _ => by simp [runPlain_nil, applyReqs]
  | e :: rest, t, h => by
    have he := h e (List.mem_cons_self ..)
    have hr : replay pol cfg st (viewOf t e) e = (expand cfg e, .ok, st) := by
      rw [replay_later pol cfg st _ he]; simp [hst]
    obtain ⟨h1, h2, _, h4⟩ := runPlain_cons_ok pol cfg st t e rest _ st hr
    have ih := runPlain_later_expand pol cfg k st hst rest (applyReqs t (expand cfg e)) (fun x hx => h x (List.mem_cons_of_mem _ hx))
    rw [h1, h2, h4, ih.1, ih.2.1, ih.2.2]
    simp [applyReqs_append]

/-- object under `k` after the later chunks were expanded onto a native value -/
theorem objSteps_later (cfg : Cfg) (k : Bytes) (now E : Nat) :
    ∀ (rest : List Entry) (l : List Cmd),
      (∀ e ∈ rest, e.key = k ∧ (∀ c ∈ e.cmds, cmdKey c = k) ∧ (e.expireAt = 0 ∨ e.expireAt = E)) →
      objSteps k now (some { val := .native l, exp := expAbs cfg now E }) (rest.flatMap (expand cfg))
        = some { val := .native (l ++ rest.flatMap (·.cmds)), exp := expAbs cfg now E }
  | [], l, _ => by simp [objSteps]
  | e :: rest, l, h => by
    obtain ⟨hk, hc, hE⟩ := h e (List.mem_cons_self ..)
    simp only [List.flatMap_cons]
    rw [objSteps_append, objSteps_expand_native cfg k now E l e hk hc hE,
      objSteps_later cfg k now E rest (l ++ e.cmds) (fun x hx => h x (List.mem_cons_of_mem _ hx))]
    simp

theorem flatMap_expand_onKey (cfg : Cfg) (k : Bytes) (rest : List Entry)
    (h : ∀ e ∈ rest, e.key = k ∧ (∀ c ∈ e.cmds, cmdKey c = k)) :
    ∀ r ∈ rest.flatMap (expand cfg), onKey k r := by
  intro r hr
  rcases List.mem_flatMap.mp hr with ⟨e, he, hre⟩
  exact expand_onKey cfg k e (h e he).1 (h e he).2 r hre

/-! ### the bidirectional builder on the chunks of one key -/

theorem expandB_eq (cfg : Cfg) (e : Entry) : expandB cfg e true = expand cfg e := by
  simp [expandB, expand]

/-- requests of one unit: nothing when the unit is empty -/
def wrapUnit (cmds : List Req) : List Req := if cmds = [] then [] else execUnit cmds

theorem buildUnit_later (pol : Policy) (cfg : Cfg) (st : RState) (v : View) {k : Bytes} {e : Entry}
    (h : Later k e) :
    buildUnit pol cfg st v e =
      if st = some k then ([], [], .skip, st)
      else if expand cfg e = [] then ([], [], .skip, st) else ([], expand cfg e, .unit, st) := by
  unfold buildUnit
  simp only [h.data, h.notFirst, useRestore_split h.split, h.key]
  by_cases hs : st = some k <;> simp [hs, expandB_eq cfg e]

theorem runBisync_nil (pol cfg st t) : runBisync pol cfg st t [] = { st := st, tgt := t } := rfl

theorem runBisync_cons_ok (pol : Policy) (cfg : Cfg) (st : RState) (t : Target) (e : Entry) (rest : List Entry)
    (direct cmds : List Req) (out : BOutcome) (st' : RState) (ho : bOut out = .ok)
    (h : buildUnit pol cfg st (viewOf t e) e = (direct, cmds, out, st')) :
    let rs := direct ++ (if out = .unit then execUnit cmds else [])
    (runBisync pol cfg st t (e :: rest)).reqs = rs ++ (runBisync pol cfg st' (applyReqs t rs) rest).reqs ∧
    (runBisync pol cfg st t (e :: rest)).out = (runBisync pol cfg st' (applyReqs t rs) rest).out ∧
    (runBisync pol cfg st t (e :: rest)).tgt = (runBisync pol cfg st' (applyReqs t rs) rest).tgt := by
  simp [runBisync, h, ho]

theorem runBisync_cons_err (pol : Policy) (cfg : Cfg) (st : RState) (t : Target) (e : Entry) (rest : List Entry)
    (direct cmds : List Req) (out : BOutcome) (st' : RState) (ho : bOut out ≠ .ok)
    (h : buildUnit pol cfg st (viewOf t e) e = (direct, cmds, out, st')) :
    let rs := direct ++ (if out = .unit then execUnit cmds else [])
    (runBisync pol cfg st t (e :: rest)).reqs = rs ∧
    (runBisync pol cfg st t (e :: rest)).out = bOut out ∧
    (runBisync pol cfg st t (e :: rest)).tgt = applyReqs t rs := by
  cases out <;> simp [runBisync, h, bOut] at *

theorem runBisync_later_skip (pol : Policy) (cfg : Cfg) (k : Bytes) :
    ∀ (rest : List Entry) (t : Target), (∀ e ∈ rest, Later k e) →
      (runBisync pol cfg (some k) t rest).reqs = [] ∧ (runBisync pol cfg (some k) t rest).out = .ok ∧
      (runBisync pol cfg (some k) t rest).tgt = t
  | [], t, _ => by simp [runBisync_nil]
  | e :: rest, t, h => by
    have he := h e (List.mem_cons_self ..)
    have hr : buildUnit pol cfg (some k) (viewOf t e) e = ([], [], .skip, some k) := by
      rw [buildUnit_later pol cfg (some k) _ he]; simp
    obtain ⟨h1, h2, h4⟩ := runBisync_cons_ok pol cfg (some k) t e rest [] [] .skip (some k) rfl hr
    have ih := runBisync_later_skip pol cfg k rest t (fun x hx => h x (List.mem_cons_of_mem _ hx))
    simp only [applyReqs, List.foldl_nil, List.append_nil, List.nil_append] at h1 h2 h4
    simp only [reduceCtorEq, if_false, List.foldl_nil, List.nil_append] at h1 h2 h4
    rw [h1, h2, h4]
    exact ih

theorem runBisync_later_expand (pol : Policy) (cfg : Cfg) (k : Bytes) (st : RState) (hst : st ≠ some k) :
    ∀ (rest : List Entry) (t : Target), (∀ e ∈ rest, Later k e) →
      (runBisync pol cfg st t rest).reqs = rest.flatMap (fun e => wrapUnit (expand cfg e)) ∧
      (runBisync pol cfg st t rest).out = .ok ∧
      (runBisync pol cfg st t rest).tgt = applyReqs t (rest.flatMap (fun e => wrapUnit (expand cfg e)))
  | [], t, _ => by simp [runBisync_nil, applyReqs]
  | e :: rest, t, h => by
    have he := h e (List.mem_cons_self ..)
    have ih := fun t' => runBisync_later_expand pol cfg k st hst rest t' (fun x hx => h x (List.mem_cons_of_mem _ hx))
    by_cases hemp : expand cfg e = []
    · have hr : buildUnit pol cfg st (viewOf t e) e = ([], [], .skip, st) := by
        rw [buildUnit_later pol cfg st _ he]; simp [hst, hemp]
      obtain ⟨h1, h2, h4⟩ := runBisync_cons_ok pol cfg st t e rest [] [] .skip st rfl hr
      simp only [reduceCtorEq, if_false, List.append_nil, List.nil_append, applyReqs, List.foldl_nil] at h1 h2 h4
      rw [h1, h2, h4, (ih t).1, (ih t).2.1, (ih t).2.2]
      simp [wrapUnit, hemp, applyReqs]
    · have hr : buildUnit pol cfg st (viewOf t e) e = ([], expand cfg e, .unit, st) := by
        rw [buildUnit_later pol cfg st _ he]; simp [hst, hemp]
      obtain ⟨h1, h2, h4⟩ := runBisync_cons_ok pol cfg st t e rest [] (expand cfg e) .unit st rfl hr
      simp only [if_true, List.nil_append] at h1 h2 h4
      rw [h1, h2, h4, (ih _).1, (ih _).2.1, (ih _).2.2]
      simp [wrapUnit, hemp, applyReqs_append]

theorem objSteps_execUnit (k now o) (cmds : List Req) :
    objSteps k now o (execUnit cmds) = objSteps k now o cmds := by
  simp [execUnit, objSteps, objStep, reqKey, List.foldl_append]

theorem objSteps_wrapUnit (k now o) (cmds : List Req) :
    objSteps k now o (wrapUnit cmds) = objSteps k now o cmds := by
  unfold wrapUnit
  split
  · next h => simp [h]
  · exact objSteps_execUnit k now o cmds

theorem execUnit_onKey {k : Bytes} {cmds : List Req} (h : ∀ r ∈ cmds, onKey k r) : ∀ r ∈ execUnit cmds, onKey k r := by
  intro r hr
  simp only [execUnit, List.mem_cons, List.mem_append, List.mem_nil_iff, or_false] at hr
  rcases hr with (rfl | rfl | hr) | rfl
  · simp [onKey]
  · simp [onKey]
  · exact h r hr
  · simp [onKey]

theorem wrapUnit_onKey {k : Bytes} {cmds : List Req} (h : ∀ r ∈ cmds, onKey k r) : ∀ r ∈ wrapUnit cmds, onKey k r := by
  unfold wrapUnit
  split
  · simp
  · exact execUnit_onKey h

/-- object under `k` after the later chunks' units were executed onto a native value -/
theorem objSteps_later_units (cfg : Cfg) (k : Bytes) (now E : Nat) :
    ∀ (rest : List Entry) (l : List Cmd),
      (∀ e ∈ rest, e.key = k ∧ (∀ c ∈ e.cmds, cmdKey c = k) ∧ (e.expireAt = 0 ∨ e.expireAt = E)) →
      objSteps k now (some { val := .native l, exp := expAbs cfg now E }) (rest.flatMap (fun e => wrapUnit (expand cfg e)))
        = some { val := .native (l ++ rest.flatMap (·.cmds)), exp := expAbs cfg now E }
  | [], l, _ => by simp [objSteps]
  | e :: rest, l, h => by
    obtain ⟨hk, hc, hE⟩ := h e (List.mem_cons_self ..)
    simp only [List.flatMap_cons]
    rw [objSteps_append, objSteps_wrapUnit, objSteps_expand_native cfg k now E l e hk hc hE,
      objSteps_later_units cfg k now E rest (l ++ e.cmds) (fun x hx => h x (List.mem_cons_of_mem _ hx))]
    simp

theorem flatMap_units_onKey (cfg : Cfg) (k : Bytes) (rest : List Entry)
    (h : ∀ e ∈ rest, e.key = k ∧ (∀ c ∈ e.cmds, cmdKey c = k)) :
    ∀ r ∈ rest.flatMap (fun e => wrapUnit (expand cfg e)), onKey k r := by
  intro r hr
  rcases List.mem_flatMap.mp hr with ⟨e, he, hre⟩
  exact wrapUnit_onKey (expand_onKey cfg k e (h e he).1 (h e he).2) r hre

/-! ### the driver's worker loop (`runWorker`, used for the correspondence with the
    real code) coincides with `runPlain` / `runBisync` (used in the theorems) on
    entries of the connection's current DB (no SELECT is issued) -/

def lastOut : List (List Req × Outcome) → Outcome
  | [] => .ok
  | [l] => l.2
  | _ :: rest => lastOut rest

theorem runWorker_plain (pol : Policy) (cfg : Cfg) (cur : Nat) :
    ∀ (es : List Entry) (st : RState) (t : Target), (∀ e ∈ es, e.db = Int.ofNat cur) →
      (runWorker false pol cfg cur st t es).flatMap (·.1) = (runPlain pol cfg st t es).reqs ∧
      workerTarget t (runWorker false pol cfg cur st t es) = (runPlain pol cfg st t es).tgt
  | [], st, t, _ => by simp [runWorker, runPlain_nil, workerTarget]
  | e :: rest, st, t, h => by
    have he : e.db = Int.ofNat cur := h e (List.mem_cons_self ..)
    have hsel : (if e.db ≥ 0 ∧ e.db.toNat ≠ cur then [Req.select e.db.toNat] else []) = [] := by
      rw [he]; simp
    have hcur : (if e.db ≥ 0 then e.db.toNat else cur) = cur := by rw [he]; simp
    unfold runWorker runPlain
    simp only [hsel, hcur, applyReqs, List.foldl_nil, List.nil_append, Bool.false_eq_true, if_false]
    cases hr : replay pol cfg st (viewOf t e) e with
    | mk rs p =>
      obtain ⟨out, st'⟩ := p
      cases out with
      | ok =>
        have ih := runWorker_plain pol cfg cur rest st' (List.foldl applyReq t rs) (fun x hx => h x (List.mem_cons_of_mem _ hx))
        simp only [List.flatMap_cons, workerTarget, List.foldl_cons, applyReqs] at ih ⊢
        exact ⟨by rw [ih.1], by rw [← ih.2]⟩
      | errExists => simp [workerTarget, applyReqs]
      | errModule => simp [workerTarget, applyReqs]
      | errBad => simp [workerTarget, applyReqs]

theorem runWorker_bisync (pol : Policy) (cfg : Cfg) (cur : Nat) :
    ∀ (es : List Entry) (st : RState) (t : Target), (∀ e ∈ es, e.db = Int.ofNat cur) →
      (runWorker true pol cfg cur st t es).flatMap (·.1) = (runBisync pol cfg st t es).reqs ∧
      workerTarget t (runWorker true pol cfg cur st t es) = (runBisync pol cfg st t es).tgt
  | [], st, t, _ => by simp [runWorker, runBisync_nil, workerTarget]
  | e :: rest, st, t, h => by
    have he : e.db = Int.ofNat cur := h e (List.mem_cons_self ..)
    have hsel : (if e.db ≥ 0 ∧ e.db.toNat ≠ cur then [Req.select e.db.toNat] else []) = [] := by
      rw [he]; simp
    have hcur : (if e.db ≥ 0 then e.db.toNat else cur) = cur := by rw [he]; simp
    unfold runWorker runBisync
    simp only [hsel, hcur, applyReqs, List.foldl_nil, List.nil_append, if_true]
    cases hr : buildUnit pol cfg st (viewOf t e) e with
    | mk direct p =>
      obtain ⟨cmds, out, st'⟩ := p
      cases hb : bOut out with
      | ok =>
        have ih := runWorker_bisync pol cfg cur rest st'
          (List.foldl applyReq t (direct ++ if out = BOutcome.unit then execUnit cmds else []))
          (fun x hx => h x (List.mem_cons_of_mem _ hx))
        simp only [List.flatMap_cons, workerTarget, List.foldl_cons, applyReqs] at ih ⊢
        exact ⟨by rw [ih.1], by rw [← ih.2]⟩
      | errExists => simp [workerTarget, applyReqs]
      | errModule => simp [workerTarget, applyReqs]
      | errBad => simp [workerTarget, applyReqs]

/-! ### composition: a worker's run over `a ++ b` is its run over `a` followed
    by its run over `b` from the state and target `a` left behind -/

theorem runPlain_append_ok (pol : Policy) (cfg : Cfg) :
    ∀ (a : List Entry) (st : RState) (t : Target) (b : List Entry), (runPlain pol cfg st t a).out = .ok →
      (runPlain pol cfg st t (a ++ b)).tgt =
        (runPlain pol cfg (runPlain pol cfg st t a).st (runPlain pol cfg st t a).tgt b).tgt ∧
      (runPlain pol cfg st t (a ++ b)).out =
        (runPlain pol cfg (runPlain pol cfg st t a).st (runPlain pol cfg st t a).tgt b).out
  | [], st, t, b, _ => by simp [runPlain_nil]
  | e :: a, st, t, b, h => by
    cases hr : replay pol cfg st (viewOf t e) e with
    | mk rs p =>
      obtain ⟨out, st'⟩ := p
      cases out with
      | ok =>
        obtain ⟨_, h2, h3, h4⟩ := runPlain_cons_ok pol cfg st t e a rs st' hr
        obtain ⟨_, g2, _, g4⟩ := runPlain_cons_ok pol cfg st t e (a ++ b) rs st' hr
        have ih := runPlain_append_ok pol cfg a st' (applyReqs t rs) b (by rw [← h2]; exact h)
        rw [List.cons_append, g4, g2, h3, h4]
        exact ih
      | errExists =>
        have := (runPlain_cons_err pol cfg st t e a rs _ st' (by simp) hr).2.1
        rw [this] at h; cases h
      | errModule =>
        have := (runPlain_cons_err pol cfg st t e a rs _ st' (by simp) hr).2.1
        rw [this] at h; cases h
      | errBad =>
        have := (runPlain_cons_err pol cfg st t e a rs _ st' (by simp) hr).2.1
        rw [this] at h; cases h

end GunYu.Restore
