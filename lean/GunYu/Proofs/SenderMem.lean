/-
  The in-memory position (`Model/SenderMem.lean`) is the position the SAME schedule
  writes to the target when resuming is switched on.

  For a configuration `c` with `resume = false` let `resumeOn c` be its resumable
  twin. Both loops take the same branches (no branch looks at `resume` or at
  `cpInDbs`), so they run in lock step: same queue, same flushes, the twin's
  batches are those of `c` with the checkpoint requests added (`run_sim`, first
  part), and `setMemCP` assigns exactly where the twin puts `<rid>_offset` on the
  wire, with the database the connection is in at that request (`run_sim`, second
  part: `memOf` reads the last `cpOffset` of the twin's wire).
-/
import GunYu.Model.SenderMem
import GunYu.Proofs.RunId

namespace GunYu.Sender
open GunYu GunYu.Target

/-- requests other than the checkpoint writes -/
def notCp : Req → Bool
  | .cpMeta => false
  | .cpOffset _ => false
  | _ => true

def noCp (l : List Req) : List Req := l.filter notCp

/-- the resumable twin of a configuration -/
def resumeOn (c : SCfg) : SCfg := { c with resume := true }

/-- a loop state with other run-id bookkeeping -/
def wk (s : SState) (k : List Int) : SState := { s with cpInDbs := k }

theorem wk_queue (s : SState) (k : List Int) : (wk s k).queue = s.queue := rfl
theorem wk_qbytes (s : SState) (k : List Int) : (wk s k).qbytes = s.qbytes := rfl
theorem wk_txn (s : SState) (k : List Int) : (wk s k).txn = s.txn := rfl
theorem wk_needFlush (s : SState) (k : List Int) : (wk s k).needFlush = s.needFlush := rfl
theorem wk_inTxn (s : SState) (k : List Int) : (wk s k).inTxn = s.inTxn := rfl
theorem wk_lastOffset (s : SState) (k : List Int) : (wk s k).lastOffset = s.lastOffset := rfl
theorem wk_connDb (s : SState) (k : List Int) : (wk s k).connDb = s.connDb := rfl
theorem wk_cpInDbs (s : SState) (k : List Int) : (wk s k).cpInDbs = k := rfl

/-- an empty queue has no bytes -/
def QInv (s : SState) : Prop := s.queue = [] → s.qbytes = 0

/-- the position a list of executed requests leaves: the last `<rid>_offset` written,
    with the database the connection is in at that request -/
def memStep (p : TState × Mem) (r : Req) : TState × Mem :=
  (execReq p.1 r, match r with
    | .cpOffset o => { off := o, db := p.1.cur }
    | _ => p.2)

def memOf (t : TState) (m : Mem) (l : List Req) : Mem := (l.foldl memStep (t, m)).2

theorem memFold_fst (l : List Req) (t : TState) (m : Mem) :
    (l.foldl memStep (t, m)).1 = l.foldl execReq t := by
  induction l generalizing t m with
  | nil => rfl
  | cons r rest ih => simp only [List.foldl_cons]; exact ih _ _

theorem memOf_nil (t : TState) (m : Mem) : memOf t m [] = m := rfl

theorem memOf_append (t : TState) (m : Mem) (a b : List Req) :
    memOf t m (a ++ b) = memOf (a.foldl execReq t) (memOf t m a) b := by
  unfold memOf
  rw [List.foldl_append]
  have : a.foldl memStep (t, m) = (a.foldl execReq t, (a.foldl memStep (t, m)).2) := by
    rw [← memFold_fst a t m]
  rw [this]

theorem memOf_cmds (q : List Item) (t : TState) (m : Mem) :
    memOf t m (q.map (fun i => Req.cmd i.cmd i.args i.offset)) = m := by
  induction q generalizing t with
  | nil => rfl
  | cons i rest ih =>
    simp only [List.map_cons]
    rw [show (Req.cmd i.cmd i.args i.offset :: rest.map (fun i => Req.cmd i.cmd i.args i.offset)) =
      [Req.cmd i.cmd i.args i.offset] ++ rest.map (fun i => Req.cmd i.cmd i.args i.offset) from rfl,
      memOf_append]
    exact ih _

theorem noCp_append (a b : List Req) : noCp (a ++ b) = noCp a ++ noCp b := by
  simp [noCp]

theorem noCp_cmds (q : List Item) :
    noCp (q.map (fun i => Req.cmd i.cmd i.args i.offset)) = q.map (fun i => Req.cmd i.cmd i.args i.offset) := by
  induction q with
  | nil => rfl
  | cons i rest ih =>
    simp only [List.map_cons, noCp, List.filter_cons, notCp, ↓reduceIte]
    exact congrArg _ ih

theorem cpPart_off (c : SCfg) (hr : c.resume = false) (s : SState) (u : Bool) (off : Int) :
    cpPart c s u off = [] := by
  simp [cpPart, hr]

theorem noCp_cpPart (c : SCfg) (s : SState) (u : Bool) (off : Int) : noCp (cpPart c s u off) = [] := by
  unfold cpPart
  split
  · split <;> simp [noCp, notCp]
  · rfl

/-! ### one flush in closed form -/

theorem sendOnce_closed (c : SCfg) (s : SState) (tb up : Bool) (off : Int) (hqi : QInv s) :
    (sendOnce c s tb up off).1 =
      { s with queue := [], qbytes := 0, cpInDbs := cpInAfter c s (up && decide (0 ≤ off)),
               connDb := dbAfter s.connDb s.queue } ∧
    bodies (optToList (sendOnce c s tb up off).2) =
      s.queue.map (fun i => Req.cmd i.cmd i.args i.offset) ++ cpPart c s (up && decide (0 ≤ off)) off := by
  unfold sendOnce
  simp only
  generalize (up && decide (0 ≤ off)) = u
  split
  · rename_i h
    simp only [Bool.and_eq_true, List.isEmpty_iff, Bool.not_eq_true'] at h
    obtain ⟨⟨hq, _⟩, hu⟩ := h
    have hb := hqi hq
    subst hu
    refine ⟨?_, ?_⟩
    · cases s
      simp only at hq hb
      subst hq hb
      simp [cpInAfter, dbAfter]
    · simp [optToList, bodies, hq, cpPart]
  · split
    · rename_i _ h
      have hall : (if tb = true then [Req.multi] else []) = [] ∧ s.queue = [] ∧ cpPart c s u off = [] := by
        simp only [sendReqs, List.isEmpty_iff, List.append_eq_nil_iff, List.map_eq_nil_iff] at h
        exact ⟨h.1.1.1, h.1.1.2, h.1.2⟩
      obtain ⟨_, hq, hcp⟩ := hall
      have hb := hqi hq
      have hur : (u && c.resume) = false := by
        cases hx : (u && c.resume) with
        | false => rfl
        | true => simp [cpPart, hx] at hcp
      refine ⟨?_, ?_⟩
      · cases s
        simp only at hq hb
        subst hq hb
        simp [cpInAfter, dbAfter, hur]
      · simp [optToList, bodies, hq, hcp]
    · simp only [optToList, bodies, List.flatMap_cons, List.flatMap_nil, List.append_nil, stripB_sendReqs]
      constructor <;> first | trivial | rfl

/-! ### the two loops in lock step -/

/-- what one stretch of the two loops has in common -/
def SimOut (r r' : SState × List Batch) (t : TState) (m m' : Mem) : Prop :=
  (∃ k', r'.1 = wk r.1 k') ∧ bodies r.2 = noCp (bodies r'.2) ∧ memOf t m (bodies r'.2) = m' ∧ QInv r.1

theorem sendOnce_sim (c : SCfg) (hr : c.resume = false) (s : SState) (hqi : QInv s) (k : List Int)
    (tb up upG : Bool) (off : Int) (t : TState) (m : Mem)
    (hcur : t.cur = s.connDb) (hsel : ∀ i ∈ s.queue, SelOK i) :
    (∃ k', (sendOnce (resumeOn c) (wk s k) tb upG off).1 = wk (sendOnce c s tb up off).1 k') ∧
    bodies (optToList (sendOnce c s tb up off).2) =
      noCp (bodies (optToList (sendOnce (resumeOn c) (wk s k) tb upG off).2)) ∧
    memOf t m (bodies (optToList (sendOnce (resumeOn c) (wk s k) tb upG off).2)) = memOnce c s upG off m ∧
    QInv (sendOnce c s tb up off).1 := by
  obtain ⟨h1, h2⟩ := sendOnce_closed c s tb up off hqi
  obtain ⟨h1', h2'⟩ := sendOnce_closed (resumeOn c) (wk s k) tb upG off hqi
  refine ⟨⟨cpInAfter (resumeOn c) (wk s k) (upG && decide (0 ≤ off)), ?_⟩, ?_, ?_, ?_⟩
  · rw [h1', h1]; rfl
  · rw [h2, h2', cpPart_off c hr, List.append_nil, noCp_append, noCp_cpPart, List.append_nil]
    exact (noCp_cmds s.queue).symm
  · rw [h2']
    show memOf t m (s.queue.map (fun i => Req.cmd i.cmd i.args i.offset) ++ _) = _
    rw [memOf_append, memOf_cmds]
    obtain ⟨_, hcur'⟩ := exec_cmds s.queue hsel t
    generalize (s.queue.map (fun i => Req.cmd i.cmd i.args i.offset)).foldl execReq t = t1 at hcur'
    have hdb : t1.cur = dbAfter s.connDb s.queue := by rw [hcur', hcur]
    unfold memOnce cpPart
    cases hu : (upG && decide (0 ≤ off))
    · simp [memOf, hr]
    · simp only [resumeOn, Bool.and_self, ↓reduceIte, hr, Bool.not_false, Bool.and_true]
      split
      · simp [memOf, memStep, hdb]
      · simp [memOf, memStep, execReq, hdb]
  · rw [h1]; intro _; rfl

def mark (s : SState) : SState := { s with needFlush := true }
def fin (s : SState) : SState := { s with needFlush := false, inTxn := false }

def sizeHit (c : SCfg) (s : SState) : Bool :=
  !s.needFlush && !s.inTxn && (decide (c.batchCount ≤ s.queue.length) || decide (c.batchBytes ≤ s.qbytes))

theorem tail_hit (c : SCfg) (s : SState) (tb up : Bool) (h : sizeHit c s = true) :
    tail c s tb up [] = (fin (sendOnce c (mark s) tb up s.lastOffset).1,
                         optToList (sendOnce c (mark s) tb up s.lastOffset).2) := by
  unfold sizeHit at h
  unfold tail
  simp only [h, ↓reduceIte, List.nil_append]
  rfl

theorem tail_flag (c : SCfg) (s : SState) (tb up : Bool) (h : sizeHit c s = false) (hn : s.needFlush = true) :
    tail c s tb up [] = (fin (sendOnce c s tb up s.lastOffset).1,
                         optToList (sendOnce c s tb up s.lastOffset).2) := by
  unfold tail
  simp only [hn, Bool.not_true, Bool.false_and, Bool.false_eq_true, ↓reduceIte, List.nil_append]
  rfl

theorem tail_none (c : SCfg) (s : SState) (tb up : Bool) (h : sizeHit c s = false) (hn : s.needFlush = false) :
    tail c s tb up [] = (s, []) := by
  unfold sizeHit at h
  rw [hn] at h
  unfold tail
  simp only [hn, h, Bool.false_eq_true, ↓reduceIte]

theorem tailM_hit (c : SCfg) (s : SState) (upG : Bool) (m : Mem) (h : sizeHit c s = true) :
    tailM c s upG m = memOnce c (mark s) upG s.lastOffset m := by
  unfold sizeHit at h
  unfold tailM
  simp only [h, ↓reduceIte]
  rfl

theorem tailM_flag (c : SCfg) (s : SState) (upG : Bool) (m : Mem) (h : sizeHit c s = false)
    (hn : s.needFlush = true) : tailM c s upG m = memOnce c s upG s.lastOffset m := by
  unfold tailM
  simp only [hn, Bool.not_true, Bool.false_and, Bool.false_eq_true, ↓reduceIte]

theorem tailM_none (c : SCfg) (s : SState) (upG : Bool) (m : Mem) (h : sizeHit c s = false)
    (hn : s.needFlush = false) : tailM c s upG m = m := by
  unfold sizeHit at h
  rw [hn] at h
  unfold tailM
  simp only [hn, h, Bool.false_eq_true, ↓reduceIte]

theorem bodies_nil : bodies ([] : List Batch) = [] := rfl

/-- the end-of-iteration flush in lock step -/
theorem tail_sim (c : SCfg) (hr : c.resume = false) (s : SState) (hqi : QInv s) (k : List Int)
    (tb up upG : Bool) (t : TState) (m : Mem)
    (hcur : t.cur = s.connDb) (hsel : ∀ i ∈ s.queue, SelOK i) :
    SimOut (tail c s tb up []) (tail (resumeOn c) (wk s k) tb upG []) t m (tailM c s upG m) := by
  cases hh : sizeHit c s
  · cases hn : s.needFlush
    · rw [tail_none c s tb up hh hn, tail_none (resumeOn c) (wk s k) tb upG hh hn, tailM_none c s upG m hh hn]
      exact ⟨⟨k, rfl⟩, rfl, rfl, hqi⟩
    · rw [tail_flag c s tb up hh hn, tail_flag (resumeOn c) (wk s k) tb upG hh hn, tailM_flag c s upG m hh hn]
      obtain ⟨⟨k', a1⟩, a2, a3, a4⟩ := sendOnce_sim c hr s hqi k tb up upG s.lastOffset t m hcur hsel
      refine ⟨⟨k', ?_⟩, a2, a3, ?_⟩
      · exact congrArg fin a1
      · intro hq; exact a4 hq
  · rw [tail_hit c s tb up hh, tail_hit (resumeOn c) (wk s k) tb upG hh, tailM_hit c s upG m hh]
    obtain ⟨⟨k', a1⟩, a2, a3, a4⟩ := sendOnce_sim c hr (mark s) hqi k tb up upG s.lastOffset t m hcur hsel
    refine ⟨⟨k', ?_⟩, a2, a3, ?_⟩
    · exact congrArg fin a1
    · intro hq; exact a4 hq

/-- the flush before a barrier / EXEC in lock step -/
theorem preFlush_sim (c : SCfg) (hr : c.resume = false) (s : SState) (hqi : QInv s) (k : List Int)
    (tx : Txn) (nf : Bool) (prev : Int) (t : TState) (m : Mem)
    (hcur : t.cur = s.connDb) (hsel : ∀ i ∈ s.queue, SelOK i) :
    SimOut (preFlush c s tx nf prev) (preFlush (resumeOn c) (wk s k) tx nf prev) t m
      (preFlushM c s tx nf prev m) := by
  unfold preFlush preFlushM
  cases nf
  · simp only [Bool.false_eq_true, ↓reduceIte]
    exact ⟨⟨k, rfl⟩, rfl, rfl, hqi⟩
  · simp only [↓reduceIte]
    obtain ⟨⟨k', a1⟩, a2, a3, a4⟩ := sendOnce_sim c hr s hqi k c.txnMode (c.resume && c.txnMode) c.txnMode
      (if tx = Txn.commit then s.lastOffset else prev) t m hcur hsel
    refine ⟨⟨k', ?_⟩, a2, a3, ?_⟩
    · exact congrArg fin a1
    · intro hq; exact a4 hq

theorem absorb_wk (s : SState) (k : List Int) (tx : Txn) (it : Item) :
    absorb (wk s k) tx it = wk (absorb s tx it) k := by
  unfold absorb
  split
  · rfl
  · split <;> rfl

theorem absorb_qinv (s : SState) (tx : Txn) (it : Item) (h : QInv s) : QInv (absorb s tx it) := by
  unfold absorb
  split
  · intro hq; simp [enqueue] at hq
  · split
    · exact h
    · exact h

theorem absorb_sel (s : SState) (tx : Txn) (it : Item) (h : ∀ i ∈ s.queue, SelOK i) (hit : SelOK it) :
    ∀ i ∈ (absorb s tx it).queue, SelOK i := by
  unfold absorb
  split
  · intro i hi
    simp only [enqueue, List.mem_append, List.mem_singleton] at hi
    rcases hi with h' | h'
    · exact h i h'
    · rw [h']; exact hit
  · split
    · exact h
    · exact h

theorem absorb_connDb (s : SState) (tx : Txn) (it : Item) : (absorb s tx it).connDb = s.connDb := by
  unfold absorb
  split
  · rfl
  · split <;> rfl

/-- **One iteration of the two loops in lock step.** -/
theorem step_sim (c : SCfg) (hr : c.resume = false) (s : SState) (hqi : QInv s) (k : List Int)
    (ev : Ev) (t : TState) (m : Mem)
    (hc : Coupled (wk s k) t) (hsel : ∀ i ∈ s.queue, SelOK i) (hev : ∀ it, ev = .item it → SelOK it) :
    SimOut (step c s ev) (step (resumeOn c) (wk s k) ev) t m (stepM c s m ev) := by
  have hcur : t.cur = s.connDb := hc.1
  have plain : ∀ (s0 : SState) tb up upG, s0.connDb = s.connDb → QInv s0 → (∀ i ∈ s0.queue, SelOK i) →
      SimOut (tail c s0 tb up []) (tail (resumeOn c) (wk s0 k) tb upG []) t m (tailM c s0 upG m) :=
    fun s0 tb up upG h1 h2 h3 => tail_sim c hr s0 h2 k tb up upG t m (by rw [h1]; exact hcur) h3
  have htxm : (resumeOn c).txnMode = c.txnMode := rfl
  have hres : (resumeOn c).resume = true := rfl
  cases ev with
  | item it =>
    have hit := hev it rfl
    simp only [step, stepM, wk_lastOffset]
    split
    · exact ⟨⟨k, rfl⟩, rfl, rfl, hqi⟩
    · unfold stepItem stepItemM
      simp only [htxm, hres, wk_txn]
      by_cases htx : c.txnMode = true
      · -- transactional mode: flush what was queued, absorb, end-of-iteration flush
        simp only [htx, ↓reduceIte]
        unfold stepItemTxn stepItemTxnM
        simp only [htxm, hres, htx]
        change SimOut _ (tail (resumeOn c) (absorb (preFlush (resumeOn c)
            (wk ({ s with lastOffset := it.offset, txn := (txnStatus it.cmd s.txn).1,
                          needFlush := (txnStatus it.cmd s.txn).2 } : SState) k)
            (txnStatus it.cmd s.txn).1 (txnStatus it.cmd s.txn).2 s.lastOffset).1 (txnStatus it.cmd s.txn).1 it)
          true true (preFlush (resumeOn c)
            (wk ({ s with lastOffset := it.offset, txn := (txnStatus it.cmd s.txn).1,
                          needFlush := (txnStatus it.cmd s.txn).2 } : SState) k)
            (txnStatus it.cmd s.txn).1 (txnStatus it.cmd s.txn).2 s.lastOffset).2) t m _
        generalize hs0 : ({ s with lastOffset := it.offset, txn := (txnStatus it.cmd s.txn).1, needFlush := (txnStatus it.cmd s.txn).2 } : SState) = s0
        have hq0 : QInv s0 := by rw [← hs0]; exact hqi
        have hsel0 : ∀ i ∈ s0.queue, SelOK i := by rw [← hs0]; exact hsel
        have hcur0 : t.cur = s0.connDb := by rw [← hs0]; exact hcur
        have hc0 : Coupled (wk s0 k) t := coupled_congr hc (by rw [← hs0]; rfl) (by rw [← hs0]; rfl)
        obtain ⟨⟨k1, p1⟩, p2, p3, p4⟩ := preFlush_sim c hr s0 hq0 k (txnStatus it.cmd s.txn).1
          (txnStatus it.cmd s.txn).2 s.lastOffset t m hcur0 hsel0
        obtain ⟨_, c2, c3⟩ := preFlush_coupled (resumeOn c) (wk s0 k) (txnStatus it.cmd s.txn).1
          (txnStatus it.cmd s.txn).2 s.lastOffset t hc0 hsel0
        generalize preFlush c s0 (txnStatus it.cmd s.txn).1 (txnStatus it.cmd s.txn).2 s.lastOffset = pf at p1 p2 p3 p4 ⊢
        generalize preFlush (resumeOn c) (wk s0 k) (txnStatus it.cmd s.txn).1 (txnStatus it.cmd s.txn).2 s.lastOffset = pf' at p1 p2 p3 c2 c3 ⊢
        generalize preFlushM c s0 (txnStatus it.cmd s.txn).1 (txnStatus it.cmd s.txn).2 s.lastOffset m = m1 at p3 ⊢
        have hsel1 : ∀ i ∈ pf.1.queue, SelOK i := by
          intro i hi
          apply c3 i
          rw [p1]; exact hi
        have hcur1 : ((bodies pf'.2).foldl execReq t).cur = (absorb pf.1 (txnStatus it.cmd s.txn).1 it).connDb := by
          rw [absorb_connDb, c2.1, p1]; rfl
        obtain ⟨⟨k2, q1⟩, q2, q3, q4⟩ := tail_sim c hr (absorb pf.1 (txnStatus it.cmd s.txn).1 it)
          (absorb_qinv _ _ _ p4) k1 true (c.resume && true) true
          ((bodies pf'.2).foldl execReq t) m1 hcur1 (absorb_sel _ _ _ hsel1 hit)
        rw [tail_out' c, tail_out' (resumeOn c)]
        rw [p1, absorb_wk]
        refine ⟨⟨k2, q1⟩, ?_, ?_, q4⟩
        · simp only [bodies_append, noCp_append]
          rw [p2, q2]
        · simp only [bodies_append]
          rw [memOf_append, p3]
          exact q3
      · -- ticker mode
        have htx0 : c.txnMode = false := by simpa using htx
        simp only [htx0, Bool.false_eq_true, ↓reduceIte]
        unfold stepItemPlain stepItemPlainM
        simp only [htxm, hres, htx0]
        split
        · exact ⟨⟨k, rfl⟩, rfl, rfl, hqi⟩
        · split
          · exact plain { s with lastOffset := it.offset, txn := (txnStatus it.cmd s.txn).1, needFlush := true } _ _ _ rfl (by intro hq; exact hqi hq) hsel
          · refine plain (enqueue { s with lastOffset := it.offset, txn := (txnStatus it.cmd s.txn).1, needFlush := (txnStatus it.cmd s.txn).2 } it) _ _ _ rfl (by intro hq; simp [enqueue] at hq) ?_
            intro i hi
            simp only [enqueue, List.mem_append, List.mem_singleton] at hi
            rcases hi with h | h
            · exact hsel i h
            · rw [h]; exact hit
  | batchTick =>
    simp only [step, stepM, htxm, hres, wk_needFlush, wk_inTxn, wk_queue]
    by_cases hb : (!s.needFlush && !s.inTxn && !s.queue.isEmpty) = true
    · simp only [hb, ↓reduceIte]
      exact plain { s with needFlush := true } _ _ _ rfl (by intro hq; exact hqi hq) hsel
    · simp only [hb, ↓reduceIte]
      exact plain s _ _ _ rfl hqi hsel
  | keepaliveTick =>
    simp only [step, stepM, htxm, hres, wk_needFlush, wk_inTxn, wk_queue, wk_lastOffset]
    split
    · split
      · refine plain { s with queue := [pingItem s.lastOffset], needFlush := true } _ _ _ rfl (by intro hq; simp at hq) ?_
        intro i hi
        simp only [List.mem_singleton] at hi
        rw [hi]
        intro h
        have : bPing ≠ bSelect := by decide
        exact absurd h this
      · exact plain { s with needFlush := true } _ _ _ rfl (by intro hq; exact hqi hq) hsel
    · exact plain s _ _ _ rfl hqi hsel
  | cpTick =>
    simp only [step, stepM, htxm, hres, wk_needFlush, wk_inTxn, wk_queue]
    split
    · exact plain { s with needFlush := true } _ _ _ rfl (by intro hq; exact hqi hq) hsel
    · exact plain s _ _ _ rfl hqi hsel
  | done =>
    simp only [step, stepM, htxm, hres, wk_needFlush, wk_inTxn, wk_queue]
    split
    · exact plain { s with needFlush := true } _ _ _ rfl (by intro hq; exact hqi hq) hsel
    · exact plain s _ _ _ rfl hqi hsel

theorem run_cons_done (c : SCfg) (s : SState) (rest : List Ev) :
    run c s (Ev.done :: rest) = step c s .done := by
  simp [run]

theorem run_cons_ne (c : SCfg) (s : SState) (ev : Ev) (rest : List Ev) (h : ev ≠ .done) :
    run c s (ev :: rest) =
      ((run c (step c s ev).1 rest).1, (step c s ev).2 ++ (run c (step c s ev).1 rest).2) := by
  simp [run, h]

/-- **The whole run in lock step**: the batches of the resumable twin are those of
    `c` with the checkpoint requests added, and `setMemCP` assigned last exactly
    where the twin's wire has its last `<rid>_offset`, with the database the
    connection is in there. -/
theorem run_sim (c : SCfg) (hr : c.resume = false) (evs : List Ev) :
    ∀ (s : SState) (k : List Int) (t : TState) (m : Mem), QInv s → Coupled (wk s k) t →
      (∀ i ∈ s.queue, SelOK i) → (∀ ev ∈ evs, ∀ it, ev = .item it → SelOK it) →
      bodies (run c s evs).2 = noCp (bodies (run (resumeOn c) (wk s k) evs).2) ∧
      memOf t m (bodies (run (resumeOn c) (wk s k) evs).2) = runM c s m evs ∧
      (run (resumeOn c) (wk s k) evs).1.queue = (run c s evs).1.queue := by
  induction evs with
  | nil => intro s k t m _ _ _ _; exact ⟨rfl, rfl, rfl⟩
  | cons ev rest ih =>
    intro s k t m hqi hc hsel hev
    obtain ⟨⟨k', a1⟩, a2, a3, a4⟩ := step_sim c hr s hqi k ev t m hc hsel (hev ev (List.mem_cons_self ..))
    obtain ⟨_, b2, b3⟩ := step_coupled (resumeOn c) (wk s k) ev t hc hsel (hev ev (List.mem_cons_self ..))
    by_cases hd : ev = Ev.done
    · subst hd
      rw [run_cons_done, run_cons_done]
      simp only [runM, ↓reduceIte]
      exact ⟨a2, a3, by rw [a1]; rfl⟩
    · rw [run_cons_ne c s ev rest hd, run_cons_ne (resumeOn c) (wk s k) ev rest hd]
      simp only [runM, hd, ↓reduceIte, bodies_append, noCp_append]
      rw [a1] at b2 b3 ⊢
      obtain ⟨i1, i2, i3⟩ := ih (step c s ev).1 k' ((bodies (step (resumeOn c) (wk s k) ev).2).foldl execReq t)
        (stepM c s m ev) a4 b2 b3 (fun e he => hev e (List.mem_cons_of_mem _ he))
      refine ⟨by rw [a2, i1], ?_, i3⟩
      rw [memOf_append, a3]
      exact i2

/-! ### reading the position off the twin's wire -/

/-- what `memOf` found: nothing written (the position is the old one), or the LAST
    `<rid>_offset` of the list, with the database the connection is in there -/
theorem memOf_cons (r : Req) (W : List Req) (t : TState) (m : Mem) :
    memOf t m (r :: W) = memOf (execReq t r) (memStep (t, m) r).2 W := rfl

theorem memOf_split (W : List Req) : ∀ (t : TState) (m : Mem),
    (Sender.cpOffsetsB W = [] ∧ memOf t m W = m) ∨
    ∃ E1 E2, W = E1 ++ Req.cpOffset (memOf t m W).off :: E2 ∧ Sender.cpOffsetsB E2 = [] ∧
      (E1.foldl execReq t).cur = (memOf t m W).db := by
  induction W with
  | nil => intro t m; exact Or.inl ⟨rfl, rfl⟩
  | cons r W ih =>
    intro t m
    rw [memOf_cons]
    rcases ih (execReq t r) (memStep (t, m) r).2 with ⟨h1, h2⟩ | ⟨E1, E2, h1, h2, h3⟩
    · rw [h2]
      cases r with
      | cpOffset o =>
        right
        exact ⟨[], W, rfl, h1, rfl⟩
      | cmd n a off => left; exact ⟨by simpa [Sender.cpOffsetsB, cpOfReq] using h1, rfl⟩
      | multi => left; exact ⟨by simpa [Sender.cpOffsetsB, cpOfReq] using h1, rfl⟩
      | exec => left; exact ⟨by simpa [Sender.cpOffsetsB, cpOfReq] using h1, rfl⟩
      | cpMeta => left; exact ⟨by simpa [Sender.cpOffsetsB, cpOfReq] using h1, rfl⟩
    · right
      refine ⟨r :: E1, E2, ?_, h2, ?_⟩
      · rw [List.cons_append, ← h1]
      · simpa using h3

/-- executing a request: the data and the selected database do not depend on the checkpoint records -/
theorem execReq_same (r : Req) (a b : TState) (h1 : a.applied = b.applied) (h2 : a.cur = b.cur) :
    (execReq a r).applied = (execReq b r).applied ∧ (execReq a r).cur = (execReq b r).cur := by
  cases r with
  | cpMeta => exact ⟨by simpa [execReq] using h1, by simpa [execReq] using h2⟩
  | cpOffset o => exact ⟨by simpa [execReq] using h1, by simpa [execReq] using h2⟩
  | multi => exact ⟨by simpa [execReq] using h1, by simpa [execReq] using h2⟩
  | exec => exact ⟨by simpa [execReq] using h1, by simpa [execReq] using h2⟩
  | cmd n a off =>
    simp only [execReq]
    split
    · split
      · split
        · exact ⟨h1, rfl⟩
        · exact ⟨h1, h2⟩
      · exact ⟨h1, h2⟩
    · split
      · exact ⟨h1, h2⟩
      · exact ⟨by simp [h1, h2], h2⟩

theorem foldl_execReq_same (q : List Req) : ∀ (a b : TState), a.applied = b.applied → a.cur = b.cur →
    (q.foldl execReq a).applied = (q.foldl execReq b).applied ∧ (q.foldl execReq a).cur = (q.foldl execReq b).cur := by
  induction q with
  | nil => intro a b h1 h2; exact ⟨h1, h2⟩
  | cons r rest ih =>
    intro a b h1 h2
    obtain ⟨e1, e2⟩ := execReq_same r a b h1 h2
    exact ih _ _ e1 e2

/-- two targets that differ in their checkpoint records only -/
def SameButCps (a b : TState) : Prop := a.applied = b.applied ∧ a.cur = b.cur ∧ a.queued = b.queued

theorem applyReq_same (r : Req) (a b : TState) (h : SameButCps a b) : SameButCps (applyReq a r) (applyReq b r) := by
  obtain ⟨h1, h2, h3⟩ := h
  unfold applyReq
  cases hq : a.queued with
  | some q =>
    have hb : b.queued = some q := by rw [← h3, hq]
    simp only [hb]
    cases r with
    | exec =>
      simp only
      obtain ⟨e1, e2⟩ := foldl_execReq_same q { a with queued := none } { b with queued := none } h1 h2
      exact ⟨e1, e2, by rw [foldl_execReq_queued, foldl_execReq_queued]⟩
    | cmd n x off => exact ⟨h1, h2, rfl⟩
    | multi => exact ⟨h1, h2, rfl⟩
    | cpMeta => exact ⟨h1, h2, rfl⟩
    | cpOffset o => exact ⟨h1, h2, rfl⟩
  | none =>
    have hb : b.queued = none := by rw [← h3, hq]
    simp only [hb]
    cases r with
    | multi => exact ⟨h1, h2, rfl⟩
    | exec =>
      obtain ⟨e1, e2⟩ := execReq_same .exec a b h1 h2
      exact ⟨e1, e2, by rw [execReq_queued, execReq_queued, hq, hb]⟩
    | cmd n x off =>
      obtain ⟨e1, e2⟩ := execReq_same (.cmd n x off) a b h1 h2
      exact ⟨e1, e2, by rw [execReq_queued, execReq_queued, hq, hb]⟩
    | cpMeta =>
      obtain ⟨e1, e2⟩ := execReq_same .cpMeta a b h1 h2
      exact ⟨e1, e2, by rw [execReq_queued, execReq_queued, hq, hb]⟩
    | cpOffset o =>
      obtain ⟨e1, e2⟩ := execReq_same (.cpOffset o) a b h1 h2
      exact ⟨e1, e2, by rw [execReq_queued, execReq_queued, hq, hb]⟩

theorem applyLog_same (W : List Req) : ∀ (a b : TState), SameButCps a b → SameButCps (applyLog a W) (applyLog b W) := by
  induction W with
  | nil => intro a b h; exact h
  | cons r rest ih =>
    intro a b h
    exact ih _ _ (applyReq_same r a b h)

/-- the checkpoint requests touch neither the executed data nor the selected database -/
theorem foldl_noCp (W : List Req) : ∀ (t t' : TState), t.applied = t'.applied → t.cur = t'.cur →
    ((noCp W).foldl execReq t).applied = (W.foldl execReq t').applied ∧
    ((noCp W).foldl execReq t).cur = (W.foldl execReq t').cur := by
  induction W with
  | nil => intro t t' h1 h2; exact ⟨h1, h2⟩
  | cons r rest ih =>
    intro t t' h1 h2
    cases r with
    | cpMeta => exact ih t _ (by simpa [execReq] using h1) (by simpa [execReq] using h2)
    | cpOffset o => exact ih t _ (by simpa [execReq] using h1) (by simpa [execReq] using h2)
    | multi => exact ih _ _ (by simpa [execReq] using h1) (by simpa [execReq] using h2)
    | exec => exact ih _ _ (by simpa [execReq] using h1) (by simpa [execReq] using h2)
    | cmd n a off =>
      have hne : noCp (Req.cmd n a off :: rest) = Req.cmd n a off :: noCp rest := rfl
      rw [hne]
      simp only [List.foldl_cons]
      obtain ⟨e1, e2⟩ := execReq_same (.cmd n a off) t t' h1 h2
      exact ih _ _ e1 e2

end GunYu.Sender
