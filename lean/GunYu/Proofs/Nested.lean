/-
  The parser never nests transactions: for a source stream whose MULTI/EXEC
  brackets are not nested (Redis never propagates a nested MULTI) and pass the
  user's filters, the brackets the parser hands to the sender are not nested
  either -- whatever databases are filtered in between.
-/
import GunYu.Proofs.Restart

namespace GunYu.Sender
open GunYu

/-- no MULTI while a transaction is open; `inT` = currently between MULTI and EXEC -/
def RawNoNested : Bool → List Raw → Prop
  | _, [] => True
  | inT, r :: rest =>
    if r.cmd = bMulti then inT = false ∧ RawNoNested true rest
    else if r.cmd = bExec then RawNoNested false rest
    else RawNoNested inT rest

def ItemsNoNested : Bool → List Item → Prop
  | _, [] => True
  | inT, i :: rest =>
    if i.cmd = bMulti then inT = false ∧ ItemsNoNested true rest
    else if i.cmd = bExec then ItemsNoNested false rest
    else ItemsNoNested inT rest

/-- whatever a step hands over carries the name of the command it read -/
theorem parseStep_emit_cmd (c : PCfg) (s : PState) (r : Raw) (i : Item)
    (h : (parseStep c s r).2 = POut.emit i) : i.cmd = r.cmd := by
  by_cases hp : r.cmd = bPing
  · unfold parseStep at h
    simp only [hp, ↓reduceIte] at h
    cases hf : c.filterCmdKey bPing r.args with
    | none => simp [hf] at h
    | some a =>
      simp only [hf] at h
      cases hb : s.bypass <;> simp [hb] at h
      subst h; exact hp.symm
  · by_cases hs : r.cmd = bSelect
    · have hne : bSelect ≠ bPing := by decide
      unfold parseStep at h
      simp only [hs, hne, ↓reduceIte] at h
      cases ha : r.args with
      | nil => simp [ha] at h
      | cons a rest =>
        cases rest with
        | cons _ _ => simp [ha] at h
        | nil =>
          simp only [ha] at h
          cases hn : atoi? a with
          | none => simp [hn] at h
          | some n =>
            simp only [hn] at h
            cases hdb : c.filterDb n
            · simp only [hdb, Bool.false_eq_true, ↓reduceIte] at h
              cases hf : c.filterCmdKey bSelect [a] with
              | none => simp [hf] at h
              | some x =>
                simp only [hf] at h
                by_cases h0 : 0 ≤ n
                · simp only [h0, ↓reduceIte] at h
                  by_cases hch : (selectDB c s.currentDB n).2 = true
                  · simp only [hch, ↓reduceIte] at h
                    injection h with h; subst h; rw [hs]; rfl
                  · simp [hch] at h
                · simp only [h0, ↓reduceIte] at h
                  injection h with h; subst h; rw [hs]
            · simp [hdb] at h
    · rw [parseStep_data c s r hp hs] at h
      by_cases h1 : c.filterCmd r.cmd = true
      · simp [h1] at h
      · by_cases h2 : r.cmd = bPublish ∧ (r.args.head?.map lower) = some bSentinelHello
        · simp [h1, h2] at h
        · by_cases h3 : s.bypass = true ∧ passBracket s r.cmd = false
          · simp [h1, h2, h3] at h
          · simp only [h1, h2, h3, Bool.false_eq_true, ↓reduceIte] at h
            cases hf : c.filterCmdKey r.cmd r.args with
            | none => rw [hf] at h; simp at h
            | some a =>
              rw [hf] at h
              simp only at h
              injection h with h; subst h; rfl

/-- **The parser's brackets are not nested** when the source's are not and they
    pass the user's filters: the parser's `txnOpen` follows the source. -/
theorem parseAll_noNested (c : PCfg) (raws : List Raw) (s : PState) (b : Bool)
    (hb : s.txnOpen = b) (hraw : RawNoNested b raws)
    (hpass : ∀ r ∈ raws, (r.cmd = bMulti ∨ r.cmd = bExec) →
      c.filterCmd r.cmd = false ∧ (c.filterCmdKey r.cmd r.args).isSome) :
    ItemsNoNested b (parseAll c s raws) := by
  induction raws generalizing s b with
  | nil => simp [parseAll, ItemsNoNested]
  | cons r rest ih =>
    have hpass' : ∀ r' ∈ rest, (r'.cmd = bMulti ∨ r'.cmd = bExec) →
        c.filterCmd r'.cmd = false ∧ (c.filterCmdKey r'.cmd r'.args).isSome :=
      fun r' hr' => hpass r' (List.mem_cons_of_mem _ hr')
    have hmp : bMulti ≠ bPing := by decide
    have hms : bMulti ≠ bSelect := by decide
    have hep : bExec ≠ bPing := by decide
    have hes : bExec ≠ bSelect := by decide
    have hme : bMulti ≠ bExec := by decide
    have hmpub : bMulti ≠ bPublish := by decide
    have hepub : bExec ≠ bPublish := by decide
    simp only [parseAll]
    by_cases hm : r.cmd = bMulti
    · -- MULTI: always handed over (the source is outside a transaction)
      simp only [RawNoNested, hm, ↓reduceIte] at hraw
      obtain ⟨hbf, hrest⟩ := hraw
      obtain ⟨hfc, hfk⟩ := hpass r (List.mem_cons_self ..) (Or.inl hm)
      have hto : s.txnOpen = false := by rw [hb, hbf]
      have hstep := parseStep_data c s r (by rw [hm]; exact hmp) (by rw [hm]; exact hms)
      obtain ⟨a, ha⟩ := Option.isSome_iff_exists.mp hfk
      have hpb : ¬ (s.bypass = true ∧ passBracket s r.cmd = false) := by
        intro ⟨h1, h2⟩
        simp [passBracket, h1, hm, hto] at h2
      have hpubf : ¬ (r.cmd = bPublish ∧ (r.args.head?.map lower) = some bSentinelHello) := by
        intro h; exact hmpub (hm ▸ h.1)
      rw [hstep]
      simp only [hfc, Bool.false_eq_true, ↓reduceIte, hpubf, hpb, ha]
      simp only [ItemsNoNested, hm, ↓reduceIte]
      refine ⟨hbf, ih _ true ?_ hrest hpass'⟩
      simp [sent, hm]
    · by_cases he : r.cmd = bExec
      · simp only [RawNoNested, he, hme.symm, ↓reduceIte] at hraw
        obtain ⟨hfc, hfk⟩ := hpass r (List.mem_cons_self ..) (Or.inr he)
        have hstep := parseStep_data c s r (by rw [he]; exact hep) (by rw [he]; exact hes)
        obtain ⟨a, ha⟩ := Option.isSome_iff_exists.mp hfk
        have hpubf : ¬ (r.cmd = bPublish ∧ (r.args.head?.map lower) = some bSentinelHello) := by
          intro h; exact hepub (he ▸ h.1)
        rw [hstep]
        simp only [hfc, Bool.false_eq_true, ↓reduceIte, hpubf]
        by_cases h3 : s.bypass = true ∧ passBracket s r.cmd = false
        · -- withheld: no forwarded transaction was open
          simp only [h3, and_self, ↓reduceIte]
          have hto : s.txnOpen = false := by
            have := h3.2
            simp only [passBracket, h3.1, he, hme.symm, decide_false, Bool.false_and, decide_true,
              Bool.true_and, Bool.false_or] at this
            exact this
          have : b = false := by rw [← hb, hto]
          subst this
          exact ih s false hto hraw hpass'
        · simp only [h3, ↓reduceIte, ha]
          simp only [ItemsNoNested, he, hme.symm, ↓reduceIte]
          exact ih _ false (by simp [sent, he, hme.symm]) hraw hpass'
      · -- any other command: whatever is handed over is not a bracket, `txnOpen` unchanged
        simp only [RawNoNested, hm, he, ↓reduceIte] at hraw
        cases hps : parseStep c s r with
        | mk s' o =>
          cases o with
          | fail => simp [ItemsNoNested]
          | skip =>
            simp only
            have hto : s'.txnOpen = s.txnOpen := parseStep_skip_txnOpen c s r s' (by rw [hps])
            exact ih s' b (by rw [hto, hb]) hraw hpass'
          | emit i =>
            simp only
            have hcmd : i.cmd = r.cmd := parseStep_emit_cmd c s r i (by rw [hps])
            obtain ⟨_, _, hto⟩ := parseStep_emit_off c s r i (by rw [hps])
            rw [hps] at hto
            simp only [hcmd, hm, he, ↓reduceIte] at hto
            simp only [ItemsNoNested, hcmd, hm, he, ↓reduceIte]
            exact ih s' b (by rw [hto, hb]) hraw hpass'

end GunYu.Sender
