/-
  C05, memory backend — the offered snapshot holds exactly the bytes RECEIVED for
  its announcement (ghost `MRecv`, Model/StoreMemRecv.lean).

  `RecvRel a b bs`: what a (composite) step may do to the snapshot as far as a
  replayable result is concerned — it is the same announcement and its bytes are
  the old bytes followed by `bs`. Every operation other than a new announcement is
  `RecvRel s.rdb s'.rdb (s.rdbAccepted op)`; the invariant `RecvInv` follows.
-/
import GunYu.Model.StoreMemRecv
import GunYu.Proofs.StoreMemSnap

namespace GunYu.Store
open GunYu

def RecvRel (a b : Option MRdb) (bs : Bytes) : Prop :=
  ∀ rd', b = some rd' → rd'.replayable = true →
    ∃ rd, a = some rd ∧ rd.replayable = true ∧ rd'.left = rd.left ∧ rd'.size = rd.size ∧
      mflat rd'.segs = mflat rd.segs ++ bs

theorem RecvRel.refl (a : Option MRdb) : RecvRel a a [] := by
  intro rd' h hrep; exact ⟨rd', h, hrep, rfl, rfl, by simp⟩

theorem RecvRel.of_eq {a b : Option MRdb} (h : b = a) : RecvRel a b [] := by
  subst h; exact RecvRel.refl _

theorem RecvRel.trans {a b c : Option MRdb} {x y : Bytes} (h1 : RecvRel a b x) (h2 : RecvRel b c y) :
    RecvRel a c (x ++ y) := by
  intro rd' h hrep
  obtain ⟨rd, hb, hr, hl, hs, hf⟩ := h2 rd' h hrep
  obtain ⟨rd0, ha, hr0, hl0, hs0, hf0⟩ := h1 rd hb hr
  exact ⟨rd0, ha, hr0, hl.trans hl0, hs.trans hs0, by rw [hf, hf0, List.append_assoc]⟩

theorem RecvRel.trans_nil {a b c : Option MRdb} {x : Bytes} (h1 : RecvRel a b x) (h2 : RecvRel b c []) :
    RecvRel a c x := by
  have := h1.trans h2; simpa using this

theorem RecvRel.nil_trans {a b c : Option MRdb} {x : Bytes} (h1 : RecvRel a b []) (h2 : RecvRel b c x) :
    RecvRel a c x := by
  have := h1.trans h2; simpa using this

theorem RecvRel.to_none (a : Option MRdb) (bs : Bytes) : RecvRel a none bs := by
  intro rd' h; cases h

/-! ### the collector -/

theorem gcOnce_recv {s s' : Mem} (h : s.gcOnce = some s') : RecvRel s.rdb s'.rdb [] := by
  rcases gcOnce_spec h with ⟨first, _, _, _, _, hrdb, _⟩ | ⟨_, _, _, _, r, first, rest, _, _, _, _, hcase⟩
  · exact RecvRel.of_eq hrdb
  · rcases hcase with h1 | ⟨r', h1, _, h3⟩
    · rw [h1]; exact RecvRel.to_none _ _
    · intro rd' h' hrep; rw [h1] at h'; cases h'; rw [h3] at hrep; cases hrep

theorem gcLoop_recv (need fuel : Nat) : ∀ s : Mem, RecvRel s.rdb (Mem.gcLoop need fuel s).rdb [] := by
  induction fuel with
  | zero => intro s; exact RecvRel.refl _
  | succ fuel ih =>
    intro s
    simp only [Mem.gcLoop]
    split
    · cases hg : s.gcOnce with
      | none => exact RecvRel.refl _
      | some s' => exact (gcOnce_recv hg).trans_nil (ih s')
    · exact RecvRel.refl _

theorem gc_recv (s : Mem) (need : Nat) : RecvRel s.rdb (s.gc need).rdb [] := by
  unfold Mem.gc
  split
  · exact RecvRel.refl _
  · exact gcLoop_recv need _ s

theorem ensure_recv (s : Mem) (need : Nat) : RecvRel s.rdb (s.ensure need).1.rdb [] := by
  unfold Mem.ensure
  split
  · exact RecvRel.refl _
  · exact gc_recv s need

/-! ### the stream writer leaves the snapshot to the collector -/

theorem appendAofLoop_recv (fuel : Nat) : ∀ (s : Mem) (buf : Bytes) (done : Nat),
    RecvRel s.rdb (Mem.appendAofLoop fuel s buf done).1.rdb [] := by
  induction fuel with
  | zero => intro s buf done; exact RecvRel.refl _
  | succ fuel ih =>
    intro s buf done
    rw [appendAofLoop_succ]
    split
    · exact RecvRel.refl _
    · cases haw : s.aofW with
      | none => exact RecvRel.refl _
      | some cur =>
        dsimp only
        cases hf : mFind s.segs cur with
        | none => exact RecvRel.refl _
        | some seg =>
          dsimp only
          have h1 : (aofRotate s cur seg (pieceSpace s.logSize seg.data.length buf.length).2).1.rdb = s.rdb := by
            unfold aofRotate; split <;> rfl
          have h2 := ensure_recv (aofRotate s cur seg (pieceSpace s.logSize seg.data.length buf.length).2).1
            (pieceSpace s.logSize seg.data.length buf.length).1
          rw [h1] at h2
          split
          · exact h2
          · exact h2.trans_nil (ih _ _ _)

theorem finishAof_recv (s : Mem) (cur : Nat) (isCurrent : Bool) : RecvRel s.rdb (s.finishAof cur isCurrent).rdb [] := by
  unfold Mem.finishAof
  dsimp only
  cases mFind (mUpdate s.segs cur (fun g => { g with closed := true })) cur with
  | none => exact gc_recv _ 0
  | some g =>
    dsimp only
    split
    · exact gc_recv _ 0
    · exact gc_recv _ 0

/-! ### the snapshot writer -/

theorem take_piece (buf : Bytes) (sp k : Nat) :
    buf.take sp ++ (buf.drop sp).take k = buf.take ((buf.take sp).length + k) := by
  by_cases h : sp ≤ buf.length
  · rw [List.length_take, Nat.min_eq_left h, List.take_add]
  · have h' : buf.length ≤ sp := by omega
    have e1 : buf.take sp = buf := List.take_of_length_le h'
    have e2 : buf.drop sp = [] := List.drop_eq_nil_of_le h'
    rw [e1, e2, List.take_of_length_le (Nat.le_add_right _ _)]
    simp

theorem rdbRotate_recv (s : Mem) (r : MRdb) (seg : MSeg) (rotate : Bool) (hr : s.rdb = some r) :
    RecvRel s.rdb (rdbRotate s r seg rotate).1.rdb [] := by
  unfold rdbRotate
  cases rotate with
  | false => exact RecvRel.refl _
  | true =>
    simp only [if_true]
    intro rd' h hrep
    cases h
    refine ⟨r, hr, hrep, rfl, rfl, ?_⟩
    unfold rdbRotated
    dsimp only
    rw [mflat_append, mUpdate_eq_map, mflat_map _ (by intro g; split <;> rfl)]
    simp [mflat]

theorem rdbPut_recv (s2 : Mem) (r2 : MRdb) (piece : Bytes) (hi : MemInv s2) (hr : s2.rdb = some r2)
    (hw : r2.writing = true) : RecvRel (some r2) (rdbPut s2 r2 r2.cur piece).rdb piece := by
  intro rd' h hrep
  unfold rdbPut at h
  dsimp only at h
  cases h
  have hR := hi.rdb
  rw [hr] at hR
  obtain ⟨last, hlast, hls, _⟩ := hR.cur r2 rfl hw
  obtain ⟨init, hinit⟩ := List.getLast?_eq_some_iff.mp hlast
  have hnd := hR.nodup r2 rfl
  have hupd : mUpdate r2.segs r2.cur (fun g => ({ g with data := g.data ++ piece } : MSeg)) =
      init ++ [({ last with data := last.data ++ piece } : MSeg)] := by
    rw [hinit, ← hls]
    rw [hinit] at hnd
    exact mUpdate_last hnd _
  refine ⟨r2, rfl, hrep, rfl, rfl, ?_⟩
  dsimp only
  rw [hupd, hinit]
  simp [mflat]

/-- the append loop of the snapshot writer: the count it returns is the number of
    bytes of `buf` it appended, and a replayable result holds the old bytes followed
    by exactly that prefix of `buf` -/
theorem appendRdbLoop_recv' (fuel : Nat) : ∀ (s : Mem) (buf : Bytes) (done : Nat) (a : Option MRdb) (x : Bytes),
    MemInv s → RecvRel a s.rdb x →
    done ≤ (Mem.appendRdbLoop fuel s buf done).2.1 ∧
    RecvRel a (Mem.appendRdbLoop fuel s buf done).1.rdb
      (x ++ buf.take ((Mem.appendRdbLoop fuel s buf done).2.1 - done)) := by
  induction fuel with
  | zero =>
    intro s buf done a x _ h0
    simp only [Mem.appendRdbLoop, Nat.sub_self, List.take_zero, List.append_nil]
    exact ⟨Nat.le_refl _, h0⟩
  | succ fuel ih =>
    intro s buf done a x hi h0
    have stop : ∀ s' : Mem, RecvRel a s'.rdb x → ∀ b : Bool,
        done ≤ ((s', done, b) : Mem × Nat × Bool).2.1 ∧
          RecvRel a ((s', done, b) : Mem × Nat × Bool).1.rdb
            (x ++ buf.take (((s', done, b) : Mem × Nat × Bool).2.1 - done)) := by
      intro s' h b
      simp only [Nat.sub_self, List.take_zero, List.append_nil]
      exact ⟨Nat.le_refl _, h⟩
    rw [appendRdbLoop_succ]
    split
    · exact stop s h0 false
    · cases hr : s.rdb with
      | none => exact stop s h0 false
      | some r =>
        dsimp only
        cases hw : r.writing with
        | false => exact stop s h0 false
        | true =>
          simp only [Bool.not_true, Bool.false_eq_true, if_false]
          cases hf : mFind r.segs r.cur with
          | none => exact stop s h0 false
          | some seg =>
            dsimp only
            obtain ⟨h1, e1, w1, _, _, _⟩ :=
              rdbRotate_inv s r seg (pieceSpace s.logSize seg.data.length buf.length).2 hi hr hw
            have r1 := rdbRotate_recv s r seg (pieceSpace s.logSize seg.data.length buf.length).2 hr
            obtain ⟨h2, f2⟩ := ensure_inv _ (pieceSpace s.logSize seg.data.length buf.length).1 h1
            have r2' := (h0.trans_nil r1).trans_nil (ensure_recv (rdbRotate s r seg (pieceSpace s.logSize seg.data.length buf.length).2).1
              (pieceSpace s.logSize seg.data.length buf.length).1)
            split
            · exact stop _ r2' true
            · cases hr2 : ((rdbRotate s r seg (pieceSpace s.logSize seg.data.length buf.length).2).1.ensure
                  (pieceSpace s.logSize seg.data.length buf.length).1).1.rdb with
              | none => exact stop _ r2' true
              | some q =>
                dsimp only
                have hcw : q.cur = (rdbRotate s r seg (pieceSpace s.logSize seg.data.length buf.length).2).2.cur ∧
                    q.writing = true := by
                  rcases f2.rdb with h | h | ⟨a, a', ha, ha', _, hc, hwq, _⟩
                  · rw [hr2, e1] at h; cases h; exact ⟨rfl, w1⟩
                  · rw [hr2] at h; cases h
                  · rw [e1] at ha; cases ha
                    rw [hr2] at ha'; cases ha'
                    exact ⟨hc, by rw [hwq]; exact w1⟩
                rw [← hcw.1]
                obtain ⟨h3, _⟩ := rdbPut_inv _ q (buf.take (pieceSpace s.logSize seg.data.length buf.length).1) h2 hr2 hcw.2
                have r3 := rdbPut_recv _ q (buf.take (pieceSpace s.logSize seg.data.length buf.length).1) h2 hr2 hcw.2
                rw [← hr2] at r3
                obtain ⟨hle, r4⟩ := ih _ (buf.drop (pieceSpace s.logSize seg.data.length buf.length).1)
                  (done + (buf.take (pieceSpace s.logSize seg.data.length buf.length).1).length) a
                  (x ++ buf.take (pieceSpace s.logSize seg.data.length buf.length).1) h3 (r2'.trans r3)
                refine ⟨by omega, ?_⟩
                rw [List.append_assoc, take_piece] at r4
                have e : (buf.take (pieceSpace s.logSize seg.data.length buf.length).1).length +
                    ((Mem.appendRdbLoop fuel
                      (rdbPut ((rdbRotate s r seg (pieceSpace s.logSize seg.data.length buf.length).2).1.ensure
                        (pieceSpace s.logSize seg.data.length buf.length).1).1 q q.cur
                        (buf.take (pieceSpace s.logSize seg.data.length buf.length).1))
                      (buf.drop (pieceSpace s.logSize seg.data.length buf.length).1)
                      (done + (buf.take (pieceSpace s.logSize seg.data.length buf.length).1).length)).2.1 -
                      (done + (buf.take (pieceSpace s.logSize seg.data.length buf.length).1).length)) =
                    (Mem.appendRdbLoop fuel
                      (rdbPut ((rdbRotate s r seg (pieceSpace s.logSize seg.data.length buf.length).2).1.ensure
                        (pieceSpace s.logSize seg.data.length buf.length).1).1 q q.cur
                        (buf.take (pieceSpace s.logSize seg.data.length buf.length).1))
                      (buf.drop (pieceSpace s.logSize seg.data.length buf.length).1)
                      (done + (buf.take (pieceSpace s.logSize seg.data.length buf.length).1).length)).2.1 - done := by
                  omega
                rw [e] at r4
                exact r4

theorem appendRdbLoop_recv (fuel : Nat) (s : Mem) (buf : Bytes) (hi : MemInv s) :
    RecvRel s.rdb (Mem.appendRdbLoop fuel s buf 0).1.rdb (buf.take (Mem.appendRdbLoop fuel s buf 0).2.1) := by
  have := (appendRdbLoop_recv' fuel s buf 0 s.rdb [] hi (RecvRel.refl _)).2
  simpa using this

theorem finishRdb_recv (s : Mem) (failed : Bool) : RecvRel s.rdb (s.finishRdb failed).rdb [] := by
  intro rd' h hrep
  unfold Mem.finishRdb at h
  cases hr : s.rdb with
  | none => rw [hr] at h; dsimp only at h; rw [hr] at h; cases h
  | some r =>
    rw [hr] at h
    dsimp only at h
    split at h
    · rw [hr] at h; cases h; exact ⟨rd', rfl, hrep, rfl, rfl, by simp⟩
    · split at h
      · cases h
      · cases h
        refine ⟨r, rfl, hrep, rfl, rfl, ?_⟩
        dsimp only
        rw [mUpdate_eq_map, mflat_map _ (by intro g; split <;> rfl)]
        simp

/-! ### every operation -/

theorem open_rdb (s : Mem) (rid off : Nat) : (s.open rid off).1.rdb = s.rdb := by
  unfold Mem.open
  repeat' split
  all_goals rfl

theorem copyStep_rdb (s : Mem) (rid : Nat) : (s.copyStep rid).1.rdb = s.rdb := by
  simp only [Mem.copyStep]
  repeat' split
  all_goals rfl

theorem consume_rdb (s : Mem) (rid n : Nat) : (s.consume rid n).1.rdb = s.rdb := by
  unfold Mem.consume
  repeat' split
  all_goals rfl

theorem closeReader_rdb (s : Mem) (rid : Nat) : (s.closeReader rid).1.rdb = s.rdb := by
  unfold Mem.closeReader
  repeat' split
  all_goals rfl

theorem retry_recv (s : Mem) (hi : MemInv s) : RecvRel s.rdb s.retry.1.rdb (s.rdbAccepted .retryAppend) := by
  unfold Mem.retry Mem.rdbAccepted
  cases hpa : s.pendA with
  | some buf =>
    dsimp only
    cases haw : s.aofW with
    | none => exact RecvRel.refl _
    | some cur =>
      dsimp only
      have h1 := appendAofLoop_recv (buf.length + 1) s buf 0
      split <;> exact h1
  | none =>
    dsimp only
    cases hpr : s.pendR with
    | none => exact RecvRel.refl _
    | some buf =>
      dsimp only
      cases hr : s.rdb with
      | none => exact RecvRel.refl _
      | some r =>
        dsimp only
        cases hw : r.writing with
        | false => simp only [Bool.not_false, if_true]; exact RecvRel.refl _
        | true =>
          simp only [Bool.not_true, Bool.false_eq_true, if_false]
          have h1 := appendRdbLoop_recv (buf.length + 1) s buf hi
          rw [hr] at h1
          split
          · exact h1
          · split
            · split
              · exact h1.trans_nil (finishRdb_recv _ false)
              · exact h1
            · exact h1

theorem step_recv (s : Mem) (op : MOp) (hi : MemInv s) (hop : ∀ off size, op ≠ .newRdbWriter off size) :
    RecvRel s.rdb (s.step op).1.rdb (s.rdbAccepted op) := by
  cases op with
  | setRunId id => exact RecvRel.refl _
  | delRunId id =>
    simp only [Mem.step, Mem.rdbAccepted]
    split
    · exact RecvRel.refl _
    · exact RecvRel.to_none _ _
  | newRdbWriter off size => exact absurd rfl (hop off size)
  | rdbAppend chunk =>
    simp only [Mem.step, Mem.rdbAccepted]
    split
    · exact RecvRel.refl _
    · have h1 := appendRdbLoop_recv (chunk.length + 1) s chunk hi
      split
      · exact h1
      · split
        · split
          · exact h1.trans_nil (finishRdb_recv _ false)
          · exact h1
        · exact h1
  | rdbClose => exact finishRdb_recv s false
  | rdbFail => exact finishRdb_recv s true
  | newAofWriter off =>
    simp only [Mem.step, Mem.rdbAccepted]
    split
    · split
      · exact RecvRel.refl _
      · split
        · exact finishAof_recv _ _ _
        · exact RecvRel.refl _
    · split
      · exact finishAof_recv _ _ _
      · exact RecvRel.refl _
  | aofAppend chunk =>
    simp only [Mem.step, Mem.rdbAccepted]
    split
    · exact RecvRel.refl _
    · split
      · exact RecvRel.refl _
      · have h1 := appendAofLoop_recv (chunk.length + 1) s chunk 0
        split <;> exact h1
  | aofClose =>
    simp only [Mem.step, Mem.rdbAccepted]
    split
    · exact finishAof_recv _ _ _
    · exact RecvRel.refl _
  | openReader rid off => exact RecvRel.of_eq (open_rdb s rid off)
  | startReader rid =>
    simp only [Mem.step, Mem.rdbAccepted]
    repeat' split
    all_goals exact RecvRel.refl _
  | copyStep rid => exact RecvRel.of_eq (copyStep_rdb s rid)
  | consume rid n => exact RecvRel.of_eq (consume_rdb s rid n)
  | closeReader rid => exact RecvRel.of_eq (closeReader_rdb s rid)
  | retryAppend => exact retry_recv s hi

/-! ### the invariant -/

/-- a replayable snapshot is the announcement the ghost recorded and holds exactly
    the bytes received for it -/
def RecvInv (s : Mem) (g : Option MRecv) : Prop :=
  ∀ rd, s.rdb = some rd → rd.replayable = true → g = some ⟨rd.left, rd.size, mflat rd.segs⟩

theorem RecvInv.init (l m : Nat) : RecvInv (Mem.init l m) none := by
  intro rd h; cases h

theorem RecvInv.of_rel {s s' : Mem} {g : Option MRecv} {bs : Bytes} (h : RecvInv s g) (hr : RecvRel s.rdb s'.rdb bs) :
    RecvInv s' (g.map (fun x => { x with bytes := x.bytes ++ bs })) := by
  intro rd' h' hrep
  obtain ⟨rd, ha, hr0, hl, hs, hf⟩ := hr rd' h' hrep
  rw [h rd ha hr0]
  simp [hl, hs, hf]

theorem RecvInv.step {s : Mem} {g : Option MRecv} (hi : MemInv s) (h : RecvInv s g) (op : MOp) :
    RecvInv (s.step op).1 (mRecvStep g s op) := by
  by_cases hop : ∃ off size, op = .newRdbWriter off size
  · obtain ⟨off, size, rfl⟩ := hop
    intro rd h' _
    simp only [Mem.step] at h'
    cases h'
    simp [mRecvStep, mflat]
  · have hop' : ∀ off size, op ≠ .newRdbWriter off size := fun off size e => hop ⟨off, size, e⟩
    have := h.of_rel (step_recv s op hi hop')
    cases op <;> first | exact this | exact absurd rfl (hop' _ _)

theorem runRecv_fst (s : Mem) (g : Option MRecv) (ops : List MOp) : (s.runRecv g ops).1 = s.run ops := by
  induction ops generalizing s g with
  | nil => rfl
  | cons op rest ih => simp only [Mem.runRecv, Mem.run]; exact ih _ _

theorem RecvInv.run {s : Mem} {g : Option MRecv} (hi : MemInv s) (h : RecvInv s g) (ops : List MOp) :
    RecvInv (s.run ops) (s.runRecv g ops).2 := by
  induction ops generalizing s g with
  | nil => exact h
  | cons op rest ih =>
    simp only [Mem.runRecv, Mem.run]
    exact ih (step_inv s op hi) (h.step hi op)

/-! ### the driver's settling -/

theorem settleReader_rdb (fuel : Nat) : ∀ (s : Mem) (rid : Nat), (Mem.settleReader fuel s rid).rdb = s.rdb := by
  induction fuel with
  | zero => intro s rid; rfl
  | succ fuel ih =>
    intro s rid
    simp only [Mem.settleReader]
    split
    · rw [ih]; exact copyStep_rdb s rid
    · exact copyStep_rdb s rid

theorem settleReaders_rdb (s : Mem) : s.settleReaders.rdb = s.rdb := by
  unfold Mem.settleReaders
  generalize s.readers = rs
  induction rs generalizing s with
  | nil => rfl
  | cons r t ih => simp only [List.foldl_cons]; rw [ih]; exact settleReader_rdb _ _ _

theorem settleLoopG_fst (fuel : Nat) : ∀ (s : Mem) (g : Option MRecv), (Mem.settleLoopG fuel s g).1 = Mem.settleLoop fuel s := by
  induction fuel with
  | zero => intro s g; rfl
  | succ fuel ih =>
    intro s g
    simp only [Mem.settleLoopG, Mem.settleLoop]
    split
    · exact ih _ _
    · rfl

theorem settleG_fst (s : Mem) (g : Option MRecv) : (s.settleG g).1 = s.settle := settleLoopG_fst _ s g

theorem settleLoopG_recv (fuel : Nat) : ∀ (s : Mem) (g : Option MRecv), MemInv s → RecvInv s g →
    RecvInv (Mem.settleLoopG fuel s g).1 (Mem.settleLoopG fuel s g).2 := by
  induction fuel with
  | zero => intro s g _ h; exact h
  | succ fuel ih =>
    intro s g hi h
    have h1 : MemInv s.settleReaders := settleReaders_inv s hi
    have hr1 : RecvInv s.settleReaders g := by
      intro rd h' hrep; rw [settleReaders_rdb] at h'; exact h rd h' hrep
    have h2 : RecvInv s.settleReaders.retry.1 (mRecvStep g s.settleReaders .retryAppend) :=
      hr1.step h1 .retryAppend
    simp only [Mem.settleLoopG]
    split
    · exact ih _ _ (retry_inv _ h1) h2
    · exact h2

theorem RecvInv.settle {s : Mem} {g : Option MRecv} (hi : MemInv s) (h : RecvInv s g) :
    RecvInv (s.settleG g).1 (s.settleG g).2 := settleLoopG_recv _ s g hi h

/-! ### the count is tied to the operation's output -/

/-- an accepted snapshot append (`.ok` / `.done`) on a live writer took the WHOLE
    chunk when it did not block; a blocked one took exactly the `n` bytes it reports -/
theorem rdbAppend_accepted_blocked (s : Mem) (chunk : Bytes) (n : Nat)
    (h : (s.step (.rdbAppend chunk)).2 = .blocked n) :
    s.rdbAccepted (.rdbAppend chunk) = chunk.take n ∧ (s.step (.rdbAppend chunk)).1.pendR = some (chunk.drop n) := by
  simp only [Mem.step, Mem.rdbAccepted] at h ⊢
  by_cases hp : s.pendR.isSome = true
  · simp [hp] at h
  · simp only [hp, if_false, Bool.false_eq_true] at h ⊢
    by_cases hb : (Mem.appendRdbLoop (chunk.length + 1) s chunk 0).2.2 = true
    · simp only [hb, if_true] at h ⊢
      cases h; exact ⟨rfl, rfl⟩
    · simp only [hb, if_false, Bool.false_eq_true] at h
      split at h
      · split at h <;> cases h
      · cases h


/-- a snapshot append on a LIVE writer that is not blocked appends the whole chunk -/
theorem appendRdbLoop_complete (fuel : Nat) : ∀ (s : Mem) (buf : Bytes) (done : Nat), MemInv s →
    (∃ r, s.rdb = some r ∧ r.writing = true) → buf.length < fuel →
    (Mem.appendRdbLoop fuel s buf done).2.2 = false → (Mem.appendRdbLoop fuel s buf done).2.1 = done + buf.length := by
  induction fuel with
  | zero => intro s buf done _ _ hf; omega
  | succ fuel ih =>
    intro s buf done hi hlive hf hnb
    rw [appendRdbLoop_succ] at hnb ⊢
    by_cases hb : buf.isEmpty = true
    · simp only [hb, if_true]
      have : buf = [] := List.isEmpty_iff.mp hb
      simp [this]
    · simp only [hb, if_false, Bool.false_eq_true] at hnb ⊢
      obtain ⟨r, hr, hw⟩ := hlive
      rw [hr] at hnb ⊢
      dsimp only at hnb ⊢
      simp only [hw, Bool.not_true, Bool.false_eq_true, if_false] at hnb ⊢
      have hR := hi.rdb
      rw [hr] at hR
      obtain ⟨last, hlast, hls, _⟩ := hR.cur r rfl hw
      have hfind : mFind r.segs r.cur = some last := by
        rw [← hls]; exact mFind_of_mem (hR.nodup r rfl) (List.mem_of_getLast? hlast)
      rw [hfind] at hnb ⊢
      dsimp only at hnb ⊢
      obtain ⟨h1, e1, w1, _, _, _⟩ := rdbRotate_inv s r last (pieceSpace s.logSize last.data.length buf.length).2 hi hr hw
      obtain ⟨h2, f2⟩ := ensure_inv _ (pieceSpace s.logSize last.data.length buf.length).1 h1
      have hne : 0 < buf.length := by
        cases buf with
        | nil => simp at hb
        | cons x t => simp
      have hsp := pieceSpace_pos s.logSize last.data.length buf.length hne
      split at hnb
      · simp at hnb
      · rename_i hfit
        rw [if_neg hfit]
        cases hr2 : ((rdbRotate s r last (pieceSpace s.logSize last.data.length buf.length).2).1.ensure
            (pieceSpace s.logSize last.data.length buf.length).1).1.rdb with
        | none => rw [hr2] at hnb; simp at hnb
        | some q =>
          rw [hr2] at hnb
          dsimp only at hnb ⊢
          have hcw : q.cur = (rdbRotate s r last (pieceSpace s.logSize last.data.length buf.length).2).2.cur ∧
              q.writing = true := by
            rcases f2.rdb with h | h | ⟨a, a', ha, ha', _, hc, hwq, _⟩
            · rw [hr2, e1] at h; cases h; exact ⟨rfl, w1⟩
            · rw [hr2] at h; cases h
            · rw [e1] at ha; cases ha
              rw [hr2] at ha'; cases ha'
              exact ⟨hc, by rw [hwq]; exact w1⟩
          rw [← hcw.1] at hnb ⊢
          obtain ⟨h3, _⟩ := rdbPut_inv _ q (buf.take (pieceSpace s.logSize last.data.length buf.length).1) h2 hr2 hcw.2
          have hlive3 : ∃ r3, (rdbPut ((rdbRotate s r last (pieceSpace s.logSize last.data.length buf.length).2).1.ensure
              (pieceSpace s.logSize last.data.length buf.length).1).1 q q.cur
              (buf.take (pieceSpace s.logSize last.data.length buf.length).1)).rdb = some r3 ∧ r3.writing = true :=
            ⟨_, rfl, hcw.2⟩
          have := ih _ (buf.drop (pieceSpace s.logSize last.data.length buf.length).1)
            (done + (buf.take (pieceSpace s.logSize last.data.length buf.length).1).length) h3 hlive3
            (by simp; omega) hnb
          rw [this]
          simp
          omega

/-- … hence an append on a live, unblocked writer that does not report `.blocked` was
    accepted as a whole -/
theorem rdbAppend_accepted_whole (s : Mem) (chunk : Bytes) (hi : MemInv s) (hp : s.pendR = none)
    (hlive : ∃ r, s.rdb = some r ∧ r.writing = true) (hnb : ∀ n, (s.step (.rdbAppend chunk)).2 ≠ .blocked n) :
    s.rdbAccepted (.rdbAppend chunk) = chunk := by
  simp only [Mem.rdbAccepted, hp, Option.isSome_none, Bool.false_eq_true, if_false]
  have hb : (Mem.appendRdbLoop (chunk.length + 1) s chunk 0).2.2 = false := by
    cases hx : (Mem.appendRdbLoop (chunk.length + 1) s chunk 0).2.2 with
    | false => rfl
    | true =>
      exfalso
      apply hnb (Mem.appendRdbLoop (chunk.length + 1) s chunk 0).2.1
      simp only [Mem.step, hp, Option.isSome_none, Bool.false_eq_true, if_false, hx, if_true]
  have := appendRdbLoop_complete (chunk.length + 1) s chunk 0 hi hlive (by omega) hb
  rw [this]
  simp

end GunYu.Store
