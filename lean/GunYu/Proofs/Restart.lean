/-
  C02 restart composition at the parser / specification level: cutting the
  source stream at the end offset of any command the parser handed over with its
  own offset, and resuming there with a FRESH parser that first re-selects the
  database the connection was in at the cut, executes exactly the rest of the
  one-pass specification `specStream`.
-/
import GunYu.Proofs.EndToEnd

namespace GunYu.Sender
open GunYu GunYu.Target

/-- parser state after a list of decoded commands (stops at a failure) -/
def parseState (c : PCfg) : PState → List Raw → PState
  | s, [] => s
  | s, r :: rest =>
    match parseStep c s r with
    | (s', .fail) => s'
    | (s', .skip) => parseState c s' rest
    | (s', .emit _) => parseState c s' rest

/-- the parser stops with an error somewhere in the list (malformed SELECT) -/
def parseFails (c : PCfg) : PState → List Raw → Bool
  | _, [] => false
  | s, r :: rest =>
    match parseStep c s r with
    | (_, .fail) => true
    | (s', .skip) => parseFails c s' rest
    | (s', .emit _) => parseFails c s' rest

theorem parseAll_append (c : PCfg) (s : PState) (x y : List Raw) (h : parseFails c s x = false) :
    parseAll c s (x ++ y) = parseAll c s x ++ parseAll c (parseState c s x) y := by
  induction x generalizing s with
  | nil => simp [parseAll, parseState]
  | cons r rest ih =>
    simp only [List.cons_append, parseAll, parseState]
    simp only [parseFails] at h
    cases hps : parseStep c s r with
    | mk s' o =>
      rw [hps] at h
      cases o with
      | fail => simp at h
      | skip => simp only at h ⊢; exact ih s' h
      | emit i => simp only at h ⊢; rw [ih s' h]; rfl

theorem parseState_append (c : PCfg) (s : PState) (x y : List Raw) (h : parseFails c s x = false) :
    parseState c s (x ++ y) = parseState c (parseState c s x) y := by
  induction x generalizing s with
  | nil => simp [parseState]
  | cons r rest ih =>
    simp only [List.cons_append, parseState]
    simp only [parseFails] at h
    cases hps : parseStep c s r with
    | mk s' o =>
      rw [hps] at h
      cases o with
      | fail => simp at h
      | skip => simp only at h ⊢; exact ih s' h
      | emit i => simp only at h ⊢; exact ih s' h

theorem parseFails_append_left (c : PCfg) (s : PState) (x y : List Raw)
    (h : parseFails c s (x ++ y) = false) : parseFails c s x = false := by
  induction x generalizing s with
  | nil => rfl
  | cons r rest ih =>
    simp only [List.cons_append, parseFails] at h ⊢
    cases hps : parseStep c s r with
    | mk s' o =>
      rw [hps] at h
      cases o with
      | fail => simp at h
      | skip => simp only at h ⊢; exact ih s' h
      | emit i => simp only at h ⊢; exact ih s' h

theorem itemCmds_append (x y : List Item) : itemCmds (x ++ y) = itemCmds x ++ itemCmds y := by
  simp [itemCmds, List.filterMap_append]

/-- the connection's database after the target executed what one step handed over -/
def connAfter (cur : Int) : POut → Int
  | .emit i => (seqApplied cur (itemCmds [i])).1
  | _ => cur

/-- **One parser step keeps the parser's idea of the connection's database
    right**: it either knows the database the connection is in, or knows that it
    does not know (−1, the state of a fresh or resumed parser). -/
theorem parseStep_inv (c : PCfg) (s : PState) (r : Raw) (cur : Int)
    (hinv : s.currentDB = cur ∨ s.currentDB = -1)
    (hsel : r.cmd = bSelect → ∀ a n, r.args = [a] → atoi? a = some n → 0 ≤ n) :
    (parseStep c s r).1.currentDB = connAfter cur (parseStep c s r).2 ∨
    (parseStep c s r).1.currentDB = -1 := by
  by_cases hp : r.cmd = bPing
  · have hb : itemCmds.isBracketOrPingB bPing = true := by decide
    unfold parseStep
    simp only [hp, ↓reduceIte]
    cases hf : c.filterCmdKey bPing r.args with
    | none => exact hinv
    | some a =>
      by_cases hbp : s.bypass = true
      · simp only [hbp, ↓reduceIte]; exact hinv
      · simp only [hbp, Bool.false_eq_true, ↓reduceIte, connAfter, sent_currentDB]
        rw [itemCmds_cons_bracket _ _ (by simpa using hb)]
        simpa [itemCmds, seqApplied] using hinv
  · by_cases hs : r.cmd = bSelect
    · have hne : bSelect ≠ bPing := by decide
      unfold parseStep
      simp only [hs, hne, ↓reduceIte]
      cases ha : r.args with
      | nil => exact hinv
      | cons a tl =>
        cases tl with
        | cons _ _ => exact hinv
        | nil =>
          simp only
          cases hn : atoi? a with
          | none => exact hinv
          | some n =>
            simp only
            have h0 : 0 ≤ n := hsel hs a n ha hn
            cases hdb : c.filterDb n with
            | true => simp only [↓reduceIte]; exact hinv
            | false =>
              simp only [Bool.false_eq_true, ↓reduceIte]
              cases hf : c.filterCmdKey bSelect [a] with
              | none => exact hinv
              | some x =>
                simp only [h0, ↓reduceIte]
                have hn1 : n ≠ -1 := by omega
                by_cases hch : mapDb c n = s.currentDB
                · simp only [selectDB, hn1, ↓reduceIte, hch, ne_eq, not_true_eq_false, decide_false,
                    Bool.false_eq_true]
                  exact hinv
                · simp only [selectDB, hn1, ↓reduceIte, ne_eq, hch, not_false_eq_true, decide_true]
                  left
                  have hnb : itemCmds.isBracketOrPingB bSelect = false := by decide
                  simp only [connAfter]
                  rw [itemCmds_cons_data _ _ (by simpa [selectItem] using hnb)]
                  simp [selectItem, seqApplied, selArg, atoi?_intToDec, itemCmds]
    · rw [parseStep_data c s r hp hs]
      by_cases hfc : c.filterCmd r.cmd = true
      · simp only [hfc, ↓reduceIte]; exact hinv
      · simp only [hfc, Bool.false_eq_true, ↓reduceIte]
        by_cases hsen : r.cmd = bPublish ∧ (r.args.head?.map lower) = some bSentinelHello
        · simp only [hsen, and_self, ↓reduceIte]; exact hinv
        · simp only [hsen, ↓reduceIte]
          by_cases h3 : s.bypass = true ∧ passBracket s r.cmd = false
          · simp only [h3, and_self, ↓reduceIte]; exact hinv
          · simp only [h3, ↓reduceIte]
            cases hf : c.filterCmdKey r.cmd r.args with
            | none => exact hinv
            | some a =>
              simp only [connAfter, sent_currentDB]
              by_cases hb : itemCmds.isBracketOrPingB r.cmd = true
              · rw [itemCmds_cons_bracket _ _ hb]
                simpa [itemCmds, seqApplied] using hinv
              · have hb' : itemCmds.isBracketOrPingB r.cmd = false := by simpa using hb
                rw [itemCmds_cons_data _ _ hb']
                have hns : r.cmd ≠ bSelect := hs
                simpa [seqApplied, hns, itemCmds] using hinv

/-- the same for a whole list: after any number of commands the parser's database
    is the one the connection is in after executing everything handed over -/
theorem parseAll_inv (c : PCfg) (raws : List Raw) (s : PState) (cur : Int)
    (hinv : s.currentDB = cur ∨ s.currentDB = -1)
    (hsel : ∀ r ∈ raws, r.cmd = bSelect → ∀ a n, r.args = [a] → atoi? a = some n → 0 ≤ n) :
    (parseState c s raws).currentDB = (seqApplied cur (itemCmds (parseAll c s raws))).1 ∨
    (parseState c s raws).currentDB = -1 := by
  induction raws generalizing s cur with
  | nil => simpa [parseState, parseAll, itemCmds, seqApplied] using hinv
  | cons r rest ih =>
    have hsel' : ∀ r' ∈ rest, r'.cmd = bSelect → ∀ a n, r'.args = [a] → atoi? a = some n → 0 ≤ n :=
      fun r' hr' => hsel r' (List.mem_cons_of_mem _ hr')
    have hstep := parseStep_inv c s r cur hinv (hsel r (List.mem_cons_self ..))
    simp only [parseState, parseAll]
    cases hps : parseStep c s r with
    | mk s' o =>
      rw [hps] at hstep
      cases o with
      | fail => simpa [itemCmds, seqApplied, connAfter] using hstep
      | skip => simp only [connAfter] at hstep ⊢; exact ih s' cur hstep hsel'
      | emit i =>
        simp only [connAfter] at hstep ⊢
        have := ih s' _ hstep hsel'
        have happ : itemCmds (i :: parseAll c s' rest) = itemCmds [i] ++ itemCmds (parseAll c s' rest) := by
          rw [← itemCmds_append]; rfl
        rw [happ, seqApplied_append]
        exact this

/-- the `db` tag of an item a step hands over is the parser's database before the
    step, except for a forwarded `select`, whose tag is the database it selects -/
theorem parseStep_emit_db (c : PCfg) (s : PState) (r : Raw) (i : Item)
    (h : (parseStep c s r).2 = POut.emit i) :
    i.db = s.currentDB ∨ (i.cmd = bSelect ∧ i.db = (parseStep c s r).1.currentDB) := by
  by_cases hp : r.cmd = bPing
  · unfold parseStep at h
    simp only [hp, ↓reduceIte] at h
    cases hf : c.filterCmdKey bPing r.args with
    | none => simp [hf] at h
    | some a =>
      simp only [hf] at h
      cases hb : s.bypass <;> simp [hb] at h
      subst h; exact Or.inl rfl
  · by_cases hs : r.cmd = bSelect
    · have hne : bSelect ≠ bPing := by decide
      unfold parseStep at h ⊢
      simp only [hs, hne, ↓reduceIte] at h ⊢
      cases ha : r.args with
      | nil => simp [ha] at h
      | cons a rest =>
        cases rest with
        | cons _ _ => simp [ha] at h
        | nil =>
          simp only [ha] at h ⊢
          cases hn : atoi? a with
          | none => simp [hn] at h
          | some n =>
            simp only [hn] at h ⊢
            cases hdb : c.filterDb n
            · simp only [hdb, Bool.false_eq_true, ↓reduceIte] at h ⊢
              cases hf : c.filterCmdKey bSelect [a] with
              | none => simp [hf] at h
              | some x =>
                simp only [hf] at h ⊢
                by_cases h0 : 0 ≤ n
                · simp only [h0, ↓reduceIte] at h ⊢
                  by_cases hch : (selectDB c s.currentDB n).2 = true
                  · simp only [hch, ↓reduceIte] at h ⊢
                    injection h with h; subst h
                    exact Or.inr ⟨rfl, rfl⟩
                  · simp [hch] at h
                · simp only [h0, ↓reduceIte] at h ⊢
                  injection h with h; subst h; exact Or.inl rfl
            · simp [hdb] at h
    · rw [parseStep_data c s r hp hs] at h
      by_cases h1 : c.filterCmd r.cmd = true
      · simp [h1] at h
      · by_cases h2 : r.cmd = bPublish ∧ (r.args.head?.map lower) = some bSentinelHello
        · simp [h1, h2] at h
        · by_cases h3 : s.bypass = true ∧ passBracket s r.cmd = false
          · simp [h1, h2, h3] at h
          · simp only [h1, h2, h3, Bool.false_eq_true, ↓reduceIte] at h
            cases hf : c.filterCmdKey r.cmd r.args with
            | none => rw [hf] at h; simp at h
            | some a =>
              rw [hf] at h
              simp only at h
              injection h with h; subst h; exact Or.inl rfl

/-- **The parser's database tag is the connection's database**: every item the
    parser hands over (other than a forwarded `select`) is tagged with the
    database the target connection is in when the item executes -- or with −1
    (a fresh / resumed parser that has not seen a SELECT yet). -/
theorem parser_db_is_conn_db (c : PCfg) (raws : List Raw) (s : PState) (cur : Int)
    (hinv : s.currentDB = cur ∨ s.currentDB = -1)
    (hsel : ∀ r ∈ raws, r.cmd = bSelect → ∀ a n, r.args = [a] → atoi? a = some n → 0 ≤ n)
    (pre post : List Item) (i : Item)
    (h : parseAll c s raws = pre ++ i :: post) (hs : i.cmd ≠ bSelect) :
    i.db = -1 ∨ i.db = (seqApplied cur (itemCmds pre)).1 := by
  induction raws generalizing s cur pre with
  | nil => simp [parseAll] at h
  | cons r rest ih =>
    have hsel' : ∀ r' ∈ rest, r'.cmd = bSelect → ∀ a n, r'.args = [a] → atoi? a = some n → 0 ≤ n :=
      fun r' hr' => hsel r' (List.mem_cons_of_mem _ hr')
    have hstep := parseStep_inv c s r cur hinv (hsel r (List.mem_cons_self ..))
    simp only [parseAll] at h
    cases hps : parseStep c s r with
    | mk s' o =>
      rw [hps] at h hstep
      cases o with
      | fail => simp at h
      | skip => simp only [connAfter] at h hstep; exact ih s' cur hstep hsel' pre h
      | emit j =>
        simp only [connAfter] at h hstep
        cases pre with
        | nil =>
          simp only [List.nil_append, List.cons.injEq] at h
          obtain ⟨hj, _⟩ := h
          subst hj
          have hdb := parseStep_emit_db c s r j (by rw [hps])
          rcases hdb with hdb | ⟨hsel', _⟩
          · rcases hinv with h1 | h1
            · right; simpa [itemCmds, seqApplied, hdb] using h1
            · left; rw [hdb]; exact h1
          · exact absurd hsel' hs
        | cons p pre' =>
          simp only [List.cons_append, List.cons.injEq] at h
          obtain ⟨hj, hrest⟩ := h
          subst hj
          have := ih s' _ hstep hsel' pre' hrest
          have happ : itemCmds (j :: pre') = itemCmds [j] ++ itemCmds pre' := by
            rw [← itemCmds_append]; rfl
          rw [happ, seqApplied_append]
          exact this

/-- a command handed over with ITS OWN offset leaves the parser outside a
    filtered database (only brackets are handed over inside one, and they carry
    an earlier offset) -/
theorem emit_own_offset_unbypassed (c : PCfg) (s : PState) (r : Raw) (i : Item)
    (h : (parseStep c s r).2 = POut.emit i) (hown : passBracket s r.cmd = false) :
    (parseStep c s r).1.bypass = false := by
  by_cases hp : r.cmd = bPing
  · unfold parseStep at h ⊢
    simp only [hp, ↓reduceIte] at h ⊢
    cases hf : c.filterCmdKey bPing r.args with
    | none => simp [hf] at h
    | some a =>
      simp only [hf] at h ⊢
      cases hb : s.bypass <;> simp [hb] at h ⊢
  · by_cases hs : r.cmd = bSelect
    · have hne : bSelect ≠ bPing := by decide
      unfold parseStep at h ⊢
      simp only [hs, hne, ↓reduceIte] at h ⊢
      cases ha : r.args with
      | nil => simp [ha] at h
      | cons a rest =>
        cases rest with
        | cons _ _ => simp [ha] at h
        | nil =>
          simp only [ha] at h ⊢
          cases hn : atoi? a with
          | none => simp [hn] at h
          | some n =>
            simp only [hn] at h ⊢
            cases hdb : c.filterDb n
            · simp only [hdb, Bool.false_eq_true, ↓reduceIte] at h ⊢
              cases hf : c.filterCmdKey bSelect [a] with
              | none => simp [hf] at h
              | some x =>
                simp only [hf] at h ⊢
                by_cases h0 : 0 ≤ n
                · simp only [h0, ↓reduceIte] at h ⊢
                  by_cases hch : (selectDB c s.currentDB n).2 = true
                  · simp only [hch, ↓reduceIte]
                  · simp [hch] at h
                · simp only [h0, ↓reduceIte, sent_bypass]
            · simp [hdb] at h
    · rw [parseStep_data c s r hp hs] at h ⊢
      by_cases h1 : c.filterCmd r.cmd = true
      · simp [h1] at h
      · by_cases h2 : r.cmd = bPublish ∧ (r.args.head?.map lower) = some bSentinelHello
        · simp [h1, h2] at h
        · by_cases h3 : s.bypass = true ∧ passBracket s r.cmd = false
          · simp [h1, h2, h3] at h
          · simp only [h1, h2, h3, Bool.false_eq_true, ↓reduceIte] at h ⊢
            cases hf : c.filterCmdKey r.cmd r.args with
            | none => rw [hf] at h; simp at h
            | some a =>
              simp only [sent_bypass]
              cases hb : s.bypass with
              | false => rfl
              | true => exact absurd ⟨hb, hown⟩ h3

/-- **Restart completes the specification.** Cut the source stream after any
    command `r` that the parser handed over with its own offset (`r1 = pre ++ [r]`;
    every offset the sender ever stores is the start offset or such an offset).
    Let `d` be the database the connection is in after executing everything handed
    over up to the cut. A FRESH parser that starts at the cut and first re-selects
    `d` (`parserItems` with `startDbId = d`, on a new connection, which starts in
    database 0) executes exactly the rest of the specification: what the first
    run's items up to the cut execute, followed by what the resumed run executes,
    is the one-pass specification of the whole stream -- nothing skipped, nothing
    repeated, every resumed command in the database the source intended. -/
theorem restart_completes_spec (c : PCfg) (s0 : PState) (cur0 : Int) (pre : List Raw) (r : Raw)
    (r2 : List Raw) (i : Item) (o : Int)
    (hnf : parseFails c s0 (pre ++ [r]) = false)
    (hemit : (parseStep c (parseState c s0 pre) r).2 = POut.emit i)
    (hown : passBracket (parseState c s0 pre) r.cmd = false)
    (hinv0 : s0.currentDB = cur0 ∨ s0.currentDB = -1)
    (hsel : ∀ x ∈ (pre ++ [r]) ++ r2, x.cmd = bSelect → ∀ a n, x.args = [a] → atoi? a = some n → 0 ≤ n)
    (hmap : ∀ n : Int, 0 ≤ n → mapDb c n ≠ -1)
    (hd : c.startDbId = (seqApplied cur0 (itemCmds (parseAll c s0 (pre ++ [r])))).1)
    (hd0 : 0 ≤ c.startDbId) :
    specStream c s0.bypass cur0 ((pre ++ [r]) ++ r2) =
      (seqApplied cur0 (itemCmds (parseAll c s0 (pre ++ [r])))).2 ++
      (seqApplied 0 (itemCmds (parserItems c o r2))).2 := by
  have hsel1 : ∀ x ∈ pre ++ [r], x.cmd = bSelect → ∀ a n, x.args = [a] → atoi? a = some n → 0 ≤ n :=
    fun x hx => hsel x (List.mem_append_left _ hx)
  have hsel2 : ∀ x ∈ r2, x.cmd = bSelect → ∀ a n, x.args = [a] → atoi? a = some n → 0 ≤ n :=
    fun x hx => hsel x (List.mem_append_right _ hx)
  -- the whole stream through the one parser
  rw [← parser_refines_spec c _ s0 cur0 hinv0 hsel hmap, parseAll_append c s0 _ r2 hnf,
    itemCmds_append, seqApplied_append]
  simp only
  congr 1
  -- the parser state at the cut
  have hs1 : parseState c s0 (pre ++ [r]) = (parseStep c (parseState c s0 pre) r).1 := by
    rw [parseState_append c s0 pre [r] (parseFails_append_left c s0 pre [r] hnf)]
    simp only [parseState]
    cases hps : parseStep c (parseState c s0 pre) r with
    | mk s' out => cases out <;> rfl
  have hb1 : (parseState c s0 (pre ++ [r])).bypass = false := by
    rw [hs1]; exact emit_own_offset_unbypassed c _ r i hemit hown
  have hinv1 := parseAll_inv c (pre ++ [r]) s0 cur0 hinv0 hsel1
  rw [← hd] at hinv1 ⊢
  -- continuing run: the rest of the specification in database d
  rw [parser_refines_spec c r2 _ c.startDbId hinv1 hsel2 hmap, hb1]
  -- resumed run: the same
  unfold parserItems
  by_cases hpos : c.startDbId > 0
  · simp only [hpos, ↓reduceIte]
    have hnb : itemCmds.isBracketOrPingB bSelect = false := by decide
    rw [List.singleton_append, itemCmds_cons_data _ _ (by simpa [selectItem] using hnb)]
    simp only [selectItem, seqApplied, ↓reduceIte]
    have hsa : selArg 0 [intToDec c.startDbId] = c.startDbId := by simp [selArg, atoi?_intToDec]
    rw [hsa]
    exact (parser_refines_spec c r2 { lastSent := o } c.startDbId (Or.inr rfl) hsel2 hmap).symm
  · have hz : c.startDbId = 0 := by omega
    simp only [hpos, ↓reduceIte, List.nil_append]
    have := parser_refines_spec c r2 { lastSent := o } 0 (Or.inr rfl) hsel2 hmap
    rw [hz]; exact this.symm

/-- the same at the very start of a run (nothing handed over yet): resuming at the
    start offset in the database the connection was in is the whole specification -/
theorem restart_at_start_is_spec (c : PCfg) (r2 : List Raw) (o : Int)
    (hsel : ∀ x ∈ r2, x.cmd = bSelect → ∀ a n, x.args = [a] → atoi? a = some n → 0 ≤ n)
    (hmap : ∀ n : Int, 0 ≤ n → mapDb c n ≠ -1) (hd0 : 0 ≤ c.startDbId) :
    (seqApplied 0 (itemCmds (parserItems c o r2))).2 = specStream c false c.startDbId r2 := by
  unfold parserItems
  by_cases hpos : c.startDbId > 0
  · simp only [hpos, ↓reduceIte]
    have hnb : itemCmds.isBracketOrPingB bSelect = false := by decide
    rw [List.singleton_append, itemCmds_cons_data _ _ (by simpa [selectItem] using hnb)]
    simp only [selectItem, seqApplied, ↓reduceIte]
    have hsa : selArg 0 [intToDec c.startDbId] = c.startDbId := by simp [selArg, atoi?_intToDec]
    rw [hsa]
    exact parser_refines_spec c r2 { lastSent := o } c.startDbId (Or.inr rfl) hsel hmap
  · have hz : c.startDbId = 0 := by omega
    simp only [hpos, ↓reduceIte, List.nil_append]
    rw [hz]
    exact parser_refines_spec c r2 { lastSent := o } 0 (Or.inr rfl) hsel hmap

end GunYu.Sender
