/-
  C01 end to end: parser ∘ sender ∘ target refine a one-pass specification of
  "the source stream with only the documented removals, each command in the
  database designated by the latest database switch after mapping".
-/
import GunYu.Proofs.Parser
import GunYu.Proofs.SenderRun

namespace GunYu.Sender
open GunYu GunYu.Target

/-- **Specification** (reads like the property): walk the decoded source stream
    once; `tgt` = target DB designated by the latest SELECT to an unfiltered DB
    (after `mapDb`), `bypass` = the latest SELECT went to a filtered DB.
    Keep-alives, SELECTs and MULTI/EXEC are never executed as commands; a command
    is withheld when bypassed, blacklisted, the sentinel hello, or rejected by the
    key filter; otherwise it is executed in `tgt` with the filtered arguments. -/
def specStream (c : PCfg) : Bool → Int → List Raw → List Applied
  | _, _, [] => []
  | bypass, tgt, r :: rest =>
    if r.cmd = bPing then specStream c bypass tgt rest
    else if r.cmd = bSelect then
      match r.args with
      | [a] =>
        match atoi? a with
        | none => []                                    -- the parser stops (malformed SELECT)
        | some n =>
          if c.filterDb n then specStream c true tgt rest
          else if (c.filterCmdKey bSelect [a]).isNone then specStream c false tgt rest
          else specStream c false (mapDb c n) rest
      | _ => []
    else if r.cmd = bMulti ∨ r.cmd = bExec then specStream c bypass tgt rest
    else if c.filterCmd r.cmd then specStream c bypass tgt rest
    else if r.cmd = bPublish ∧ (r.args.head?.map lower) = some bSentinelHello then
      specStream c bypass tgt rest
    else if bypass then specStream c bypass tgt rest
    else match c.filterCmdKey r.cmd r.args with
      | none => specStream c bypass tgt rest
      | some a => { db := tgt, name := r.cmd, args := a } :: specStream c bypass tgt rest

/-- the forwarded, non-bracket, non-ping commands of an item list -/
def itemCmds (items : List Item) : List Cmd :=
  items.filterMap (fun i => if isBracketOrPingB i.cmd then none else some (i.cmd, i.args))
where isBracketOrPingB (n : Bytes) : Bool := n == bPing || n == bMulti || n == bExec

/-- well-formedness the theorem needs of the stream and configuration: SELECT
    arguments are non-negative, mapped databases are not −1 (Redis has no such
    DB), MULTI/EXEC are not blacklisted and carry no keys the filter rejects -/
structure StreamOK (c : PCfg) (raws : List Raw) : Prop where
  sel_nonneg : ∀ r ∈ raws, r.cmd = bSelect → ∀ a n, r.args = [a] → atoi? a = some n → 0 ≤ n
  map_ne : ∀ n : Int, 0 ≤ n → mapDb c n ≠ -1
  brackets_pass : ∀ r ∈ raws, (r.cmd = bMulti ∨ r.cmd = bExec) →
    c.filterCmd r.cmd = false ∧ (c.filterCmdKey r.cmd r.args).isSome

theorem itemCmds_cons_bracket (i : Item) (rest : List Item)
    (h : itemCmds.isBracketOrPingB i.cmd = true) : itemCmds (i :: rest) = itemCmds rest := by
  simp [itemCmds, h]

theorem itemCmds_cons_data (i : Item) (rest : List Item)
    (h : itemCmds.isBracketOrPingB i.cmd = false) :
    itemCmds (i :: rest) = (i.cmd, i.args) :: itemCmds rest := by
  simp [itemCmds, h]

@[simp] theorem sent_bypass (s : PState) (cmd : Bytes) (off : Int) : (sent s cmd off).bypass = s.bypass := rfl
@[simp] theorem sent_currentDB (s : PState) (cmd : Bytes) (off : Int) :
    (sent s cmd off).currentDB = s.currentDB := rfl

theorem parseAll_cons (c : PCfg) (s : PState) (r : Raw) (rest : List Raw) :
    parseAll c s (r :: rest) =
      match parseStep c s r with
      | (s', .skip) => parseAll c s' rest
      | (s', .emit i) => i :: parseAll c s' rest
      | (_, .fail) => [] := rfl

/-- **The parser refines the specification**: executing what the parser emits
    (minus keep-alives and brackets, which the sender absorbs) sequentially on a
    connection in DB `cur` yields exactly `specStream`. The parser either knows the
    connection's DB (`currentDB = cur`) or has not selected anything yet. -/
theorem parser_refines_spec (c : PCfg) (raws : List Raw) (s : PState) (cur : Int)
    (hinv : s.currentDB = cur ∨ s.currentDB = -1)
    (hsel : ∀ r ∈ raws, r.cmd = bSelect → ∀ a n, r.args = [a] → atoi? a = some n → 0 ≤ n)
    (hmap : ∀ n : Int, 0 ≤ n → mapDb c n ≠ -1) :
    (seqApplied cur (itemCmds (parseAll c s raws))).2 = specStream c s.bypass cur raws := by
  induction raws generalizing s cur with
  | nil => simp [parseAll, itemCmds, seqApplied, specStream]
  | cons r rest ih =>
    have hsel' : ∀ r' ∈ rest, r'.cmd = bSelect → ∀ a n, r'.args = [a] → atoi? a = some n → 0 ≤ n :=
      fun r' hr' => hsel r' (List.mem_cons_of_mem _ hr')
    rw [parseAll_cons]
    unfold specStream
    by_cases hp : r.cmd = bPing
    · -- keep-alive: skipped, or emitted and absorbed
      have hb : itemCmds.isBracketOrPingB bPing = true := by decide
      unfold parseStep
      simp only [hp, ↓reduceIte]
      cases hf : c.filterCmdKey bPing r.args with
      | none => exact ih s cur hinv hsel'
      | some a =>
        by_cases hbp : s.bypass = true
        · simp only [hbp, ↓reduceIte]
          have := ih s cur hinv hsel'; rw [hbp] at this; exact this
        · simp only [hbp, Bool.false_eq_true, ↓reduceIte]
          rw [itemCmds_cons_bracket _ _ (by simpa using hb)]
          have := ih (sent s bPing r.off) cur (by rw [sent_currentDB]; exact hinv) hsel'
          rw [sent_bypass] at this
          have hb' : s.bypass = false := by simpa using hbp
          rw [hb'] at this; exact this
    · by_cases hs : r.cmd = bSelect
      · have hne : bSelect ≠ bPing := by decide
        unfold parseStep
        simp only [hs, hne, ↓reduceIte]
        cases ha : r.args with
        | nil => simp [seqApplied, itemCmds]
        | cons a tl =>
          cases tl with
          | cons _ _ => simp [seqApplied, itemCmds]
          | nil =>
            simp only
            cases hn : atoi? a with
            | none => simp [seqApplied, itemCmds]
            | some n =>
              simp only
              have h0 : 0 ≤ n := hsel r (List.mem_cons_self ..) hs a n ha hn
              cases hdb : c.filterDb n with
              | true =>
                simp only [↓reduceIte]
                exact ih { s with bypass := true } cur hinv hsel'
              | false =>
                simp only [Bool.false_eq_true, ↓reduceIte]
                cases hf : c.filterCmdKey bSelect [a] with
                | none =>
                  simp only [Option.isNone_none, ↓reduceIte]
                  exact ih { s with bypass := false } cur hinv hsel'
                | some x =>
                  simp only [Option.isNone_some, Bool.false_eq_true, ↓reduceIte, h0]
                  have hm1 : mapDb c n ≠ -1 := hmap n h0
                  have hn1 : n ≠ -1 := by omega
                  by_cases hch : mapDb c n = s.currentDB
                  · -- not forwarded: the connection is already there
                    have hcur : s.currentDB = cur := by
                      rcases hinv with h | h
                      · exact h
                      · rw [h] at hch; exact absurd hch hm1
                    simp only [selectDB, hn1, ↓reduceIte, hch, ne_eq, not_true_eq_false, decide_false,
                      Bool.false_eq_true]
                    have := ih { s with bypass := false } cur (Or.inl hcur) hsel'
                    rw [hcur] at this ⊢; exact this
                  · simp only [selectDB, hn1, ↓reduceIte, ne_eq, hch, not_false_eq_true, decide_true]
                    have hnb : itemCmds.isBracketOrPingB bSelect = false := by decide
                    rw [itemCmds_cons_data _ _ (by simpa [selectItem] using hnb)]
                    simp only [selectItem, seqApplied, ↓reduceIte]
                    have hsa : selArg cur [intToDec (mapDb c n)] = mapDb c n := by
                      simp [selArg, atoi?_intToDec]
                    rw [hsa]
                    exact ih { s with bypass := false, currentDB := mapDb c n, lastSent := r.off }
                      (mapDb c n) (Or.inl rfl) hsel'
      · -- ordinary command (including MULTI / EXEC)
        rw [parseStep_data c s r hp hs]
        simp only [hp, hs, ↓reduceIte]
        by_cases hfc : c.filterCmd r.cmd = true
        · simp only [hfc, ↓reduceIte, ite_self]
          exact ih s cur hinv hsel'
        · simp only [hfc, Bool.false_eq_true, ↓reduceIte]
          by_cases hsen : r.cmd = bPublish ∧ (r.args.head?.map lower) = some bSentinelHello
          · simp only [hsen, and_self, ↓reduceIte, ite_self]
            exact ih s cur hinv hsel'
          · simp only [hsen, ↓reduceIte]
            by_cases hbr : r.cmd = bMulti ∨ r.cmd = bExec
            · -- a bracket: handed over or not, the sender absorbs it
              have hb : itemCmds.isBracketOrPingB r.cmd = true := by
                rcases hbr with h | h <;> rw [h] <;> decide
              simp only [hbr, ↓reduceIte]
              by_cases h3 : s.bypass = true ∧ passBracket s r.cmd = false
              · simp only [h3, and_self, ↓reduceIte]
                have := ih s cur hinv hsel'
                rw [h3.1] at this; exact this
              · simp only [h3, ↓reduceIte]
                cases hf : c.filterCmdKey r.cmd r.args with
                | none => exact ih s cur hinv hsel'
                | some a =>
                  simp only
                  rw [itemCmds_cons_bracket _ _ hb]
                  have := ih (sent s r.cmd (if passBracket s r.cmd = true then s.lastSent else r.off)) cur
                    (by rw [sent_currentDB]; exact hinv) hsel'
                  rw [sent_bypass] at this
                  exact this
            · have hb : itemCmds.isBracketOrPingB r.cmd = false := by
                simp only [itemCmds.isBracketOrPingB, Bool.or_eq_false_iff, beq_eq_false_iff_ne, ne_eq]
                exact ⟨⟨hp, fun h => hbr (Or.inl h)⟩, fun h => hbr (Or.inr h)⟩
              have hne : r.cmd ≠ bExec := fun h => hbr (Or.inr h)
              have hnm : r.cmd ≠ bMulti := fun h => hbr (Or.inl h)
              have hct : passBracket s r.cmd = false := by simp [passBracket, hne, hnm]
              simp only [hbr, ↓reduceIte, hct, and_true, Bool.false_eq_true]
              by_cases hbp : s.bypass = true
              · simp only [hbp, ↓reduceIte]
                have := ih s cur hinv hsel'; rw [hbp] at this; exact this
              · simp only [hbp, Bool.false_eq_true, ↓reduceIte]
                have hb' : s.bypass = false := by simpa using hbp
                cases hf : c.filterCmdKey r.cmd r.args with
                | none => have := ih s cur hinv hsel'; rw [hb'] at this; exact this
                | some a =>
                  simp only
                  rw [itemCmds_cons_data _ _ hb]
                  have hns : r.cmd ≠ bSelect := hs
                  simp only [seqApplied, hns, ↓reduceIte]
                  have := ih (sent s r.cmd r.off) cur (by rw [sent_currentDB]; exact hinv) hsel'
                  rw [sent_bypass, hb'] at this
                  rw [this]

end GunYu.Sender
