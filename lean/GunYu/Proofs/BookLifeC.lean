/-
  C17 — a sender life keeps `Good`: the sender's theorems (Proofs/BookLife.lean `life_abs`, imported
  from Props.C02 / C02Lives / C07) speak about the abstract per-database records; `Abs` (Proofs/
  BookAbs.lean) carries them over to the fields of the master id under the checkpoint key; the
  order invariant `NoAfter` makes what the pair of ids reads what the master id alone reads.
-/
import GunYu.Proofs.BookAbs
import GunYu.Proofs.BookLife
import GunYu.Proofs.BookWrites

namespace GunYu.BookSys
open GunYu GunYu.Checkpoint

set_option linter.unusedSimpArgs false
set_option linter.unusedVariables false

/-- the abstract target the sender's theorems are applied to: one record per database of a finite
    support, read off the fields of id `N` under key `n` -/
def absOf (N n : Bytes) (dbs : List Nat) (t : Checkpoint.Target) : Target.TState :=
  { cps := dbs.map (fun (db : Nat) => ((db : Int), absRec N (t.cps db n))) }

theorem lookup_absOf (N n : Bytes) (t : Checkpoint.Target) (db : Nat) : ∀ dbs : List Nat,
    (dbs.map (fun (x : Nat) => ((x : Int), absRec N (t.cps x n)))).lookup (db : Int) =
      if db ∈ dbs then some (absRec N (t.cps db n)) else none := by
  intro dbs
  induction dbs with
  | nil => rfl
  | cons x rest ih =>
    simp only [List.map_cons, List.lookup_cons]
    by_cases hx : db = x
    · subst hx; simp
    · have : ((db : Int) == (x : Int)) = false := by
        simp only [beq_eq_false_iff_ne, ne_eq]; omega
      rw [this, ih]
      simp [hx]

theorem getCp_absOf {N n : Bytes} {dbs : List Nat} {t : Checkpoint.Target}
    (hfin : ∀ db, db ∉ dbs → t.cps db n = []) (db : Nat) :
    Target.getCp (absOf N n dbs t).cps (db : Int) = absRec N (t.cps db n) := by
  unfold Target.getCp absOf
  simp only
  rw [lookup_absOf]
  by_cases h : db ∈ dbs
  · simp [h]
  · simp only [h, if_false, Option.getD_none]
    rw [hfin db h, absRec_nil]

theorem getCp_absOf_neg (N n : Bytes) (dbs : List Nat) (t : Checkpoint.Target) (z : Int) (hz : z < 0) :
    Target.getCp (absOf N n dbs t).cps z = {} := by
  unfold Target.getCp absOf
  simp only
  have : (dbs.map (fun (x : Nat) => ((x : Int), absRec N (t.cps x n)))).lookup z = none := by
    apply List.lookup_eq_none_iff.mpr
    intro p hp
    obtain ⟨x, _, rfl⟩ := List.mem_map.mp hp
    simp only [bne_iff_ne, ne_eq]
    omega
  rw [this]; rfl

/-- positions at or above `X` keep a stored offset at or above `X` -/
theorem absFold_ge (X z : Int) : ∀ (tr : List (Int × BkW)) (cps : List (Int × Target.CpRec)),
    (∃ v, (Target.getCp cps z).offset = some v ∧ X ≤ v) →
    (∀ w ∈ tr, ∀ o, w.2 = BkW.off o → X ≤ o) →
    ∃ v, (Target.getCp (tr.foldl absW cps) z).offset = some v ∧ X ≤ v := by
  intro tr
  induction tr with
  | nil => intro cps h _; exact h
  | cons w tr ih =>
    intro cps h hw
    simp only [List.foldl_cons]
    apply ih _ _ (fun w' hw' => hw w' (List.mem_cons_of_mem _ hw'))
    obtain ⟨wdb, ww⟩ := w
    obtain ⟨v, hv, hXv⟩ := h
    by_cases hz : z = wdb
    · subst hz
      cases ww with
      | rmeta =>
        refine ⟨v, ?_, hXv⟩
        show (Target.getCp (Target.setCp cps z _) z).offset = some v
        rw [GunYu.Target.getCp_setCp_eq]; exact hv
      | off o =>
        refine ⟨o, ?_, hw _ (List.mem_cons_self ..) o rfl⟩
        show (Target.getCp (Target.setCp cps z _) z).offset = some o
        rw [GunYu.Target.getCp_setCp_eq]
    · refine ⟨v, ?_, hXv⟩
      cases ww with
      | rmeta =>
        show (Target.getCp (Target.setCp cps wdb _) z).offset = some v
        rw [GunYu.Target.getCp_setCp_ne _ _ _ _ hz]; exact hv
      | off o =>
        show (Target.getCp (Target.setCp cps wdb _) z).offset = some v
        rw [GunYu.Target.getCp_setCp_ne _ _ _ _ hz]; exact hv

theorem absRec_offset_some {N : Bytes} {fs : Cp} {v : Int} (h : (absRec N fs).offset = some v) :
    hasKey (N, Kind.offset) fs ∧ offOf [N] fs = v := by
  unfold absRec at h
  simp only at h
  split at h
  · rename_i hk; injection h with h; exact ⟨hk, h⟩
  · cases h

theorem absRec_offset_of {N : Bytes} {fs : Cp} (hk : hasKey (N, Kind.offset) fs) :
    (absRec N fs).offset = some (offOf [N] fs) := by
  unfold absRec; simp only [hk, if_true]

/-- the requests of a life write fields of the master id under the key -/
theorem lifeReqs_masWrite (c : Ctl) (ver : Bytes) (tr : List (Int × BkW))
    (hr : ∀ w ∈ tr, ∀ o, w.2 = BkW.off o → InRange o) :
    ∀ q ∈ tr.flatMap (writeReq c.key c.mas ver), MasWrite c q := by
  intro q hq
  obtain ⟨w, hw, hqw⟩ := List.mem_flatMap.mp hq
  unfold writeReq at hqw
  split at hqw
  · have : q = Req.hsetCp w.1.toNat c.key (senderEntries c.mas ver w.2) := by simpa using hqw
    subst this
    refine ⟨_, _, rfl, ?_⟩
    intro e he
    obtain ⟨wdb, ww⟩ := w
    cases ww with
    | rmeta =>
      simp only [senderEntries, List.mem_cons, List.not_mem_nil, or_false] at he
      rcases he with rfl | rfl
      · exact ⟨⟨fun h => by simp at h, fun _ => rfl⟩, rfl⟩
      · exact ⟨⟨fun h => by simp at h, fun h => by simp at h⟩, rfl⟩
    | off o =>
      simp only [senderEntries, List.mem_cons, List.not_mem_nil, or_false] at he
      subst he
      have hro := hr _ hw o rfl
      refine ⟨⟨fun _ => ?_, fun h => by simp at h⟩, rfl⟩
      show (Resp.parseInt64 (intToDec o)).isSome = true
      rw [Resp.parseInt64_intToDec o hro.1 hro.2]; rfl
  · simp at hqw

/-- **One sender life keeps `Good`.** The position is labelled with the master id (the relabel, if
    any, is complete), no rename is pending; the session replays the source stream after the stored
    position `(X, d)` (`LifeHyp`: the hypotheses of `Props.C02.Lives`) and the target dies after ANY
    number `k` of the requests on the wire. Then `Good` holds again, for a position `(Y, d')` with
    `X ≤ Y`. (`hhi`: the offsets written are int64, as they are in the code by type.) -/
theorem good_life (ver : Bytes) {t : Checkpoint.Target} {c : Ctl} {X : Int} {d : Nat} (G : Good t c X d)
    (hl : c.lab = c.mas) (hp : c.pend = none)
    (pc : Sender.PCfg) (sc : Sender.SCfg) (raws : List Sender.Raw) (evs : List Sender.Ev)
    (H : LifeHyp pc sc raws X (d : Int) evs) (k : Nat)
    (hhi : ∀ w ∈ logTrace {} ((Sender.run sc Sender.initS evs).2.flatten.take k),
      ∀ o, w.2 = BkW.off o → o < 2^63) :
    ∃ Y d', X ≤ Y ∧
      Good (applyAll t (lifeReqs c.key c.mas ver ((Sender.run sc Sender.initS evs).2.flatten.take k))) c Y d' := by
  obtain ⟨C, F, hH, hC⟩ := G
  obtain ⟨dbs, hfin⟩ := F.str.fin
  have hC' : Carrier c.mas t c.key d X := hl ▸ hC
  have hsub : ∀ x, matchId [c.mas] x = true → matchId [c.mas, c.sec] x = true := by
    intro x hx; rw [matchId_one] at hx; rw [matchId_pair]; exact Or.inl hx
  have habs : Abs c.mas c.key (absOf c.mas c.key dbs t).cps t :=
    fun db => getCp_absOf (fun db' h => hfin db' h c.key) db
  have hkd : hasKey (c.mas, Kind.offset) (t.cps d c.key) := by
    apply Classical.byContradiction
    intro hno
    have h1 := offOf_one_of_not hno
    have h2 := hC'.1
    have h3 := hH.nonneg
    omega
  -- the abstract target: unique largest offset, every offset with its run id
  have hu : Target.UniqueMax (absOf c.mas c.key dbs t).cps (d : Int) X := by
    constructor
    · rw [habs d, absRec_offset_of hkd, hC'.1]
    · intro d' hd' o' ho'
      by_cases hneg : d' < 0
      · rw [getCp_absOf_neg _ _ _ _ _ hneg] at ho'; cases ho'
      · have hd'' : ((d'.toNat : Nat) : Int) = d' := Int.toNat_of_nonneg (by omega)
        rw [← hd'', habs d'.toNat] at ho'
        obtain ⟨_, hv⟩ := absRec_offset_some ho'
        have hdb : d'.toNat ≠ d := fun h => hd' (by rw [← hd'', h])
        have := offOf_lt_of_below ((hH.dom _ hdb).sub hsub) hH.nonneg
        omega
  have hr : Sender.RunIdInv (absOf c.mas c.key dbs t) := by
    intro d0 o ho
    by_cases hneg : d0 < 0
    · rw [getCp_absOf_neg _ _ _ _ _ hneg] at ho; cases ho
    · have hd'' : ((d0.toNat : Nat) : Int) = d0 := Int.toNat_of_nonneg (by omega)
      rw [← hd'', habs d0.toNat] at ho ⊢
      obtain ⟨hk, _⟩ := absRec_offset_some ho
      have := F.hasrid _ hk
      simp [absRec, this]
  obtain ⟨d', Y, hd'0, hXY, hum, hrun, hlow⟩ := life_abs pc sc raws X d evs H hH.nonneg
    (Int.natCast_nonneg d) (absOf c.mas c.key dbs t) rfl rfl hu hr k
  generalize hlog : (Sender.run sc Sender.initS evs).2.flatten.take k = log' at hum hrun hlow hhi ⊢
  have htr : logTrace (absOf c.mas c.key dbs t) log' = logTrace {} log' :=
    logTrace_congr log' ⟨rfl, rfl⟩
  have hlo : ∀ w ∈ logTrace {} log', ∀ o, w.2 = BkW.off o → X ≤ o := by
    intro w hw o ho
    obtain ⟨wdb, ww⟩ := w
    simp only at ho; subst ho
    rcases logTrace_off log' {} hw with h | ⟨q, hq, _⟩
    · exact hlow o h
    · cases hq
  have hrange : ∀ w ∈ logTrace {} log', ∀ o, w.2 = BkW.off o → InRange o := by
    intro w hw o ho
    have h1 := hlo w hw o ho
    have h2 := hH.nonneg
    exact ⟨by omega, hhi w hw o ho⟩
  have habs' : Abs c.mas c.key (Target.applyLog (absOf c.mas c.key dbs t) log').cps
      (applyAll t (lifeReqs c.key c.mas ver log')) := by
    rw [logTrace_cps, htr]
    exact abs_fold _ habs hrange
  have hmw := lifeReqs_masWrite c ver (logTrace {} log') hrange
  obtain ⟨Fnr', hold, hmono, hhash⟩ := frameNR_masWrites C (lifeReqs c.key c.mas ver log') F.nr hmw
  generalize ht' : applyAll t (lifeReqs c.key c.mas ver log') = t' at habs' Fnr' hold hmono hhash ⊢
  generalize hT' : Target.applyLog (absOf c.mas c.key dbs t) log' = T' at habs' hum hrun
  have hdN : ((d'.toNat : Nat) : Int) = d' := Int.toNat_of_nonneg hd'0
  -- the new position, read by the master id alone
  have hY := hum.1
  rw [← hdN, habs' d'.toNat] at hY
  obtain ⟨hYk, hYv⟩ := absRec_offset_some hY
  have hrid' : ∀ db, hasKey (c.mas, Kind.offset) (t'.cps db c.key) → hasKey (c.mas, Kind.runid) (t'.cps db c.key) := by
    intro db hk
    have h1 := hrun (db : Int) _ (by rw [habs' db]; exact absRec_offset_of hk)
    rw [habs' db] at h1
    simpa [absRec] using h1
  have hpar : ∀ db, Parses [c.mas, c.sec] (t'.cps db c.key) := fun db => parses_of_ok Fnr'.str _ db _
  have hqok : ∀ db, ∀ x ∈ t'.cps db c.key, ridSel [c.mas, c.sec] x = true → x.val ≠ qmark := by
    intro db x hx hsx
    rw [ridSel_iff] at hsx
    rw [(Fnr'.str.ok db c.key x hx).2 hsx.2]
    rcases (matchId_pair _ _ _).mp hsx.1 with h | h <;> rw [h]
    · exact C.mq
    · exact C.sq
  have hlt : d'.toNat ≠ d → X < Y := by
    intro hne
    have h0 : ∃ v, (Target.getCp (absOf c.mas c.key dbs t).cps (d : Int)).offset = some v ∧ X ≤ v :=
      ⟨X, hu.1, Int.le_refl _⟩
    obtain ⟨v, hv, hXv⟩ := absFold_ge X d (logTrace {} log') _ h0 hlo
    rw [← htr, ← logTrace_cps, hT'] at hv
    have := hum.2 (d : Int) (fun h => hne (by rw [← h]; simp)) v hv
    omega
  refine ⟨Y, d'.toNat, hXY, C, ?_, ?_, ?_⟩
  · refine (⟨Fnr'.hashL, Fnr'.hashM, Fnr'.str, Fnr'.ord, fun db => (Fnr'.sle db).mono hXY, ?_⟩ :
      FrameNR t' c Y d'.toNat).withRid hrid'
    intro p hp'; rw [hp] at hp'; cases hp'
  · refine ⟨Int.le_trans hH.nonneg hXY, hpar, ?_, ?_, ?_⟩
    · rw [offOf_pair_eq_one (Fnr'.ord _) (hpar _) hYk]; exact hYv
    · exact ridOf_ne_of_hasKey ((matchId_pair _ _ _).mpr (Or.inl rfl)) (hrid' _ hYk) (hqok _)
    · intro db hdb x hx hsx v hv
      rw [offSel_iff, matchId_pair] at hsx
      rcases hsx.1 with hm | hs
      · have hk : x.key = (c.mas, Kind.offset) := by show (x.rid, x.kind) = _; rw [hm, hsx.2]
        have hv' := offOf_one_of_mem (Fnr'.str.nodup db c.key) hx hk hv
        have hne : (db : Int) ≠ d' := fun h => hdb (by rw [← h]; simp)
        apply hum.2 (db : Int) hne v
        rw [habs' db, absRec_offset_of ⟨x, hx, hk⟩, hv']
      · have hxo := hold db c.key x hx (by rw [hs]; exact C.hne.symm)
        have hs1 : offSel [c.sec] x = true := by rw [offSel_iff, matchId_one]; exact ⟨hs, hsx.2⟩
        have hle := F.sle db x hxo hs1 v hv
        by_cases hdd : db = d
        · have := hlt (fun h => hdb (by rw [hdd, h]))
          omega
        · have hs2 : offSel [c.mas, c.sec] x = true := by
            rw [offSel_iff, matchId_pair]; exact ⟨Or.inr hs, hsx.2⟩
          have := hH.dom db hdd x hxo hs2 v hv
          omega
  · rw [hl]
    refine ⟨hYv, ridOf_ne_of_hasKey ((matchId_one _ _).mpr rfl) (hrid' _ hYk) ?_⟩
    intro x hx hsx
    apply hqok _ x hx
    rw [ridSel_iff] at hsx ⊢
    exact ⟨hsub _ hsx.1, hsx.2⟩

end GunYu.BookSys
