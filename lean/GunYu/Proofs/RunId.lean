/-
  D18 as a theorem: on the target, every database that holds a `<rid>_offset`
  written by a run also holds the `<rid>_runid` field -- at EVERY prefix of the
  requests the target executes, for every configuration and schedule. Without it
  `StartPoint` reads the record as run id "?" and the position is lost.

  The proof couples the sender's bookkeeping (`connDb`, `cpInDbs`) with the
  target's state between flushes.
-/
import GunYu.Proofs.Crash
import GunYu.Proofs.SenderRun
import GunYu.Proofs.Parser

namespace GunYu.Sender
open GunYu GunYu.Target

/-- every database that stores an offset also stores the run id -/
def RunIdInv (t : TState) : Prop :=
  ∀ d o, (getCp t.cps d).offset = some o → (getCp t.cps d).hasRunId = true

/-- what the sender believes between two flushes is true of the target -/
def Coupled (s : SState) (t : TState) : Prop :=
  t.cur = s.connDb ∧
  (∀ d, s.cpInDbs.contains d = true → (getCp t.cps d).hasRunId = true) ∧
  RunIdInv t

/-- a `select` item's `db` tag is the database its argument selects (true of every
    item the parser hands over: `selectItem`) -/
def SelOK (it : Item) : Prop := it.cmd = bSelect → ∀ cur, selArg cur it.args = it.db

def AllPrefixes (P : TState → Prop) (t : TState) (l : List Req) : Prop :=
  ∀ k, P ((l.take k).foldl execReq t)

theorem allPrefixes_append {P : TState → Prop} {t : TState} {a b : List Req}
    (ha : AllPrefixes P t a) (hb : AllPrefixes P (a.foldl execReq t) b) : AllPrefixes P t (a ++ b) := by
  intro k
  by_cases hk : k ≤ a.length
  · have : (a ++ b).take k = a.take k := by
      rw [List.take_append_of_le_length hk]
    rw [this]; exact ha k
  · have hk' : a.length ≤ k := by omega
    have : (a ++ b).take k = a ++ b.take (k - a.length) := by
      rw [List.take_append]
      simp [List.take_of_length_le hk']
    rw [this, List.foldl_append]
    exact hb _

theorem allPrefixes_nil {P : TState → Prop} {t : TState} (h : P t) : AllPrefixes P t [] := by
  intro k; simpa using h

theorem getCp_setCp (cps : List (Int × CpRec)) (d d' : Int) (r : CpRec) :
    getCp (setCp cps d r) d' = if d' = d then r else getCp cps d' := by
  unfold getCp setCp
  by_cases h : d' = d
  · subst h; simp [List.lookup]
  · simp only [h, ↓reduceIte, List.lookup]
    have hb : (d' == d) = false := by simpa using h
    rw [hb]
    congr 1
    induction cps with
    | nil => rfl
    | cons p rest ih =>
      simp only [List.filter]
      by_cases hp : p.1 = d
      · have : decide (p.1 ≠ d) = false := by simp [hp]
        rw [this]
        simp only [List.lookup]
        have hne : (d' == p.1) = false := by rw [hp]; exact hb
        rw [hne]; exact ih
      · have : decide (p.1 ≠ d) = true := by simp [hp]
        rw [this]
        simp only [List.lookup]
        cases hq : (d' == p.1) with
        | true => rfl
        | false => exact ih

/-- executing the queued commands: the checkpoint records are untouched, the
    connection ends in `dbAfter` -/
theorem exec_cmds (q : List Item) (hq : ∀ i ∈ q, SelOK i) (t : TState) :
    ((q.map (fun i => Req.cmd i.cmd i.args i.offset)).foldl execReq t).cps = t.cps ∧
    ((q.map (fun i => Req.cmd i.cmd i.args i.offset)).foldl execReq t).cur = dbAfter t.cur q := by
  induction q generalizing t with
  | nil => exact ⟨rfl, rfl⟩
  | cons i rest ih =>
    have hrest : ∀ j ∈ rest, SelOK j := fun j hj => hq j (List.mem_cons_of_mem _ hj)
    simp only [List.map_cons, List.foldl_cons, dbAfter]
    have h1 : (execReq t (Req.cmd i.cmd i.args i.offset)).cps = t.cps ∧
        (execReq t (Req.cmd i.cmd i.args i.offset)).cur = (if i.cmd = bSelect then i.db else t.cur) := by
      simp only [execReq]
      by_cases hs : i.cmd = bSelect
      · have hsel := hq i (List.mem_cons_self ..) hs t.cur
        simp only [hs, ↓reduceIte]
        unfold selArg at hsel
        split
        · rename_i a ha
          rw [ha] at hsel
          split
          · rename_i n hn
            simp only [hn] at hsel
            exact ⟨rfl, by simpa using hsel⟩
          · rename_i hn
            simp only [hn] at hsel
            exact ⟨rfl, by simpa using hsel⟩
        · rename_i hna
          refine ⟨rfl, ?_⟩
          have : (match i.args with | [x] => (atoi? x).getD t.cur | _ => t.cur) = t.cur := by
            split
            · rename_i x hx; exact absurd hx (hna x)
            · rfl
          rw [← hsel]; exact this.symm
      · simp only [hs, ↓reduceIte]
        split <;> exact ⟨rfl, rfl⟩
    obtain ⟨hc, hcur⟩ := ih hrest (execReq t (Req.cmd i.cmd i.args i.offset))
    refine ⟨by rw [hc, h1.1], ?_⟩
    rw [hcur, h1.2]
    rfl

theorem allPrefixes_cmds (q : List Item) (hq : ∀ i ∈ q, SelOK i) (t : TState) (h : RunIdInv t) :
    AllPrefixes RunIdInv t (q.map (fun i => Req.cmd i.cmd i.args i.offset)) := by
  intro k
  have : (q.map (fun i => Req.cmd i.cmd i.args i.offset)).take k =
      (q.take k).map (fun i => Req.cmd i.cmd i.args i.offset) := by
    rw [List.map_take]
  rw [this]
  have hc := (exec_cmds (q.take k) (fun i hi => hq i (List.mem_of_mem_take hi)) t).1
  intro d o ho
  rw [hc] at ho ⊢
  exact h d o ho

theorem runIdInv_cpMeta (t : TState) (h : RunIdInv t) : RunIdInv (execReq t .cpMeta) := by
  intro d o ho
  simp only [execReq] at ho ⊢
  rw [getCp_setCp] at ho ⊢
  by_cases hd : d = t.cur
  · simp [hd]
  · simp only [hd, ↓reduceIte] at ho ⊢
    exact h d o ho

theorem runIdInv_cpOffset (t : TState) (o : Int) (h : RunIdInv t)
    (hr : (getCp t.cps t.cur).hasRunId = true) : RunIdInv (execReq t (.cpOffset o)) := by
  intro d o' ho
  simp only [execReq] at ho ⊢
  rw [getCp_setCp] at ho ⊢
  by_cases hd : d = t.cur
  · simp only [hd, ↓reduceIte]; exact hr
  · simp only [hd, ↓reduceIte] at ho ⊢
    exact h d o' ho

theorem stripB_sendReqs (c : SCfg) (s : SState) (tb u : Bool) (off : Int) :
    stripB (sendReqs c s tb u off) =
      s.queue.map (fun i => Req.cmd i.cmd i.args i.offset) ++ cpPart c s u off := by
  unfold sendReqs
  cases tb
  · simp only [Bool.false_eq_true, ↓reduceIte, List.nil_append, List.append_nil]
    exact stripB_plain _ (by
      intro r hr
      rcases List.mem_append.mp hr with h | h
      · exact plain_cmds _ r h
      · exact plain_cpPart c s u off r h)
  · simp only [↓reduceIte]
    have := stripB_block (s.queue.map (fun i => Req.cmd i.cmd i.args i.offset) ++ cpPart c s u off)
    simpa [List.append_assoc] using this

/-- **One flush keeps the coupling**, and the run-id invariant holds after every
    request of it. -/
theorem sendOnce_coupled (c : SCfg) (s : SState) (tb up : Bool) (off : Int) (t : TState)
    (hc : Coupled s t) (hq : ∀ i ∈ s.queue, SelOK i) :
    AllPrefixes RunIdInv t (bodies (optToList (sendOnce c s tb up off).2)) ∧
    Coupled (sendOnce c s tb up off).1
      ((bodies (optToList (sendOnce c s tb up off).2)).foldl execReq t) ∧
    (∀ i ∈ (sendOnce c s tb up off).1.queue, SelOK i) := by
  obtain ⟨hcur, hin, hinv⟩ := hc
  unfold sendOnce
  simp only
  split
  · exact ⟨allPrefixes_nil hinv, ⟨hcur, hin, hinv⟩, hq⟩
  · split
    · exact ⟨allPrefixes_nil hinv, ⟨hcur, hin, hinv⟩, hq⟩
    · simp only [optToList, bodies, List.flatMap_cons, List.flatMap_nil, List.append_nil, stripB_sendReqs]
      generalize hu : (up && decide (0 ≤ off)) = u
      obtain ⟨hcps, hcur'⟩ := exec_cmds s.queue hq t
      generalize ht1 : (s.queue.map (fun i => Req.cmd i.cmd i.args i.offset)).foldl execReq t = t1 at hcps hcur'
      have hinv1 : RunIdInv t1 := by
        intro d o ho; rw [hcps] at ho ⊢; exact hinv d o ho
      have hcur1 : t1.cur = dbAfter s.connDb s.queue := by rw [hcur', hcur]
      have hin1 : ∀ d, s.cpInDbs.contains d = true → (getCp t1.cps d).hasRunId = true := by
        intro d hd; rw [hcps]; exact hin d hd
      -- the checkpoint part
      have hcp : AllPrefixes RunIdInv t1 (cpPart c s u off) ∧
          Coupled { s with queue := [], qbytes := 0, cpInDbs := cpInAfter c s u,
                           connDb := dbAfter s.connDb s.queue }
            ((cpPart c s u off).foldl execReq t1) := by
        unfold cpPart cpInAfter
        by_cases h1 : (u && c.resume) = true
        · simp only [h1, ↓reduceIte, Bool.true_and]
          by_cases hm : s.cpInDbs.contains (dbAfter s.connDb s.queue) = true
          · -- run id already there
            simp only [hm, ↓reduceIte, List.nil_append, Bool.not_true, Bool.false_eq_true]
            have hr : (getCp t1.cps t1.cur).hasRunId = true := by rw [hcur1]; exact hin1 _ hm
            refine ⟨?_, ?_, ?_, ?_⟩
            · intro k
              cases k with
              | zero => simpa using hinv1
              | succ k => simpa using runIdInv_cpOffset t1 off hinv1 hr
            · simp [execReq, hcur1]
            · intro d hd
              simp only [List.foldl_cons, List.foldl_nil, execReq]
              rw [getCp_setCp]
              by_cases hdd : d = t1.cur
              · simp only [hdd, ↓reduceIte]; exact hr
              · simp only [hdd, ↓reduceIte]; exact hin1 d hd
            · simpa using runIdInv_cpOffset t1 off hinv1 hr
          · simp only [hm, Bool.false_eq_true, ↓reduceIte, List.singleton_append, Bool.not_false]
            have hinv2 := runIdInv_cpMeta t1 hinv1
            have hr2 : (getCp (execReq t1 .cpMeta).cps (execReq t1 .cpMeta).cur).hasRunId = true := by
              simp [execReq, getCp_setCp]
            refine ⟨?_, ?_, ?_, ?_⟩
            · intro k
              cases k with
              | zero => simpa using hinv1
              | succ k =>
                cases k with
                | zero => simpa using hinv2
                | succ k => simpa using runIdInv_cpOffset _ off hinv2 hr2
            · simp [execReq, hcur1]
            · intro d hd
              simp only [List.foldl_cons, List.foldl_nil]
              have hcurm : (execReq t1 .cpMeta).cur = t1.cur := by simp [execReq]
              simp only [execReq]
              rw [getCp_setCp, getCp_setCp]
              by_cases hdd : d = t1.cur
              · simp [hdd]
              · simp only [hdd, ↓reduceIte]
                have hd' : s.cpInDbs.contains d = true := by
                  simp only [List.contains_cons, Bool.or_eq_true, beq_iff_eq] at hd
                  rcases hd with h | h
                  · exact absurd (h.trans hcur1.symm) hdd
                  · exact h
                first
                  | exact hin1 d hd'
                  | (rw [getCp_setCp]; simp only [hdd, ↓reduceIte]; exact hin1 d hd')
            · simpa using runIdInv_cpOffset _ off hinv2 hr2
        · have h1' : (u && c.resume) = false := by simpa using h1
          simp only [h1', Bool.false_eq_true, ↓reduceIte, Bool.false_and, List.foldl_nil]
          exact ⟨allPrefixes_nil hinv1, hcur1, hin1, hinv1⟩
      refine ⟨?_, ?_, by simp⟩
      · exact allPrefixes_append (allPrefixes_cmds s.queue hq t hinv) (by rw [ht1]; exact hcp.1)
      · rw [List.foldl_append, ht1]; exact hcp.2

/-- the coupling only looks at `connDb`, `cpInDbs` and the queue -/
theorem coupled_congr {s s' : SState} {t : TState} (h : Coupled s t)
    (h1 : s'.connDb = s.connDb) (h2 : s'.cpInDbs = s.cpInDbs) : Coupled s' t := by
  obtain ⟨a, b, c⟩ := h
  exact ⟨by rw [h1]; exact a, by rw [h2]; exact b, c⟩

theorem bodies_append (a b : List Batch) : bodies (a ++ b) = bodies a ++ bodies b := by
  simp [bodies]

/-- the same for the end-of-iteration flush -/
theorem tail_coupled (c : SCfg) (s : SState) (tb up : Bool) (t : TState)
    (hc : Coupled s t) (hq : ∀ i ∈ s.queue, SelOK i) :
    AllPrefixes RunIdInv t (bodies (tail c s tb up []).2) ∧
    Coupled (tail c s tb up []).1 ((bodies (tail c s tb up []).2).foldl execReq t) ∧
    (∀ i ∈ (tail c s tb up []).1.queue, SelOK i) := by
  unfold tail
  simp only
  split
  · rw [if_pos rfl]
    have h := sendOnce_coupled c { s with needFlush := true } tb up s.lastOffset t
      (coupled_congr hc rfl rfl) hq
    simp only [List.nil_append]
    exact ⟨h.1, coupled_congr h.2.1 rfl rfl, h.2.2⟩
  · split
    · have h := sendOnce_coupled c s tb up s.lastOffset t hc hq
      simp only [List.nil_append]
      exact ⟨h.1, coupled_congr h.2.1 rfl rfl, h.2.2⟩
    · exact ⟨allPrefixes_nil hc.2.2, hc, hq⟩

theorem preFlush_coupled (c : SCfg) (s : SState) (tx : Txn) (nf : Bool) (prev : Int) (t : TState)
    (hc : Coupled s t) (hq : ∀ i ∈ s.queue, SelOK i) :
    AllPrefixes RunIdInv t (bodies (preFlush c s tx nf prev).2) ∧
    Coupled (preFlush c s tx nf prev).1 ((bodies (preFlush c s tx nf prev).2).foldl execReq t) ∧
    (∀ i ∈ (preFlush c s tx nf prev).1.queue, SelOK i) := by
  unfold preFlush
  split
  · simp only
    have h := sendOnce_coupled c s c.txnMode (c.resume && c.txnMode)
      (if tx = Txn.commit then s.lastOffset else prev) t hc hq
    exact ⟨h.1, coupled_congr h.2.1 rfl rfl, h.2.2⟩
  · exact ⟨allPrefixes_nil hc.2.2, hc, hq⟩

theorem tail_out' (c : SCfg) (s : SState) (tb up : Bool) (out : List Batch) :
    tail c s tb up out = ((tail c s tb up []).1, out ++ (tail c s tb up []).2) := by
  unfold tail
  simp only
  split
  · simp
  · split <;> simp

/-- two flushes in a row -/
theorem then_tail (c : SCfg) (s1 : SState) (out1 : List Batch) (tb up : Bool) (t : TState)
    (h1 : AllPrefixes RunIdInv t (bodies out1))
    (h2 : Coupled s1 ((bodies out1).foldl execReq t)) (hq : ∀ i ∈ s1.queue, SelOK i) :
    AllPrefixes RunIdInv t (bodies (tail c s1 tb up out1).2) ∧
    Coupled (tail c s1 tb up out1).1 ((bodies (tail c s1 tb up out1).2).foldl execReq t) ∧
    (∀ i ∈ (tail c s1 tb up out1).1.queue, SelOK i) := by
  rw [tail_out']
  simp only [bodies_append, List.foldl_append]
  have h := tail_coupled c s1 tb up _ h2 hq
  exact ⟨allPrefixes_append h1 h.1, h.2.1, h.2.2⟩

/-- **One iteration of the loop keeps the coupling.** -/
theorem step_coupled (c : SCfg) (s : SState) (ev : Ev) (t : TState)
    (hc : Coupled s t) (hq : ∀ i ∈ s.queue, SelOK i) (hev : ∀ it, ev = .item it → SelOK it) :
    AllPrefixes RunIdInv t (bodies (step c s ev).2) ∧
    Coupled (step c s ev).1 ((bodies (step c s ev).2).foldl execReq t) ∧
    (∀ i ∈ (step c s ev).1.queue, SelOK i) := by
  have plain : ∀ (s0 : SState) tb up, s0.connDb = s.connDb → s0.cpInDbs = s.cpInDbs →
      (∀ i ∈ s0.queue, SelOK i) →
      AllPrefixes RunIdInv t (bodies (tail c s0 tb up []).2) ∧
      Coupled (tail c s0 tb up []).1 ((bodies (tail c s0 tb up []).2).foldl execReq t) ∧
      (∀ i ∈ (tail c s0 tb up []).1.queue, SelOK i) :=
    fun s0 tb up h1 h2 h3 => tail_coupled c s0 tb up t (coupled_congr hc h1 h2) h3
  cases ev with
  | item it =>
    have hit := hev it rfl
    simp only [step]
    split
    · exact ⟨allPrefixes_nil hc.2.2, coupled_congr hc rfl rfl, hq⟩
    · unfold stepItem
      simp only
      split
      · -- transactional mode: flush what was queued, absorb, end-of-iteration flush
        unfold stepItemTxn
        simp only
        generalize hs0 : ({ s with lastOffset := it.offset, txn := (txnStatus it.cmd s.txn).1, needFlush := (txnStatus it.cmd s.txn).2 } : SState) = s0
        have hc0 : Coupled s0 t := coupled_congr hc (by rw [← hs0]) (by rw [← hs0])
        have hq0 : ∀ i ∈ s0.queue, SelOK i := by rw [← hs0]; exact hq
        obtain ⟨p1, p2, p3⟩ := preFlush_coupled c s0 (txnStatus it.cmd s.txn).1
          (txnStatus it.cmd s.txn).2 s.lastOffset t hc0 hq0
        generalize hpf : preFlush c s0 (txnStatus it.cmd s.txn).1 (txnStatus it.cmd s.txn).2 s.lastOffset = pf at p1 p2 p3
        have hab : (absorb pf.1 (txnStatus it.cmd s.txn).1 it).connDb = pf.1.connDb ∧
            (absorb pf.1 (txnStatus it.cmd s.txn).1 it).cpInDbs = pf.1.cpInDbs ∧
            (∀ i ∈ (absorb pf.1 (txnStatus it.cmd s.txn).1 it).queue, SelOK i) := by
          unfold absorb
          split
          · refine ⟨rfl, rfl, ?_⟩
            intro i hi
            simp only [enqueue, List.mem_append, List.mem_singleton] at hi
            rcases hi with h | h
            · exact p3 i h
            · rw [h]; exact hit
          · split
            · exact ⟨rfl, rfl, p3⟩
            · exact ⟨rfl, rfl, p3⟩
        exact then_tail c _ pf.2 _ _ t p1 (coupled_congr p2 hab.1 hab.2.1) hab.2.2
      · unfold stepItemPlain
        split
        · exact ⟨allPrefixes_nil hc.2.2, coupled_congr hc rfl rfl, hq⟩
        · split
          · exact plain _ _ _ rfl rfl hq
          · refine plain _ _ _ rfl rfl ?_
            intro i hi
            simp only [enqueue, List.mem_append, List.mem_singleton] at hi
            rcases hi with h | h
            · exact hq i h
            · rw [h]; exact hit
  | batchTick =>
    simp only [step]
    split
    · exact plain _ _ _ rfl rfl hq
    · exact plain _ _ _ rfl rfl hq
  | keepaliveTick =>
    simp only [step]
    split
    · split
      · refine plain _ _ _ rfl rfl ?_
        intro i hi
        simp only [List.mem_singleton] at hi
        rw [hi]
        intro h
        have : bPing ≠ bSelect := by decide
        exact absurd h this
      · exact plain _ _ _ rfl rfl hq
    · exact plain _ _ _ rfl rfl hq
  | cpTick =>
    simp only [step]
    split
    · exact plain _ _ _ rfl rfl hq
    · exact plain _ _ _ rfl rfl hq
  | done =>
    simp only [step]
    split
    · exact plain _ _ _ rfl rfl hq
    · exact plain _ _ _ rfl rfl hq

/-- the whole run -/
theorem run_coupled (c : SCfg) (s : SState) (evs : List Ev) (t : TState)
    (hc : Coupled s t) (hq : ∀ i ∈ s.queue, SelOK i)
    (hev : ∀ ev ∈ evs, ∀ it, ev = .item it → SelOK it) :
    AllPrefixes RunIdInv t (bodies (run c s evs).2) := by
  induction evs generalizing s t with
  | nil => simpa [run, bodies] using allPrefixes_nil hc.2.2
  | cons ev rest ih =>
    obtain ⟨h1, h2, h3⟩ := step_coupled c s ev t hc hq (hev ev (List.mem_cons_self ..))
    simp only [run]
    split
    · exact h1
    · rw [bodies_append]
      exact allPrefixes_append h1
        (ih _ _ h2 h3 (fun e he => hev e (List.mem_cons_of_mem _ he)))

/-- every item the parser hands over has a truthful `db` tag on its `select`s
    (source SELECT arguments are non-negative) -/
theorem parseStep_emit_selOK (c : PCfg) (s : PState) (r : Raw) (i : Item)
    (hsel : r.cmd = bSelect → ∀ a n, r.args = [a] → atoi? a = some n → 0 ≤ n)
    (h : (parseStep c s r).2 = POut.emit i) : SelOK i := by
  by_cases hp : r.cmd = bPing
  · unfold parseStep at h
    simp only [hp, ↓reduceIte] at h
    cases hf : c.filterCmdKey bPing r.args with
    | none => simp [hf] at h
    | some a =>
      simp only [hf] at h
      cases hb : s.bypass <;> simp [hb] at h
      subst h
      intro hs
      have : bPing ≠ bSelect := by decide
      exact absurd (hp ▸ hs) this
  · by_cases hs : r.cmd = bSelect
    · have hne : bSelect ≠ bPing := by decide
      unfold parseStep at h
      simp only [hs, hne, ↓reduceIte] at h
      cases ha : r.args with
      | nil => simp [ha] at h
      | cons a rest =>
        cases rest with
        | cons _ _ => simp [ha] at h
        | nil =>
          simp only [ha] at h
          cases hn : atoi? a with
          | none => simp [hn] at h
          | some n =>
            simp only [hn] at h
            have h0 : 0 ≤ n := hsel hs a n ha hn
            cases hdb : c.filterDb n
            · simp only [hdb, Bool.false_eq_true, ↓reduceIte] at h
              cases hf : c.filterCmdKey bSelect [a] with
              | none => simp [hf] at h
              | some x =>
                simp only [hf, h0, ↓reduceIte] at h
                by_cases hch : (selectDB c s.currentDB n).2 = true
                · simp only [hch, ↓reduceIte] at h
                  injection h with h; subst h
                  intro _ cur
                  exact selArg_selectItem cur _ r.off
                · simp [hch] at h
            · simp [hdb] at h
    · rw [parseStep_data c s r hp hs] at h
      by_cases h1 : c.filterCmd r.cmd = true
      · simp [h1] at h
      · by_cases h2 : r.cmd = bPublish ∧ (r.args.head?.map lower) = some bSentinelHello
        · simp [h1, h2] at h
        · by_cases h3 : s.bypass = true ∧ passBracket s r.cmd = false
          · simp [h1, h2, h3] at h
          · simp only [h1, h2, h3, Bool.false_eq_true, ↓reduceIte] at h
            cases hf : c.filterCmdKey r.cmd r.args with
            | none => rw [hf] at h; simp at h
            | some a =>
              rw [hf] at h
              simp only at h
              injection h with h; subst h
              intro hsl; exact absurd hsl hs

theorem parseAll_selOK (c : PCfg) (raws : List Raw) (s : PState)
    (hsel : ∀ r ∈ raws, r.cmd = bSelect → ∀ a n, r.args = [a] → atoi? a = some n → 0 ≤ n) :
    ∀ i ∈ parseAll c s raws, SelOK i := by
  induction raws generalizing s with
  | nil => intro i hi; simp [parseAll] at hi
  | cons r rest ih =>
    have hsel' : ∀ r' ∈ rest, r'.cmd = bSelect → ∀ a n, r'.args = [a] → atoi? a = some n → 0 ≤ n :=
      fun r' hr' => hsel r' (List.mem_cons_of_mem _ hr')
    intro i hi
    simp only [parseAll] at hi
    cases hps : parseStep c s r with
    | mk s' o =>
      rw [hps] at hi
      cases o with
      | fail => simp at hi
      | skip => exact ih s' hsel' i hi
      | emit j =>
        simp only [List.mem_cons] at hi
        rcases hi with rfl | hi
        · exact parseStep_emit_selOK c s r i (hsel r (List.mem_cons_self ..)) (by rw [hps])
        · exact ih s' hsel' i hi

end GunYu.Sender
